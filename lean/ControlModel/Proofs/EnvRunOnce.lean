/-
  Proofs/EnvRunOnce — the end-of-run stamps are written at most once per run (for C10), and the
  legacy chain of Model/EnvLegacy.lean with its switches ON is the model of the code as it is.
-/
import ControlModel.Proofs.EnvRun
import ControlModel.Model.EnvLegacy

namespace EnvM
set_option linter.unusedSimpArgs false

/-! ### `stepOf codeRunCfg` is `step` -/

theorem bkAfterOf_code : bkAfterOf codeRunCfg = bkAfter := by
  funext env e f; simp [bkAfterOf, codeRunCfg]

theorem weightsForOf_code : weightsForOf codeRunCfg = weightsFor := by
  funext env hooks m p; simp [weightsForOf, codeRunCfg]

theorem handleHooksOf_code : handleHooksOf codeRunCfg = handleHooks := by
  funext env hooks m p; unfold handleHooksOf handleHooks; rw [weightsForOf_code]

theorem beforeEventOf_code : beforeEventOf codeRunCfg = beforeEvent := by
  funext env hooks e r; unfold beforeEventOf beforeEvent; rw [handleHooksOf_code]

theorem leaveStateOf_code : leaveStateOf codeRunCfg = leaveState := by
  funext env hooks e b; unfold leaveStateOf leaveState; rw [handleHooksOf_code]

theorem enterStateOf_code : enterStateOf codeRunCfg = enterState := by
  funext env hooks; unfold enterStateOf enterState; rw [handleHooksOf_code]

theorem teardownOf_code : teardownOf codeRunCfg = teardown := by
  funext env hooks f r1 r2 n; unfold teardownOf teardown; rw [handleHooksOf_code]

theorem afterEventOf_code : afterEventOf codeRunCfg = afterEvent := by
  funext env hooks e errs; unfold afterEventOf afterEvent; rw [bkAfterOf_code, handleHooksOf_code]

theorem fsmEventOf_code : fsmEventOf codeRunCfg = fsmEvent := by
  funext env hooks e b r; unfold fsmEventOf fsmEvent
  rw [afterEventOf_code, beforeEventOf_code, leaveStateOf_code, enterStateOf_code]; rfl

/-- The C10 legacy configuration leaves the passes alone: its `handleHooksOf` is `handleHooks`. -/
theorem handleHooksOf_legacyRun : handleHooksOf legacyRunCfg = handleHooks := by
  funext env hooks m p; simp [handleHooksOf, handleHooks, weightsForOf, legacyRunCfg]

theorem controlApiOf_code : controlApiOf codeRunCfg = controlApi := by
  funext env hooks e b r; unfold controlApiOf controlApi tryTransition; rw [fsmEventOf_code]; rfl

/-- The configurable chain with the switch ON is the model of the code as it is. -/
theorem stepOf_code : stepOf codeRunCfg = step := by
  funext hooks n env q
  cases q <;> simp only [stepOf, step, tryTransition, fsmEventOf_code, controlApiOf_code, teardownOf_code]

theorem finalEnvOf_code : finalEnvOf codeRunCfg = finalEnv := by
  funext hooks n env qs; unfold finalEnvOf finalEnv; rw [stepOf_code]

/-- …and with the switch OFF it differs in the STOP_ACTIVITY branch of after_event only. -/
theorem bkAfterOf_legacy_other (env : Env) (e : Ev) (f : Bool) (he : e ≠ .STOP_ACTIVITY) :
    bkAfterOf legacyRunCfg env e f = bkAfter env e f := by
  cases e <;> first | exact absurd rfl he | rfl

/-! ### a stamp that is set keeps its value (outside START_ACTIVITY) -/

/-- set stays set TO THE SAME VALUE -/
def TV.fixed (a b : TV) : Prop := ∀ t, a = .val t → b = .val t

theorem TV.fixed_refl (a : TV) : TV.fixed a a := fun _ h => h
theorem TV.fixed_trans {a b c : TV} (h1 : TV.fixed a b) (h2 : TV.fixed b c) : TV.fixed a c :=
  fun t h => h2 t (h1 t h)

def EndFixed (v v' : Vars) : Prop := TV.fixed v.soeor v'.soeor ∧ TV.fixed v.eoeor v'.eoeor

theorem EndFixed.refl (v : Vars) : EndFixed v v := ⟨TV.fixed_refl _, TV.fixed_refl _⟩
theorem EndFixed.trans {a b c : Vars} (h1 : EndFixed a b) (h2 : EndFixed b c) : EndFixed a c :=
  ⟨TV.fixed_trans h1.1 h2.1, TV.fixed_trans h1.2 h2.2⟩
theorem EndFixed.of_eq {a b : Vars} (h : b = a) : EndFixed a b := by rw [h]; exact EndFixed.refl a

theorem setSoeor_fixed (env : Env) (tr : String) (p : Bool) : EndFixed env.vars (setSoeorIfEmpty env tr p).1.vars := by
  unfold setSoeorIfEmpty
  split
  · rename_i h
    refine ⟨fun t ht => ?_, ?_⟩
    · rw [ht] at h; simp [TV.isEmpty] at h
    · simp only [tick]; exact TV.fixed_refl _
  · exact EndFixed.refl _

theorem setEoeor_fixed (env : Env) (tr : String) (s : RunStatus) : EndFixed env.vars (setEoeorIfEmpty env tr s).1.vars := by
  unfold setEoeorIfEmpty
  split
  · rename_i h
    refine ⟨?_, fun t ht => ?_⟩
    · simp only [tick]; exact TV.fixed_refl _
    · rw [ht] at h; simp [TV.isEmpty] at h
  · exact EndFixed.refl _

theorem handleHooks_fixed (env : Env) (hooks : List Hook) (m : Moment) (p : Int → Bool) :
    EndFixed env.vars (handleHooks env hooks m p).1.vars := EndFixed.of_eq (handleHooks_vars env hooks m p)

theorem bkBefore_fixed (env : Env) (e : Ev) (r : Bool) (he : e ≠ .START_ACTIVITY) : EndFixed env.vars (bkBefore env e r).1.vars := by
  unfold bkBefore
  cases e <;> simp only [] <;> first | exact EndFixed.refl _ | exact setSoeor_fixed .. | exact absurd rfl he

theorem beforeEvent_fixed (env : Env) (hooks : List Hook) (e : Ev) (r : Bool) (he : e ≠ .START_ACTIVITY) :
    EndFixed env.vars (beforeEvent env hooks e r).1.vars := by
  have h1 := handleHooks_fixed env hooks (.before e) negW
  have h2 := bkBefore_fixed (handleHooks env hooks (.before e) negW).1 e r he
  have h3 := handleHooks_fixed (bkBefore (handleHooks env hooks (.before e) negW).1 e r).1 hooks (.before e) posW
  unfold beforeEvent
  simp only
  (repeat' split) <;> first | exact h1 | exact h1.trans h2 | exact (h1.trans h2).trans h3

theorem leaveState_fixed (env : Env) (hooks : List Hook) (e : Ev) (b : Bool) :
    EndFixed env.vars (leaveState env hooks e b).1.vars := by
  have h1 := handleHooks_fixed env hooks (.leave env.st) negW
  have h2 := setSoeor_fixed (handleHooks env hooks (.leave env.st) negW).1 e.name false
  have h3 := handleHooks_fixed (setSoeorIfEmpty (handleHooks env hooks (.leave env.st) negW).1 e.name false).1 hooks (.leave env.st) posW
  have h3' := handleHooks_fixed (handleHooks env hooks (.leave env.st) negW).1 hooks (.leave env.st) posW
  unfold leaveState
  simp only
  (repeat' split) <;>
    first
    | exact h1
    | exact h1.trans h2
    | exact (h1.trans h2).trans h3
    | exact h1.trans h3'

theorem enterState_fixed (env : Env) (hooks : List Hook) : EndFixed env.vars (enterState env hooks).1.vars := by
  unfold enterState
  simp only
  exact (handleHooks_fixed env hooks _ negW).trans (handleHooks_fixed _ hooks _ posW)

/-- Every branch of after_event's bookkeeping leaves a set end stamp alone: START_ACTIVITY writes the
    start-completion stamp only, STOP_ACTIVITY and GO_ERROR go through the guarded writer. (False of
    `bkAfterLegacy`.) -/
theorem bkAfter_fixed (env : Env) (e : Ev) (f : Bool) : EndFixed env.vars (bkAfter env e f).1.vars := by
  unfold bkAfter
  cases e <;> simp only [] <;>
    first
    | exact EndFixed.refl _
    | exact setEoeor_fixed ..
    | (simp only [tick]; exact ⟨TV.fixed_refl _, TV.fixed_refl _⟩)

theorem finAfter_fixed (env : Env) (e : Ev) : EndFixed env.vars (finAfter env e).1.vars := by
  unfold finAfter
  split
  · exact ⟨TV.fixed_refl _, TV.fixed_refl _⟩
  · exact EndFixed.refl _

theorem afterEvent_fixed (env : Env) (hooks : List Hook) (e : Ev) (errs : List (Nat × Moment)) :
    EndFixed env.vars (afterEvent env hooks e errs).1.vars := by
  unfold afterEvent
  simp only
  exact (((handleHooks_fixed env hooks _ negW).trans (bkAfter_fixed _ e _)).trans (handleHooks_fixed _ hooks _ posW)).trans (finAfter_fixed _ e)

/-- Outside START_ACTIVITY no transition ever rewrites an end-of-run stamp that is set. -/
theorem fsmEvent_fixed (env : Env) (hooks : List Hook) (e : Ev) (b r : Bool) (he : e ≠ .START_ACTIVITY) :
    EndFixed env.vars (fsmEvent env hooks e b r).1.vars := by
  unfold fsmEvent
  split
  · exact EndFixed.refl _
  · rename_i d hd
    simp only
    have hb := beforeEvent_fixed env hooks e r he
    split
    · exact hb
    · have hl := leaveState_fixed (beforeEvent env hooks e r).1 hooks e b
      split
      · exact hb.trans hl
      · have hen := enterState_fixed { (leaveState (beforeEvent env hooks e r).1 hooks e b).1 with st := d } hooks
        exact ((hb.trans hl).trans hen).trans (afterEvent_fixed _ hooks e _)

/-- Through the API glue too: the fallback GO_ERROR is not a START_ACTIVITY, and the forced write touches the
    state only. -/
theorem controlApi_fixed (env : Env) (hooks : List Hook) (e : Ev) (b r : Bool) (he : e ≠ .START_ACTIVITY) :
    EndFixed env.vars (controlApi env hooks e b r).1.vars := by
  have h1 := fsmEvent_fixed env hooks e b r he
  have h2 := fsmEvent_fixed (fsmEvent env hooks e b r).1 hooks .GO_ERROR true false (by decide)
  unfold controlApi tryTransition
  simp only
  (repeat' split) <;> first | exact h1 | exact h1.trans h2

/-- A teardown — forced or not, whatever becomes of its release rounds — stamps through the guarded writers only. -/
theorem teardown_fixed (env : Env) (hooks : List Hook) (f r1 r2 : Bool) (n : Nat) :
    EndFixed env.vars (teardown env hooks f r1 r2 n).1.vars := by
  have h0 := handleHooks_fixed env hooks (.leave env.st) allW
  have hA := setSoeor_fixed (handleHooks env hooks (.leave env.st) allW).1 "TEARDOWN" true
  have hB := setEoeor_fixed (setSoeorIfEmpty (handleHooks env hooks (.leave env.st) allW).1 "TEARDOWN" true).1 "TEARDOWN" .started
  have hrun := (h0.trans hA).trans hB
  unfold teardown
  simp only
  (repeat' split) <;> simp only [destroyWeights_vars] <;> first | exact EndFixed.refl _ | exact hrun | exact h0

/-- One request that is not a START_ACTIVITY. -/
def Req.notStart : Req → Bool
  | .try_ .START_ACTIVITY .. | .control .START_ACTIVITY .. => false
  | _ => true

theorem step_fixed (hooks : List Hook) (n : Nat) (env : Env) (q : Req) (hq : q.notStart = true) :
    EndFixed env.vars (step hooks n env q).1.vars := by
  cases q with
  | try_ e b r =>
    have he : e ≠ .START_ACTIVITY := by rintro rfl; simp [Req.notStart] at hq
    exact fsmEvent_fixed env hooks e b r he
  | control e b r =>
    have he : e ≠ .START_ACTIVITY := by rintro rfl; simp [Req.notStart] at hq
    simp only [step]
    split
    · exact EndFixed.refl _
    · exact controlApi_fixed env hooks e b r he
  | teardown f r1 r2 =>
    simp only [step]
    split
    · exact EndFixed.refl _
    · exact teardown_fixed env hooks f r1 r2 n

/-- Any sequence of requests without a START_ACTIVITY. -/
theorem finalEnv_fixed (hooks : List Hook) (n : Nat) (env : Env) (qs : List Req) (hq : qs.all Req.notStart = true) :
    EndFixed env.vars (finalEnv hooks n env qs).vars := by
  induction qs generalizing env with
  | nil => exact EndFixed.refl _
  | cons q qs ih =>
    simp only [List.all_cons, Bool.and_eq_true] at hq
    have h1 := step_fixed hooks n env q hq.1
    have h2 := ih (step hooks n env q).1 hq.2
    unfold finalEnv at h2 ⊢
    simp only [List.foldl_cons]
    exact h1.trans h2

end EnvM
