/-
  Proofs/ExecGiveUp — the launch failure of a controllable task (C17): doTermIntKill over a process GROUP whose
  members have signal dispositions of their own, and the run-level invariant "once the executor has given a
  launch up, nothing of the task runs" (core only).
-/
import ControlModel.Proofs.ExecTask

namespace ExecTask

/-! ### doTermIntKill over a process group -/

@[simp] theorem survives_kill (d : Disp) : d.survives .KILL = false := by cases d <;> rfl

@[simp] theorem filter_survives_kill (l : List Disp) : l.filter (fun d => d.survives .KILL) = [] := by
  induction l with
  | nil => rfl
  | cons d ds ih => simp [List.filter]

/-- Nobody waits for the command: as long as the leader's pid exists when the escalation begins (running, or a
    zombie) it exists at both tests — SIGTERM, SIGINT and SIGKILL are all sent and nothing of the group is left,
    whatever its members do with SIGTERM and SIGINT. -/
theorem escalateGroup_keeps (g : Grp) (h : g.leaderSeen = true) :
    (escalateGroup true g).1 = [.TERM, .INT, .KILL] ∧ (escalateGroup true g).2.leadLive = false ∧
      (escalateGroup true g).2.members = [] := by
  obtain ⟨lead, ll, lz, ms⟩ := g
  cases lead <;> cases ll <;> cases lz <;>
    simp_all [escalateGroup, Grp.signal, Grp.leaderSeen, Grp.any, Disp.survives]

/-- SIGKILL is final, for every group and whoever reaps: if the escalation got as far as SIGKILL nothing runs. -/
theorem escalateGroup_kill_final (keeps : Bool) (g : Grp) (h : Sig.KILL ∈ (escalateGroup keeps g).1) :
    (escalateGroup keeps g).2.live = false := by
  revert h
  simp only [escalateGroup]
  split <;> split <;> simp [Grp.signal, Grp.live]

/-- the signals are always a prefix of TERM, INT, KILL that starts with TERM -/
theorem escalateGroup_sigs (keeps : Bool) (g : Grp) :
    (escalateGroup keeps g).1 = [.TERM] ∨ (escalateGroup keeps g).1 = [.TERM, .INT] ∨
      (escalateGroup keeps g).1 = [.TERM, .KILL] ∨ (escalateGroup keeps g).1 = [.TERM, .INT, .KILL] := by
  simp only [escalateGroup]
  split <;> split <;> simp

@[simp] theorem obey_survives (sg : Sig) : Disp.obey.survives sg = false := by cases sg <;> rfl
@[simp] theorem ignTerm_term : Disp.ignTerm.survives .TERM = true := rfl
@[simp] theorem ignTerm_int : Disp.ignTerm.survives .INT = false := rfl
@[simp] theorem ignAll_term : Disp.ignAll.survives .TERM = true := rfl
@[simp] theorem ignAll_int : Disp.ignAll.survives .INT = true := rfl

theorem filter_nonempty_eq_any (l : List Disp) (p : Disp → Bool) : (!(l.filter p).isEmpty) = l.any p := by
  induction l with
  | nil => rfl
  | cons d ds ih => by_cases h : p d <;> simp [List.filter, h, ih]

/-- The command is reaped while its group is escalated (NOT the code): what is left running, exactly. A leader
    that ignores both signals keeps the escalation going to SIGKILL; otherwise the escalation ends when the leader
    does — after SIGTERM (every member that ignores SIGTERM is left), or, for a leader that ignores SIGTERM only,
    after SIGINT (every member that ignores both is left). -/
theorem escalateGroup_reaping_left (g : Grp) :
    (escalateGroup false g).2.live =
      (if g.leadLive && g.lead == .ignAll then false
       else if g.leadLive && g.lead == .ignTerm then g.members.any (fun d => d.survives .TERM && d.survives .INT)
       else g.members.any (fun d => d.survives .TERM)) := by
  obtain ⟨lead, ll, lz, ms⟩ := g
  cases lead <;> cases ll <;> cases lz <;>
    simp [escalateGroup, Grp.signal, Grp.leaderSeen, Grp.any, Grp.live, List.filter_filter, filter_nonempty_eq_any,
      Bool.and_comm]

/-! ### the launch failure of a controllable task leaves no survivors (needs: nobody reaps while the group is escalated) -/

@[simp] theorem ownEnd_ne_notStarted (b : Beh) : b.ownEnd ≠ Child.notStarted := by cases b <;> decide

/-- `dial`: while a controllable task is still dialling, the pid of its command exists (running, or ended and not
    waited for: nobody calls Wait() before the dial is over). `gone`: once the launch has been given up the task
    is out of activeTasks and nothing of it runs. -/
structure Gave (s : St) : Prop where
  dial : s.kind = .ctl → s.active = true → s.rpc = false → (grpOf s).leaderSeen = true
  gone : s.gaveUp = true → s.active = false ∧ s.kind = .ctl ∧ s.alive = false

theorem giveUp_alive (c : Cfg) (hc : c.launchFailKeepsLeader = true) (s : St) (ho : s.orphans = 0)
    (hd : (grpOf s).leaderSeen = true) : (giveUp c s).alive = false := by
  obtain ⟨_, h2, h3⟩ := escalateGroup_keeps (grpOf s) hd
  simp only [giveUp, St.alive, hc, h2, h3]
  by_cases hr : s.child = .running <;> simp [hr, ho]

theorem step_gave (c : Cfg) (hc : c.launchFailKeepsLeader = true) (s : St) (op : Op) (hi : Inv s) (hp : Proc s)
    (h : Gave s) : Gave (step c s op).1 := by
  obtain ⟨g1, g2⟩ := h
  cases op
  case giveup =>
    simp only [step]
    split
    · rename_i hb
      simp only [Bool.and_eq_true, decide_eq_true_eq, Bool.not_eq_true'] at hb
      obtain ⟨⟨hk, ha⟩, hr⟩ := hb
      have ho : s.orphans = 0 := hi.orph (by simp [hk, Kind.basicLike])
      refine ⟨?_, ?_⟩
      · intro _ hact; simp [giveUp] at hact
      · intro _
        exact ⟨by simp [giveUp], by simpa [giveUp] using hk, giveUp_alive c hc s ho (g1 hk ha hr)⟩
    · exact ⟨g1, g2⟩
  all_goals
    obtain ⟨p1, p2⟩ := hp
    obtain ⟨h1, h2, h3, h3', h4, h5, h6⟩ := hi
    simp only [step, spawn, stopBasic, ctlTransition, reapCtl, escalate]
    repeat' split
    all_goals (refine ⟨fun hk ha hr => ?_, fun hgv => ?_⟩ <;>
      simp_all [grpOf, Grp.leaderSeen, St.alive, Kind.basicLike])

theorem init_gave (c : Cfg) (k : Kind) (b : Beh) : Gave (init c k b).1 := by
  cases k <;> simp only [init, base]
  all_goals (repeat' split)
  all_goals (refine ⟨?_, ?_⟩ <;> simp_all [grpOf, Grp.leaderSeen])

theorem step_gaveUp_mono (c : Cfg) (s : St) (op : Op) (h : s.gaveUp = true) : (step c s op).1.gaveUp = true := by
  cases op <;> simp only [step, spawn, stopBasic, ctlTransition, reapCtl, escalate, giveUp]
  all_goals (repeat' split)
  all_goals simp_all

theorem step_giveup_ok (c : Cfg) (s : St) (h : (step c s .giveup).2 = .ok) : (step c s .giveup).1.gaveUp = true := by
  revert h
  simp only [step, giveUp]
  split <;> simp

theorem finish_gaveUp (s : St) : (finish s).gaveUp = s.gaveUp := by
  simp only [finish]; split <;> rfl

theorem haltState_gaveUp (s : St) (r : Res) : (haltState s r).gaveUp = s.gaveUp := by
  cases r <;> simp only [haltState, finish_gaveUp]

theorem runFrom_gaveUp_mono (c : Cfg) (s : St) (ops : List Op) (h : s.gaveUp = true) :
    (runFrom c s ops).st.gaveUp = true := by
  induction ops generalizing s with
  | nil => simpa [runFrom, finish_gaveUp] using h
  | cons op ops ih =>
    simp only [runFrom]
    split
    · exact ih s h
    · split
      · rw [haltState_gaveUp]; exact h
      · exact ih _ (step_gaveUp_mono c s op h)

theorem runFrom_gaveUpOk (c : Cfg) (s : St) (ops : List Op) (h : gaveUpFrom ops (runFrom c s ops).res = true) :
    (runFrom c s ops).st.gaveUp = true := by
  induction ops generalizing s with
  | nil => simp [gaveUpFrom] at h
  | cons op ops ih =>
    simp only [runFrom] at h ⊢
    split at h
    · rename_i hl
      simp only [hl, ↓reduceIte]
      simp only [gaveUpFrom] at h
      have : gaveUpFrom ops (runFrom c s ops).res = true := by simpa using h
      exact ih s this
    · rename_i hl
      simp only [hl]
      split at h
      · rename_i hh
        simp only [gaveUpFrom] at h
        have hr : (step c s op).2 ≠ .ok := by intro e; rw [e] at hh; simp [Res.halts] at hh
        cases ops <;> simp [hr] at h
      · rename_i hh
        simp only [hh]
        simp only [gaveUpFrom, Bool.or_eq_true, Bool.and_eq_true, decide_eq_true_eq] at h
        cases h with
        | inl h =>
          obtain ⟨h1, h2⟩ := h
          subst h1
          exact runFrom_gaveUp_mono c _ ops (step_giveup_ok c s h2)
        | inr h => exact ih _ h

theorem runFrom_gave (c : Cfg) (hc : c.launchFailKeepsLeader = true) (s : St) (ops : List Op) (hi : Inv s)
    (hp : Proc s) (hg : Gave s) (hk : (runFrom c s ops).st.gaveUp = true) :
    (runFrom c s ops).halted = false ∧ (runFrom c s ops).st.alive = false := by
  induction ops generalizing s with
  | nil =>
    simp only [runFrom, finish_gaveUp, finish_alive] at hk ⊢
    exact ⟨trivial, (hg.gone hk).2.2⟩
  | cons op ops ih =>
    simp only [runFrom] at hk ⊢
    split
    · rename_i hloop
      simp only [hloop, ↓reduceIte] at hk
      have hst : ∀ ops', (runFrom c s ops').st = finish s ∧ (runFrom c s ops').halted = false := by
        intro ops'
        induction ops' with
        | nil => exact ⟨rfl, rfl⟩
        | cons o os ih' => simp only [runFrom, hloop, ↓reduceIte]; exact ih'
      rw [(hst ops).1] at hk ⊢
      rw [(hst ops).2]
      rw [finish_gaveUp] at hk
      exact ⟨rfl, by rw [finish_alive]; exact (hg.gone hk).2.2⟩
    · rename_i hloop
      simp only [hloop] at hk
      split
      · rename_i hhalt
        simp only [hhalt, ↓reduceIte, Bool.false_eq_true, haltState_gaveUp] at hk
        have := step_halts_active c s op hhalt
        have := (hg.gone hk).1
        simp_all
      · rename_i hhalt
        simp only [hhalt] at hk
        exact ih _ (step_inv c s op hi) (step_proc c s op hp) (step_gave c hc s op hi hp hg) hk

end ExecTask
