/-
  Proofs/ExecOverlap — lemmas behind the overlap theorems of Props/C17 (core only).
-/
import ControlModel.Model.ExecOverlap
import ControlModel.Spec.C17
import ControlModel.Proofs.ExecTask

namespace ExecTask

/-! ### a schedule without overlaps has exactly the run of the sequential model -/

theorem runFromI_plain (c : Cfg) (s : St) (ops : List Op) :
    runFromI c s (plain ops) = [(runFrom c s ops).lift] := by
  induction ops generalizing s with
  | nil => simp [plain, runFromI, runFrom, Outcome.lift]
  | cons op ops ih =>
    simp only [plain, List.map_cons, runFromI, runFrom] at ih ⊢
    split
    · rw [ih s]; simp [IOutcome.push, Outcome.lift]
    · split
      · simp [Outcome.lift]
      · rw [ih]; simp [IOutcome.push, Outcome.lift]

theorem runI_plain (c : Cfg) (k : Kind) (b : Beh) (ops : List Op) :
    runI c k b (plain ops) = [(run c k b ops).lift] := by
  simp only [runI, run]
  split
  · simp [Outcome.lift]
  · rw [runFromI_plain]; simp [IOutcome.push, Outcome.lift]

/-! ### every behaviour of an overlap is a run along some list of choices -/

/-- a property of configurations kept by every move is kept by every run -/
theorem runChoices_keeps (c : Cfg) (G : Conf → Prop)
    (hmove : ∀ cf ch cf', G cf → cf.move c ch = .ok cf' → G cf') :
    ∀ (chs : List Bool) (cf cf' : Conf), G cf → runChoices c chs cf = .ok cf' → G cf' := by
  intro chs
  induction chs with
  | nil => intro cf cf' h e; simp only [runChoices] at e; cases e; exact h
  | cons ch rest ih =>
    intro cf cf' h e
    simp only [runChoices] at e
    cases hm : cf.move c ch with
    | error r => rw [hm] at e; cases e
    | ok cf1 => rw [hm] at e; exact ih cf1 cf' (hmove cf ch cf1 h hm) e

/-- … and if no move from such a configuration halts, no run halts -/
theorem runChoices_safe (c : Cfg) (G : Conf → Prop)
    (hmove : ∀ cf ch, G cf → ∃ cf', cf.move c ch = .ok cf' ∧ G cf') :
    ∀ (chs : List Bool) (cf : Conf), G cf → ∃ cf', runChoices c chs cf = .ok cf' ∧ G cf' := by
  intro chs
  induction chs with
  | nil => intro cf h; exact ⟨cf, rfl, h⟩
  | cons ch rest ih =>
    intro cf h
    obtain ⟨cf1, hm, h1⟩ := hmove cf ch h
    obtain ⟨cf2, hr, h2⟩ := ih cf1 h1
    exact ⟨cf2, by simp only [runChoices, hm, hr], h2⟩

/-- the run behind an outcome -/
def parRun (c : Cfg) (s : St) (a b : Op) (chs : List Bool) : Except Res Conf :=
  match lookFirst c (parStart s a b) with
  | .error r => .error r
  | .ok cf1 => runChoices c chs cf1

theorem mem_parOutcomes {c : Cfg} {s : St} {a b : Op} {o : POut} (h : o ∈ parOutcomes c s a b) :
    ∃ chs, o ∈ POut.ofRun s.out.length (parRun c s a b chs) := by
  simp only [parOutcomes, List.mem_eraseDups, List.mem_flatMap] at h
  obtain ⟨chs, _, ho⟩ := h
  exact ⟨chs, ho⟩

theorem length_of_mem_allChoices : ∀ (n : Nat) (l : List Bool), l ∈ allChoices n → l.length = n := by
  intro n
  induction n with
  | zero => intro l h; simp [allChoices] at h; subst h; rfl
  | succ n ih =>
    intro l h
    simp only [allChoices, List.mem_flatMap] at h
    obtain ⟨l', hl', hm⟩ := h
    simp only [List.mem_cons, List.mem_nil_iff, or_false] at hm
    rcases hm with rfl | rfl <;> simp [ih l' hl']

theorem mem_parOutcomes_len {c : Cfg} {s : St} {a b : Op} {o : POut} (h : o ∈ parOutcomes c s a b) :
    ∃ chs, chs.length = (partsOf s.kind a).length + (partsOf s.kind b).length ∧
      o ∈ POut.ofRun s.out.length (parRun c s a b chs) := by
  simp only [parOutcomes, List.mem_eraseDups, List.mem_flatMap] at h
  obtain ⟨chs, hc, ho⟩ := h
  exact ⟨chs, by simpa [parStart] using length_of_mem_allChoices _ chs hc, ho⟩

theorem mem_allChoices (l : List Bool) : l ∈ allChoices l.length := by
  induction l with
  | nil => simp [allChoices]
  | cons x xs ih =>
    simp only [List.length_cons, allChoices, List.mem_flatMap]
    exact ⟨xs, ih, by cases x <;> simp⟩

theorem parOutcomes_of_run {c : Cfg} {s : St} {a b : Op} {o : POut} (chs : List Bool)
    (hn : chs.length = (partsOf s.kind a).length + (partsOf s.kind b).length)
    (h : o ∈ POut.ofRun s.out.length (parRun c s a b chs)) : o ∈ parOutcomes c s a b := by
  simp only [parOutcomes, List.mem_eraseDups, List.mem_flatMap]
  refine ⟨chs, ?_, h⟩
  have := mem_allChoices chs
  rw [hn] at this
  simpa [parStart] using this

/-- every move serves one part of a request that has one left -/
theorem move_progress (c : Cfg) (cf cf' : Conf) (ch : Bool) (h : cf.move c ch = .ok cf') :
    cf'.pa.length + cf'.pb.length + 1 ≤ cf.pa.length + cf.pb.length ∨ (cf.pa = [] ∧ cf.pb = [] ∧ cf' = cf) := by
  simp only [Conf.move, Conf.pickA] at h
  cases hpa : cf.pa with
  | nil =>
    cases hpb : cf.pb with
    | nil => simp only [hpa, hpb] at h; cases h; exact Or.inr ⟨rfl, rfl, rfl⟩
    | cons q r =>
      simp only [hpa, hpb] at h
      cases hp : pstep c cf.s q with
      | halt x => simp [hp] at h
      | next s' ans drop =>
        simp only [hp, Bool.false_eq_true, ↓reduceIte] at h
        cases h
        left
        cases drop <;> simp
  | cons p rest =>
    cases hpb : cf.pb with
    | nil =>
      simp only [hpa, hpb] at h
      cases hp : pstep c cf.s p with
      | halt x => simp [hp] at h
      | next s' ans drop =>
        simp only [hp, ↓reduceIte] at h
        cases h
        left
        cases drop <;> simp
    | cons q r =>
      simp only [hpa, hpb] at h
      cases ch
      · cases hp : pstep c cf.s q with
        | halt x => simp [hp] at h
        | next s' ans drop =>
          simp only [hp, Bool.false_eq_true, ↓reduceIte] at h
          cases h
          left
          cases drop <;> simp <;> omega
      · cases hp : pstep c cf.s p with
        | halt x => simp [hp] at h
        | next s' ans drop =>
          simp only [hp, ↓reduceIte] at h
          cases h
          left
          cases drop <;> simp <;> omega

/-- a run along at least as many choices as there are parts left serves both requests completely -/
theorem runChoices_exhausts (c : Cfg) : ∀ (chs : List Bool) (cf cf' : Conf), runChoices c chs cf = .ok cf' →
    cf.pa.length + cf.pb.length ≤ chs.length → cf'.pa = [] ∧ cf'.pb = [] := by
  intro chs
  induction chs with
  | nil =>
    intro cf cf' e h
    simp only [runChoices] at e
    cases e
    simp only [List.length_nil, Nat.le_zero_eq, Nat.add_eq_zero_iff, List.length_eq_zero_iff] at h
    exact h
  | cons ch rest ih =>
    intro cf cf' e h
    simp only [runChoices] at e
    cases hm : cf.move c ch with
    | error r => rw [hm] at e; cases e
    | ok cf1 =>
      rw [hm] at e
      rcases move_progress c cf cf1 ch hm with hlt | ⟨ha, hb, rfl⟩
      · exact ih cf1 cf' e (by simp only [List.length_cons] at h; omega)
      · exact ih cf1 cf' e (by simp [ha, hb])

/-- what an overlap leaves behind, from a property every move keeps: the final configuration (both requests
    served completely) has the property -/
theorem parOutcomes_keeps (c : Cfg) (G : Conf → Prop) (s : St) (a b : Op)
    (hmove : ∀ cf ch cf', G cf → cf.move c ch = .ok cf' → G cf')
    (h0 : G (parStart s a b)) {s' : St} {ra rb : Res} (ho : POut.done s' ra rb ∈ parOutcomes c s a b) :
    ∃ cf, G cf ∧ cf.pa = [] ∧ cf.pb = [] ∧ (s' = cf.s ∨ s' = { cf.s with out := swapNew s.out.length cf.s.out }) := by
  obtain ⟨chs, hlen, hm⟩ := mem_parOutcomes_len ho
  simp only [parRun, lookFirst] at hm
  cases h1 : (parStart s a b).move c true with
  | error r => simp [h1, POut.ofRun] at hm
  | ok cf1 =>
    simp only [h1] at hm
    have g1 := hmove _ _ _ h0 h1
    have hle : cf1.pa.length + cf1.pb.length ≤ chs.length := by
      rcases move_progress c _ cf1 true h1 with h | ⟨_, _, rfl⟩
      · simp only [parStart] at h; omega
      · simp only [parStart]; omega
    cases h2 : runChoices c chs cf1 with
    | error r => rw [h2] at hm; simp [POut.ofRun] at hm
    | ok cf2 =>
      rw [h2] at hm
      have g2 := runChoices_keeps c G hmove chs cf1 cf2 g1 h2
      have hend := runChoices_exhausts c chs cf1 cf2 h2 hle
      simp only [POut.ofRun, List.mem_cons, POut.done.injEq, List.mem_nil_iff, or_false] at hm
      rcases hm with ⟨e, _, _⟩ | ⟨e, _, _⟩
      · exact ⟨cf2, g2, hend.1, hend.2, Or.inl e⟩
      · exact ⟨cf2, g2, hend.1, hend.2, Or.inr e⟩

/-- no behaviour of an overlap halts, from a property that every move keeps and from which no move halts -/
theorem parOutcomes_safe (c : Cfg) (G : Conf → Prop) (s : St) (a b : Op)
    (hmove : ∀ cf ch, G cf → ∃ cf', cf.move c ch = .ok cf' ∧ G cf')
    (h0 : G (parStart s a b)) {o : POut} (ho : o ∈ parOutcomes c s a b) :
    ∃ cf, G cf ∧ (o = .done cf.s (cf.ra.getD .none) (cf.rb.getD .none) ∨
      o = .done { cf.s with out := swapNew s.out.length cf.s.out } (cf.ra.getD .none) (cf.rb.getD .none)) := by
  obtain ⟨chs, hm⟩ := mem_parOutcomes ho
  simp only [parRun, lookFirst] at hm
  obtain ⟨cf1, h1, g1⟩ := hmove _ true h0
  simp only [h1] at hm
  obtain ⟨cf2, h2, g2⟩ := runChoices_safe c G hmove chs cf1 g1
  rw [h2] at hm
  simp only [POut.ofRun, List.mem_cons, List.mem_nil_iff, or_false] at hm
  exact ⟨cf2, g2, hm⟩

/-! ### one part of a request, and the basic invariant -/

theorem claim_of_ne (c : Cfg) (s : St) {op : Op} (h : op ≠ .kill) : claim c s op = s := by
  simp [claim, h]

theorem claim_legacy (c : Cfg) (s : St) (op : Op) (hc : c.killClaimsEntry = false) : claim c s op = s := by
  simp [claim, hc]

theorem claim_kill (c : Cfg) (s : St) (hc : c.killClaimsEntry = true) : claim c s .kill = { s with active := false } := by
  simp [claim, hc]

theorem claim_kind (c : Cfg) (s : St) (op : Op) : (claim c s op).kind = s.kind := by
  simp only [claim]; split <;> rfl

theorem claim_cmd (c : Cfg) (s : St) (op : Op) : (claim c s op).cmd = s.cmd := by
  simp only [claim]; split <;> rfl

theorem withActive_of_active (s : St) (h : s.active = true) : { s with active := true } = s := by
  cases s; simp_all

theorem withInactive_of_inactive (s : St) (h : s.active = false) : { s with active := false } = s := by
  cases s; simp_all

theorem serve_eq_step (c : Cfg) (s : St) (op : Op) (h : s.active = true) : serve c s op = step c s op := by
  have e : { s with active := true } = s := by cases s; simp_all
  simp only [serve, e, h, Bool.and_true]

theorem serve_inv_nonkill (c : Cfg) (s : St) (op : Op) (h : Inv s) (hr : op.isRequest = true) (hk : op ≠ .kill) :
    Inv (serve c s op).1 := by
  cases ha : s.active
  · obtain ⟨h1, h2, h3, h3', h4, h5, h6⟩ := h
    cases op <;> simp only [Op.isRequest] at hr <;> simp only [serve, step, spawn, stopBasic, ctlTransition, reapCtl, escalate, giveUp]
    all_goals (repeat' split)
    all_goals (refine ⟨?_, ?_, ?_, ?_, ?_, ?_, ?_⟩ <;> simp_all [not_mem_of_terminals_zero, Kind.basicLike])
  · rw [serve_eq_step c s op ha]; exact step_inv c s op h

theorem serve_active_nonkill (c : Cfg) (s : St) (op : Op) (hr : op.isRequest = true) (hk : op ≠ .kill)
    (ha : s.active = true) : (serve c s op).1.active = true := by
  cases op <;> simp only [Op.isRequest] at hr <;> simp only [serve, step, spawn, stopBasic, ctlTransition, reapCtl, escalate, giveUp]
  all_goals (repeat' split)
  all_goals simp_all

theorem prepS_inv (s : St) (h : Inv s) (hb : s.kind.basicLike = true) : Inv (prepS s) := by
  obtain ⟨h1, h2, h3, h3', h4, h5, h6⟩ := h
  refine ⟨?_, ?_, ?_, ?_, ?_, ?_, ?_⟩ <;> simp_all [prepS]

theorem execS_inv (s : St) (h : Inv s) : Inv (execS s) := by
  obtain ⟨h1, h2, h3, h3', h4, h5, h6⟩ := h
  refine ⟨?_, ?_, ?_, ?_, ?_, ?_, ?_⟩ <;> simp_all [execS]

/-! ### what a move is -/

theorem move_cases (c : Cfg) (cf cf' : Conf) (ch : Bool) (h : cf.move c ch = .ok cf') :
    cf' = cf ∨
    (∃ p rest s' ans drop, cf.pa = p :: rest ∧ pstep c cf.s p = .next s' ans drop ∧
      cf' = { cf with s := s', pa := if drop then [] else rest, ra := if ans.isSome then ans else cf.ra }) ∨
    (∃ p rest s' ans drop, cf.pb = p :: rest ∧ pstep c cf.s p = .next s' ans drop ∧
      cf' = { cf with s := s', pb := if drop then [] else rest, rb := if ans.isSome then ans else cf.rb }) := by
  simp only [Conf.move] at h
  split at h
  · cases hpa : cf.pa with
    | nil => simp only [hpa] at h; cases h; exact Or.inl rfl
    | cons p rest =>
      simp only [hpa] at h
      cases hp : pstep c cf.s p with
      | halt r => simp [hp] at h
      | next s' ans drop =>
        simp only [hp] at h
        cases h
        exact Or.inr (Or.inl ⟨p, rest, s', ans, drop, rfl, hp, rfl⟩)
  · cases hpb : cf.pb with
    | nil => simp only [hpb] at h; cases h; exact Or.inl rfl
    | cons p rest =>
      simp only [hpb] at h
      cases hp : pstep c cf.s p with
      | halt r => simp [hp] at h
      | next s' ans drop =>
        simp only [hp] at h
        cases h
        exact Or.inr (Or.inr ⟨p, rest, s', ans, drop, rfl, hp, rfl⟩)

/-- a move halts only if the first part of one of the two requests does -/
theorem move_ok_of_heads (c : Cfg) (cf : Conf) (ch : Bool)
    (ha : ∀ p rest, cf.pa = p :: rest → ∃ s' ans drop, pstep c cf.s p = .next s' ans drop)
    (hb : ∀ p rest, cf.pb = p :: rest → ∃ s' ans drop, pstep c cf.s p = .next s' ans drop) :
    ∃ cf', cf.move c ch = .ok cf' := by
  simp only [Conf.move]
  split
  · cases hpa : cf.pa with
    | nil => exact ⟨cf, rfl⟩
    | cons p rest =>
      obtain ⟨s', ans, drop, hp⟩ := ha p rest hpa
      simp only [hp]
      exact ⟨_, rfl⟩
  · cases hpb : cf.pb with
    | nil => exact ⟨cf, rfl⟩
    | cons p rest =>
      obtain ⟨s', ans, drop, hp⟩ := hb p rest hpb
      simp only [hp]
      exact ⟨_, rfl⟩

/-! ### at most one terminal status unless two KILLs overlap -/

/-- parts of requests (as opposed to `tick` / `await`, which are not served by anybody) -/
def Part.req : Part → Bool
  | .look op | .whole op => op.isRequest
  | _ => true

/-- parts that are not part of a KILL -/
def Part.calm : Part → Bool
  | .look op | .whole op => op.isRequest && op != .kill
  | _ => true

/-- what can be left of a KILL -/
def killThread (l : List Part) : Prop := l = [.look .kill, .whole .kill] ∨ l = [.whole .kill] ∨ l = []

/-- what is left of a request that is not a KILL -/
def calmThread (l : List Part) : Prop := ∀ p ∈ l, p.calm = true

theorem calm_partsOf (k : Kind) (op : Op) (hr : op.isRequest = true) (hk : op ≠ .kill) : calmThread (partsOf k op) := by
  intro p hp
  simp only [partsOf] at hp
  split at hp <;> simp at hp <;> rcases hp with rfl | rfl | rfl | rfl <;> simp_all [Part.calm]

theorem calm_tail {p : Part} {l : List Part} (h : calmThread (p :: l)) : calmThread l :=
  fun q hq => h q (List.mem_cons_of_mem _ hq)

theorem calm_ne_kill {l : List Part} (h : calmThread l) : l ≠ [.whole .kill] := by
  intro e; subst e; have := h (.whole .kill) (by simp); simp [Part.calm] at this

theorem calm_nil : calmThread [] := fun _ h => by cases h

/-- a calm part keeps the basic invariant and does not deactivate the task -/
theorem pstep_calm (c : Cfg) (s s' : St) (p : Part) (ans : Option Res) (drop : Bool) (hc : p.calm = true)
    (h : Inv s) (hp : pstep c s p = .next s' ans drop) : Inv s' ∧ (s.active = true → s'.active = true) := by
  cases p with
  | look op =>
    have hne : op ≠ .kill := by
      simp only [Part.calm, Bool.and_eq_true, bne_iff_ne, ne_eq] at hc; exact hc.2
    simp only [pstep, claim_of_ne c s hne] at hp
    split at hp
    · cases hp; exact ⟨h, id⟩
    · split at hp
      · cases hp; exact ⟨h, id⟩
      · rename_i hact
        cases hp
        exact ⟨step_inv c s op h, fun ha => by simp_all⟩
  | whole op =>
    simp only [Part.calm, Bool.and_eq_true, bne_iff_ne, ne_eq] at hc
    simp only [pstep] at hp
    split at hp
    · cases hp
    · cases hp
      exact ⟨serve_inv_nonkill c s op h hc.1 hc.2, serve_active_nonkill c s op hc.1 hc.2⟩
  | prep hk =>
    simp only [pstep] at hp
    split at hp
    · rename_i hb; cases hp; exact ⟨prepS_inv s h hb, by simp [prepS]⟩
    · cases hp; exact ⟨h, id⟩
  | exec hk =>
    simp only [pstep] at hp
    split at hp
    · cases hp
    · split at hp
      · cases hp; exact ⟨h, id⟩
      · cases hp; exact ⟨execS_inv s h, by simp [execS]⟩
  | reap hk =>
    simp only [pstep] at hp
    split at hp
    · cases hp
    · cases hp; exact ⟨h, id⟩

/-! #### the code before handleKillEvent claimed the entry: at most one terminal status unless two KILLs overlap -/

/-- the configurations of an overlap that is not two KILLs -/
structure OneKill (cf : Conf) : Prop where
  inv : Inv cf.s
  shape : (calmThread cf.pa ∧ (killThread cf.pb ∨ calmThread cf.pb)) ∨ (killThread cf.pa ∧ calmThread cf.pb)
  actA : cf.pa = [.whole .kill] → cf.s.active = true
  actB : cf.pb = [.whole .kill] → cf.s.active = true

theorem pstep_killThread (c : Cfg) (hcl : c.killClaimsEntry = false) (s s' : St) (p : Part) (rest : List Part)
    (ans : Option Res) (drop : Bool)
    (hl : killThread (p :: rest)) (hact : p :: rest = [.whole .kill] → s.active = true) (h : Inv s)
    (hp : pstep c s p = .next s' ans drop) :
    Inv s' ∧ killThread (if drop then [] else rest) ∧ ((if drop then [] else rest) = [.whole .kill] → s'.active = true) := by
  rcases hl with e | e | e
  · -- the look-up of the KILL
    simp only [List.cons.injEq] at e
    obtain ⟨rfl, rfl⟩ := e
    simp only [pstep, claim_legacy c s .kill hcl] at hp
    split at hp
    · cases hp; exact ⟨h, Or.inr (Or.inr rfl), by simp⟩
    · split at hp
      · rename_i ha; cases hp; exact ⟨h, Or.inr (Or.inl rfl), fun _ => ha⟩
      · cases hp; exact ⟨step_inv c s .kill h, Or.inr (Or.inr rfl), by simp⟩
  · -- Kill() itself: the task is still active
    simp only [List.cons.injEq] at e
    obtain ⟨rfl, rfl⟩ := e
    have ha := hact rfl
    simp only [pstep, serve_eq_step c s .kill ha] at hp
    split at hp
    · cases hp
    · cases hp; exact ⟨step_inv c s .kill h, by simp [killThread], by simp⟩
  · cases e

theorem oneKill_move (c : Cfg) (hcl : c.killClaimsEntry = false) (cf cf' : Conf) (ch : Bool) (g : OneKill cf)
    (hm : cf.move c ch = .ok cf') : OneKill cf' := by
  obtain ⟨inv, shape, actA, actB⟩ := g
  rcases move_cases c cf cf' ch hm with rfl | ⟨p, rest, s', ans, drop, hpa, hp, rfl⟩ | ⟨p, rest, s', ans, drop, hpb, hp, rfl⟩
  · exact ⟨inv, shape, actA, actB⟩
  · -- request A moved
    rcases shape with ⟨ca, hb⟩ | ⟨ka, cb⟩
    · rw [hpa] at ca
      have ⟨i', keep⟩ := pstep_calm c cf.s s' p ans drop (ca p (by simp)) inv hp
      have ca' : calmThread (if drop then [] else rest) := by
        split
        · exact calm_nil
        · exact calm_tail ca
      exact ⟨i', Or.inl ⟨ca', hb⟩, fun e => absurd e (calm_ne_kill ca'), fun e => keep (actB e)⟩
    · rw [hpa] at ka actA
      have ⟨i', ka', act'⟩ := pstep_killThread c hcl cf.s s' p rest ans drop ka actA inv hp
      exact ⟨i', Or.inr ⟨ka', cb⟩, act', fun e => absurd e (calm_ne_kill cb)⟩
  · -- request B moved
    rcases shape with ⟨ca, kb | cb⟩ | ⟨ka, cb⟩
    · rw [hpb] at kb actB
      have ⟨i', kb', act'⟩ := pstep_killThread c hcl cf.s s' p rest ans drop kb actB inv hp
      exact ⟨i', Or.inl ⟨ca, Or.inl kb'⟩, fun e => absurd e (calm_ne_kill ca), act'⟩
    · rw [hpb] at cb
      have ⟨i', keep⟩ := pstep_calm c cf.s s' p ans drop (cb p (by simp)) inv hp
      have cb' : calmThread (if drop then [] else rest) := by
        split
        · exact calm_nil
        · exact calm_tail cb
      exact ⟨i', Or.inl ⟨ca, Or.inr cb'⟩, fun e => absurd e (calm_ne_kill ca), fun e => absurd e (calm_ne_kill cb')⟩
    · rw [hpb] at cb
      have ⟨i', keep⟩ := pstep_calm c cf.s s' p ans drop (cb p (by simp)) inv hp
      have cb' : calmThread (if drop then [] else rest) := by
        split
        · exact calm_nil
        · exact calm_tail cb
      exact ⟨i', Or.inr ⟨ka, cb'⟩, fun e => keep (actA e), fun e => absurd e (calm_ne_kill cb')⟩

/-- the pairs the one-terminal theorem is about: two requests that are not both KILLs -/
def notTwoKills : Item → Bool
  | .one _ => true
  | .par a b => a.isRequest && b.isRequest && !(a = .kill && b = .kill)

theorem oneKill_start (s : St) (a b : Op) (h : Inv s) (hn : notTwoKills (.par a b) = true) :
    OneKill (parStart s a b) := by
  simp only [notTwoKills, Bool.and_eq_true, Bool.not_eq_true', Bool.and_eq_false_imp, decide_eq_true_eq,
    decide_eq_false_iff_not] at hn
  obtain ⟨⟨ra, rb⟩, hk⟩ := hn
  have kt : killThread (partsOf s.kind .kill) := by
    simp [partsOf, spawns, killThread]
  have nk : ∀ l : List Part, l = partsOf s.kind .kill → l ≠ [.whole .kill] := by
    intro l e; subst e; simp [partsOf, spawns]
  refine ⟨h, ?_, ?_, ?_⟩
  · simp only [parStart]
    by_cases ea : a = .kill
    · subst ea
      exact Or.inr ⟨kt, calm_partsOf _ b rb (hk rfl)⟩
    · by_cases eb : b = .kill
      · subst eb
        exact Or.inl ⟨calm_partsOf _ a ra ea, Or.inl kt⟩
      · exact Or.inl ⟨calm_partsOf _ a ra ea, Or.inr (calm_partsOf _ b rb eb)⟩
  · simp only [parStart]
    intro e
    by_cases ea : a = .kill
    · subst ea; exact absurd e (nk _ rfl)
    · exact absurd e (calm_ne_kill (calm_partsOf _ a ra ea))
  · simp only [parStart]
    intro e
    by_cases eb : b = .kill
    · subst eb; exact absurd e (nk _ rfl)
    · exact absurd e (calm_ne_kill (calm_partsOf _ b rb eb))

/-! ### the order in which the emissions of an overlap reach the agent does not matter to the basic invariant -/

theorem terminals_reverse (l : List Emit) : terminals l.reverse = terminals l := by
  simp [terminals, List.filter_reverse]

theorem terminals_swapNew (n : Nat) (l : List Emit) : terminals (swapNew n l) = terminals l := by
  have : terminals (l.take n ++ l.drop n) = terminals l := by rw [List.take_append_drop]
  rw [terminals_append] at this
  simp only [swapNew, terminals_append, terminals_reverse]
  exact this

theorem mem_swapNew (n : Nat) (l : List Emit) (e : Emit) : e ∈ swapNew n l ↔ e ∈ l := by
  have : e ∈ l.take n ++ l.drop n ↔ e ∈ l := by rw [List.take_append_drop]
  simp only [List.mem_append] at this
  simp only [swapNew, List.mem_append, List.mem_reverse]
  exact this

theorem inv_swap (s : St) (n : Nat) (h : Inv s) : Inv { s with out := swapNew n s.out } := by
  obtain ⟨h1, h2, h3, h3', h4, h5, h6⟩ := h
  refine ⟨?_, ?_, ?_, ?_, ?_, ?_, ?_⟩ <;> simp_all [terminals_swapNew, mem_swapNew]

/-! ### every run of a schedule keeps the basic invariant, given that every overlap of the schedule does -/

theorem runFromI_inv_of (c : Cfg) (P : Item → Bool)
    (hpar : ∀ (s s' : St) (a b : Op) (ra rb : Res), Inv s → P (.par a b) = true →
      POut.done s' ra rb ∈ parOutcomes c s a b → Inv s')
    (items : List Item) (hn : items.all P = true) :
    ∀ (s : St), Inv s → ∀ o ∈ runFromI c s items, Inv o.st := by
  induction items with
  | nil =>
    intro s h o ho
    simp only [runFromI, List.mem_singleton] at ho
    subst ho
    exact finish_inv s h
  | cons it rest ih =>
    simp only [List.all_cons, Bool.and_eq_true] at hn
    intro s h o ho
    cases it with
    | one op =>
      simp only [runFromI] at ho
      split at ho
      · simp only [List.mem_map] at ho
        obtain ⟨o', ho', rfl⟩ := ho
        exact ih hn.2 s h o' ho'
      · split at ho
        · simp only [List.mem_singleton] at ho
          subst ho
          exact haltState_inv s _ h
        · simp only [List.mem_map] at ho
          obtain ⟨o', ho', rfl⟩ := ho
          exact ih hn.2 _ (step_inv c s op h) o' ho'
    | par a b =>
      simp only [runFromI] at ho
      split at ho
      · simp only [List.mem_map] at ho
        obtain ⟨o', ho', rfl⟩ := ho
        exact ih hn.2 s h o' ho'
      · simp only [List.mem_flatMap] at ho
        obtain ⟨po, hpo, ho⟩ := ho
        cases po with
        | halt r =>
          simp only [List.mem_singleton] at ho
          subst ho
          exact haltState_inv s _ h
        | done s' ra rb =>
          simp only [List.mem_map] at ho
          obtain ⟨o', ho', rfl⟩ := ho
          exact ih hn.2 s' (hpar s s' a b ra rb h hn.1 hpo) o' ho'

theorem runI_inv_of (c : Cfg) (P : Item → Bool)
    (hpar : ∀ (s s' : St) (a b : Op) (ra rb : Res), Inv s → P (.par a b) = true →
      POut.done s' ra rb ∈ parOutcomes c s a b → Inv s')
    (k : Kind) (b : Beh) (items : List Item) (hn : items.all P = true) :
    ∀ o ∈ runI c k b items, Inv o.st := by
  intro o ho
  simp only [runI] at ho
  split at ho
  · simp only [List.mem_singleton] at ho
    subst ho
    exact init_inv c k b
  · simp only [List.mem_map] at ho
    obtain ⟨o', ho', rfl⟩ := ho
    exact runFromI_inv_of c P hpar items hn _ (init_inv c k b) o' ho'

/-- the code before the repair: an overlap that is not two KILLs keeps the basic invariant -/
theorem par_inv_legacy (c : Cfg) (hcl : c.killClaimsEntry = false) (s s' : St) (a b : Op) (ra rb : Res) (h : Inv s)
    (hn : notTwoKills (.par a b) = true) (hpo : POut.done s' ra rb ∈ parOutcomes c s a b) : Inv s' := by
  obtain ⟨cf, g, _, _, e | e⟩ := parOutcomes_keeps c OneKill s a b (fun cf ch cf' => oneKill_move c hcl cf cf' ch)
    (oneKill_start s a b h hn) hpo
  · exact e ▸ g.inv
  · exact e ▸ inv_swap cf.s _ g.inv

/-! #### the code as it is: handleKillEvent takes the entry out in the section that looks it up — at most one
    terminal status whatever overlaps, two KILLs included

A KILL that has looked the task up and whose Kill() has not run yet (thread `[whole kill]`) HOLDS the task: the
task is inactive for every look-up that follows, and the basic invariant holds of the state as the holder will
see it (`active` forced, as `serve` does). At most one request holds the task at any time. -/

theorem step_kill_deactivates (c : Cfg) (s : St) (h : (step c s .kill).2.halts = false) :
    (step c s .kill).1.active = false := by
  revert h
  simp only [step, reapCtl, escalate]
  repeat' split
  all_goals simp_all [Res.halts]

theorem step_inactive_nonkill (c : Cfg) (s : St) (op : Op) (hr : op.isRequest = true) (hk : op ≠ .kill)
    (ha : s.active = false) : (step c s op).1 = s := by
  cases op <;> simp only [Op.isRequest] at hr <;> simp_all [step]

theorem step_kill_inactive (c : Cfg) (s : St) (ha : s.active = false) :
    (step c s .kill).1 = s ∨ (step c s .kill).1 = { s with loop := false } := by
  simp only [step, ha, Bool.not_false, ↓reduceIte]
  split <;> simp

theorem inv_held_loop (s : St) (b : Bool) (h : Inv { s with active := true }) :
    Inv { { s with loop := b } with active := true } := by
  obtain ⟨h1, h2, h3, h3', h4, h5, h6⟩ := h
  refine ⟨?_, ?_, ?_, ?_, ?_, ?_, ?_⟩ <;> simp_all

theorem serve_fst (c : Cfg) (s : St) (op : Op) :
    (serve c s op).1 = { (step c { s with active := true } op).1 with
      active := (step c { s with active := true } op).1.active && s.active } := rfl

theorem serve_snd (c : Cfg) (s : St) (op : Op) : (serve c s op).2 = (step c { s with active := true } op).2 := rfl

/-- Kill() of a task its handler has taken out of activeTasks: what `step` does to the task as it was found -/
theorem serve_held_kill (c : Cfg) (s : St) (ha : s.active = false) (hh : (serve c s .kill).2.halts = false) :
    (serve c s .kill).1 = (step c { s with active := true } .kill).1 := by
  rw [serve_snd] at hh
  have hd := step_kill_deactivates c { s with active := true } hh
  rw [serve_fst, hd, ha]
  exact withInactive_of_inactive _ hd

/-- a part of a request that is not a KILL, while a KILL holds the task -/
theorem pstep_calm_held (c : Cfg) (s s' : St) (p : Part) (ans : Option Res) (drop : Bool) (hc : p.calm = true)
    (ha : s.active = false) (hi : Inv { s with active := true }) (hp : pstep c s p = .next s' ans drop) :
    s'.active = false ∧ Inv { s' with active := true } := by
  cases p with
  | look op =>
    simp only [Part.calm, Bool.and_eq_true, bne_iff_ne, ne_eq] at hc
    simp only [pstep, ha, Bool.false_eq_true, ↓reduceIte] at hp
    split at hp
    · cases hp; exact ⟨ha, hi⟩
    · cases hp
      rw [step_inactive_nonkill c s op hc.1 hc.2 ha]
      exact ⟨ha, hi⟩
  | whole op =>
    simp only [Part.calm, Bool.and_eq_true, bne_iff_ne, ne_eq] at hc
    simp only [pstep] at hp
    split at hp
    · cases hp
    · cases hp
      have hact : (step c { s with active := true } op).1.active = true := by
        have := serve_active_nonkill c { s with active := true } op hc.1 hc.2 rfl
        rwa [serve_eq_step c _ op rfl] at this
      refine ⟨by simp [serve_fst, ha], ?_⟩
      have e : { (serve c s op).1 with active := true } = (step c { s with active := true } op).1 := by
        rw [serve_fst]
        exact withActive_of_active _ hact
      rw [e]
      exact step_inv c _ op hi
  | prep hk =>
    simp only [pstep] at hp
    split at hp
    · rename_i hb
      cases hp
      exact ⟨ha, prepS_inv { s with active := true } hi hb⟩
    · cases hp; exact ⟨ha, hi⟩
  | exec hk =>
    simp only [pstep] at hp
    split at hp
    · cases hp
    · split at hp
      · cases hp; exact ⟨ha, hi⟩
      · cases hp; exact ⟨ha, execS_inv { s with active := true } hi⟩
  | reap hk =>
    simp only [pstep] at hp
    split at hp
    · cases hp
    · cases hp; exact ⟨ha, hi⟩

theorem killThread_nil : killThread [] := Or.inr (Or.inr rfl)

/-- One move of one request (`p :: rest` is what is left of it, `Y` what is left of the other one), seen from the
    invariant of the configurations in which a KILL takes the entry out when it finds the task. -/
theorem held_thread_move (c : Cfg) (hcl : c.killClaimsEntry = true) (s s' : St) (p : Part) (rest Y : List Part)
    (ans : Option Res) (drop : Bool)
    (shX : killThread (p :: rest) ∨ calmThread (p :: rest))
    (free : (p :: rest) ≠ [.whole .kill] → Y ≠ [.whole .kill] → Inv s)
    (heldX : (p :: rest) = [.whole .kill] → s.active = false ∧ Inv { s with active := true } ∧ Y ≠ [.whole .kill])
    (heldY : Y = [.whole .kill] → s.active = false ∧ Inv { s with active := true })
    (hp : pstep c s p = .next s' ans drop) :
    (killThread (if drop then [] else rest) ∨ calmThread (if drop then [] else rest)) ∧
    ((if drop then [] else rest) ≠ [.whole .kill] → Y ≠ [.whole .kill] → Inv s') ∧
    ((if drop then [] else rest) = [.whole .kill] → s'.active = false ∧ Inv { s' with active := true } ∧ Y ≠ [.whole .kill]) ∧
    (Y = [.whole .kill] → s'.active = false ∧ Inv { s' with active := true } ∧ (if drop then [] else rest) ≠ [.whole .kill]) := by
  rcases shX with kt | ct
  · rcases kt with e | e | e
    · -- the look-up of the KILL
      simp only [List.cons.injEq] at e
      obtain ⟨rfl, rfl⟩ := e
      have hne : [Part.look .kill, .whole .kill] ≠ [.whole .kill] := by simp
      simp only [pstep] at hp
      split at hp
      · cases hp
        refine ⟨Or.inl killThread_nil, fun _ hY => free hne hY, by simp, fun hY => ?_⟩
        obtain ⟨a1, a2⟩ := heldY hY
        exact ⟨a1, a2, by simp⟩
      · split at hp
        · -- found: the entry is taken out at once
          rename_i hact
          cases hp
          have hY : Y ≠ [.whole .kill] := by
            intro hY; have := (heldY hY).1; simp_all
          rw [claim_kill c s hcl]
          refine ⟨Or.inl (Or.inr (Or.inl rfl)), fun h _ => absurd rfl h, fun _ => ⟨rfl, ?_, hY⟩, fun h => absurd h hY⟩
          have : ({ ({ s with active := false } : St) with active := true } : St) = s := withActive_of_active s hact
          rw [this]
          exact free hne hY
        · -- not found: ignored (before that repair: the loop ends)
          rename_i hact
          have hact' : s.active = false := by simpa using hact
          cases hp
          refine ⟨Or.inl killThread_nil, fun _ hY => step_inv c s .kill (free hne hY), by simp, fun hY => ?_⟩
          obtain ⟨a1, a2⟩ := heldY hY
          rcases step_kill_inactive c s hact' with e | e <;> rw [e]
          · exact ⟨a1, a2, by simp⟩
          · exact ⟨a1, inv_held_loop s false a2, by simp⟩
    · -- Kill() itself, by the request that holds the task
      simp only [List.cons.injEq] at e
      obtain ⟨rfl, rfl⟩ := e
      obtain ⟨a1, a2, hY⟩ := heldX rfl
      simp only [pstep] at hp
      split at hp
      · cases hp
      · rename_i hh
        cases hp
        have hh' : (serve c s .kill).2.halts = false := by simpa using hh
        refine ⟨Or.inl killThread_nil, fun _ _ => ?_, by simp, fun h => absurd h hY⟩
        rw [serve_held_kill c s a1 hh']
        exact step_inv c _ .kill a2
    · cases e
  · -- a request that is not a KILL
    have hcalm : p.calm = true := ct p (by simp)
    have ct' : calmThread (if drop then [] else rest) := by
      split
      · exact calm_nil
      · exact calm_tail ct
    by_cases hY : Y = [.whole .kill]
    · obtain ⟨a1, a2⟩ := heldY hY
      obtain ⟨b1, b2⟩ := pstep_calm_held c s s' p ans drop hcalm a1 a2 hp
      exact ⟨Or.inr ct', fun _ h => absurd hY h, fun h => absurd h (calm_ne_kill ct'), fun _ => ⟨b1, b2, calm_ne_kill ct'⟩⟩
    · have hI := free (calm_ne_kill ct) hY
      obtain ⟨i', _⟩ := pstep_calm c s s' p ans drop hcalm hI hp
      exact ⟨Or.inr ct', fun _ _ => i', fun h => absurd h (calm_ne_kill ct'), fun h => absurd h hY⟩

/-- the configurations of an overlap in the code in which a KILL takes the entry out when it finds the task -/
structure Held (cf : Conf) : Prop where
  shA : killThread cf.pa ∨ calmThread cf.pa
  shB : killThread cf.pb ∨ calmThread cf.pb
  free : cf.pa ≠ [.whole .kill] → cf.pb ≠ [.whole .kill] → Inv cf.s
  heldA : cf.pa = [.whole .kill] → cf.s.active = false ∧ Inv { cf.s with active := true } ∧ cf.pb ≠ [.whole .kill]
  heldB : cf.pb = [.whole .kill] → cf.s.active = false ∧ Inv { cf.s with active := true } ∧ cf.pa ≠ [.whole .kill]

theorem held_move (c : Cfg) (hcl : c.killClaimsEntry = true) (cf cf' : Conf) (ch : Bool) (g : Held cf)
    (hm : cf.move c ch = .ok cf') : Held cf' := by
  obtain ⟨shA, shB, free, heldA, heldB⟩ := g
  rcases move_cases c cf cf' ch hm with rfl | ⟨p, rest, s', ans, drop, hpa, hp, rfl⟩ | ⟨p, rest, s', ans, drop, hpb, hp, rfl⟩
  · exact ⟨shA, shB, free, heldA, heldB⟩
  · rw [hpa] at shA free heldA heldB
    obtain ⟨r1, r2, r3, r4⟩ := held_thread_move c hcl cf.s s' p rest cf.pb ans drop shA free heldA
      (fun h => ⟨(heldB h).1, (heldB h).2.1⟩) hp
    exact ⟨r1, shB, r2, r3, r4⟩
  · rw [hpb] at shB free heldA heldB
    obtain ⟨r1, r2, r3, r4⟩ := held_thread_move c hcl cf.s s' p rest cf.pa ans drop shB (fun h1 h2 => free h2 h1) heldB
      (fun h => ⟨(heldA h).1, (heldA h).2.1⟩) hp
    exact ⟨shA, r1, fun h1 h2 => r2 h2 h1, r4, r3⟩

/-- two requests -/
def reqItem : Item → Bool
  | .one _ => true
  | .par a b => a.isRequest && b.isRequest

theorem reqItem_of_notTwoKills (it : Item) (h : notTwoKills it = true) : reqItem it = true := by
  cases it <;> simp_all [notTwoKills, reqItem]

theorem reqItem_of_ok (k : Kind) (it : Item) (h : it.ok k = true) : reqItem it = true := by
  cases it <;> simp_all [Item.ok, parOK, reqItem]

theorem held_start (s : St) (a b : Op) (h : Inv s) (hn : reqItem (.par a b) = true) : Held (parStart s a b) := by
  simp only [reqItem, Bool.and_eq_true] at hn
  have sh : ∀ op, op.isRequest = true → killThread (partsOf s.kind op) ∨ calmThread (partsOf s.kind op) := by
    intro op hr
    by_cases e : op = .kill
    · subst e; left; simp [partsOf, spawns, killThread]
    · right; exact calm_partsOf _ op hr e
  have nk : ∀ op, partsOf s.kind op ≠ [.whole .kill] := by
    intro op; simp only [partsOf]; split <;> simp
  exact ⟨sh a hn.1, sh b hn.2, fun _ _ => h, fun e => absurd e (nk a), fun e => absurd e (nk b)⟩

/-- the code as it is: EVERY overlap of two requests keeps the basic invariant -/
theorem par_inv_claimed (c : Cfg) (hcl : c.killClaimsEntry = true) (s s' : St) (a b : Op) (ra rb : Res) (h : Inv s)
    (hn : reqItem (.par a b) = true) (hpo : POut.done s' ra rb ∈ parOutcomes c s a b) : Inv s' := by
  obtain ⟨cf, g, ea, eb, e | e⟩ := parOutcomes_keeps c Held s a b (fun cf ch cf' => held_move c hcl cf cf' ch)
    (held_start s a b h hn) hpo
  · exact e ▸ g.free (by simp [ea]) (by simp [eb])
  · exact e ▸ inv_swap cf.s _ (g.free (by simp [ea]) (by simp [eb]))

/-- every run of a schedule of items keeps the basic invariant when a KILL takes the entry out at its look-up -/
theorem runI_inv_claimed (c : Cfg) (hcl : c.killClaimsEntry = true) (k : Kind) (b : Beh) (items : List Item)
    (hn : items.all reqItem = true) : ∀ o ∈ runI c k b items, Inv o.st :=
  runI_inv_of c reqItem (par_inv_claimed c hcl) k b items hn

/-- every run of a schedule without two overlapping KILLs keeps the basic invariant — every configuration -/
theorem runI_inv (c : Cfg) (k : Kind) (b : Beh) (items : List Item) (hn : items.all notTwoKills = true) :
    ∀ o ∈ runI c k b items, Inv o.st := by
  cases hcl : c.killClaimsEntry
  · exact runI_inv_of c notTwoKills (par_inv_legacy c hcl) k b items hn
  · apply runI_inv_claimed c hcl k b items
    simp only [List.all_eq_true] at hn ⊢
    exact fun it hit => reqItem_of_notTwoKills it (hn it hit)

/-! ### no overlap gets the executor stuck over a basic / hook / data-less task unless a KILL meets a starting child -/

/-- what can be left of the handling of `op` -/
def tailsOf : List Part → List (List Part)
  | [] => [[]]
  | p :: l => (p :: l) :: tailsOf l

theorem nil_mem_tailsOf (l : List Part) : [] ∈ tailsOf l := by
  induction l with
  | nil => simp [tailsOf]
  | cons p l ih => simp [tailsOf, ih]

def threadsOf (k : Kind) (op : Op) : List (List Part) := tailsOf (partsOf k op)

/-- the next part dereferences t.taskCmd -/
def needsCmd : List Part → Bool
  | .exec _ :: _ | .reap _ :: _ => true
  | _ => false

/-- the configurations the overlap no-stuck theorems are about: ensureBasicTaskKilled tests for nil, a KILL for
    a task that is not active is ignored, a launch without data returns (three of the first five repairs) -/
structure Cfg.Repaired (c : Cfg) : Prop where
  stop : c.stopNilSafe = true
  kill : c.killInactiveIgnored = true
  launch : c.launchNilSafe = true

theorem codeCfg_repaired : codeCfg.Repaired := ⟨rfl, rfl, rfl⟩
theorem overlapLegacyCfg_repaired : overlapLegacyCfg.Repaired := ⟨rfl, rfl, rfl⟩

theorem step_rep_not_stuck (c : Cfg) (hc : c.Repaired) (s : St) (op : Op) (hk : s.kind ≠ .ctl) :
    (step c s op).2.stuck = false := by
  rw [step_stuck_iff]
  cases hk' : s.kind <;> simp_all [unsafeReq, killNoRpc, hc.stop, hc.kill]

theorem stuck_of_halts {r : Res} (h : r.stuck = false) : r.halts = false := by
  cases r <;> simp_all [Res.stuck, Res.halts]

theorem serve_rep_not_stuck (c : Cfg) (hc : c.Repaired) (s : St) (op : Op) (hk : s.kind ≠ .ctl) :
    (serve c s op).2.stuck = false := by
  have := step_rep_not_stuck c hc { s with active := true } op hk
  simpa [serve] using this

theorem serve_kind (c : Cfg) (s : St) (op : Op) : (serve c s op).1.kind = s.kind := by
  have := step_kind c { s with active := true } op
  simpa [serve] using this

theorem serve_cmd_nonkill (c : Cfg) (s : St) (op : Op) (hr : op.isRequest = true) (hk : op ≠ .kill)
    (hc : s.cmd = true) : (serve c s op).1.cmd = true := by
  cases op <;> simp only [Op.isRequest] at hr <;> simp only [serve, step, spawn, stopBasic, ctlTransition, reapCtl, escalate, giveUp]
  all_goals (repeat' split)
  all_goals simp_all

theorem step_inactive_cmd (c : Cfg) (s : St) (op : Op) (hr : op.isRequest = true) (ha : s.active = false) :
    (step c s op).1.cmd = s.cmd ∧ (step c s op).1.kind = s.kind := by
  cases op <;> simp only [Op.isRequest] at hr <;> simp only [step, ha]
  all_goals (repeat' split)
  all_goals simp_all

/-- the next part finds the command it needs: the field is set — or the part does not read the field at all -/
def cmdOk (c : Cfg) (s : St) : Prop := s.cmd = true ∨ c.startOwnsCmd = true

/-- One move of the request `op` from what is left of it, for a task that is not controllable: it does not halt,
    what is left is again a rest of `op`, its answer is not a stuck result, the next part still finds the command
    it needs, and unless `op` is a KILL a command that was there is still there. -/
theorem thread_move_safe (c : Cfg) (hrep : c.Repaired) (k : Kind) (hk : k ≠ .ctl) (op : Op) (hr : op.isRequest = true)
    (s : St) (hs : s.kind = k)
    (p : Part) (rest : List Part) (hl : (p :: rest) ∈ threadsOf k op) (hc : needsCmd (p :: rest) = true → cmdOk c s) :
    ∃ s' ans drop, pstep c s p = .next s' ans drop ∧ s'.kind = k ∧
      (if drop then [] else rest) ∈ threadsOf k op ∧
      (needsCmd (if drop then [] else rest) = true → cmdOk c s') ∧
      (∀ r, ans = some r → r.stuck = false) ∧
      (op ≠ .kill → cmdOk c s → cmdOk c s') := by
  have hkc : s.kind ≠ .ctl := hs ▸ hk
  have hnil : ([] : List Part) ∈ threadsOf k op := nil_mem_tailsOf _
  have lookCase : ∀ (rest : List Part), (rest ∈ threadsOf k op) → needsCmd rest = false →
      ∃ s' ans drop, pstep c s (.look op) = .next s' ans drop ∧ s'.kind = k ∧
        (if drop then [] else rest) ∈ threadsOf k op ∧
        (needsCmd (if drop then [] else rest) = true → cmdOk c s') ∧
        (∀ r, ans = some r → r.stuck = false) ∧ (op ≠ .kill → cmdOk c s → cmdOk c s') := by
    intro rest hrest hnc
    simp only [pstep]
    split
    · exact ⟨s, some .dead, true, rfl, hs, by simpa using hnil, by simp [needsCmd], by simp [Res.stuck], fun _ h => h⟩
    · split
      · exact ⟨claim c s op, none, false, rfl, by rw [claim_kind]; exact hs, by simpa using hrest, by simp [hnc], by simp,
          fun _ h => by simpa [cmdOk, claim_cmd] using h⟩
      · rename_i ha
        have ha' : s.active = false := by simpa using ha
        have := step_inactive_cmd c s op hr ha'
        refine ⟨_, _, true, rfl, by rw [this.2]; exact hs, by simpa using hnil, by simp [needsCmd], ?_,
          fun _ h => by simpa [cmdOk, this.1] using h⟩
        intro r e; cases e; exact step_rep_not_stuck c hrep s op hkc
  have wholeCase : ∃ s' ans drop, pstep c s (.whole op) = .next s' ans drop ∧ s'.kind = k ∧
        (if drop then [] else ([] : List Part)) ∈ threadsOf k op ∧
        (needsCmd (if drop then [] else ([] : List Part)) = true → cmdOk c s') ∧
        (∀ r, ans = some r → r.stuck = false) ∧ (op ≠ .kill → cmdOk c s → cmdOk c s') := by
    have hns := serve_rep_not_stuck c hrep s op hkc
    simp only [pstep, stuck_of_halts hns, Bool.false_eq_true, ↓reduceIte]
    refine ⟨_, _, false, rfl, by rw [serve_kind]; exact hs, by simpa using hnil, by simp [needsCmd], ?_, ?_⟩
    · intro r e; cases e; exact hns
    · intro hk' hc'
      rcases hc' with hc' | hc'
      · exact Or.inl (serve_cmd_nonkill c s op hr hk' hc')
      · exact Or.inr hc'
  simp only [threadsOf, partsOf] at hl
  split at hl
  · -- a request that starts a child: look, prep, exec, reap
    rename_i hsp
    have hbl : s.kind.basicLike = true := by
      rw [hs]; cases k <;> simp_all [spawns, Kind.basicLike]
    have hopk : op ≠ .kill := by intro e; subst e; cases k <;> simp [spawns] at hsp
    simp only [tailsOf, List.mem_cons, List.cons.injEq, List.mem_nil_iff, or_false] at hl
    rcases hl with ⟨rfl, rfl⟩ | ⟨rfl, rfl⟩ | ⟨rfl, rfl⟩ | ⟨rfl, rfl⟩ | h
    · have := lookCase [.prep (k = .hook), .exec (k = .hook), .reap (k = .hook)]
        (by simp [threadsOf, partsOf, hsp, tailsOf]) (by simp [needsCmd])
      simpa [threadsOf, partsOf, hsp] using this
    · refine ⟨prepS s, none, false, by simp [pstep, hbl], by simp [prepS, hs], by simp [threadsOf, partsOf, hsp, tailsOf],
        fun _ => Or.inl (by simp [prepS]), by simp, fun _ _ => Or.inl (by simp [prepS])⟩
    · have hcmd := hc (by simp [needsCmd])
      have hgo : (!s.cmd && !c.startOwnsCmd) = false := by
        rcases hcmd with h | h <;> simp [h]
      simp only [pstep, hgo, Bool.false_eq_true, ↓reduceIte]
      split
      · exact ⟨s, _, true, rfl, hs, by simpa using hnil, by simp [needsCmd],
          by intro r e; cases e; simp [spawnAnswer]; split <;> simp [Res.stuck], fun _ _ => hcmd⟩
      · refine ⟨execS s, none, false, rfl, by simp [execS, hs], by simp [threadsOf, partsOf, hsp, tailsOf],
          fun _ => ?_, by simp, fun _ _ => ?_⟩ <;>
        (rcases hcmd with h | h; exact Or.inl (by simp [execS, h]); exact Or.inr h)
    · have hcmd := hc (by simp [needsCmd])
      have hgo : (!s.cmd && !c.startOwnsCmd) = false := by
        rcases hcmd with h | h <;> simp [h]
      simp only [pstep, hgo, Bool.false_eq_true, ↓reduceIte]
      exact ⟨s, _, false, rfl, hs, by simpa using hnil, by simp [needsCmd],
        by intro r e; cases e; simp [spawnAnswer]; split <;> simp [Res.stuck], fun _ _ => hcmd⟩
    · cases h
  · rename_i hsp
    simp only [tailsOf, List.mem_cons, List.cons.injEq, List.mem_nil_iff, or_false] at hl
    rcases hl with ⟨rfl, rfl⟩ | ⟨rfl, rfl⟩ | h
    · have := lookCase [.whole op] (by simp [threadsOf, partsOf, hsp, tailsOf]) (by simp [needsCmd])
      simpa [threadsOf, partsOf, hsp] using this
    · simpa [threadsOf, partsOf, hsp] using wholeCase
    · cases h

/-- the pairs the no-stuck theorem of the code before startBasicTask owned its command is about: two requests, not
    a KILL together with a request that starts a child -/
def noKillSpawn (k : Kind) : Item → Bool
  | .one _ => true
  | .par a b => a.isRequest && b.isRequest && !((a = .kill && spawns k b) || (spawns k a && b = .kill))

/-- the pairs the no-stuck theorem is about in configuration `c`: two requests — any two once startBasicTask works
    on its own pointer, before that not a KILL together with a request that starts a child -/
def safeItem (c : Cfg) (k : Kind) : Item → Bool
  | .one _ => true
  | .par a b => a.isRequest && b.isRequest &&
      (c.startOwnsCmd || !((a = .kill && spawns k b) || (spawns k a && b = .kill)))

theorem safeItem_of_noKillSpawn (c : Cfg) (k : Kind) (it : Item) (h : noKillSpawn k it = true) :
    safeItem c k it = true := by
  cases it with
  | one _ => rfl
  | par a b =>
    simp only [noKillSpawn, Bool.and_eq_true] at h
    simp only [safeItem, h.1.1, h.1.2, h.2, Bool.or_true, Bool.and_self]

theorem safeItem_of_owns (c : Cfg) (hc : c.startOwnsCmd = true) (k : Kind) (it : Item) (h : reqItem it = true) :
    safeItem c k it = true := by
  cases it with
  | one _ => rfl
  | par a b =>
    simp only [reqItem, Bool.and_eq_true] at h
    simp [safeItem, h.1, h.2, hc]

theorem needsCmd_plain (k : Kind) (op : Op) (h : spawns k op = false) (l : List Part) (hl : l ∈ threadsOf k op) :
    needsCmd l = false := by
  simp only [threadsOf, partsOf, h, Bool.false_eq_true, ↓reduceIte, tailsOf, List.mem_cons, List.mem_nil_iff, or_false] at hl
  rcases hl with rfl | rfl | rfl <;> rfl

theorem spawns_kill (k : Kind) : spawns k .kill = false := by cases k <;> simp [spawns]

/-- the configurations of an overlap (task not controllable) in which every part finds the command it needs -/
structure Safe (c : Cfg) (k : Kind) (a b : Op) (cf : Conf) : Prop where
  kind : cf.s.kind = k
  ta : cf.pa ∈ threadsOf k a
  tb : cf.pb ∈ threadsOf k b
  cmdA : needsCmd cf.pa = true → cmdOk c cf.s
  cmdB : needsCmd cf.pb = true → cmdOk c cf.s
  okA : ∀ r, cf.ra = some r → r.stuck = false
  okB : ∀ r, cf.rb = some r → r.stuck = false

theorem safe_move (c : Cfg) (hrep : c.Repaired) (k : Kind) (hk : k ≠ .ctl) (a b : Op)
    (hn : safeItem c k (.par a b) = true)
    (cf : Conf) (ch : Bool) (g : Safe c k a b cf) : ∃ cf', cf.move c ch = .ok cf' ∧ Safe c k a b cf' := by
  simp only [safeItem, Bool.and_eq_true, Bool.or_eq_true, Bool.not_eq_true', Bool.or_eq_false_iff, Bool.and_eq_false_imp,
    decide_eq_true_eq] at hn
  obtain ⟨⟨ra, rb⟩, hown⟩ := hn
  obtain ⟨kind, ta, tb, cmdA, cmdB, okA, okB⟩ := g
  simp only [Conf.move]
  split
  · cases hpa : cf.pa with
    | nil => exact ⟨cf, rfl, ⟨kind, ta, tb, cmdA, cmdB, okA, okB⟩⟩
    | cons p rest =>
      rw [hpa] at ta cmdA
      obtain ⟨s', ans, drop, hp, hk', ht', hc', hans, hkeep⟩ := thread_move_safe c hrep k hk a ra cf.s kind p rest ta cmdA
      simp only [hp]
      refine ⟨_, rfl, ⟨hk', ht', tb, hc', ?_, ?_, okB⟩⟩
      · intro hb
        rcases hown with ho | ⟨hab, _⟩
        · exact Or.inr ho
        · by_cases ea : a = .kill
          · have := needsCmd_plain k b (hab ea) cf.pb tb
            simp [this] at hb
          · exact hkeep ea (cmdB hb)
      · intro r hr'
        cases ans with
        | none => exact okA r (by simpa using hr')
        | some r' => simp at hr'; exact hans r (by rw [hr'])
  · cases hpb : cf.pb with
    | nil => exact ⟨cf, rfl, ⟨kind, ta, tb, cmdA, cmdB, okA, okB⟩⟩
    | cons p rest =>
      rw [hpb] at tb cmdB
      obtain ⟨s', ans, drop, hp, hk', ht', hc', hans, hkeep⟩ := thread_move_safe c hrep k hk b rb cf.s kind p rest tb cmdB
      simp only [hp]
      refine ⟨_, rfl, ⟨hk', ta, ht', ?_, hc', okA, ?_⟩⟩
      · intro ha
        rcases hown with ho | ⟨_, hba⟩
        · exact Or.inr ho
        · by_cases eb : b = .kill
          · have hsa : spawns k a = false := by
              cases hsa : spawns k a
              · rfl
              · exact absurd eb (by simpa using hba hsa)
            have := needsCmd_plain k a hsa cf.pa ta
            simp [this] at ha
          · exact hkeep eb (cmdA ha)
      · intro r hr'
        cases ans with
        | none => exact okB r (by simpa using hr')
        | some r' => simp at hr'; exact hans r (by rw [hr'])

theorem safe_start (c : Cfg) (k : Kind) (s : St) (hs : s.kind = k) (a b : Op) : Safe c k a b (parStart s a b) := by
  have h1 : ∀ op, partsOf k op ∈ threadsOf k op := by
    intro op; simp only [threadsOf]; cases h : partsOf k op <;> simp [tailsOf]
  have h2 : ∀ op, needsCmd (partsOf k op) = false := by
    intro op; simp only [partsOf]; split <;> rfl
  refine ⟨hs, ?_, ?_, ?_, ?_, ?_, ?_⟩ <;> simp_all [parStart]

theorem noStuckI_push (r : IRes) (o : IOutcome) : noStuckI (o.push r).res = (!r.stuck && noStuckI o.res) := by
  simp [noStuckI, IOutcome.push]

/-- every run of a schedule of safe items: no crash, no hang, the loop goes on — for basic tasks, hook tasks and
    tasks without data, in every configuration with the three repairs -/
theorem runFromI_noStuck (c : Cfg) (hrep : c.Repaired) (k : Kind) (hk : k ≠ .ctl) (items : List Item)
    (hn : items.all (safeItem c k) = true) :
    ∀ (s : St), s.kind = k → ∀ o ∈ runFromI c s items, noStuckI o.res = true := by
  induction items with
  | nil =>
    intro s hs o ho
    simp only [runFromI, List.mem_singleton] at ho
    subst ho; rfl
  | cons it rest ih =>
    simp only [List.all_cons, Bool.and_eq_true] at hn
    intro s hs o ho
    cases it with
    | one op =>
      have hns := step_rep_not_stuck c hrep s op (hs ▸ hk)
      simp only [runFromI] at ho
      split at ho
      · simp only [List.mem_map] at ho
        obtain ⟨o', ho', rfl⟩ := ho
        rw [noStuckI_push, ih hn.2 s hs o' ho']; rfl
      · split at ho
        · simp only [List.mem_singleton] at ho
          subst ho
          simp [noStuckI, IRes.stuck, hns]
        · simp only [List.mem_map] at ho
          obtain ⟨o', ho', rfl⟩ := ho
          rw [noStuckI_push, ih hn.2 _ (by rw [step_kind]; exact hs) o' ho']
          simp [IRes.stuck, hns]
    | par a b =>
      simp only [runFromI] at ho
      split at ho
      · simp only [List.mem_map] at ho
        obtain ⟨o', ho', rfl⟩ := ho
        rw [noStuckI_push, ih hn.2 s hs o' ho']; rfl
      · simp only [List.mem_flatMap] at ho
        obtain ⟨po, hpo, ho⟩ := ho
        obtain ⟨cf, g, e | e⟩ := parOutcomes_safe c (Safe c k a b) s a b
          (fun cf ch g => safe_move c hrep k hk a b hn.1 cf ch g) (safe_start c k s hs a b) hpo
        all_goals
          subst e
          simp only [List.mem_map] at ho
          obtain ⟨o', ho', rfl⟩ := ho
          have hra : (cf.ra.getD .none).stuck = false := by
            cases h : cf.ra with
            | none => rfl
            | some r => exact g.okA r h
          have hrb : (cf.rb.getD .none).stuck = false := by
            cases h : cf.rb with
            | none => rfl
            | some r => exact g.okB r h
          rw [noStuckI_push, ih hn.2 _ (by simpa using g.kind) o' ho']
          simp [IRes.stuck, hra, hrb]

theorem runI_noStuck (c : Cfg) (hrep : c.Repaired) (k : Kind) (hk : k ≠ .ctl) (b : Beh) (items : List Item)
    (hn : items.all (safeItem c k) = true) :
    ∀ o ∈ runI c k b items, noStuckI o.res = true := by
  intro o ho
  have hl : (init c k b).2.stuck = false := by
    have h := init_halts c k b
    have hc : launchCrashes c k b = false := by
      cases k <;> simp_all [launchCrashes, hrep.launch]
    rw [hc] at h
    rw [init_ok c k b h]; rfl
  simp only [runI] at ho
  split at ho
  · simp only [List.mem_singleton] at ho
    subst ho
    simp [noStuckI, IRes.stuck, hl]
  · simp only [List.mem_map] at ho
    obtain ⟨o', ho', rfl⟩ := ho
    rw [noStuckI_push, runFromI_noStuck c hrep k hk items hn _ (init_kind c k b) o' ho']
    simp [IRes.stuck, hl]

/-! ### the parts of a request, run one after the other, are the step of the sequential model; an overlap has the
    behaviour "A, then B" among its behaviours -/

/-- the parts of one request run without anything in between -/
def runThread (c : Cfg) : List Part → St → Option Res → Except Res (St × Option Res)
  | [], s, r => .ok (s, r)
  | p :: rest, s, r =>
    match pstep c s p with
    | .halt r' => .error r'
    | .next s' ans drop =>
      if drop then .ok (s', if ans.isSome then ans else r)
      else runThread c rest s' (if ans.isSome then ans else r)

theorem step_inactive_not_halts (c : Cfg) (s : St) (op : Op) (hr : op.isRequest = true) (ha : s.active = false) :
    (step c s op).2.halts = false := by
  cases op <;> simp only [Op.isRequest] at hr <;> simp only [step, ha]
  all_goals (repeat' split)
  all_goals simp_all [Res.halts]

theorem prepS_spawn (s : St) (h : s.beh.startFails = true) : prepS s = (spawn s).1 := by
  simp [prepS, spawn, h]

theorem execS_spawn (s : St) (h : s.beh.startFails = false) : execS (prepS s) = (spawn s).1 := by
  simp [prepS, execS, spawn, h]

/-- the request served after its own look-up found the task (and, for a KILL of the repaired handler, took the
    entry out): what `step` does -/
theorem serve_claim (c : Cfg) (s : St) (op : Op) (ha : s.active = true) :
    (serve c (claim c s op) op).2 = (step c s op).2 ∧
    ((step c s op).2.halts = false → (serve c (claim c s op) op).1 = (step c s op).1) := by
  simp only [claim]
  split
  · rename_i hcond
    simp only [Bool.and_eq_true, decide_eq_true_eq] at hcond
    obtain ⟨_, rfl⟩ := hcond
    have e : ({ ({ s with active := false } : St) with active := true } : St) = s := withActive_of_active s ha
    constructor
    · rw [serve_snd, e]
    · intro hh
      rw [serve_held_kill c { s with active := false } rfl (by rw [serve_snd, e]; exact hh), e]
  · rw [serve_eq_step c s op ha]
    exact ⟨rfl, fun _ => rfl⟩

/-- One request alone: look-up and parts in a row give exactly `step`. -/
theorem runThread_is_step (c : Cfg) (s : St) (op : Op) (hl : s.loop = true) (hr : op.isRequest = true) :
    runThread c (partsOf s.kind op) s none =
      if (step c s op).2.halts then .error (step c s op).2 else .ok ((step c s op).1, some (step c s op).2) := by
  cases ha : s.active
  · -- refused by the look-up, inside the handler
    have hnh := step_inactive_not_halts c s op hr ha
    simp only [partsOf]
    split <;> simp [runThread, pstep, hl, ha, hnh]
  · simp only [partsOf]
    split
    · -- a request that starts a child
      rename_i hsp
      have hbl : s.kind.basicLike = true := by cases hk : s.kind <;> simp_all [spawns, Kind.basicLike]
      have hcl : claim c s op = s := by
        apply claim_of_ne
        intro e; subst e; cases hk : s.kind <;> simp [spawns, hk] at hsp
      cases hf : s.beh.startFails
      · have e := execS_spawn s hf
        cases hk : s.kind <;> simp [hk, spawns] at hsp
        · subst hsp
          simp [runThread, pstep, hl, ha, hcl, Kind.basicLike, prepS, execS, hf, step, hk, spawn, spawnAnswer, Res.halts]
        · subst hsp
          simp [runThread, pstep, hl, ha, hcl, Kind.basicLike, prepS, execS, hf, step, hk, spawn, spawnAnswer, Res.halts]
      · cases hk : s.kind <;> simp [hk, spawns] at hsp
        · subst hsp
          simp [runThread, pstep, hl, ha, hcl, Kind.basicLike, prepS, hf, step, hk, spawn, spawnAnswer, Res.halts]
        · subst hsp
          simp [runThread, pstep, hl, ha, hcl, Kind.basicLike, prepS, hf, step, hk, spawn, spawnAnswer, Res.halts]
    · have hsc := serve_claim c s op ha
      simp only [runThread, pstep, hl, ha, Bool.not_true, Bool.false_eq_true, ↓reduceIte, hsc.1]
      cases hh : (step c s op).2.halts
      · simp [hsc.2 hh]
      · simp

theorem runChoices_done (c : Cfg) (chs : List Bool) (cf : Conf) (ha : cf.pa = []) (hb : cf.pb = []) :
    runChoices c chs cf = .ok cf := by
  induction chs with
  | nil => rfl
  | cons ch rest ih => simp [runChoices, Conf.move, Conf.pickA, ha, hb, ih]

/-- always choosing A: A's parts in a row, then B's -/
theorem runChoices_trues (c : Cfg) (n : Nat) :
    ∀ (cf : Conf), cf.pa.length + cf.pb.length ≤ n →
      runChoices c (List.replicate n true) cf =
        (match runThread c cf.pa cf.s cf.ra with
         | .error r => .error r
         | .ok (s1, r1) =>
           match runThread c cf.pb s1 cf.rb with
           | .error r => .error r
           | .ok (s2, r2) => .ok { s := s2, pa := [], ra := r1, pb := [], rb := r2 }) := by
  induction n with
  | zero =>
    intro cf h
    have ha : cf.pa = [] := by cases h' : cf.pa <;> simp_all
    have hb : cf.pb = [] := by cases h' : cf.pb <;> simp_all
    cases cf; simp_all [runChoices, runThread]
  | succ n ih =>
    intro cf h
    cases hpa : cf.pa with
    | cons p rest =>
      have hpick : cf.pickA true = true := by
        simp only [Conf.pickA, hpa]; cases cf.pb <;> rfl
      simp only [List.replicate_succ, runChoices, Conf.move, hpick, ↓reduceIte, hpa, runThread]
      cases hp : pstep c cf.s p with
      | halt r => rfl
      | next s' ans drop =>
        simp only
        rw [ih]
        · cases drop <;> simp [runThread]
        · cases drop <;> simp [hpa] at h ⊢ <;> omega
    | nil =>
      cases hpb : cf.pb with
      | nil =>
        rw [runChoices_done c _ cf hpa hpb]
        cases cf; simp_all [runThread]
      | cons p rest =>
        have hpick : cf.pickA true = false := by simp only [Conf.pickA, hpa]
        simp only [List.replicate_succ, runChoices, Conf.move, hpick, Bool.false_eq_true, ↓reduceIte, hpa, hpb, runThread]
        cases hp : pstep c cf.s p with
        | halt r => rfl
        | next s' ans drop =>
          simp only
          rw [ih]
          · cases drop <;> simp [runThread]
          · cases drop <;> simp [hpa, hpb] at h ⊢ <;> omega

theorem length_partsOf_le (k : Kind) (op : Op) : (partsOf k op).length ≤ 4 := by
  simp only [partsOf]; split <;> simp

/-- "A, then B" (B handled after A has been served completely) is one of the behaviours of `par a b`. -/
theorem par_includes_seq (c : Cfg) (s : St) (a b : Op) (hl : s.loop = true) (hra : a.isRequest = true)
    (hrb : b.isRequest = true) (ha : (step c s a).2.halts = false) (hl' : (step c s a).1.loop = true)
    (hb : (step c (step c s a).1 b).2.halts = false) :
    POut.done (step c (step c s a).1 b).1 (step c s a).2 (step c (step c s a).1 b).2 ∈ parOutcomes c s a b := by
  let n := (partsOf s.kind a).length + (partsOf s.kind b).length
  apply parOutcomes_of_run (List.replicate n true) (by simp [n])
  have hrun : parRun c s a b (List.replicate n true) = runChoices c (List.replicate (n + 1) true) (parStart s a b) := by
    simp only [parRun, lookFirst, List.replicate_succ, runChoices]
    cases (parStart s a b).move c true <;> rfl
  rw [hrun, runChoices_trues c (n + 1) (parStart s a b) (by simp [parStart, n])]
  simp only [parStart, runThread_is_step c s a hl hra, ha, Bool.false_eq_true, ↓reduceIte]
  have hk : s.kind = (step c s a).1.kind := (step_kind c s a).symm
  rw [hk, runThread_is_step c (step c s a).1 b hl' hrb]
  simp [hb, POut.ofRun]

/-! ### a part is stuck exactly in the unsafe part states -/

theorem step_active_halts_eq_stuck (c : Cfg) (s : St) (op : Op) (ha : s.active = true) :
    (step c s op).2.halts = (step c s op).2.stuck := by
  cases op <;> simp only [step, spawn, stopBasic, ctlTransition, reapCtl, escalate, giveUp, ha]
  all_goals (repeat' split)
  all_goals simp_all [Res.halts, Res.stuck]

theorem pstep_halts_iff (c : Cfg) (s : St) (p : Part) : (pstep c s p).halts = unsafePart c s p := by
  cases p with
  | look op =>
    simp only [pstep, unsafePart]
    repeat' split
    all_goals rfl
  | whole op =>
    have h := step_active_halts_eq_stuck c { s with active := true } op rfl
    rw [step_stuck_iff] at h
    have e : (serve c s op).2 = (step c { s with active := true } op).2 := rfl
    simp only [pstep, unsafePart, ← h, ← e]
    cases hh : (serve c s op).2.halts <;> simp [PStep.halts]
  | prep h => simp only [pstep, unsafePart]; split <;> rfl
  | exec h =>
    simp only [pstep, unsafePart]
    repeat' split
    all_goals simp_all [PStep.halts]
  | reap h =>
    simp only [pstep, unsafePart]
    repeat' split
    all_goals simp_all [PStep.halts]

/-! ### the flattened view the property is evaluated on -/

theorem noStuck_specPairs (items : List Item) (rs : List IRes) (h : noStuckI rs = true) :
    ∀ x ∈ specPairs items rs, x.2.stuck = false := by
  induction items generalizing rs with
  | nil => intro x hx; simp [specPairs] at hx
  | cons it rest ih =>
    intro x hx
    cases rs with
    | nil => cases it <;> simp [specPairs] at hx
    | cons r rs' =>
      simp only [noStuckI, List.all_cons, Bool.and_eq_true, Bool.not_eq_true'] at h
      cases it with
      | one op =>
        cases r with
        | one r0 =>
          simp only [specPairs, List.mem_cons] at hx
          rcases hx with rfl | hx
          · simpa [IRes.stuck] using h.1
          · exact ih rs' (by simpa [noStuckI] using h.2) x hx
        | par ra rb => simp [specPairs] at hx
      | par a b =>
        cases r with
        | one r0 =>
          simp only [specPairs, List.mem_singleton] at hx
          subst hx
          simpa [IRes.stuck] using h.1
        | par ra rb =>
          have h1 : ra.stuck = false ∧ rb.stuck = false := by simpa [IRes.stuck] using h.1
          simp only [specPairs, List.mem_append] at hx
          rcases hx with hx | hx
          · split at hx <;> simp only [List.mem_cons, List.mem_nil_iff, or_false] at hx <;>
              rcases hx with rfl | rfl <;> simp [h1.1, h1.2]
          · exact ih rs' (by simpa [noStuckI] using h.2) x hx

/-- no stuck result in the run ⇒ the `noStuck` clause of the property holds of the flattened observation -/
theorem noStuck_flat (items : List Item) (o : IObs) (h : noStuckI o.res = true) :
    noStuck (o.flat items).2.res = true := by
  simp only [IObs.flat]
  split
  · rename_i r0 rs he
    rw [he] at h
    simp only [noStuckI, List.all_cons, Bool.and_eq_true, Bool.not_eq_true'] at h
    have := noStuck_specPairs items rs (by simpa [noStuckI] using h.2)
    simp only [noStuck, List.all_cons, Bool.and_eq_true, Bool.not_eq_true', List.all_map, List.all_eq_true,
      Function.comp_apply]
    exact ⟨by simpa [IRes.stuck] using h.1, fun x hx => this x hx⟩
  · rfl

theorem emits_flat (items : List Item) (o : IObs) : (o.flat items).2.emits = o.emits := by
  simp only [IObs.flat]; split <;> rfl

end ExecTask
