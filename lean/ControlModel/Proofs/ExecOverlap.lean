/-
  Proofs/ExecOverlap — lemmas behind the overlap theorems of Props/C17 (core only).
-/
import ControlModel.Model.ExecOverlap
import ControlModel.Spec.C17
import ControlModel.Proofs.ExecTask

namespace ExecTask

/-! ### a schedule without overlaps has exactly the run of the sequential model -/

theorem runFromI_plain (c : Cfg) (s : St) (ops : List Op) :
    runFromI c s (plain ops) = [(runFrom c s ops).lift] := by
  induction ops generalizing s with
  | nil => simp [plain, runFromI, runFrom, Outcome.lift]
  | cons op ops ih =>
    simp only [plain, List.map_cons, runFromI, runFrom] at ih ⊢
    split
    · rw [ih s]; simp [IOutcome.push, Outcome.lift]
    · split
      · simp [Outcome.lift]
      · rw [ih]; simp [IOutcome.push, Outcome.lift]

theorem runI_plain (c : Cfg) (k : Kind) (b : Beh) (ops : List Op) :
    runI c k b (plain ops) = [(run c k b ops).lift] := by
  simp only [runI, run]
  split
  · simp [Outcome.lift]
  · rw [runFromI_plain]; simp [IOutcome.push, Outcome.lift]

/-! ### every behaviour of an overlap is a run along some list of choices -/

/-- a property of configurations kept by every move is kept by every run -/
theorem runChoices_keeps (c : Cfg) (G : Conf → Prop)
    (hmove : ∀ cf ch cf', G cf → cf.move c ch = .ok cf' → G cf') :
    ∀ (chs : List Bool) (cf cf' : Conf), G cf → runChoices c chs cf = .ok cf' → G cf' := by
  intro chs
  induction chs with
  | nil => intro cf cf' h e; simp only [runChoices] at e; cases e; exact h
  | cons ch rest ih =>
    intro cf cf' h e
    simp only [runChoices] at e
    cases hm : cf.move c ch with
    | error r => rw [hm] at e; cases e
    | ok cf1 => rw [hm] at e; exact ih cf1 cf' (hmove cf ch cf1 h hm) e

/-- … and if no move from such a configuration halts, no run halts -/
theorem runChoices_safe (c : Cfg) (G : Conf → Prop)
    (hmove : ∀ cf ch, G cf → ∃ cf', cf.move c ch = .ok cf' ∧ G cf') :
    ∀ (chs : List Bool) (cf : Conf), G cf → ∃ cf', runChoices c chs cf = .ok cf' ∧ G cf' := by
  intro chs
  induction chs with
  | nil => intro cf h; exact ⟨cf, rfl, h⟩
  | cons ch rest ih =>
    intro cf h
    obtain ⟨cf1, hm, h1⟩ := hmove cf ch h
    obtain ⟨cf2, hr, h2⟩ := ih cf1 h1
    exact ⟨cf2, by simp only [runChoices, hm, hr], h2⟩

/-- the run behind an outcome -/
def parRun (c : Cfg) (s : St) (a b : Op) (chs : List Bool) : Except Res Conf :=
  match lookFirst c (parStart s a b) with
  | .error r => .error r
  | .ok cf1 => runChoices c chs cf1

theorem mem_parOutcomes {c : Cfg} {s : St} {a b : Op} {o : POut} (h : o ∈ parOutcomes c s a b) :
    ∃ chs, o ∈ POut.ofRun s.out.length (parRun c s a b chs) := by
  simp only [parOutcomes, List.mem_eraseDups, List.mem_flatMap] at h
  obtain ⟨chs, _, ho⟩ := h
  exact ⟨chs, ho⟩

theorem mem_allChoices (l : List Bool) : l ∈ allChoices l.length := by
  induction l with
  | nil => simp [allChoices]
  | cons x xs ih =>
    simp only [List.length_cons, allChoices, List.mem_flatMap]
    exact ⟨xs, ih, by cases x <;> simp⟩

theorem parOutcomes_of_run {c : Cfg} {s : St} {a b : Op} {o : POut} (chs : List Bool)
    (hn : chs.length = (partsOf s.kind a).length + (partsOf s.kind b).length)
    (h : o ∈ POut.ofRun s.out.length (parRun c s a b chs)) : o ∈ parOutcomes c s a b := by
  simp only [parOutcomes, List.mem_eraseDups, List.mem_flatMap]
  refine ⟨chs, ?_, h⟩
  have := mem_allChoices chs
  rw [hn] at this
  simpa [parStart] using this

/-- what an overlap leaves behind, from a property every move keeps -/
theorem parOutcomes_keeps (c : Cfg) (G : Conf → Prop) (s : St) (a b : Op)
    (hmove : ∀ cf ch cf', G cf → cf.move c ch = .ok cf' → G cf')
    (h0 : G (parStart s a b)) {s' : St} {ra rb : Res} (ho : POut.done s' ra rb ∈ parOutcomes c s a b) :
    ∃ cf, G cf ∧ (s' = cf.s ∨ s' = { cf.s with out := swapNew s.out.length cf.s.out }) := by
  obtain ⟨chs, hm⟩ := mem_parOutcomes ho
  simp only [parRun, lookFirst] at hm
  cases h1 : (parStart s a b).move c true with
  | error r => simp [h1, POut.ofRun] at hm
  | ok cf1 =>
    simp only [h1] at hm
    have g1 := hmove _ _ _ h0 h1
    cases h2 : runChoices c chs cf1 with
    | error r => rw [h2] at hm; simp [POut.ofRun] at hm
    | ok cf2 =>
      rw [h2] at hm
      have g2 := runChoices_keeps c G hmove chs cf1 cf2 g1 h2
      simp only [POut.ofRun, List.mem_cons, POut.done.injEq, List.mem_nil_iff, or_false] at hm
      rcases hm with ⟨e, _, _⟩ | ⟨e, _, _⟩
      · exact ⟨cf2, g2, Or.inl e⟩
      · exact ⟨cf2, g2, Or.inr e⟩

/-- no behaviour of an overlap halts, from a property that every move keeps and from which no move halts -/
theorem parOutcomes_safe (c : Cfg) (G : Conf → Prop) (s : St) (a b : Op)
    (hmove : ∀ cf ch, G cf → ∃ cf', cf.move c ch = .ok cf' ∧ G cf')
    (h0 : G (parStart s a b)) {o : POut} (ho : o ∈ parOutcomes c s a b) :
    ∃ cf, G cf ∧ (o = .done cf.s (cf.ra.getD .none) (cf.rb.getD .none) ∨
      o = .done { cf.s with out := swapNew s.out.length cf.s.out } (cf.ra.getD .none) (cf.rb.getD .none)) := by
  obtain ⟨chs, hm⟩ := mem_parOutcomes ho
  simp only [parRun, lookFirst] at hm
  obtain ⟨cf1, h1, g1⟩ := hmove _ true h0
  simp only [h1] at hm
  obtain ⟨cf2, h2, g2⟩ := runChoices_safe c G hmove chs cf1 g1
  rw [h2] at hm
  simp only [POut.ofRun, List.mem_cons, List.mem_nil_iff, or_false] at hm
  exact ⟨cf2, g2, hm⟩

/-! ### one part of a request, and the basic invariant -/

theorem serve_eq_step (c : Cfg) (s : St) (op : Op) (h : s.active = true) : serve c s op = step c s op := by
  have e : { s with active := true } = s := by cases s; simp_all
  simp only [serve, e, h, Bool.and_true]

theorem serve_inv_nonkill (c : Cfg) (s : St) (op : Op) (h : Inv s) (hr : op.isRequest = true) (hk : op ≠ .kill) :
    Inv (serve c s op).1 := by
  cases ha : s.active
  · obtain ⟨h1, h2, h3, h3', h4, h5, h6⟩ := h
    cases op <;> simp only [Op.isRequest] at hr <;> simp only [serve, step, spawn, stopBasic, ctlTransition, reapCtl, escalate]
    all_goals (repeat' split)
    all_goals (refine ⟨?_, ?_, ?_, ?_, ?_, ?_, ?_⟩ <;> simp_all [not_mem_of_terminals_zero, Kind.basicLike])
  · rw [serve_eq_step c s op ha]; exact step_inv c s op h

theorem serve_active_nonkill (c : Cfg) (s : St) (op : Op) (hr : op.isRequest = true) (hk : op ≠ .kill)
    (ha : s.active = true) : (serve c s op).1.active = true := by
  cases op <;> simp only [Op.isRequest] at hr <;> simp only [serve, step, spawn, stopBasic, ctlTransition, reapCtl, escalate]
  all_goals (repeat' split)
  all_goals simp_all

theorem prepS_inv (s : St) (h : Inv s) (hb : s.kind.basicLike = true) : Inv (prepS s) := by
  obtain ⟨h1, h2, h3, h3', h4, h5, h6⟩ := h
  refine ⟨?_, ?_, ?_, ?_, ?_, ?_, ?_⟩ <;> simp_all [prepS]

theorem execS_inv (s : St) (h : Inv s) : Inv (execS s) := by
  obtain ⟨h1, h2, h3, h3', h4, h5, h6⟩ := h
  refine ⟨?_, ?_, ?_, ?_, ?_, ?_, ?_⟩ <;> simp_all [execS]

/-! ### what a move is -/

theorem move_cases (c : Cfg) (cf cf' : Conf) (ch : Bool) (h : cf.move c ch = .ok cf') :
    cf' = cf ∨
    (∃ p rest s' ans drop, cf.pa = p :: rest ∧ pstep c cf.s p = .next s' ans drop ∧
      cf' = { cf with s := s', pa := if drop then [] else rest, ra := if ans.isSome then ans else cf.ra }) ∨
    (∃ p rest s' ans drop, cf.pb = p :: rest ∧ pstep c cf.s p = .next s' ans drop ∧
      cf' = { cf with s := s', pb := if drop then [] else rest, rb := if ans.isSome then ans else cf.rb }) := by
  simp only [Conf.move] at h
  split at h
  · cases hpa : cf.pa with
    | nil => simp only [hpa] at h; cases h; exact Or.inl rfl
    | cons p rest =>
      simp only [hpa] at h
      cases hp : pstep c cf.s p with
      | halt r => simp [hp] at h
      | next s' ans drop =>
        simp only [hp] at h
        cases h
        exact Or.inr (Or.inl ⟨p, rest, s', ans, drop, rfl, hp, rfl⟩)
  · cases hpb : cf.pb with
    | nil => simp only [hpb] at h; cases h; exact Or.inl rfl
    | cons p rest =>
      simp only [hpb] at h
      cases hp : pstep c cf.s p with
      | halt r => simp [hp] at h
      | next s' ans drop =>
        simp only [hp] at h
        cases h
        exact Or.inr (Or.inr ⟨p, rest, s', ans, drop, rfl, hp, rfl⟩)

/-- a move halts only if the first part of one of the two requests does -/
theorem move_ok_of_heads (c : Cfg) (cf : Conf) (ch : Bool)
    (ha : ∀ p rest, cf.pa = p :: rest → ∃ s' ans drop, pstep c cf.s p = .next s' ans drop)
    (hb : ∀ p rest, cf.pb = p :: rest → ∃ s' ans drop, pstep c cf.s p = .next s' ans drop) :
    ∃ cf', cf.move c ch = .ok cf' := by
  simp only [Conf.move]
  split
  · cases hpa : cf.pa with
    | nil => exact ⟨cf, rfl⟩
    | cons p rest =>
      obtain ⟨s', ans, drop, hp⟩ := ha p rest hpa
      simp only [hp]
      exact ⟨_, rfl⟩
  · cases hpb : cf.pb with
    | nil => exact ⟨cf, rfl⟩
    | cons p rest =>
      obtain ⟨s', ans, drop, hp⟩ := hb p rest hpb
      simp only [hp]
      exact ⟨_, rfl⟩

/-! ### at most one terminal status unless two KILLs overlap -/

/-- parts of requests (as opposed to `tick` / `await`, which are not served by anybody) -/
def Part.req : Part → Bool
  | .look op | .whole op => op.isRequest
  | _ => true

/-- parts that are not part of a KILL -/
def Part.calm : Part → Bool
  | .look op | .whole op => op.isRequest && op != .kill
  | _ => true

/-- what can be left of a KILL -/
def killThread (l : List Part) : Prop := l = [.look .kill, .whole .kill] ∨ l = [.whole .kill] ∨ l = []

/-- what is left of a request that is not a KILL -/
def calmThread (l : List Part) : Prop := ∀ p ∈ l, p.calm = true

theorem calm_partsOf (k : Kind) (op : Op) (hr : op.isRequest = true) (hk : op ≠ .kill) : calmThread (partsOf k op) := by
  intro p hp
  simp only [partsOf] at hp
  split at hp <;> simp at hp <;> rcases hp with rfl | rfl | rfl | rfl <;> simp_all [Part.calm]

theorem calm_tail {p : Part} {l : List Part} (h : calmThread (p :: l)) : calmThread l :=
  fun q hq => h q (List.mem_cons_of_mem _ hq)

theorem calm_ne_kill {l : List Part} (h : calmThread l) : l ≠ [.whole .kill] := by
  intro e; subst e; have := h (.whole .kill) (by simp); simp [Part.calm] at this

theorem calm_nil : calmThread [] := fun _ h => by cases h

/-- a calm part keeps the basic invariant and does not deactivate the task -/
theorem pstep_calm (c : Cfg) (s s' : St) (p : Part) (ans : Option Res) (drop : Bool) (hc : p.calm = true)
    (h : Inv s) (hp : pstep c s p = .next s' ans drop) : Inv s' ∧ (s.active = true → s'.active = true) := by
  cases p with
  | look op =>
    simp only [pstep] at hp
    split at hp
    · cases hp; exact ⟨h, id⟩
    · split at hp
      · cases hp; exact ⟨h, id⟩
      · rename_i hact
        cases hp
        exact ⟨step_inv c s op h, fun ha => by simp_all⟩
  | whole op =>
    simp only [Part.calm, Bool.and_eq_true, bne_iff_ne, ne_eq] at hc
    simp only [pstep] at hp
    split at hp
    · cases hp
    · cases hp
      exact ⟨serve_inv_nonkill c s op h hc.1 hc.2, serve_active_nonkill c s op hc.1 hc.2⟩
  | prep hk =>
    simp only [pstep] at hp
    split at hp
    · rename_i hb; cases hp; exact ⟨prepS_inv s h hb, by simp [prepS]⟩
    · cases hp; exact ⟨h, id⟩
  | exec hk =>
    simp only [pstep] at hp
    split at hp
    · cases hp
    · split at hp
      · cases hp; exact ⟨h, id⟩
      · cases hp; exact ⟨execS_inv s h, by simp [execS]⟩
  | reap hk =>
    simp only [pstep] at hp
    split at hp
    · cases hp
    · cases hp; exact ⟨h, id⟩

/-- the configurations of an overlap that is not two KILLs -/
structure OneKill (cf : Conf) : Prop where
  inv : Inv cf.s
  shape : (calmThread cf.pa ∧ (killThread cf.pb ∨ calmThread cf.pb)) ∨ (killThread cf.pa ∧ calmThread cf.pb)
  actA : cf.pa = [.whole .kill] → cf.s.active = true
  actB : cf.pb = [.whole .kill] → cf.s.active = true

theorem pstep_killThread (c : Cfg) (s s' : St) (p : Part) (rest : List Part) (ans : Option Res) (drop : Bool)
    (hl : killThread (p :: rest)) (hact : p :: rest = [.whole .kill] → s.active = true) (h : Inv s)
    (hp : pstep c s p = .next s' ans drop) :
    Inv s' ∧ killThread (if drop then [] else rest) ∧ ((if drop then [] else rest) = [.whole .kill] → s'.active = true) := by
  rcases hl with e | e | e
  · -- the look-up of the KILL
    simp only [List.cons.injEq] at e
    obtain ⟨rfl, rfl⟩ := e
    simp only [pstep] at hp
    split at hp
    · cases hp; exact ⟨h, Or.inr (Or.inr rfl), by simp⟩
    · split at hp
      · rename_i ha; cases hp; exact ⟨h, Or.inr (Or.inl rfl), fun _ => ha⟩
      · cases hp; exact ⟨step_inv c s .kill h, Or.inr (Or.inr rfl), by simp⟩
  · -- Kill() itself: the task is still active
    simp only [List.cons.injEq] at e
    obtain ⟨rfl, rfl⟩ := e
    have ha := hact rfl
    simp only [pstep, serve_eq_step c s .kill ha] at hp
    split at hp
    · cases hp
    · cases hp; exact ⟨step_inv c s .kill h, by simp [killThread], by simp⟩
  · cases e

theorem oneKill_move (c : Cfg) (cf cf' : Conf) (ch : Bool) (g : OneKill cf) (hm : cf.move c ch = .ok cf') :
    OneKill cf' := by
  obtain ⟨inv, shape, actA, actB⟩ := g
  rcases move_cases c cf cf' ch hm with rfl | ⟨p, rest, s', ans, drop, hpa, hp, rfl⟩ | ⟨p, rest, s', ans, drop, hpb, hp, rfl⟩
  · exact ⟨inv, shape, actA, actB⟩
  · -- request A moved
    rcases shape with ⟨ca, hb⟩ | ⟨ka, cb⟩
    · rw [hpa] at ca
      have ⟨i', keep⟩ := pstep_calm c cf.s s' p ans drop (ca p (by simp)) inv hp
      have ca' : calmThread (if drop then [] else rest) := by
        split
        · exact calm_nil
        · exact calm_tail ca
      exact ⟨i', Or.inl ⟨ca', hb⟩, fun e => absurd e (calm_ne_kill ca'), fun e => keep (actB e)⟩
    · rw [hpa] at ka actA
      have ⟨i', ka', act'⟩ := pstep_killThread c cf.s s' p rest ans drop ka actA inv hp
      exact ⟨i', Or.inr ⟨ka', cb⟩, act', fun e => absurd e (calm_ne_kill cb)⟩
  · -- request B moved
    rcases shape with ⟨ca, kb | cb⟩ | ⟨ka, cb⟩
    · rw [hpb] at kb actB
      have ⟨i', kb', act'⟩ := pstep_killThread c cf.s s' p rest ans drop kb actB inv hp
      exact ⟨i', Or.inl ⟨ca, Or.inl kb'⟩, fun e => absurd e (calm_ne_kill ca), act'⟩
    · rw [hpb] at cb
      have ⟨i', keep⟩ := pstep_calm c cf.s s' p ans drop (cb p (by simp)) inv hp
      have cb' : calmThread (if drop then [] else rest) := by
        split
        · exact calm_nil
        · exact calm_tail cb
      exact ⟨i', Or.inl ⟨ca, Or.inr cb'⟩, fun e => absurd e (calm_ne_kill ca), fun e => absurd e (calm_ne_kill cb')⟩
    · rw [hpb] at cb
      have ⟨i', keep⟩ := pstep_calm c cf.s s' p ans drop (cb p (by simp)) inv hp
      have cb' : calmThread (if drop then [] else rest) := by
        split
        · exact calm_nil
        · exact calm_tail cb
      exact ⟨i', Or.inr ⟨ka, cb'⟩, fun e => keep (actA e), fun e => absurd e (calm_ne_kill cb')⟩

/-- the pairs the one-terminal theorem is about: two requests that are not both KILLs -/
def notTwoKills : Item → Bool
  | .one _ => true
  | .par a b => a.isRequest && b.isRequest && !(a = .kill && b = .kill)

theorem oneKill_start (s : St) (a b : Op) (h : Inv s) (hn : notTwoKills (.par a b) = true) :
    OneKill (parStart s a b) := by
  simp only [notTwoKills, Bool.and_eq_true, Bool.not_eq_true', Bool.and_eq_false_imp, decide_eq_true_eq,
    decide_eq_false_iff_not] at hn
  obtain ⟨⟨ra, rb⟩, hk⟩ := hn
  have kt : killThread (partsOf s.kind .kill) := by
    simp [partsOf, spawns, killThread]
  have nk : ∀ l : List Part, l = partsOf s.kind .kill → l ≠ [.whole .kill] := by
    intro l e; subst e; simp [partsOf, spawns]
  refine ⟨h, ?_, ?_, ?_⟩
  · simp only [parStart]
    by_cases ea : a = .kill
    · subst ea
      exact Or.inr ⟨kt, calm_partsOf _ b rb (hk rfl)⟩
    · by_cases eb : b = .kill
      · subst eb
        exact Or.inl ⟨calm_partsOf _ a ra ea, Or.inl kt⟩
      · exact Or.inl ⟨calm_partsOf _ a ra ea, Or.inr (calm_partsOf _ b rb eb)⟩
  · simp only [parStart]
    intro e
    by_cases ea : a = .kill
    · subst ea; exact absurd e (nk _ rfl)
    · exact absurd e (calm_ne_kill (calm_partsOf _ a ra ea))
  · simp only [parStart]
    intro e
    by_cases eb : b = .kill
    · subst eb; exact absurd e (nk _ rfl)
    · exact absurd e (calm_ne_kill (calm_partsOf _ b rb eb))

/-! ### the order in which the emissions of an overlap reach the agent does not matter to the basic invariant -/

theorem terminals_reverse (l : List Emit) : terminals l.reverse = terminals l := by
  simp [terminals, List.filter_reverse]

theorem terminals_swapNew (n : Nat) (l : List Emit) : terminals (swapNew n l) = terminals l := by
  have : terminals (l.take n ++ l.drop n) = terminals l := by rw [List.take_append_drop]
  rw [terminals_append] at this
  simp only [swapNew, terminals_append, terminals_reverse]
  exact this

theorem mem_swapNew (n : Nat) (l : List Emit) (e : Emit) : e ∈ swapNew n l ↔ e ∈ l := by
  have : e ∈ l.take n ++ l.drop n ↔ e ∈ l := by rw [List.take_append_drop]
  simp only [List.mem_append] at this
  simp only [swapNew, List.mem_append, List.mem_reverse]
  exact this

theorem inv_swap (s : St) (n : Nat) (h : Inv s) : Inv { s with out := swapNew n s.out } := by
  obtain ⟨h1, h2, h3, h3', h4, h5, h6⟩ := h
  refine ⟨?_, ?_, ?_, ?_, ?_, ?_, ?_⟩ <;> simp_all [terminals_swapNew, mem_swapNew]

/-! ### every run of a schedule without two overlapping KILLs keeps the basic invariant -/

theorem runFromI_inv (c : Cfg) (items : List Item) (hn : items.all notTwoKills = true) :
    ∀ (s : St), Inv s → ∀ o ∈ runFromI c s items, Inv o.st := by
  induction items with
  | nil =>
    intro s h o ho
    simp only [runFromI, List.mem_singleton] at ho
    subst ho
    exact finish_inv s h
  | cons it rest ih =>
    simp only [List.all_cons, Bool.and_eq_true] at hn
    intro s h o ho
    cases it with
    | one op =>
      simp only [runFromI] at ho
      split at ho
      · simp only [List.mem_map] at ho
        obtain ⟨o', ho', rfl⟩ := ho
        exact ih hn.2 s h o' ho'
      · split at ho
        · simp only [List.mem_singleton] at ho
          subst ho
          exact haltState_inv s _ h
        · simp only [List.mem_map] at ho
          obtain ⟨o', ho', rfl⟩ := ho
          exact ih hn.2 _ (step_inv c s op h) o' ho'
    | par a b =>
      simp only [runFromI] at ho
      split at ho
      · simp only [List.mem_map] at ho
        obtain ⟨o', ho', rfl⟩ := ho
        exact ih hn.2 s h o' ho'
      · simp only [List.mem_flatMap] at ho
        obtain ⟨po, hpo, ho⟩ := ho
        cases po with
        | halt r =>
          simp only [List.mem_singleton] at ho
          subst ho
          exact haltState_inv s _ h
        | done s' ra rb =>
          simp only [List.mem_map] at ho
          obtain ⟨o', ho', rfl⟩ := ho
          obtain ⟨cf, g, e | e⟩ := parOutcomes_keeps c OneKill s a b (fun cf ch cf' => oneKill_move c cf cf' ch)
            (oneKill_start s a b h hn.1) hpo
          · exact ih hn.2 s' (e ▸ g.inv) o' ho'
          · exact ih hn.2 s' (e ▸ inv_swap cf.s _ g.inv) o' ho'

theorem runI_inv (c : Cfg) (k : Kind) (b : Beh) (items : List Item) (hn : items.all notTwoKills = true) :
    ∀ o ∈ runI c k b items, Inv o.st := by
  intro o ho
  simp only [runI] at ho
  split at ho
  · simp only [List.mem_singleton] at ho
    subst ho
    exact init_inv c k b
  · simp only [List.mem_map] at ho
    obtain ⟨o', ho', rfl⟩ := ho
    exact runFromI_inv c items hn _ (init_inv c k b) o' ho'

/-! ### no overlap gets the executor stuck over a basic / hook / data-less task unless a KILL meets a starting child -/

/-- what can be left of the handling of `op` -/
def tailsOf : List Part → List (List Part)
  | [] => [[]]
  | p :: l => (p :: l) :: tailsOf l

theorem nil_mem_tailsOf (l : List Part) : [] ∈ tailsOf l := by
  induction l with
  | nil => simp [tailsOf]
  | cons p l ih => simp [tailsOf, ih]

def threadsOf (k : Kind) (op : Op) : List (List Part) := tailsOf (partsOf k op)

/-- the next part dereferences t.taskCmd -/
def needsCmd : List Part → Bool
  | .exec _ :: _ | .reap _ :: _ => true
  | _ => false

theorem step_code_not_stuck (s : St) (op : Op) (hk : s.kind ≠ .ctl) : (step codeCfg s op).2.stuck = false := by
  rw [step_stuck_iff]
  cases hk' : s.kind <;> simp_all [unsafeReq, codeCfg, killNoRpc]

theorem stuck_of_halts {r : Res} (h : r.stuck = false) : r.halts = false := by
  cases r <;> simp_all [Res.stuck, Res.halts]

theorem serve_code_not_stuck (s : St) (op : Op) (hk : s.kind ≠ .ctl) : (serve codeCfg s op).2.stuck = false := by
  have := step_code_not_stuck { s with active := true } op hk
  simpa [serve] using this

theorem serve_kind (c : Cfg) (s : St) (op : Op) : (serve c s op).1.kind = s.kind := by
  have := step_kind c { s with active := true } op
  simpa [serve] using this

theorem serve_cmd_nonkill (c : Cfg) (s : St) (op : Op) (hr : op.isRequest = true) (hk : op ≠ .kill)
    (hc : s.cmd = true) : (serve c s op).1.cmd = true := by
  cases op <;> simp only [Op.isRequest] at hr <;> simp only [serve, step, spawn, stopBasic, ctlTransition, reapCtl, escalate]
  all_goals (repeat' split)
  all_goals simp_all

theorem step_inactive_cmd (c : Cfg) (s : St) (op : Op) (hr : op.isRequest = true) (ha : s.active = false) :
    (step c s op).1.cmd = s.cmd ∧ (step c s op).1.kind = s.kind := by
  cases op <;> simp only [Op.isRequest] at hr <;> simp only [step, ha]
  all_goals (repeat' split)
  all_goals simp_all

/-- One move of the request `op` from what is left of it, in the code as it is, for a task that is not
    controllable: it does not halt, what is left is again a rest of `op`, its answer is not a stuck result, the
    next part still finds t.taskCmd, and unless `op` is a KILL a command that was there is still there. -/
theorem thread_move_safe (k : Kind) (hk : k ≠ .ctl) (op : Op) (hr : op.isRequest = true) (s : St) (hs : s.kind = k)
    (p : Part) (rest : List Part) (hl : (p :: rest) ∈ threadsOf k op) (hc : needsCmd (p :: rest) = true → s.cmd = true) :
    ∃ s' ans drop, pstep codeCfg s p = .next s' ans drop ∧ s'.kind = k ∧
      (if drop then [] else rest) ∈ threadsOf k op ∧
      (needsCmd (if drop then [] else rest) = true → s'.cmd = true) ∧
      (∀ r, ans = some r → r.stuck = false) ∧
      (op ≠ .kill → s.cmd = true → s'.cmd = true) := by
  have hkc : s.kind ≠ .ctl := hs ▸ hk
  have hnil : ([] : List Part) ∈ threadsOf k op := nil_mem_tailsOf _
  have lookCase : ∀ (rest : List Part), (rest ∈ threadsOf k op) → needsCmd rest = false →
      ∃ s' ans drop, pstep codeCfg s (.look op) = .next s' ans drop ∧ s'.kind = k ∧
        (if drop then [] else rest) ∈ threadsOf k op ∧
        (needsCmd (if drop then [] else rest) = true → s'.cmd = true) ∧
        (∀ r, ans = some r → r.stuck = false) ∧ (op ≠ .kill → s.cmd = true → s'.cmd = true) := by
    intro rest hrest hnc
    simp only [pstep]
    split
    · exact ⟨s, some .dead, true, rfl, hs, by simpa using hnil, by simp [needsCmd], by simp [Res.stuck], fun _ h => h⟩
    · split
      · exact ⟨s, none, false, rfl, hs, by simpa using hrest, by simp [hnc], by simp, fun _ h => h⟩
      · rename_i ha
        have ha' : s.active = false := by simpa using ha
        have := step_inactive_cmd codeCfg s op hr ha'
        refine ⟨_, _, true, rfl, by rw [this.2]; exact hs, by simpa using hnil, by simp [needsCmd], ?_, fun _ h => by rw [this.1]; exact h⟩
        intro r e; cases e; exact step_code_not_stuck s op hkc
  have wholeCase : ∃ s' ans drop, pstep codeCfg s (.whole op) = .next s' ans drop ∧ s'.kind = k ∧
        (if drop then [] else ([] : List Part)) ∈ threadsOf k op ∧
        (needsCmd (if drop then [] else ([] : List Part)) = true → s'.cmd = true) ∧
        (∀ r, ans = some r → r.stuck = false) ∧ (op ≠ .kill → s.cmd = true → s'.cmd = true) := by
    have hns := serve_code_not_stuck s op hkc
    simp only [pstep, stuck_of_halts hns, Bool.false_eq_true, ↓reduceIte]
    refine ⟨_, _, false, rfl, by rw [serve_kind]; exact hs, by simpa using hnil, by simp [needsCmd], ?_, ?_⟩
    · intro r e; cases e; exact hns
    · intro hk' hc'; exact serve_cmd_nonkill codeCfg s op hr hk' hc'
  simp only [threadsOf, partsOf] at hl
  split at hl
  · -- a request that starts a child: look, prep, exec, reap
    rename_i hsp
    have hbl : s.kind.basicLike = true := by
      rw [hs]; cases k <;> simp_all [spawns, Kind.basicLike]
    have hopk : op ≠ .kill := by intro e; subst e; cases k <;> simp [spawns] at hsp
    simp only [tailsOf, List.mem_cons, List.cons.injEq, List.mem_nil_iff, or_false] at hl
    rcases hl with ⟨rfl, rfl⟩ | ⟨rfl, rfl⟩ | ⟨rfl, rfl⟩ | ⟨rfl, rfl⟩ | h
    · have := lookCase [.prep (k = .hook), .exec (k = .hook), .reap (k = .hook)]
        (by simp [threadsOf, partsOf, hsp, tailsOf]) (by simp [needsCmd])
      simpa [threadsOf, partsOf, hsp] using this
    · refine ⟨prepS s, none, false, by simp [pstep, hbl], by simp [prepS, hs], by simp [threadsOf, partsOf, hsp, tailsOf],
        by simp [prepS], by simp, fun _ _ => by simp [prepS]⟩
    · have hcmd := hc (by simp [needsCmd])
      simp only [pstep, hcmd, Bool.not_true, Bool.false_eq_true, ↓reduceIte]
      split
      · exact ⟨s, _, true, rfl, hs, by simpa using hnil, by simp [needsCmd], by intro r e; cases e; simp [spawnAnswer]; split <;> simp [Res.stuck],
          fun _ _ => hcmd⟩
      · exact ⟨execS s, none, false, rfl, by simp [execS, hs], by simp [threadsOf, partsOf, hsp, tailsOf],
          by simp [execS, hcmd], by simp, fun _ _ => by simp [execS, hcmd]⟩
    · have hcmd := hc (by simp [needsCmd])
      simp only [pstep, hcmd, Bool.not_true, Bool.false_eq_true, ↓reduceIte]
      exact ⟨s, _, false, rfl, hs, by simpa using hnil, by simp [needsCmd], by intro r e; cases e; simp [spawnAnswer]; split <;> simp [Res.stuck],
        fun _ _ => hcmd⟩
    · cases h
  · rename_i hsp
    simp only [tailsOf, List.mem_cons, List.cons.injEq, List.mem_nil_iff, or_false] at hl
    rcases hl with ⟨rfl, rfl⟩ | ⟨rfl, rfl⟩ | h
    · have := lookCase [.whole op] (by simp [threadsOf, partsOf, hsp, tailsOf]) (by simp [needsCmd])
      simpa [threadsOf, partsOf, hsp] using this
    · simpa [threadsOf, partsOf, hsp] using wholeCase
    · cases h

/-- the pairs the no-stuck theorem is about: two requests, not a KILL together with a request that starts a child -/
def noKillSpawn (k : Kind) : Item → Bool
  | .one _ => true
  | .par a b => a.isRequest && b.isRequest && !((a = .kill && spawns k b) || (spawns k a && b = .kill))

theorem needsCmd_plain (k : Kind) (op : Op) (h : spawns k op = false) (l : List Part) (hl : l ∈ threadsOf k op) :
    needsCmd l = false := by
  simp only [threadsOf, partsOf, h, Bool.false_eq_true, ↓reduceIte, tailsOf, List.mem_cons, List.mem_nil_iff, or_false] at hl
  rcases hl with rfl | rfl | rfl <;> rfl

theorem spawns_kill (k : Kind) : spawns k .kill = false := by cases k <;> simp [spawns]

/-- the configurations of an overlap (in the code as it is, task not controllable) in which no KILL meets a starting child -/
structure Safe (k : Kind) (a b : Op) (cf : Conf) : Prop where
  kind : cf.s.kind = k
  ta : cf.pa ∈ threadsOf k a
  tb : cf.pb ∈ threadsOf k b
  cmdA : needsCmd cf.pa = true → cf.s.cmd = true
  cmdB : needsCmd cf.pb = true → cf.s.cmd = true
  okA : ∀ r, cf.ra = some r → r.stuck = false
  okB : ∀ r, cf.rb = some r → r.stuck = false

theorem safe_move (k : Kind) (hk : k ≠ .ctl) (a b : Op) (hn : noKillSpawn k (.par a b) = true)
    (cf : Conf) (ch : Bool) (g : Safe k a b cf) : ∃ cf', cf.move codeCfg ch = .ok cf' ∧ Safe k a b cf' := by
  simp only [noKillSpawn, Bool.and_eq_true, Bool.not_eq_true', Bool.or_eq_false_iff, Bool.and_eq_false_imp,
    decide_eq_true_eq] at hn
  obtain ⟨⟨ra, rb⟩, hab, hba⟩ := hn
  obtain ⟨kind, ta, tb, cmdA, cmdB, okA, okB⟩ := g
  simp only [Conf.move]
  split
  · cases hpa : cf.pa with
    | nil => exact ⟨cf, rfl, ⟨kind, ta, tb, cmdA, cmdB, okA, okB⟩⟩
    | cons p rest =>
      rw [hpa] at ta cmdA
      obtain ⟨s', ans, drop, hp, hk', ht', hc', hans, hkeep⟩ := thread_move_safe k hk a ra cf.s kind p rest ta cmdA
      simp only [hp]
      refine ⟨_, rfl, ⟨hk', ht', tb, hc', ?_, ?_, okB⟩⟩
      · intro hb
        by_cases ea : a = .kill
        · have := needsCmd_plain k b (hab ea) cf.pb tb
          simp [this] at hb
        · exact hkeep ea (cmdB hb)
      · intro r hr'
        cases ans with
        | none => exact okA r (by simpa using hr')
        | some r' => simp at hr'; exact hans r (by rw [hr'])
  · cases hpb : cf.pb with
    | nil => exact ⟨cf, rfl, ⟨kind, ta, tb, cmdA, cmdB, okA, okB⟩⟩
    | cons p rest =>
      rw [hpb] at tb cmdB
      obtain ⟨s', ans, drop, hp, hk', ht', hc', hans, hkeep⟩ := thread_move_safe k hk b rb cf.s kind p rest tb cmdB
      simp only [hp]
      refine ⟨_, rfl, ⟨hk', ta, ht', ?_, hc', okA, ?_⟩⟩
      · intro ha
        by_cases eb : b = .kill
        · have hsa : spawns k a = false := by
            cases hsa : spawns k a
            · rfl
            · exact absurd eb (by simpa using hba hsa)
          have := needsCmd_plain k a hsa cf.pa ta
          simp [this] at ha
        · exact hkeep eb (cmdA ha)
      · intro r hr'
        cases ans with
        | none => exact okB r (by simpa using hr')
        | some r' => simp at hr'; exact hans r (by rw [hr'])

theorem safe_start (k : Kind) (s : St) (hs : s.kind = k) (a b : Op) : Safe k a b (parStart s a b) := by
  have h1 : ∀ op, partsOf k op ∈ threadsOf k op := by
    intro op; simp only [threadsOf]; cases h : partsOf k op <;> simp [tailsOf]
  have h2 : ∀ op, needsCmd (partsOf k op) = false := by
    intro op; simp only [partsOf]; split <;> rfl
  refine ⟨hs, ?_, ?_, ?_, ?_, ?_, ?_⟩ <;> simp_all [parStart]

theorem noStuckI_push (r : IRes) (o : IOutcome) : noStuckI (o.push r).res = (!r.stuck && noStuckI o.res) := by
  simp [noStuckI, IOutcome.push]

/-- every run of a schedule without a KILL overlapping a starting child: no crash, no hang, the loop goes on — in
    the code as it is, for basic tasks, hook tasks and tasks without data -/
theorem runFromI_noStuck (k : Kind) (hk : k ≠ .ctl) (items : List Item) (hn : items.all (noKillSpawn k) = true) :
    ∀ (s : St), s.kind = k → ∀ o ∈ runFromI codeCfg s items, noStuckI o.res = true := by
  induction items with
  | nil =>
    intro s hs o ho
    simp only [runFromI, List.mem_singleton] at ho
    subst ho; rfl
  | cons it rest ih =>
    simp only [List.all_cons, Bool.and_eq_true] at hn
    intro s hs o ho
    cases it with
    | one op =>
      have hns := step_code_not_stuck s op (hs ▸ hk)
      simp only [runFromI] at ho
      split at ho
      · simp only [List.mem_map] at ho
        obtain ⟨o', ho', rfl⟩ := ho
        rw [noStuckI_push, ih hn.2 s hs o' ho']; rfl
      · split at ho
        · simp only [List.mem_singleton] at ho
          subst ho
          simp [noStuckI, IRes.stuck, hns]
        · simp only [List.mem_map] at ho
          obtain ⟨o', ho', rfl⟩ := ho
          rw [noStuckI_push, ih hn.2 _ (by rw [step_kind]; exact hs) o' ho']
          simp [IRes.stuck, hns]
    | par a b =>
      simp only [runFromI] at ho
      split at ho
      · simp only [List.mem_map] at ho
        obtain ⟨o', ho', rfl⟩ := ho
        rw [noStuckI_push, ih hn.2 s hs o' ho']; rfl
      · simp only [List.mem_flatMap] at ho
        obtain ⟨po, hpo, ho⟩ := ho
        obtain ⟨cf, g, e | e⟩ := parOutcomes_safe codeCfg (Safe k a b) s a b
          (fun cf ch g => safe_move k hk a b hn.1 cf ch g) (safe_start k s hs a b) hpo
        all_goals
          subst e
          simp only [List.mem_map] at ho
          obtain ⟨o', ho', rfl⟩ := ho
          have hra : (cf.ra.getD .none).stuck = false := by
            cases h : cf.ra with
            | none => rfl
            | some r => exact g.okA r h
          have hrb : (cf.rb.getD .none).stuck = false := by
            cases h : cf.rb with
            | none => rfl
            | some r => exact g.okB r h
          rw [noStuckI_push, ih hn.2 _ (by simpa using g.kind) o' ho']
          simp [IRes.stuck, hra, hrb]

theorem runI_noStuck (k : Kind) (hk : k ≠ .ctl) (b : Beh) (items : List Item) (hn : items.all (noKillSpawn k) = true) :
    ∀ o ∈ runI codeCfg k b items, noStuckI o.res = true := by
  intro o ho
  have hl : (init codeCfg k b).2.stuck = false := by
    have h := init_halts codeCfg k b
    have hc : launchCrashes codeCfg k b = false := by simp [launchCrashes, codeCfg]
    rw [hc] at h
    rw [init_ok codeCfg k b h]; rfl
  simp only [runI] at ho
  split at ho
  · simp only [List.mem_singleton] at ho
    subst ho
    simp [noStuckI, IRes.stuck, hl]
  · simp only [List.mem_map] at ho
    obtain ⟨o', ho', rfl⟩ := ho
    rw [noStuckI_push, runFromI_noStuck k hk items hn _ (init_kind codeCfg k b) o' ho']
    simp [IRes.stuck, hl]

/-! ### the parts of a request, run one after the other, are the step of the sequential model; an overlap has the
    behaviour "A, then B" among its behaviours -/

/-- the parts of one request run without anything in between -/
def runThread (c : Cfg) : List Part → St → Option Res → Except Res (St × Option Res)
  | [], s, r => .ok (s, r)
  | p :: rest, s, r =>
    match pstep c s p with
    | .halt r' => .error r'
    | .next s' ans drop =>
      if drop then .ok (s', if ans.isSome then ans else r)
      else runThread c rest s' (if ans.isSome then ans else r)

theorem step_inactive_not_halts (c : Cfg) (s : St) (op : Op) (hr : op.isRequest = true) (ha : s.active = false) :
    (step c s op).2.halts = false := by
  cases op <;> simp only [Op.isRequest] at hr <;> simp only [step, ha]
  all_goals (repeat' split)
  all_goals simp_all [Res.halts]

theorem prepS_spawn (s : St) (h : s.beh.startFails = true) : prepS s = (spawn s).1 := by
  simp [prepS, spawn, h]

theorem execS_spawn (s : St) (h : s.beh.startFails = false) : execS (prepS s) = (spawn s).1 := by
  simp [prepS, execS, spawn, h]

/-- One request alone: look-up and parts in a row give exactly `step`. -/
theorem runThread_is_step (c : Cfg) (s : St) (op : Op) (hl : s.loop = true) (hr : op.isRequest = true) :
    runThread c (partsOf s.kind op) s none =
      if (step c s op).2.halts then .error (step c s op).2 else .ok ((step c s op).1, some (step c s op).2) := by
  cases ha : s.active
  · -- refused by the look-up, inside the handler
    have hnh := step_inactive_not_halts c s op hr ha
    simp only [partsOf]
    split <;> simp [runThread, pstep, hl, ha, hnh]
  · simp only [partsOf]
    split
    · -- a request that starts a child
      rename_i hsp
      have hbl : s.kind.basicLike = true := by cases hk : s.kind <;> simp_all [spawns, Kind.basicLike]
      cases hf : s.beh.startFails
      · have e := execS_spawn s hf
        cases hk : s.kind <;> simp [hk, spawns] at hsp
        · subst hsp
          simp [runThread, pstep, hl, ha, Kind.basicLike, prepS, execS, hf, step, hk, spawn, spawnAnswer, Res.halts]
        · subst hsp
          simp [runThread, pstep, hl, ha, Kind.basicLike, prepS, execS, hf, step, hk, spawn, spawnAnswer, Res.halts]
      · cases hk : s.kind <;> simp [hk, spawns] at hsp
        · subst hsp
          simp [runThread, pstep, hl, ha, Kind.basicLike, prepS, hf, step, hk, spawn, spawnAnswer, Res.halts]
        · subst hsp
          simp [runThread, pstep, hl, ha, Kind.basicLike, prepS, hf, step, hk, spawn, spawnAnswer, Res.halts]
    · simp only [runThread, pstep, hl, ha, Bool.not_true, Bool.false_eq_true, ↓reduceIte, serve_eq_step c s op ha]
      cases hh : (step c s op).2.halts <;> simp

theorem runChoices_done (c : Cfg) (chs : List Bool) (cf : Conf) (ha : cf.pa = []) (hb : cf.pb = []) :
    runChoices c chs cf = .ok cf := by
  induction chs with
  | nil => rfl
  | cons ch rest ih => simp [runChoices, Conf.move, Conf.pickA, ha, hb, ih]

/-- always choosing A: A's parts in a row, then B's -/
theorem runChoices_trues (c : Cfg) (n : Nat) :
    ∀ (cf : Conf), cf.pa.length + cf.pb.length ≤ n →
      runChoices c (List.replicate n true) cf =
        (match runThread c cf.pa cf.s cf.ra with
         | .error r => .error r
         | .ok (s1, r1) =>
           match runThread c cf.pb s1 cf.rb with
           | .error r => .error r
           | .ok (s2, r2) => .ok { s := s2, pa := [], ra := r1, pb := [], rb := r2 }) := by
  induction n with
  | zero =>
    intro cf h
    have ha : cf.pa = [] := by cases h' : cf.pa <;> simp_all
    have hb : cf.pb = [] := by cases h' : cf.pb <;> simp_all
    cases cf; simp_all [runChoices, runThread]
  | succ n ih =>
    intro cf h
    cases hpa : cf.pa with
    | cons p rest =>
      have hpick : cf.pickA true = true := by
        simp only [Conf.pickA, hpa]; cases cf.pb <;> rfl
      simp only [List.replicate_succ, runChoices, Conf.move, hpick, ↓reduceIte, hpa, runThread]
      cases hp : pstep c cf.s p with
      | halt r => rfl
      | next s' ans drop =>
        simp only
        rw [ih]
        · cases drop <;> simp [runThread]
        · cases drop <;> simp [hpa] at h ⊢ <;> omega
    | nil =>
      cases hpb : cf.pb with
      | nil =>
        rw [runChoices_done c _ cf hpa hpb]
        cases cf; simp_all [runThread]
      | cons p rest =>
        have hpick : cf.pickA true = false := by simp only [Conf.pickA, hpa]
        simp only [List.replicate_succ, runChoices, Conf.move, hpick, Bool.false_eq_true, ↓reduceIte, hpa, hpb, runThread]
        cases hp : pstep c cf.s p with
        | halt r => rfl
        | next s' ans drop =>
          simp only
          rw [ih]
          · cases drop <;> simp [runThread]
          · cases drop <;> simp [hpa, hpb] at h ⊢ <;> omega

theorem length_partsOf_le (k : Kind) (op : Op) : (partsOf k op).length ≤ 4 := by
  simp only [partsOf]; split <;> simp

/-- "A, then B" (B handled after A has been served completely) is one of the behaviours of `par a b`. -/
theorem par_includes_seq (c : Cfg) (s : St) (a b : Op) (hl : s.loop = true) (hra : a.isRequest = true)
    (hrb : b.isRequest = true) (ha : (step c s a).2.halts = false) (hl' : (step c s a).1.loop = true)
    (hb : (step c (step c s a).1 b).2.halts = false) :
    POut.done (step c (step c s a).1 b).1 (step c s a).2 (step c (step c s a).1 b).2 ∈ parOutcomes c s a b := by
  let n := (partsOf s.kind a).length + (partsOf s.kind b).length
  apply parOutcomes_of_run (List.replicate n true) (by simp [n])
  have hrun : parRun c s a b (List.replicate n true) = runChoices c (List.replicate (n + 1) true) (parStart s a b) := by
    simp only [parRun, lookFirst, List.replicate_succ, runChoices]
    cases (parStart s a b).move c true <;> rfl
  rw [hrun, runChoices_trues c (n + 1) (parStart s a b) (by simp [parStart, n])]
  simp only [parStart, runThread_is_step c s a hl hra, ha, Bool.false_eq_true, ↓reduceIte]
  have hk : s.kind = (step c s a).1.kind := (step_kind c s a).symm
  rw [hk, runThread_is_step c (step c s a).1 b hl' hrb]
  simp [hb, POut.ofRun]

/-! ### a part is stuck exactly in the unsafe part states -/

theorem step_active_halts_eq_stuck (c : Cfg) (s : St) (op : Op) (ha : s.active = true) :
    (step c s op).2.halts = (step c s op).2.stuck := by
  cases op <;> simp only [step, spawn, stopBasic, ctlTransition, reapCtl, escalate, ha]
  all_goals (repeat' split)
  all_goals simp_all [Res.halts, Res.stuck]

theorem pstep_halts_iff (c : Cfg) (s : St) (p : Part) : (pstep c s p).halts = unsafePart c s p := by
  cases p with
  | look op =>
    simp only [pstep, unsafePart]
    repeat' split
    all_goals rfl
  | whole op =>
    have h := step_active_halts_eq_stuck c { s with active := true } op rfl
    rw [step_stuck_iff] at h
    have e : (serve c s op).2 = (step c { s with active := true } op).2 := rfl
    simp only [pstep, unsafePart, ← h, ← e]
    cases hh : (serve c s op).2.halts <;> simp [PStep.halts]
  | prep h => simp only [pstep, unsafePart]; split <;> rfl
  | exec h =>
    simp only [pstep, unsafePart]
    repeat' split
    all_goals simp_all [PStep.halts]
  | reap h =>
    simp only [pstep, unsafePart]
    repeat' split
    all_goals simp_all [PStep.halts]

/-! ### the flattened view the property is evaluated on -/

theorem noStuck_specPairs (items : List Item) (rs : List IRes) (h : noStuckI rs = true) :
    ∀ x ∈ specPairs items rs, x.2.stuck = false := by
  induction items generalizing rs with
  | nil => intro x hx; simp [specPairs] at hx
  | cons it rest ih =>
    intro x hx
    cases rs with
    | nil => cases it <;> simp [specPairs] at hx
    | cons r rs' =>
      simp only [noStuckI, List.all_cons, Bool.and_eq_true, Bool.not_eq_true'] at h
      cases it with
      | one op =>
        cases r with
        | one r0 =>
          simp only [specPairs, List.mem_cons] at hx
          rcases hx with rfl | hx
          · simpa [IRes.stuck] using h.1
          · exact ih rs' (by simpa [noStuckI] using h.2) x hx
        | par ra rb => simp [specPairs] at hx
      | par a b =>
        cases r with
        | one r0 =>
          simp only [specPairs, List.mem_singleton] at hx
          subst hx
          simpa [IRes.stuck] using h.1
        | par ra rb =>
          have h1 : ra.stuck = false ∧ rb.stuck = false := by simpa [IRes.stuck] using h.1
          simp only [specPairs, List.mem_append] at hx
          rcases hx with hx | hx
          · split at hx <;> simp only [List.mem_cons, List.mem_nil_iff, or_false] at hx <;>
              rcases hx with rfl | rfl <;> simp [h1.1, h1.2]
          · exact ih rs' (by simpa [noStuckI] using h.2) x hx

/-- no stuck result in the run ⇒ the `noStuck` clause of the property holds of the flattened observation -/
theorem noStuck_flat (items : List Item) (o : IObs) (h : noStuckI o.res = true) :
    noStuck (o.flat items).2.res = true := by
  simp only [IObs.flat]
  split
  · rename_i r0 rs he
    rw [he] at h
    simp only [noStuckI, List.all_cons, Bool.and_eq_true, Bool.not_eq_true'] at h
    have := noStuck_specPairs items rs (by simpa [noStuckI] using h.2)
    simp only [noStuck, List.all_cons, Bool.and_eq_true, Bool.not_eq_true', List.all_map, List.all_eq_true,
      Function.comp_apply]
    exact ⟨by simpa [IRes.stuck] using h.1, fun x hx => this x hx⟩
  · rfl

theorem emits_flat (items : List Item) (o : IObs) : (o.flat items).2.emits = o.emits := by
  simp only [IObs.flat]; split <;> rfl

end ExecTask
