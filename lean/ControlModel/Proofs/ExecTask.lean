/-
  Proofs/ExecTask — lemmas behind Props/C17 (core only).
-/
import ControlModel.Model.ExecTask
import ControlModel.Spec.C17

namespace ExecTask

/-! ### counting terminal statuses -/

theorem terminals_append (a b : List Emit) : terminals (a ++ b) = terminals a + terminals b := by
  simp [terminals, List.filter_append]

@[simp] theorem terminals_snoc_term (a : List Emit) (f : Fin) : terminals (a ++ [.term f]) = terminals a + 1 := by
  rw [terminals_append]; rfl
@[simp] theorem terminals_snoc_running (a : List Emit) : terminals (a ++ [.running]) = terminals a := by
  rw [terminals_append]; rfl
@[simp] theorem terminals_snoc_btt (a : List Emit) (c p) : terminals (a ++ [bttOf c p]) = terminals a := by
  rw [terminals_append]; cases p <;> rfl
@[simp] theorem term_ne_btt (f : Fin) (c p) : Emit.term f ≠ bttOf c p := by
  cases p <;> simp [bttOf]

theorem term_mem_terminals_pos {f : Fin} {es : List Emit} (h : Emit.term f ∈ es) : 0 < terminals es := by
  have : Emit.term f ∈ es.filter Emit.isTerm := List.mem_filter.mpr ⟨h, rfl⟩
  exact List.length_pos_of_mem this

theorem not_mem_of_terminals_zero {f : Fin} {es : List Emit} (h : terminals es = 0) : Emit.term f ∉ es := by
  intro hm; have := term_mem_terminals_pos hm; omega

/-- appending anything to a list without a terminal status keeps "nothing after the terminal status" -/
theorem nothingAfter_snoc (es : List Emit) (e : Emit) (h : terminals es = 0) : nothingAfter (es ++ [e]) = true := by
  induction es with
  | nil => simp [nothingAfter]
  | cons x xs ih =>
    have hx : x.isTerm = false := by
      cases hx : x.isTerm
      · rfl
      · simp [terminals, List.filter, hx] at h
    have hxs : terminals xs = 0 := by simpa [terminals, List.filter, hx] using h
    simp [nothingAfter, hx, ih hxs]

theorem nothingAfter_of_terminals_zero (es : List Emit) (h : terminals es = 0) : nothingAfter es = true := by
  induction es with
  | nil => rfl
  | cons x xs ih =>
    have hx : x.isTerm = false := by
      cases hx : x.isTerm
      · rfl
      · simp [terminals, List.filter, hx] at h
    have hxs : terminals xs = 0 := by simpa [terminals, List.filter, hx] using h
    simp [nothingAfter, hx, ih hxs]

/-! ### the basic invariant: at most one terminal status, and only for a task that is no longer active -/

structure Inv (s : St) : Prop where
  le1 : terminals s.out ≤ 1
  act : s.active = true → terminals s.out = 0
  rpc : s.rpc = true → s.active = true
  rpcCtl : s.rpc = true → s.kind = .ctl
  kil : s.killed = true → s.active = false
  nof : s.killed = true → Emit.term .FAILED ∉ s.out
  orph : s.kind.basicLike = false → s.orphans = 0

theorem step_inv (c : Cfg) (s : St) (op : Op) (h : Inv s) : Inv (step c s op).1 := by
  obtain ⟨h1, h2, h3, h3', h4, h5, h6⟩ := h
  cases op <;> simp only [step, spawn, stopBasic, ctlTransition, reapCtl, escalate, giveUp]
  all_goals (repeat' split)
  all_goals (refine ⟨?_, ?_, ?_, ?_, ?_, ?_, ?_⟩ <;> simp_all [not_mem_of_terminals_zero, Kind.basicLike])

theorem init_inv (c : Cfg) (k : Kind) (b : Beh) : Inv (init c k b).1 := by
  cases k <;> simp only [init, base]
  all_goals (repeat' split)
  all_goals (refine ⟨?_, ?_, ?_, ?_, ?_, ?_, ?_⟩ <;> simp_all [terminals, Kind.basicLike, Emit.isTerm, List.filter])

theorem finish_inv (s : St) (h : Inv s) : Inv (finish s) := by
  obtain ⟨h1, h2, h3, h3', h4, h5, h6⟩ := h
  simp only [finish]
  split
  · refine ⟨?_, ?_, ?_, ?_, ?_, ?_, ?_⟩ <;> simp_all
  · exact ⟨h1, h2, h3, h3', h4, h5, h6⟩

theorem haltState_inv (s : St) (r : Res) (h : Inv s) : Inv (haltState s r) := by
  cases r <;> simp only [haltState] <;> first | exact h | exact finish_inv s h

theorem runFrom_inv (c : Cfg) (s : St) (ops : List Op) (h : Inv s) : Inv (runFrom c s ops).st := by
  induction ops generalizing s with
  | nil => exact finish_inv s h
  | cons op ops ih =>
    simp only [runFrom]
    split
    · exact ih s h
    · split
      · exact haltState_inv s _ h
      · exact ih _ (step_inv c s op h)

theorem run_inv (c : Cfg) (k : Kind) (b : Beh) (ops : List Op) : Inv (run c k b ops).st := by
  simp only [run]
  split
  · exact init_inv c k b
  · exact runFrom_inv c _ ops (init_inv c k b)

theorem run_of_halts (c : Cfg) (k : Kind) (b : Beh) (ops : List Op) (h : (init c k b).2.halts = true) :
    run c k b ops = { st := (init c k b).1, res := [(init c k b).2], halted := true } := by
  simp [run, h]

theorem run_of_not_halts (c : Cfg) (k : Kind) (b : Beh) (ops : List Op) (h : (init c k b).2.halts = false) :
    run c k b ops = { st := (runFrom c (init c k b).1 ops).st,
                      res := (init c k b).2 :: (runFrom c (init c k b).1 ops).res,
                      halted := (runFrom c (init c k b).1 ops).halted } := by
  simp [run, h]

/-! ### a carried-out KILL is remembered -/

theorem step_killed_mono (c : Cfg) (s : St) (op : Op) (h : s.killed = true) : (step c s op).1.killed = true := by
  cases op <;> simp only [step, spawn, stopBasic, ctlTransition, reapCtl, escalate, giveUp]
  all_goals (repeat' split)
  all_goals simp_all

theorem step_kill_ok (c : Cfg) (s : St) (h : (step c s .kill).2 = .ok) : (step c s .kill).1.killed = true := by
  revert h
  simp only [step, reapCtl, escalate]
  repeat' split
  all_goals simp_all

theorem finish_killed (s : St) : (finish s).killed = s.killed := by
  simp only [finish]; split <;> rfl

theorem haltState_killed (s : St) (r : Res) : (haltState s r).killed = s.killed := by
  cases r <;> simp only [haltState, finish_killed]

theorem runFrom_killed_mono (c : Cfg) (s : St) (ops : List Op) (h : s.killed = true) : (runFrom c s ops).st.killed = true := by
  induction ops generalizing s with
  | nil => simpa [runFrom, finish_killed] using h
  | cons op ops ih =>
    simp only [runFrom]
    split
    · exact ih s h
    · split
      · rw [haltState_killed]; exact h
      · exact ih _ (step_killed_mono c s op h)

theorem runFrom_killOk (c : Cfg) (s : St) (ops : List Op) (h : killOkFrom ops (runFrom c s ops).res = true) :
    (runFrom c s ops).st.killed = true := by
  induction ops generalizing s with
  | nil => simp [killOkFrom] at h
  | cons op ops ih =>
    simp only [runFrom] at h ⊢
    split at h
    · -- loop gone: the result is `dead`
      rename_i hl
      simp only [hl, ↓reduceIte]
      simp only [killOkFrom] at h
      have : killOkFrom ops (runFrom c s ops).res = true := by simpa using h
      exact ih s this
    · rename_i hl
      simp only [hl]
      split at h
      · rename_i hh
        simp only [killOkFrom] at h
        have hr : (step c s op).2 ≠ .ok := by intro e; rw [e] at hh; simp [Res.halts] at hh
        cases ops <;> simp [hr] at h
      · rename_i hh
        simp only [hh]
        simp only [killOkFrom, Bool.or_eq_true, Bool.and_eq_true, decide_eq_true_eq] at h
        cases h with
        | inl h =>
          obtain ⟨h1, h2⟩ := h
          subst h1
          exact runFrom_killed_mono c _ ops (step_kill_ok c s h2)
        | inr h => exact ih _ h

/-! ### nothing after the terminal status (needs: no KILL of a basic/hook task that is armed or alive) -/

/-- once the terminal status is out, nothing is left that could emit -/
structure Quiet (s : St) : Prop where
  na : nothingAfter s.out = true
  act : 1 ≤ terminals s.out → s.active = false
  tim : 1 ≤ terminals s.out → s.kind.basicLike = true → s.timer = false
  chi : 1 ≤ terminals s.out → s.kind.basicLike = true → s.child ≠ .running
  rpc : 1 ≤ terminals s.out → s.rpc = false

set_option maxHeartbeats 4000000 in
theorem step_quiet (c : Cfg) (s : St) (op : Op) (hi : Inv s) (h : Quiet s)
    (ha : killArmedIn c s op = false) (hl : killLive s op = false) : Quiet (step c s op).1 := by
  obtain ⟨h1, h2, h3, h3', h4, h5, h6⟩ := hi
  obtain ⟨q1, q2, q3, q4, q5⟩ := h
  cases hks : c.killStopsTimer <;>
    cases op <;> simp only [step, spawn, stopBasic, ctlTransition, reapCtl, escalate, giveUp]
  all_goals (repeat' split)
  all_goals (refine ⟨?_, ?_, ?_, ?_, ?_⟩ <;>
    simp_all [killArmedIn, killArmed, killLive, St.alive, Kind.basicLike, nothingAfter_snoc])

theorem init_quiet (c : Cfg) (k : Kind) (b : Beh) : Quiet (init c k b).1 := by
  cases k <;> simp only [init, base]
  all_goals (repeat' split)
  all_goals (refine ⟨?_, ?_, ?_, ?_, ?_⟩ <;> simp_all [terminals, nothingAfter, Emit.isTerm, List.filter])

theorem finish_quiet (s : St) (h : Quiet s) : Quiet (finish s) := by
  obtain ⟨q1, q2, q3, q4, q5⟩ := h
  simp only [finish]
  split
  · rename_i hc
    simp only [Bool.and_eq_true] at hc
    have ht : terminals s.out = 0 := by
      cases ht : terminals s.out with
      | zero => rfl
      | succ n => have := q3 (by omega) hc.1.1; simp_all
    refine ⟨?_, ?_, ?_, ?_, ?_⟩ <;> simp_all [nothingAfter_snoc]
  · exact ⟨q1, q2, q3, q4, q5⟩

theorem runFrom_quiet (c : Cfg) (s : St) (ops : List Op) (hi : Inv s) (h : Quiet s)
    (ha : neverFrom c (killArmedIn c) s ops = true) (hl : neverFrom c killLive s ops = true) :
    nothingAfter (runFrom c s ops).st.out = true := by
  induction ops generalizing s with
  | nil => exact (finish_quiet s h).na
  | cons op ops ih =>
    simp only [runFrom]
    simp only [neverFrom] at ha hl
    split
    · rename_i hloop
      -- the loop is gone: nothing is delivered; the rest of the schedule is `dead`
      have : ∀ ops', (runFrom c s ops').st = finish s := by
        intro ops'
        induction ops' with
        | nil => rfl
        | cons o os ih' => simp only [runFrom, hloop, ↓reduceIte]; exact ih'
      rw [this]; exact (finish_quiet s h).na
    · rename_i hloop
      simp only [hloop] at ha hl
      split
      · generalize (step c s op).2 = r
        cases r <;> simp only [haltState] <;> first | exact h.na | exact (finish_quiet s h).na
      · rename_i hh
        have ha1 : killArmedIn c s op = false := by
          cases hk : killArmedIn c s op <;> simp_all
        have hl1 : killLive s op = false := by
          cases hk : killLive s op <;> simp_all
        simp only [ha1, hl1, hh] at ha hl
        exact ih _ (step_inv c s op hi) (step_quiet c s op hi h ha1 hl1) (by simpa using ha) (by simpa using hl)

/-! ### TASK_RUNNING never follows the terminal status once Kill stops the timer -/

theorem noRunningAfter_of_terminals_zero (es : List Emit) (h : terminals es = 0) : noRunningAfter es = true := by
  induction es with
  | nil => rfl
  | cons x xs ih =>
    have hx : x.isTerm = false := by
      cases hx : x.isTerm
      · rfl
      · simp [terminals, List.filter, hx] at h
    have hxs : terminals xs = 0 := by simpa [terminals, List.filter, hx] using h
    simp [noRunningAfter, hx, ih hxs]

/-- appending something that is not TASK_RUNNING keeps the clause -/
theorem noRunningAfter_snoc (es : List Emit) (e : Emit) (h : noRunningAfter es = true) (he : e ≠ .running) :
    noRunningAfter (es ++ [e]) = true := by
  induction es with
  | nil => cases e <;> simp_all [noRunningAfter, Emit.isTerm]
  | cons x xs ih =>
    cases hx : x.isTerm
    · simp only [List.cons_append, noRunningAfter, hx] at h ⊢
      exact ih h
    · simp only [List.cons_append, noRunningAfter, hx, ↓reduceIte] at h ⊢
      cases e <;> simp_all

theorem noRunningAfter_snoc_zero (es : List Emit) (e : Emit) (h : terminals es = 0) :
    noRunningAfter (es ++ [e]) = true := by
  induction es with
  | nil => cases e <;> simp [noRunningAfter, Emit.isTerm]
  | cons x xs ih =>
    have hx : x.isTerm = false := by
      cases hx : x.isTerm
      · rfl
      · simp [terminals, List.filter, hx] at h
    have hxs : terminals xs = 0 := by simpa [terminals, List.filter, hx] using h
    simp [noRunningAfter, hx, ih hxs]

@[simp] theorem bttOf_ne_running (c : Child) (p : Option Fin) : bttOf c p ≠ Emit.running := by
  cases p <;> simp [bttOf]

@[simp] theorem terminals_single_btt (c : Child) (p : Option Fin) : terminals [bttOf c p] = 0 := by
  cases p <;> rfl

/-- the armed timer belongs to a task without terminal status -/
structure Armed (s : St) : Prop where
  nr : noRunningAfter s.out = true
  tim : s.timer = true → terminals s.out = 0
  bl : s.timer = true → s.kind.basicLike = true

theorem step_armed (c : Cfg) (hc : c.killStopsTimer = true) (s : St) (op : Op) (h : Armed s) :
    Armed (step c s op).1 := by
  obtain ⟨a1, a2, a3⟩ := h
  cases op <;> simp only [step, spawn, stopBasic, ctlTransition, reapCtl, escalate, giveUp]
  all_goals (repeat' split)
  all_goals (refine ⟨?_, ?_, ?_⟩ <;>
    simp_all [noRunningAfter_snoc, noRunningAfter_snoc_zero, noRunningAfter_of_terminals_zero, terminals_append,
      Kind.basicLike])

theorem init_armed (c : Cfg) (k : Kind) (b : Beh) : Armed (init c k b).1 := by
  cases k <;> simp only [init, base]
  all_goals (repeat' split)
  all_goals (refine ⟨?_, ?_, ?_⟩ <;> simp_all [terminals, noRunningAfter, Emit.isTerm, List.filter, Kind.basicLike])

theorem finish_armed (s : St) (h : Armed s) : Armed (finish s) := by
  obtain ⟨a1, a2, a3⟩ := h
  simp only [finish]
  split
  · rename_i hc
    simp only [Bool.and_eq_true] at hc
    have ht := a2 hc.1.2
    refine ⟨?_, ?_, ?_⟩ <;> simp_all [noRunningAfter_snoc_zero, noRunningAfter_of_terminals_zero, terminals_append]
  · exact ⟨a1, a2, a3⟩

theorem runFrom_armed (c : Cfg) (hc : c.killStopsTimer = true) (s : St) (ops : List Op) (h : Armed s) :
    Armed (runFrom c s ops).st := by
  induction ops generalizing s with
  | nil => exact finish_armed s h
  | cons op ops ih =>
    simp only [runFrom]
    split
    · exact ih s h
    · split
      · generalize (step c s op).2 = r
        cases r <;> simp only [haltState] <;> first | exact h | exact finish_armed s h
      · exact ih _ (step_armed c hc s op h)

/-! ### a predicate that holds of no request is never met; the kind of a task never changes -/

theorem neverFrom_of_false (c : Cfg) (P : St → Op → Bool) (hP : ∀ s op, P s op = false) (s : St) (ops : List Op) :
    neverFrom c P s ops = true := by
  induction ops generalizing s with
  | nil => rfl
  | cons op ops ih =>
    simp only [neverFrom, hP]
    split
    · rfl
    · simp only [Bool.false_eq_true, ↓reduceIte]
      split
      · rfl
      · exact ih _

theorem never_of_false (c : Cfg) (P : St → Op → Bool) (hP : ∀ s op, P s op = false) (k : Kind) (b : Beh)
    (ops : List Op) : never c P k b ops = true := by
  simp only [never]
  split
  · rfl
  · exact neverFrom_of_false c P hP _ ops

theorem step_kind (c : Cfg) (s : St) (op : Op) : (step c s op).1.kind = s.kind := by
  cases op <;> simp only [step, spawn, stopBasic, ctlTransition, reapCtl, escalate, giveUp]
  all_goals (repeat' split)
  all_goals simp_all

theorem init_kind (c : Cfg) (k : Kind) (b : Beh) : (init c k b).1.kind = k := by
  cases k <;> simp only [init, base]
  all_goals (repeat' split)
  all_goals rfl

/-- a predicate that needs a controllable task is never met by a task of another kind -/
theorem neverFrom_of_kind (c : Cfg) (P : St → Op → Bool) (hP : ∀ s op, s.kind ≠ .ctl → P s op = false)
    (s : St) (hk : s.kind ≠ .ctl) (ops : List Op) : neverFrom c P s ops = true := by
  induction ops generalizing s with
  | nil => rfl
  | cons op ops ih =>
    simp only [neverFrom, hP s op hk]
    split
    · rfl
    · simp only [Bool.false_eq_true, ↓reduceIte]
      split
      · rfl
      · exact ih _ (by rw [step_kind]; exact hk)

/-! ### stuck exactly in the unsafe request states -/

theorem step_stuck_iff (c : Cfg) (s : St) (op : Op) : (step c s op).2.stuck = unsafeReq c s op := by
  cases op <;> simp only [step, spawn, stopBasic, ctlTransition, reapCtl, escalate, giveUp, unsafeReq,
    stopUnreaped, stopChannelFull, killNoRpc, killInactive]
  all_goals (repeat' split)
  all_goals simp_all [Res.stuck]

theorem runFrom_dead_res (c : Cfg) (s : St) (ops : List Op) (h : s.loop = false) : noStuck (runFrom c s ops).res = true := by
  induction ops with
  | nil => rfl
  | cons o os ih => simp only [runFrom, h, Bool.not_false, ↓reduceIte]; simpa [noStuck, Res.stuck] using ih

theorem runFrom_noStuck (c : Cfg) (s : St) (ops : List Op) : noStuck (runFrom c s ops).res = neverFrom c (unsafeReq c) s ops := by
  induction ops generalizing s with
  | nil => rfl
  | cons op ops ih =>
    simp only [runFrom, neverFrom]
    split
    · rename_i hl
      have hl' : s.loop = false := by simpa using hl
      have := runFrom_dead_res c s ops hl'
      simpa [noStuck, Res.stuck] using this
    · have hst := step_stuck_iff c s op
      cases hu : unsafeReq c s op
      · -- safe request: the step is not stuck, hence does not halt
        rw [hu] at hst
        have hnh : (step c s op).2.halts = false := by
          cases hr : (step c s op).2 <;> simp_all [Res.halts, Res.stuck]
        simp only [hnh, Bool.false_eq_true, ↓reduceIte]
        have := ih (step c s op).1
        simp only [noStuck, List.all_cons, hst, Bool.not_false, Bool.true_and] at this ⊢
        exact this
      · rw [hu] at hst
        simp only [↓reduceIte]
        split
        · simp [noStuck, hst]
        · simp [noStuck, hst]

theorem init_halts (c : Cfg) (k : Kind) (b : Beh) : (init c k b).2.halts = launchCrashes c k b := by
  cases k <;> simp only [init, launchCrashes]
  all_goals (repeat' split)
  all_goals simp_all [Res.halts]

theorem init_ok (c : Cfg) (k : Kind) (b : Beh) (h : (init c k b).2.halts = false) : (init c k b).2 = .ok := by
  revert h
  cases k <;> simp only [init]
  all_goals (repeat' split)
  all_goals simp [Res.halts]

theorem init_stuck (c : Cfg) (k : Kind) (b : Beh) (h : (init c k b).2.halts = true) : (init c k b).2.stuck = true := by
  cases hr : (init c k b).2 <;> simp_all [Res.halts, Res.stuck]

/-! ### survivors -/

theorem step_halts_active (c : Cfg) (s : St) (op : Op) (h : (step c s op).2.halts = true) : s.active = true := by
  revert h
  cases op <;> simp only [step, spawn, stopBasic, ctlTransition, reapCtl, escalate, giveUp]
  all_goals (repeat' split)
  all_goals simp_all [Res.halts]

def Surv (s : St) : Prop := s.killed = true → s.alive = false

theorem step_surv (c : Cfg) (s : St) (op : Op) (hi : Inv s) (h : Surv s)
    (hl : killLive s op = false) (hh : killHelpers s op = false) : Surv (step c s op).1 := by
  obtain ⟨h1, h2, h3, h3', h4, h5, h6⟩ := hi
  unfold Surv at *
  cases op <;> simp only [step, spawn, stopBasic, ctlTransition, reapCtl, escalate, giveUp]
  all_goals (repeat' split)
  all_goals simp_all [killLive, killHelpers, St.alive, Kind.basicLike]

theorem init_surv (c : Cfg) (k : Kind) (b : Beh) : Surv (init c k b).1 := by
  unfold Surv
  cases k <;> simp only [init, base]
  all_goals (repeat' split)
  all_goals simp

theorem finish_alive (s : St) : (finish s).alive = s.alive := by
  simp only [finish]; split <;> rfl

theorem runFrom_survivors (c : Cfg) (s : St) (ops : List Op) (hi : Inv s) (hs : Surv s)
    (hl : neverFrom c killLive s ops = true) (hh : neverFrom c killHelpers s ops = true)
    (hk : (runFrom c s ops).st.killed = true) :
    (runFrom c s ops).halted = false ∧ (runFrom c s ops).st.alive = false := by
  induction ops generalizing s with
  | nil =>
    simp only [runFrom, finish_killed, finish_alive] at hk ⊢
    exact ⟨trivial, hs hk⟩
  | cons op ops ih =>
    simp only [runFrom] at hk ⊢
    simp only [neverFrom] at hl hh
    split
    · rename_i hloop
      simp only [hloop, ↓reduceIte] at hk hl hh
      -- nothing is delivered any more: the rest behaves as the empty schedule
      have hst : ∀ ops', (runFrom c s ops').st = finish s ∧ (runFrom c s ops').halted = false := by
        intro ops'
        induction ops' with
        | nil => exact ⟨rfl, rfl⟩
        | cons o os ih' => simp only [runFrom, hloop, ↓reduceIte]; exact ih'
      rw [(hst ops).1] at hk ⊢
      rw [(hst ops).2]
      rw [finish_killed] at hk
      exact ⟨rfl, by rw [finish_alive]; exact hs hk⟩
    · rename_i hloop
      simp only [hloop] at hk hl hh
      split
      · rename_i hhalt
        simp only [hhalt, ↓reduceIte, Bool.false_eq_true, haltState_killed] at hk
        have := step_halts_active c s op hhalt
        have := hi.kil hk
        simp_all
      · rename_i hhalt
        simp only [hhalt] at hk
        have hl1 : killLive s op = false := by
          cases hk' : killLive s op <;> simp_all
        have hh1 : killHelpers s op = false := by
          cases hk' : killHelpers s op <;> simp_all
        simp only [hl1, hh1, hhalt] at hl hh
        exact ih _ (step_inv c s op hi) (step_surv c s op hi hs hl1 hh1) (by simpa using hl) (by simpa using hh) hk


/-! ### STOP of a basic task terminates what it can reach -/

@[simp] theorem ownEnd_ne_running (b : Beh) : b.ownEnd ≠ Child.running := by cases b <;> decide

/-- what is running is known to the task and has not been reaped -/
structure Proc (s : St) : Prop where
  nocmd : s.kind = .basic → s.active = true → s.cmd = false → s.child ≠ .running
  reap : s.reaped = true → s.child ≠ .running

theorem step_proc (c : Cfg) (s : St) (op : Op) (h : Proc s) : Proc (step c s op).1 := by
  obtain ⟨p1, p2⟩ := h
  cases op <;> simp only [step, spawn, stopBasic, ctlTransition, reapCtl, escalate, giveUp]
  all_goals (repeat' split)
  all_goals (refine ⟨?_, ?_⟩ <;> simp_all)

theorem init_proc (c : Cfg) (k : Kind) (b : Beh) : Proc (init c k b).1 := by
  cases k <;> simp only [init, base]
  all_goals (repeat' split)
  all_goals (refine ⟨?_, ?_⟩ <;> simp_all)

/-- with the repaired ensureBasicTaskKilled no request to a basic task crashes or blocks the executor -/
theorem step_basic_not_halts (c : Cfg) (hc : c.stopNilSafe = true) (s : St) (hk : s.kind = .basic) (op : Op) :
    (step c s op).2.halts = false := by
  cases op <;> simp only [step, spawn, stopBasic, ctlTransition, reapCtl, escalate, giveUp]
  all_goals (repeat' split)
  all_goals simp_all [Res.halts, Kind.basicLike]

/-- One step keeps "a STOP was answered, no child started since ⇒ nothing alive", unless the STOP arrives in a
    state of `stopSpares`. -/
theorem step_stopFlag (c : Cfg) (hc : c.stopNilSafe = true) (s : St) (hk : s.kind = .basic) (op : Op)
    (hp : Proc s) (hn : stopSpares s op = false) (flag : Bool) (hf : flag = true → s.alive = false)
    (h : stopFlag flag op (step c s op).2 = true) : (step c s op).1.alive = false := by
  obtain ⟨p1, p2⟩ := hp
  revert h
  cases op <;> simp only [step, spawn, stopBasic, ctlTransition, reapCtl, escalate, giveUp]
  all_goals (repeat' split)
  all_goals (cases flag <;> simp_all [stopFlag, stopSpares, St.alive, Kind.basicLike])

theorem neverFrom_dead (c : Cfg) (P : St → Op → Bool) (s : St) (h : s.loop = false) (ops : List Op) :
    neverFrom c P s ops = true := by
  cases ops <;> simp [neverFrom, h]

theorem stopFlag_dead (flag : Bool) (op : Op) : stopFlag flag op .dead = flag := by
  cases op <;> rfl

theorem runFrom_stopped (c : Cfg) (hc : c.stopNilSafe = true) (s : St) (hk : s.kind = .basic) (hp : Proc s)
    (flag : Bool) (hf : flag = true → s.alive = false) (ops : List Op)
    (hn : neverFrom c stopSpares s ops = true) :
    (runFrom c s ops).halted = false ∧
      (stoppedFrom flag ops (runFrom c s ops).res = true → (runFrom c s ops).st.alive = false) := by
  induction ops generalizing s flag with
  | nil =>
    simp only [runFrom, stoppedFrom, finish_alive]
    exact ⟨trivial, hf⟩
  | cons op ops ih =>
    simp only [runFrom]
    split
    · rename_i hloop
      have hloop' : s.loop = false := by simpa using hloop
      have := ih s hk hp flag hf (neverFrom_dead c _ s hloop' ops)
      simpa [stoppedFrom, stopFlag_dead] using this
    · rename_i hloop
      have hnh := step_basic_not_halts c hc s hk op
      simp only [neverFrom, hloop, hnh] at hn
      have hn1 : stopSpares s op = false := by
        cases hs : stopSpares s op <;> simp_all
      simp only [hn1] at hn
      simp only [hnh, Bool.false_eq_true, ↓reduceIte, stoppedFrom]
      exact ih (step c s op).1 (by rw [step_kind]; exact hk) (step_proc c s op hp) _
        (step_stopFlag c hc s hk op hp hn1 flag hf) (by simpa using hn)

end ExecTask
