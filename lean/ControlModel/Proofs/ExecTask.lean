/-
  Proofs/ExecTask — lemmas behind Props/C17 (core only).
-/
import ControlModel.Model.ExecTask
import ControlModel.Spec.C17

namespace ExecTask

/-! ### counting terminal statuses -/

theorem terminals_append (a b : List Emit) : terminals (a ++ b) = terminals a + terminals b := by
  simp [terminals, List.filter_append]

@[simp] theorem terminals_snoc_term (a : List Emit) (f : Fin) : terminals (a ++ [.term f]) = terminals a + 1 := by
  rw [terminals_append]; rfl
@[simp] theorem terminals_snoc_running (a : List Emit) : terminals (a ++ [.running]) = terminals a := by
  rw [terminals_append]; rfl
@[simp] theorem terminals_snoc_btt (a : List Emit) (c p) : terminals (a ++ [bttOf c p]) = terminals a := by
  rw [terminals_append]; cases p <;> rfl
@[simp] theorem term_ne_btt (f : Fin) (c p) : Emit.term f ≠ bttOf c p := by
  cases p <;> simp [bttOf]

theorem term_mem_terminals_pos {f : Fin} {es : List Emit} (h : Emit.term f ∈ es) : 0 < terminals es := by
  have : Emit.term f ∈ es.filter Emit.isTerm := List.mem_filter.mpr ⟨h, rfl⟩
  exact List.length_pos_of_mem this

theorem not_mem_of_terminals_zero {f : Fin} {es : List Emit} (h : terminals es = 0) : Emit.term f ∉ es := by
  intro hm; have := term_mem_terminals_pos hm; omega

/-- appending anything to a list without a terminal status keeps "nothing after the terminal status" -/
theorem nothingAfter_snoc (es : List Emit) (e : Emit) (h : terminals es = 0) : nothingAfter (es ++ [e]) = true := by
  induction es with
  | nil => simp [nothingAfter]
  | cons x xs ih =>
    have hx : x.isTerm = false := by
      cases hx : x.isTerm
      · rfl
      · simp [terminals, List.filter, hx] at h
    have hxs : terminals xs = 0 := by simpa [terminals, List.filter, hx] using h
    simp [nothingAfter, hx, ih hxs]

theorem nothingAfter_of_terminals_zero (es : List Emit) (h : terminals es = 0) : nothingAfter es = true := by
  induction es with
  | nil => rfl
  | cons x xs ih =>
    have hx : x.isTerm = false := by
      cases hx : x.isTerm
      · rfl
      · simp [terminals, List.filter, hx] at h
    have hxs : terminals xs = 0 := by simpa [terminals, List.filter, hx] using h
    simp [nothingAfter, hx, ih hxs]

/-! ### the basic invariant: at most one terminal status, and only for a task that is no longer active -/

structure Inv (s : St) : Prop where
  le1 : terminals s.out ≤ 1
  act : s.active = true → terminals s.out = 0
  rpc : s.rpc = true → s.active = true
  rpcCtl : s.rpc = true → s.kind = .ctl
  kil : s.killed = true → s.active = false
  nof : s.killed = true → Emit.term .FAILED ∉ s.out
  orph : s.kind.basicLike = false → s.orphans = 0

theorem step_inv (s : St) (op : Op) (h : Inv s) : Inv (step s op).1 := by
  obtain ⟨h1, h2, h3, h3', h4, h5, h6⟩ := h
  cases op <;> simp only [step, spawn, stopBasic, ctlTransition, reapCtl, escalate]
  all_goals (repeat' split)
  all_goals (refine ⟨?_, ?_, ?_, ?_, ?_, ?_, ?_⟩ <;> simp_all [not_mem_of_terminals_zero, Kind.basicLike])

theorem init_inv (k : Kind) (b : Beh) : Inv (init k b).1 := by
  cases k <;> simp only [init, base]
  all_goals (repeat' split)
  all_goals (refine ⟨?_, ?_, ?_, ?_, ?_, ?_, ?_⟩ <;> simp_all [terminals, Kind.basicLike, Emit.isTerm])

theorem finish_inv (s : St) (h : Inv s) : Inv (finish s) := by
  obtain ⟨h1, h2, h3, h3', h4, h5, h6⟩ := h
  simp only [finish]
  split
  · refine ⟨?_, ?_, ?_, ?_, ?_, ?_, ?_⟩ <;> simp_all
  · exact ⟨h1, h2, h3, h3', h4, h5, h6⟩

theorem haltState_inv (s : St) (r : Res) (h : Inv s) : Inv (haltState s r) := by
  cases r <;> simp only [haltState] <;> first | exact h | exact finish_inv s h

theorem runFrom_inv (s : St) (ops : List Op) (h : Inv s) : Inv (runFrom s ops).st := by
  induction ops generalizing s with
  | nil => exact finish_inv s h
  | cons op ops ih =>
    simp only [runFrom]
    split
    · exact ih s h
    · split
      · exact haltState_inv s _ h
      · exact ih _ (step_inv s op h)

theorem run_inv (k : Kind) (b : Beh) (ops : List Op) : Inv (run k b ops).st := by
  simp only [run]
  split
  · exact init_inv k b
  · exact runFrom_inv _ ops (init_inv k b)

theorem run_of_halts (k : Kind) (b : Beh) (ops : List Op) (h : (init k b).2.halts = true) :
    run k b ops = { st := (init k b).1, res := [(init k b).2], halted := true } := by
  simp [run, h]

theorem run_of_not_halts (k : Kind) (b : Beh) (ops : List Op) (h : (init k b).2.halts = false) :
    run k b ops = { st := (runFrom (init k b).1 ops).st, res := (init k b).2 :: (runFrom (init k b).1 ops).res,
                    halted := (runFrom (init k b).1 ops).halted } := by
  simp [run, h]

/-! ### a carried-out KILL is remembered -/

theorem step_killed_mono (s : St) (op : Op) (h : s.killed = true) : (step s op).1.killed = true := by
  cases op <;> simp only [step, spawn, stopBasic, ctlTransition, reapCtl, escalate]
  all_goals (repeat' split)
  all_goals simp_all

theorem step_kill_ok (s : St) (h : (step s .kill).2 = .ok) : (step s .kill).1.killed = true := by
  revert h
  simp only [step, reapCtl, escalate]
  repeat' split
  all_goals simp_all

theorem finish_killed (s : St) : (finish s).killed = s.killed := by
  simp only [finish]; split <;> rfl

theorem haltState_killed (s : St) (r : Res) : (haltState s r).killed = s.killed := by
  cases r <;> simp only [haltState, finish_killed]

theorem runFrom_killed_mono (s : St) (ops : List Op) (h : s.killed = true) : (runFrom s ops).st.killed = true := by
  induction ops generalizing s with
  | nil => simpa [runFrom, finish_killed] using h
  | cons op ops ih =>
    simp only [runFrom]
    split
    · exact ih s h
    · split
      · rw [haltState_killed]; exact h
      · exact ih _ (step_killed_mono s op h)

theorem runFrom_killOk (s : St) (ops : List Op) (h : killOkFrom ops (runFrom s ops).res = true) :
    (runFrom s ops).st.killed = true := by
  induction ops generalizing s with
  | nil => simp [killOkFrom] at h
  | cons op ops ih =>
    simp only [runFrom] at h ⊢
    split at h
    · -- loop gone: the result is `dead`
      rename_i hl
      simp only [hl, ↓reduceIte]
      simp only [killOkFrom] at h
      have : killOkFrom ops (runFrom s ops).res = true := by simpa using h
      exact ih s this
    · rename_i hl
      simp only [hl]
      split at h
      · rename_i hh
        simp only [killOkFrom] at h
        have hr : (step s op).2 ≠ .ok := by intro e; rw [e] at hh; simp [Res.halts] at hh
        cases ops <;> simp [hr] at h
      · rename_i hh
        simp only [hh]
        simp only [killOkFrom, Bool.or_eq_true, Bool.and_eq_true, decide_eq_true_eq] at h
        cases h with
        | inl h =>
          obtain ⟨h1, h2⟩ := h
          subst h1
          exact runFrom_killed_mono _ ops (step_kill_ok s h2)
        | inr h => exact ih _ h

/-! ### nothing after the terminal status (needs: no KILL of a basic/hook task that is armed or alive) -/

/-- once the terminal status is out, nothing is left that could emit -/
structure Quiet (s : St) : Prop where
  na : nothingAfter s.out = true
  act : 1 ≤ terminals s.out → s.active = false
  tim : 1 ≤ terminals s.out → s.kind.basicLike = true → s.timer = false
  chi : 1 ≤ terminals s.out → s.kind.basicLike = true → s.child ≠ .running
  rpc : 1 ≤ terminals s.out → s.rpc = false

set_option maxHeartbeats 4000000 in
theorem step_quiet (s : St) (op : Op) (hi : Inv s) (h : Quiet s)
    (ha : killArmed s op = false) (hl : killLive s op = false) : Quiet (step s op).1 := by
  obtain ⟨h1, h2, h3, h3', h4, h5, h6⟩ := hi
  obtain ⟨q1, q2, q3, q4, q5⟩ := h
  cases op <;> simp only [step, spawn, stopBasic, ctlTransition, reapCtl, escalate]
  all_goals (repeat' split)
  all_goals (refine ⟨?_, ?_, ?_, ?_, ?_⟩ <;>
    simp_all [killArmed, killLive, St.alive, Kind.basicLike, nothingAfter_snoc])

theorem init_quiet (k : Kind) (b : Beh) : Quiet (init k b).1 := by
  cases k <;> simp only [init, base]
  all_goals (repeat' split)
  all_goals (refine ⟨?_, ?_, ?_, ?_, ?_⟩ <;> simp_all [terminals, nothingAfter, Emit.isTerm, List.filter])

theorem finish_quiet (s : St) (h : Quiet s) : Quiet (finish s) := by
  obtain ⟨q1, q2, q3, q4, q5⟩ := h
  simp only [finish]
  split
  · rename_i hc
    simp only [Bool.and_eq_true] at hc
    have ht : terminals s.out = 0 := by
      cases ht : terminals s.out with
      | zero => rfl
      | succ n => have := q3 (by omega) hc.1.1; simp_all
    refine ⟨?_, ?_, ?_, ?_, ?_⟩ <;> simp_all [nothingAfter_snoc]
  · exact ⟨q1, q2, q3, q4, q5⟩

theorem runFrom_quiet (s : St) (ops : List Op) (hi : Inv s) (h : Quiet s)
    (ha : neverFrom killArmed s ops = true) (hl : neverFrom killLive s ops = true) :
    nothingAfter (runFrom s ops).st.out = true := by
  induction ops generalizing s with
  | nil => exact (finish_quiet s h).na
  | cons op ops ih =>
    simp only [runFrom]
    simp only [neverFrom] at ha hl
    split
    · rename_i hloop
      -- the loop is gone: nothing is delivered; the rest of the schedule is `dead`
      have : ∀ ops', (runFrom s ops').st = finish s := by
        intro ops'
        induction ops' with
        | nil => rfl
        | cons o os ih' => simp only [runFrom, hloop, ↓reduceIte]; exact ih'
      rw [this]; exact (finish_quiet s h).na
    · rename_i hloop
      simp only [hloop] at ha hl
      split
      · generalize (step s op).2 = r
        cases r <;> simp only [haltState] <;> first | exact h.na | exact (finish_quiet s h).na
      · rename_i hh
        have ha1 : killArmed s op = false := by
          cases hk : killArmed s op <;> simp_all
        have hl1 : killLive s op = false := by
          cases hk : killLive s op <;> simp_all
        simp only [ha1, hl1, hh] at ha hl
        exact ih _ (step_inv s op hi) (step_quiet s op hi h ha1 hl1) (by simpa using ha) (by simpa using hl)

/-! ### stuck exactly in the four unsafe request states -/

theorem step_stuck_iff (s : St) (op : Op) : (step s op).2.stuck = unsafeReq s op := by
  cases op <;> simp only [step, spawn, stopBasic, ctlTransition, reapCtl, escalate, unsafeReq,
    stopUnreaped, stopChannelFull, killNoRpc, killInactive]
  all_goals (repeat' split)
  all_goals simp_all [Res.stuck]

theorem runFrom_dead_res (s : St) (ops : List Op) (h : s.loop = false) : noStuck (runFrom s ops).res = true := by
  induction ops with
  | nil => rfl
  | cons o os ih => simp only [runFrom, h, Bool.not_false, ↓reduceIte]; simpa [noStuck, Res.stuck] using ih

theorem runFrom_noStuck (s : St) (ops : List Op) : noStuck (runFrom s ops).res = neverFrom unsafeReq s ops := by
  induction ops generalizing s with
  | nil => rfl
  | cons op ops ih =>
    simp only [runFrom, neverFrom]
    split
    · rename_i hl
      have hl' : s.loop = false := by simpa using hl
      have := runFrom_dead_res s ops hl'
      simpa [noStuck, Res.stuck] using this
    · have hst := step_stuck_iff s op
      cases hu : unsafeReq s op
      · -- safe request: the step is not stuck, hence does not halt
        rw [hu] at hst
        have hnh : (step s op).2.halts = false := by
          cases hr : (step s op).2 <;> simp_all [Res.halts, Res.stuck]
        simp only [hnh, Bool.false_eq_true, ↓reduceIte]
        have := ih (step s op).1
        simp only [noStuck, List.all_cons, hst, Bool.not_false, Bool.true_and] at this ⊢
        exact this
      · rw [hu] at hst
        simp only [↓reduceIte]
        split
        · simp [noStuck, hst]
        · simp [noStuck, hst]

theorem init_halts (k : Kind) (b : Beh) : (init k b).2.halts = launchCrashes k b := by
  cases k <;> simp only [init, launchCrashes]
  all_goals (repeat' split)
  all_goals simp_all [Res.halts]

theorem init_ok (k : Kind) (b : Beh) (h : (init k b).2.halts = false) : (init k b).2 = .ok := by
  revert h
  cases k <;> simp only [init]
  all_goals (repeat' split)
  all_goals simp [Res.halts]

theorem init_stuck (k : Kind) (b : Beh) (h : (init k b).2.halts = true) : (init k b).2.stuck = true := by
  cases hr : (init k b).2 <;> simp_all [Res.halts, Res.stuck]

/-! ### survivors -/

theorem step_halts_active (s : St) (op : Op) (h : (step s op).2.halts = true) : s.active = true := by
  revert h
  cases op <;> simp only [step, spawn, stopBasic, ctlTransition, reapCtl, escalate]
  all_goals (repeat' split)
  all_goals simp_all [Res.halts]

def Surv (s : St) : Prop := s.killed = true → s.alive = false

theorem step_surv (s : St) (op : Op) (hi : Inv s) (h : Surv s)
    (hl : killLive s op = false) (hh : killHelpers s op = false) : Surv (step s op).1 := by
  obtain ⟨h1, h2, h3, h3', h4, h5, h6⟩ := hi
  unfold Surv at *
  cases op <;> simp only [step, spawn, stopBasic, ctlTransition, reapCtl, escalate]
  all_goals (repeat' split)
  all_goals simp_all [killLive, killHelpers, St.alive, Kind.basicLike]

theorem init_surv (k : Kind) (b : Beh) : Surv (init k b).1 := by
  unfold Surv
  cases k <;> simp only [init, base]
  all_goals (repeat' split)
  all_goals simp

theorem finish_alive (s : St) : (finish s).alive = s.alive := by
  simp only [finish]; split <;> rfl

theorem runFrom_survivors (s : St) (ops : List Op) (hi : Inv s) (hs : Surv s)
    (hl : neverFrom killLive s ops = true) (hh : neverFrom killHelpers s ops = true)
    (hk : (runFrom s ops).st.killed = true) :
    (runFrom s ops).halted = false ∧ (runFrom s ops).st.alive = false := by
  induction ops generalizing s with
  | nil =>
    simp only [runFrom, finish_killed, finish_alive] at hk ⊢
    exact ⟨trivial, hs hk⟩
  | cons op ops ih =>
    simp only [runFrom] at hk ⊢
    simp only [neverFrom] at hl hh
    split
    · rename_i hloop
      simp only [hloop, ↓reduceIte] at hk hl hh
      -- nothing is delivered any more: the rest behaves as the empty schedule
      have hst : ∀ ops', (runFrom s ops').st = finish s ∧ (runFrom s ops').halted = false := by
        intro ops'
        induction ops' with
        | nil => exact ⟨rfl, rfl⟩
        | cons o os ih' => simp only [runFrom, hloop, ↓reduceIte]; exact ih'
      rw [(hst ops).1] at hk ⊢
      rw [(hst ops).2]
      rw [finish_killed] at hk
      exact ⟨rfl, by rw [finish_alive]; exact hs hk⟩
    · rename_i hloop
      simp only [hloop] at hk hl hh
      split
      · rename_i hhalt
        simp only [hhalt, ↓reduceIte, Bool.false_eq_true, haltState_killed] at hk
        have := step_halts_active s op hhalt
        have := hi.kil hk
        simp_all
      · rename_i hhalt
        simp only [hhalt] at hk
        have hl1 : killLive s op = false := by
          cases hk' : killLive s op <;> simp_all
        have hh1 : killHelpers s op = false := by
          cases hk' : killHelpers s op <;> simp_all
        simp only [hl1, hh1, hhalt] at hl hh
        exact ih _ (step_inv s op hi) (step_surv s op hi hs hl1 hh1) (by simpa using hl) (by simpa using hh) hk

end ExecTask
