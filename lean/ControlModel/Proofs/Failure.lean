/-
  Proofs/Failure — lemmas behind Props/C03 (core only).
-/
import ControlModel.Model.Failure
import ControlModel.Proofs.RoleTree
import ControlModel.Proofs.Env

namespace Failure
open RoleTree EnvM

/-! ### an ERROR of a critical leaf reaches the top; a non-critical leaf reaches nobody -/

theorem mergeState_error (st : TState) (kids : Forest) : mergeState st .ERROR kids = .ERROR := by
  unfold mergeState
  cases st <;> simp

theorem updState_crit_error' (f : Forest) (p : List Nat) (s : TState) (hs : s = .ERROR) (h : critLeafAt f p = true) :
    (updState f p s).2 = some .ERROR := by
  fun_induction updState f p s with
  | case1 => simp [critLeafAt] at h
  | case2 f hf =>
    cases f with
    | nil => simp [critLeafAt] at h
    | leaf => simp [critLeafAt] at h
    | agg => simp [critLeafAt] at h
  | case3 c crit st su next s => simp [critLeafAt] at h; simp [h, hs]
  | case4 => simp [critLeafAt] at h
  | case5 c crit st su next i rest s r ih =>
    simp only [critLeafAt] at h
    exact ih hs h
  | case6 st su kids next rest s r hnone ih =>
    simp only [critLeafAt] at h
    have : r.2 = some .ERROR := ih hs h
    rw [this] at hnone; cases hnone
  | case7 st su kids next rest s r v hsome st' ih =>
    simp only [critLeafAt] at h
    have hv : r.2 = some .ERROR := ih hs h
    rw [hv] at hsome
    cases hsome
    simp only [st']
    rw [mergeState_error]
  | case8 st su kids next i rest s r ih =>
    simp only [critLeafAt] at h
    exact ih hs h

theorem updState_crit_error (f : Forest) (p : List Nat) (h : critLeafAt f p = true) :
    (updState f p .ERROR).2 = some .ERROR := updState_crit_error' f p .ERROR rfl h

theorem updState_plain_none (f : Forest) (p : List Nat) (s : TState) (h : plainLeafAt f p = true) :
    (updState f p s).2 = none := by
  fun_induction updState f p s with
  | case1 => rfl
  | case2 => rfl
  | case3 c crit st su next s => simp [plainLeafAt] at h; simp [h]
  | case4 => rfl
  | case5 c crit st su next i rest s r ih =>
    simp only [plainLeafAt] at h
    exact ih h
  | case6 st su kids next rest s r hnone ih => rfl
  | case7 st su kids next rest s r v hsome st' ih =>
    simp only [plainLeafAt] at h
    have : r.2 = none := ih h
    rw [this] at hsome; cases hsome
  | case8 st su kids next i rest s r ih =>
    simp only [plainLeafAt] at h
    exact ih h

/-- The root's cached state after the update, when the update reached it, is what it forwarded. -/
theorem updState_root (st : TState) (su : TStatus) (kids next : Forest) (rest : List Nat) (s v : TState)
    (h : (updState (.agg st su kids next) (0 :: rest) s).2 = some v) :
    rootState (updState (.agg st su kids next) (0 :: rest) s).1 = v := by
  simp only [updState] at h ⊢
  split at h
  · cases h
  · simp only [Option.some.injEq] at h
    simp_all [rootState]


/-! ### updates keep the shape: which paths address critical / non-critical leaves -/

theorem updState_error_cases (f : Forest) (p : List Nat) :
    (updState f p .ERROR).2 = none ∨ (updState f p .ERROR).2 = some .ERROR := by
  generalize hs : TState.ERROR = s
  fun_induction updState f p s with
  | case1 => exact Or.inl rfl
  | case2 => exact Or.inl rfl
  | case3 c crit st su next s => cases crit <;> simp
  | case4 => exact Or.inl rfl
  | case5 c crit st su next i rest s r ih => exact ih hs
  | case6 st su kids next rest s r hnone ih => exact Or.inl rfl
  | case7 st su kids next rest s r v hsome st' ih =>
    right
    subst hs
    rcases ih rfl with h | h
    · rw [h] at hsome; cases hsome
    · rw [h] at hsome; cases hsome
      simp only [st']
      rw [mergeState_error]
  | case8 st su kids next i rest s r ih => exact ih hs

theorem critLeafAt_updState (f : Forest) (q : List Nat) (s : TState) :
    ∀ p, critLeafAt (updState f q s).1 p = critLeafAt f p := by
  fun_induction updState f q s with
  | case1 => intro p; rfl
  | case2 => intro p; rfl
  | case3 c crit st su next s => intro p; simp only [critLeafAt]
  | case4 => intro p; rfl
  | case5 c crit st su next i rest s r ih =>
    intro p
    match p with
    | [] => simp [critLeafAt]
    | [0] => simp [critLeafAt]
    | 0 :: _ :: _ => simp [critLeafAt]
    | (j + 1) :: rest' => simp only [critLeafAt]; exact ih (j :: rest')
  | case6 st su kids next rest s r hnone ih =>
    intro p
    match p with
    | [] => simp [critLeafAt]
    | 0 :: rest' => simp only [critLeafAt]; exact ih rest'
    | (j + 1) :: rest' => simp only [critLeafAt]
  | case7 st su kids next rest s r v hsome st' ih =>
    intro p
    match p with
    | [] => simp [critLeafAt]
    | 0 :: rest' => simp only [critLeafAt]; exact ih rest'
    | (j + 1) :: rest' => simp only [critLeafAt]
  | case8 st su kids next i rest s r ih =>
    intro p
    match p with
    | [] => simp [critLeafAt]
    | 0 :: rest' => simp only [critLeafAt]
    | (j + 1) :: rest' => simp only [critLeafAt]; exact ih (j :: rest')

theorem critLeafAt_updStatus (f : Forest) (q : List Nat) (s : TStatus) :
    ∀ p, critLeafAt (updStatus f q s).1 p = critLeafAt f p := by
  fun_induction updStatus f q s with
  | case1 => intro p; rfl
  | case2 => intro p; rfl
  | case3 c crit st su next s => intro p; simp only [critLeafAt]
  | case4 => intro p; rfl
  | case5 c crit st su next i rest s r ih =>
    intro p
    match p with
    | [] => simp [critLeafAt]
    | [0] => simp [critLeafAt]
    | 0 :: _ :: _ => simp [critLeafAt]
    | (j + 1) :: rest' => simp only [critLeafAt]; exact ih (j :: rest')
  | case6 st su kids next rest s r hnone ih =>
    intro p
    match p with
    | [] => simp [critLeafAt]
    | 0 :: rest' => simp only [critLeafAt]; exact ih rest'
    | (j + 1) :: rest' => simp only [critLeafAt]
  | case7 st su kids next rest s r v hsome su' ih =>
    intro p
    match p with
    | [] => simp [critLeafAt]
    | 0 :: rest' => simp only [critLeafAt]; exact ih rest'
    | (j + 1) :: rest' => simp only [critLeafAt]
  | case8 st su kids next i rest s r ih =>
    intro p
    match p with
    | [] => simp [critLeafAt]
    | 0 :: rest' => simp only [critLeafAt]
    | (j + 1) :: rest' => simp only [critLeafAt]; exact ih (j :: rest')

/-! ### what aggregation never reads -/

/-- Forget what state aggregation never reads: the state of non-critical leaves and every status. -/
def critView : Forest → Forest
  | .nil => .nil
  | .leaf c crit st _ next => .leaf c crit (if crit then st else .UNKNOWN) .UNDEFINED (critView next)
  | .agg st _ kids next => .agg st .UNDEFINED (critView kids) (critView next)

theorem aggStateFrom_view (acc : TState) (f g : Forest) (h : critView f = critView g) :
    aggStateFrom acc f = aggStateFrom acc g := by
  induction f generalizing acc g with
  | nil => cases g <;> simp [critView] at h; rfl
  | leaf c crit st su next ih =>
    cases g with
    | nil => simp [critView] at h
    | agg => simp [critView] at h
    | leaf c' crit' st' su' next' =>
      simp only [critView, Forest.leaf.injEq] at h
      obtain ⟨_, hc, hst, _, hn⟩ := h
      subst hc
      cases crit
      · simp only [aggStateFrom]; exact ih _ _ hn
      · simp at hst; subst hst
        simp only [aggStateFrom, if_true]; exact ih _ _ hn
  | agg st su kids next ihk ihn =>
    cases g with
    | nil => simp [critView] at h
    | leaf => simp [critView] at h
    | agg st' su' kids' next' =>
      simp only [critView, Forest.agg.injEq] at h
      obtain ⟨hst, _, _, hn⟩ := h
      subst hst
      simp only [aggStateFrom]; exact ihn _ _ hn

theorem mergeState_view (st v : TState) (f g : Forest) (h : critView f = critView g) :
    mergeState st v f = mergeState st v g := by
  unfold mergeState aggregateState
  rw [aggStateFrom_view _ f g h]

theorem updState_view (f : Forest) (p : List Nat) (s : TState) :
    ∀ g, critView f = critView g →
      (updState f p s).2 = (updState g p s).2 ∧ critView (updState f p s).1 = critView (updState g p s).1 := by
  fun_induction updState f p s with
  | case1 p s =>
    intro g h
    cases g <;> simp [critView] at h
    simp [updState, critView]
  | case2 f hf =>
    intro g h
    cases g <;> simp [updState, h]
  | case3 c crit st su next s =>
    intro g h
    cases g with
    | nil => simp [critView] at h
    | agg => simp [critView] at h
    | leaf c' crit' st' su' next' =>
      simp only [critView, Forest.leaf.injEq] at h
      obtain ⟨hc0, hc, hst, _, hn⟩ := h
      subst hc0 hc
      simp [updState, critView, hn]
  | case4 c crit st su next x y s =>
    intro g h
    cases g with
    | nil => simp [critView] at h
    | agg => simp [critView] at h
    | leaf c' crit' st' su' next' =>
      simp [updState, h]
  | case5 c crit st su next i rest s r ih =>
    intro g h
    cases g with
    | nil => simp [critView] at h
    | agg => simp [critView] at h
    | leaf c' crit' st' su' next' =>
      simp only [critView, Forest.leaf.injEq] at h
      obtain ⟨hc0, hc, hst, _, hn⟩ := h
      subst hc0 hc
      obtain ⟨h1, h2⟩ := ih next' hn
      have h2' : critView r.1 = critView (updState next' (i :: rest) s).1 := h2
      simp only [updState, critView]
      exact ⟨h1, by rw [h2', hst]⟩
  | case6 st su kids next rest s r hnone ih =>
    intro g h
    cases g with
    | nil => simp [critView] at h
    | leaf => simp [critView] at h
    | agg st' su' kids' next' =>
      simp only [critView, Forest.agg.injEq] at h
      obtain ⟨hst, _, hk, hn⟩ := h
      subst hst
      obtain ⟨h1, h2⟩ := ih kids' hk
      have : (updState kids' rest s).2 = none := by rw [← h1]; exact hnone
      have h2' : critView r.1 = critView (updState kids' rest s).1 := h2
      simp only [updState, this, critView]
      exact ⟨trivial, by rw [h2', hn]⟩
  | case7 st su kids next rest s r v hsome st' ih =>
    intro g h
    cases g with
    | nil => simp [critView] at h
    | leaf => simp [critView] at h
    | agg st2 su2 kids2 next2 =>
      simp only [critView, Forest.agg.injEq] at h
      obtain ⟨hst, _, hk, hn⟩ := h
      subst hst
      obtain ⟨h1, h2⟩ := ih kids2 hk
      have hs2 : (updState kids2 rest s).2 = some v := by rw [← h1]; exact hsome
      have h2' : critView r.1 = critView (updState kids2 rest s).1 := h2
      have hm : mergeState st v r.1 = mergeState st v (updState kids2 rest s).1 := mergeState_view _ _ _ _ h2'
      simp only [updState, hs2, critView, st']
      exact ⟨by rw [hm], by rw [h2', hn, hm]⟩
  | case8 st su kids next i rest s r ih =>
    intro g h
    cases g with
    | nil => simp [critView] at h
    | leaf => simp [critView] at h
    | agg st2 su2 kids2 next2 =>
      simp only [critView, Forest.agg.injEq] at h
      obtain ⟨hst, _, hk, hn⟩ := h
      subst hst
      obtain ⟨h1, h2⟩ := ih next2 hn
      have h2' : critView r.1 = critView (updState next2 (i :: rest) s).1 := h2
      simp only [updState, critView]
      exact ⟨h1, by rw [h2', hk]⟩


theorem critView_updStatus (f : Forest) (p : List Nat) (s : TStatus) :
    critView (updStatus f p s).1 = critView f := by
  fun_induction updStatus f p s with
  | case1 => rfl
  | case2 => rfl
  | case3 => simp [critView]
  | case4 => rfl
  | case5 c crit st su next i rest s r ih =>
    have ih' : critView r.1 = critView next := ih
    simp only [critView, ih']
  | case6 st su kids next rest s r hnone ih =>
    have ih' : critView r.1 = critView kids := ih
    simp only [critView, ih']
  | case7 st su kids next rest s r v hsome su' ih =>
    have ih' : critView r.1 = critView kids := ih
    simp only [critView, ih']
  | case8 st su kids next i rest s r ih =>
    have ih' : critView r.1 = critView next := ih
    simp only [critView, ih']

theorem critView_updState_plain (f : Forest) (p : List Nat) (s : TState) (h : plainLeafAt f p = true) :
    critView (updState f p s).1 = critView f := by
  fun_induction updState f p s with
  | case1 => rfl
  | case2 => rfl
  | case3 c crit st su next s => simp [plainLeafAt] at h; simp [critView, h]
  | case4 => rfl
  | case5 c crit st su next i rest s r ih =>
    simp only [plainLeafAt] at h
    have ih' : critView r.1 = critView next := ih h
    simp only [critView, ih']
  | case6 st su kids next rest s r hnone ih =>
    simp only [plainLeafAt] at h
    have ih' : critView r.1 = critView kids := ih h
    simp only [critView, ih']
  | case7 st su kids next rest s r v hsome st' ih =>
    simp only [plainLeafAt] at h
    have : r.2 = none := updState_plain_none kids rest s h
    rw [this] at hsome; cases hsome
  | case8 st su kids next i rest s r ih =>
    simp only [plainLeafAt] at h
    have ih' : critView r.1 = critView next := ih h
    simp only [critView, ih']

/-- The notifications a sequence of task-state updates sends towards the watcher. -/
def notifs : Forest → List (List Nat × TState) → List (Option TState)
  | _, [] => []
  | f, (p, v) :: us => (updState f p v).2 :: notifs (updState f p v).1 us

theorem notifs_view (f g : Forest) (us : List (List Nat × TState)) (h : critView f = critView g) :
    notifs f us = notifs g us := by
  induction us generalizing f g with
  | nil => rfl
  | cons u us ih =>
    obtain ⟨p, v⟩ := u
    obtain ⟨h1, h2⟩ := updState_view f p v g h
    simp only [notifs, h1]
    rw [ih _ _ h2]

/-! ### notify / setLeaf frame lemmas -/

theorem react_frame (c : Cfg) (s : Sys) (v : TState) :
    (react c s v).env = s.env ∧ (react c s v).f = s.f ∧ (react c s v).inflight = s.inflight ∧
    (react c s v).stopReq = s.stopReq ∧ (react c s v).hooks = s.hooks ∧ (react c s v).log = s.log ∧
    (react c s v).roleOnly = s.roleOnly ∧ (react c s v).updq = s.updq ∧ (react c s v).chan = s.chan ∧
    (react c s v).dropped = s.dropped := by
  unfold react
  simp only
  repeat' split
  all_goals simp

theorem react_weight (c : Cfg) (s : Sys) (v : TState) : (react c s v).w.weight ≤ 2 := by
  unfold react
  simp only
  repeat' split
  all_goals simp [Watch.weight]

theorem react_error (c : Cfg) (s : Sys) : (react c s .ERROR).w = .armed := by
  unfold react; simp

/-- The re-read: whatever stale value was received, a root in ERROR arms the watcher. -/
theorem react_reread (c : Cfg) (s : Sys) (v : TState) (hr : c.reread = true) (h : rootState s.f = .ERROR) :
    (react c s v).w = .armed := by
  unfold react
  cases v <;> simp [hr, h]

theorem notify_frame (c : Cfg) (s : Sys) (v : Option TState) (r : Bool) :
    (notify c s v r).env = s.env ∧ (notify c s v r).f = s.f ∧ (notify c s v r).inflight = s.inflight ∧
    (notify c s v r).stopReq = s.stopReq ∧ (notify c s v r).hooks = s.hooks ∧ (notify c s v r).log = s.log ∧
    (notify c s v r).roleOnly = s.roleOnly ∧ (notify c s v r).updq = s.updq := by
  cases v with
  | none => exact ⟨rfl, rfl, rfl, rfl, rfl, rfl, rfl, rfl⟩
  | some st =>
    unfold notify
    simp only
    cases hb : c.buffered
    · simp only [Bool.false_eq_true, if_false]
      cases hw : s.w with
      | parked =>
        simp only
        cases r
        · simp only [Bool.false_eq_true, if_false]; split <;> simp
        · simp only [if_true]
          obtain ⟨a, b, d, e, f, g, h, i, _, _⟩ := react_frame c s st
          exact ⟨a, b, d, e, f, g, h, i⟩
      | starting => simp
      | holding _ => simp
      | armed => simp
      | gone => simp
    · simp only [if_true]
      repeat' split
      all_goals simp

theorem notify_none (c : Cfg) (s : Sys) (r : Bool) : notify c s none r = s := by
  unfold notify; rfl

/-- Once the watcher has left its loop nothing is delivered, kept or counted. -/
theorem notify_left (c : Cfg) (s : Sys) (v : Option TState) (r : Bool) (h : s.w.inLoop = false) :
    notify c s v r = s := by
  unfold notify
  cases v with
  | none => rfl
  | some st =>
    simp only [h]
    cases hw : s.w <;> simp_all [Watch.inLoop]

theorem notify_w_not_parked (c : Cfg) (s : Sys) (v : Option TState) (r : Bool) (h : s.w ≠ .parked) :
    (notify c s v r).w = s.w := by
  cases v with
  | none => rfl
  | some st =>
    unfold notify
    simp only
    cases hb : c.buffered
    · simp only [Bool.false_eq_true, if_false]
    · simp only [if_true]
      repeat' split
      all_goals rfl

theorem notify_weight_le (c : Cfg) (s : Sys) (v : Option TState) (r : Bool) :
    (notify c s v r).w.weight ≤ s.w.weight := by
  unfold notify
  repeat' split
  all_goals first
    | exact Nat.le_refl _
    | (rename_i hw _; rw [hw]; exact react_weight c s _)

/-- Unbuffered channel, watcher at its receive: the ERROR arms it. -/
theorem notify_error_ready (c : Cfg) (s : Sys) (hb : c.buffered = false) (h : s.w = .parked) :
    (notify c s (some .ERROR) true).w = .armed := by
  unfold notify; simp only [hb, h]; exact react_error c s

/-- Unbuffered channel, watcher away from its receive: the ERROR is dropped. -/
theorem notify_error_busy (c : Cfg) (s : Sys) (hb : c.buffered = false) (h : s.w = .parked) :
    (notify c s (some .ERROR) false).w = .parked ∧ (notify c s (some .ERROR) false).dropped = s.dropped + 1 := by
  unfold notify; simp [hb, h]

/-- `s'` differs from `s`, as far as the watcher is concerned, at most by a value that was
    put into its EMPTY channel. -/
def Keeps (s s' : Sys) : Prop := s'.w = s.w ∧ (s.chan.isSome = true → s'.chan = s.chan)

theorem Keeps.refl (s : Sys) : Keeps s s := ⟨rfl, fun _ => rfl⟩

theorem Keeps.trans {a b d : Sys} (h1 : Keeps a b) (h2 : Keeps b d) : Keeps a d :=
  ⟨h2.1.trans h1.1, fun h => by
    have hb := h1.2 h
    rw [← hb]
    exact h2.2 (by rw [hb]; exact h)⟩

/-- Buffered channel: a send never moves the watcher and never replaces a waiting value. -/
theorem notify_keeps (c : Cfg) (s : Sys) (v : Option TState) (r : Bool) (hb : c.buffered = true) :
    Keeps s (notify c s v r) := by
  unfold notify Keeps
  simp only [hb]
  repeat' split
  all_goals simp_all

/-- Buffered channel, watcher in its loop with an empty channel: the value is kept. -/
theorem notify_kept (c : Cfg) (s : Sys) (st : TState) (r : Bool) (hb : c.buffered = true)
    (hw : s.w.inLoop = true) (hc : s.chan = none) : (notify c s (some st) r).chan = some st := by
  unfold notify; simp [hb, hw, hc]

theorem setLeaf_frame (c : Cfg) (s : Sys) (p : List Nat) (v : TState) (r : Bool) :
    (setLeaf c s p v r).env = s.env ∧ (setLeaf c s p v r).inflight = s.inflight ∧
    (setLeaf c s p v r).stopReq = s.stopReq ∧ (setLeaf c s p v r).hooks = s.hooks ∧ (setLeaf c s p v r).log = s.log ∧
    (setLeaf c s p v r).updq = s.updq := by
  unfold setLeaf
  simp only
  obtain ⟨h1, _, h3, h4, h5, h6, _, h8⟩ := notify_frame c { s with f := (updState s.f p v).1, roleOnly := s.roleOnly.filter (fun x => x.1 != p) } (updState s.f p v).2 r
  exact ⟨h1, h3, h4, h5, h6, h8⟩

theorem setLeaf_w_not_parked (c : Cfg) (s : Sys) (p : List Nat) (v : TState) (r : Bool) (h : s.w ≠ .parked) :
    (setLeaf c s p v r).w = s.w := by
  unfold setLeaf
  simp only
  exact notify_w_not_parked c { s with f := (updState s.f p v).1, roleOnly := s.roleOnly.filter (fun x => x.1 != p) } _ _ h

theorem setLeaf_left (c : Cfg) (s : Sys) (p : List Nat) (v : TState) (r : Bool) (h : s.w.inLoop = false) :
    (setLeaf c s p v r).w = s.w ∧ (setLeaf c s p v r).chan = s.chan := by
  unfold setLeaf
  simp only
  rw [notify_left c { s with f := (updState s.f p v).1, roleOnly := s.roleOnly.filter (fun x => x.1 != p) } _ _ h]
  exact ⟨rfl, rfl⟩

theorem setLeaf_weight_le (c : Cfg) (s : Sys) (p : List Nat) (v : TState) (r : Bool) :
    (setLeaf c s p v r).w.weight ≤ s.w.weight := by
  unfold setLeaf
  simp only
  exact notify_weight_le _ _ _ _

theorem setLeaf_keeps (c : Cfg) (s : Sys) (p : List Nat) (v : TState) (r : Bool) (hb : c.buffered = true) :
    Keeps s (setLeaf c s p v r) := by
  unfold setLeaf
  simp only
  exact notify_keeps c { s with f := (updState s.f p v).1, roleOnly := s.roleOnly.filter (fun x => x.1 != p) } _ _ hb

theorem setLeaves_frame (c : Cfg) (s : Sys) (ps : List (List Nat)) (v : TState) (r : Bool) :
    (setLeaves c s ps v r).env = s.env ∧ (setLeaves c s ps v r).inflight = s.inflight ∧
    (setLeaves c s ps v r).stopReq = s.stopReq ∧ (setLeaves c s ps v r).hooks = s.hooks ∧ (setLeaves c s ps v r).log = s.log ∧
    (setLeaves c s ps v r).updq = s.updq := by
  unfold setLeaves
  induction ps generalizing s with
  | nil => simp
  | cons p ps ih =>
    simp only [List.foldl_cons]
    obtain ⟨a1, a2, a3, a4, a5, a6⟩ := ih (setLeaf c s p v r)
    obtain ⟨b1, b2, b3, b4, b5, b6⟩ := setLeaf_frame c s p v r
    exact ⟨a1.trans b1, a2.trans b2, a3.trans b3, a4.trans b4, a5.trans b5, a6.trans b6⟩

theorem setLeaves_w_not_parked (c : Cfg) (s : Sys) (ps : List (List Nat)) (v : TState) (r : Bool) (h : s.w ≠ .parked) :
    (setLeaves c s ps v r).w = s.w := by
  unfold setLeaves
  induction ps generalizing s with
  | nil => rfl
  | cons p ps ih =>
    simp only [List.foldl_cons]
    have h1 := setLeaf_w_not_parked c s p v r h
    rw [ih (setLeaf c s p v r) (by rw [h1]; exact h), h1]

theorem setLeaves_left (c : Cfg) (s : Sys) (ps : List (List Nat)) (v : TState) (r : Bool) (h : s.w.inLoop = false) :
    (setLeaves c s ps v r).w = s.w ∧ (setLeaves c s ps v r).chan = s.chan := by
  unfold setLeaves
  induction ps generalizing s with
  | nil => exact ⟨rfl, rfl⟩
  | cons p ps ih =>
    simp only [List.foldl_cons]
    obtain ⟨h1, h2⟩ := setLeaf_left c s p v r h
    obtain ⟨h3, h4⟩ := ih (setLeaf c s p v r) (by rw [h1]; exact h)
    exact ⟨h3.trans h1, h4.trans h2⟩

theorem setLeaves_weight_le (c : Cfg) (s : Sys) (ps : List (List Nat)) (v : TState) (r : Bool) :
    (setLeaves c s ps v r).w.weight ≤ s.w.weight := by
  unfold setLeaves
  induction ps generalizing s with
  | nil => exact Nat.le_refl _
  | cons p ps ih =>
    simp only [List.foldl_cons]
    exact Nat.le_trans (ih (setLeaf c s p v r)) (setLeaf_weight_le c s p v r)

theorem setLeaves_keeps (c : Cfg) (s : Sys) (ps : List (List Nat)) (v : TState) (r : Bool) (hb : c.buffered = true) :
    Keeps s (setLeaves c s ps v r) := by
  unfold setLeaves
  induction ps generalizing s with
  | nil => exact Keeps.refl s
  | cons p ps ih =>
    simp only [List.foldl_cons]
    exact (setLeaf_keeps c s p v r hb).trans (ih (setLeaf c s p v r))

/-! ### the environment machine: ERROR is absorbing for everything but RECOVER -/

theorem try_from_error (hooks : List Hook) (env : Env) (e : Ev) (b r : Bool) (h : env.st = .ERROR) (he : e ≠ .RECOVER) :
    tryTransition env hooks e b r = (env, [], .illegal) := by
  unfold tryTransition fsmEvent
  have : dst? e env.st = none := by rw [h]; cases e <;> simp_all [dst?]
  rw [this]

theorem control_from_error (hooks : List Hook) (env : Env) (e : Ev) (b r : Bool) (h : env.st = .ERROR) (he : e ≠ .RECOVER) :
    (controlApi env hooks e b r).1.st = .ERROR := by
  rcases controlApi_cases hooks env e b r with ⟨_, heq⟩ | ⟨_, hst, _, _⟩ | ⟨_, _, hd, _, _⟩
  · rw [heq, try_from_error hooks env e b r h he]; exact h
  · exact hst
  · -- (the glue spares a DONE environment) the refused request left ERROR, not DONE
    simp [try_from_error hooks env e b r h he, h] at hd

/-- GO_ERROR through TryTransition: if it is accepted the state is ERROR. -/
theorem goError_ok_st (hooks : List Hook) (env : Env) (b r : Bool)
    (hok : (tryTransition env hooks .GO_ERROR b r).2.2.isOk = true) :
    (tryTransition env hooks .GO_ERROR b r).1.st = .ERROR := by
  unfold tryTransition at hok ⊢
  obtain ⟨_, hk | ⟨d, hd, hst, _⟩⟩ := fsmEvent_st env hooks .GO_ERROR b r
  · have := isOk_moved _ hok; rw [hk.2] at this; cases this
  · rw [hst]; exact goError_dst _ _ hd

/-! ### the internal steps -/

theorem timerStep_spec (c : Cfg) (s : Sys) :
    (timerStep c s).env.st = .ERROR ∧ (timerStep c s).w = .gone ∧ (timerStep c s).inflight = s.inflight ∧
    (timerStep c s).stopReq = s.stopReq ∧ (timerStep c s).updq = s.updq ∧ (timerStep c s).chan = s.chan := by
  unfold timerStep
  simp only
  refine ⟨?_, ?_, ?_, ?_, ?_, ?_⟩
  · rw [(setLeaves_frame _ _ _ _ _).1]
    simp only
    split
    · rename_i hok; exact goError_ok_st _ _ _ _ hok
    · split
      · rename_i h; exact h
      · rfl
  · rw [setLeaves_w_not_parked _ _ _ _ _ (by simp)]
  · rw [(setLeaves_frame _ _ _ _ _).2.1]
  · rw [(setLeaves_frame _ _ _ _ _).2.2.1]
  · rw [(setLeaves_frame _ _ _ _ _).2.2.2.2.2]
  · rw [(setLeaves_left _ _ _ _ _ (by simp [Watch.inLoop])).2]

theorem devStopStep_frame (c : Cfg) (s : Sys) (ok r : Bool) :
    (devStopStep c s ok r).env = (tryTransition s.env s.hooks .STOP_ACTIVITY ok false).1 ∧
    (devStopStep c s ok r).inflight = s.inflight ∧ (devStopStep c s ok r).stopReq = s.stopReq - 1 ∧
    (devStopStep c s ok r).w.weight ≤ s.w.weight ∧ (s.w ≠ .parked → (devStopStep c s ok r).w = s.w) ∧
    (devStopStep c s ok r).updq = s.updq := by
  unfold devStopStep
  simp only
  split
  · split
    · refine ⟨?_, ?_, ?_, ?_, ?_, ?_⟩
      · rw [(setLeaves_frame _ _ _ _ _).1]
      · rw [(setLeaves_frame _ _ _ _ _).2.1]
      · rw [(setLeaves_frame _ _ _ _ _).2.2.1]
      · exact setLeaves_weight_le _ _ _ _ _
      · intro h; exact setLeaves_w_not_parked _ _ _ _ _ h
      · rw [(setLeaves_frame _ _ _ _ _).2.2.2.2.2]
    · exact ⟨rfl, rfl, rfl, Nat.le_refl _, fun _ => rfl, rfl⟩
  · exact ⟨rfl, rfl, rfl, Nat.le_refl _, fun _ => rfl, rfl⟩

theorem devStopStep_keeps (c : Cfg) (s : Sys) (ok r : Bool) (hb : c.buffered = true) :
    Keeps s (devStopStep c s ok r) := by
  unfold devStopStep
  simp only
  split
  · split
    · exact setLeaves_keeps c _ _ _ _ hb
    · exact ⟨rfl, fun _ => rfl⟩
  · exact ⟨rfl, fun _ => rfl⟩

/-- What a failure does to the task's STATE does not depend on the task's criticality. -/
theorem effect_st_crit (c : Cfg) (k : Kind) (st : St) (a b : Bool) : (effect c k st a).st = (effect c k st b).st := by
  cases k <;> rfl

theorem drives_effect (c : Cfg) (k : Kind) (st : St) (h : k.drives c st = true) (crit : Bool) :
    (effect c k st crit).st = some .ERROR := by
  rw [effect_st_crit c k st crit false]
  simpa [Kind.drives] using h

/-- Only the TASK_INTERNAL_ERROR row depends on the configuration and on the task's criticality. -/
theorem effect_cfg_blind (c : Cfg) (k : Kind) (st : St) (crit : Bool) (h : k ≠ .INTERNAL) :
    effect c k st crit = effect codeCfg k st false := by
  cases k <;> first | rfl | exact absurd rfl h

/-- A leaf is not both critical and non-critical. -/
theorem plain_not_crit (f : Forest) (p : List Nat) (h : plainLeafAt f p = true) : critLeafAt f p = false := by
  fun_induction plainLeafAt f p with
  | case1 => rfl
  | case2 crit st su next c => simp only [critLeafAt]; simpa using h
  | case3 c crit st su next i rest ih => simp only [critLeafAt]; exact ih h
  | case4 => simp at h
  | case5 st su kids next rest ih => simp only [critLeafAt]; exact ih h
  | case6 st su kids next i rest ih => simp only [critLeafAt]; exact ih h
  | case7 => rfl

/-- The code as it is: every kind of failure but a process that ends with exit status 0 puts
    the task's role into ERROR, in every state of the environment. -/
theorem drives_code (k : Kind) (st : St) (h : k.exitZero = false) : k.drives codeCfg st = true := by
  cases k <;> simp [Kind.exitZero] at h <;> cases st <;> rfl

/-- The code as it is: no failure of a non-critical task requests a transition. -/
theorem quiet_code (k : Kind) (st : St) : k.quiet codeCfg st false = true := by
  cases k <;> cases st <;> rfl

/-- For every configuration: only TASK_INTERNAL_ERROR can request a transition. -/
theorem quiet_of_not_internal (c : Cfg) (k : Kind) (st : St) (crit : Bool) (h : k ≠ .INTERNAL) : k.quiet c st crit = true := by
  cases k <;> first | rfl | exact absurd rfl h

/-- What the fail step leaves alone. -/
theorem failOne_frame (c : Cfg) (k : Kind) (s : Sys) (p : List Nat) (r : Bool) :
    (failOne c k s p r).env = s.env ∧ (failOne c k s p r).inflight = s.inflight ∧ (failOne c k s p r).hooks = s.hooks ∧
    (failOne c k s p r).stopReq = s.stopReq + (if (effect c k s.env.st (critLeafAt s.f p)).stop then 1 else 0) ∧
    (failOne c k s p r).updq = s.updq := by
  unfold failOne
  simp only
  refine ⟨?_, ?_, ?_, ?_, ?_⟩
  · rw [(notify_frame _ _ _ _).1]
  · rw [(notify_frame _ _ _ _).2.2.1]
  · rw [(notify_frame _ _ _ _).2.2.2.2.1]
  · rw [(notify_frame _ _ _ _).2.2.2.1]
  · rw [(notify_frame _ _ _ _).2.2.2.2.2.2.2]

theorem failOne_weight_le (c : Cfg) (k : Kind) (s : Sys) (p : List Nat) (r : Bool) :
    (failOne c k s p r).w.weight ≤ s.w.weight := by
  unfold failOne
  simp only
  exact notify_weight_le _ _ _ _

theorem failOne_keeps (c : Cfg) (k : Kind) (s : Sys) (p : List Nat) (r : Bool) (hb : c.buffered = true) :
    Keeps s (failOne c k s p r) := by
  unfold failOne
  simp only
  exact notify_keeps c _ _ _ hb

/-- The fail step keeps the shape of the tree. -/
theorem failOne_critLeafAt (c : Cfg) (k : Kind) (s : Sys) (q : List Nat) (r : Bool) :
    ∀ p, critLeafAt (failOne c k s q r).f p = critLeafAt s.f p := by
  intro p
  unfold failOne
  simp only
  rw [(notify_frame _ _ _ _).2.1]
  simp only
  cases (effect c k s.env.st (critLeafAt s.f q)).st <;> cases (effect c k s.env.st (critLeafAt s.f q)).su <;>
    simp only [critLeafAt_updStatus, critLeafAt_updState]

/-- Unbuffered channel: where the watcher can be after one fail step of a kind that reports ERROR. -/
theorem failOne_w (c : Cfg) (k : Kind) (s : Sys) (q : List Nat) (r : Bool) (hb : c.buffered = false)
    (hk : k.drives c s.env.st = true) :
    (s.w ≠ .parked → (failOne c k s q r).w = s.w) ∧
    (s.w = .parked → (failOne c k s q r).w = .parked ∨ (failOne c k s q r).w = .armed) := by
  have he := drives_effect c k s.env.st hk
  unfold failOne
  simp only [he]
  refine ⟨fun h => ?_, fun h => ?_⟩
  · refine notify_w_not_parked _ _ _ _ ?_; exact h
  rcases updState_error_cases s.f q with hn | hn
  · rw [hn, notify_none]; exact Or.inl h
  · rw [hn]
    cases r
    · left; refine (notify_error_busy _ _ hb ?_).1; exact h
    · right; refine notify_error_ready _ _ hb ?_; exact h

/-- Buffered channel: the failure of a critical task puts ERROR into the watcher's empty channel. -/
theorem failOne_kept (c : Cfg) (k : Kind) (s : Sys) (p : List Nat) (r : Bool) (hb : c.buffered = true)
    (hk : k.drives c s.env.st = true) (hw : s.w.inLoop = true) (hc : s.chan = none) (hcrit : critLeafAt s.f p = true) :
    (failOne c k s p r).chan = some .ERROR := by
  have he := drives_effect c k s.env.st hk
  unfold failOne
  simp only [he, updState_crit_error s.f p hcrit]
  exact notify_kept c _ _ _ hb hw hc

/-- Buffered channel: whatever task fails (kind reporting ERROR), the channel stays as it is or
    gets an ERROR. -/
theorem failOne_chan (c : Cfg) (k : Kind) (s : Sys) (p : List Nat) (r : Bool) (hb : c.buffered = true)
    (hk : k.drives c s.env.st = true) :
    (failOne c k s p r).chan = s.chan ∨ (failOne c k s p r).chan = some .ERROR := by
  have he := drives_effect c k s.env.st hk
  unfold failOne
  simp only [he]
  rcases updState_error_cases s.f p with hn | hn
  · rw [hn, notify_none]; exact Or.inl rfl
  · rw [hn]
    unfold notify
    simp only [hb]
    repeat' split
    all_goals simp_all

end Failure
