/-
  Proofs/FailureRoster — lemmas behind the roster theorems of Props/C03 (core only).
  The one that matters: `hitAll_env` — whatever else the snapshot of a lost agent / executor
  holds, in whatever positions, what the walk of the code does to environment `e` IS
  `Failure.fail` on `e`'s own victims (`victimsFor e`), and `wrun_env` — a run of the world
  projects to a run of each environment.
-/
import ControlModel.Model.FailureRoster
import ControlModel.Proofs.Failure

namespace Failure
open RoleTree EnvM

/-! ### the per-task body touches at most one environment -/

theorem hit_envs_length (c : Cfg) (k : Kind) (W : World) (i : Nat) (t : RTask) (r : Bool) :
    (hit c k W i t r).envs.length = W.envs.length := by
  unfold hit
  cases t.owner with
  | none => simp only; split <;> rfl
  | some e => simp only; split <;> simp

/-- An entry that is not `e`'s (another environment's, or nobody's) leaves `e` alone. -/
theorem hit_env_other (c : Cfg) (k : Kind) (W : World) (i : Nat) (t : RTask) (r : Bool) (e : Nat)
    (h : t.owner ≠ some e) : (hit c k W i t r).envs[e]? = W.envs[e]? := by
  unfold hit
  cases ho : t.owner with
  | none => simp only; split <;> rfl
  | some e' =>
    have hne : e' ≠ e := fun heq => h (by rw [ho, heq])
    simp only
    split
    · simp [List.getElem?_set_ne hne]
    · rfl

/-- An entry of `e` is `failOne` on `e`. -/
theorem hit_env_own (c : Cfg) (k : Kind) (W : World) (i : Nat) (t : RTask) (r : Bool) (e : Nat)
    (h : t.owner = some e) : (hit c k W i t r).envs[e]? = (W.envs[e]?).map (fun s => failOne c k s t.path r) := by
  unfold hit
  simp only [h]
  cases hs : W.envs[e]? with
  | none => simp [hs]
  | some s =>
    have hlt : e < W.envs.length := by
      rcases Nat.lt_or_ge e W.envs.length with h1 | h1
      · exact h1
      · rw [List.getElem?_eq_none h1] at hs; cases hs
    simp [List.getElem?_set_self hlt]

/-- An entry without a parent changes no environment at all. -/
theorem hit_loose_envs (c : Cfg) (k : Kind) (W : World) (i : Nat) (t : RTask) (r : Bool)
    (h : t.owner = none) : (hit c k W i t r).envs = W.envs := by
  unfold hit
  simp only [h]
  split <;> rfl

/-- **The walk of the code, seen from one environment, is `fail` on that environment's own
    victims** — for every snapshot: entries of other environments and entries without a parent
    in ANY position (before, between, after `e`'s) are invisible to `e`. -/
theorem hitAll_env (c : Cfg) (k : Kind) (e : Nat) (ts : List (Nat × RTask × Bool)) :
    ∀ W : World, (hitAll codeWalk c k W ts).envs[e]? = (W.envs[e]?).map (fun s => fail c k s (victimsFor e ts)) := by
  induction ts with
  | nil => intro W; simp [hitAll, victimsFor, fail]
  | cons x ts ih =>
    intro W
    obtain ⟨i, t, r⟩ := x
    have hstep : hitAll codeWalk c k W ((i, t, r) :: ts) = hitAll codeWalk c k (hit c k W i t r) ts := rfl
    rw [hstep, ih]
    by_cases h : t.owner = some e
    · rw [hit_env_own c k W i t r e h]
      simp only [victimsFor, h, if_true, fail]
      cases W.envs[e]? <;> rfl
    · rw [hit_env_other c k W i t r e h]
      simp only [victimsFor, h, if_false]

theorem hitAll_envs_length (wk : Walk) (c : Cfg) (k : Kind) (ts : List (Nat × RTask × Bool)) :
    ∀ W : World, (hitAll wk c k W ts).envs.length = W.envs.length := by
  induction ts with
  | nil => intro W; rfl
  | cons x ts ih =>
    intro W
    obtain ⟨i, t, r⟩ := x
    simp only [hitAll]
    split
    · exact hit_envs_length c k W i t r
    · rw [ih]; exact hit_envs_length c k W i t r

/-- Whatever the walk (also one that stops early): an environment none of whose tasks is in the
    snapshot is not touched. -/
theorem hitAll_env_untouched (wk : Walk) (c : Cfg) (k : Kind) (e : Nat) (ts : List (Nat × RTask × Bool))
    (h : ∀ x ∈ ts, x.2.1.owner ≠ some e) :
    ∀ W : World, (hitAll wk c k W ts).envs[e]? = W.envs[e]? := by
  induction ts with
  | nil => intro W; rfl
  | cons x ts ih =>
    intro W
    obtain ⟨i, t, r⟩ := x
    have h1 : t.owner ≠ some e := h (i, t, r) (List.mem_cons_self ..)
    simp only [hitAll]
    split
    · exact hit_env_other c k W i t r e h1
    · rw [ih (fun y hy => h y (List.mem_cons_of_mem _ hy))]
      exact hit_env_other c k W i t r e h1

/-- Entries that are not `e`'s do not show in `e`'s victim list, wherever they stand. -/
theorem victimsFor_append (e : Nat) (a b : List (Nat × RTask × Bool)) :
    victimsFor e (a ++ b) = victimsFor e a ++ victimsFor e b := by
  induction a with
  | nil => rfl
  | cons x a ih =>
    obtain ⟨i, t, r⟩ := x
    simp only [List.cons_append, victimsFor]
    split
    · simp [ih]
    · exact ih

theorem victimsFor_foreign (e : Nat) (b : List (Nat × RTask × Bool)) (h : ∀ x ∈ b, x.2.1.owner ≠ some e) :
    victimsFor e b = [] := by
  induction b with
  | nil => rfl
  | cons x b ih =>
    obtain ⟨i, t, r⟩ := x
    have h1 : t.owner ≠ some e := h (i, t, r) (List.mem_cons_self ..)
    simp only [victimsFor, h1, if_false]
    exact ih (fun y hy => h y (List.mem_cons_of_mem _ hy))

theorem victimsFor_mem (e : Nat) (ts : List (Nat × RTask × Bool)) (i : Nat) (t : RTask) (r : Bool)
    (hm : (i, t, r) ∈ ts) (ho : t.owner = some e) : (t.path, r) ∈ victimsFor e ts := by
  induction ts with
  | nil => cases hm
  | cons x ts ih =>
    obtain ⟨i', t', r'⟩ := x
    simp only [victimsFor]
    rcases List.mem_cons.mp hm with heq | hin
    · cases heq
      simp [ho]
    · split
      · exact List.mem_cons_of_mem _ (ih hin)
      · exact ih hin

theorem victimsFor_mem_inv (e : Nat) (ts : List (Nat × RTask × Bool)) (p : List Nat) (r : Bool)
    (hm : (p, r) ∈ victimsFor e ts) : ∃ i t, (i, t, r) ∈ ts ∧ t.owner = some e ∧ t.path = p := by
  induction ts with
  | nil => cases hm
  | cons x ts ih =>
    obtain ⟨i', t', r'⟩ := x
    simp only [victimsFor] at hm
    split at hm
    · rcases List.mem_cons.mp hm with heq | hin
      · cases heq
        exact ⟨i', t', List.mem_cons_self .., by assumption, rfl⟩
      · obtain ⟨i, t, h1, h2, h3⟩ := ih hin
        exact ⟨i, t, List.mem_cons_of_mem _ h1, h2, h3⟩
    · obtain ⟨i, t, h1, h2, h3⟩ := ih hm
      exact ⟨i, t, List.mem_cons_of_mem _ h1, h2, h3⟩

theorem victimsFor_length_le (e : Nat) (ts : List (Nat × RTask × Bool)) : (victimsFor e ts).length ≤ ts.length := by
  induction ts with
  | nil => exact Nat.le_refl _
  | cons x ts ih =>
    obtain ⟨i, t, r⟩ := x
    simp only [victimsFor]
    split
    · simp only [List.length_cons]; omega
    · simp only [List.length_cons]; omega

/-! ### a run of the world is a run of each environment -/

theorem wstep_env_other (c : Cfg) (W : World) (e' : Nat) (l : Label) (e : Nat) (h : e' ≠ e) :
    (wstep c W (e', l)).envs[e]? = W.envs[e]? := by
  unfold wstep
  simp only
  split
  · simp [List.getElem?_set_ne h]
  · rfl

theorem wstep_env_own (c : Cfg) (W : World) (e : Nat) (l : Label) :
    (wstep c W (e, l)).envs[e]? = (W.envs[e]?).map (fun s => istep c s l) := by
  unfold wstep
  simp only
  cases hs : W.envs[e]? with
  | none => simp [hs]
  | some s =>
    have hlt : e < W.envs.length := by
      rcases Nat.lt_or_ge e W.envs.length with h1 | h1
      · exact h1
      · rw [List.getElem?_eq_none h1] at hs; cases hs
    simp [List.getElem?_set_self hlt]

theorem wrun_env (c : Cfg) (e : Nat) (ls : List (Nat × Label)) :
    ∀ W : World, (wrun c W ls).envs[e]? = (W.envs[e]?).map (fun s => irun c s (labelsOf e ls)) := by
  induction ls with
  | nil => intro W; simp [wrun, labelsOf, irun]
  | cons x ls ih =>
    intro W
    obtain ⟨e', l⟩ := x
    have hr : wrun c W ((e', l) :: ls) = wrun c (wstep c W (e', l)) ls := rfl
    rw [hr, ih]
    by_cases h : e' = e
    · subst h
      rw [wstep_env_own]
      simp only [labelsOf, if_true]
      cases W.envs[e']? <;> rfl
    · rw [wstep_env_other c W e' l e h]
      simp only [labelsOf, h, if_false]

theorem wvalid_env (c : Cfg) (e : Nat) (ls : List (Nat × Label)) :
    ∀ (W : World) (s : Sys), W.envs[e]? = some s → wvalid c W ls = true → validRun c s (labelsOf e ls) = true := by
  induction ls with
  | nil => intro W s _ _; rfl
  | cons x ls ih =>
    intro W s hs hv
    obtain ⟨e', l⟩ := x
    simp only [wvalid, Bool.and_eq_true] at hv
    by_cases h : e' = e
    · subst h
      simp only [labelsOf, if_true, validRun, Bool.and_eq_true]
      have hen : enabled s l = true := by
        have := hv.1
        simpa [wenabled, hs] using this
      refine ⟨hen, ih (wstep c W (e', l)) (istep c s l) ?_ hv.2⟩
      rw [wstep_env_own, hs]; rfl
    · simp only [labelsOf, h, if_false]
      exact ih (wstep c W (e', l)) s (by rw [wstep_env_other c W e' l e h]; exact hs) hv.2

theorem wquiescent_env (W : World) (e : Nat) (s : Sys) (hs : W.envs[e]? = some s) (hq : wquiescent W = true) :
    quiescent s = true := by
  unfold wquiescent at hq
  rw [List.all_eq_true] at hq
  exact hq s (List.mem_of_getElem? hs)

/-- Lift a run of environment `e` to the world. -/
theorem wvalid_lift (c : Cfg) (e : Nat) (ls : List Label) :
    ∀ (W : World) (s : Sys), W.envs[e]? = some s → validRun c s ls = true →
      wvalid c W (ls.map (fun l => (e, l))) = true ∧ labelsOf e (ls.map (fun l => (e, l))) = ls := by
  induction ls with
  | nil => intro W s _ _; exact ⟨rfl, rfl⟩
  | cons l ls ih =>
    intro W s hs hv
    simp only [validRun, Bool.and_eq_true] at hv
    have h2 := ih (wstep c W (e, l)) (istep c s l) (by rw [wstep_env_own, hs]; rfl) hv.2
    refine ⟨?_, ?_⟩
    · simp only [List.map_cons, wvalid, Bool.and_eq_true]
      exact ⟨by simpa [wenabled, hs] using hv.1, h2.1⟩
    · simp only [List.map_cons, labelsOf, if_true]
      rw [h2.2]

/-! ### several non-critical victims of one environment -/

theorem plainLeafAt_updState (f : Forest) (q : List Nat) (s : TState) :
    ∀ p, plainLeafAt (updState f q s).1 p = plainLeafAt f p := by
  fun_induction updState f q s with
  | case1 => intro p; rfl
  | case2 => intro p; rfl
  | case3 c crit st su next s => intro p; simp only [plainLeafAt]
  | case4 => intro p; rfl
  | case5 c crit st su next i rest s r ih =>
    intro p
    match p with
    | [] => simp [plainLeafAt]
    | [0] => simp [plainLeafAt]
    | 0 :: _ :: _ => simp [plainLeafAt]
    | (j + 1) :: rest' => simp only [plainLeafAt]; exact ih (j :: rest')
  | case6 st su kids next rest s r hnone ih =>
    intro p
    match p with
    | [] => simp [plainLeafAt]
    | 0 :: rest' => simp only [plainLeafAt]; exact ih rest'
    | (j + 1) :: rest' => simp only [plainLeafAt]
  | case7 st su kids next rest s r v hsome st' ih =>
    intro p
    match p with
    | [] => simp [plainLeafAt]
    | 0 :: rest' => simp only [plainLeafAt]; exact ih rest'
    | (j + 1) :: rest' => simp only [plainLeafAt]
  | case8 st su kids next i rest s r ih =>
    intro p
    match p with
    | [] => simp [plainLeafAt]
    | 0 :: rest' => simp only [plainLeafAt]
    | (j + 1) :: rest' => simp only [plainLeafAt]; exact ih (j :: rest')

theorem plainLeafAt_updStatus (f : Forest) (q : List Nat) (s : TStatus) :
    ∀ p, plainLeafAt (updStatus f q s).1 p = plainLeafAt f p := by
  fun_induction updStatus f q s with
  | case1 => intro p; rfl
  | case2 => intro p; rfl
  | case3 c crit st su next s => intro p; simp only [plainLeafAt]
  | case4 => intro p; rfl
  | case5 c crit st su next i rest s r ih =>
    intro p
    match p with
    | [] => simp [plainLeafAt]
    | [0] => simp [plainLeafAt]
    | 0 :: _ :: _ => simp [plainLeafAt]
    | (j + 1) :: rest' => simp only [plainLeafAt]; exact ih (j :: rest')
  | case6 st su kids next rest s r hnone ih =>
    intro p
    match p with
    | [] => simp [plainLeafAt]
    | 0 :: rest' => simp only [plainLeafAt]; exact ih rest'
    | (j + 1) :: rest' => simp only [plainLeafAt]
  | case7 st su kids next rest s r v hsome su' ih =>
    intro p
    match p with
    | [] => simp [plainLeafAt]
    | 0 :: rest' => simp only [plainLeafAt]; exact ih rest'
    | (j + 1) :: rest' => simp only [plainLeafAt]
  | case8 st su kids next i rest s r ih =>
    intro p
    match p with
    | [] => simp [plainLeafAt]
    | 0 :: rest' => simp only [plainLeafAt]
    | (j + 1) :: rest' => simp only [plainLeafAt]; exact ih (j :: rest')

theorem failOne_plainLeafAt (c : Cfg) (k : Kind) (s : Sys) (q : List Nat) (r : Bool) :
    ∀ p, plainLeafAt (failOne c k s q r).f p = plainLeafAt s.f p := by
  intro p
  unfold failOne
  simp only
  rw [(notify_frame _ _ _ _).2.1]
  simp only
  cases (effect c k s.env.st (critLeafAt s.f q)).st <;> cases (effect c k s.env.st (critLeafAt s.f q)).su <;>
    simp only [plainLeafAt_updStatus, plainLeafAt_updState]

/-! ### the `environmentId` label of a message about a task -/

theorem failOne_eq_applyEffect (c : Cfg) (k : Kind) (s : Sys) (p : List Nat) (r : Bool) :
    failOne c k s p r = applyEffect c (effect c k s.env.st (critLeafAt s.f p)) s p r := rfl

theorem hitLoose_internal (t : RTask) : t.hitLoose .INTERNAL = t := by
  cases t; rfl

/-- A device event about a task without a parent role: no environment is found, nothing happens. -/
theorem hit_internal_loose (c : Cfg) (W : World) (i : Nat) (t : RTask) (r : Bool) (h : t.owner = none) :
    hit c .INTERNAL W i t r = W := by
  unfold hit
  simp only [h]
  cases hr : W.roster[i]? with
  | none => rfl
  | some t' =>
    have hlt : i < W.roster.length := by
      rcases Nat.lt_or_ge i W.roster.length with h1 | h1
      · exact h1
      · rw [List.getElem?_eq_none h1] at hr; cases hr
    have ht : W.roster[i] = t' := by
      rw [List.getElem?_eq_getElem hlt] at hr; exact Option.some.inj hr
    simp only [hitLoose_internal]
    cases W with
    | mk envs roster =>
      simp only at hlt ht ⊢
      congr 1
      rw [← ht]; exact List.set_getElem_self hlt

/-- **The label is irrelevant for a core that resolves the environment through the task**: the
    labelled per-task body IS `hit`, whatever the label names. -/
theorem hitTagged_byTask (c : Cfg) (hc : c.envByTask = true) (k : Kind) (W : World) (i : Nat) (t : RTask) (r : Bool)
    (lab : Option Nat) : hitTagged c k W i t r lab = hit c k W i t r := by
  unfold hitTagged resolveEnv
  cases k <;> try rfl
  simp only [hc, if_true]
  cases ho : t.owner with
  | none => exact (hit_internal_loose c W i t r ho).symm
  | some o => simp

/-- A label that names the task's own environment (the ordinary case: the task runs in the
    environment it was launched for) gives `hit` under EITHER way of resolving. -/
theorem hitTagged_own (c : Cfg) (k : Kind) (W : World) (i : Nat) (t : RTask) (r : Bool) :
    hitTagged c k W i t r t.owner = hit c k W i t r := by
  unfold hitTagged resolveEnv
  cases k <;> try rfl
  simp only [ite_self]
  cases ho : t.owner with
  | none => exact (hit_internal_loose c W i t r ho).symm
  | some o => simp

theorem hitAllTagged_byTask (wk : Walk) (c : Cfg) (hc : c.envByTask = true) (k : Kind)
    (ts : List (Nat × RTask × Bool × Option Nat)) :
    ∀ W : World, hitAllTagged wk c k W ts = hitAll wk c k W (untag ts) := by
  induction ts with
  | nil => intro W; rfl
  | cons x ts ih =>
    intro W
    obtain ⟨i, t, r, lab⟩ := x
    simp only [hitAllTagged, untag, List.map_cons, hitAll, hitTagged_byTask c hc]
    split
    · rfl
    · exact ih _

theorem hitAllTagged_own (wk : Walk) (c : Cfg) (k : Kind) (ts : List (Nat × RTask × Bool × Option Nat))
    (h : ∀ x ∈ ts, x.2.2.2 = x.2.1.owner) :
    ∀ W : World, hitAllTagged wk c k W ts = hitAll wk c k W (untag ts) := by
  induction ts with
  | nil => intro W; rfl
  | cons x ts ih =>
    intro W
    obtain ⟨i, t, r, lab⟩ := x
    have hl : lab = t.owner := h (i, t, r, lab) (List.mem_cons_self ..)
    subst hl
    simp only [hitAllTagged, untag, List.map_cons, hitAll, hitTagged_own]
    split
    · rfl
    · exact ih (fun y hy => h y (List.mem_cons_of_mem _ hy)) _

theorem untag_length (ts : List (Nat × RTask × Bool × Option Nat)) : (untag ts).length = ts.length := by
  simp [untag]

theorem untag_mem (ts : List (Nat × RTask × Bool × Option Nat)) (i : Nat) (t : RTask) (r : Bool) (lab : Option Nat)
    (h : (i, t, r, lab) ∈ ts) : (i, t, r) ∈ untag ts :=
  List.mem_map.mpr ⟨(i, t, r, lab), h, rfl⟩

end Failure
