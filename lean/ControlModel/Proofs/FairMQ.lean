/-
  Proofs/FairMQ — lemmas behind Props/C16: the script interpreter `run` only ever produces one of the
  runs enumerated by `runs`, so a Bool predicate checked on the complete enumeration holds for EVERY
  script (of any length, over the whole outcome alphabet).
-/
import ControlModel.Spec.C16

namespace FairMQ

variable {σ ε : Type} [DecidableEq σ]

theorem Outcome.mem_all (o : Outcome) : o ∈ Outcome.all := by cases o <;> decide

/-- Whatever the script, the run it produces is in the enumeration. -/
theorem run_mem_runs (D : Dev σ ε) (strict : Bool) (p : Prog σ ε) :
    ∀ (dev : σ) (script : List Outcome), p.run D strict dev script ∈ p.runs D strict dev := by
  induction p with
  | ret st e => intro dev script; simp [Prog.run, Prog.runs]
  | ask a k ih =>
    intro dev script
    simp only [Prog.run, Prog.runs, List.mem_flatMap, List.mem_map]
    exact ⟨script.head?.getD .refused, Outcome.mem_all _, _, ih _ _ _, rfl⟩

/-- Transfer: a predicate that holds on the whole enumeration holds for every script. -/
theorem all_runs (D : Dev σ ε) (strict : Bool) (p : Prog σ ε) (dev : σ) (P : Run σ ε → Bool)
    (h : (p.runs D strict dev).all P = true) (script : List Outcome) :
    P (p.run D strict dev script) = true :=
  List.all_eq_true.mp h _ (run_mem_runs D strict p dev script)

/-- The same for the two transitioners in the setting of the property. -/
theorem all_runsFMQ (cfg : Cfg) (strict : Bool) (evt : O2Event) (src : O2State) (P : Run FState FEvent → Bool)
    (h : (runsFMQ cfg strict evt src).all P = true) (script : List Outcome) :
    P (runFMQ cfg strict evt src script) = true :=
  all_runs fmqDev strict _ _ P h script

theorem all_runsDirect (strict : Bool) (evt : O2Event) (src : O2State) (P : Run O2State O2Event → Bool)
    (h : (runsDirect strict evt src).all P = true) (script : List Outcome) :
    P (runDirect strict evt src script) = true :=
  all_runs directDev strict _ _ P h script

end FairMQ
