/-
  Proofs/Load — lemmas about the workflow-loading model (C15). Core only.
-/
import ControlModel.Model.Load
import ControlModel.Spec.C15

namespace Load

variable {cfg : Cfg}

/-! ## sibling lists form a monoid -/

@[simp] theorem Tree.append_def (a b : Tree) : Tree.append a b = a ++ b := rfl

@[simp] theorem Tree.nil_append (b : Tree) : (Tree.nil ++ b) = b := rfl

@[simp] theorem Tree.agg_append (i k n b) : (Tree.agg i k n ++ b) = Tree.agg i k (n ++ b) := rfl
@[simp] theorem Tree.task_append (i x c n b) : (Tree.task i x c n ++ b) = Tree.task i x c (n ++ b) := rfl
@[simp] theorem Tree.call_append (i x c n b) : (Tree.call i x c n ++ b) = Tree.call i x c (n ++ b) := rfl
@[simp] theorem Tree.iter_append (k n b) : (Tree.iter k n ++ b) = Tree.iter k (n ++ b) := rfl

@[simp] theorem Tree.append_nil (a : Tree) : a ++ Tree.nil = a := by
  induction a with
  | nil => rfl
  | agg i k n _ ihn => simp [ihn]
  | task i x c n ihn => simp [ihn]
  | call i x c n ihn => simp [ihn]
  | iter k n _ ihn => simp [ihn]

theorem Tree.append_assoc (a b c : Tree) : (a ++ b) ++ c = a ++ (b ++ c) := by
  induction a with
  | nil => rfl
  | agg i k n _ ihn => simp [ihn]
  | task i x cc n ihn => simp [ihn]
  | call i x cc n ihn => simp [ihn]
  | iter k n _ ihn => simp [ihn]

theorem Tree.append_eq_nil {a b : Tree} (h : a ++ b = Tree.nil) : a = .nil ∧ b = .nil := by
  cases a <;> simp_all

@[simp] theorem Events.or_empty (a : Events) : a.or {} = a := by
  cases a; simp [Events.or]

@[simp] theorem Events.empty_or (a : Events) : Events.or {} a = a := by
  cases a; simp [Events.or]

theorem Events.or_assoc (a b c : Events) : (a.or b).or c = a.or (b.or c) := by
  cases a; cases b; cases c; simp [Events.or, Bool.or_assoc]

@[simp] theorem Out.seq_empty (a : Out) : a.seq Out.empty = a := by
  cases a; simp [Out.seq, Out.empty]

@[simp] theorem Out.empty_seq (a : Out) : Out.empty.seq a = a := by
  cases a; simp [Out.seq, Out.empty]

theorem Out.seq_assoc (a b c : Out) : (a.seq b).seq c = a.seq (b.seq c) := by
  cases a; cases b; cases c
  simp [Out.seq, Bool.or_assoc, Tree.append_assoc, Events.or_assoc]

@[simp] theorem maskedOut_f : (maskedOut cfg).f = .nil := by
  unfold maskedOut; split <;> rfl

@[simp] theorem maskedOut_err : (maskedOut cfg).err = !cfg.maskEnabledError := by
  unfold maskedOut; cases cfg.maskEnabledError <;> rfl

@[simp] theorem maskedOut_iterDrop : (maskedOut cfg).ev.iterDrop = false := by
  unfold maskedOut; split <;> rfl

@[simp] theorem maskedOut_hollow : (maskedOut cfg).ev.hollow = false := by
  unfold maskedOut; split <;> rfl

theorem maskedOut_legacy (h : cfg.maskEnabledError = true) : maskedOut cfg = ⟨false, .nil, { masked := true }⟩ := by
  simp [maskedOut, h]

theorem maskedOut_code (h : cfg.maskEnabledError = false) : maskedOut cfg = ⟨true, .nil, {}⟩ := by
  simp [maskedOut, h]

@[simp] theorem Out.seq_err (a b : Out) : (a.seq b).err = (a.err || b.err) := rfl
@[simp] theorem Out.seq_f (a b : Out) : (a.seq b).f = a.f ++ b.f := rfl
@[simp] theorem Out.seq_ev (a b : Out) : (a.seq b).ev = a.ev.or b.ev := rfl

/-! ## siblings are processed independently of each other -/

theorem proc_take_drop (ctx : Ctx) (loc : Env) (k : Nat) (t : Tmpl) :
    (proc cfg ctx loc (t.take k)).seq (proc cfg ctx loc (t.drop k)) = proc cfg ctx loc t := by
  induction k generalizing t with
  | zero => simp [Tmpl.take, Tmpl.drop, proc]
  | succ n ih =>
    cases t with
    | nil => simp [Tmpl.take, Tmpl.drop, proc]
    | agg h kids nx => simp only [Tmpl.take, Tmpl.drop, proc]; rw [Out.seq_assoc, ih]
    | task h x c nx => simp only [Tmpl.take, Tmpl.drop, proc]; rw [Out.seq_assoc, ih]
    | call h x c nx => simp only [Tmpl.take, Tmpl.drop, proc]; rw [Out.seq_assoc, ih]
    | iter r v b nx => simp only [Tmpl.take, Tmpl.drop, proc]; rw [Out.seq_assoc, ih]
    | incl h i d nx => simp only [Tmpl.take, Tmpl.drop, proc]; rw [Out.seq_assoc, ih]
    | doc f h kids nx => simp only [Tmpl.take, Tmpl.drop, proc]; rw [Out.seq_assoc, ih]

/-! ## the small-step machine -/

theorem finish_expandPend (ctx : Ctx) (var : String) (body : Tmpl) (vals : List String) :
    finish cfg (expandPend ctx var body vals) =
      vals.foldr (fun v acc => (proc cfg ctx [(var, v)] body).seq acc) Out.empty := by
  induction vals with
  | nil => rfl
  | cons v vs ih => simp [expandPend, finish, ih]

@[simp] theorem aggOut_err (i : Info) (k : Out) : (aggOut i k).err = k.err := by
  unfold aggOut; split <;> rfl

@[simp] theorem iterOut_err (raw : Bool) (k : Out) : (iterOut cfg raw k).err = k.err := by
  unfold iterOut; split <;> rfl

/-- Running one goroutine early gives what running it at the end gives. -/
theorem finish_fire (ctx : Ctx) (loc : Env) (next : PT) (t : Tmpl) :
    finish cfg (fire cfg ctx loc next t) = (proc cfg ctx loc t).seq (finish cfg next) := by
  cases t with
  | nil => simp [fire, proc]
  | agg h kids nx =>
    simp only [fire, proc]
    cases procHdr ctx loc h [] <;> simp [finish, Out.seq_assoc]
  | task h x c nx => simp [fire, proc, finish, Out.seq_assoc]
  | call h x c nx => simp [fire, proc, finish, Out.seq_assoc]
  | iter r v b nx =>
    simp only [fire, proc]
    cases evalRange ctx.lookRange r <;> simp [finish, Out.seq_assoc, finish_expandPend]
  | incl h inc docs nx =>
    simp only [fire, proc]
    cases inclHdr cfg ctx loc h inc docs <;> simp [finish, Out.seq_assoc]
  | doc f h kids nx =>
    simp only [fire, proc]
    cases docHdr ctx f h <;> simp [finish, Out.seq_assoc]

/-- Invariant of the machine: no scheduler decision changes the final outcome. -/
theorem finish_stepAt (s : PT) (p : List Dir) (k : Option Nat) : finish cfg (stepAt cfg s p k) = finish cfg s := by
  induction s generalizing p with
  | nil => cases p <;> cases k <;> rfl
  | pend ctx loc t next ih =>
    cases p with
    | nil =>
      cases k with
      | none => simp [stepAt, finish, finish_fire]
      | some n => simp only [stepAt, finish]; rw [← Out.seq_assoc, proc_take_drop]
    | cons d p' =>
      cases d with
      | right => simp [stepAt, finish, ih]
      | down => rfl
  | aggW i kids next ihk ihn =>
    cases p with
    | nil => cases k <;> rfl
    | cons d p' => cases d <;> simp [stepAt, finish, ihk, ihn]
  | leaf o next ih =>
    cases p with
    | nil => cases k <;> rfl
    | cons d p' =>
      cases d with
      | right => simp [stepAt, finish, ih]
      | down => rfl
  | iterW kp kids next ihk ihn =>
    cases p with
    | nil => cases k <;> rfl
    | cons d p' => cases d <;> simp [stepAt, finish, ihk, ihn]

theorem finish_run (s : PT) (sched : List Step) : finish cfg (run cfg s sched) = finish cfg s := by
  induction sched generalizing s with
  | nil => rfl
  | cons st rest ih => simp [run, ih, finish_stepAt]

theorem finish_init (t : Tmpl) : finish cfg (.pend {} [] t .nil) = proc cfg {} [] t := by
  simp [finish]

theorem hasFailed_err (s : PT) (h : hasFailed s = true) : (finish cfg s).err = true := by
  induction s with
  | nil => simp [hasFailed] at h
  | pend ctx loc t next ih => simp [hasFailed] at h; simp [finish, ih h]
  | aggW i kids next ihk ihn =>
    simp [hasFailed] at h
    rcases h with h | h
    · simp [finish, ihk h]
    · simp [finish, ihn h]
  | leaf o next ih =>
    simp [hasFailed] at h
    rcases h with h | h
    · simp [finish, h]
    · simp [finish, ih h]
  | iterW kp kids next ihk ihn =>
    simp [hasFailed] at h
    rcases h with h | h
    · simp [finish, ihk h]
    · simp [finish, ihn h]

/-! ## the sequential code path (first error returns) computes the same -/

def Out.toExc (o : Out) : Except Unit Tree := if o.err then .error () else .ok o.f

theorem toExc_seq (a b : Out) : (a.seq b).toExc = seqCat a.toExc b.toExc := by
  cases a with | mk ae af av => cases b with | mk be bf bv =>
  cases ae <;> cases be <;> simp [Out.toExc, Out.seq, seqCat]

theorem aggOut_f (i : Info) (k : Out) : (aggOut i k).f = aggTree i k.f := by
  unfold aggOut aggTree; split <;> simp_all

theorem iterOut_f (raw : Bool) (k : Out) :
    (iterOut cfg raw k).f = if iterKeep cfg raw k.f then Tree.iter k.f .nil else .nil := by
  unfold iterOut; split <;> rfl

theorem leafOut_toExc_seq (mk : Info → List String → Tree) (r : HdrRes) (rest : Out) :
    ((leafOut cfg mk r).seq rest).toExc =
      match r with
      | .error => .error ()
      | .masked => if cfg.maskEnabledError then rest.toExc else .error ()
      | .disabled => rest.toExc
      | .ok i _ ex => match rest.toExc with
        | .error e => .error e
        | .ok t => .ok (mk i ex ++ t) := by
  cases r <;> cases rest with | mk re rf rv =>
    cases re <;> cases hm : cfg.maskEnabledError <;> simp [leafOut, maskedOut, hm, Out.toExc, Out.seq, Out.empty]

theorem procSeq_eq (ctx : Ctx) (loc : Env) (t : Tmpl) : procSeq cfg ctx loc t = (proc cfg ctx loc t).toExc := by
  induction t generalizing ctx loc with
  | nil => simp [procSeq, proc, Out.toExc, Out.empty]
  | agg h kids nx ihk ihn =>
    simp only [procSeq, proc]
    cases hh : procHdr ctx loc h [] with
    | error => simp [Out.toExc, Out.seq]
    | masked =>
      simp only [ihn]
      generalize proc cfg ctx loc nx = r
      cases r with | mk re rf rv =>
      cases hm : cfg.maskEnabledError <;> cases re <;> simp [maskedOut, hm, Out.toExc, Out.seq]
    | disabled => simp [ihn]
    | ok i c' ex =>
      simp only [ihk, ihn, toExc_seq]
      generalize proc cfg c' [] kids = k
      generalize proc cfg ctx loc nx = r
      cases k with | mk ke kf kv => cases r with | mk re rf rv =>
      cases ke <;> cases re <;> simp [Out.toExc, seqCat, aggOut_f]
  | task h x c nx ihn =>
    simp only [procSeq, proc, leafOut_toExc_seq, ihn]
    cases procHdr ctx loc h x <;> first | rfl | simp
  | call h x c nx ihn =>
    simp only [procSeq, proc, leafOut_toExc_seq, ihn]
    cases procHdr ctx loc h x <;> first | rfl | simp
  | iter r v b nx ihb ihn =>
    simp only [procSeq, proc]
    cases evalRange ctx.lookRange r with
    | none => simp [Out.toExc, Out.seq]
    | some vals =>
      simp only [ihb, ihn]
      have hfold : (vals.foldr (fun v' acc => seqCat (proc cfg ctx [(v, v')] b).toExc acc) (Except.ok Tree.nil)) =
          (vals.foldr (fun v' acc => (proc cfg ctx [(v, v')] b).seq acc) Out.empty).toExc := by
        induction vals with
        | nil => simp [Out.toExc, Out.empty]
        | cons a as iha => simp only [List.foldr_cons, iha, toExc_seq]
      simp only [hfold, toExc_seq]
      generalize (vals.foldr (fun v' acc => (proc cfg ctx [(v, v')] b).seq acc) Out.empty) = k
      generalize proc cfg ctx loc nx = rr
      cases k with | mk ke kf kv => cases rr with | mk re rf rv =>
      cases ke <;> cases re <;> cases hkp : iterKeep cfg (rawEnabled b) kf <;> simp [Out.toExc, seqCat, iterOut, hkp]
  | incl h inc docs nx ihd ihn =>
    simp only [procSeq, proc]
    cases hh : inclHdr cfg ctx loc h inc docs with
    | error => simp [Out.toExc, Out.seq]
    | masked =>
      simp only [ihn]
      generalize proc cfg ctx loc nx = r
      cases r with | mk re rf rv =>
      cases hm : cfg.maskEnabledError <;> cases re <;> simp [maskedOut, hm, Out.toExc, Out.seq]
    | disabled => simp [ihn]
    | ok i cw ex => simp only [ihd, ihn, toExc_seq]
  | doc f h kids nx ihk ihn =>
    simp only [procSeq, proc]
    cases hh : docHdr ctx f h with
    | error => simp [Out.toExc, Out.seq]
    | masked =>
      simp only [ihn]
      generalize proc cfg ctx loc nx = r
      cases r with | mk re rf rv =>
      cases hm : cfg.maskEnabledError <;> cases re <;> simp [maskedOut, hm, Out.toExc, Out.seq]
    | disabled => simp [ihn]
    | ok i c' ex =>
      simp only [ihk, ihn, toExc_seq]
      generalize proc cfg c' [] kids = k
      generalize proc cfg ctx loc nx = r
      cases k with | mk ke kf kv => cases r with | mk re rf rv =>
      cases ke <;> cases re <;> simp [Out.toExc, seqCat, aggOut_f]

theorem loadSeq_eq (t : Tmpl) : loadSeq cfg t = load cfg t := by
  simp only [loadSeq, load, procSeq_eq, Out.loaded, Out.toExc]
  generalize proc cfg {} [] t = o
  cases o with | mk e f v =>
  cases e <;> simp

/-! ## the code's loader against the ideal loader -/

theorem Tree.flatten_append (a b : Tree) : (a ++ b).flatten = a.flatten ++ b.flatten := by
  induction a with
  | nil => rfl
  | agg i k n _ ihn => simp [Tree.flatten, ihn]
  | task i x c n ihn => simp [Tree.flatten, ihn]
  | call i x c n ihn => simp [Tree.flatten, ihn]
  | iter k n _ ihn => simp [Tree.flatten, ihn, Tree.append_assoc]

theorem flatten_nil_iff (f : Tree) : f.flatten = .nil ↔ hasNode f = false := by
  induction f with
  | nil => simp [Tree.flatten, hasNode]
  | agg i k n _ _ => simp [Tree.flatten, hasNode]
  | task i x c n _ => simp [Tree.flatten, hasNode]
  | call i x c n _ => simp [Tree.flatten, hasNode]
  | iter k n ihk ihn =>
    simp only [Tree.flatten, hasNode, Tree.append_def, Bool.or_eq_false_iff, ← ihk, ← ihn]
    constructor
    · exact Tree.append_eq_nil
    · rintro ⟨h1, h2⟩; simp [h1, h2]

theorem Events.none_or (a b : Events) : (a.or b).none = (a.none && b.none) := by
  cases a with | mk a1 a2 a3 => cases b with | mk b1 b2 b3 =>
  cases a1 <;> cases a2 <;> cases a3 <;> cases b1 <;> cases b2 <;> cases b3 <;> rfl

def Out.toI (o : Out) : IOut := ⟨o.err, o.f.flatten⟩

theorem toI_seq (a b : Out) : (a.seq b).toI = a.toI.seq b.toI := by
  simp [Out.toI, Out.seq, IOut.seq, Tree.flatten_append]

theorem leaf_toI (mk : Info → List String → Tree) (r : HdrRes)
    (hmk : ∀ i ex, (mk i ex).flatten = mk i ex)
    (h : (leafOut cfg mk r).ev.none = true) : idealLeaf mk r = (leafOut cfg mk r).toI := by
  cases r with
  | error => rfl
  | masked =>
    cases hm : cfg.maskEnabledError with
    | true => simp [leafOut, maskedOut_legacy hm, Events.none] at h
    | false => simp [idealLeaf, leafOut, maskedOut_code hm, Out.toI, Tree.flatten]
  | disabled => rfl
  | ok i c ex => simp [idealLeaf, leafOut, Out.toI, hmk]

theorem idealAgg_of_ne (i : Info) (k : IOut) (h : k.f ≠ .nil) : idealAgg i k = ⟨k.err, .agg i k.f .nil⟩ := by
  unfold idealAgg; split
  · contradiction
  · rfl

theorem aggOut_of_ne (i : Info) (k : Out) (h : k.f ≠ .nil) :
    aggOut i k = ⟨k.err, .agg i k.f .nil, k.ev.or { hollow := !hasNode k.f }⟩ := by
  unfold aggOut; split
  · contradiction
  · rfl

theorem aggOut_toI (i : Info) (k : Out) (h : (aggOut i k).ev.none = true) :
    k.ev.none = true ∧ idealAgg i k.toI = (aggOut i k).toI := by
  by_cases hf : k.f = .nil
  · have : aggOut i k = ⟨k.err, .nil, k.ev⟩ := by unfold aggOut; rw [hf]
    rw [this] at h ⊢
    refine ⟨h, ?_⟩
    simp [idealAgg, Out.toI, hf, Tree.flatten]
  · rw [aggOut_of_ne i k hf] at h ⊢
    simp only [Events.none_or, Bool.and_eq_true] at h
    have hn : hasNode k.f = true := by
      have := h.2; simp [Events.none] at this; exact this
    have hne : k.toI.f ≠ .nil := by
      intro hc; simp only [Out.toI] at hc; rw [flatten_nil_iff] at hc; simp [hc] at hn
    refine ⟨h.1, ?_⟩
    rw [idealAgg_of_ne i k.toI hne]
    simp [Out.toI, Tree.flatten]

theorem iterOut_toI (raw : Bool) (k : Out) (h : (iterOut cfg raw k).ev.none = true) :
    k.ev.none = true ∧ k.toI = (iterOut cfg raw k).toI := by
  cases hkp : iterKeep cfg raw k.f with
  | true =>
    simp only [iterOut, hkp, if_true] at h ⊢
    exact ⟨h, by simp [Out.toI, Tree.flatten]⟩
  | false =>
    simp only [iterOut, hkp, Bool.false_eq_true, if_false, Events.none_or, Bool.and_eq_true] at h ⊢
    have hn : hasNode k.f = false := by
      have := h.2; simp [Events.none] at this; exact this
    exact ⟨h.1, by simp [Out.toI, (flatten_nil_iff k.f).2 hn, Tree.flatten]⟩

/-- When none of the three recorded behaviours occurs, the code's loader computes exactly
    what the ideal loader computes (after `GetRoles` made the iterators transparent). -/
theorem proc_ideal (hl : cfg.inclPublishLate = false) (t : Tmpl) : ∀ (ctx : Ctx) (loc : Env),
    (proc cfg ctx loc t).ev.none = true → ideal ctx loc t = (proc cfg ctx loc t).toI := by
  have hincl : inclHdr cfg = inclHdrP true := by simp [inclHdr, hl]
  induction t with
  | nil => intro ctx loc _; rfl
  | agg h kids nx ihk ihn =>
    intro ctx loc hev
    simp only [proc, Out.seq_ev, Events.none_or, Bool.and_eq_true] at hev
    simp only [ideal, proc, toI_seq, ihn ctx loc hev.2]
    congr 1
    cases hh : procHdr ctx loc h [] with
    | error => rfl
    | masked =>
      rw [hh] at hev
      cases hm : cfg.maskEnabledError with
      | true => simp [maskedOut_legacy hm, Events.none] at hev
      | false => simp [maskedOut_code hm, Out.toI, Tree.flatten]
    | disabled => rfl
    | ok i c' ex =>
      rw [hh] at hev
      have hk := aggOut_toI i (proc cfg c' [] kids) hev.1
      simp only []
      rw [ihk c' [] hk.1, hk.2]
  | task h x c nx ihn =>
    intro ctx loc hev
    simp only [proc, Out.seq_ev, Events.none_or, Bool.and_eq_true] at hev
    simp only [ideal, proc, toI_seq, ihn ctx loc hev.2]
    congr 1
    exact leaf_toI _ _ (by intros; rfl) hev.1
  | call h x c nx ihn =>
    intro ctx loc hev
    simp only [proc, Out.seq_ev, Events.none_or, Bool.and_eq_true] at hev
    simp only [ideal, proc, toI_seq, ihn ctx loc hev.2]
    congr 1
    exact leaf_toI _ _ (by intros; rfl) hev.1
  | iter r v b nx ihb ihn =>
    intro ctx loc hev
    simp only [proc, Out.seq_ev, Events.none_or, Bool.and_eq_true] at hev
    simp only [ideal, proc, toI_seq, ihn ctx loc hev.2]
    congr 1
    cases hr : evalRange ctx.lookRange r with
    | none => rfl
    | some vals =>
      rw [hr] at hev
      have hfold : ∀ vs : List String,
          (vs.foldr (fun v' acc => (proc cfg ctx [(v, v')] b).seq acc) Out.empty).ev.none = true →
          vs.foldr (fun v' acc => (ideal ctx [(v, v')] b).seq acc) {} =
            (vs.foldr (fun v' acc => (proc cfg ctx [(v, v')] b).seq acc) Out.empty).toI := by
        intro vs
        induction vs with
        | nil => intro _; rfl
        | cons a as iha =>
          intro he
          simp only [List.foldr_cons, Out.seq_ev, Events.none_or, Bool.and_eq_true] at he
          simp only [List.foldr_cons, toI_seq, iha he.2, ihb ctx _ he.1]
      have hk := iterOut_toI _ _ hev.1
      simp only []
      rw [hfold vals hk.1, hk.2]
  | incl h inc docs nx ihd ihn =>
    intro ctx loc hev
    simp only [proc, Out.seq_ev, Events.none_or, Bool.and_eq_true] at hev
    simp only [ideal, proc, toI_seq, ihn ctx loc hev.2]
    congr 1
    rw [hincl] at hev ⊢
    cases hh : inclHdrP true ctx loc h inc docs with
    | error => rfl
    | masked =>
      rw [hh] at hev
      cases hm : cfg.maskEnabledError with
      | true => simp [maskedOut_legacy hm, Events.none] at hev
      | false => simp [maskedOut_code hm, Out.toI, Tree.flatten]
    | disabled => rfl
    | ok i cw ex =>
      rw [hh] at hev
      exact ihd cw [] hev.1
  | doc f h kids nx ihk ihn =>
    intro ctx loc hev
    simp only [proc, Out.seq_ev, Events.none_or, Bool.and_eq_true] at hev
    simp only [ideal, proc, toI_seq, ihn ctx loc hev.2]
    congr 1
    cases hh : docHdr ctx f h with
    | error => rfl
    | masked =>
      rw [hh] at hev
      cases hm : cfg.maskEnabledError with
      | true => simp [maskedOut_legacy hm, Events.none] at hev
      | false => simp [maskedOut_code hm, Out.toI, Tree.flatten]
    | disabled => rfl
    | ok i c' ex =>
      rw [hh] at hev
      have hk := aggOut_toI i (proc cfg c' [] kids) hev.1
      simp only []
      rw [ihk c' [] hk.1, hk.2]

theorem load_ideal (hl : cfg.inclPublishLate = false) (t : Tmpl) (h : (proc cfg {} [] t).ev.none = true) :
    load cfg t = idealLoad t := by
  simp only [load, idealLoad, proc_ideal hl t {} [] h, Out.loaded, IOut.loaded, Out.toI]
  rfl

/-! ## one header -/

theorem procHdr_ok {ctx : Ctx} {loc : Env} {h : Hdr} {x : List Field} {i : Info} {c' : Ctx} {ex : List String}
    (hh : procHdr ctx loc h x = .ok i c' ex) :
    (∃ en, evalField (ctx.look loc) h.enabled = some en ∧ truthy en = true ∧ i.enabled = trim en) ∧
    (∃ v', i.ownV = loc ++ v') := by
  simp only [procHdr] at hh
  cases hen : evalField (ctx.look loc) h.enabled with
  | none => simp [hen] at hh
  | some en =>
    simp only [hen] at hh
    cases htr : truthy en with
    | false => simp [htr] at hh
    | true =>
      simp only [htr, Bool.not_true, Bool.false_eq_true, if_false] at hh
      split at hh
      · simp at hh
      · split at hh
        · simp at hh
        · split at hh
          · injection hh with hi hc hx
            subst hi
            exact ⟨⟨en, rfl, htr, rfl⟩, ⟨_, rfl⟩⟩
          · simp at hh

theorem procHdr_disabled {ctx : Ctx} {loc : Env} {h : Hdr} {x : List Field} {en : String}
    (he : evalField (ctx.look loc) h.enabled = some en) (ht : truthy en = false) :
    procHdr ctx loc h x = .disabled := by
  unfold procHdr; simp [he, ht]

theorem procHdr_masked {ctx : Ctx} {loc : Env} {h : Hdr} {x : List Field}
    (he : evalField (ctx.look loc) h.enabled = none) :
    procHdr ctx loc h x = .masked := by
  unfold procHdr; simp [he]

/-- the root of an included document is processed by the ordinary role header, with the include
    role's resolved name in the name field and no Locals -/
theorem docHdr_ok {ctx : Ctx} {f : String} {h : Hdr} {i : Info} {c' : Ctx} {ex : List String}
    (hh : docHdr ctx f h = .ok i c' ex) :
    ∃ nm, ctx.want = some (f, nm) ∧ procHdr ctx [] { h with name := [.text nm] } [] = .ok i c' ex := by
  unfold docHdr at hh
  cases hw : ctx.want with
  | none => simp [hw] at hh
  | some p =>
    obtain ⟨f', nm⟩ := p
    simp only [hw] at hh
    by_cases hf : (f' == f) = true
    · simp only [hf, if_true] at hh
      have : f' = f := by simpa using hf
      subst this
      exact ⟨nm, rfl, hh⟩
    · simp [hf] at hh

theorem docHdr_none {ctx : Ctx} (f : String) (h : Hdr) (hw : ctx.want = none) : docHdr ctx f h = .disabled := by
  simp [docHdr, hw]

/-! ## no empty aggregators -/

theorem Tree.isNil_of_ne {f : Tree} (h : f ≠ .nil) : f.isNil = false := by
  cases f <;> simp_all [Tree.isNil]

theorem noEmptyAgg_append (a b : Tree) : noEmptyAgg (a ++ b) = (noEmptyAgg a && noEmptyAgg b) := by
  induction a with
  | nil => simp [noEmptyAgg]
  | agg i k n _ ihn => simp [noEmptyAgg, ihn, Bool.and_assoc]
  | task i x c n ihn => simp [noEmptyAgg, ihn]
  | call i x c n ihn => simp [noEmptyAgg, ihn]
  | iter k n _ ihn => simp [noEmptyAgg, ihn, Bool.and_assoc]

theorem noIter_append (a b : Tree) : noIter (a ++ b) = (noIter a && noIter b) := by
  induction a with
  | nil => simp [noIter]
  | agg i k n _ ihn => simp [noIter, ihn, Bool.and_assoc]
  | task i x c n ihn => simp [noIter, ihn]
  | call i x c n ihn => simp [noIter, ihn]
  | iter k n _ ihn => simp [noIter]

theorem aggOut_noEmptyAgg (i : Info) (k : Out) (h : noEmptyAgg k.f = true) : noEmptyAgg (aggOut i k).f = true := by
  by_cases hf : k.f = .nil
  · have : aggOut i k = ⟨k.err, .nil, k.ev⟩ := by unfold aggOut; rw [hf]
    rw [this]; rfl
  · rw [aggOut_of_ne i k hf]
    simp [noEmptyAgg, Tree.isNil_of_ne hf, h]

/-- In the role tree as the code stores it (iterator nodes included) no aggregator has an empty `Roles`. -/
theorem proc_noEmptyAgg (t : Tmpl) : ∀ (ctx : Ctx) (loc : Env), noEmptyAgg (proc cfg ctx loc t).f = true := by
  induction t with
  | nil => intros; rfl
  | agg h kids nx ihk ihn =>
    intro ctx loc
    simp only [proc, Out.seq_f, noEmptyAgg_append, ihn, Bool.and_true]
    cases procHdr ctx loc h [] with
    | ok i c' ex => exact aggOut_noEmptyAgg i _ (ihk c' [])
    | _ => first | rfl | (simp [leafOut] <;> rfl)
  | task h x c nx ihn =>
    intro ctx loc
    simp only [proc, Out.seq_f, noEmptyAgg_append, ihn, Bool.and_true]
    cases procHdr ctx loc h x <;> first | rfl | (simp [leafOut] <;> rfl)
  | call h x c nx ihn =>
    intro ctx loc
    simp only [proc, Out.seq_f, noEmptyAgg_append, ihn, Bool.and_true]
    cases procHdr ctx loc h x <;> first | rfl | (simp [leafOut] <;> rfl)
  | iter r v b nx ihb ihn =>
    intro ctx loc
    simp only [proc, Out.seq_f, noEmptyAgg_append, ihn, Bool.and_true]
    cases evalRange ctx.lookRange r with
    | none => rfl
    | some vals =>
      have hfold : noEmptyAgg (vals.foldr (fun v' acc => (proc cfg ctx [(v, v')] b).seq acc) Out.empty).f = true := by
        induction vals with
        | nil => rfl
        | cons a as iha => simp [noEmptyAgg_append, iha, ihb]
      simp only [iterOut_f]
      split
      · simp [noEmptyAgg, hfold]
      · rfl
  | incl h inc docs nx ihd ihn =>
    intro ctx loc
    simp only [proc, Out.seq_f, noEmptyAgg_append, ihn, Bool.and_true]
    cases inclHdr cfg ctx loc h inc docs with
    | ok i cw ex => exact ihd cw []
    | _ => first | rfl | (simp <;> rfl)
  | doc f h kids nx ihk ihn =>
    intro ctx loc
    simp only [proc, Out.seq_f, noEmptyAgg_append, ihn, Bool.and_true]
    cases docHdr ctx f h with
    | ok i c' ex => exact aggOut_noEmptyAgg i _ (ihk c' [])
    | _ => first | rfl | (simp <;> rfl)

theorem idealAgg_ok (i : Info) (k : IOut) (h : noEmptyAgg k.f = true ∧ noIter k.f = true) :
    noEmptyAgg (idealAgg i k).f = true ∧ noIter (idealAgg i k).f = true := by
  by_cases hf : k.f = .nil
  · have : idealAgg i k = ⟨k.err, .nil⟩ := by unfold idealAgg; rw [hf]
    rw [this]; exact ⟨rfl, rfl⟩
  · rw [idealAgg_of_ne i k hf]
    simp [noEmptyAgg, noIter, Tree.isNil_of_ne hf, h.1, h.2]

/-- The ideal loader never leaves an empty aggregator and shows no iterator nodes. -/
theorem ideal_wf (t : Tmpl) : ∀ (ctx : Ctx) (loc : Env),
    noEmptyAgg (ideal ctx loc t).f = true ∧ noIter (ideal ctx loc t).f = true := by
  induction t with
  | nil => intros; exact ⟨rfl, rfl⟩
  | agg h kids nx ihk ihn =>
    intro ctx loc
    simp only [ideal, IOut.seq, noEmptyAgg_append, noIter_append, (ihn ctx loc).1, (ihn ctx loc).2, Bool.and_true]
    cases procHdr ctx loc h [] with
    | ok i c' ex => exact idealAgg_ok i _ (ihk c' [])
    | _ => exact ⟨rfl, rfl⟩
  | task h x c nx ihn =>
    intro ctx loc
    simp only [ideal, IOut.seq, noEmptyAgg_append, noIter_append, (ihn ctx loc).1, (ihn ctx loc).2, Bool.and_true]
    cases procHdr ctx loc h x <;> exact ⟨rfl, rfl⟩
  | call h x c nx ihn =>
    intro ctx loc
    simp only [ideal, IOut.seq, noEmptyAgg_append, noIter_append, (ihn ctx loc).1, (ihn ctx loc).2, Bool.and_true]
    cases procHdr ctx loc h x <;> exact ⟨rfl, rfl⟩
  | iter r v b nx ihb ihn =>
    intro ctx loc
    simp only [ideal, IOut.seq, noEmptyAgg_append, noIter_append, (ihn ctx loc).1, (ihn ctx loc).2, Bool.and_true]
    cases evalRange ctx.lookRange r with
    | none => exact ⟨rfl, rfl⟩
    | some vals =>
      simp only []
      induction vals with
      | nil => exact ⟨rfl, rfl⟩
      | cons a as iha =>
        simp only [List.foldr_cons, noEmptyAgg_append, noIter_append, iha.1, iha.2, (ihb ctx _).1, (ihb ctx _).2,
          Bool.and_true, and_self]
  | incl h inc docs nx ihd ihn =>
    intro ctx loc
    simp only [ideal, IOut.seq, noEmptyAgg_append, noIter_append, (ihn ctx loc).1, (ihn ctx loc).2, Bool.and_true]
    cases inclHdrP true ctx loc h inc docs with
    | ok i cw ex => exact ihd cw []
    | _ => exact ⟨rfl, rfl⟩
  | doc f h kids nx ihk ihn =>
    intro ctx loc
    simp only [ideal, IOut.seq, noEmptyAgg_append, noIter_append, (ihn ctx loc).1, (ihn ctx loc).2, Bool.and_true]
    cases docHdr ctx f h with
    | ok i c' ex => exact idealAgg_ok i _ (ihk c' [])
    | _ => exact ⟨rfl, rfl⟩

@[simp] theorem Events.or_hollow (a b : Events) : (a.or b).hollow = (a.hollow || b.hollow) := rfl

theorem aggOut_flat (i : Info) (k : Out) (hh : (aggOut i k).ev.hollow = false)
    (h : k.ev.hollow = false → noEmptyAgg k.f.flatten = true) :
    noEmptyAgg (aggOut i k).f.flatten = true := by
  by_cases hf : k.f = .nil
  · have : aggOut i k = ⟨k.err, .nil, k.ev⟩ := by unfold aggOut; rw [hf]
    rw [this]; rfl
  · rw [aggOut_of_ne i k hf] at hh ⊢
    simp only [Events.or_hollow, Bool.or_eq_false_iff, Bool.not_eq_false'] at hh
    have hne : k.f.flatten ≠ .nil := by
      intro hc; rw [flatten_nil_iff] at hc; simp [hc] at hh
    have hk := h hh.1
    simp [Tree.flatten, noEmptyAgg, hk, Tree.isNil_of_ne hne]

/-- Seen through `GetRoles` (iterators transparent) no aggregator is empty, PROVIDED no
    aggregator was kept whose only children are iterators that yielded nothing. -/
theorem proc_flat_noEmptyAgg (t : Tmpl) : ∀ (ctx : Ctx) (loc : Env),
    (proc cfg ctx loc t).ev.hollow = false → noEmptyAgg (proc cfg ctx loc t).f.flatten = true := by
  induction t with
  | nil => intros; rfl
  | agg h kids nx ihk ihn =>
    intro ctx loc hev
    simp only [proc, Out.seq_ev, Events.or_hollow, Bool.or_eq_false_iff] at hev
    simp only [proc, Out.seq_f, Tree.flatten_append, noEmptyAgg_append, ihn ctx loc hev.2, Bool.and_true]
    cases hh : procHdr ctx loc h [] with
    | ok i c' ex => rw [hh] at hev; exact aggOut_flat i _ hev.1 (ihk c' [])
    | _ => first | rfl | (simp [leafOut] <;> rfl)
  | task h x c nx ihn =>
    intro ctx loc hev
    simp only [proc, Out.seq_ev, Events.or_hollow, Bool.or_eq_false_iff] at hev
    simp only [proc, Out.seq_f, Tree.flatten_append, noEmptyAgg_append, ihn ctx loc hev.2, Bool.and_true]
    cases procHdr ctx loc h x <;> first | rfl | (simp [leafOut] <;> rfl)
  | call h x c nx ihn =>
    intro ctx loc hev
    simp only [proc, Out.seq_ev, Events.or_hollow, Bool.or_eq_false_iff] at hev
    simp only [proc, Out.seq_f, Tree.flatten_append, noEmptyAgg_append, ihn ctx loc hev.2, Bool.and_true]
    cases procHdr ctx loc h x <;> first | rfl | (simp [leafOut] <;> rfl)
  | iter r v b nx ihb ihn =>
    intro ctx loc hev
    simp only [proc, Out.seq_ev, Events.or_hollow, Bool.or_eq_false_iff] at hev
    simp only [proc, Out.seq_f, Tree.flatten_append, noEmptyAgg_append, ihn ctx loc hev.2, Bool.and_true]
    cases hr : evalRange ctx.lookRange r with
    | none => rfl
    | some vals =>
      rw [hr] at hev
      have hfold : ∀ vs : List String,
          (vs.foldr (fun v' acc => (proc cfg ctx [(v, v')] b).seq acc) Out.empty).ev.hollow = false →
          noEmptyAgg (vs.foldr (fun v' acc => (proc cfg ctx [(v, v')] b).seq acc) Out.empty).f.flatten = true := by
        intro vs
        induction vs with
        | nil => intro _; rfl
        | cons a as iha =>
          intro he
          simp only [List.foldr_cons, Out.seq_ev, Events.or_hollow, Bool.or_eq_false_iff] at he
          simp [Tree.flatten_append, noEmptyAgg_append, iha he.2, ihb ctx _ he.1]
      have hk := hev.1
      simp only [] at hk ⊢
      cases hkp : iterKeep cfg (rawEnabled b) (vals.foldr (fun v' acc => (proc cfg ctx [(v, v')] b).seq acc) Out.empty).f with
      | true =>
        simp only [iterOut, hkp, if_true] at hk ⊢
        simp [Tree.flatten, hfold vals hk]
      | false => simp [iterOut, hkp, Tree.flatten, noEmptyAgg]
  | incl h inc docs nx ihd ihn =>
    intro ctx loc hev
    simp only [proc, Out.seq_ev, Events.or_hollow, Bool.or_eq_false_iff] at hev
    simp only [proc, Out.seq_f, Tree.flatten_append, noEmptyAgg_append, ihn ctx loc hev.2, Bool.and_true]
    cases hh : inclHdr cfg ctx loc h inc docs with
    | ok i cw ex => rw [hh] at hev; exact ihd cw [] hev.1
    | _ => first | rfl | (simp <;> rfl)
  | doc f h kids nx ihk ihn =>
    intro ctx loc hev
    simp only [proc, Out.seq_ev, Events.or_hollow, Bool.or_eq_false_iff] at hev
    simp only [proc, Out.seq_f, Tree.flatten_append, noEmptyAgg_append, ihn ctx loc hev.2, Bool.and_true]
    cases hh : docHdr ctx f h with
    | ok i c' ex => rw [hh] at hev; exact aggOut_flat i _ hev.1 (ihk c' [])
    | _ => first | rfl | (simp <;> rfl)

/-! ## iterators -/

theorem fold_f (ctx : Ctx) (var : String) (body : Tmpl) (vals : List String) :
    (vals.foldr (fun v acc => (proc cfg ctx [(var, v)] body).seq acc) Out.empty).f =
      vals.foldr (fun v acc => (proc cfg ctx [(var, v)] body).f ++ acc) .nil := by
  induction vals with
  | nil => rfl
  | cons a as ih => simp [ih]

theorem Tree.infos_append (a b : Tree) : (a ++ b).infos = a.infos ++ b.infos := by
  induction a with
  | nil => rfl
  | agg i k n _ ihn => simp [Tree.infos, ihn]
  | task i x c n ihn => simp [Tree.infos, ihn]
  | call i x c n ihn => simp [Tree.infos, ihn]
  | iter k n _ ihn => simp [Tree.infos, ihn]

theorem lookup_loc (var v : String) (rest : Env) : lookup ((var, v) :: rest) var = some v := by
  simp [lookup, Assoc.get]

theorem leafOut_infos (mk : Info → List String → Tree) (var v : String) (ctx : Ctx) (h : Hdr) (x : List Field)
    (hmk : ∀ i ex, (mk i ex).infos = [i] ∧ (mk i ex).isNil = false) :
    (leafOut cfg mk (procHdr ctx [(var, v)] h x)).f.infos.map (fun i => lookup i.ownV var) =
      if (leafOut cfg mk (procHdr ctx [(var, v)] h x)).f.isNil then [] else [some v] := by
  cases hh : procHdr ctx [(var, v)] h x with
  | ok i c' ex =>
    obtain ⟨_, v', hv⟩ := procHdr_ok hh
    simp [leafOut, (hmk i ex).1, (hmk i ex).2, hv, lookup_loc]
  | _ => simp [leafOut, Tree.infos, Tree.isNil, Out.empty]

/-- One instance of an iterator's template (a single role) yields at most one role, and
    that role has the iteration variable bound to the element in its own variables. -/
theorem single_infos (ctx : Ctx) (var v : String) (body : Tmpl) (hs : single body = true) :
    (proc cfg ctx [(var, v)] body).f.infos.map (fun i => lookup i.ownV var) =
      if (proc cfg ctx [(var, v)] body).f.isNil then [] else [some v] := by
  cases body with
  | nil => simp [single] at hs
  | iter r v2 b n => simp [single] at hs
  | incl h inc d n => simp [single] at hs
  | doc f h k n => simp [single] at hs
  | agg h kids n =>
    cases n <;> simp [single] at hs
    simp only [proc, Out.seq_empty]
    cases hh : procHdr ctx [(var, v)] h [] with
    | ok i c' ex =>
      obtain ⟨_, v', hv⟩ := procHdr_ok hh
      dsimp only
      by_cases hf : (proc cfg c' [] kids).f = .nil
      · have : aggOut i (proc cfg c' [] kids) = ⟨(proc cfg c' [] kids).err, .nil, (proc cfg c' [] kids).ev⟩ := by
          unfold aggOut; rw [hf]
        simp [this, Tree.infos, Tree.isNil]
      · simp [aggOut_of_ne i _ hf, Tree.infos, Tree.isNil, hv, lookup_loc]
    | _ => simp [Tree.infos, Tree.isNil, Out.empty]
  | task h x c n =>
    cases n <;> simp [single] at hs
    simp only [proc, Out.seq_empty]
    exact leafOut_infos _ var v ctx h x (by intros; exact ⟨rfl, rfl⟩)
  | call h x c n =>
    cases n <;> simp [single] at hs
    simp only [proc, Out.seq_empty]
    exact leafOut_infos _ var v ctx h x (by intros; exact ⟨rfl, rfl⟩)

/-- The children of an expanded iterator, read off by their binding of the iteration
    variable: exactly the range elements whose instance survived, in range order. -/
theorem iter_bindings (ctx : Ctx) (var : String) (body : Tmpl) (hs : single body = true) (vals : List String) :
    (vals.foldr (fun v acc => (proc cfg ctx [(var, v)] body).seq acc) Out.empty).f.infos.map (fun i => lookup i.ownV var) =
      (vals.filter fun v => !(proc cfg ctx [(var, v)] body).f.isNil).map some := by
  rw [fold_f]
  induction vals with
  | nil => rfl
  | cons a as ih =>
    simp only [List.foldr_cons, Tree.infos_append, List.map_append, ih, single_infos ctx var a body hs, List.filter_cons]
    cases (proc cfg ctx [(var, a)] body).f.isNil <;> simp

/-! ## `TrimSpace` is idempotent, so a stored `enabled` is truthy iff the evaluated one was -/

theorem dw_head {p : Char → Bool} : ∀ (l : List Char) (c : Char) (r : List Char), l.dropWhile p = c :: r → p c = false
  | [], c, r, h => by simp at h
  | a :: l, c, r, h => by
    by_cases hp : p a = true
    · simp [List.dropWhile, hp] at h; exact dw_head l c r h
    · simp [List.dropWhile, hp] at h; obtain ⟨rfl, _⟩ := h; simpa using hp

theorem dw_of_head {p : Char → Bool} {c : Char} (r : List Char) (h : p c = false) : (c :: r).dropWhile p = c :: r := by
  simp [List.dropWhile, h]

theorem dw_idem (p : Char → Bool) (l : List Char) : (l.dropWhile p).dropWhile p = l.dropWhile p := by
  cases h : l.dropWhile p with
  | nil => rfl
  | cons c r => exact dw_of_head r (dw_head l c r h)

def norm (l : List Char) : List Char := (trimL (trimL l).reverse).reverse

theorem norm_idem (l : List Char) : norm (norm l) = norm l := by
  unfold norm
  generalize ha : trimL l = a
  generalize hb : trimL a.reverse = b
  have h2 : trimL b = b := by rw [← hb]; exact dw_idem _ _
  have h1 : trimL b.reverse = b.reverse := by
    cases hbr : b.reverse with
    | nil => rfl
    | cons c m =>
      have hsplit : a.reverse = a.reverse.takeWhile isSpace ++ b := by
        rw [← hb]; exact (List.takeWhile_append_dropWhile (p := isSpace) (l := a.reverse)).symm
      have ha' : a = c :: (m ++ (a.reverse.takeWhile isSpace).reverse) := by
        have := congrArg List.reverse hsplit
        rw [List.reverse_reverse, List.reverse_append, hbr] at this
        simpa using this
      have hc : isSpace c = false := dw_head l c _ (by rw [← ha'] ; exact ha)
      exact dw_of_head m hc
  rw [h1, List.reverse_reverse, h2]

theorem trim_idem (s : String) : trim (trim s) = trim s := by
  have : ∀ t : String, trim t = String.ofList (norm t.toList) := fun _ => rfl
  rw [this (trim s), this s, String.toList_ofList, norm_idem]

theorem truthy_trim (s : String) : truthy (trim s) = truthy s := by
  unfold truthy; rw [trim_idem]

/-- Every role that is left in the tree carries an `enabled` that reads true/1. -/
theorem proc_allEnabled (t : Tmpl) : ∀ (ctx : Ctx) (loc : Env), allEnabled (proc cfg ctx loc t).f = true := by
  have happ : ∀ a b : Tree, allEnabled (a ++ b) = (allEnabled a && allEnabled b) := by
    intro a b
    induction a with
    | nil => simp [allEnabled]
    | agg i k n _ ihn => simp [allEnabled, ihn, Bool.and_assoc]
    | task i x c n ihn => simp [allEnabled, ihn, Bool.and_assoc]
    | call i x c n ihn => simp [allEnabled, ihn, Bool.and_assoc]
    | iter k n _ ihn => simp [allEnabled, ihn, Bool.and_assoc]
  have hen : ∀ {ctx loc h x i c' ex}, procHdr ctx loc h x = .ok i c' ex → truthy i.enabled = true := by
    intro ctx loc h x i c' ex hh
    obtain ⟨⟨en, _, ht, hi⟩, _⟩ := procHdr_ok hh
    rw [hi, truthy_trim, ht]
  induction t with
  | nil => intros; rfl
  | agg h kids nx ihk ihn =>
    intro ctx loc
    simp only [proc, Out.seq_f, happ, ihn, Bool.and_true]
    cases hh : procHdr ctx loc h [] with
    | ok i c' ex =>
      dsimp only
      by_cases hf : (proc cfg c' [] kids).f = .nil
      · have : aggOut i (proc cfg c' [] kids) = ⟨(proc cfg c' [] kids).err, .nil, (proc cfg c' [] kids).ev⟩ := by
          unfold aggOut; rw [hf]
        rw [this]; rfl
      · simp [aggOut_of_ne i _ hf, allEnabled, hen hh, ihk c' []]
    | _ => first | rfl | (simp [leafOut] <;> rfl)
  | task h x c nx ihn =>
    intro ctx loc
    simp only [proc, Out.seq_f, happ, ihn, Bool.and_true]
    cases hh : procHdr ctx loc h x with
    | ok i c' ex => simp [leafOut, allEnabled, hen hh]
    | _ => first | rfl | (simp [leafOut] <;> rfl)
  | call h x c nx ihn =>
    intro ctx loc
    simp only [proc, Out.seq_f, happ, ihn, Bool.and_true]
    cases hh : procHdr ctx loc h x with
    | ok i c' ex => simp [leafOut, allEnabled, hen hh]
    | _ => first | rfl | (simp [leafOut] <;> rfl)
  | iter r v b nx ihb ihn =>
    intro ctx loc
    simp only [proc, Out.seq_f, happ, ihn, Bool.and_true]
    cases evalRange ctx.lookRange r with
    | none => rfl
    | some vals =>
      have hfold : allEnabled (vals.foldr (fun v' acc => (proc cfg ctx [(v, v')] b).seq acc) Out.empty).f = true := by
        induction vals with
        | nil => rfl
        | cons a as iha => simp [happ, iha, ihb]
      simp only [iterOut_f]
      split
      · simp [allEnabled, hfold]
      · rfl
  | incl h inc docs nx ihd ihn =>
    intro ctx loc
    simp only [proc, Out.seq_f, happ, ihn, Bool.and_true]
    cases inclHdr cfg ctx loc h inc docs with
    | ok i cw ex => exact ihd cw []
    | _ => first | rfl | (simp <;> rfl)
  | doc f h kids nx ihk ihn =>
    intro ctx loc
    simp only [proc, Out.seq_f, happ, ihn, Bool.and_true]
    cases hh : docHdr ctx f h with
    | ok i c' ex =>
      obtain ⟨nm, _, hp⟩ := docHdr_ok hh
      dsimp only
      by_cases hf : (proc cfg c' [] kids).f = .nil
      · have : aggOut i (proc cfg c' [] kids) = ⟨(proc cfg c' [] kids).err, .nil, (proc cfg c' [] kids).ev⟩ := by
          unfold aggOut; rw [hf]
        rw [this]; rfl
      · simp [aggOut_of_ne i _ hf, allEnabled, hen hp, ihk c' []]
    | _ => first | rfl | (simp <;> rfl)

theorem allEnabled_flatten (f : Tree) (h : allEnabled f = true) : allEnabled f.flatten = true := by
  have happ : ∀ a b : Tree, allEnabled (a ++ b) = (allEnabled a && allEnabled b) := by
    intro a b
    induction a with
    | nil => simp [allEnabled]
    | agg i k n _ ihn => simp [allEnabled, ihn, Bool.and_assoc]
    | task i x c n ihn => simp [allEnabled, ihn, Bool.and_assoc]
    | call i x c n ihn => simp [allEnabled, ihn, Bool.and_assoc]
    | iter k n _ ihn => simp [allEnabled, ihn, Bool.and_assoc]
  induction f with
  | nil => rfl
  | agg i k n ihk ihn => simp [allEnabled] at h; simp [Tree.flatten, allEnabled, h, ihk, ihn]
  | task i x c n ihn => simp [allEnabled] at h; simp [Tree.flatten, allEnabled, h, ihn]
  | call i x c n ihn => simp [allEnabled] at h; simp [Tree.flatten, allEnabled, h, ihn]
  | iter k n ihk ihn => simp [allEnabled] at h; simp [Tree.flatten, happ, h, ihk, ihn]

/-! ## a syntactic condition that rules out the dropped-iterator behaviour -/

theorem evalField_literal (ρ : Look) (f : Field) (h : isLiteral f = true) : evalField ρ f = some (rawText f) := by
  induction f with
  | nil => rfl
  | cons p ps ih =>
    cases p with
    | text s => simp [isLiteral] at h; simp [evalField, Part.eval, rawText, ih h]
    | str e => simp [isLiteral] at h
    | bool e => simp [isLiteral] at h

@[simp] theorem Events.or_iterDrop (a b : Events) : (a.or b).iterDrop = (a.iterDrop || b.iterDrop) := rfl

theorem body_disabled (ctx : Ctx) (loc : Env) (b : Tmpl)
    (hl : (match b with
           | .agg h _ .nil => isLiteral h.enabled
           | .task h _ _ .nil => isLiteral h.enabled
           | .call h _ _ .nil => isLiteral h.enabled
           | .incl h _ _ .nil => isLiteral h.enabled
           | _ => false) = true)
    (hr : rawEnabled b = false) : proc cfg ctx loc b = Out.empty := by
  cases b with
  | nil => rfl
  | iter r v b n => simp at hl
  | doc f h k n => simp at hl
  | incl h inc d n =>
    cases n <;> simp at hl
    simp only [rawEnabled] at hr
    simp [proc, inclHdr, inclHdrP, procHdr_disabled (evalField_literal _ _ hl) hr]
  | agg h k n =>
    cases n <;> simp at hl
    simp only [rawEnabled] at hr
    simp [proc, procHdr_disabled (evalField_literal _ _ hl) hr]
  | task h x c n =>
    cases n <;> simp at hl
    simp only [rawEnabled] at hr
    simp [proc, procHdr_disabled (evalField_literal _ _ hl) hr, leafOut]
  | call h x c n =>
    cases n <;> simp at hl
    simp only [rawEnabled] at hr
    simp [proc, procHdr_disabled (evalField_literal _ _ hl) hr, leafOut]

theorem proc_no_iterDrop (t : Tmpl) : ∀ (ctx : Ctx) (loc : Env),
    iterEnabledLiteral t = true → (proc cfg ctx loc t).ev.iterDrop = false := by
  induction t with
  | nil => intros; rfl
  | agg h kids nx ihk ihn =>
    intro ctx loc hl
    simp only [iterEnabledLiteral, Bool.and_eq_true] at hl
    simp only [proc, Out.seq_ev, Events.or_iterDrop, ihn ctx loc hl.2, Bool.or_false]
    cases procHdr ctx loc h [] with
    | ok i c' ex =>
      dsimp only
      by_cases hf : (proc cfg c' [] kids).f = .nil
      · have : aggOut i (proc cfg c' [] kids) = ⟨(proc cfg c' [] kids).err, .nil, (proc cfg c' [] kids).ev⟩ := by
          unfold aggOut; rw [hf]
        rw [this]; exact ihk c' [] hl.1
      · rw [aggOut_of_ne i _ hf]; simp [ihk c' [] hl.1]
    | _ => first | rfl | (simp [leafOut] <;> rfl)
  | task h x c nx ihn =>
    intro ctx loc hl
    simp only [iterEnabledLiteral] at hl
    simp only [proc, Out.seq_ev, Events.or_iterDrop, ihn ctx loc hl, Bool.or_false]
    cases procHdr ctx loc h x <;> first | rfl | (simp [leafOut] <;> rfl)
  | call h x c nx ihn =>
    intro ctx loc hl
    simp only [iterEnabledLiteral] at hl
    simp only [proc, Out.seq_ev, Events.or_iterDrop, ihn ctx loc hl, Bool.or_false]
    cases procHdr ctx loc h x <;> first | rfl | (simp [leafOut] <;> rfl)
  | iter r v b nx ihb ihn =>
    intro ctx loc hl
    simp only [iterEnabledLiteral, Bool.and_eq_true] at hl
    simp only [proc, Out.seq_ev, Events.or_iterDrop, ihn ctx loc hl.2, Bool.or_false]
    cases evalRange ctx.lookRange r with
    | none => rfl
    | some vals =>
      dsimp only
      have hfold : (vals.foldr (fun v' acc => (proc cfg ctx [(v, v')] b).seq acc) Out.empty).ev.iterDrop = false := by
        induction vals with
        | nil => rfl
        | cons a as iha => simp [iha, ihb ctx _ hl.1.2]
      cases hkp : iterKeep cfg (rawEnabled b) (vals.foldr (fun v' acc => (proc cfg ctx [(v, v')] b).seq acc) Out.empty).f with
      | true => simp [iterOut, hkp, hfold]
      | false =>
        have hn : hasNode (vals.foldr (fun v' acc => (proc cfg ctx [(v, v')] b).seq acc) Out.empty).f = false := by
          unfold iterKeep at hkp
          cases hc : cfg.iterByRawText with
          | true =>
            simp only [hc, if_true] at hkp
            have hempty : ∀ vs : List String,
                vs.foldr (fun v' acc => (proc cfg ctx [(v, v')] b).seq acc) Out.empty = Out.empty := by
              intro vs
              induction vs with
              | nil => rfl
              | cons a as iha => rw [List.foldr_cons, iha, body_disabled ctx _ b hl.1.1 hkp]; rfl
            rw [hempty]; rfl
          | false =>
            simp only [hc, Bool.false_eq_true, if_false, Bool.not_eq_false'] at hkp
            cases hf : (vals.foldr (fun v' acc => (proc cfg ctx [(v, v')] b).seq acc) Out.empty).f <;>
              simp_all [Tree.isNil, hasNode]
        simp [iterOut, hkp, hfold, hn]
  | incl h inc docs nx ihd ihn =>
    intro ctx loc hl
    simp only [iterEnabledLiteral, Bool.and_eq_true] at hl
    simp only [proc, Out.seq_ev, Events.or_iterDrop, ihn ctx loc hl.2, Bool.or_false]
    cases inclHdr cfg ctx loc h inc docs with
    | ok i cw ex => exact ihd cw [] hl.1
    | _ => first | rfl | (simp <;> rfl)
  | doc f h kids nx ihk ihn =>
    intro ctx loc hl
    simp only [iterEnabledLiteral, Bool.and_eq_true] at hl
    simp only [proc, Out.seq_ev, Events.or_iterDrop, ihn ctx loc hl.2, Bool.or_false]
    cases docHdr ctx f h with
    | ok i c' ex =>
      dsimp only
      by_cases hf : (proc cfg c' [] kids).f = .nil
      · have : aggOut i (proc cfg c' [] kids) = ⟨(proc cfg c' [] kids).err, .nil, (proc cfg c' [] kids).ev⟩ := by
          unfold aggOut; rw [hf]
        rw [this]; exact ihk c' [] hl.1
      · rw [aggOut_of_ne i _ hf]; simp [ihk c' [] hl.1]
    | _ => first | rfl | (simp <;> rfl)

/-! ## the code as it is: none of the three recorded behaviours can occur -/

theorem hasNode_append (a b : Tree) : hasNode (a ++ b) = (hasNode a || hasNode b) := by
  induction a with
  | nil => simp [hasNode]
  | agg i k n _ _ => simp [hasNode]
  | task i x c n _ => simp [hasNode]
  | call i x c n _ => simp [hasNode]
  | iter k n _ ihn => simp [hasNode, ihn, Bool.or_assoc]

theorem isNil_append (a b : Tree) : (a ++ b).isNil = (a.isNil && b.isNil) := by
  cases a <;> simp [Tree.isNil]

/-- "solid": a sibling list that is not empty holds a real role (no iterator node over nothing) -/
def solid (f : Tree) : Prop := hasNode f = !f.isNil

theorem solid_append {a b : Tree} (ha : solid a) (hb : solid b) : solid (a ++ b) := by
  unfold solid at *
  rw [hasNode_append, isNil_append, ha, hb]
  cases a.isNil <;> cases b.isNil <;> rfl

theorem solid_nil : solid .nil := rfl

theorem aggOut_solid (i : Info) (k : Out) : solid (aggOut i k).f := by
  rw [aggOut_f]; cases k.f <;> rfl

theorem leafOut_solid (mk : Info → List String → Tree) (r : HdrRes)
    (hmk : ∀ i ex, solid (mk i ex)) : solid (leafOut cfg mk r).f := by
  cases r with
  | ok i c ex => exact hmk i ex
  | masked => simp [leafOut, solid_nil]
  | _ => exact solid_nil

/-- With the rule of the code as it is (`iterByRawText = false`: an iterator that holds nothing
    is filtered out) every stored sibling list is solid. -/
theorem proc_code_solid (hc : cfg.iterByRawText = false) (t : Tmpl) :
    ∀ (ctx : Ctx) (loc : Env), solid (proc cfg ctx loc t).f := by
  induction t with
  | nil => intros; exact solid_nil
  | agg h kids nx _ ihn =>
    intro ctx loc
    simp only [proc, Out.seq_f]
    refine solid_append ?_ (ihn ctx loc)
    cases procHdr ctx loc h [] with
    | ok i c' ex => exact aggOut_solid i _
    | masked => simp [solid_nil]
    | _ => exact solid_nil
  | task h x c nx ihn =>
    intro ctx loc
    simp only [proc, Out.seq_f]
    exact solid_append (leafOut_solid _ _ (by intros; rfl)) (ihn ctx loc)
  | call h x c nx ihn =>
    intro ctx loc
    simp only [proc, Out.seq_f]
    exact solid_append (leafOut_solid _ _ (by intros; rfl)) (ihn ctx loc)
  | iter r v b nx ihb ihn =>
    intro ctx loc
    simp only [proc, Out.seq_f]
    refine solid_append ?_ (ihn ctx loc)
    cases evalRange ctx.lookRange r with
    | none => exact solid_nil
    | some vals =>
      have hfold : solid (vals.foldr (fun v' acc => (proc cfg ctx [(v, v')] b).seq acc) Out.empty).f := by
        induction vals with
        | nil => exact solid_nil
        | cons a as iha => simp only [List.foldr_cons, Out.seq_f]; exact solid_append (ihb ctx _) iha
      simp only [iterOut_f, iterKeep, hc, Bool.false_eq_true, if_false]
      generalize (vals.foldr (fun v' acc => (proc cfg ctx [(v, v')] b).seq acc) Out.empty).f = kf at hfold
      unfold solid at hfold ⊢
      cases hk : kf.isNil <;> simp_all [hasNode, Tree.isNil]
  | incl h inc docs nx ihd ihn =>
    intro ctx loc
    simp only [proc, Out.seq_f]
    refine solid_append ?_ (ihn ctx loc)
    cases inclHdr cfg ctx loc h inc docs with
    | ok i cw ex => exact ihd cw []
    | masked => simp [solid_nil]
    | _ => exact solid_nil
  | doc f h kids nx _ ihn =>
    intro ctx loc
    simp only [proc, Out.seq_f]
    refine solid_append ?_ (ihn ctx loc)
    cases docHdr ctx f h with
    | ok i c' ex => exact aggOut_solid i _
    | masked => simp [solid_nil]
    | _ => exact solid_nil

/-- The code as it is shows none of the three behaviours, whatever the template. -/
theorem proc_code_ev (hm : cfg.maskEnabledError = false) (hc : cfg.iterByRawText = false) (t : Tmpl) :
    ∀ (ctx : Ctx) (loc : Env), (proc cfg ctx loc t).ev = {} := by
  have hleaf : ∀ (mk : Info → List String → Tree) (r : HdrRes), (leafOut cfg mk r).ev = {} := by
    intro mk r; cases r <;> simp [leafOut, maskedOut_code hm, Out.empty]
  induction t with
  | nil => intros; rfl
  | agg h kids nx ihk ihn =>
    intro ctx loc
    simp only [proc, Out.seq_ev, ihn ctx loc, Events.or_empty]
    cases procHdr ctx loc h [] with
    | ok i c' ex =>
      dsimp only
      by_cases hf : (proc cfg c' [] kids).f = .nil
      · have : aggOut i (proc cfg c' [] kids) = ⟨(proc cfg c' [] kids).err, .nil, (proc cfg c' [] kids).ev⟩ := by
          unfold aggOut; rw [hf]
        rw [this]; exact ihk c' []
      · have hs := proc_code_solid hc kids c' []
        unfold solid at hs
        rw [aggOut_of_ne i _ hf, ihk c' [], hs, Tree.isNil_of_ne hf]; rfl
    | masked => simp [maskedOut_code hm]
    | _ => rfl
  | task h x c nx ihn => intro ctx loc; simp only [proc, Out.seq_ev, ihn ctx loc, hleaf, Events.or_empty]
  | call h x c nx ihn => intro ctx loc; simp only [proc, Out.seq_ev, ihn ctx loc, hleaf, Events.or_empty]
  | iter r v b nx ihb ihn =>
    intro ctx loc
    simp only [proc, Out.seq_ev, ihn ctx loc, Events.or_empty]
    cases evalRange ctx.lookRange r with
    | none => rfl
    | some vals =>
      have hfold : (vals.foldr (fun v' acc => (proc cfg ctx [(v, v')] b).seq acc) Out.empty).ev = {} := by
        induction vals with
        | nil => rfl
        | cons a as iha => simp only [List.foldr_cons, Out.seq_ev, ihb ctx _, iha, Events.or_empty]
      dsimp only
      generalize (vals.foldr (fun v' acc => (proc cfg ctx [(v, v')] b).seq acc) Out.empty) = k at hfold
      cases hk : k.f with
      | nil => simp [iterOut, iterKeep, hc, hk, Tree.isNil, hasNode, hfold]
      | _ => simp [iterOut, iterKeep, hc, hk, Tree.isNil, hfold]
  | incl h inc docs nx ihd ihn =>
    intro ctx loc
    simp only [proc, Out.seq_ev, ihn ctx loc, Events.or_empty]
    cases inclHdr cfg ctx loc h inc docs with
    | ok i cw ex => exact ihd cw []
    | masked => simp [maskedOut_code hm]
    | _ => rfl
  | doc f h kids nx ihk ihn =>
    intro ctx loc
    simp only [proc, Out.seq_ev, ihn ctx loc, Events.or_empty]
    cases docHdr ctx f h with
    | ok i c' ex =>
      dsimp only
      by_cases hf : (proc cfg c' [] kids).f = .nil
      · have : aggOut i (proc cfg c' [] kids) = ⟨(proc cfg c' [] kids).err, .nil, (proc cfg c' [] kids).ev⟩ := by
          unfold aggOut; rw [hf]
        rw [this]; exact ihk c' []
      · have hs := proc_code_solid hc kids c' []
        unfold solid at hs
        rw [aggOut_of_ne i _ hf, ihk c' [], hs, Tree.isNil_of_ne hf]; rfl
    | masked => simp [maskedOut_code hm]
    | _ => rfl

theorem proc_code_none (t : Tmpl) (ctx : Ctx) (loc : Env) : (proc codeCfg ctx loc t).ev.none = true := by
  rw [proc_code_ev rfl rfl]; rfl

/-- THE CODE AS IT IS loads every template to what the ideal loader yields. -/
theorem load_code_ideal (t : Tmpl) : load codeCfg t = idealLoad t := load_ideal rfl t (proc_code_none t {} [])

/-! ## nested iterators: every generated role evaluates the inner range in its own stack -/

theorem lookup_append_some {a : Env} {k v : String} (b : Env) (h : lookup a k = some v) : lookup (a ++ b) k = some v := by
  induction a with
  | nil => simp [lookup, Assoc.get] at h
  | cons kv rest ih =>
    obtain ⟨k', v'⟩ := kv
    simp only [lookup, Assoc.get, List.cons_append] at h ⊢
    split
    · rename_i hk; simpa [hk] using h
    · rename_i hk; simp only [hk] at h; exact ih h

/-- The stack a role hands to its children after its header: own defaults / (locals ++ own vars) /
    own user vars in front of the ancestors'. -/
theorem procHdr_ok_ctx {ctx : Ctx} {loc : Env} {h : Hdr} {x : List Field} {i : Info} {c' : Ctx} {ex : List String}
    (hh : procHdr ctx loc h x = .ok i c' ex) :
    c'.U = h.uvars ++ ctx.U ∧ (∃ v', c'.V = (loc ++ v') ++ ctx.V) ∧ (∃ d, c'.D = d ++ ctx.D) := by
  simp only [procHdr] at hh
  cases hen : evalField (ctx.look loc) h.enabled with
  | none => simp [hen] at hh
  | some en =>
    simp only [hen] at hh
    cases htr : truthy en with
    | false => simp [htr] at hh
    | true =>
      simp only [htr, Bool.not_true, Bool.false_eq_true, if_false] at hh
      split at hh
      · simp at hh
      · split at hh
        · simp at hh
        · split at hh
          · injection hh with hi hc hx
            subst hc
            exact ⟨rfl, ⟨_, rfl⟩, ⟨_, rfl⟩⟩
          · simp at hh

/-- A local (the iteration variable of the iterator that generated this role) is what the role's
    children — in particular a nested iterator evaluating its range — read under that name, unless
    a user variable of the same name overrides it (`FlattenStack(defaults, vars, uservars)`). -/
theorem procHdr_binds {ctx : Ctx} {loc : Env} {h : Hdr} {x : List Field} {i : Info} {c' : Ctx} {ex : List String}
    (hh : procHdr ctx loc h x = .ok i c' ex) (var v : String) (hl : lookup loc var = some v)
    (hu : lookup (h.uvars ++ ctx.U) var = none) : c'.lookRange var = some v := by
  obtain ⟨hU, ⟨v', hV⟩, _⟩ := procHdr_ok_ctx hh
  have h1 : lookup c'.V var = some v := by
    rw [hV, List.append_assoc]; exact lookup_append_some _ hl
  simp [Ctx.lookRange, lookupChain, hU, hu, h1]

@[simp] theorem Tree.leaves_append (a b : Tree) : (a ++ b).leaves = a.leaves ++ b.leaves := by
  induction a with
  | nil => rfl
  | agg i k n _ ihn => simp [Tree.leaves, ihn]
  | task i x c n ihn => simp [Tree.leaves, ihn]
  | call i x c n ihn => simp [Tree.leaves, ihn]
  | iter k n _ ihn => simp [Tree.leaves, ihn]

/-- pruning an aggregator that ended up empty loses no task / call role -/
theorem aggOut_leaves (i : Info) (k : Out) : (aggOut i k).f.leaves = k.f.leaves := by
  rw [aggOut_f]
  cases hk : k.f <;> simp [aggTree, Tree.leaves]

theorem fold_leaves (ctx : Ctx) (var : String) (body : Tmpl) (vals : List String) :
    (vals.foldr (fun v acc => (proc cfg ctx [(var, v)] body).seq acc) Out.empty).f.leaves =
      vals.flatMap fun v => (proc cfg ctx [(var, v)] body).f.leaves := by
  induction vals with
  | nil => rfl
  | cons a as ih => simp [ih]

/-- the task / call roles under an iterator (kept by its parent): per range element, in range order -/
theorem iter_leaves (ctx : Ctx) (loc : Env) (r : RangeT) (v : String) (b : Tmpl)
    (hb : cfg.iterByRawText = true → rawEnabled b = true) :
    (proc cfg ctx loc (.iter r v b .nil)).f.leaves =
      match evalRange ctx.lookRange r with
      | none => []
      | some ws => ws.flatMap fun w => (proc cfg ctx [(v, w)] b).f.leaves := by
  simp only [proc, Out.seq_empty]
  cases evalRange ctx.lookRange r with
  | none => simp [Tree.leaves]
  | some ws =>
    dsimp only
    rw [← fold_leaves]
    generalize ws.foldr (fun v' acc => (proc cfg ctx [(v, v')] b).seq acc) Out.empty = k
    cases hkp : iterKeep cfg (rawEnabled b) k.f with
    | true => simp [iterOut, hkp, Tree.leaves]
    | false =>
      unfold iterKeep at hkp
      cases hc : cfg.iterByRawText with
      | true => simp [hc, hb hc] at hkp
      | false =>
        simp only [hc, Bool.false_eq_true, if_false, Bool.not_eq_false'] at hkp
        cases hf : k.f <;> simp_all [Tree.isNil, iterOut, iterKeep, Tree.leaves]

/-- the task / call roles under one generated aggregator: those of its children, processed in ITS stack -/
theorem agg_leaves (ctx : Ctx) (loc : Env) (h : Hdr) (kids : Tmpl) :
    (proc cfg ctx loc (.agg h kids .nil)).f.leaves =
      match procHdr ctx loc h [] with
      | .ok _ c' _ => (proc cfg c' [] kids).f.leaves
      | _ => [] := by
  simp only [proc, Out.seq_empty]
  cases procHdr ctx loc h [] with
  | ok i c' ex => simp only [aggOut_leaves]
  | error => simp [Tree.leaves]
  | masked => simp [Tree.leaves]
  | disabled => simp [Tree.leaves, Out.empty]

/-- The task / call roles of a nest of iterators of ANY depth: the innermost template, instantiated
    once per stack of `nestCtxs`, in that order. -/
theorem nest_leaves (inner : Tmpl) : ∀ (ls : List Level) (ctx : Ctx), (cfg.iterByRawText = true → nestEnabled ls = true) →
    (proc cfg ctx [] (nest ls inner)).f.leaves = (nestCtxs ctx ls).flatMap fun c => (proc cfg c [] inner).f.leaves := by
  intro ls
  induction ls with
  | nil => intro ctx _; simp [nest, nestCtxs]
  | cons l ls ih =>
    intro ctx hen
    simp only [nestEnabled, List.all_cons, Bool.and_eq_true] at hen
    have hl : cfg.iterByRawText = true → rawEnabled (.agg l.hdr (nest ls inner) .nil) = true := fun hc => (hen hc).1
    have hls : cfg.iterByRawText = true → nestEnabled ls = true := fun hc => (hen hc).2
    rw [nest, iter_leaves ctx [] l.rng l.var _ hl]
    simp only [nestCtxs]
    cases evalRange ctx.lookRange l.rng with
    | none => simp
    | some ws =>
      simp only [List.flatMap_assoc]
      congr 1
      funext w
      rw [agg_leaves]
      cases procHdr ctx [(l.var, w)] l.hdr [] with
      | ok i c' ex => exact ih c' hls
      | error => simp
      | masked => simp
      | disabled => simp

/-- an iterator without later siblings ignores the locals it is reached with -/
theorem proc_iter_loc (ctx : Ctx) (loc : Env) (r : RangeT) (v : String) (b : Tmpl) :
    proc cfg ctx loc (.iter r v b .nil) = proc cfg ctx [] (.iter r v b .nil) := by
  simp [proc]

/-- sibling copies of an iterator's template do not influence each other: the outcome over a
    concatenated range is the concatenation of the outcomes -/
theorem fold_append (ctx : Ctx) (var : String) (body : Tmpl) (vs₁ vs₂ : List String) :
    (vs₁ ++ vs₂).foldr (fun v acc => (proc cfg ctx [(var, v)] body).seq acc) Out.empty =
      (vs₁.foldr (fun v acc => (proc cfg ctx [(var, v)] body).seq acc) Out.empty).seq
        (vs₂.foldr (fun v acc => (proc cfg ctx [(var, v)] body).seq acc) Out.empty) := by
  induction vs₁ with
  | nil => simp
  | cons a as ih => simp only [List.cons_append, List.foldr_cons, ih, Out.seq_assoc]

/-! ## include roles -/

theorem inclHdrP_ok {pub : Bool} {ctx : Ctx} {loc : Env} {h : Hdr} {inc : Field} {docs : Tmpl}
    {i : Info} {cw : Ctx} {ex : List String} (hh : inclHdrP pub ctx loc h inc docs = .ok i cw ex) :
    ∃ c', procHdr ctx loc h [inc] = .ok i c' ex ∧ hasDoc (ex.headD "") docs = true ∧
      cw = { D := c'.D, V := if pub then c'.V else c'.V.drop loc.length, U := c'.U,
             want := some (ex.headD "", i.name) } := by
  unfold inclHdrP at hh
  cases hp : procHdr ctx loc h [inc] with
  | ok i' c' ex' =>
    simp only [hp] at hh
    cases hd : hasDoc (ex'.headD "") docs with
    | true =>
      rw [hd] at hh
      simp only [if_true] at hh
      injection hh with h1 h2 h3
      subst h1 h3
      exact ⟨c', rfl, hd, h2.symm⟩
    | false => rw [hd] at hh; simp at hh
  | error => simp [hp] at hh
  | masked => simp [hp] at hh
  | disabled => simp [hp] at hh

/-- an include role that no iterator generated (no Locals): WHEN the Locals are published is immaterial -/
theorem inclHdrP_nolocals (ctx : Ctx) (h : Hdr) (inc : Field) (docs : Tmpl) :
    inclHdrP false ctx [] h inc docs = inclHdrP true ctx [] h inc docs := by
  unfold inclHdrP
  cases procHdr ctx [] h [inc] <;> simp

theorem evalKV_keys {ρ : Look} : ∀ {kvs : List (String × Field)} {e : Env}, evalKV ρ kvs = some e →
    e.map Prod.fst = kvs.map Prod.fst
  | [], e, h => by simp [evalKV] at h; subst h; rfl
  | (k, f) :: r, e, h => by
    simp only [evalKV] at h
    cases hf : evalField ρ f with
    | none => simp [hf] at h
    | some v =>
      cases hr : evalKV ρ r with
      | none => simp [hf, hr] at h
      | some r' =>
        simp [hf, hr] at h
        subst h
        simp [evalKV_keys hr]

theorem lookup_none_of_keys {α : Type} (var : String) : ∀ (e : List (String × α)), (e.all fun kv => kv.1 != var) = true →
    ∀ (e' : Env), e'.map Prod.fst = e.map Prod.fst → lookup e' var = none
  | [], _, e', h => by cases e' <;> simp_all [lookup, Assoc.get]
  | (k, a) :: r, hall, e', h => by
    cases e' with
    | nil => simp at h
    | cons kv r' =>
      obtain ⟨k', v'⟩ := kv
      simp only [List.map_cons, List.cons.injEq] at h
      simp only [List.all_cons, Bool.and_eq_true] at hall
      have hk : k' = k := h.1
      subst hk
      have hne : (k' == var) = false := by simpa using hall.1
      simp only [lookup, Assoc.get, hne, Bool.false_eq_true, if_false]
      exact lookup_none_of_keys var r hall.2 r' h.2

theorem lookup_append_none {a : Env} {k : String} (b : Env) (h : lookup a k = none) : lookup (a ++ b) k = lookup b k := by
  induction a with
  | nil => rfl
  | cons kv rest ih =>
    obtain ⟨k', v'⟩ := kv
    simp only [lookup, Assoc.get, List.cons_append] at h ⊢
    split
    · rename_i hk; simp [hk] at h
    · rename_i hk; simp only [hk] at h; exact ih h

/-- everything one role header does to the stack, spelled out -/
theorem procHdr_ok_full {ctx : Ctx} {loc : Env} {h : Hdr} {x : List Field} {i : Info} {c' : Ctx} {ex : List String}
    (hh : procHdr ctx loc h x = .ok i c' ex) :
    ∃ d v', v'.map Prod.fst = h.vars.map Prod.fst ∧
      c' = { D := d ++ ctx.D, V := (loc ++ v') ++ ctx.V, U := h.uvars ++ ctx.U } ∧
      i.stack = c'.U ++ c'.V ++ c'.D := by
  simp only [procHdr] at hh
  cases hen : evalField (ctx.look loc) h.enabled with
  | none => simp [hen] at hh
  | some en =>
    simp only [hen] at hh
    cases htr : truthy en with
    | false => simp [htr] at hh
    | true =>
      simp only [htr, Bool.not_true, Bool.false_eq_true, if_false] at hh
      split at hh
      · simp at hh
      · rename_i d hd
        split at hh
        · simp at hh
        · rename_i v' hv
          split at hh
          · injection hh with hi hc hx
            subst hi hc
            exact ⟨d, v', evalKV_keys hv, rfl, rfl⟩
          · simp at hh

/-- A role header that gives `var` no nearer value hands the binding on, and the role itself reads it. -/
theorem procHdr_keeps {ctx : Ctx} {loc : Env} {h : Hdr} {x : List Field} {i : Info} {c' : Ctx} {ex : List String}
    (hh : procHdr ctx loc h x = .ok i c' ex) (var v : String) (hk : hdrKeeps var h = true)
    (hb : ctx.binds var v) (hl : lookup loc var = none ∨ lookup loc var = some v) :
    c'.binds var v ∧ lookup i.stack var = some v := by
  obtain ⟨d, v', hkeys, hc, hst⟩ := procHdr_ok_full hh
  simp only [hdrKeeps, Bool.and_eq_true] at hk
  have hu : lookup (h.uvars ++ ctx.U) var = none := by
    rw [lookup_append_none _ (lookup_none_of_keys var h.uvars hk.2 h.uvars rfl)]; exact hb.1
  have hv' : lookup v' var = none := lookup_none_of_keys var h.vars hk.1 v' hkeys
  have hV : lookup ((loc ++ v') ++ ctx.V) var = some v := by
    rw [List.append_assoc]
    rcases hl with hl | hl
    · rw [lookup_append_none _ hl, lookup_append_none _ hv']; exact hb.2
    · exact lookup_append_some _ hl
  have hcU : c'.U = h.uvars ++ ctx.U := by rw [hc]
  have hcV : c'.V = (loc ++ v') ++ ctx.V := by rw [hc]
  refine ⟨⟨by rw [hcU]; exact hu, by rw [hcV]; exact hV⟩, ?_⟩
  rw [hst, hcU, hcV, List.append_assoc, lookup_append_none _ hu]
  exact lookup_append_some _ hV

/-- An include site that gives `var` no nearer value hands the binding on to the included documents —
    whether or not its Locals are published. -/
theorem inclHdrP_keeps {pub : Bool} {ctx : Ctx} {loc : Env} {h : Hdr} {inc : Field} {docs : Tmpl}
    {i : Info} {cw : Ctx} {ex : List String} (hh : inclHdrP pub ctx loc h inc docs = .ok i cw ex)
    (var v : String) (hk : hdrKeeps var h = true) (hb : ctx.binds var v)
    (hl : lookup loc var = none ∨ lookup loc var = some v) : cw.binds var v := by
  obtain ⟨c', hp, _, hcw⟩ := inclHdrP_ok hh
  have hkeep := (procHdr_keeps hp var v hk hb hl).1
  obtain ⟨d, v', hkeys, hc, _⟩ := procHdr_ok_full hp
  cases pub with
  | true => rw [hcw]; exact hkeep
  | false =>
    simp only [hdrKeeps, Bool.and_eq_true] at hk
    have hv' : lookup v' var = none := lookup_none_of_keys var h.vars hk.1 v' hkeys
    have hV : c'.V = (loc ++ v') ++ ctx.V := by rw [hc]
    rw [hcw]
    refine ⟨hkeep.1, ?_⟩
    simp only [Bool.false_eq_true, if_false, hV, List.append_assoc, List.drop_left]
    rw [lookup_append_none _ hv']; exact hb.2

/-- PUBLISHED BEFORE THE SWAP, the iteration variable an include role was generated with is bound in
    the stack the included documents are read in (unless a user variable overrides it). -/
theorem inclHdrP_binds {ctx : Ctx} {loc : Env} {h : Hdr} {inc : Field} {docs : Tmpl}
    {i : Info} {cw : Ctx} {ex : List String} (hh : inclHdrP true ctx loc h inc docs = .ok i cw ex)
    (var v : String) (hl : lookup loc var = some v) (hu : lookup (h.uvars ++ ctx.U) var = none) : cw.binds var v := by
  obtain ⟨c', hp, _, hcw⟩ := inclHdrP_ok hh
  obtain ⟨d, v', _, hc, _⟩ := procHdr_ok_full hp
  rw [hcw, hc]
  refine ⟨hu, ?_⟩
  simp only [if_true, List.append_assoc]
  exact lookup_append_some _ hl

theorem Tree.allInfos_append (a b : Tree) : (a ++ b).allInfos = a.allInfos ++ b.allInfos := by
  induction a with
  | nil => rfl
  | agg i k n _ ihn => simp [Tree.allInfos, ihn]
  | task i x c n ihn => simp [Tree.allInfos, ihn]
  | call i x c n ihn => simp [Tree.allInfos, ihn]
  | iter k n _ ihn => simp [Tree.allInfos, ihn]

theorem hdrKeeps_name (var : String) (h : Hdr) (n : Field) : hdrKeeps var { h with name := n } = hdrKeeps var h := rfl

/-- EVERY DEPTH: below a stack that binds `var` to `v`, every role the load keeps — through aggregators,
    iterators, include roles and the documents they load — reads `v` under that name, as long as no
    role in between gives the name a nearer value (`noRebind`). For every configuration. -/
theorem proc_keeps (var v : String) (t : Tmpl) : ∀ (ctx : Ctx) (loc : Env), noRebind var t = true → ctx.binds var v →
    (lookup loc var = none ∨ lookup loc var = some v) →
    ∀ i ∈ (proc cfg ctx loc t).f.allInfos, lookup i.stack var = some v := by
  have hagg : ∀ (i : Info) (k : Out), lookup i.stack var = some v →
      (∀ j ∈ k.f.allInfos, lookup j.stack var = some v) →
      ∀ j ∈ (aggOut i k).f.allInfos, lookup j.stack var = some v := by
    intro i k hi hk j hj
    by_cases hf : k.f = .nil
    · have : aggOut i k = ⟨k.err, .nil, k.ev⟩ := by unfold aggOut; rw [hf]
      simp [this, Tree.allInfos] at hj
    · rw [aggOut_of_ne i k hf] at hj
      simp only [Tree.allInfos, List.append_nil, List.mem_cons] at hj
      rcases hj with rfl | hj
      · exact hi
      · exact hk j hj
  have hleaf : ∀ (mk : Info → List String → Tree) (ctx : Ctx) (loc : Env) (h : Hdr) (x : List Field),
      (∀ i ex, (mk i ex).allInfos = [i]) → hdrKeeps var h = true → ctx.binds var v →
      (lookup loc var = none ∨ lookup loc var = some v) →
      ∀ j ∈ (leafOut cfg mk (procHdr ctx loc h x)).f.allInfos, lookup j.stack var = some v := by
    intro mk ctx loc h x hmk hk hb hl j hj
    cases hh : procHdr ctx loc h x with
    | ok i c' ex =>
      simp only [hh, leafOut, hmk, List.mem_singleton] at hj
      subst hj
      exact (procHdr_keeps hh var v hk hb hl).2
    | error => simp [hh, leafOut, Tree.allInfos] at hj
    | masked => simp [hh, leafOut, Tree.allInfos] at hj
    | disabled => simp [hh, leafOut, Out.empty, Tree.allInfos] at hj
  induction t with
  | nil => intro ctx loc _ _ _ i hi; simp [proc, Out.empty, Tree.allInfos] at hi
  | agg h kids nx ihk ihn =>
    intro ctx loc hn hb hl j hj
    simp only [noRebind, Bool.and_eq_true] at hn
    simp only [proc, Out.seq_f, Tree.allInfos_append, List.mem_append] at hj
    rcases hj with hj | hj
    · cases hh : procHdr ctx loc h [] with
      | ok i c' ex =>
        rw [hh] at hj
        have hp := procHdr_keeps hh var v hn.1.1 hb hl
        exact hagg i _ hp.2 (ihk c' [] hn.1.2 hp.1 (Or.inl rfl)) j hj
      | error => simp [hh, Tree.allInfos] at hj
      | masked => simp [hh, Tree.allInfos] at hj
      | disabled => simp [hh, Out.empty, Tree.allInfos] at hj
    · exact ihn ctx loc hn.2 hb hl j hj
  | task h x c nx ihn =>
    intro ctx loc hn hb hl j hj
    simp only [noRebind, Bool.and_eq_true] at hn
    simp only [proc, Out.seq_f, Tree.allInfos_append, List.mem_append] at hj
    rcases hj with hj | hj
    · exact hleaf _ ctx loc h x (by intros; rfl) hn.1 hb hl j hj
    · exact ihn ctx loc hn.2 hb hl j hj
  | call h x c nx ihn =>
    intro ctx loc hn hb hl j hj
    simp only [noRebind, Bool.and_eq_true] at hn
    simp only [proc, Out.seq_f, Tree.allInfos_append, List.mem_append] at hj
    rcases hj with hj | hj
    · exact hleaf _ ctx loc h x (by intros; rfl) hn.1 hb hl j hj
    · exact ihn ctx loc hn.2 hb hl j hj
  | iter r w b nx ihb ihn =>
    intro ctx loc hn hb hl j hj
    simp only [noRebind, Bool.and_eq_true] at hn
    simp only [proc, Out.seq_f, Tree.allInfos_append, List.mem_append] at hj
    rcases hj with hj | hj
    · cases hr : evalRange ctx.lookRange r with
      | none => simp [hr, Tree.allInfos] at hj
      | some vals =>
        rw [hr] at hj
        have hwv : (w == var) = false := by simpa using hn.1.1
        have hloc : ∀ e : String, lookup [(w, e)] var = none := by
          intro e; simp [lookup, Assoc.get, hwv]
        have hfold : ∀ vs : List String, ∀ j ∈ (vs.foldr (fun e acc => (proc cfg ctx [(w, e)] b).seq acc) Out.empty).f.allInfos,
            lookup j.stack var = some v := by
          intro vs
          induction vs with
          | nil => intro j hj; simp [Out.empty, Tree.allInfos] at hj
          | cons a as iha =>
            intro j hj
            simp only [List.foldr_cons, Out.seq_f, Tree.allInfos_append, List.mem_append] at hj
            rcases hj with hj | hj
            · exact ihb ctx _ hn.1.2 hb (Or.inl (hloc a)) j hj
            · exact iha j hj
        simp only [iterOut_f] at hj
        split at hj
        · simp only [Tree.allInfos, List.append_nil] at hj
          exact hfold vals j hj
        · simp [Tree.allInfos] at hj
    · exact ihn ctx loc hn.2 hb hl j hj
  | incl h inc docs nx ihd ihn =>
    intro ctx loc hn hb hl j hj
    simp only [noRebind, Bool.and_eq_true] at hn
    simp only [proc, Out.seq_f, Tree.allInfos_append, List.mem_append] at hj
    rcases hj with hj | hj
    · cases hh : inclHdr cfg ctx loc h inc docs with
      | ok i cw ex =>
        rw [hh] at hj
        exact ihd cw [] hn.1.2 (inclHdrP_keeps hh var v hn.1.1 hb hl) (Or.inl rfl) j hj
      | error => simp [hh, Tree.allInfos] at hj
      | masked => simp [hh, Tree.allInfos] at hj
      | disabled => simp [hh, Out.empty, Tree.allInfos] at hj
    · exact ihn ctx loc hn.2 hb hl j hj
  | doc f h kids nx ihk ihn =>
    intro ctx loc hn hb hl j hj
    simp only [noRebind, Bool.and_eq_true] at hn
    simp only [proc, Out.seq_f, Tree.allInfos_append, List.mem_append] at hj
    rcases hj with hj | hj
    · cases hh : docHdr ctx f h with
      | ok i c' ex =>
        rw [hh] at hj
        obtain ⟨nm, _, hp'⟩ := docHdr_ok hh
        have hp := procHdr_keeps hp' var v (by rw [hdrKeeps_name]; exact hn.1.1) hb (Or.inl rfl)
        exact hagg i _ hp.2 (ihk c' [] hn.1.2 hp.1 (Or.inl rfl)) j hj
      | error => simp [hh, Tree.allInfos] at hj
      | masked => simp [hh, Tree.allInfos] at hj
      | disabled => simp [hh, Out.empty, Tree.allInfos] at hj
    · exact ihn ctx loc hn.2 hb hl j hj

end Load
