/-
  Proofs/Own — lemmas behind Props/C04 and Props/C06 (core only).
-/
import ControlModel.Spec.C04
import ControlModel.Spec.C06
import ControlModel.Proofs.TaskIds

namespace Own

/-! ### basic facts about tasks -/

theorem isLocked_iff (t : Task) (h : t.idsOk = true) : t.isLocked = t.parent.isSome := by
  simp [Task.isLocked, h]

theorem owner_none_of_unlocked (t : Task) (h : t.isLocked = false) : t.owner = none := by
  simp [Task.owner, h]

theorem parent_none_of_unlocked (t : Task) (hi : t.idsOk = true) (h : t.isLocked = false) : t.parent = none := by
  rw [isLocked_iff t hi] at h
  cases hp : t.parent <;> simp_all

/-- What holds of the id strings of every roster entry: the offer id is never blanked;
    agent id and executor id are blanked only by a lost agent / executor, which also makes the
    task INACTIVE (and TASK_RUNNING, which makes it ACTIVE, writes both again). (The hostname is
    written once, from the offer, and may be empty from birth: `hostOk` is not part of this.) -/
def Task.sound (t : Task) : Prop :=
  t.offer = true ∧ (t.active = true → t.agent = true ∧ t.executor = true)

theorem sound_of_idsOk (t : Task) (h : t.idsOk = true) : t.sound := by
  simp only [Task.idsOk, Bool.and_eq_true] at h
  exact ⟨h.1.2, fun _ => ⟨h.1.1.2, h.2⟩⟩

theorem idsOk_of_sound_active (t : Task) (h : t.sound) (hh : t.hostOk = true) (ha : t.active = true) : t.idsOk = true := by
  obtain ⟨b, c⟩ := h
  simp [Task.idsOk, hh, b, c ha]

/-- Rewriting fields other than the id strings and the status keeps soundness. -/
theorem sound_congr {t t' : Task} (_h1 : t'.hostOk = t.hostOk) (h2 : t'.offer = t.offer) (h3 : t'.agent = t.agent)
    (h4 : t'.executor = t.executor) (h5 : t'.active = t.active) : t.sound → t'.sound := by
  intro h; unfold Task.sound at *; rw [h2, h3, h4, h5]; exact h

/-! ### the invariant -/

/-- What holds of every state reachable without a free-standing claim step. -/
structure Inv (s : State) : Prop where
  ids : ∀ t ∈ s.roster, t.sound
  fresh : ∀ t ∈ s.roster, t.id < s.nextTask
  rosterNodup : (s.roster.map (·.id)).Nodup
  envFresh : ∀ E ∈ s.envs, ∀ x ∈ E.tasks, x < s.nextTask
  envUsed : ∀ E ∈ s.envs, E.id ∈ s.used
  envNodup : (s.envs.map (·.id)).Nodup
  hooksSub : ∀ E ∈ s.envs, ∀ h ∈ E.hooks, h.task ∈ E.tasks
  disjoint : ∀ E1 ∈ s.envs, ∀ E2 ∈ s.envs, E1.tearing = false → E2.tearing = false → E1.id ≠ E2.id →
    ∀ x ∈ E1.tasks, x ∉ E2.tasks
  owned : ∀ E ∈ s.envs, E.tearing = false → ∀ t ∈ s.roster, t.id ∈ E.tasks → t.parent = some E.id
  pendUsed : ∀ p ∈ s.creating, p.id ∈ s.used
  pendNodup : (s.creating.map (·.id)).Nodup
  pendFresh : ∀ p ∈ s.creating, p.inserted = false → ∀ E ∈ s.envs, E.id ≠ p.id
  pendListed : ∀ p ∈ s.creating, p.inserted = true → ∃ E ∈ s.envs, E.id = p.id ∧ E.tasks = [] ∧ E.hooks = [] ∧ E.tearing = false
  pendClaims : ∀ p ∈ s.creating, p.claims = none

theorem inv_init (reuse : Bool) (hosts : List Host) (c : Cfg := codeCfg) : Inv (init reuse hosts c) := by
  constructor <;> simp [init]

end Own

namespace Own

/-- The invariant only looks at roster, environments, ids and pending creations; shrinking the
    roster keeps it. -/
theorem inv_of_roster_subset {s s' : State} (h : Inv s)
    (hsl : List.Sublist s'.roster s.roster) (he : s'.envs = s.envs) (hu : s'.used = s.used)
    (hn : s'.nextTask = s.nextTask) (hc : s'.creating = s.creating) : Inv s' := by
  have hr : ∀ t ∈ s'.roster, t ∈ s.roster := fun t ht => hsl.subset ht
  constructor
  · intro t ht; exact h.ids t (hr t ht)
  · intro t ht; rw [hn]; exact h.fresh t (hr t ht)
  · exact h.rosterNodup.sublist (hsl.map _)
  · rw [he, hn]; exact h.envFresh
  · rw [he, hu]; exact h.envUsed
  · rw [he]; exact h.envNodup
  · rw [he]; exact h.hooksSub
  · rw [he]; exact h.disjoint
  · rw [he]; intro E hE ht t htr; exact h.owned E hE ht t (hr t htr)
  · rw [hc, hu]; exact h.pendUsed
  · rw [hc]; exact h.pendNodup
  · rw [hc, he]; exact h.pendFresh
  · rw [hc, he]; exact h.pendListed
  · rw [hc]; exact h.pendClaims

/-- Fields the invariant does not read may change freely. -/
theorem inv_congr {s s' : State} (h : Inv s) (hr : s'.roster = s.roster) (he : s'.envs = s.envs)
    (hu : s'.used = s.used) (hn : s'.nextTask = s.nextTask) (hc : s'.creating = s.creating) : Inv s' :=
  inv_of_roster_subset h (by rw [hr]; exact List.Sublist.refl _) he hu hn hc

/-- The same for a roster that is rearranged: every entry is an old one and ids stay unique. -/
theorem inv_of_roster_mem {s s' : State} (h : Inv s)
    (hr : ∀ t ∈ s'.roster, t ∈ s.roster) (hnd : (s'.roster.map (·.id)).Nodup) (he : s'.envs = s.envs) (hu : s'.used = s.used)
    (hn : s'.nextTask = s.nextTask) (hc : s'.creating = s.creating) : Inv s' := by
  constructor
  · intro t ht; exact h.ids t (hr t ht)
  · intro t ht; rw [hn]; exact h.fresh t (hr t ht)
  · exact hnd
  · rw [he, hn]; exact h.envFresh
  · rw [he, hu]; exact h.envUsed
  · rw [he]; exact h.envNodup
  · rw [he]; exact h.hooksSub
  · rw [he]; exact h.disjoint
  · rw [he]; intro E hE ht t htr; exact h.owned E hE ht t (hr t htr)
  · rw [hc, hu]; exact h.pendUsed
  · rw [hc]; exact h.pendNodup
  · rw [hc, he]; exact h.pendFresh
  · rw [hc, he]; exact h.pendListed
  · rw [hc]; exact h.pendClaims

/-- The roster `doKill` leaves: what was not in the list, then the tasks whose KILL call failed. -/
theorem doKill_roster (s : State) (tk : List Task) :
    (doKill s tk).roster = s.roster.filter (fun t => decide (t.id ∉ tk.map (·.id)))
      ++ (tk.filter (·.active)).filter (fun t => decide (t.id ∈ s.refusing)) := rfl

theorem mem_doKill_roster {s : State} {tk : List Task} (hsub : List.Sublist tk s.roster) {t : Task}
    (ht : t ∈ (doKill s tk).roster) : t ∈ s.roster := by
  rw [doKill_roster] at ht
  rcases List.mem_append.mp ht with h | h
  · exact (List.mem_filter.mp h).1
  · exact hsub.subset (List.mem_filter.mp (List.mem_filter.mp h).1).1

/-- A task put back by `doKill` is one of the list, ACTIVE, and its KILL call failed. -/
theorem mem_doKill_back {s : State} {tk : List Task} {t : Task}
    (ht : t ∈ (tk.filter (·.active)).filter (fun t => decide (t.id ∈ s.refusing))) :
    t ∈ tk ∧ t.active = true ∧ t.id ∈ s.refusing := by
  obtain ⟨h1, h2⟩ := List.mem_filter.mp ht
  obtain ⟨h3, h4⟩ := List.mem_filter.mp h1
  exact ⟨h3, h4, by simpa using h2⟩

theorem doKill_roster_nodup (s : State) (tk : List Task) (hsub : List.Sublist tk s.roster)
    (hnd : (s.roster.map (·.id)).Nodup) : ((doKill s tk).roster.map (·.id)).Nodup := by
  rw [doKill_roster, List.map_append]
  refine List.nodup_append.mpr ⟨?_, ?_, ?_⟩
  · exact hnd.sublist (List.Sublist.map _ (List.filter_sublist))
  · exact hnd.sublist (List.Sublist.map _ ((List.filter_sublist).trans ((List.filter_sublist).trans hsub)))
  · intro a ha b hb hab
    obtain ⟨x, hx, rfl⟩ := List.mem_map.mp ha
    obtain ⟨y, hy, rfl⟩ := List.mem_map.mp hb
    have hx2 := (List.mem_filter.mp hx).2
    simp only [decide_eq_true_eq] at hx2
    apply hx2
    rw [hab]
    exact List.mem_map_of_mem (mem_doKill_back hy).1

theorem inv_doKill (s : State) (tk : List Task) (hsub : List.Sublist tk s.roster) (h : Inv s) : Inv (doKill s tk) :=
  inv_of_roster_mem h (fun _ ht => mem_doKill_roster hsub ht) (doKill_roster_nodup s tk hsub h.rosterNodup) rfl rfl rfl rfl

theorem inv_cleanup (s : State) (h : Inv s) : Inv (cleanup s) := inv_doKill s _ List.filter_sublist h
theorem inv_killTasks (s : State) (ids : List TaskId) (h : Inv s) : Inv (killTasks s ids) := inv_doKill s _ List.filter_sublist h
theorem inv_cleanupTasks (s : State) (ids : List TaskId) (h : Inv s) : Inv (cleanupTasks s ids) := by
  unfold cleanupTasks; split
  · exact inv_cleanup s h
  · exact inv_killTasks s ids h

/-- Every KILL that `doKill` sends names a task of the list it was given. -/
theorem killLog_doKill (s : State) (tk : List Task) :
    (doKill s tk).killLog = s.killLog ++ (tk.filter (·.active)).map (fun t => (t.id, t.owner)) := rfl

end Own

namespace Own

/-- Rewriting roster entries and environment records without touching ids, parents,
    id strings, task references, hooks or the tearing mark keeps the invariant. -/
theorem inv_of_maps {s s' : State} (h : Inv s) (g : Task → Task) (f : Env → Env)
    (hg : ∀ t, (g t).id = t.id ∧ (t.sound → (g t).sound) ∧ (g t).parent = t.parent)
    (hf : ∀ E, (f E).id = E.id ∧ (f E).tasks = E.tasks ∧ (f E).hooks = E.hooks ∧ (f E).tearing = E.tearing)
    (hr : s'.roster = s.roster.map g) (he : s'.envs = s.envs.map f) (hu : s'.used = s.used)
    (hn : s'.nextTask = s.nextTask) (hc : s'.creating = s.creating) : Inv s' := by
  have memE : ∀ E' ∈ s'.envs, ∃ E ∈ s.envs, E' = f E := by
    intro E' hE'; rw [he] at hE'; obtain ⟨E, hE, rfl⟩ := List.mem_map.mp hE'; exact ⟨E, hE, rfl⟩
  have memT : ∀ t' ∈ s'.roster, ∃ t ∈ s.roster, t' = g t := by
    intro t' ht'; rw [hr] at ht'; obtain ⟨t, ht, rfl⟩ := List.mem_map.mp ht'; exact ⟨t, ht, rfl⟩
  constructor
  · intro t' ht'; obtain ⟨t, ht, rfl⟩ := memT t' ht'; exact (hg t).2.1 (h.ids t ht)
  · intro t' ht'; obtain ⟨t, ht, rfl⟩ := memT t' ht'; rw [(hg t).1, hn]; exact h.fresh t ht
  · rw [hr, List.map_map]
    have : ((fun x => x.id) ∘ g) = (fun x : Task => x.id) := by funext t; exact (hg t).1
    rw [this]; exact h.rosterNodup
  · intro E' hE'; obtain ⟨E, hE, rfl⟩ := memE E' hE'; rw [(hf E).2.1, hn]; exact h.envFresh E hE
  · intro E' hE'; obtain ⟨E, hE, rfl⟩ := memE E' hE'; rw [(hf E).1, hu]; exact h.envUsed E hE
  · rw [he, List.map_map]
    have : ((fun x => x.id) ∘ f) = (fun x : Env => x.id) := by funext E; exact (hf E).1
    rw [this]; exact h.envNodup
  · intro E' hE'; obtain ⟨E, hE, rfl⟩ := memE E' hE'; rw [(hf E).2.2.1, (hf E).2.1]; exact h.hooksSub E hE
  · intro E1' h1 E2' h2
    obtain ⟨E1, hE1, rfl⟩ := memE E1' h1; obtain ⟨E2, hE2, rfl⟩ := memE E2' h2
    rw [(hf E1).2.2.2, (hf E2).2.2.2, (hf E1).1, (hf E2).1, (hf E1).2.1, (hf E2).2.1]
    exact h.disjoint E1 hE1 E2 hE2
  · intro E' hE' ht t' ht' hx
    obtain ⟨E, hE, rfl⟩ := memE E' hE'; obtain ⟨t, htm, rfl⟩ := memT t' ht'
    rw [(hf E).2.2.2] at ht; rw [(hg t).1, (hf E).2.1] at hx
    rw [(hg t).2.2, (hf E).1]; exact h.owned E hE ht t htm hx
  · rw [hc, hu]; exact h.pendUsed
  · rw [hc]; exact h.pendNodup
  · rw [hc]; intro p hp hi E' hE'; obtain ⟨E, hE, rfl⟩ := memE E' hE'; rw [(hf E).1]; exact h.pendFresh p hp hi E hE
  · rw [hc]; intro p hp hi
    obtain ⟨E, hE, h1, h2, h3, h4⟩ := h.pendListed p hp hi
    refine ⟨f E, ?_, ?_, ?_, ?_, ?_⟩
    · rw [he]; exact List.mem_map_of_mem hE
    · rw [(hf E).1]; exact h1
    · rw [(hf E).2.1]; exact h2
    · rw [(hf E).2.2.1]; exact h3
    · rw [(hf E).2.2.2]; exact h4
  · rw [hc]; exact h.pendClaims

theorem setEnv_envs (s : State) (k : EnvId) (f : Env → Env) :
    (setEnv s k f).envs = s.envs.map (fun E => if E.id = k then f E else E) := rfl

/-- `setEnv` with a function that only rewrites state / pending. -/
theorem inv_setEnv (s : State) (k : EnvId) (f : Env → Env) (h : Inv s)
    (hf : ∀ E, (f E).id = E.id ∧ (f E).tasks = E.tasks ∧ (f E).hooks = E.hooks ∧ (f E).tearing = E.tearing) :
    Inv (setEnv s k f) := by
  apply inv_of_maps h id (fun E => if E.id = k then f E else E)
  · intro t; simp
  · intro E; by_cases hk : E.id = k <;> simp [hk, hf E]
  · simp [setEnv]
  · rfl
  · rfl
  · rfl
  · rfl

theorem inv_setEnv_state (s : State) (k : EnvId) (st : EState) (h : Inv s) :
    Inv (setEnv s k (fun X => { X with state := st })) :=
  inv_setEnv s k _ h (fun _ => ⟨rfl, rfl, rfl, rfl⟩)

theorem inv_applyTrans (s : State) (E : Env) (ev : CEv) (fails : List (TaskId × Bool)) (h : Inv s) :
    Inv (applyTrans s E ev fails).1 := by
  apply inv_of_maps h (fun t =>
      if isTarget E t then
        match fails.lookup t.id with
        | some true => { t with state := .ERROR }
        | some false => t
        | none => { t with state := taskDst ev }
      else t) id
  · intro t
    by_cases ht : isTarget E t
    · simp only [ht, if_true]
      cases hl : fails.lookup t.id with
      | none => exact ⟨rfl, sound_congr rfl rfl rfl rfl rfl, rfl⟩
      | some b => cases b <;> exact ⟨rfl, sound_congr rfl rfl rfl rfl rfl, rfl⟩
    · simp [ht]
  · intro E; simp
  · rfl
  · simp [applyTrans]
  · rfl
  · rfl
  · rfl

theorem inv_control (s : State) (k : EnvId) (ev : CEv) (fails : List (TaskId × Bool)) (pre : Bool) (h : Inv s) :
    Inv (control s k ev fails pre).1 := by
  unfold control
  split
  · exact h
  split
  · exact h
  · rename_i E _
    split
    · exact h
    · split
      · split
        · exact h
        · exact inv_setEnv _ _ _ h (by intro E; simp)
      · split
        · exact inv_setEnv _ _ _ h (by intro E; simp)
        · have h0 : Inv (restartCalls s k E ev) := by
            unfold restartCalls
            split
            · exact inv_setEnv _ _ _ h (fun _ => ⟨rfl, rfl, rfl, rfl⟩)
            · exact h
          generalize restartCalls s k E ev = s0 at h0 ⊢
          simp only []
          split
          · exact inv_setEnv_state _ _ _ (inv_applyTrans _ E ev fails h0)
          · exact inv_setEnv_state _ _ _ (inv_applyTrans _ E ev fails h0)

theorem inv_mesosStart (s : State) (k : EnvId) (h : Inv s) : Inv (mesosStart s k) := by
  unfold mesosStart
  apply inv_of_maps h (fun t => if t.id ∈ (List.map (·.id) (s.master.filter (fun m => decide (m.label = k) && decide (m.mesos = .staging)))) then { t with active := true, agent := true, executor := true } else t) id
  · intro t
    split
    · exact ⟨rfl, fun hs => ⟨hs.1, fun _ => ⟨rfl, rfl⟩⟩, rfl⟩
    · exact ⟨rfl, id, rfl⟩
  · intro E; simp
  · rfl
  · simp
  · rfl
  · rfl
  · rfl

/-! ### status updates -/

/-- Under the code's guards a status update touches nothing but the status of an entry whose ids are there. -/
theorem onStatus_code (u : StatusUpd) (t : Task) (ha : t.agent = true) (he : t.executor = true) :
    t.onStatus TaskIds.codeGuards u = if u.running then { t with active := true } else t := by
  unfold Task.onStatus
  split
  · have h1 : TaskIds.copyId TaskIds.codeGuards.agent t.agent u.agent = t.agent := by
      rw [ha]; exact TaskIds.copyId_guarded _ _ rfl
    have h2 : TaskIds.copyId TaskIds.codeGuards.executor t.executor u.executor = t.executor := by
      rw [he]; exact TaskIds.copyId_guarded _ _ rfl
    rw [h1, h2]
  · rfl

/-- The entry the code's `statusUpdate` writes, field by field. -/
theorem statusUpdate_code_entry (x : TaskId) (u : StatusUpd) (t : Task) :
    let t' := if decide (t.id = x) && t.agent && t.executor then t.onStatus TaskIds.codeGuards u else t
    t'.id = t.id ∧ t'.parent = t.parent ∧ t'.idsOk = t.idsOk ∧ t'.isLocked = t.isLocked ∧ t'.owner = t.owner ∧
    t'.state = t.state ∧ t'.cls = t.cls ∧ t'.host = t.host ∧ (t.sound → t'.sound) ∧ (t.active = true → t'.active = true) := by
  intro t'
  by_cases hc : (decide (t.id = x) && t.agent && t.executor) = true
  · have hc' := hc
    simp only [Bool.and_eq_true, decide_eq_true_eq] at hc'
    have e : t' = if u.running then { t with active := true } else t := by
      show (if decide (t.id = x) && t.agent && t.executor then t.onStatus TaskIds.codeGuards u else t) = _
      rw [if_pos hc, onStatus_code u t hc'.1.2 hc'.2]
    rw [e]
    cases hr : u.running
    · simp
    · rw [if_pos rfl]
      refine ⟨rfl, rfl, rfl, rfl, rfl, rfl, rfl, rfl, ?_, fun _ => rfl⟩
      intro hs
      exact ⟨hs.1, fun _ => ⟨hc'.1.2, hc'.2⟩⟩
  · have e : t' = t := by
      show (if decide (t.id = x) && t.agent && t.executor then t.onStatus TaskIds.codeGuards u else t) = _
      rw [if_neg hc]
    rw [e]
    exact ⟨rfl, rfl, rfl, rfl, rfl, rfl, rfl, rfl, id, id⟩

theorem inv_statusUpdate (s : State) (x : TaskId) (u : StatusUpd) (h : Inv s) :
    Inv (statusUpdate TaskIds.codeGuards s x u) := by
  apply inv_of_maps h (fun t => if decide (t.id = x) && t.agent && t.executor then t.onStatus TaskIds.codeGuards u else t) id
  · intro t
    have e := statusUpdate_code_entry x u t
    exact ⟨e.1, e.2.2.2.2.2.2.2.2.1, e.2.1⟩
  · intro E; simp
  · rfl
  · simp [statusUpdate]
  · rfl
  · rfl
  · rfl

/-- **A status update is invisible to ownership**: whatever it omits, every roster entry keeps its owner, its
    lock and its state; environments, the master's table and the KILL log are untouched. -/
theorem view_statusUpdate (s : State) (x : TaskId) (u : StatusUpd) :
    viewOf (statusUpdate TaskIds.codeGuards s x u) = viewOf s := by
  have hr : (statusUpdate TaskIds.codeGuards s x u).roster.map
        (fun t => ({ task := t.id, owner := t.parent, locked := t.isLocked, state := if t.isLocked then some t.state else none } : RosterRow))
      = s.roster.map (fun t => ({ task := t.id, owner := t.parent, locked := t.isLocked, state := if t.isLocked then some t.state else none } : RosterRow)) := by
    simp only [statusUpdate, List.map_map]
    apply List.map_congr_left
    intro t _
    have e := statusUpdate_code_entry x u t
    simp only [Function.comp]
    rw [e.1, e.2.1, e.2.2.2.1, e.2.2.2.2.2.1]
  simp only [viewOf, hr]
  rfl

end Own

namespace Own

theorem env?_some {s : State} {k : EnvId} {E : Env} (h : s.env? k = some E) : E ∈ s.envs ∧ E.id = k := by
  unfold State.env? at h
  exact ⟨List.mem_of_find?_eq_some h, by simpa using List.find?_some h⟩

/-- Releasing tasks of one live environment and taking that environment out of the set of
    live ones (deleting it or marking it as torn) keeps the invariant. -/
theorem inv_release_env {s s' : State} (h : Inv s) (E : Env) (hE : E ∈ s.envs) (hk : E.tearing = false)
    (hp : ∀ p ∈ s.creating, p.id ≠ E.id)
    (g : Task → Task)
    (hg : ∀ t, (g t).id = t.id ∧ (t.sound → (g t).sound) ∧
      ((g t).parent = t.parent ∨ ((g t).parent = none ∧ t.id ∈ E.tasks)))
    (hr : s'.roster = s.roster.map g)
    (hsub : ∀ E' ∈ s'.envs, ∃ E'' ∈ s.envs, E'.id = E''.id ∧ E'.tasks = E''.tasks ∧ E'.hooks = E''.hooks ∧
      (E'.tearing = false → E''.tearing = false ∧ E''.id ≠ E.id))
    (hnd : (s'.envs.map (·.id)).Nodup)
    (hkeep : ∀ E'' ∈ s.envs, E''.id ≠ E.id → ∃ E' ∈ s'.envs, E'.id = E''.id ∧ E'.tasks = E''.tasks ∧
      E'.hooks = E''.hooks ∧ E'.tearing = E''.tearing)
    (hu : s'.used = s.used) (hn : s'.nextTask = s.nextTask) (hc : s'.creating = s.creating) : Inv s' := by
  have memT : ∀ t' ∈ s'.roster, ∃ t ∈ s.roster, t' = g t := by
    intro t' ht'; rw [hr] at ht'; obtain ⟨t, ht, rfl⟩ := List.mem_map.mp ht'; exact ⟨t, ht, rfl⟩
  constructor
  · intro t' ht'; obtain ⟨t, ht, rfl⟩ := memT t' ht'; exact (hg t).2.1 (h.ids t ht)
  · intro t' ht'; obtain ⟨t, ht, rfl⟩ := memT t' ht'; rw [(hg t).1, hn]; exact h.fresh t ht
  · rw [hr, List.map_map]
    have : ((fun x => x.id) ∘ g) = (fun x : Task => x.id) := by funext t; exact (hg t).1
    rw [this]; exact h.rosterNodup
  · intro E' hE'; obtain ⟨E'', hE'', _, h2, _, _⟩ := hsub E' hE'; rw [h2, hn]; exact h.envFresh E'' hE''
  · intro E' hE'; obtain ⟨E'', hE'', h1, _, _, _⟩ := hsub E' hE'; rw [h1, hu]; exact h.envUsed E'' hE''
  · exact hnd
  · intro E' hE'; obtain ⟨E'', hE'', _, h2, h3, _⟩ := hsub E' hE'; rw [h2, h3]; exact h.hooksSub E'' hE''
  · intro E1' h1 E2' h2 t1 t2 hne
    obtain ⟨E1, hE1, a1, a2, _, a4⟩ := hsub E1' h1
    obtain ⟨E2, hE2, b1, b2, _, b4⟩ := hsub E2' h2
    rw [a2, b2]; rw [a1, b1] at hne
    exact h.disjoint E1 hE1 E2 hE2 (a4 t1).1 (b4 t2).1 hne
  · intro E' hE' ht t' ht' hx
    obtain ⟨E'', hE'', a1, a2, _, a4⟩ := hsub E' hE'
    obtain ⟨t, htm, rfl⟩ := memT t' ht'
    rw [(hg t).1, a2] at hx
    rcases (hg t).2.2 with hpar | ⟨_, hin⟩
    · rw [hpar, a1]; exact h.owned E'' hE'' (a4 ht).1 t htm hx
    · exact absurd hx (h.disjoint E hE E'' hE'' hk (a4 ht).1 (fun e => (a4 ht).2 e.symm) t.id hin)
  · rw [hc, hu]; exact h.pendUsed
  · rw [hc]; exact h.pendNodup
  · rw [hc]; intro p hp' hi E' hE'
    obtain ⟨E'', hE'', a1, _, _, _⟩ := hsub E' hE'; rw [a1]; exact h.pendFresh p hp' hi E'' hE''
  · rw [hc]; intro p hp' hi
    obtain ⟨E'', hE'', a1, a2, a3, a4⟩ := h.pendListed p hp' hi
    have hne : E''.id ≠ E.id := by rw [a1]; exact hp p hp'
    obtain ⟨E', hE', b1, b2, b3, b4⟩ := hkeep E'' hE'' hne
    exact ⟨E', hE', by rw [b1, a1], by rw [b2, a2], by rw [b3, a3], by rw [b4, a4]⟩
  · rw [hc]; exact h.pendClaims

theorem releaseTask_props (e : EnvId) (t : Task) :
    (releaseTask e t).1.id = t.id ∧ (t.sound → (releaseTask e t).1.sound) ∧
    ((releaseTask e t).1.parent = t.parent ∨ (releaseTask e t).1.parent = none) := by
  unfold releaseTask; split
  · exact ⟨rfl, sound_congr rfl rfl rfl rfl rfl, Or.inr rfl⟩
  · exact ⟨rfl, id, Or.inl rfl⟩

/-- No release error for a task that is the environment's own or nobody's. -/
theorem releaseOk_of_parent (e : EnvId) (t : Task) (h : t.parent = some e ∨ t.parent = none) : releaseOk e t = true := by
  rcases h with h | h <;> simp [releaseOk, Task.isLocked, h]

theorem releaseTasks_errs_zero (s : State) (e : EnvId) (ids : List TaskId)
    (h : ∀ t ∈ s.roster, t.id ∈ ids → (t.parent = some e ∨ t.parent = none)) : (releaseTasks s e ids).2 = 0 := by
  simp only [releaseTasks, List.length_eq_zero_iff, List.filter_eq_nil_iff]
  intro t ht
  by_cases hi : t.id ∈ ids
  · simp [hi, releaseOk_of_parent e t (h t ht hi)]
  · simp [hi]

theorem hooksAt_sub (hs : List HookRef) (w : Int) : ∀ x ∈ hooksAt hs w, ∃ h ∈ hs, h.task = x := by
  intro x hx
  unfold hooksAt at hx
  simp only [List.mem_map] at hx
  obtain ⟨h, hh, rfl⟩ := hx
  split at hh
  · exact ⟨h, (List.mem_filter.mp hh).1, rfl⟩
  · exact ⟨h, (List.mem_filter.mp hh).1, rfl⟩

end Own

namespace Own

/-! ### teardown -/

theorem tdPlain_sub (E : Env) : ∀ x ∈ tdPlain E, x ∈ E.tasks := by
  intro x hx; exact (List.mem_filter.mp hx).1

theorem effHooks_sub (hs : List HookRef) : ∀ x ∈ effHooks hs, ∃ h ∈ hs, h.task = x := by
  intro x hx
  obtain ⟨w, _, hw⟩ := List.mem_flatMap.mp hx
  exact hooksAt_sub hs w x hw

theorem tdMsg_sub (s1 : State) (E : Env) (hh : ∀ h ∈ E.hooks, h.task ∈ E.tasks) : ∀ x ∈ tdMsg s1 E, x ∈ E.tasks := by
  intro x hx
  unfold tdMsg at hx
  split at hx
  · obtain ⟨h, hh', rfl⟩ := effHooks_sub E.hooks x hx
    exact hh h hh'
  split at hx
  · exact tdPlain_sub E x hx
  · unfold tdRun at hx
    obtain ⟨h, hh', rfl⟩ := hooksAt_sub E.hooks _ x (List.mem_filter.mp hx).1
    exact hh h hh'

/-- The roster after a ReleaseTasks message, as a map. -/
def relMap (e : EnvId) (ids : List TaskId) (t : Task) : Task := if t.id ∈ ids then (releaseTask e t).1 else t

theorem releaseTasks_roster (s : State) (e : EnvId) (ids : List TaskId) :
    (releaseTasks s e ids).1.roster = s.roster.map (relMap e ids) := rfl

theorem relMap_props (e : EnvId) (ids : List TaskId) (t : Task) :
    (relMap e ids t).id = t.id ∧ (t.sound → (relMap e ids t).sound) ∧
    ((relMap e ids t).parent = t.parent ∨ ((relMap e ids t).parent = none ∧ t.id ∈ ids)) := by
  unfold relMap
  by_cases h : t.id ∈ ids
  · simp only [h, if_true]
    obtain ⟨a, b, c⟩ := releaseTask_props e t
    exact ⟨a, b, c.elim Or.inl (fun c => Or.inr ⟨c, trivial⟩)⟩
  · simp [h]

/-- Environment lists after a teardown: the torn environment is deleted or marked. -/
theorem envs_after_delete (envs : List Env) (k : EnvId) (f : Env → Env)
    (hf : ∀ E, (f E).id = E.id ∧ (f E).tasks = E.tasks ∧ (f E).hooks = E.hooks ∧ (f E).tearing = E.tearing)
    (hnd : (envs.map (·.id)).Nodup) :
    let envs' := (envs.map f).filter (fun X => decide (X.id ≠ k))
    (∀ E' ∈ envs', ∃ E'' ∈ envs, E'.id = E''.id ∧ E'.tasks = E''.tasks ∧ E'.hooks = E''.hooks ∧
      (E'.tearing = false → E''.tearing = false ∧ E''.id ≠ k)) ∧
    (envs'.map (·.id)).Nodup ∧
    (∀ E'' ∈ envs, E''.id ≠ k → ∃ E' ∈ envs', E'.id = E''.id ∧ E'.tasks = E''.tasks ∧ E'.hooks = E''.hooks ∧
      E'.tearing = E''.tearing) := by
  intro envs'
  refine ⟨?_, ?_, ?_⟩
  · intro E' hE'
    obtain ⟨hm, hne⟩ := List.mem_filter.mp hE'
    obtain ⟨E'', hE'', rfl⟩ := List.mem_map.mp hm
    have := hf E''
    refine ⟨E'', hE'', this.1, this.2.1, this.2.2.1, fun ht => ⟨by rw [← this.2.2.2]; exact ht, ?_⟩⟩
    simpa [this.1] using hne
  · have hsub : List.Sublist (envs'.map (·.id)) ((envs.map f).map (·.id)) := (List.filter_sublist).map _
    have : (envs.map f).map (·.id) = envs.map (·.id) := by
      rw [List.map_map]; congr 1; funext E; exact (hf E).1
    rw [this] at hsub
    exact hnd.sublist hsub
  · intro E'' hE'' hne
    refine ⟨f E'', ?_, (hf E'').1, (hf E'').2.1, (hf E'').2.2.1, (hf E'').2.2.2⟩
    exact List.mem_filter.mpr ⟨List.mem_map_of_mem hE'', by simp [(hf E'').1, hne]⟩

theorem envs_after_mark (envs : List Env) (k : EnvId) (f : Env → Env)
    (hf : ∀ E, (f E).id = E.id ∧ (f E).tasks = E.tasks ∧ (f E).hooks = E.hooks ∧
      (E.id = k → (f E).tearing = true) ∧ (E.id ≠ k → (f E).tearing = E.tearing))
    (hnd : (envs.map (·.id)).Nodup) :
    let envs' := envs.map f
    (∀ E' ∈ envs', ∃ E'' ∈ envs, E'.id = E''.id ∧ E'.tasks = E''.tasks ∧ E'.hooks = E''.hooks ∧
      (E'.tearing = false → E''.tearing = false ∧ E''.id ≠ k)) ∧
    (envs'.map (·.id)).Nodup ∧
    (∀ E'' ∈ envs, E''.id ≠ k → ∃ E' ∈ envs', E'.id = E''.id ∧ E'.tasks = E''.tasks ∧ E'.hooks = E''.hooks ∧
      E'.tearing = E''.tearing) := by
  intro envs'
  refine ⟨?_, ?_, ?_⟩
  · intro E' hE'
    obtain ⟨E'', hE'', rfl⟩ := List.mem_map.mp hE'
    have := hf E''
    refine ⟨E'', hE'', this.1, this.2.1, this.2.2.1, fun ht => ?_⟩
    by_cases hk : E''.id = k
    · rw [this.2.2.2.1 hk] at ht; exact absurd ht (by simp)
    · exact ⟨by rw [← this.2.2.2.2 hk]; exact ht, hk⟩
  · have : (envs.map f).map (·.id) = envs.map (·.id) := by
      rw [List.map_map]; congr 1; funext E; exact (hf E).1
    show ((envs.map f).map (·.id)).Nodup
    rw [this]; exact hnd
  · intro E'' hE'' hne
    exact ⟨f E'', List.mem_map_of_mem hE'', (hf E'').1, (hf E'').2.1, (hf E'').2.2.1, (hf E'').2.2.2.2 hne⟩

theorem inv_tdFinish (s s1 : State) (k : EnvId) (E : Env) (late : Bool) (hf : List TaskId) (h : Inv s)
    (hE : E ∈ s.envs) (hEk : E.id = k) (hte : E.tearing = false) (hp : ∀ p ∈ s.creating, p.id ≠ k)
    (ids1 : List TaskId) (hsub1 : ∀ x ∈ ids1, x ∈ E.tasks)
    (hr : s1.roster = s.roster.map (relMap k ids1)) (he : s1.envs = s.envs) (hu : s1.used = s.used)
    (hn : s1.nextTask = s.nextTask) (hc : s1.creating = s.creating) :
    Inv (tdFinish s1 k E late hf).1 := by
  subst hEk
  have hmsg := tdMsg_sub s1 E (h.hooksSub E hE)
  have hg1 : ∀ t, (relMap E.id ids1 t).id = t.id ∧ (t.sound → (relMap E.id ids1 t).sound) ∧
      ((relMap E.id ids1 t).parent = t.parent ∨ ((relMap E.id ids1 t).parent = none ∧ t.id ∈ E.tasks)) := fun t => by
    obtain ⟨x, y, z⟩ := relMap_props E.id ids1 t
    exact ⟨x, y, z.elim Or.inl (fun z => Or.inr ⟨z.1, hsub1 _ z.2⟩)⟩
  unfold tdFinish
  simp only []
  split
  · -- the call hangs: the environment stays listed, marked
    have hen : (setEnv (tdCancel s1 E.id E) E.id (fun X => { X with tearing := true })).envs =
        s.envs.map (fun X => if X.id = E.id then { X with cancelled := X.cancelled + X.pending, pending := 0, tearing := true } else X) := by
      simp only [setEnv, tdCancel, he, List.map_map]
      congr 1; funext X; by_cases hk : X.id = E.id <;> simp [hk]
    obtain ⟨a, b, c⟩ := envs_after_mark s.envs E.id
      (fun X => if X.id = E.id then { X with cancelled := X.cancelled + X.pending, pending := 0, tearing := true } else X)
      (by intro X; by_cases hk : X.id = E.id <;> simp [hk]) h.envNodup
    apply inv_release_env h E hE hte hp (relMap E.id ids1) hg1
      (s' := setEnv (tdCancel s1 E.id E) E.id (fun X => { X with tearing := true }))
    · simp [setEnv, tdCancel, hr]
    · rw [hen]; exact a
    · rw [hen]; exact b
    · rw [hen]; exact c
    · simp [setEnv, tdCancel, hu]
    · simp [setEnv, tdCancel, hn]
    · simp [setEnv, tdCancel, hc]
  · -- second release: no error is possible, then the environment is deleted
    have hr2 : (tdCancel s1 E.id E).roster = s.roster.map (relMap E.id ids1) := by simp [tdCancel, setEnv, hr]
    have herr : (releaseTasks (tdCancel s1 E.id E) E.id (tdMsg s1 E)).2 = 0 := by
      apply releaseTasks_errs_zero
      intro t' ht' hx
      rw [hr2] at ht'
      obtain ⟨t, ht, rfl⟩ := List.mem_map.mp ht'
      obtain ⟨x, _, z⟩ := relMap_props E.id ids1 t
      rw [x] at hx
      have hpar := h.owned E hE hte t ht (hmsg _ hx)
      rcases z with z | z
      · left; rw [z]; exact hpar
      · right; exact z.1
    rw [herr]
    simp only [Nat.lt_irrefl, if_false]
    have hen : ((releaseTasks (tdCancel s1 E.id E) E.id (tdMsg s1 E)).1.envs.filter (fun X => decide (X.id ≠ E.id))) =
        (s.envs.map (fun X => if X.id = E.id then { X with cancelled := X.cancelled + X.pending, pending := 0 } else X)).filter (fun X => decide (X.id ≠ E.id)) := by
      simp [releaseTasks, tdCancel, setEnv, he]
    obtain ⟨a, b, c⟩ := envs_after_delete s.envs E.id
      (fun X => if X.id = E.id then { X with cancelled := X.cancelled + X.pending, pending := 0 } else X)
      (by intro X; by_cases hk : X.id = E.id <;> simp [hk]) h.envNodup
    apply inv_release_env h E hE hte hp (fun t => relMap E.id (tdMsg s1 E) (relMap E.id ids1 t))
      (fun t => by
        obtain ⟨x1, y1, z1⟩ := hg1 t
        obtain ⟨x2, y2, z2⟩ := relMap_props E.id (tdMsg s1 E) (relMap E.id ids1 t)
        refine ⟨by rw [x2, x1], fun hs => y2 (y1 hs), ?_⟩
        rcases z2 with z2 | z2
        · rw [z2]; exact z1
        · right; exact ⟨z2.1, hmsg _ (by rw [← x1]; exact z2.2)⟩)
    · simp [releaseTasks_roster, hr2, List.map_map]
    · show ∀ E' ∈ ((releaseTasks (tdCancel s1 E.id E) E.id (tdMsg s1 E)).1.envs.filter (fun X => decide (X.id ≠ E.id))), _
      rw [hen]; exact a
    · show (((releaseTasks (tdCancel s1 E.id E) E.id (tdMsg s1 E)).1.envs.filter (fun X => decide (X.id ≠ E.id))).map (·.id)).Nodup
      rw [hen]; exact b
    · show ∀ E'' ∈ s.envs, E''.id ≠ E.id → ∃ E' ∈ ((releaseTasks (tdCancel s1 E.id E) E.id (tdMsg s1 E)).1.envs.filter (fun X => decide (X.id ≠ E.id))), _
      rw [hen]; exact c
    · simp [releaseTasks, setEnv, tdCancel, hu]
    · simp [releaseTasks, setEnv, tdCancel, hn]
    · simp [releaseTasks, setEnv, tdCancel, hc]

theorem inv_teardown (s : State) (k : EnvId) (force late : Bool) (hf : List TaskId) (h : Inv s)
    (hp : ∀ p ∈ s.creating, p.id ≠ k) : Inv (teardown s k force late hf).1 := by
  unfold teardown
  split
  · exact h
  · rename_i E hE
    obtain ⟨hEm, hEk⟩ := env?_some hE
    split
    · exact h
    rename_i hte
    split
    · exact h
    split
    · exact h
    have herr : (releaseTasks s k (tdPlain E)).2 = 0 := by
      apply releaseTasks_errs_zero
      intro t ht hx
      left; rw [← hEk]; exact h.owned E hEm (by simpa using hte) t ht (tdPlain_sub E _ hx)
    simp only [herr, Nat.lt_irrefl, if_false]
    exact inv_tdFinish s _ k E _ hf h hEm hEk (by simpa using hte) hp (tdPlain E) (tdPlain_sub E)
      (releaseTasks_roster s k _) rfl rfl rfl rfl


theorem releaseTasks_creating (s : State) (e : EnvId) (ids : List TaskId) :
    (releaseTasks s e ids).1.creating = s.creating := rfl

theorem tdFinish_creating (s1 : State) (k : EnvId) (E : Env) (late : Bool) (hf : List TaskId) :
    (tdFinish s1 k E late hf).1.creating = s1.creating := by
  unfold tdFinish
  simp only []
  split
  · rfl
  · split <;> rfl

theorem teardown_creating (s : State) (k : EnvId) (force late : Bool) (hf : List TaskId) :
    (teardown s k force late hf).1.creating = s.creating := by
  unfold teardown
  split
  · rfl
  · split
    · rfl
    split
    · rfl
    split
    · rfl
    simp only []
    split
    · rfl
    · rw [tdFinish_creating]; rfl

theorem cleanupTasks_creating (s : State) (ids : List TaskId) : (cleanupTasks s ids).creating = s.creating := by
  unfold cleanupTasks; split <;> rfl

theorem inv_tcFin (keep : Bool) (ids : List TaskId) (s' : State) (res : TRes) (tr : List TEv) (h : Inv s') :
    Inv (tcFin keep ids s' res tr).1 := by
  unfold tcFin
  cases res <;> simp only []
  · split
    · exact h
    · exact inv_cleanupTasks s' ids h
  all_goals exact h

theorem inv_teardownAndCleanup (s : State) (k : EnvId) (ids : List TaskId) (force keep : Bool) (o : DOracle)
    (h : Inv s) (hp : ∀ p ∈ s.creating, p.id ≠ k) : Inv (teardownAndCleanup s k ids force keep o).1 := by
  have h1 := inv_teardown s k force o.late1 o.hookFails h hp
  unfold teardownAndCleanup
  simp only []
  split
  · exact inv_tcFin _ _ _ _ _ h1
  · apply inv_tcFin
    apply inv_teardown _ _ _ _ _ h1
    rw [teardown_creating]; exact hp

end Own

namespace Own

/-! ### destroy -/

theorem not_pending_of_any {s : State} {k : EnvId} (h : ¬ (s.creating.any (fun p => decide (p.id = k))) = true) :
    ∀ p ∈ s.creating, p.id ≠ k := by
  intro p hp hk
  apply h
  simp only [List.any_eq_true, decide_eq_true_eq]
  exact ⟨p, hp, hk⟩

theorem destroyStop_creating (s : State) (k : EnvId) (E : Env) (allow : Bool) (fails : List (TaskId × Bool)) :
    (destroyStop s k E allow fails).1.creating = s.creating := by
  unfold destroyStop; split
  · split <;> rfl
  · rfl

theorem inv_destroyStop (s : State) (k : EnvId) (E : Env) (allow : Bool) (fails : List (TaskId × Bool)) (h : Inv s) :
    Inv (destroyStop s k E allow fails).1 := by
  unfold destroyStop; split
  · split
    · exact inv_setEnv_state _ _ _ (inv_applyTrans s E _ _ h)
    · exact inv_applyTrans s E _ _ h
  · exact h

theorem inv_destroyRest (s1 : State) (st : EState) (stopOk : Bool) (k : EnvId) (E : Env) (keep : Bool) (o : DOracle)
    (h : Inv s1) (hp : ∀ p ∈ s1.creating, p.id ≠ k) : Inv (destroyRest s1 st stopOk k E keep o).1 := by
  unfold destroyRest
  split
  · exact inv_teardownAndCleanup _ _ _ _ _ _ h hp
  split
  · exact inv_teardownAndCleanup _ _ _ _ _ _ h hp
  split
  · split
    · exact inv_teardownAndCleanup _ _ _ _ _ _ (inv_setEnv_state _ _ _ (inv_applyTrans _ _ _ _ h)) hp
    · exact inv_teardownAndCleanup _ _ _ _ _ _ (inv_applyTrans _ _ _ _ h) hp
  · exact inv_teardownAndCleanup _ _ _ _ _ _ h hp

theorem inv_destroy (s : State) (k : EnvId) (force allow keep : Bool) (o : DOracle) (h : Inv s) :
    Inv (destroy s k force allow keep o).1 := by
  unfold destroy
  split
  · exact h
  rename_i hg
  have hp := not_pending_of_any hg
  split
  · exact h
  rename_i E hE
  split
  · exact h
  split
  · exact inv_teardownAndCleanup _ _ _ _ _ _ h hp
  · exact inv_destroyRest _ _ _ _ _ _ _ (inv_destroyStop s k E allow _ h) (by rw [destroyStop_creating]; exact hp)

end Own

namespace Own

/-! ### creation -/

/-- Rewriting pending-creation records without touching id / inserted / claims keeps the invariant. -/
theorem inv_of_creating_map {s s' : State} (h : Inv s) (f : Pending → Pending)
    (hf : ∀ p, (f p).id = p.id ∧ (f p).inserted = p.inserted ∧ (f p).claims = p.claims)
    (hc : s'.creating = s.creating.map f) (hr : s'.roster = s.roster) (he : s'.envs = s.envs)
    (hu : s'.used = s.used) (hn : s'.nextTask = s.nextTask) : Inv s' := by
  have memP : ∀ p' ∈ s'.creating, ∃ p ∈ s.creating, p' = f p := by
    intro p' hp'; rw [hc] at hp'; obtain ⟨p, hp, rfl⟩ := List.mem_map.mp hp'; exact ⟨p, hp, rfl⟩
  constructor
  · rw [hr]; exact h.ids
  · rw [hr, hn]; exact h.fresh
  · rw [hr]; exact h.rosterNodup
  · rw [he, hn]; exact h.envFresh
  · rw [he, hu]; exact h.envUsed
  · rw [he]; exact h.envNodup
  · rw [he]; exact h.hooksSub
  · rw [he]; exact h.disjoint
  · rw [he, hr]; exact h.owned
  · intro p' hp'; obtain ⟨p, hp, rfl⟩ := memP p' hp'; rw [(hf p).1, hu]; exact h.pendUsed p hp
  · rw [hc, List.map_map]
    have : ((fun x => x.id) ∘ f) = (fun x : Pending => x.id) := by funext p; exact (hf p).1
    rw [this]; exact h.pendNodup
  · intro p' hp' hi; obtain ⟨p, hp, rfl⟩ := memP p' hp'
    rw [(hf p).2.1] at hi; rw [he, (hf p).1]; exact h.pendFresh p hp hi
  · intro p' hp' hi; obtain ⟨p, hp, rfl⟩ := memP p' hp'
    rw [(hf p).2.1] at hi; rw [he, (hf p).1]; exact h.pendListed p hp hi
  · intro p' hp'; obtain ⟨p, hp, rfl⟩ := memP p' hp'; rw [(hf p).2.2]; exact h.pendClaims p hp

/-- Forgetting pending creations keeps the invariant. -/
theorem inv_of_creating_subset {s s' : State} (h : Inv s)
    (hc : List.Sublist s'.creating s.creating) (hr : s'.roster = s.roster) (he : s'.envs = s.envs)
    (hu : s'.used = s.used) (hn : s'.nextTask = s.nextTask) : Inv s' := by
  have memP : ∀ p ∈ s'.creating, p ∈ s.creating := fun p hp => hc.subset hp
  constructor
  · rw [hr]; exact h.ids
  · rw [hr, hn]; exact h.fresh
  · rw [hr]; exact h.rosterNodup
  · rw [he, hn]; exact h.envFresh
  · rw [he, hu]; exact h.envUsed
  · rw [he]; exact h.envNodup
  · rw [he]; exact h.hooksSub
  · rw [he]; exact h.disjoint
  · rw [he, hr]; exact h.owned
  · intro p hp; rw [hu]; exact h.pendUsed p (memP p hp)
  · exact h.pendNodup.sublist (hc.map _)
  · intro p hp; rw [he]; exact h.pendFresh p (memP p hp)
  · intro p hp; rw [he]; exact h.pendListed p (memP p hp)
  · intro p hp; exact h.pendClaims p (memP p hp)

theorem inv_dropPending (s : State) (k : EnvId) (h : Inv s) : Inv (dropPending s k) :=
  inv_of_creating_subset h List.filter_sublist rfl rfl rfl rfl

theorem inv_createBegin (s : State) (k : EnvId) (spec : EnvSpec) (h : Inv s) : Inv (createBegin s k spec).1 := by
  unfold createBegin
  split
  · exact h
  rename_i hk
  have h0 : Inv { s with used := k :: s.used } := by
    constructor
    · exact h.ids
    · exact h.fresh
    · exact h.rosterNodup
    · exact h.envFresh
    · intro E hE; exact List.mem_cons_of_mem _ (h.envUsed E hE)
    · exact h.envNodup
    · exact h.hooksSub
    · exact h.disjoint
    · exact h.owned
    · intro p hp; exact List.mem_cons_of_mem _ (h.pendUsed p hp)
    · exact h.pendNodup
    · exact h.pendFresh
    · exact h.pendListed
    · exact h.pendClaims
  simp only []
  split
  · exact h0
  · constructor
    · exact h0.ids
    · exact h0.fresh
    · exact h0.rosterNodup
    · exact h0.envFresh
    · exact h0.envUsed
    · exact h0.envNodup
    · exact h0.hooksSub
    · exact h0.disjoint
    · exact h0.owned
    · intro p hp
      rcases List.mem_cons.mp hp with rfl | hp
      · exact List.mem_cons_self
      · exact h0.pendUsed p hp
    · simp only [List.map_cons, List.nodup_cons]
      refine ⟨?_, h.pendNodup⟩
      intro hm
      obtain ⟨p, hp, hpk⟩ := List.mem_map.mp hm
      exact hk (hpk ▸ h.pendUsed p hp)
    · intro p hp hi E hE
      rcases List.mem_cons.mp hp with rfl | hp
      · intro he
        have he' : E.id = k := he
        exact hk (he' ▸ h.envUsed E hE)
      · exact h.pendFresh p hp hi E hE
    · intro p hp hi
      rcases List.mem_cons.mp hp with rfl | hp
      · simp at hi
      · exact h.pendListed p hp hi
    · intro p hp
      rcases List.mem_cons.mp hp with rfl | hp
      · rfl
      · exact h.pendClaims p hp

theorem inv_createCleanup (s : State) (k : EnvId) (h : Inv s) : Inv (createCleanup s k) := by
  unfold createCleanup
  split
  · exact inv_of_creating_map (inv_cleanup s h) (fun q => if q.id = k then { q with cleaned := true } else q)
      (by intro p; by_cases hk : p.id = k <;> simp [hk]) rfl rfl rfl rfl rfl
  · exact h


end Own

namespace Own

theorem pending?_some {s : State} {k : EnvId} {b : Bool} {p : Pending} (h : s.pending? k b = some p) :
    p ∈ s.creating ∧ p.id = k ∧ p.inserted = b := by
  unfold State.pending? at h
  have hm := List.mem_of_find?_eq_some h
  have hp := List.find?_some h
  simp only [Bool.and_eq_true, decide_eq_true_eq, beq_iff_eq] at hp
  exact ⟨hm, hp.1.1, hp.2⟩

theorem inv_createInsert (s : State) (k : EnvId) (h : Inv s) : Inv (createInsert s k).1 := by
  unfold createInsert
  split
  · exact h
  rename_i p hp
  obtain ⟨hpm, hpk, hpi⟩ := pending?_some hp
  split
  · exact inv_dropPending s k h
  split
  · exact inv_dropPending s k h
  have hkfresh : ∀ E ∈ s.envs, E.id ≠ k := fun E hE => hpk ▸ h.pendFresh p hpm hpi E hE
  constructor
  · exact h.ids
  · exact h.fresh
  · exact h.rosterNodup
  · intro E hE
    rcases List.mem_append.mp hE with hE | hE
    · exact h.envFresh E hE
    · simp only [List.mem_singleton] at hE; subst hE; simp
  · intro E hE
    rcases List.mem_append.mp hE with hE | hE
    · exact h.envUsed E hE
    · simp only [List.mem_singleton] at hE; subst hE; exact hpk ▸ h.pendUsed p hpm
  · simp only [List.map_append, List.map_cons, List.map_nil]
    rw [List.nodup_append]
    refine ⟨h.envNodup, by simp, ?_⟩
    intro a ha b hb
    simp only [List.mem_singleton] at hb
    subst hb
    obtain ⟨E, hE, rfl⟩ := List.mem_map.mp ha
    exact hkfresh E hE
  · intro E hE
    rcases List.mem_append.mp hE with hE | hE
    · exact h.hooksSub E hE
    · simp only [List.mem_singleton] at hE; subst hE; simp
  · intro E1 h1 E2 h2 t1 t2 hne x hx
    rcases List.mem_append.mp h1 with h1 | h1
    · rcases List.mem_append.mp h2 with h2 | h2
      · exact h.disjoint E1 h1 E2 h2 t1 t2 hne x hx
      · simp only [List.mem_singleton] at h2; subst h2; simp
    · simp only [List.mem_singleton] at h1; subst h1; simp at hx
  · intro E hE ht t htr hx
    rcases List.mem_append.mp hE with hE | hE
    · exact h.owned E hE ht t htr hx
    · simp only [List.mem_singleton] at hE; subst hE; simp at hx
  · intro q' hq'
    obtain ⟨q, hq, rfl⟩ := List.mem_map.mp hq'
    have := h.pendUsed q hq
    by_cases hk : q.id = k <;> simp [hk] <;> simpa [hk] using this
  · simp only [List.map_map]
    have : ((fun x => x.id) ∘ fun q : Pending => if q.id = k then { q with inserted := true } else q) = (fun x : Pending => x.id) := by
      funext q; by_cases hk : q.id = k <;> simp [hk]
    rw [this]; exact h.pendNodup
  · intro q' hq' hi E hE
    obtain ⟨q, hq, rfl⟩ := List.mem_map.mp hq'
    by_cases hk : q.id = k
    · simp [hk] at hi
    · simp only [hk, if_false] at hi ⊢
      rcases List.mem_append.mp hE with hE | hE
      · exact h.pendFresh q hq hi E hE
      · simp only [List.mem_singleton] at hE; subst hE; exact fun e => hk e.symm
  · intro q' hq' hi
    obtain ⟨q, hq, rfl⟩ := List.mem_map.mp hq'
    by_cases hk : q.id = k
    · simp only [hk, if_true]
      exact ⟨_, List.mem_append_right _ (List.mem_singleton_self _), rfl, rfl, rfl, rfl⟩
    · simp only [hk, if_false] at hi ⊢
      obtain ⟨E, hE, a⟩ := h.pendListed q hq hi
      exact ⟨E, List.mem_append_left _ hE, a⟩
  · intro q' hq'
    obtain ⟨q, hq, rfl⟩ := List.mem_map.mp hq'
    have := h.pendClaims q hq
    by_cases hk : q.id = k <;> simp [hk, this]


end Own

namespace Own

/-- `omega` after unfolding the id abbreviations. -/
macro "nomega" : tactic => `(tactic| ((try simp only [TaskId, EnvId] at *); omega))

theorem locked_of_parent (t : Task) (hi : t.idsOk = true) (e : EnvId) (hp : t.parent = some e) : t.isLocked = true := by
  simp [Task.isLocked, hi, hp]

/-- acquireTasks' commit: claimed (unlocked) tasks and newly launched tasks become the
    tasks of the environment being created. -/
theorem inv_acquire (s : State) (k : EnvId) (h : Inv s) (hp : ∀ p ∈ s.creating, p.id ≠ k)
    (cids : List TaskId) (hc : ∀ c ∈ cids, ∃ t ∈ s.roster, t.id = c ∧ t.claimable = true ∧ t.hostOk = true)
    (newTasks : List Task) (n : Nat)
    (hnew : ∀ nt ∈ newTasks, nt.idsOk = true ∧ nt.parent = some k ∧ s.nextTask ≤ nt.id ∧ nt.id < s.nextTask + n)
    (hnd : (newTasks.map (·.id)).Nodup)
    (ids : List TaskId) (hids : ∀ i ∈ ids, i ∈ cids ∨ (s.nextTask ≤ i ∧ i < s.nextTask + n))
    (hooks : List HookRef) (hh : ∀ x ∈ hooks, x.task ∈ ids) (M : List MTask) :
    Inv (setEnv { s with roster := s.roster.map (fun t => if t.id ∈ cids then { t with parent := some k } else t) ++ newTasks,
                         master := M, nextTask := s.nextTask + n } k (fun X => { X with tasks := ids, hooks := hooks })) := by
  have cidFresh : ∀ c ∈ cids, c < s.nextTask := by
    intro c hcm; obtain ⟨t, ht, rfl, _, _⟩ := hc c hcm; exact h.fresh t ht
  have cidFree : ∀ c ∈ cids, ∀ E ∈ s.envs, E.tearing = false → c ∉ E.tasks := by
    intro c hcm E hE ht hx
    obtain ⟨t, htm, rfl, hl, hho⟩ := hc c hcm
    have := h.owned E hE ht t htm hx
    simp only [Task.claimable, Bool.and_eq_true, Bool.not_eq_true', decide_eq_true_eq] at hl
    rw [locked_of_parent t (idsOk_of_sound_active t (h.ids t htm) hho hl.1.2) _ this] at hl
    exact absurd hl.1.1 (by simp)
  have idsFree : ∀ i ∈ ids, ∀ E ∈ s.envs, E.tearing = false → i ∉ E.tasks := by
    intro i hi E hE ht hx
    rcases hids i hi with hcm | ⟨hge, _⟩
    · exact cidFree i hcm E hE ht hx
    · have := h.envFresh E hE i hx; nomega
  have memE : ∀ E' ∈ (s.envs.map (fun E => if E.id = k then { E with tasks := ids, hooks := hooks } else E)),
      ∃ E ∈ s.envs, (E.id = k ∧ { E with tasks := ids, hooks := hooks } = E') ∨ (E.id ≠ k ∧ E = E') := by
    intro E' hE'
    obtain ⟨E, hE, rfl⟩ := List.mem_map.mp hE'
    by_cases hk : E.id = k
    · exact ⟨E, hE, Or.inl ⟨hk, by simp [hk]⟩⟩
    · exact ⟨E, hE, Or.inr ⟨hk, by simp [hk]⟩⟩
  have memT : ∀ t' ∈ (s.roster.map (fun t => if t.id ∈ cids then { t with parent := some k } else t) ++ newTasks),
      (∃ t ∈ s.roster, (t.id ∈ cids ∧ { t with parent := some k } = t') ∨ (t.id ∉ cids ∧ t = t')) ∨ t' ∈ newTasks := by
    intro t' ht'
    rcases List.mem_append.mp ht' with ht' | ht'
    · left
      obtain ⟨t, ht, rfl⟩ := List.mem_map.mp ht'
      by_cases hcm : t.id ∈ cids
      · exact ⟨t, ht, Or.inl ⟨hcm, by simp [hcm]⟩⟩
      · exact ⟨t, ht, Or.inr ⟨hcm, by simp [hcm]⟩⟩
    · right; exact ht'
  constructor
  · intro t' ht'
    rcases memT t' ht' with ⟨t, ht, ⟨_, rfl⟩ | ⟨_, rfl⟩⟩ | hn
    · exact sound_congr rfl rfl rfl rfl rfl (h.ids t ht)
    · exact h.ids t ht
    · exact sound_of_idsOk _ (hnew t' hn).1
  · intro t' ht'
    show t'.id < s.nextTask + n
    rcases memT t' ht' with ⟨t, ht, ⟨_, rfl⟩ | ⟨_, rfl⟩⟩ | hn
    · have := h.fresh t ht; simp; nomega
    · have := h.fresh t ht; nomega
    · exact (hnew t' hn).2.2.2
  · show ((s.roster.map (fun t => if t.id ∈ cids then { t with parent := some k } else t) ++ newTasks).map (·.id)).Nodup
    rw [List.map_append, List.map_map]
    have : ((fun x => x.id) ∘ fun t : Task => if t.id ∈ cids then { t with parent := some k } else t) = (fun x : Task => x.id) := by
      funext t; by_cases hc' : t.id ∈ cids <;> simp [hc']
    rw [this, List.nodup_append]
    refine ⟨h.rosterNodup, hnd, ?_⟩
    intro a ha b hb
    obtain ⟨t, ht, rfl⟩ := List.mem_map.mp ha
    obtain ⟨nt, hnt, rfl⟩ := List.mem_map.mp hb
    have h1 := h.fresh t ht
    have h2 := (hnew nt hnt).2.2.1
    intro e; rw [e] at h1; nomega
  · intro E' hE' x hx
    show x < s.nextTask + n
    obtain ⟨E, hE, ⟨_, rfl⟩ | ⟨_, rfl⟩⟩ := memE E' hE'
    · rcases hids x hx with hcm | ⟨_, hlt⟩
      · have := cidFresh x hcm; nomega
      · exact hlt
    · have := h.envFresh E hE x hx; nomega
  · intro E' hE'
    obtain ⟨E, hE, ⟨_, rfl⟩ | ⟨_, rfl⟩⟩ := memE E' hE'
    · exact h.envUsed E hE
    · exact h.envUsed E hE
  · show ((s.envs.map (fun E => if E.id = k then { E with tasks := ids, hooks := hooks } else E)).map (·.id)).Nodup
    rw [List.map_map]
    have : ((fun x => x.id) ∘ fun E : Env => if E.id = k then { E with tasks := ids, hooks := hooks } else E) = (fun x : Env => x.id) := by
      funext E; by_cases hk : E.id = k <;> simp [hk]
    rw [this]; exact h.envNodup
  · intro E' hE'
    obtain ⟨E, hE, ⟨_, rfl⟩ | ⟨_, rfl⟩⟩ := memE E' hE'
    · exact hh
    · exact h.hooksSub E hE
  · intro E1' h1 E2' h2 t1 t2 hne x hx
    obtain ⟨E1, hE1, ⟨k1, rfl⟩ | ⟨k1, rfl⟩⟩ := memE E1' h1 <;>
    obtain ⟨E2, hE2, ⟨k2, rfl⟩ | ⟨k2, rfl⟩⟩ := memE E2' h2
    · exact absurd (k1.trans k2.symm) hne
    · exact idsFree x hx E2 hE2 t2
    · intro hx2; exact idsFree x hx2 E1 hE1 t1 hx
    · exact h.disjoint E1 hE1 E2 hE2 t1 t2 hne x hx
  · intro E' hE' ht t' ht' hx
    obtain ⟨E, hE, ⟨hk, rfl⟩ | ⟨hk, rfl⟩⟩ := memE E' hE'
    · show t'.parent = some E.id
      rw [hk]
      rcases memT t' ht' with ⟨t, htm, ⟨_, rfl⟩ | ⟨hnc, rfl⟩⟩ | hn
      · rfl
      · rcases hids t.id hx with hcm | ⟨hge, _⟩
        · exact absurd hcm hnc
        · have := h.fresh t htm; nomega
      · exact (hnew t' hn).2.1
    · rcases memT t' ht' with ⟨t, htm, ⟨hcm, rfl⟩ | ⟨_, rfl⟩⟩ | hn
      · exact absurd hx (cidFree t.id hcm E hE ht)
      · exact h.owned E hE ht t htm hx
      · have := h.envFresh E hE t'.id hx; have := (hnew t' hn).2.2.1; nomega
  · exact h.pendUsed
  · exact h.pendNodup
  · intro p hpm hi E' hE'
    obtain ⟨E, hE, ⟨_, rfl⟩ | ⟨_, rfl⟩⟩ := memE E' hE'
    · exact h.pendFresh p hpm hi E hE
    · exact h.pendFresh p hpm hi E hE
  · intro p hpm hi
    obtain ⟨E, hE, a1, a2, a3, a4⟩ := h.pendListed p hpm hi
    refine ⟨E, ?_, a1, a2, a3, a4⟩
    have hk : E.id ≠ k := by rw [a1]; exact hp p hpm
    exact List.mem_map.mpr ⟨E, hE, by simp [hk]⟩
  · exact h.pendClaims


end Own

namespace Own


theorem assignNew_range (l : List (Nat × RoleSpec)) (n : TaskId) :
    ∀ x ∈ assignNew l n, n ≤ x.2.2 ∧ x.2.2 < n + l.length := by
  induction l generalizing n with
  | nil => intro x hx; simp [assignNew] at hx
  | cons d rest ih =>
    intro x hx
    obtain ⟨i, r⟩ := d
    simp only [assignNew, List.mem_cons] at hx
    rcases hx with rfl | hx
    · simp only [List.length_cons]; constructor <;> nomega
    · have := ih (n + 1) x hx
      simp only [List.length_cons]; constructor <;> nomega

theorem assignNew_nodup (l : List (Nat × RoleSpec)) (n : TaskId) :
    ((assignNew l n).map (fun x => x.2.2)).Nodup := by
  induction l generalizing n with
  | nil => simp [assignNew]
  | cons d rest ih =>
    obtain ⟨i, r⟩ := d
    simp only [assignNew, List.map_cons, List.nodup_cons]
    refine ⟨?_, ih (n + 1)⟩
    intro hm
    obtain ⟨x, hx, hxe⟩ := List.mem_map.mp hm
    have := (assignNew_range rest (n + 1) x hx).1
    rw [hxe] at this
    nomega

theorem assignNew_length (l : List (Nat × RoleSpec)) (n : TaskId) : (assignNew l n).length = l.length := by
  induction l generalizing n with
  | nil => rfl
  | cons d rest ih => obtain ⟨i, r⟩ := d; simp [assignNew, ih]

theorem claimLoop_sound (roster : List Task) (descs : List (Nat × RoleSpec)) (acc : List (Nat × TaskId)) :
    ∀ c ∈ claimLoop roster descs acc, c ∈ acc ∨ ∃ t ∈ roster, t.id = c.2 ∧ t.claimable = true ∧ t.hostOk = true := by
  induction descs generalizing acc with
  | nil => intro c hc; left; simpa [claimLoop] using hc
  | cons d rest ih =>
    obtain ⟨i, r⟩ := d
    intro c hc
    simp only [claimLoop] at hc
    split at hc
    · rename_i t ht
      rcases ih _ c hc with h | h
      · rcases List.mem_append.mp h with h | h
        · left; exact h
        · right
          simp only [List.mem_singleton] at h
          subst h
          refine ⟨t, List.mem_of_find?_eq_some ht, rfl, ?_⟩
          have := List.find?_some ht
          simp only [Bool.and_eq_true] at this
          exact ⟨this.1.1.1.1, this.1.1.1.2⟩
      · right; exact h
    · exact ih _ c hc

theorem computeClaims_sound (s : State) (spec : EnvSpec) :
    ∀ c ∈ computeClaims s spec, ∃ t ∈ s.roster, t.id = c.2 ∧ t.claimable = true ∧ t.hostOk = true := by
  intro c hc
  unfold computeClaims at hc
  split at hc
  · rcases claimLoop_sound _ _ _ c hc with h | ⟨t, ht, he, hcl⟩
    · simp at h
    · exact ⟨t, ht, he, hcl⟩
  · simp at hc

end Own

namespace Own

theorem lookup_mem {α β} [BEq α] [LawfulBEq α] (l : List (α × β)) (a : α) (b : β) (h : l.lookup a = some b) : (a, b) ∈ l := by
  induction l with
  | nil => simp at h
  | cons x rest ih =>
    obtain ⟨a', b'⟩ := x
    simp only [List.lookup] at h
    split at h
    · rename_i heq
      have : a = a' := by simpa using heq
      subst this
      injection h with h; subst h
      exact List.mem_cons_self
    · exact List.mem_cons_of_mem _ (ih h)

theorem inv_acquire_fn (s : State) (k : EnvId) (spec : EnvSpec) (claims : List (Nat × TaskId)) (o : SettleOracle)
    (h : Inv s) (hp : ∀ p ∈ s.creating, p.id ≠ k)
    (hc : ∀ c ∈ claims, ∃ t ∈ s.roster, t.id = c.2 ∧ t.claimable = true ∧ t.hostOk = true) :
    Inv (acquire s k spec claims o).s := by
  unfold acquire
  simp only []
  have hr := assignNew_range ((descriptors spec).filter (fun d => decide (d.1 ∉ claims.map (·.1)))) s.nextTask
  rw [← assignNew_length _ s.nextTask] at hr
  apply inv_acquire s k h hp (claims.map (·.2))
  · intro c hcm
    obtain ⟨x, hx, rfl⟩ := List.mem_map.mp hcm
    exact hc x hx
  · intro nt hnt
    obtain ⟨x, hx, rfl⟩ := List.mem_map.mp hnt
    exact ⟨rfl, rfl, (hr x hx).1, (hr x hx).2⟩
  · rw [List.map_map]
    exact assignNew_nodup _ _
  · intro i hi
    obtain ⟨d, _, hd⟩ := List.mem_filterMap.mp hi
    split at hd
    · rename_i t ht
      injection hd with hd; subst hd
      left
      exact List.mem_map.mpr ⟨(d.1, t), lookup_mem _ _ _ ht, rfl⟩
    · right
      simp only [Option.map_eq_some_iff] at hd
      obtain ⟨x, hx, rfl⟩ := hd
      exact hr x (List.mem_of_find?_eq_some hx)
  · intro x hx
    obtain ⟨d, hd, hdx⟩ := List.mem_filterMap.mp hx
    split at hdx
    · simp only [Option.map_eq_some_iff] at hdx
      obtain ⟨t, ht, rfl⟩ := hdx
      exact List.mem_filterMap.mpr ⟨d, hd, ht⟩
    · simp at hdx

end Own

namespace Own

/-! ### executor / agent lost, the workflow watcher -/

theorem lose_props (agent : Bool) (t : Task) :
    (t.lose agent).id = t.id ∧ (t.sound → (t.lose agent).sound) ∧ (t.lose agent).parent = t.parent ∧
    (t.lose agent).host = t.host ∧ (t.lose agent).active = false := by
  unfold Task.lose
  split
  · exact ⟨rfl, fun hs => ⟨hs.1, fun ha => by simp at ha⟩, rfl, rfl, rfl⟩
  · exact ⟨rfl, fun hs => ⟨hs.1, fun ha => by simp at ha⟩, rfl, rfl, rfl⟩

theorem hostLost_roster (s : State) (h : Host) (agent : Bool) :
    (hostLost s h agent).roster = s.roster.map (fun t => if t.hitBy agent h then t.lose agent else t) := rfl

theorem inv_hostLost (s : State) (h : Host) (agent : Bool) (hi : Inv s) : Inv (hostLost s h agent) := by
  apply inv_of_maps hi (fun t => if t.hitBy agent h then t.lose agent else t) id
  · intro t
    split
    · exact ⟨(lose_props agent t).1, (lose_props agent t).2.1, (lose_props agent t).2.2.1⟩
    · exact ⟨rfl, id, rfl⟩
  · intro E; simp
  · rfl
  · simp [hostLost]
  · rfl
  · rfl
  · rfl

/-- The roster after the watcher's STOP. -/
def watchMap (E : Env) (fails : List (TaskId × Bool)) (t : Task) : Task :=
  if decide (t.id ∈ E.tasks) && decide (t.parent = some E.id) && decide (t.state = .RUNNING) then
    match fails.lookup t.id with
    | some true => { t with state := .ERROR }
    | some false => t
    | none => { t with state := .CONFIGURED }
  else t

theorem watchMap_props (E : Env) (fails : List (TaskId × Bool)) (t : Task) :
    (watchMap E fails t).id = t.id ∧ (t.sound → (watchMap E fails t).sound) ∧ (watchMap E fails t).parent = t.parent ∧
    (watchMap E fails t).idsOk = t.idsOk ∧ (watchMap E fails t).active = t.active ∧ (watchMap E fails t).host = t.host := by
  unfold watchMap
  split
  · cases hl : fails.lookup t.id with
    | none => exact ⟨rfl, sound_congr rfl rfl rfl rfl rfl, rfl, rfl, rfl, rfl⟩
    | some b => cases b <;> exact ⟨rfl, sound_congr rfl rfl rfl rfl rfl, rfl, rfl, rfl, rfl⟩
  · exact ⟨rfl, id, rfl, rfl, rfl, rfl⟩

theorem watchError_eq (s : State) (k : EnvId) (fails : List (TaskId × Bool)) (E : Env) (hE : s.env? k = some E)
    (hte : E.tearing = false) :
    watchError s k fails = setEnv { s with roster := s.roster.map (watchMap E fails) } k (fun X => { X with state := .ERROR }) := by
  unfold watchError
  rw [hE]
  simp only [hte, Bool.false_eq_true, if_false]
  rfl

theorem inv_watchError (s : State) (k : EnvId) (fails : List (TaskId × Bool)) (h : Inv s) : Inv (watchError s k fails) := by
  cases hE : s.env? k with
  | none => unfold watchError; rw [hE]; exact h
  | some E =>
    by_cases hte : E.tearing = true
    · unfold watchError; rw [hE]; simp only [hte, if_true]; exact h
    · rw [watchError_eq s k fails E hE (by simpa using hte)]
      apply inv_setEnv_state
      apply inv_of_maps h (watchMap E fails) id
      · intro t; exact ⟨(watchMap_props E fails t).1, (watchMap_props E fails t).2.1, (watchMap_props E fails t).2.2.1⟩
      · intro E'; simp
      · rfl
      · simp
      · rfl
      · rfl
      · rfl

theorem lostAll_nil (s : State) : lostAll s [] = s := rfl
theorem lostAll_cons (s : State) (l : Host × Bool) (ls : List (Host × Bool)) :
    lostAll s (l :: ls) = lostAll (hostLost s l.1 l.2) ls := rfl

/-- Lost executors / agents touch roster, master and the set of hosts only. -/
theorem lostAll_frame (s : State) (ls : List (Host × Bool)) :
    (lostAll s ls).envs = s.envs ∧ (lostAll s ls).creating = s.creating ∧ (lostAll s ls).killLog = s.killLog ∧
    (lostAll s ls).reuse = s.reuse ∧ (lostAll s ls).crashed = s.crashed ∧ (lostAll s ls).dead = s.dead ∧
    (lostAll s ls).cfg = s.cfg := by
  induction ls generalizing s with
  | nil => exact ⟨rfl, rfl, rfl, rfl, rfl, rfl, rfl⟩
  | cons l rest ih =>
    rw [lostAll_cons]
    obtain ⟨a, b, c, d, e, f⟩ := ih (hostLost s l.1 l.2)
    exact ⟨a, b, c, d, e, f⟩

theorem inv_lostAll (s : State) (ls : List (Host × Bool)) (h : Inv s) : Inv (lostAll s ls) := by
  induction ls generalizing s with
  | nil => exact h
  | cons l rest ih => rw [lostAll_cons]; exact ih _ (inv_hostLost s l.1 l.2 h)

theorem killTasks_creating (s : State) (ids : List TaskId) : (killTasks s ids).creating = s.creating := rfl

theorem inv_createFail (s : State) (k : EnvId) (ids : List TaskId) (late : Bool) (res : Res) (hf : List TaskId)
    (h : Inv s) (hp : ∀ p ∈ s.creating, p.id ≠ k) : Inv (createFail s k ids late res hf).1 := by
  unfold createFail
  simp only []
  have h1 := inv_teardown _ k true late hf (inv_setEnv_state s k .ERROR h) hp
  split
  · exact h1
  · exact inv_killTasks _ ids h1

theorem inv_createConfigure (s : State) (k : EnvId) (spec : EnvSpec) (a : Acq) (o : SettleOracle)
    (h : Inv s) (hp : ∀ p ∈ s.creating, p.id ≠ k) : Inv (createConfigure s k spec a o).1 := by
  unfold createConfigure
  split
  · exact h
  · rename_i E _
    simp only []
    have h3 : Inv (lostAll (setEnv (applyTrans s { E with state := .DEPLOYED } .CONFIGURE
          (o.cfgFails.filterMap (fun f => (a.idOf f.1).map (fun t => (t, f.2))))).1 k
        (fun X => { X with pending := X.pending + callCount spec, started := X.started + callCount spec })) o.lost) :=
      inv_lostAll _ _ (inv_setEnv _ _ _ (inv_applyTrans s _ _ _ h) (fun _ => ⟨rfl, rfl, rfl, rfl⟩))
    split
    · exact inv_setEnv_state _ _ _ h3
    · exact inv_createFail _ k a.ids o.late .errConfigure o.hookFails h3
        (by rw [(lostAll_frame _ _).2.1]; exact hp)


/-! ### a deployment that fails in acquireTasks' lock loop -/

theorem afterLockFailure_props (c : Cfg) (t : Task) :
    (t.afterLockFailure c).id = t.id ∧ (t.afterLockFailure c).offer = t.offer ∧ (t.afterLockFailure c).agent = t.agent ∧
    (t.afterLockFailure c).executor = t.executor ∧ (t.afterLockFailure c).active = t.active ∧
    (t.afterLockFailure c).hostOk = t.hostOk ∧ (t.afterLockFailure c).host = t.host ∧
    ((t.afterLockFailure c).parent = none ∨
      ((t.afterLockFailure c).parent = t.parent ∧ c.detachOnSpot = true ∧ t.fields.locked = true)) := by
  unfold Task.afterLockFailure
  split
  · rename_i hc
    simp only [Bool.and_eq_true] at hc
    exact ⟨rfl, rfl, rfl, rfl, rfl, rfl, rfl, Or.inr ⟨rfl, hc.1, hc.2⟩⟩
  · exact ⟨rfl, rfl, rfl, rfl, rfl, rfl, rfl, Or.inl rfl⟩

/-- The code (every configuration but the one that is not the code): after a failed lock loop a deployed task has no parent. -/
theorem afterLockFailure_code (c : Cfg) (hc : c.detachOnSpot = false) (t : Task) : (t.afterLockFailure c).parent = none := by
  rcases (afterLockFailure_props c t).2.2.2.2.2.2.2 with h | ⟨_, h, _⟩
  · exact h
  · rw [hc] at h; exact absurd h (by simp)

/-- What acquireTasks appends to the roster after a failed lock loop, entry by entry. -/
theorem acquireUnlocked_new (s : State) (k : EnvId) (toRun : List (Nat × RoleSpec)) (o : SettleOracle) :
    ∀ t ∈ (launchedTasks s k toRun o).map (Task.afterLockFailure s.cfg),
      ∃ x ∈ assignNew toRun s.nextTask, t.id = x.2.2 ∧ t.host = x.2.1.host ∧ t.offer = true ∧ t.agent = true ∧ t.executor = true ∧
        (t.parent = none ∨ (t.parent = some k ∧ s.cfg.detachOnSpot = true)) := by
  intro t ht
  obtain ⟨t0, ht0, rfl⟩ := List.mem_map.mp ht
  unfold launchedTasks at ht0
  obtain ⟨x, hx, rfl⟩ := List.mem_map.mp ht0
  have P := afterLockFailure_props s.cfg
    { id := x.2.2, cls := x.2.1.cls, host := x.2.1.host, hostOk := decide (x.2.1.host ∉ blankHosts s o),
      agent := true, offer := true, executor := true, parent := some k,
      active := (launchOf o x.1).active && decide ((launchOf o x.1).mesos = .running),
      state := if (launchOf o x.1).mesos = .terminal then .ERROR else .STANDBY }
  refine ⟨x, hx, P.1, P.2.2.2.2.2.2.1, P.2.1, P.2.2.1, P.2.2.2.1, ?_⟩
  rcases P.2.2.2.2.2.2.2 with h | ⟨h, hd, _⟩
  · exact Or.inl h
  · exact Or.inr ⟨h, hd⟩

theorem acquireUnlocked_new_ids (s : State) (k : EnvId) (toRun : List (Nat × RoleSpec)) (o : SettleOracle) :
    ((launchedTasks s k toRun o).map (Task.afterLockFailure s.cfg)).map (·.id) = (assignNew toRun s.nextTask).map (fun x => x.2.2) := by
  unfold launchedTasks
  rw [List.map_map, List.map_map]
  apply List.map_congr_left
  intro x _
  exact (afterLockFailure_props s.cfg _).1

/-- The roster, the master's table and the id counter grow; nothing else changes. -/
theorem acquireUnlocked_frame (s : State) (k : EnvId) (toRun : List (Nat × RoleSpec)) (o : SettleOracle) :
    (acquireUnlocked s k toRun o).envs = s.envs ∧ (acquireUnlocked s k toRun o).creating = s.creating ∧
    (acquireUnlocked s k toRun o).killLog = s.killLog ∧ (acquireUnlocked s k toRun o).reuse = s.reuse ∧
    (acquireUnlocked s k toRun o).crashed = s.crashed ∧ (acquireUnlocked s k toRun o).cfg = s.cfg ∧
    (acquireUnlocked s k toRun o).used = s.used ∧ (acquireUnlocked s k toRun o).dead = s.dead :=
  ⟨rfl, rfl, rfl, rfl, rfl, rfl, rfl, rfl⟩

/-- acquireTasks' failed lock loop keeps the invariant — in every configuration: the appended entries are new
    (fresh ids), sound, and referenced by no environment. -/
theorem inv_acquireUnlocked (s : State) (k : EnvId) (toRun : List (Nat × RoleSpec)) (o : SettleOracle) (h : Inv s) :
    Inv (acquireUnlocked s k toRun o) := by
  have hr := assignNew_range toRun s.nextTask
  rw [← assignNew_length toRun s.nextTask] at hr
  have N := acquireUnlocked_new s k toRun o
  have memT : ∀ t ∈ (acquireUnlocked s k toRun o).roster,
      t ∈ s.roster ∨ t ∈ (launchedTasks s k toRun o).map (Task.afterLockFailure s.cfg) := by
    intro t ht; exact List.mem_append.mp ht
  constructor
  · intro t ht
    rcases memT t ht with ho | hn
    · exact h.ids t ho
    · obtain ⟨x, _, _, _, h1, h2, h3, _⟩ := N t hn
      exact ⟨h1, fun _ => ⟨h2, h3⟩⟩
  · intro t ht
    show t.id < s.nextTask + (assignNew toRun s.nextTask).length
    rcases memT t ht with ho | hn
    · have := h.fresh t ho; nomega
    · obtain ⟨x, hx, he, _⟩ := N t hn
      rw [he]; exact (hr x hx).2
  · show ((s.roster ++ (launchedTasks s k toRun o).map (Task.afterLockFailure s.cfg)).map (·.id)).Nodup
    rw [List.map_append, acquireUnlocked_new_ids, List.nodup_append]
    refine ⟨h.rosterNodup, assignNew_nodup _ _, ?_⟩
    intro a ha b hb
    obtain ⟨t, ht, rfl⟩ := List.mem_map.mp ha
    obtain ⟨x, hx, rfl⟩ := List.mem_map.mp hb
    have h1 := h.fresh t ht
    have h2 := (hr x hx).1
    intro e; rw [e] at h1; nomega
  · intro E hE x hx
    show x < s.nextTask + (assignNew toRun s.nextTask).length
    have := h.envFresh E hE x hx; nomega
  · exact h.envUsed
  · exact h.envNodup
  · exact h.hooksSub
  · exact h.disjoint
  · intro E hE hte t ht hin
    rcases memT t ht with ho | hn
    · exact h.owned E hE hte t ho hin
    · obtain ⟨x, hx, he, _⟩ := N t hn
      have h1 := h.envFresh E hE t.id hin
      have h2 := (hr x hx).1
      rw [he] at h1; nomega
  · exact h.pendUsed
  · exact h.pendNodup
  · exact h.pendFresh
  · exact h.pendListed
  · exact h.pendClaims

theorem acquire_creating (s : State) (k : EnvId) (spec : EnvSpec) (claims : List (Nat × TaskId)) (o : SettleOracle) :
    (acquire s k spec claims o).s.creating = s.creating := rfl

theorem inv_createSettle (s : State) (k : EnvId) (o : SettleOracle) (h : Inv s) : Inv (createSettle s k o).1 := by
  unfold createSettle
  split
  · exact h
  · rename_i p hpk
    obtain ⟨hpm, _, _⟩ := pending?_some hpk
    have hd := inv_dropPending s k h
    have hp : ∀ q ∈ (dropPending s k).creating, q.id ≠ k := by
      intro q hq
      have := (List.mem_filter.mp hq).2
      simpa using this
    simp only []
    split
    · exact inv_createFail _ k [] o.late .errDeploy [] hd hp
    · have hcl : claimsOf (dropPending s k) p = computeClaims (dropPending s k) p.spec := by
        unfold claimsOf; rw [h.pendClaims p hpm]
      rw [hcl]
      split
      · exact inv_congr hd rfl rfl rfl rfl rfl
      · split
        · exact inv_createFail _ k [] o.late .errDeploy [] (inv_acquireUnlocked _ k _ o hd) hp
        · have ha := inv_acquire_fn (dropPending s k) k p.spec (computeClaims (dropPending s k) p.spec) o hd hp (computeClaims_sound _ _)
          split
          · exact inv_createFail _ k _ o.late .errDeploy o.hookFails ha hp
          · exact inv_createConfigure _ k p.spec _ o ha hp

end Own

namespace Own

/-! ### all steps -/

def Step.isClaim : Step → Bool
  | .createClaim _ => true
  | _ => false

/-- No free-standing claim step (acquireTasks' claim and commit happen in one go). -/
def noClaimSteps (steps : List Step) : Bool := steps.all (fun st => !st.isClaim)

theorem inv_step (s : State) (st : Step) (hst : st.isClaim = false) (h : Inv s) : Inv (step s st).1 := by
  unfold step
  split
  · exact h
  · cases st with
    | createBegin k spec => exact inv_createBegin s k spec h
    | createCleanup k => exact inv_createCleanup s k h
    | createInsert k => exact inv_createInsert s k h
    | createClaim k => simp [Step.isClaim] at hst
    | createSettle k o => exact inv_createSettle s k o h
    | control k ev fails pre => exact inv_control s k ev fails pre h
    | destroy k f a kp o => exact inv_destroy s k f a kp o h
    | cleanup => exact inv_cleanup s h
    | killIds ids => exact inv_cleanupTasks s ids h
    | mesosStart k => exact inv_mesosStart s k h
    | execLost hh => exact inv_hostLost s hh false h
    | agentLost hh => exact inv_hostLost s hh true h
    | watchError k fails => exact inv_watchError s k fails h
    | killFault ids => exact inv_congr h rfl rfl rfl rfl rfl
    | statusUpdate t u => exact inv_statusUpdate s t u h

theorem inv_run (s : State) (steps : List Step) (hs : noClaimSteps steps = true) (h : Inv s) : Inv (run s steps) := by
  induction steps generalizing s with
  | nil => exact h
  | cons st rest ih =>
    simp only [noClaimSteps, List.all_cons, Bool.and_eq_true, Bool.not_eq_true'] at hs
    exact ih _ (by simpa [noClaimSteps] using hs.2) (inv_step s st hs.1 h)

end Own

namespace Own


theorem exclusiveTasks_of_inv (s : State) (h : Inv s) : exclusiveTasks (viewOf s) = true := by
  simp only [exclusiveTasks, viewOf, Bool.and_eq_true, List.all_eq_true, List.mem_map, Bool.or_eq_true,
    decide_eq_true_eq, forall_exists_index, and_imp, forall_apply_eq_imp_iff₂]
  constructor
  · intro E1 hE1
    by_cases t1 : E1.tearing = true
    · left; exact t1
    · right
      intro E2 hE2
      by_cases t2 : E2.tearing = true
      · left; left; exact t2
      · by_cases hid : E1.id = E2.id
        · left; right; exact hid
        · right
          intro x hx
          exact h.disjoint E1 hE1 E2 hE2 (by simpa using t1) (by simpa using t2) hid x hx
  · intro E hE
    by_cases t1 : E.tearing = true
    · left; exact t1
    · right
      intro t ht
      by_cases hx : t.id ∈ E.tasks
      · right; exact h.owned E hE (by simpa using t1) t ht hx
      · left; left; exact hx

end Own

namespace Own


/-- Every KILL call so far named a task that had no owner at that instant. -/
def KillOk (s : State) : Prop := ∀ e ∈ s.killLog, e.2 = none

theorem killOk_congr {s s' : State} (h : KillOk s) (hk : s'.killLog = s.killLog) : KillOk s' := by
  intro e he; rw [hk] at he; exact h e he

theorem killOk_doKill (s : State) (tk : List Task) (h : KillOk s) (hu : ∀ t ∈ tk, t.isLocked = false) :
    KillOk (doKill s tk) := by
  intro e he
  rw [killLog_doKill] at he
  rcases List.mem_append.mp he with he | he
  · exact h e he
  · obtain ⟨t, ht, rfl⟩ := List.mem_map.mp he
    exact owner_none_of_unlocked t (hu t (List.mem_filter.mp ht).1)

theorem killOk_cleanup (s : State) (h : KillOk s) : KillOk (cleanup s) :=
  killOk_doKill s _ h (by intro t ht; simpa using (List.mem_filter.mp ht).2)

theorem killOk_killTasks (s : State) (ids : List TaskId) (h : KillOk s) : KillOk (killTasks s ids) :=
  killOk_doKill s _ h (by
    intro t ht
    have := (List.mem_filter.mp ht).2
    simp only [Bool.and_eq_true, Bool.not_eq_true', decide_eq_true_eq] at this
    exact this.1)

theorem killOk_cleanupTasks (s : State) (ids : List TaskId) (h : KillOk s) : KillOk (cleanupTasks s ids) := by
  unfold cleanupTasks; split
  · exact killOk_cleanup s h
  · exact killOk_killTasks s ids h

theorem tdFinish_killLog (s1 : State) (k : EnvId) (E : Env) (late : Bool) (hf : List TaskId) :
    (tdFinish s1 k E late hf).1.killLog = s1.killLog := by
  unfold tdFinish
  simp only []
  split
  · rfl
  · split <;> rfl

theorem teardown_killLog (s : State) (k : EnvId) (force late : Bool) (hf : List TaskId) :
    (teardown s k force late hf).1.killLog = s.killLog := by
  unfold teardown
  split
  · rfl
  · split
    · rfl
    split
    · rfl
    split
    · rfl
    simp only []
    split
    · rfl
    · rw [tdFinish_killLog]; rfl

theorem killOk_tcFin (keep : Bool) (ids : List TaskId) (s' : State) (res : TRes) (tr : List TEv) (h : KillOk s') :
    KillOk (tcFin keep ids s' res tr).1 := by
  unfold tcFin
  cases res <;> simp only []
  · split
    · exact h
    · exact killOk_cleanupTasks s' ids h
  all_goals exact h

theorem killOk_teardownAndCleanup (s : State) (k : EnvId) (ids : List TaskId) (force keep : Bool) (o : DOracle)
    (h : KillOk s) : KillOk (teardownAndCleanup s k ids force keep o).1 := by
  unfold teardownAndCleanup
  simp only []
  split
  · exact killOk_tcFin _ _ _ _ _ (killOk_congr h (teardown_killLog _ _ _ _ _))
  · exact killOk_tcFin _ _ _ _ _ (killOk_congr h (by rw [teardown_killLog, teardown_killLog]))

theorem killOk_destroyStop (s : State) (k : EnvId) (E : Env) (allow : Bool) (fails : List (TaskId × Bool)) (h : KillOk s) :
    KillOk (destroyStop s k E allow fails).1 := by
  unfold destroyStop; split
  · split <;> exact killOk_congr h rfl
  · exact h

theorem killOk_destroyRest (s1 : State) (st : EState) (stopOk : Bool) (k : EnvId) (E : Env) (keep : Bool) (o : DOracle)
    (h : KillOk s1) : KillOk (destroyRest s1 st stopOk k E keep o).1 := by
  unfold destroyRest
  split
  · exact killOk_teardownAndCleanup _ _ _ _ _ _ h
  split
  · exact killOk_teardownAndCleanup _ _ _ _ _ _ h
  split
  · split
    · exact killOk_teardownAndCleanup _ _ _ _ _ _ (killOk_congr h rfl)
    · exact killOk_teardownAndCleanup _ _ _ _ _ _ (killOk_congr h rfl)
  · exact killOk_teardownAndCleanup _ _ _ _ _ _ h

theorem killOk_destroy (s : State) (k : EnvId) (force allow keep : Bool) (o : DOracle) (h : KillOk s) :
    KillOk (destroy s k force allow keep o).1 := by
  unfold destroy
  split
  · exact h
  split
  · exact h
  rename_i E _
  split
  · exact h
  split
  · exact killOk_teardownAndCleanup _ _ _ _ _ _ h
  · exact killOk_destroyRest _ _ _ _ _ _ _ (killOk_destroyStop s k E allow _ h)

theorem killOk_createFail (s : State) (k : EnvId) (ids : List TaskId) (late : Bool) (res : Res) (hf : List TaskId)
    (h : KillOk s) : KillOk (createFail s k ids late res hf).1 := by
  unfold createFail
  simp only []
  have h1 : KillOk (teardown (setEnv s k (fun X => { X with state := .ERROR })) k true late hf).1 :=
    killOk_congr h (by rw [teardown_killLog]; rfl)
  split
  · exact h1
  · exact killOk_killTasks _ ids h1

theorem killOk_createConfigure (s : State) (k : EnvId) (spec : EnvSpec) (a : Acq) (o : SettleOracle)
    (h : KillOk s) : KillOk (createConfigure s k spec a o).1 := by
  unfold createConfigure
  split
  · exact h
  · simp only []
    split
    · exact killOk_congr h (by simp only [setEnv]; exact (lostAll_frame _ _).2.2.1)
    · exact killOk_createFail _ _ _ _ _ _ (killOk_congr h (lostAll_frame _ _).2.2.1)

theorem acquire_killLog (s : State) (k : EnvId) (spec : EnvSpec) (claims : List (Nat × TaskId)) (o : SettleOracle) :
    (acquire s k spec claims o).s.killLog = s.killLog := rfl

theorem killOk_createSettle (s : State) (k : EnvId) (o : SettleOracle) (h : KillOk s) : KillOk (createSettle s k o).1 := by
  unfold createSettle
  split
  · exact h
  · rename_i p _
    simp only []
    split
    · exact killOk_createFail _ _ _ _ _ _ (killOk_congr h rfl)
    · generalize claimsOf (dropPending s k) p = claims
      split
      · exact killOk_congr h rfl
      · split
        · exact killOk_createFail _ _ _ _ _ _ (killOk_congr h rfl)
        · have ha : KillOk (acquire (dropPending s k) k p.spec claims o).s := killOk_congr h (acquire_killLog _ _ _ _ _)
          split
          · exact killOk_createFail _ _ _ _ _ _ ha
          · exact killOk_createConfigure _ _ _ _ _ ha

theorem killOk_step (s : State) (st : Step) (h : KillOk s) : KillOk (step s st).1 := by
  unfold step
  split
  · exact h
  · cases st with
    | createBegin k spec =>
      simp only [createBegin]
      split
      · exact h
      · split <;> exact killOk_congr h rfl
    | createCleanup k =>
      simp only [createCleanup]
      split
      · exact killOk_congr (killOk_cleanup s h) rfl
      · exact h
    | createInsert k =>
      simp only [createInsert]
      split
      · exact h
      · split
        · exact killOk_congr h rfl
        · split <;> exact killOk_congr h rfl
    | createClaim k =>
      simp only [createClaim]
      split
      · exact h
      · exact killOk_congr h rfl
    | createSettle k o => exact killOk_createSettle s k o h
    | control k ev fails pre =>
      simp only [control]
      split
      · exact h
      split
      · exact h
      · rename_i E _
        split
        · exact h
        · split
          · split
            · exact h
            · exact killOk_congr h rfl
          · split
            · exact killOk_congr h rfl
            · have : (restartCalls s k E ev).killLog = s.killLog := by unfold restartCalls; split <;> rfl
              split <;> exact killOk_congr h (by simp [setEnv, applyTrans, this])
    | destroy k f a kp o => exact killOk_destroy s k f a kp o h
    | cleanup => exact killOk_cleanup s h
    | killIds ids => exact killOk_cleanupTasks s ids h
    | mesosStart k => exact killOk_congr h rfl
    | execLost hh => exact killOk_congr h rfl
    | agentLost hh => exact killOk_congr h rfl
    | watchError k fails =>
      refine killOk_congr h ?_
      simp only [watchError]
      split
      · rfl
      · split <;> rfl
    | killFault ids => exact killOk_congr h rfl
    | statusUpdate t u => exact killOk_congr h rfl

theorem killOk_run (s : State) (steps : List Step) (h : KillOk s) : KillOk (run s steps) := by
  induction steps generalizing s with
  | nil => exact h
  | cons st rest ih => exact ih _ (killOk_step s st h)

end Own

namespace Own


/-- Every environment listed afterwards was listed before with the same id and detectors. -/
def EnvsSub (s s' : State) : Prop := ∀ E' ∈ s'.envs, ∃ E ∈ s.envs, E'.id = E.id ∧ E'.dets = E.dets

/-- Every creation still before its detector check afterwards was so before, with the same snapshot. -/
def PendSub (s s' : State) : Prop :=
  ∀ p' ∈ s'.creating, p'.inserted = false → ∃ p ∈ s.creating, p.inserted = false ∧ p.snapshot = p'.snapshot ∧ p.id = p'.id

structure Sub (s s' : State) : Prop where
  envs : EnvsSub s s'
  pend : PendSub s s'

theorem Sub.refl (s : State) : Sub s s := ⟨fun E hE => ⟨E, hE, rfl, rfl⟩, fun p hp hi => ⟨p, hp, hi, rfl, rfl⟩⟩

theorem Sub.trans {a b c : State} (h1 : Sub a b) (h2 : Sub b c) : Sub a c := by
  constructor
  · intro E'' hE''
    obtain ⟨E', hE', a1, a2⟩ := h2.envs E'' hE''
    obtain ⟨E, hE, b1, b2⟩ := h1.envs E' hE'
    exact ⟨E, hE, a1.trans b1, a2.trans b2⟩
  · intro p'' hp'' hi
    obtain ⟨p', hp', i1, a1, a2⟩ := h2.pend p'' hp'' hi
    obtain ⟨p, hp, i2, b1, b2⟩ := h1.pend p' hp' i1
    exact ⟨p, hp, i2, b1.trans a1, b2.trans a2⟩

/-- Same pending creations, environments a sub-multiset up to fields other than id / dets. -/
theorem Sub.of_envs {s s' : State} (hc : s'.creating = s.creating) (he : EnvsSub s s') : Sub s s' :=
  ⟨he, by intro p hp hi; rw [hc] at hp; exact ⟨p, hp, hi, rfl, rfl⟩⟩

theorem envsSub_map (envs : List Env) (f : Env → Env) (hf : ∀ E, (f E).id = E.id ∧ (f E).dets = E.dets) :
    ∀ E' ∈ envs.map f, ∃ E ∈ envs, E'.id = E.id ∧ E'.dets = E.dets := by
  intro E' hE'
  obtain ⟨E, hE, rfl⟩ := List.mem_map.mp hE'
  exact ⟨E, hE, (hf E).1, (hf E).2⟩

theorem sub_setEnv (s : State) (k : EnvId) (f : Env → Env) (hf : ∀ E, (f E).id = E.id ∧ (f E).dets = E.dets) :
    Sub s (setEnv s k f) :=
  Sub.of_envs rfl (envsSub_map s.envs _ (by intro E; by_cases hk : E.id = k <;> simp [hk, hf E]))

theorem sub_setEnv_over (s0 s1 : State) (k : EnvId) (f : Env → Env) (hf : ∀ E, (f E).id = E.id ∧ (f E).dets = E.dets)
    (he : s1.envs = s0.envs) (hc : s1.creating = s0.creating) : Sub s0 (setEnv s1 k f) := by
  refine Sub.of_envs hc ?_
  show ∀ E' ∈ (s1.envs.map (fun E => if E.id = k then f E else E)), _
  rw [he]
  exact envsSub_map s0.envs _ (by intro E; by_cases hk : E.id = k <;> simp [hk, hf E])

theorem sub_setEnv_state (s : State) (k : EnvId) (st : EState) : Sub s (setEnv s k (fun X => { X with state := st })) :=
  sub_setEnv s k _ (fun _ => ⟨rfl, rfl⟩)

theorem sub_of_same {s s' : State} (he : s'.envs = s.envs) (hc : s'.creating = s.creating) : Sub s s' :=
  Sub.of_envs hc (by intro E hE; rw [he] at hE; exact ⟨E, hE, rfl, rfl⟩)

theorem sub_tdFinish (s1 : State) (k : EnvId) (E : Env) (late : Bool) (hf : List TaskId) :
    Sub s1 (tdFinish s1 k E late hf).1 := by
  unfold tdFinish
  simp only []
  have h2 : Sub s1 (tdCancel s1 k E) := by
    unfold tdCancel
    exact sub_setEnv _ k _ (fun _ => ⟨rfl, rfl⟩)
  split
  · exact h2.trans (sub_setEnv _ k _ (fun _ => ⟨rfl, rfl⟩))
  · have h3 : Sub (tdCancel s1 k E) (releaseTasks (tdCancel s1 k E) k (tdMsg s1 E)).1 := sub_of_same rfl rfl
    split
    · exact h2.trans h3
    · refine (h2.trans h3).trans (Sub.of_envs rfl ?_)
      intro E' hE'
      exact ⟨E', (List.mem_filter.mp hE').1, rfl, rfl⟩

theorem sub_teardown (s : State) (k : EnvId) (force late : Bool) (hf : List TaskId) :
    Sub s (teardown s k force late hf).1 := by
  unfold teardown
  split
  · exact Sub.refl s
  · rename_i E _
    split
    · exact Sub.refl s
    split
    · exact Sub.refl s
    split
    · exact Sub.refl s
    simp only []
    have h1 : Sub s (releaseTasks s k (tdPlain E)).1 := sub_of_same rfl rfl
    split
    · exact h1
    · exact h1.trans (sub_tdFinish _ _ _ _ _)

theorem sub_doKill (s : State) (tk : List Task) : Sub s (doKill s tk) := sub_of_same rfl rfl
theorem sub_cleanupTasks (s : State) (ids : List TaskId) : Sub s (cleanupTasks s ids) := by
  unfold cleanupTasks; split <;> exact sub_doKill _ _

theorem sub_tcFin (keep : Bool) (ids : List TaskId) (s' : State) (res : TRes) (tr : List TEv) :
    Sub s' (tcFin keep ids s' res tr).1 := by
  unfold tcFin
  cases res <;> simp only []
  · split
    · exact Sub.refl _
    · exact sub_cleanupTasks _ _
  all_goals exact Sub.refl _

theorem sub_teardownAndCleanup (s : State) (k : EnvId) (ids : List TaskId) (force keep : Bool) (o : DOracle) :
    Sub s (teardownAndCleanup s k ids force keep o).1 := by
  unfold teardownAndCleanup
  simp only []
  split
  · exact (sub_teardown _ _ _ _ _).trans (sub_tcFin _ _ _ _ _)
  · exact ((sub_teardown _ _ _ _ _).trans (sub_teardown _ _ _ _ _)).trans (sub_tcFin _ _ _ _ _)

theorem sub_applyTrans (s : State) (E : Env) (ev : CEv) (fails : List (TaskId × Bool)) :
    Sub s (applyTrans s E ev fails).1 := sub_of_same rfl rfl

theorem sub_destroyStop (s : State) (k : EnvId) (E : Env) (allow : Bool) (fails : List (TaskId × Bool)) :
    Sub s (destroyStop s k E allow fails).1 := by
  unfold destroyStop; split
  · split
    · exact (sub_applyTrans _ _ _ _).trans (sub_setEnv_state _ _ _)
    · exact sub_applyTrans _ _ _ _
  · exact Sub.refl s

theorem sub_destroyRest (s1 : State) (st : EState) (stopOk : Bool) (k : EnvId) (E : Env) (keep : Bool) (o : DOracle) :
    Sub s1 (destroyRest s1 st stopOk k E keep o).1 := by
  unfold destroyRest
  split
  · exact sub_teardownAndCleanup _ _ _ _ _ _
  split
  · exact sub_teardownAndCleanup _ _ _ _ _ _
  split
  · split
    · exact ((sub_applyTrans _ _ _ _).trans (sub_setEnv_state _ _ _)).trans (sub_teardownAndCleanup _ _ _ _ _ _)
    · exact (sub_applyTrans _ _ _ _).trans (sub_teardownAndCleanup _ _ _ _ _ _)
  · exact sub_teardownAndCleanup _ _ _ _ _ _

theorem sub_destroy (s : State) (k : EnvId) (force allow keep : Bool) (o : DOracle) :
    Sub s (destroy s k force allow keep o).1 := by
  unfold destroy
  split
  · exact Sub.refl s
  split
  · exact Sub.refl s
  rename_i E _
  split
  · exact Sub.refl s
  split
  · exact sub_teardownAndCleanup _ _ _ _ _ _
  · exact (sub_destroyStop s k E allow _).trans (sub_destroyRest _ _ _ _ _ _ _)

end Own

namespace Own

theorem sub_creating_map (s s' : State) (f : Pending → Pending)
    (hf : ∀ p, (f p).id = p.id ∧ (f p).inserted = p.inserted ∧ (f p).snapshot = p.snapshot)
    (hc : s'.creating = s.creating.map f) (he : s'.envs = s.envs) : Sub s s' := by
  constructor
  · intro E hE; rw [he] at hE; exact ⟨E, hE, rfl, rfl⟩
  · intro p' hp' hi
    rw [hc] at hp'
    obtain ⟨p, hp, rfl⟩ := List.mem_map.mp hp'
    exact ⟨p, hp, by rw [← (hf p).2.1]; exact hi, (hf p).2.2.symm, (hf p).1.symm⟩

theorem sub_dropPending (s : State) (k : EnvId) : Sub s (dropPending s k) := by
  constructor
  · intro E hE; exact ⟨E, hE, rfl, rfl⟩
  · intro p hp hi; exact ⟨p, (List.mem_filter.mp hp).1, hi, rfl, rfl⟩

theorem sub_createFail (s : State) (k : EnvId) (ids : List TaskId) (late : Bool) (res : Res) (hf : List TaskId) :
    Sub s (createFail s k ids late res hf).1 := by
  unfold createFail
  simp only []
  have h1 := (sub_setEnv_state s k .ERROR).trans (sub_teardown _ k true late hf)
  split
  · exact h1
  · exact h1.trans (sub_doKill _ _)

theorem sub_createConfigure (s : State) (k : EnvId) (spec : EnvSpec) (a : Acq) (o : SettleOracle) :
    Sub s (createConfigure s k spec a o).1 := by
  unfold createConfigure
  split
  · exact Sub.refl s
  · rename_i E _
    simp only []
    have h2 : Sub s (setEnv (applyTrans s { E with state := .DEPLOYED } .CONFIGURE
          (o.cfgFails.filterMap (fun f => (a.idOf f.1).map (fun t => (t, f.2))))).1 k
        (fun X => { X with pending := X.pending + callCount spec, started := X.started + callCount spec })) :=
      sub_setEnv_over s _ k _ (fun _ => ⟨rfl, rfl⟩) rfl rfl
    have h3 : Sub s (lostAll (setEnv (applyTrans s { E with state := .DEPLOYED } .CONFIGURE
          (o.cfgFails.filterMap (fun f => (a.idOf f.1).map (fun t => (t, f.2))))).1 k
        (fun X => { X with pending := X.pending + callCount spec, started := X.started + callCount spec })) o.lost) :=
      h2.trans (sub_of_same (lostAll_frame _ _).1 (lostAll_frame _ _).2.1)
    split
    · exact h3.trans (sub_setEnv_state _ _ _)
    · exact h3.trans (sub_createFail _ _ _ _ _ _)

theorem sub_acquire (s : State) (k : EnvId) (spec : EnvSpec) (claims : List (Nat × TaskId)) (o : SettleOracle) :
    Sub s (acquire s k spec claims o).s := by
  unfold acquire
  simp only []
  refine Sub.of_envs rfl ?_
  apply envsSub_map
  intro E; by_cases hk : E.id = k <;> simp [hk]

theorem sub_createSettle (s : State) (k : EnvId) (o : SettleOracle) : Sub s (createSettle s k o).1 := by
  unfold createSettle
  split
  · exact Sub.refl s
  · rename_i p _
    simp only []
    have hd := sub_dropPending s k
    split
    · exact hd.trans (sub_createFail _ _ _ _ _ _)
    · generalize claimsOf (dropPending s k) p = claims
      split
      · exact hd.trans (sub_of_same rfl rfl)
      · split
        · exact (hd.trans (sub_of_same (s' := acquireUnlocked (dropPending s k) k _ o) rfl rfl)).trans (sub_createFail _ _ _ _ _ _)
        · have ha := hd.trans (sub_acquire (dropPending s k) k p.spec claims o)
          split
          · exact ha.trans (sub_createFail _ _ _ _ _ _)
          · exact ha.trans (sub_createConfigure _ _ _ _ _)

theorem sub_control (s : State) (k : EnvId) (ev : CEv) (fails : List (TaskId × Bool)) (pre : Bool) :
    Sub s (control s k ev fails pre).1 := by
  unfold control
  split
  · exact Sub.refl s
  split
  · exact Sub.refl s
  · rename_i E _
    split
    · exact Sub.refl s
    · split
      · split
        · exact Sub.refl s
        · exact sub_setEnv_state _ _ _
      · split
        · exact sub_setEnv_state _ _ _
        · have h0 : Sub s (restartCalls s k E ev) := by
            unfold restartCalls
            split
            · exact sub_setEnv_over s _ k _ (fun _ => ⟨rfl, rfl⟩) rfl rfl
            · exact Sub.refl s
          generalize restartCalls s k E ev = s0 at h0 ⊢
          simp only []
          split
          · exact (h0.trans (sub_applyTrans _ _ _ _)).trans (sub_setEnv_state _ _ _)
          · exact (h0.trans (sub_applyTrans _ _ _ _)).trans (sub_setEnv_state _ _ _)

/-- Steps other than the beginning and the insertion of a creation neither add environments
    nor change detectors, and add no creation that still has to pass its detector check. -/
theorem sub_step (s : State) (st : Step)
    (h1 : ∀ k spec, st ≠ .createBegin k spec) (h2 : ∀ k, st ≠ .createInsert k) : Sub s (step s st).1 := by
  unfold step
  split
  · exact Sub.refl s
  · cases st with
    | createBegin k spec => exact absurd rfl (h1 k spec)
    | createInsert k => exact absurd rfl (h2 k)
    | createCleanup k =>
      simp only [createCleanup]
      split
      · exact (sub_doKill s _).trans (sub_creating_map _ _ (fun q => if q.id = k then { q with cleaned := true } else q)
          (by intro p; by_cases hk : p.id = k <;> simp [hk]) rfl rfl)
      · exact Sub.refl s
    | createClaim k =>
      simp only [createClaim]
      split
      · exact Sub.refl s
      · rename_i p _
        exact sub_creating_map _ _ (fun q => if q.id = k then { q with claims := some (computeClaims s p.spec) } else q)
          (by intro p; by_cases hk : p.id = k <;> simp [hk]) rfl rfl
    | createSettle k o => exact sub_createSettle s k o
    | control k ev fails pre => exact sub_control s k ev fails pre
    | destroy k f a kp o => exact sub_destroy s k f a kp o
    | cleanup => exact sub_doKill s _
    | killIds ids => exact sub_cleanupTasks s ids
    | mesosStart k => exact sub_of_same rfl rfl
    | execLost hh => exact sub_of_same rfl rfl
    | agentLost hh => exact sub_of_same rfl rfl
    | watchError k fails =>
      simp only [watchError]
      split
      · exact Sub.refl s
      · split
        · exact Sub.refl s
        · rename_i E _ _
          have h1 : Sub s { s with roster := s.roster.map (watchMap E fails) } := sub_of_same rfl rfl
          exact h1.trans (sub_setEnv_state _ _ _)
    | killFault ids => exact sub_of_same rfl rfl
    | statusUpdate t u => exact sub_of_same rfl rfl

end Own

namespace Own

/-- No detector is part of two listed environments. -/
def DetOk (s : State) : Prop := ∀ E1 ∈ s.envs, ∀ E2 ∈ s.envs, E1.id ≠ E2.id → ∀ d ∈ E1.dets, d ∉ E2.dets

/-- The snapshot of every creation that still has to pass its detector check covers the active detectors. -/
def SnapOk (s : State) : Prop := ∀ p ∈ s.creating, p.inserted = false → ∀ E ∈ s.envs, ∀ d ∈ E.dets, d ∈ p.snapshot

/-- A detector check-and-insert is safe when no other creation is between its detector
    snapshot and its own check (what a lock around the two would guarantee). -/
def safeStep (s : State) : Step → Bool
  | .createInsert k => s.creating.all (fun p => p.inserted || decide (p.id = k))
  | _ => true

def overlapFree (s : State) : List Step → Bool
  | [] => true
  | st :: rest => safeStep s st && overlapFree (step s st).1 rest

theorem det_of_sub {s s' : State} (h : Sub s s') (hd : DetOk s) (hs : SnapOk s) : DetOk s' ∧ SnapOk s' := by
  constructor
  · intro E1' h1 E2' h2 hne d hd1
    obtain ⟨E1, hE1, a1, a2⟩ := h.envs E1' h1
    obtain ⟨E2, hE2, b1, b2⟩ := h.envs E2' h2
    rw [b2]; rw [a2] at hd1; rw [a1, b1] at hne
    exact hd E1 hE1 E2 hE2 hne d hd1
  · intro p' hp' hi E' hE' d hdm
    obtain ⟨p, hp, i, a1, _⟩ := h.pend p' hp' hi
    obtain ⟨E, hE, _, b2⟩ := h.envs E' hE'
    rw [← a1]; rw [b2] at hdm
    exact hs p hp i E hE d hdm

theorem det_step (s : State) (st : Step) (hsafe : safeStep s st = true) (hd : DetOk s) (hs : SnapOk s) :
    DetOk (step s st).1 ∧ SnapOk (step s st).1 := by
  by_cases hb : ∃ k spec, st = .createBegin k spec
  · obtain ⟨k, spec, rfl⟩ := hb
    unfold step
    split
    · exact ⟨hd, hs⟩
    · simp only [createBegin]
      split
      · exact ⟨hd, hs⟩
      · split
        · exact ⟨hd, hs⟩
        · refine ⟨hd, ?_⟩
          intro p hp hi E hE d hdm
          rcases List.mem_cons.mp hp with rfl | hp
          · exact List.mem_flatMap.mpr ⟨E, hE, hdm⟩
          · exact hs p hp hi E hE d hdm
  by_cases hi : ∃ k, st = .createInsert k
  · obtain ⟨k, rfl⟩ := hi
    unfold step
    split
    · exact ⟨hd, hs⟩
    · simp only [createInsert]
      split
      · exact ⟨hd, hs⟩
      · rename_i p hpk
        obtain ⟨hpm, hpid, hpins⟩ := pending?_some hpk
        split
        · exact det_of_sub (sub_dropPending s k) hd hs
        split
        · exact det_of_sub (sub_dropPending s k) hd hs
        · rename_i hnc hfree
          have hfree' : ∀ d ∈ p.spec.dets, d ∉ p.snapshot := by
            intro d hdm hin
            apply hfree
            simp only [List.any_eq_true, decide_eq_true_eq]
            exact ⟨d, hdm, hin⟩
          have hcov := hs p hpm hpins
          constructor
          · intro E1 h1 E2 h2 hne d hd1
            rcases List.mem_append.mp h1 with h1 | h1 <;> rcases List.mem_append.mp h2 with h2 | h2
            · exact hd E1 h1 E2 h2 hne d hd1
            · simp only [List.mem_singleton] at h2; subst h2
              exact fun hin => hfree' d hin (hcov E1 h1 d hd1)
            · simp only [List.mem_singleton] at h1; subst h1
              exact fun hin => hfree' d hd1 (hcov E2 h2 d hin)
            · simp only [List.mem_singleton] at h1 h2; subst h1; subst h2; exact absurd rfl hne
          · intro q' hq' hqi
            obtain ⟨q, hq, rfl⟩ := List.mem_map.mp hq'
            simp only [safeStep, List.all_eq_true, Bool.or_eq_true, decide_eq_true_eq] at hsafe
            rcases hsafe q hq with hin | hk
            · by_cases hk : q.id = k <;> simp [hk, hin] at hqi
            · simp [hk] at hqi
  · exact det_of_sub (sub_step s st (fun k spec e => hb ⟨k, spec, e⟩) (fun k e => hi ⟨k, e⟩)) hd hs

theorem det_run (s : State) (steps : List Step) (hsafe : overlapFree s steps = true) (hd : DetOk s) (hs : SnapOk s) :
    DetOk (run s steps) := by
  induction steps generalizing s with
  | nil => exact hd
  | cons st rest ih =>
    simp only [overlapFree, Bool.and_eq_true] at hsafe
    obtain ⟨a, b⟩ := det_step s st hsafe.1 hd hs
    exact ih _ hsafe.2 a b

theorem exclusiveDets_of_detOk (s : State) (h : DetOk s) : exclusiveDets (viewOf s) = true := by
  simp only [exclusiveDets, viewOf, List.all_eq_true, List.mem_map, Bool.or_eq_true,
    decide_eq_true_eq, forall_exists_index, and_imp, forall_apply_eq_imp_iff₂]
  intro E1 h1 E2 h2
  by_cases hid : E1.id = E2.id
  · left; exact hid
  · right; intro d hdm; exact h E1 h1 E2 h2 hid d hdm

end Own

namespace Own


theorem eq_of_nodup_map {α β} (f : α → β) (l : List α) (h : (l.map f).Nodup) {a b : α} (ha : a ∈ l) (hb : b ∈ l)
    (hab : f a = f b) : a = b := by
  induction l with
  | nil => simp at ha
  | cons x rest ih =>
    simp only [List.map_cons, List.nodup_cons] at h
    rcases List.mem_cons.mp ha with ha1 | ha1 <;> rcases List.mem_cons.mp hb with hb1 | hb1
    · rw [ha1, hb1]
    · subst ha1; exact absurd (show f a ∈ rest.map f from List.mem_map.mpr ⟨b, hb1, hab.symm⟩) h.1
    · subst hb1; exact absurd (show f b ∈ rest.map f from List.mem_map.mpr ⟨a, ha1, hab⟩) h.1
    · exact ih h.2 ha1 hb1

/-- `reuse` and the configuration never change, and `crashed` only in the one branch of createSettle. -/
def RC (s s' : State) : Prop := s'.reuse = s.reuse ∧ s'.crashed = s.crashed ∧ s'.cfg = s.cfg

theorem RC.refl (s : State) : RC s s := ⟨rfl, rfl, rfl⟩
theorem RC.trans {a b c : State} (h1 : RC a b) (h2 : RC b c) : RC a c :=
  ⟨h2.1.trans h1.1, h2.2.1.trans h1.2.1, h2.2.2.trans h1.2.2⟩

theorem rc_tdFinish (s1 : State) (k : EnvId) (E : Env) (late : Bool) (hf : List TaskId) : RC s1 (tdFinish s1 k E late hf).1 := by
  unfold tdFinish
  simp only []
  split
  · exact ⟨rfl, rfl, rfl⟩
  · split <;> exact ⟨rfl, rfl, rfl⟩

theorem rc_teardown (s : State) (k : EnvId) (force late : Bool) (hf : List TaskId) : RC s (teardown s k force late hf).1 := by
  unfold teardown
  split
  · exact RC.refl s
  · rename_i E _
    split
    · exact RC.refl s
    split
    · exact RC.refl s
    split
    · exact RC.refl s
    simp only []
    split
    · exact ⟨rfl, rfl, rfl⟩
    · exact (show RC s (releaseTasks s k (tdPlain E)).1 from ⟨rfl, rfl, rfl⟩).trans (rc_tdFinish _ _ _ _ _)

theorem rc_cleanupTasks (s : State) (ids : List TaskId) : RC s (cleanupTasks s ids) := by
  unfold cleanupTasks; split <;> exact ⟨rfl, rfl, rfl⟩

theorem rc_tcFin (keep : Bool) (ids : List TaskId) (s' : State) (res : TRes) (tr : List TEv) : RC s' (tcFin keep ids s' res tr).1 := by
  unfold tcFin
  cases res <;> simp only []
  · split
    · exact RC.refl _
    · exact rc_cleanupTasks _ _
  all_goals exact RC.refl _

theorem rc_teardownAndCleanup (s : State) (k : EnvId) (ids : List TaskId) (force keep : Bool) (o : DOracle) :
    RC s (teardownAndCleanup s k ids force keep o).1 := by
  unfold teardownAndCleanup
  simp only []
  split
  · exact (rc_teardown _ _ _ _ _).trans (rc_tcFin _ _ _ _ _)
  · exact ((rc_teardown _ _ _ _ _).trans (rc_teardown _ _ _ _ _)).trans (rc_tcFin _ _ _ _ _)

theorem rc_destroyStop (s : State) (k : EnvId) (E : Env) (allow : Bool) (fails : List (TaskId × Bool)) :
    RC s (destroyStop s k E allow fails).1 := by
  unfold destroyStop; split
  · split <;> exact ⟨rfl, rfl, rfl⟩
  · exact RC.refl s

theorem rc_destroyRest (s1 : State) (st : EState) (stopOk : Bool) (k : EnvId) (E : Env) (keep : Bool) (o : DOracle) :
    RC s1 (destroyRest s1 st stopOk k E keep o).1 := by
  unfold destroyRest
  split
  · exact rc_teardownAndCleanup _ _ _ _ _ _
  split
  · exact rc_teardownAndCleanup _ _ _ _ _ _
  split
  · split
    · exact (show RC s1 _ from ⟨rfl, rfl, rfl⟩).trans (rc_teardownAndCleanup _ _ _ _ _ _)
    · exact (show RC s1 _ from ⟨rfl, rfl, rfl⟩).trans (rc_teardownAndCleanup _ _ _ _ _ _)
  · exact rc_teardownAndCleanup _ _ _ _ _ _

theorem rc_destroy (s : State) (k : EnvId) (force allow keep : Bool) (o : DOracle) : RC s (destroy s k force allow keep o).1 := by
  unfold destroy
  split
  · exact RC.refl s
  split
  · exact RC.refl s
  rename_i E _
  split
  · exact RC.refl s
  split
  · exact rc_teardownAndCleanup _ _ _ _ _ _
  · exact (rc_destroyStop s k E allow _).trans (rc_destroyRest _ _ _ _ _ _ _)

theorem rc_control (s : State) (k : EnvId) (ev : CEv) (fails : List (TaskId × Bool)) (pre : Bool) :
    RC s (control s k ev fails pre).1 := by
  unfold control
  split
  · exact RC.refl s
  split
  · exact RC.refl s
  · rename_i E _
    split
    · exact RC.refl s
    · split
      · split
        · exact RC.refl s
        · exact ⟨rfl, rfl, rfl⟩
      · split
        · exact ⟨rfl, rfl, rfl⟩
        · have h0 : RC s (restartCalls s k E ev) := by
            unfold restartCalls
            split <;> exact ⟨rfl, rfl, rfl⟩
          generalize restartCalls s k E ev = s0 at h0 ⊢
          simp only []
          split <;> exact h0.trans ⟨rfl, rfl, rfl⟩

theorem rc_createFail (s : State) (k : EnvId) (ids : List TaskId) (late : Bool) (res : Res) (hf : List TaskId) :
    RC s (createFail s k ids late res hf).1 := by
  unfold createFail
  simp only []
  have h1 : RC s (teardown (setEnv s k (fun X => { X with state := .ERROR })) k true late hf).1 :=
    (show RC s (setEnv s k (fun X => { X with state := .ERROR })) from ⟨rfl, rfl, rfl⟩).trans (rc_teardown _ _ _ _ _)
  split
  · exact h1
  · exact h1.trans ⟨rfl, rfl, rfl⟩

theorem rc_createConfigure (s : State) (k : EnvId) (spec : EnvSpec) (a : Acq) (o : SettleOracle) :
    RC s (createConfigure s k spec a o).1 := by
  unfold createConfigure
  split
  · exact RC.refl s
  · simp only []
    have h3 : ∀ s0 : State, s0.reuse = s.reuse → s0.crashed = s.crashed → s0.cfg = s.cfg → RC s (lostAll s0 o.lost) := fun s0 a b c =>
      ⟨(lostAll_frame s0 o.lost).2.2.2.1.trans a, (lostAll_frame s0 o.lost).2.2.2.2.1.trans b,
        (lostAll_frame s0 o.lost).2.2.2.2.2.2.trans c⟩
    have key : ∀ (s0 : State), s0.reuse = s.reuse → s0.crashed = s.crashed → s0.cfg = s.cfg →
        (∀ f, RC s (setEnv (lostAll s0 o.lost) k f)) ∧
        (∀ ids late res hf, RC s (createFail (lostAll s0 o.lost) k ids late res hf).1) := fun s0 a b c =>
      ⟨fun f => (h3 s0 a b c).trans ⟨rfl, rfl, rfl⟩, fun ids late res hf => (h3 s0 a b c).trans (rc_createFail _ _ _ _ _ _)⟩
    split
    · exact (key _ (by rfl) (by rfl) (by rfl)).1 _
    · exact (key _ (by rfl) (by rfl) (by rfl)).2 _ _ _ _

/-- A settling creation does not end the process unless the state has reuseUnlockedTasks AND runs
    the legacy acquireTasks (Unlock outside the block that locks). -/
theorem rc_createSettle (s : State) (k : EnvId) (o : SettleOracle)
    (h : s.reuse = false ∨ s.cfg.unlockUnpaired = false) : RC s (createSettle s k o).1 := by
  unfold createSettle
  split
  · exact RC.refl s
  · rename_i p _
    simp only []
    have hd : RC s (dropPending s k) := ⟨rfl, rfl, rfl⟩
    split
    · exact hd.trans (rc_createFail _ _ _ _ _ _)
    · generalize claimsOf (dropPending s k) p = claims
      have : ((dropPending s k).reuse && (dropPending s k).cfg.unlockUnpaired) = false := by
        show (s.reuse && s.cfg.unlockUnpaired) = false
        rcases h with h | h <;> simp [h]
      simp only [this, Bool.false_and, Bool.false_eq_true, if_false]
      split
      · exact (hd.trans (show RC (dropPending s k) (acquireUnlocked (dropPending s k) k _ o) from ⟨rfl, rfl, rfl⟩)).trans (rc_createFail _ _ _ _ _ _)
      · have ha : RC s (acquire (dropPending s k) k p.spec claims o).s := hd.trans ⟨rfl, rfl, rfl⟩
        split
        · exact ha.trans (rc_createFail _ _ _ _ _ _)
        · exact ha.trans (rc_createConfigure _ _ _ _ _)

/-- Without reuseUnlockedTasks a settling creation does not end the process. -/
theorem crash_free_settle (s : State) (k : EnvId) (o : SettleOracle) (hr : s.reuse = false) (hc : s.crashed = false) :
    (createSettle s k o).1.reuse = false ∧ (createSettle s k o).1.crashed = false :=
  ⟨(rc_createSettle s k o (Or.inl hr)).1.trans hr, (rc_createSettle s k o (Or.inl hr)).2.1.trans hc⟩

theorem crash_free_control (s : State) (k : EnvId) (ev : CEv) (fails : List (TaskId × Bool)) (pre : Bool)
    (hr : s.reuse = false) (hc : s.crashed = false) :
    (control s k ev fails pre).1.reuse = false ∧ (control s k ev fails pre).1.crashed = false :=
  ⟨(rc_control s k ev fails pre).1.trans hr, (rc_control s k ev fails pre).2.1.trans hc⟩

theorem crash_free_destroy (s : State) (k : EnvId) (f a kp : Bool) (o : DOracle)
    (hr : s.reuse = false) (hc : s.crashed = false) :
    (destroy s k f a kp o).1.reuse = false ∧ (destroy s k f a kp o).1.crashed = false :=
  ⟨(rc_destroy s k f a kp o).1.trans hr, (rc_destroy s k f a kp o).2.1.trans hc⟩

/-- One step keeps `reuse`, the configuration and — unless the state has reuseUnlockedTasks and runs
    the legacy acquireTasks — `crashed`. -/
theorem rc_step (s : State) (st : Step) (h : s.reuse = false ∨ s.cfg.unlockUnpaired = false) : RC s (step s st).1 := by
  unfold step
  split
  · exact RC.refl s
  cases st with
  | createBegin k spec => simp only [createBegin]; split; exact RC.refl s; split <;> exact ⟨rfl, rfl, rfl⟩
  | createCleanup k => simp only [createCleanup]; split <;> exact ⟨rfl, rfl, rfl⟩
  | createInsert k =>
    simp only [createInsert]; split; exact RC.refl s; split; exact ⟨rfl, rfl, rfl⟩; split <;> exact ⟨rfl, rfl, rfl⟩
  | createClaim k => simp only [createClaim]; split <;> exact ⟨rfl, rfl, rfl⟩
  | createSettle k o => exact rc_createSettle s k o h
  | control k ev fails pre => exact rc_control s k ev fails pre
  | destroy k f a kp o => exact rc_destroy s k f a kp o
  | cleanup => exact ⟨rfl, rfl, rfl⟩
  | killIds ids => exact rc_cleanupTasks s ids
  | mesosStart k => exact ⟨rfl, rfl, rfl⟩
  | execLost h => exact ⟨rfl, rfl, rfl⟩
  | agentLost h => exact ⟨rfl, rfl, rfl⟩
  | watchError k fails => simp only [watchError]; split; exact RC.refl s; split <;> exact ⟨rfl, rfl, rfl⟩
  | killFault ids => exact ⟨rfl, rfl, rfl⟩
  | statusUpdate t u => exact ⟨rfl, rfl, rfl⟩

theorem rc_run (steps : List Step) (s : State) (h : s.reuse = false ∨ s.cfg.unlockUnpaired = false) : RC s (run s steps) := by
  induction steps generalizing s with
  | nil => exact RC.refl s
  | cons st rest ih =>
    have h1 := rc_step s st h
    exact h1.trans (ih _ (by rw [h1.1, h1.2.2]; exact h))

end Own

namespace Own

theorem create_conflict_eq (s : State) (k : EnvId) (spec : EnvSpec) (o : SettleOracle)
    (hfresh : k ∉ s.used) (hok : spec.bad = .ok)
    (hconf : ∃ d ∈ spec.dets, d ∈ s.activeDets) :
    create s k spec o = (dropPending (createCleanup (createBegin s k spec).1 k) k, .errDetector) := by
  have hb2 : (createBegin s k spec).2 = .noop := by simp [createBegin, hfresh, hok]
  have hb1 : (createBegin s k spec).1 = { s with
      used := k :: s.used,
      creating := ({ id := k, spec := spec, snapshot := s.activeDets, cleaned := false, inserted := false, claims := none } : Pending) :: s.creating } := by
    simp [createBegin, hfresh, hok]
  have hany : ((createBegin s k spec).1.creating.any (fun p => decide (p.id = k) && !p.cleaned)) = true := by
    rw [hb1]; simp
  have hfind : (createCleanup (createBegin s k spec).1 k).pending? k false =
      some { id := k, spec := spec, snapshot := s.activeDets, cleaned := true, inserted := false, claims := none } := by
    unfold createCleanup
    rw [if_pos hany, hb1]
    simp [State.pending?, cleanup, doKill]
  have hins : createInsert (createCleanup (createBegin s k spec).1 k) k =
      (dropPending (createCleanup (createBegin s k spec).1 k) k, .errDetector) := by
    unfold createInsert
    rw [hfind]
    have hd : (spec.dets.any fun d => decide (d ∈ s.activeDets)) = true := by
      obtain ⟨d, hd, hda⟩ := hconf
      simp only [List.any_eq_true, decide_eq_true_eq]; exact ⟨d, hd, hda⟩
    simp [hok, hd]
  unfold create
  simp only [hb2, ne_eq, not_true_eq_false, hfresh, or_self, if_false]
  rw [hins]
  simp

theorem create_conflict_fields (s : State) (k : EnvId) (spec : EnvSpec) (o : SettleOracle)
    (hfresh : k ∉ s.used) (hok : spec.bad = .ok)
    (hconf : ∃ d ∈ spec.dets, d ∈ s.activeDets) :
    (create s k spec o).2 = .errDetector ∧
    (create s k spec o).1.envs = s.envs ∧
    (create s k spec o).1.roster = (cleanup s).roster ∧
    (create s k spec o).1.master = (cleanup s).master := by
  rw [create_conflict_eq s k spec o hfresh hok hconf]
  have hb1 : (createBegin s k spec).1 = { s with
      used := k :: s.used,
      creating := ({ id := k, spec := spec, snapshot := s.activeDets, cleaned := false, inserted := false, claims := none } : Pending) :: s.creating } := by
    simp [createBegin, hfresh, hok]
  have hany : ((createBegin s k spec).1.creating.any (fun p => decide (p.id = k) && !p.cleaned)) = true := by
    rw [hb1]; simp
  refine ⟨rfl, ?_, ?_, ?_⟩ <;>
  · unfold createCleanup
    rw [if_pos hany, hb1]
    rfl

end Own

namespace Own

/-! ### C06: what a completed destroy leaves -/

theorem tdFinish_done_unlisted (s1 : State) (k : EnvId) (E : Env) (late : Bool) (hf : List TaskId) :
    ((tdFinish s1 k E late hf).2.1 = .ok ∨ (tdFinish s1 k E late hf).2.1 = .doneErr) →
    ∀ X ∈ (tdFinish s1 k E late hf).1.envs, X.id ≠ k := by
  unfold tdFinish
  simp only []
  split
  · intro h; simp at h
  · split
    · intro h; simp at h
    · intro _ X hX
      have := (List.mem_filter.mp hX).2
      simpa using this

/-- A teardown that ran to completion has taken the environment out of the listing. -/
theorem teardown_done_unlisted (s : State) (k : EnvId) (force late : Bool) (hf : List TaskId) :
    ((teardown s k force late hf).2.1 = .ok ∨ (teardown s k force late hf).2.1 = .doneErr) →
    ∀ E ∈ (teardown s k force late hf).1.envs, E.id ≠ k := by
  unfold teardown
  split
  · intro h; simp at h
  · split
    · intro h; simp at h
    split
    · intro h; simp at h
    split
    · intro h; simp at h
    simp only []
    split
    · intro h; simp at h
    · exact tdFinish_done_unlisted _ _ _ _ _

theorem cleanupTasks_envs (s : State) (ids : List TaskId) : (cleanupTasks s ids).envs = s.envs := by
  unfold cleanupTasks; split <;> rfl

theorem tcFin_ok (keep : Bool) (ids : List TaskId) (s' : State) (res : TRes) (tr : List TEv) :
    (tcFin keep ids s' res tr).2.1 = .ok → res = .ok ∧ (tcFin keep ids s' res tr).1.envs = s'.envs := by
  unfold tcFin
  cases res <;> simp only []
  · intro _
    refine ⟨trivial, ?_⟩
    split
    · rfl
    · exact cleanupTasks_envs _ _
  all_goals (intro h; simp at h)

theorem teardownAndCleanup_ok_unlisted (s : State) (k : EnvId) (ids : List TaskId) (force keep : Bool) (o : DOracle) :
    (teardownAndCleanup s k ids force keep o).2.1 = .ok →
    ∀ E ∈ (teardownAndCleanup s k ids force keep o).1.envs, E.id ≠ k := by
  unfold teardownAndCleanup
  simp only []
  split
  · intro h
    obtain ⟨a, b⟩ := tcFin_ok _ _ _ _ _ h
    rw [b]; exact teardown_done_unlisted _ _ _ _ _ (Or.inl a)
  · intro h
    obtain ⟨a, b⟩ := tcFin_ok _ _ _ _ _ h
    rw [b]; exact teardown_done_unlisted _ _ _ _ _ (Or.inl a)

theorem destroyRest_ok_unlisted (s1 : State) (st : EState) (stopOk : Bool) (k : EnvId) (E : Env) (keep : Bool) (o : DOracle) :
    (destroyRest s1 st stopOk k E keep o).2.1 = .ok →
    ∀ X ∈ (destroyRest s1 st stopOk k E keep o).1.envs, X.id ≠ k := by
  unfold destroyRest
  split
  · exact teardownAndCleanup_ok_unlisted _ _ _ _ _ _
  split
  · exact teardownAndCleanup_ok_unlisted _ _ _ _ _ _
  split
  · split
    · exact teardownAndCleanup_ok_unlisted _ _ _ _ _ _
    · exact teardownAndCleanup_ok_unlisted _ _ _ _ _ _
  · exact teardownAndCleanup_ok_unlisted _ _ _ _ _ _

theorem destroy_ok_unlisted (s : State) (k : EnvId) (force allow keep : Bool) (o : DOracle) :
    (destroy s k force allow keep o).2.1 = .ok →
    ∀ E ∈ (destroy s k force allow keep o).1.envs, E.id ≠ k := by
  unfold destroy
  split
  · intro h; simp at h
  split
  · intro h; simp at h
  split
  · intro h; simp at h
  split
  · exact teardownAndCleanup_ok_unlisted _ _ _ _ _ _
  · exact destroyRest_ok_unlisted _ _ _ _ _ _ _

/-- After a ReleaseTasks message without release errors every named task is unlocked. -/
theorem released_unlocked (s : State) (e : EnvId) (ids : List TaskId) (h0 : (releaseTasks s e ids).2 = 0) :
    ∀ t ∈ (releaseTasks s e ids).1.roster, t.id ∈ ids → t.isLocked = false := by
  intro t' ht' hid
  simp only [releaseTasks, List.mem_map] at ht'
  obtain ⟨t, ht, rfl⟩ := ht'
  simp only [releaseTasks, List.length_eq_zero_iff, List.filter_eq_nil_iff] at h0
  have h1 := h0 t ht
  by_cases hi : t.id ∈ ids
  · simp only [hi, decide_true, Bool.true_and, Bool.not_eq_true', Bool.not_eq_false] at h1
    simp only [hi, if_true]
    simp [releaseTask, h1, Task.isLocked]
  · exfalso
    apply hi
    simpa [hi] using hid

/-- The trace of a teardown: if a DESTROY hook was triggered at all, the first thing the
    teardown did was the ReleaseTasks message for every task that is not a DESTROY hook, that
    message met no release error, and in the state the hooks ran in none of those tasks is locked. -/
theorem teardown_hooks_after_release (s : State) (k : EnvId) (force late : Bool) (hf : List TaskId) (E : Env)
    (hE : s.env? k = some E) (hs : List TaskId) (hh : TEv.hooks hs ∈ (teardown s k force late hf).2.2) :
    (teardown s k force late hf).2.2.head? = some (.release (tdPlain E)) ∧
    (releaseTasks s k (tdPlain E)).2 = 0 ∧
    (∀ t ∈ (releaseTasks s k (tdPlain E)).1.roster, t.id ∈ tdPlain E → t.isLocked = false) ∧
    (∀ x ∈ E.tasks, x ∉ effHooks E.hooks → x ∈ tdPlain E) := by
  have hplain : ∀ x ∈ E.tasks, x ∉ effHooks E.hooks → x ∈ tdPlain E := by
    intro x hx hn; exact List.mem_filter.mpr ⟨hx, by simpa using hn⟩
  unfold teardown at hh ⊢
  rw [hE] at hh ⊢
  simp only [] at hh ⊢
  split at hh
  · simp at hh
  split at hh
  · simp at hh
  split at hh
  · simp at hh
  split at hh
  · simp at hh
  · rename_i h1 h2 h3 h4
    have h0 : (releaseTasks s k (tdPlain E)).2 = 0 := by omega
    rw [if_neg h1, if_neg h2, if_neg h3, if_neg h4]
    refine ⟨?_, h0, released_unlocked s k _ h0, hplain⟩
    unfold tdFinish
    simp only []
    split
    · simp [tdTrace]
    · split <;> simp [tdTrace]

end Own

namespace Own


/-- Releasing every task of the list. -/
def relAll (tasks : List TaskId) (t : Task) : Task := if t.id ∈ tasks then { t with parent := none } else t

theorem roleActive_map (s : State) (g : Task → Task) (hg : ∀ t, (g t).id = t.id ∧ (g t).active = t.active)
    (s1 : State) (hr : s1.roster = s.roster.map g) (x : TaskId) : roleActive s1 x = roleActive s x := by
  simp only [roleActive, hr, List.any_map]
  congr 1
  funext t
  simp [(hg t).1, (hg t).2]

theorem relMap_active (e : EnvId) (ids : List TaskId) (t : Task) :
    (relMap e ids t).id = t.id ∧ (relMap e ids t).active = t.active := by
  unfold relMap releaseTask
  split
  · split <;> simp
  · simp

theorem singleWeight_cases (hs : List HookRef) (h : singleWeight hs = true) :
    weightsOf hs = [] ∨ ∃ w, weightsOf hs = [w] := by
  simp only [singleWeight, decide_eq_true_eq] at h
  match hw : weightsOf hs with
  | [] => left; rfl
  | [w] => right; exact ⟨w, rfl⟩
  | a :: b :: rest => rw [hw] at h; simp at h

/-- The two ReleaseTasks messages of a teardown release exactly the environment's tasks: always in
    the code as it is (the second message names the hook tasks of all weights), under
    `hooksReleasable` in the legacy configuration (`hooksOk`). -/
theorem release_all' (s : State) (k : EnvId) (E : Env) (hpar0 : ∀ t ∈ s.roster, t.id ∈ E.tasks → t.parent = some k)
    (hrel : hooksOk s E.hooks = true) (hhk : ∀ h ∈ E.hooks, h.task ∈ E.tasks)
    (s1 : State) (hs1 : s1.roster = s.roster.map (relMap k (tdPlain E))) (hc1 : s1.cfg = s.cfg) :
    ∀ t ∈ s.roster, relMap k (tdMsg s1 E) (relMap k (tdPlain E) t) = relAll E.tasks t := by
  have hP2 : ∀ t ∈ s.roster, t.id ∉ E.tasks ∨ t.parent = some k := by
    intro t ht
    by_cases hin : t.id ∈ E.tasks
    · exact Or.inr (hpar0 t ht hin)
    · exact Or.inl hin
  have hmsgsub := tdMsg_sub s1 E hhk
  -- hook tasks are all in the second message
  have hmsg : ∀ x ∈ effHooks E.hooks, x ∈ tdMsg s1 E := by
    intro x hx
    cases hlw : s.cfg.lastWeightOnly with
    | false => simp only [tdMsg, hc1, hlw, Bool.not_false, if_true]; exact hx
    | true =>
      simp only [hooksOk, hlw, Bool.not_true, Bool.false_or, hooksReleasable, Bool.and_eq_true, List.all_eq_true] at hrel
      obtain ⟨hsw, hact⟩ := hrel
      rcases singleWeight_cases _ hsw with h0 | ⟨w, hw⟩
      · simp [effHooks, h0] at hx
      · simp only [effHooks, hw, List.flatMap_cons, List.flatMap_nil, List.append_nil] at hx
        simp only [tdMsg, hc1, hlw, Bool.not_true, Bool.false_eq_true, if_false, hw, List.getLast?_singleton, tdRun]
        refine List.mem_filter.mpr ⟨hx, ?_⟩
        rw [roleActive_map s _ (relMap_active k (tdPlain E)) s1 hs1]
        apply hact
        simp only [effHooks, hw, List.flatMap_cons, List.flatMap_nil, List.append_nil]; exact hx
  intro t ht
  by_cases hin : t.id ∈ E.tasks
  · have hpar : t.parent = some k := by
      have := hP2 t ht
      rcases this with h | h
      · exact absurd hin h
      · exact h
    have hok : releaseOk k t = true := releaseOk_of_parent k t (Or.inl hpar)
    simp only [relAll, hin, if_true]
    by_cases hpl : t.id ∈ tdPlain E
    · have h1 : relMap k (tdPlain E) t = { t with parent := none } := by simp [relMap, hpl, releaseTask, hok]
      rw [h1]
      by_cases hm : t.id ∈ tdMsg s1 E
      · simp [relMap, hm, releaseTask, releaseOk, Task.isLocked]
      · simp [relMap, hm]
    · have h1 : relMap k (tdPlain E) t = t := by simp [relMap, hpl]
      rw [h1]
      have heff : t.id ∈ effHooks E.hooks := by
        by_cases hne : t.id ∈ effHooks E.hooks
        · exact hne
        · exact absurd (List.mem_filter.mpr ⟨hin, by simpa using hne⟩) hpl
      have hm := hmsg _ heff
      simp [relMap, hm, releaseTask, hok]
  · have h1 : t.id ∉ tdPlain E := fun h => hin (tdPlain_sub E _ h)
    have h2 : t.id ∉ tdMsg s1 E := fun h => hin (hmsgsub _ h)
    simp [relAll, hin, relMap, h1, h2]

theorem wf_parent' (s : State) (k : EnvId) (tasks : List TaskId) (hwf : envWf s k tasks = true) :
    ∀ t ∈ s.roster, t.id ∈ tasks → t.parent = some k := by
  simp only [envWf, Bool.and_eq_true, List.all_eq_true, Bool.or_eq_true, decide_eq_true_eq] at hwf
  intro t ht hin
  rcases hwf.1.1.1.1.2 t ht with h | h
  · exact absurd hin h
  · exact h

theorem release_all (s : State) (k : EnvId) (E : Env) (hwf : envWf s k E.tasks = true)
    (hrel : hooksOk s E.hooks = true) (hhk : ∀ h ∈ E.hooks, h.task ∈ E.tasks)
    (s1 : State) (hs1 : s1.roster = s.roster.map (relMap k (tdPlain E))) (hc1 : s1.cfg = s.cfg) :
    ∀ t ∈ s.roster, relMap k (tdMsg s1 E) (relMap k (tdPlain E) t) = relAll E.tasks t :=
  release_all' s k E (wf_parent' s k E.tasks hwf) hrel hhk s1 hs1 hc1

end Own

namespace Own

/-- `s1` differs from `s` only in task states and environment states (what STOP / RESET / GO_ERROR change). -/
structure SameOwn (s s1 : State) : Prop where
  roster : ∃ g : Task → Task, (∀ t, (g t).id = t.id ∧ (g t).parent = t.parent ∧ (g t).idsOk = t.idsOk ∧ (g t).active = t.active) ∧
    s1.roster = s.roster.map g
  master : s1.master = s.master
  dead : s1.dead = s.dead
  killLog : s1.killLog = s.killLog
  cfg : s1.cfg = s.cfg
  envs : ∃ f : Env → Env, (∀ E, (f E).id = E.id ∧ (f E).tasks = E.tasks ∧ (f E).hooks = E.hooks ∧ (f E).tearing = E.tearing ∧
      (f E).dets = E.dets ∧ (f E).started = E.started ∧ (f E).cancelled = E.cancelled ∧ (f E).pending = E.pending) ∧
    s1.envs = s.envs.map f

theorem SameOwn.refl (s : State) : SameOwn s s :=
  ⟨⟨id, fun _ => ⟨rfl, rfl, rfl, rfl⟩, by simp⟩, rfl, rfl, rfl, rfl, ⟨id, fun _ => ⟨rfl, rfl, rfl, rfl, rfl, rfl, rfl, rfl⟩, by simp⟩⟩

theorem SameOwn.trans {a b c : State} (h1 : SameOwn a b) (h2 : SameOwn b c) : SameOwn a c := by
  obtain ⟨g1, hg1, r1⟩ := h1.roster
  obtain ⟨g2, hg2, r2⟩ := h2.roster
  obtain ⟨f1, hf1, e1⟩ := h1.envs
  obtain ⟨f2, hf2, e2⟩ := h2.envs
  refine ⟨⟨g2 ∘ g1, ?_, by rw [r2, r1, List.map_map]⟩, h2.master.trans h1.master, h2.dead.trans h1.dead,
    h2.killLog.trans h1.killLog, h2.cfg.trans h1.cfg, ⟨f2 ∘ f1, ?_, by rw [e2, e1, List.map_map]⟩⟩
  · intro t
    obtain ⟨a1, a2, a3, a4⟩ := hg1 t
    obtain ⟨b1, b2, b3, b4⟩ := hg2 (g1 t)
    exact ⟨b1.trans a1, b2.trans a2, b3.trans a3, b4.trans a4⟩
  · intro E
    obtain ⟨a1, a2, a3, a4, a5, a6, a7, a8⟩ := hf1 E
    obtain ⟨b1, b2, b3, b4, b5, b6, b7, b8⟩ := hf2 (f1 E)
    exact ⟨b1.trans a1, b2.trans a2, b3.trans a3, b4.trans a4, b5.trans a5, b6.trans a6, b7.trans a7, b8.trans a8⟩

theorem sameOwn_applyTrans (s : State) (E : Env) (ev : CEv) (fails : List (TaskId × Bool)) :
    SameOwn s (applyTrans s E ev fails).1 := by
  refine ⟨⟨_, ?_, rfl⟩, rfl, rfl, rfl, rfl, ⟨id, fun _ => ⟨rfl, rfl, rfl, rfl, rfl, rfl, rfl, rfl⟩, by simp [applyTrans]⟩⟩
  intro t
  by_cases ht : isTarget E t
  · simp only [ht, if_true]
    cases hl : fails.lookup t.id with
    | none => simp [Task.idsOk]
    | some b => cases b <;> simp [Task.idsOk]
  · simp [ht]

theorem sameOwn_setEnv_state (s : State) (k : EnvId) (st : EState) :
    SameOwn s (setEnv s k (fun X => { X with state := st })) := by
  refine ⟨⟨id, fun _ => ⟨rfl, rfl, rfl, rfl⟩, by simp [setEnv]⟩, rfl, rfl, rfl, rfl,
    ⟨fun E => if E.id = k then { E with state := st } else E, ?_, rfl⟩⟩
  intro E; by_cases hk : E.id = k <;> simp [hk]

theorem sameOwn_destroyStop (s : State) (k : EnvId) (E : Env) (allow : Bool) (fails : List (TaskId × Bool)) :
    SameOwn s (destroyStop s k E allow fails).1 := by
  unfold destroyStop; split
  · split
    · exact (sameOwn_applyTrans _ _ _ _).trans (sameOwn_setEnv_state _ _ _)
    · exact sameOwn_applyTrans _ _ _ _
  · exact SameOwn.refl s

/-- The hypotheses of the clean-destroy theorem only look at what `SameOwn` keeps. -/
theorem hyps_transfer {s s1 : State} (h : SameOwn s s1) (k : EnvId) (tasks : List TaskId) (hooks : List HookRef) :
    envWf s1 k tasks = envWf s k tasks ∧ statusFaithful s1 tasks = statusFaithful s tasks ∧
    hooksOk s1 hooks = hooksOk s hooks := by
  obtain ⟨g, hg, hr⟩ := h.roster
  refine ⟨?_, ?_, ?_⟩
  · obtain ⟨f, hf, he⟩ := h.envs
    simp only [envWf, hr, h.master, h.dead, he, List.all_map, List.any_map, List.map_map]
    have e5 : (fun X : Env => decide (X.id ≠ k) || decide (X.started = X.cancelled + X.pending)) ∘ f =
        (fun X : Env => decide (X.id ≠ k) || decide (X.started = X.cancelled + X.pending)) := by
      funext X
      obtain ⟨a1, _, _, _, _, a6, a7, a8⟩ := hf X
      simp [a1, a6, a7, a8]
    have e1 : (fun t => decide (t.parent ≠ some k) || decide (t.id ∈ tasks)) ∘ g = (fun t => decide (t.parent ≠ some k) || decide (t.id ∈ tasks)) := by
      funext t; simp [(hg t).1, (hg t).2.1]
    have e2 : (fun t => decide (t.id ∉ tasks) || decide (t.parent = some k)) ∘ g = (fun t => decide (t.id ∉ tasks) || decide (t.parent = some k)) := by
      funext t; simp [(hg t).1, (hg t).2.1]
    have e3 : ∀ m : MTask, ((fun t => decide (t.id = m.id)) ∘ g) = (fun t => decide (t.id = m.id)) := by
      intro m; funext t; simp [(hg t).1]
    have e4 : ((fun x => x.id) ∘ g) = (fun x : Task => x.id) := by funext t; exact (hg t).1
    simp only [e1, e2, e3, e4, e5]
  · simp only [statusFaithful, hr, h.master, List.all_map]
    congr 1
    funext t
    simp [(hg t).1, (hg t).2.2.2]
  · simp only [hooksOk, hooksReleasable, h.cfg]
    congr 2
    have : roleActive s1 = roleActive s := by
      funext x; exact roleActive_map s g (fun t => ⟨(hg t).1, (hg t).2.2.2⟩) s1 hr x
    rw [this]

end Own

namespace Own

theorem wf_parent (s : State) (k : EnvId) (tasks : List TaskId) (hwf : envWf s k tasks = true) :
    ∀ t ∈ s.roster, t.id ∈ tasks → t.parent = some k := by
  simp only [envWf, Bool.and_eq_true, List.all_eq_true, Bool.or_eq_true, decide_eq_true_eq] at hwf
  intro t ht hin
  rcases hwf.1.1.1.1.2 t ht with h | h
  · exact absurd hin h
  · exact h

/-- What a teardown that runs to completion leaves, under the well-formedness and
    hook hypotheses: exactly the environment's tasks released, the master and the kill log
    untouched, the environment out of the listing and its call counters in `dead`. -/
theorem teardown_done_state' (s : State) (k : EnvId) (force late : Bool) (hf : List TaskId) (E : Env)
    (hE : s.env? k = some E) (hpar : ∀ t ∈ s.roster, t.id ∈ E.tasks → t.parent = some k) (hrel : hooksOk s E.hooks = true)
    (hhk : ∀ h ∈ E.hooks, h.task ∈ E.tasks)
    (hdone : (teardown s k force late hf).2.1 = .ok ∨ (teardown s k force late hf).2.1 = .doneErr) :
    (teardown s k force late hf).1.roster = s.roster.map (relAll E.tasks) ∧
    (teardown s k force late hf).1.master = s.master ∧
    (teardown s k force late hf).1.killLog = s.killLog ∧
    (∀ X ∈ (teardown s k force late hf).1.envs, X ∈ s.envs ∧ X.id ≠ k) ∧
    (∀ X ∈ s.envs, X.id ≠ k → X ∈ (teardown s k force late hf).1.envs) ∧
    (teardown s k force late hf).1.dead = s.dead ++ (s.envs.filter (fun X => decide (X.id = k))).map
      (fun X => (X.id, X.started, X.cancelled + X.pending)) := by
  have herr1 : (releaseTasks s k (tdPlain E)).2 = 0 :=
    releaseTasks_errs_zero s k _ (fun t ht hx => Or.inl (hpar t ht (tdPlain_sub E _ hx)))
  revert hdone
  unfold teardown
  rw [hE]
  simp only []
  split
  · intro h; simp at h
  split
  · intro h; simp at h
  split
  · intro h; simp at h
  rw [herr1]
  simp only [Nat.lt_irrefl, if_false]
  unfold tdFinish
  simp only []
  split
  · intro h; simp at h
  have hr2 : (tdCancel (releaseTasks s k (tdPlain E)).1 k E).roster = s.roster.map (relMap k (tdPlain E)) := rfl
  have herr2 : (releaseTasks (tdCancel (releaseTasks s k (tdPlain E)).1 k E) k (tdMsg (releaseTasks s k (tdPlain E)).1 E)).2 = 0 := by
    apply releaseTasks_errs_zero
    intro t' ht' hx
    rw [hr2] at ht'
    obtain ⟨t, ht, rfl⟩ := List.mem_map.mp ht'
    obtain ⟨x, _, z⟩ := relMap_props k (tdPlain E) t
    rw [x] at hx
    have := hpar t ht (tdMsg_sub _ E hhk _ hx)
    rcases z with z | z
    · left; rw [z]; exact this
    · right; exact z.1
  rw [herr2]
  simp only [Nat.lt_irrefl, if_false]
  intro _
  have henvs : (releaseTasks (tdCancel (releaseTasks s k (tdPlain E)).1 k E) k (tdMsg (releaseTasks s k (tdPlain E)).1 E)).1.envs =
      s.envs.map (fun X => if X.id = k then { X with cancelled := X.cancelled + X.pending, pending := 0 } else X) := rfl
  refine ⟨?_, rfl, rfl, ?_, ?_, ?_⟩
  · show ((s.roster.map (relMap k (tdPlain E))).map (relMap k (tdMsg (releaseTasks s k (tdPlain E)).1 E))) = _
    rw [List.map_map]
    apply List.map_congr_left
    intro t ht
    exact release_all' s k E hpar hrel hhk (releaseTasks s k (tdPlain E)).1 rfl rfl t ht
  · intro X hX
    obtain ⟨hm, hne⟩ := List.mem_filter.mp hX
    rw [henvs] at hm
    obtain ⟨Y, hY, rfl⟩ := List.mem_map.mp hm
    by_cases hk : Y.id = k
    · simp [hk] at hne
    · simp only [hk, if_false]; exact ⟨hY, hk⟩
  · intro X hX hne
    refine List.mem_filter.mpr ⟨?_, by simpa using hne⟩
    rw [henvs]
    exact List.mem_map.mpr ⟨X, hX, by simp [hne]⟩
  · show s.dead ++ _ = _
    congr 1
    rw [henvs, List.filter_map, List.map_map]
    have : (fun X : Env => decide (X.id = k)) ∘ (fun X => if X.id = k then { X with cancelled := X.cancelled + X.pending, pending := 0 } else X) = (fun X => decide (X.id = k)) := by
      funext X; by_cases hk : X.id = k <;> simp [hk]
    rw [this]
    apply List.map_congr_left
    intro X hX
    have hk : X.id = k := by simpa using (List.mem_filter.mp hX).2
    simp [hk]

/-- What a teardown that runs to completion leaves, under the well-formedness and hook hypotheses. -/
theorem teardown_done_state (s : State) (k : EnvId) (force late : Bool) (hf : List TaskId) (E : Env)
    (hE : s.env? k = some E) (hwf : envWf s k E.tasks = true) (hrel : hooksOk s E.hooks = true)
    (hhk : ∀ h ∈ E.hooks, h.task ∈ E.tasks)
    (hdone : (teardown s k force late hf).2.1 = .ok ∨ (teardown s k force late hf).2.1 = .doneErr) :
    (teardown s k force late hf).1.roster = s.roster.map (relAll E.tasks) ∧
    (teardown s k force late hf).1.master = s.master ∧
    (teardown s k force late hf).1.killLog = s.killLog ∧
    (∀ X ∈ (teardown s k force late hf).1.envs, X ∈ s.envs ∧ X.id ≠ k) ∧
    (∀ X ∈ s.envs, X.id ≠ k → X ∈ (teardown s k force late hf).1.envs) ∧
    (teardown s k force late hf).1.dead = s.dead ++ (s.envs.filter (fun X => decide (X.id = k))).map
      (fun X => (X.id, X.started, X.cancelled + X.pending)) :=
  teardown_done_state' s k force late hf E hE (wf_parent s k E.tasks hwf) hrel hhk hdone

/-- A teardown that answers "error" or "not found" has, under well-formedness, changed nothing. -/
theorem teardown_err_unchanged (s : State) (k : EnvId) (force late : Bool) (hf : List TaskId)
    (hwf : ∀ E, s.env? k = some E → envWf s k E.tasks = true ∧ (∀ h ∈ E.hooks, h.task ∈ E.tasks))
    (herr : (teardown s k force late hf).2.1 = .err ∨ (teardown s k force late hf).2.1 = .notfound) :
    (teardown s k force late hf).1 = s := by
  revert herr
  unfold teardown
  split
  · intro _; rfl
  · rename_i E hE
    obtain ⟨hw, hhk⟩ := hwf E hE
    have hpar := wf_parent s k E.tasks hw
    have herr1 : (releaseTasks s k (tdPlain E)).2 = 0 :=
      releaseTasks_errs_zero s k _ (fun t ht hx => Or.inl (hpar t ht (tdPlain_sub E _ hx)))
    split
    · intro _; rfl
    split
    · intro _; rfl
    split
    · intro _; rfl
    simp only []
    rw [herr1]
    simp only [Nat.lt_irrefl, if_false]
    unfold tdFinish
    simp only []
    split
    · intro h; simp at h
    have hr2 : (tdCancel (releaseTasks s k (tdPlain E)).1 k E).roster = s.roster.map (relMap k (tdPlain E)) := rfl
    have herr2 : (releaseTasks (tdCancel (releaseTasks s k (tdPlain E)).1 k E) k (tdMsg (releaseTasks s k (tdPlain E)).1 E)).2 = 0 := by
      apply releaseTasks_errs_zero
      intro t' ht' hx
      rw [hr2] at ht'
      obtain ⟨t, ht, rfl⟩ := List.mem_map.mp ht'
      obtain ⟨x, _, z⟩ := relMap_props k (tdPlain E) t
      rw [x] at hx
      have := hpar t ht (tdMsg_sub _ E hhk _ hx)
      rcases z with z | z
      · left; rw [z]; exact this
      · right; exact z.1
    rw [herr2]
    simp only [Nat.lt_irrefl, if_false]
    intro h
    split at h <;> simp at h

end Own

namespace Own

theorem env?_none_of_unlisted (s : State) (k : EnvId) (h : ∀ E ∈ s.envs, E.id ≠ k) : s.env? k = none := by
  unfold State.env?
  rw [List.find?_eq_none]
  intro E hE
  simpa using h E hE

/-- What became of the master's rows after a completed teardown followed by a kill of the environment's tasks:
    a task launched for `k` was sent a KILL, or has ended, or its KILL call failed and it sits in the roster
    again — unlocked, ACTIVE, without a parent. -/
def RowsAfter (s D F : State) (E : Env) : Prop :=
  ∀ m' ∈ F.master, ∃ m ∈ s.master, m'.id = m.id ∧ m'.label = m.label ∧
    ((m.mesos = .terminal → m'.mesos = .terminal)) ∧
    (∀ t' ∈ D.roster, t'.id = m.id → t'.isLocked = false → t'.active = true → t'.id ∈ E.tasks →
      m'.killed = true ∨ (t'.id ∈ D.refusing ∧ t' ∈ F.roster))

/-- The fate of every task launched for `k` (see `RowsAfter`), under the hypotheses of the clean-up theorems. -/
theorem rows_fate (s D F : State) (k : EnvId) (E : Env)
    (hwf : envWf s k E.tasks = true) (hfaith : statusFaithful s E.tasks = true)
    (hD1 : D.roster = s.roster.map (relAll E.tasks)) (hFm : RowsAfter s D F E) :
    ∀ m' ∈ F.master, m'.label = k → m'.killed = true ∨ m'.mesos = .terminal ∨
      ∃ t' ∈ F.roster, t' ∈ D.roster ∧ t'.id = m'.id ∧ t'.parent = none ∧ t'.isLocked = false ∧ t'.active = true
        ∧ t'.id ∈ E.tasks ∧ t'.id ∈ D.refusing := by
  simp only [envWf, Bool.and_eq_true, List.all_eq_true, Bool.or_eq_true, decide_eq_true_eq, List.any_eq_true] at hwf
  obtain ⟨⟨⟨⟨⟨_, _⟩, hP3⟩, _⟩, _⟩, _⟩ := hwf
  simp only [statusFaithful, List.all_eq_true, Bool.or_eq_true, decide_eq_true_eq] at hfaith
  intro m' hm' hl
  obtain ⟨m, hm, hid, hlab, hterm, hkill⟩ := hFm m' hm'
  have hmk : m.label = k := by rw [← hlab]; exact hl
  rcases hP3 m hm with h | ⟨hin, hterm0 | ⟨t, ht, hte⟩⟩
  · exact absurd hmk h
  · right; left; exact hterm hterm0
  · have hte' : t.id = m.id := by simpa using hte
    have ht' : relAll E.tasks t ∈ D.roster := by rw [hD1]; exact List.mem_map_of_mem ht
    have hrel : relAll E.tasks t = { t with parent := none } := by simp [relAll, hte', hin]
    by_cases ha : t.active = true
    · have hl' : (relAll E.tasks t).isLocked = false := by rw [hrel]; simp [Task.isLocked]
      have hin' : (relAll E.tasks t).id ∈ E.tasks := by rw [hrel]; show t.id ∈ E.tasks; rw [hte']; exact hin
      rcases hkill (relAll E.tasks t) ht' (by rw [hrel]; exact hte') hl' (by rw [hrel]; exact ha) hin' with h | ⟨h1, h2⟩
      · left; exact h
      · right; right
        exact ⟨_, h2, ht', by rw [hrel, hid]; exact hte', by rw [hrel], hl', by rw [hrel]; exact ha, hin', h1⟩
    · right; left
      apply hterm
      rcases hfaith t ht with h | h
      · rcases h with h | h
        · exact absurd (hte' ▸ hin) h
        · exact absurd h ha
      · rcases h m hm with h | h
        · exact absurd hte'.symm h
        · exact h

/-- `cleanAfter` for the state a completed teardown (plus the task cleanup, unless tasks are kept) leaves. -/
theorem clean_core (s D F : State) (k : EnvId) (keep : Bool) (E : Env)
    (hwf : envWf s k E.tasks = true) (hfaith : statusFaithful s E.tasks = true)
    (hD1 : D.roster = s.roster.map (relAll E.tasks))
    (hD4 : ∀ X ∈ D.envs, X ∈ s.envs ∧ X.id ≠ k)
    (hD6 : D.dead = s.dead ++ (s.envs.filter (fun X => decide (X.id = k))).map (fun X => (X.id, X.started, X.cancelled + X.pending)))
    (hFenvs : F.envs = D.envs) (hFdead : F.dead = D.dead) (hFroster : ∀ t' ∈ F.roster, t' ∈ D.roster)
    (hFm : keep = false → RowsAfter s D F E) :
    cleanAfter k keep (viewOf F) = true := by
  have hfate := fun hk => rows_fate s D F k E hwf hfaith hD1 (hFm hk)
  simp only [envWf, Bool.and_eq_true, List.all_eq_true, Bool.or_eq_true, decide_eq_true_eq, List.any_eq_true] at hwf
  obtain ⟨⟨⟨⟨⟨hP1, hP2⟩, hP3⟩, _⟩, hP5⟩, hP6⟩ := hwf
  have hDpar : ∀ t' ∈ D.roster, t'.parent ≠ some k := by
    intro t' ht'
    rw [hD1] at ht'
    obtain ⟨t, ht, rfl⟩ := List.mem_map.mp ht'
    unfold relAll
    by_cases hin : t.id ∈ E.tasks
    · simp [hin]
    · simp only [hin, if_false]
      rcases hP1 t ht with h | h
      · exact h
      · exact absurd h hin
  simp only [cleanAfter, viewOf, Bool.and_eq_true, List.all_eq_true, List.mem_map, forall_exists_index, and_imp,
    forall_apply_eq_imp_iff₂, decide_eq_true_eq, Bool.or_eq_true, List.any_eq_true, List.mem_append]
  refine ⟨⟨⟨⟨?_, ?_⟩, ?_⟩, ?_⟩, ?_⟩
  · intro X hX; rw [hFenvs] at hX; exact (hD4 X hX).2
  · intro t' ht'; exact hDpar t' (hFroster t' ht')
  · by_cases hk : keep = true
    · left; exact hk
    · right
      intro m' hm'
      by_cases hl : m'.label = k
      · rcases hfate (by simpa using hk) m' hm' hl with h | h | ⟨t', ht', _, hid, hpar, _⟩
        · left; left; right; exact h
        · left; right; exact h
        · right
          exact ⟨_, ⟨t', ht', rfl⟩, by simpa using hid, by simpa using hpar⟩
      · left; left; left; exact hl
  · intro d hd
    rw [hFenvs]
    simp only [State.activeDets, List.mem_flatMap] at hd
    obtain ⟨X, hX, hdX⟩ := hd
    rw [hFenvs] at hX
    exact ⟨_, ⟨X, hX, rfl⟩, hdX⟩
  · intro c hc
    rw [hFenvs, hFdead, hD6] at hc
    rcases hc with ⟨X, hX, rfl⟩ | hc
    · left; exact (hD4 X hX).2
    · rcases List.mem_append.mp hc with hc | hc
      · left; exact hP6 c hc
      · right
        obtain ⟨X, hX, rfl⟩ := List.mem_map.mp hc
        obtain ⟨hXm, hXk⟩ := List.mem_filter.mp hX
        rcases hP5 X hXm with h | h
        · exact absurd (by simpa using hXk) h
        · exact h

/-- If none of the KILL calls for the environment's tasks failed, every task launched for `k` was sent a KILL or has ended. -/
theorem killed_core (s D F : State) (k : EnvId) (E : Env)
    (hwf : envWf s k E.tasks = true) (hfaith : statusFaithful s E.tasks = true)
    (hD1 : D.roster = s.roster.map (relAll E.tasks)) (hFm : RowsAfter s D F E)
    (hno : ∀ t' ∈ D.roster, t'.isLocked = false → t'.active = true → t'.id ∈ E.tasks → t'.id ∉ D.refusing) :
    allKilled k (viewOf F) = true := by
  simp only [allKilled, viewOf, List.all_eq_true, List.mem_map, forall_exists_index, and_imp, forall_apply_eq_imp_iff₂,
    Bool.or_eq_true, decide_eq_true_eq]
  intro m' hm'
  by_cases hl : m'.label = k
  · rcases rows_fate s D F k E hwf hfaith hD1 hFm m' hm' hl with h | h | ⟨t', _, htD, _, _, hlk, hact, hin, href⟩
    · left; right; exact h
    · right; exact h
    · exact absurd href (hno t' htD hlk hact hin)
  · left; left; exact hl

/-- The master's rows after `doKill D tk`, for a list `tk` taken from the roster. -/
theorem doKill_master_rows (s D : State) (tk : List Task) (hD2 : D.master = s.master)
    (P : Task → Prop) (hP : ∀ t' ∈ D.roster, t'.isLocked = false → t'.active = true → P t' → t' ∈ tk) :
    ∀ m' ∈ (doKill D tk).master, ∃ m ∈ s.master, m'.id = m.id ∧ m'.label = m.label ∧
      ((m.mesos = .terminal → m'.mesos = .terminal)) ∧
      (∀ t' ∈ D.roster, t'.id = m.id → t'.isLocked = false → t'.active = true → P t' →
        m'.killed = true ∨ (t'.id ∈ D.refusing ∧ t' ∈ (doKill D tk).roster)) := by
  intro m' hm'
  simp only [doKill, killMany, List.mem_map, hD2] at hm'
  obtain ⟨m, hm, rfl⟩ := hm'
  refine ⟨m, hm, ?_, ?_, ?_, ?_⟩
  · split <;> rfl
  · split <;> rfl
  · intro h; split <;> simp [h]
  · intro t' ht' hid hl ha hp
    have htk := hP t' ht' hl ha hp
    by_cases href : t'.id ∈ D.refusing
    · right
      refine ⟨href, ?_⟩
      rw [doKill_roster]
      exact List.mem_append.mpr (Or.inr (List.mem_filter.mpr ⟨List.mem_filter.mpr ⟨htk, ha⟩, by simpa using href⟩))
    · left
      have : m.id ∈ List.map (fun x => x.id) (List.filter (fun t => decide (t.id ∉ D.refusing)) (List.filter (fun x => x.active) tk)) :=
        List.mem_map.mpr ⟨t', List.mem_filter.mpr ⟨List.mem_filter.mpr ⟨htk, ha⟩, by simpa using href⟩, hid⟩
      rw [if_pos (by simpa [List.mem_map] using this)]

/-- The master's rows after `killTasks D ids`. -/
theorem killTasks_master_rows (s D : State) (ids : List TaskId) (hD2 : D.master = s.master) :
    ∀ m' ∈ (killTasks D ids).master, ∃ m ∈ s.master, m'.id = m.id ∧ m'.label = m.label ∧
      ((m.mesos = .terminal → m'.mesos = .terminal)) ∧
      (∀ t' ∈ D.roster, t'.id = m.id → t'.isLocked = false → t'.active = true → t'.id ∈ ids →
        m'.killed = true ∨ (t'.id ∈ D.refusing ∧ t' ∈ (killTasks D ids).roster)) :=
  doKill_master_rows s D _ hD2 (fun t => t.id ∈ ids)
    (fun t' ht' hl _ hin => List.mem_filter.mpr ⟨ht', by simp [hl, hin]⟩)

theorem cleanup_master_rows (s D : State) (ids : List TaskId) (hD2 : D.master = s.master) :
    ∀ m' ∈ (cleanup D).master, ∃ m ∈ s.master, m'.id = m.id ∧ m'.label = m.label ∧
      ((m.mesos = .terminal → m'.mesos = .terminal)) ∧
      (∀ t' ∈ D.roster, t'.id = m.id → t'.isLocked = false → t'.active = true → t'.id ∈ ids →
        m'.killed = true ∨ (t'.id ∈ D.refusing ∧ t' ∈ (cleanup D).roster)) :=
  doKill_master_rows s D _ hD2 (fun t => t.id ∈ ids)
    (fun t' ht' hl _ _ => List.mem_filter.mpr ⟨ht', by simp [hl]⟩)

theorem mem_cleanupTasks_roster {D : State} {ids : List TaskId} {t' : Task} (ht' : t' ∈ (cleanupTasks D ids).roster) :
    t' ∈ D.roster := by
  unfold cleanupTasks at ht'
  split at ht'
  · exact mem_doKill_roster List.filter_sublist ht'
  · exact mem_doKill_roster List.filter_sublist ht'

theorem cleanupTasks_rows (s D : State) (E : Env) (hD2 : D.master = s.master) : RowsAfter s D (cleanupTasks D E.tasks) E := by
  unfold cleanupTasks
  split
  · exact cleanup_master_rows s D E.tasks hD2
  · exact killTasks_master_rows s D E.tasks hD2

theorem clean_of_done (s D : State) (k : EnvId) (keep : Bool) (E : Env)
    (hwf : envWf s k E.tasks = true) (hfaith : statusFaithful s E.tasks = true)
    (hD1 : D.roster = s.roster.map (relAll E.tasks)) (hD2 : D.master = s.master)
    (hD4 : ∀ X ∈ D.envs, X ∈ s.envs ∧ X.id ≠ k)
    (hD6 : D.dead = s.dead ++ (s.envs.filter (fun X => decide (X.id = k))).map (fun X => (X.id, X.started, X.cancelled + X.pending))) :
    cleanAfter k keep (viewOf (if keep then D else cleanupTasks D E.tasks)) = true := by
  apply clean_core s D _ k keep E hwf hfaith hD1 hD4 hD6
  · split
    · rfl
    · exact cleanupTasks_envs _ _
  · split
    · rfl
    · unfold cleanupTasks; split <;> rfl
  · intro t' ht'
    split at ht'
    · exact ht'
    · exact mem_cleanupTasks_roster ht'
  · intro hk
    simp only [hk, Bool.false_eq_true, if_false]
    exact cleanupTasks_rows s D E hD2

/-- The clean-up after a completed teardown reported no error: every task launched for `k` was sent a KILL or has ended. -/
theorem killed_of_done (s D : State) (k : EnvId) (E : Env)
    (hwf : envWf s k E.tasks = true) (hfaith : statusFaithful s E.tasks = true)
    (hD1 : D.roster = s.roster.map (relAll E.tasks)) (hD2 : D.master = s.master)
    (hne : cleanupTasksErr D E.tasks = false) :
    allKilled k (viewOf (cleanupTasks D E.tasks)) = true := by
  apply killed_core s D _ k E hwf hfaith hD1 (cleanupTasks_rows s D E hD2)
  intro t' ht' hl ha hin href
  unfold cleanupTasksErr at hne
  split at hne
  · have : cleanupErr D = true := by
      simp only [cleanupErr, killErr, List.any_eq_true, Bool.and_eq_true, decide_eq_true_eq]
      exact ⟨t', List.mem_filter.mpr ⟨ht', by simp [hl]⟩, ha, href⟩
    rw [this] at hne; exact absurd hne (by simp)
  · have : killTasksErr D E.tasks = true := by
      simp only [killTasksErr, killErr, List.any_eq_true, Bool.and_eq_true, decide_eq_true_eq]
      exact ⟨t', List.mem_filter.mpr ⟨ht', by simp [hl, hin]⟩, ha, href⟩
    rw [this] at hne; exact absurd hne (by simp)

/-- The same with KillTasks on the environment's tasks as the last step (the failure tail of a creation):
    a task whose KILL call failed sits unowned in the roster afterwards. -/
theorem clean_of_done_kill (s D : State) (k : EnvId) (E : Env)
    (hwf : envWf s k E.tasks = true) (hfaith : statusFaithful s E.tasks = true)
    (hD1 : D.roster = s.roster.map (relAll E.tasks)) (hD2 : D.master = s.master)
    (hD4 : ∀ X ∈ D.envs, X ∈ s.envs ∧ X.id ≠ k)
    (hD6 : D.dead = s.dead ++ (s.envs.filter (fun X => decide (X.id = k))).map (fun X => (X.id, X.started, X.cancelled + X.pending))) :
    cleanAfter k false (viewOf (killTasks D E.tasks)) = true := by
  apply clean_core s D _ k false E hwf hfaith hD1 hD4 hD6
  · rfl
  · rfl
  · intro t' ht'; exact mem_doKill_roster List.filter_sublist ht'
  · intro _; exact killTasks_master_rows s D E.tasks hD2

end Own

namespace Own

theorem teardown_notfound (s : State) (k : EnvId) (f l : Bool) (hf : List TaskId) (h : s.env? k = none) :
    (teardown s k f l hf).2.1 = .notfound := by
  unfold teardown; rw [h]

theorem destroyedClean_clean {k : EnvId} {keep : Bool} {v : View} (h : destroyedClean k keep v = true) :
    cleanAfter k keep v = true := by
  simp only [destroyedClean, Bool.and_eq_true] at h; exact h.1

theorem destroyedClean_killed {k : EnvId} {v : View} (h : destroyedClean k false v = true) : allKilled k v = true := by
  simp only [destroyedClean, Bool.and_eq_true, Bool.false_or] at h; exact h.2

/-- doTeardownAndCleanup answering success leaves the environment clean — and every one of its tasks killed,
    unless they were to be kept —, under the hypotheses. -/
theorem tac_clean (s : State) (k : EnvId) (force keep : Bool) (o : DOracle) (E : Env)
    (hE : s.env? k = some E) (hwf : envWf s k E.tasks = true) (hfaith : statusFaithful s E.tasks = true)
    (hrel : hooksOk s E.hooks = true) (hhk : ∀ h ∈ E.hooks, h.task ∈ E.tasks)
    (hok : (teardownAndCleanup s k E.tasks force keep o).2.1 = .ok) :
    destroyedClean k keep (viewOf (teardownAndCleanup s k E.tasks force keep o).1) = true := by
  have hwf' : ∀ E', s.env? k = some E' → envWf s k E'.tasks = true ∧ (∀ h ∈ E'.hooks, h.task ∈ E'.tasks) := by
    intro E' hE'; rw [hE] at hE'; injection hE' with hE'; subst hE'; exact ⟨hwf, hhk⟩
  -- the state of a completed teardown gives the claim
  have fin : ∀ (f l : Bool) (tr : List TEv), (teardown s k f l o.hookFails).2.1 = .ok →
      (tcFin keep E.tasks (teardown s k f l o.hookFails).1 .ok tr).2.1 = .ok →
      destroyedClean k keep (viewOf (tcFin keep E.tasks (teardown s k f l o.hookFails).1 .ok tr).1) = true := by
    intro f l tr hdone hres
    obtain ⟨a1, a2, _, a4, _, a6⟩ := teardown_done_state s k f l o.hookFails E hE hwf hrel hhk (Or.inl hdone)
    have hc := clean_of_done s _ k keep E hwf hfaith a1 a2 a4 a6
    simp only [destroyedClean, Bool.and_eq_true, Bool.or_eq_true]
    revert hres
    simp only [tcFin]
    split
    · rename_i hk
      intro _
      exact ⟨by simpa [hk] using hc, Or.inl hk⟩
    · rename_i hk
      intro hres
      refine ⟨by simpa [hk] using hc, Or.inr ?_⟩
      have hne : cleanupTasksErr (teardown s k f l o.hookFails).1 E.tasks = false := by
        cases he : cleanupTasksErr (teardown s k f l o.hookFails).1 E.tasks
        · rfl
        · simp [he] at hres
      exact killed_of_done s _ k E hwf hfaith a1 a2 hne
  revert hok
  unfold teardownAndCleanup
  simp only []
  split
  · intro hok
    obtain ⟨a, _⟩ := tcFin_ok _ _ _ _ _ hok
    rw [a] at hok ⊢; exact fin _ _ _ a hok
  · rename_i hcase
    intro hok
    obtain ⟨a, _⟩ := tcFin_ok _ _ _ _ _ hok
    -- the first attempt ended in err / notfound / doneErr
    have h1 : (teardown s k force o.late1 o.hookFails).2.1 = .err ∨ (teardown s k force o.late1 o.hookFails).2.1 = .notfound
        ∨ (teardown s k force o.late1 o.hookFails).2.1 = .doneErr := by
      cases hr : (teardown s k force o.late1 o.hookFails).2.1 <;> simp_all
    rcases h1 with h1 | h1 | h1
    · have hs := teardown_err_unchanged s k force o.late1 o.hookFails hwf' (Or.inl h1)
      rw [hs] at a hok ⊢
      rw [a] at hok ⊢; exact fin _ _ _ a hok
    · have hs := teardown_err_unchanged s k force o.late1 o.hookFails hwf' (Or.inr h1)
      rw [hs] at a hok ⊢
      rw [a] at hok ⊢; exact fin _ _ _ a hok
    · -- the environment is gone: the retry answers "not found"
      have hnone := env?_none_of_unlisted _ k (teardown_done_unlisted s k force o.late1 o.hookFails (Or.inr h1))
      have : (teardown (teardown s k force o.late1 o.hookFails).1 k true o.late2 o.hookFails).2.1 = .notfound :=
        teardown_notfound _ _ _ _ _ hnone
      rw [this] at a
      exact absurd a (by simp)

theorem env?_sameOwn {s s1 : State} (h : SameOwn s s1) (k : EnvId) (E : Env) (hE : s.env? k = some E) :
    ∃ E1, s1.env? k = some E1 ∧ E1.id = E.id ∧ E1.tasks = E.tasks ∧ E1.hooks = E.hooks ∧ E1.tearing = E.tearing := by
  obtain ⟨f, hf, he⟩ := h.envs
  refine ⟨f E, ?_, (hf E).1, (hf E).2.1, (hf E).2.2.1, (hf E).2.2.2.1⟩
  unfold State.env? at hE ⊢
  rw [he, List.find?_map]
  have : ((fun E => decide (E.id = k)) ∘ f) = (fun E : Env => decide (E.id = k)) := by
    funext X; simp [(hf X).1]
  rw [this, hE]
  rfl

/-- The same for every state that differs from `s` in task and environment states only. -/
theorem tac_clean_same (s s1 : State) (hso : SameOwn s s1) (k : EnvId) (force keep : Bool) (o : DOracle) (E : Env)
    (hE : s.env? k = some E) (hwf : envWf s k E.tasks = true) (hfaith : statusFaithful s E.tasks = true)
    (hrel : hooksOk s E.hooks = true) (hhk : ∀ h ∈ E.hooks, h.task ∈ E.tasks)
    (hok : (teardownAndCleanup s1 k E.tasks force keep o).2.1 = .ok) :
    destroyedClean k keep (viewOf (teardownAndCleanup s1 k E.tasks force keep o).1) = true := by
  obtain ⟨E1, hE1, _, ht, hh, _⟩ := env?_sameOwn hso k E hE
  obtain ⟨t1, t2, t3⟩ := hyps_transfer hso k E.tasks E.hooks
  rw [← ht] at hok ⊢
  exact tac_clean s1 k force keep o E1 hE1 (by rw [ht, t1]; exact hwf) (by rw [ht, t2]; exact hfaith)
    (by rw [hh, t3]; exact hrel) (by rw [hh, ht]; exact hhk) hok

theorem destroyRest_clean (s s1 : State) (hso : SameOwn s s1) (st : EState) (stopOk : Bool) (k : EnvId) (keep : Bool)
    (o : DOracle) (E : Env)
    (hE : s.env? k = some E) (hwf : envWf s k E.tasks = true) (hfaith : statusFaithful s E.tasks = true)
    (hrel : hooksOk s E.hooks = true) (hhk : ∀ h ∈ E.hooks, h.task ∈ E.tasks) :
    (destroyRest s1 st stopOk k E keep o).2.1 = .ok →
    destroyedClean k keep (viewOf (destroyRest s1 st stopOk k E keep o).1) = true ∨
    destroyedClean k false (viewOf (destroyRest s1 st stopOk k E keep o).1) = true := by
  unfold destroyRest
  split
  · intro h; right; exact tac_clean_same s s1 hso k true false o E hE hwf hfaith hrel hhk h
  split
  · intro h; right; exact tac_clean_same s s1 hso k true false o E hE hwf hfaith hrel hhk h
  split
  · split
    · intro h; left
      exact tac_clean_same s _ (hso.trans ((sameOwn_applyTrans _ _ _ _).trans (sameOwn_setEnv_state _ _ _))) k false keep o E hE hwf hfaith hrel hhk h
    · intro h; right
      exact tac_clean_same s _ (hso.trans (sameOwn_applyTrans _ _ _ _)) k true false o E hE hwf hfaith hrel hhk h
  · intro h; left; exact tac_clean_same s s1 hso k false keep o E hE hwf hfaith hrel hhk h

/-- cleanAfter with tasks killed implies cleanAfter with tasks kept. -/
theorem cleanAfter_keep_of_kill (k : EnvId) (v : View) (h : cleanAfter k false v = true) : cleanAfter k true v = true := by
  simp only [cleanAfter, Bool.and_eq_true, Bool.or_eq_true, Bool.false_eq_true, false_or, true_or, and_true] at h ⊢
  exact ⟨⟨⟨h.1.1.1.1, h.1.1.1.2⟩, h.1.2⟩, h.2⟩

/-- … and so does the stronger obligation of a destroy that answered success. -/
theorem destroyedClean_keep_of_kill (k : EnvId) (v : View) (h : destroyedClean k false v = true) : destroyedClean k true v = true := by
  simp only [destroyedClean, Bool.and_eq_true, Bool.true_or, and_true]
  exact cleanAfter_keep_of_kill k v (destroyedClean_clean h)

theorem destroy_clean (s : State) (k : EnvId) (force allow keep : Bool) (o : DOracle) (E : Env)
    (hE : s.env? k = some E) (hwf : envWf s k E.tasks = true) (hfaith : statusFaithful s E.tasks = true)
    (hrel : hooksOk s E.hooks = true) (hhk : ∀ h ∈ E.hooks, h.task ∈ E.tasks)
    (hok : (destroy s k force allow keep o).2.1 = .ok) :
    destroyedClean k keep (viewOf (destroy s k force allow keep o).1) = true := by
  revert hok
  unfold destroy
  split
  · intro h; simp at h
  rw [hE]
  simp only []
  split
  · intro h; simp at h
  split
  · intro h; exact tac_clean s k true keep o E hE hwf hfaith hrel hhk h
  · intro h
    rcases destroyRest_clean s _ (sameOwn_destroyStop s k E allow o.stopFails) _ _ k keep o E hE hwf hfaith hrel hhk h with h1 | h1
    · exact h1
    · cases keep
      · exact h1
      · exact destroyedClean_keep_of_kill k _ h1

/-- A forced teardown of a listed, not torn, not DONE environment never answers "error" or
    "not found" when the bookkeeping is well-formed: it completes or hangs. -/
theorem teardown_forced_res' (s : State) (k : EnvId) (late : Bool) (hf : List TaskId) (E : Env)
    (hE : s.env? k = some E) (hte : E.tearing = false) (hnd : E.state ≠ .DONE)
    (hpar : ∀ t ∈ s.roster, t.id ∈ E.tasks → t.parent = some k) (hhk : ∀ h ∈ E.hooks, h.task ∈ E.tasks) :
    (teardown s k true late hf).2.1 = .ok ∨ (teardown s k true late hf).2.1 = .doneErr ∨
    (teardown s k true late hf).2.1 = .hang := by
  have herr1 : (releaseTasks s k (tdPlain E)).2 = 0 :=
    releaseTasks_errs_zero s k _ (fun t ht hx => Or.inl (hpar t ht (tdPlain_sub E _ hx)))
  unfold teardown
  rw [hE]
  simp only [hte, hnd, Bool.false_eq_true, if_false, Bool.not_true, Bool.and_false]
  rw [herr1]
  simp only [Nat.lt_irrefl, if_false]
  unfold tdFinish
  simp only []
  split
  · right; right; rfl
  have hr2 : (tdCancel (releaseTasks s k (tdPlain E)).1 k E).roster = s.roster.map (relMap k (tdPlain E)) := rfl
  have herr2 : (releaseTasks (tdCancel (releaseTasks s k (tdPlain E)).1 k E) k (tdMsg (releaseTasks s k (tdPlain E)).1 E)).2 = 0 := by
    apply releaseTasks_errs_zero
    intro t' ht' hx
    rw [hr2] at ht'
    obtain ⟨t, ht, rfl⟩ := List.mem_map.mp ht'
    obtain ⟨x, _, z⟩ := relMap_props k (tdPlain E) t
    rw [x] at hx
    have := hpar t ht (tdMsg_sub _ E hhk _ hx)
    rcases z with z | z
    · left; rw [z]; exact this
    · right; exact z.1
  rw [herr2]
  simp only [Nat.lt_irrefl, if_false]
  split
  · right; left; rfl
  · left; rfl

theorem teardown_forced_res (s : State) (k : EnvId) (late : Bool) (hf : List TaskId) (E : Env)
    (hE : s.env? k = some E) (hte : E.tearing = false) (hnd : E.state ≠ .DONE)
    (hwf : envWf s k E.tasks = true) (hhk : ∀ h ∈ E.hooks, h.task ∈ E.tasks) :
    (teardown s k true late hf).2.1 = .ok ∨ (teardown s k true late hf).2.1 = .doneErr ∨
    (teardown s k true late hf).2.1 = .hang :=
  teardown_forced_res' s k late hf E hE hte hnd (wf_parent s k E.tasks hwf) hhk

/-- A teardown only hangs in an environment in which an earlier one hung, or by the oracle of the
    rendezvous race — which has a say in a configuration with the late delete only. -/
theorem teardown_not_hang (s : State) (k : EnvId) (force late : Bool) (hf : List TaskId)
    (hte : ∀ E, s.env? k = some E → E.tearing = false) (hl : (late && s.cfg.lateDelete) = false) :
    (teardown s k force late hf).2.1 ≠ .hang := by
  unfold teardown
  split
  · simp
  · rename_i E hE
    have := hte E hE
    simp only [this, Bool.false_eq_true, if_false]
    split
    · simp
    split
    · simp
    split
    · simp
    · unfold tdFinish
      simp only [hl, Bool.false_eq_true, if_false]
      split
      · simp
      · split <;> simp

/-- The listing entry of `k` after its state was set. -/
theorem env?_setEnv_state (s : State) (k : EnvId) (st : EState) :
    (setEnv s k (fun X => { X with state := st })).env? k = (s.env? k).map (fun E => { E with state := st }) := by
  unfold State.env? setEnv
  simp only [List.find?_map]
  have hcomp : ((fun E => decide (E.id = k)) ∘ fun E : Env => if E.id = k then { E with state := st } else E) =
      (fun E : Env => decide (E.id = k)) := by
    funext X; by_cases hX : X.id = k <;> simp [hX]
  rw [hcomp]
  cases hf : s.envs.find? (fun E => decide (E.id = k)) with
  | none => rfl
  | some E =>
    have hk : E.id = k := by simpa using List.find?_some hf
    simp [hk]

/-- The failure tail of a creation does not hang either, then. -/
theorem createFail_not_hang (s : State) (k : EnvId) (ids : List TaskId) (late : Bool) (res : Res) (hf : List TaskId)
    (hte : ∀ E, s.env? k = some E → E.tearing = false) (hl : (late && s.cfg.lateDelete) = false) (hres : res ≠ .hang) :
    (createFail s k ids late res hf).2 ≠ .hang := by
  have h1 : (teardown (setEnv s k (fun X => { X with state := .ERROR })) k true late hf).2.1 ≠ .hang := by
    refine teardown_not_hang (setEnv s k (fun X => { X with state := .ERROR })) k true late hf ?_ hl
    intro E1 hE1
    rw [env?_setEnv_state] at hE1
    cases hs : s.env? k with
    | none => rw [hs] at hE1; simp at hE1
    | some E =>
      rw [hs] at hE1
      simp only [Option.map_some, Option.some.injEq] at hE1
      rw [← hE1]
      exact hte E hs
  unfold createFail
  cases hr : (teardown (setEnv s k (fun X => { X with state := .ERROR })) k true late hf).2.1 with
  | hang => exact absurd hr h1
  | _ => simpa [hr] using hres

/-- The failure tail of CreateEnvironment (GO_ERROR, forced teardown, KillTasks) leaves the
    environment clean unless it hangs, under the hypotheses of the clean-destroy theorem. -/
theorem createFail_clean (s : State) (k : EnvId) (late : Bool) (res : Res) (hf : List TaskId) (E : Env)
    (hE : s.env? k = some E) (hte : E.tearing = false) (hwf : envWf s k E.tasks = true)
    (hhk : ∀ h ∈ E.hooks, h.task ∈ E.tasks)
    (hrel : hooksOk s E.hooks = true) (hfaith : statusFaithful s E.tasks = true)
    (hnh : (createFail s k E.tasks late res hf).2 ≠ .hang) :
    cleanAfter k false (viewOf (createFail s k E.tasks late res hf).1) = true := by
  have hso := sameOwn_setEnv_state s k .ERROR
  obtain ⟨t1, t2, t3⟩ := hyps_transfer hso k E.tasks E.hooks
  -- the environment as listed after GO_ERROR
  have hE1 : (setEnv s k (fun X => { X with state := .ERROR })).env? k = some { E with state := .ERROR } := by
    have hk : E.id = k := (env?_some hE).2
    unfold State.env? setEnv at *
    simp only [List.find?_map]
    have : ((fun E => decide (E.id = k)) ∘ fun E : Env => if E.id = k then { E with state := EState.ERROR } else E) =
        (fun E : Env => decide (E.id = k)) := by
      funext X; by_cases hX : X.id = k <;> simp [hX]
    rw [this, hE]
    simp [hk]
  have hwf1 : envWf (setEnv s k (fun X => { X with state := .ERROR })) k E.tasks = true := by rw [t1]; exact hwf
  have hfa1 : statusFaithful (setEnv s k (fun X => { X with state := .ERROR })) E.tasks = true := by rw [t2]; exact hfaith
  have hrel1 : hooksOk (setEnv s k (fun X => { X with state := .ERROR })) E.hooks = true := by rw [t3]; exact hrel
  have hres := teardown_forced_res _ k late hf { E with state := .ERROR } hE1 hte (by simp) hwf1 hhk
  revert hnh
  unfold createFail
  simp only []
  rcases hres with h | h | h
  · rw [h]; intro _
    obtain ⟨a1, a2, _, a4, _, a6⟩ := teardown_done_state _ k true late hf { E with state := .ERROR } hE1 hwf1 hrel1 hhk (Or.inl h)
    exact clean_of_done_kill _ _ k { E with state := .ERROR } hwf1 hfa1 a1 a2 a4 a6
  · rw [h]; intro _
    obtain ⟨a1, a2, _, a4, _, a6⟩ := teardown_done_state _ k true late hf { E with state := .ERROR } hE1 hwf1 hrel1 hhk (Or.inr h)
    exact clean_of_done_kill _ _ k { E with state := .ERROR } hwf1 hfa1 a1 a2 a4 a6
  · rw [h]; intro hc; exact absurd rfl hc

end Own

namespace Own

/-! ### C06: a lost executor / agent, the watcher, and the hypotheses of the clean-destroy theorem -/

theorem hostLost_mem_roster {s : State} {h : Host} {agent : Bool} {t' : Task} (ht' : t' ∈ (hostLost s h agent).roster) :
    ∃ t ∈ s.roster, (t' = t ∧ t.hitBy agent h = false) ∨ (t' = t.lose agent ∧ t.hitBy agent h = true) := by
  rw [hostLost_roster] at ht'
  obtain ⟨t, ht, rfl⟩ := List.mem_map.mp ht'
  refine ⟨t, ht, ?_⟩
  by_cases hh : t.hitBy agent h = true
  · right; simp [hh]
  · left; simp [hh]

theorem hostLost_roster_ids (s : State) (h : Host) (agent : Bool) :
    (hostLost s h agent).roster.map (·.id) = s.roster.map (·.id) := by
  rw [hostLost_roster, List.map_map]
  apply List.map_congr_left
  intro t _
  simp only [Function.comp]
  split
  · exact (lose_props agent t).1
  · rfl

theorem hostLost_mem_master {s : State} {h : Host} {agent : Bool} {m' : MTask} (hm' : m' ∈ (hostLost s h agent).master) :
    ∃ m ∈ s.master, m'.id = m.id ∧ m'.label = m.label ∧ m'.host = m.host ∧
      (m.mesos = .terminal → m'.mesos = .terminal) ∧ (m.host = h → m'.mesos = .terminal) := by
  simp only [hostLost, List.mem_map] at hm'
  obtain ⟨m, hm, rfl⟩ := hm'
  refine ⟨m, hm, ?_⟩
  by_cases hh : m.host = h
  · simp [hh]
  · simp [hh]

theorem envWf_hostLost (s : State) (h : Host) (agent : Bool) (k : EnvId) (tasks : List TaskId)
    (hwf : envWf s k tasks = true) : envWf (hostLost s h agent) k tasks = true := by
  simp only [envWf, Bool.and_eq_true, List.all_eq_true, Bool.or_eq_true, decide_eq_true_eq, List.any_eq_true] at hwf ⊢
  obtain ⟨⟨⟨⟨⟨h1, h2⟩, h3⟩, h4⟩, h5⟩, h6⟩ := hwf
  refine ⟨⟨⟨⟨⟨?_, ?_⟩, ?_⟩, ?_⟩, h5⟩, h6⟩
  · intro t' ht'
    obtain ⟨t, ht, ⟨e, _⟩ | ⟨e, _⟩⟩ := hostLost_mem_roster ht' <;> rw [e]
    · exact h1 t ht
    · rw [(lose_props agent t).1, (lose_props agent t).2.2.1]; exact h1 t ht
  · intro t' ht'
    obtain ⟨t, ht, ⟨e, _⟩ | ⟨e, _⟩⟩ := hostLost_mem_roster ht' <;> rw [e]
    · exact h2 t ht
    · rw [(lose_props agent t).1, (lose_props agent t).2.2.1]; exact h2 t ht
  · intro m' hm'
    obtain ⟨m, hm, a1, a2, _, a4, _⟩ := hostLost_mem_master hm'
    rw [a1, a2]
    rcases h3 m hm with hl | ⟨hin, hterm | ⟨t, ht, hte⟩⟩
    · left; exact hl
    · right; exact ⟨hin, Or.inl (a4 hterm)⟩
    · right
      refine ⟨hin, Or.inr ⟨if t.hitBy agent h then t.lose agent else t, ?_, ?_⟩⟩
      · rw [hostLost_roster]; exact List.mem_map_of_mem ht
      · split
        · rw [(lose_props agent t).1]; exact hte
        · exact hte
  · rw [hostLost_roster_ids]; exact h4

theorem hostsAgree_hostLost (s : State) (h : Host) (agent : Bool) (tasks : List TaskId)
    (hag : hostsAgree s tasks = true) : hostsAgree (hostLost s h agent) tasks = true := by
  simp only [hostsAgree, List.all_eq_true, Bool.or_eq_true, decide_eq_true_eq] at hag ⊢
  intro t' ht'
  have key : ∀ t ∈ s.roster, t'.id = t.id → t'.host = t.host →
      (t'.id ∉ tasks ∨ ∀ m' ∈ (hostLost s h agent).master, m'.id ≠ t'.id ∨ m'.host = t'.host) := by
    intro t ht e1 e2
    rcases hag t ht with hn | hall
    · left; rw [e1]; exact hn
    · right
      intro m' hm'
      obtain ⟨m, hm, a1, _, a3, _, _⟩ := hostLost_mem_master hm'
      rw [a1, a3, e1, e2]
      exact hall m hm
  obtain ⟨t, ht, ⟨e, _⟩ | ⟨e, _⟩⟩ := hostLost_mem_roster ht'
  · exact key t ht (by rw [e]) (by rw [e])
  · exact key t ht (by rw [e]; exact (lose_props agent t).1) (by rw [e]; exact (lose_props agent t).2.2.2.1)

/-- A task hit by the failure has ended at the master; the others are as active as before and
    the master's rows have only moved towards "ended". -/
theorem statusFaithful_hostLost (s : State) (h : Host) (agent : Bool) (tasks : List TaskId)
    (hag : hostsAgree s tasks = true) (hf : statusFaithful s tasks = true) :
    statusFaithful (hostLost s h agent) tasks = true := by
  simp only [hostsAgree, List.all_eq_true, Bool.or_eq_true, decide_eq_true_eq] at hag
  simp only [statusFaithful, List.all_eq_true, Bool.or_eq_true, decide_eq_true_eq] at hf ⊢
  intro t' ht'
  obtain ⟨t, ht, ⟨e, _⟩ | ⟨e, hhit⟩⟩ := hostLost_mem_roster ht' <;> rw [e]
  · rcases hf t ht with (hn | ha) | hall
    · left; left; exact hn
    · left; right; exact ha
    · right
      intro m' hm'
      obtain ⟨m, hm, a1, _, _, a4, _⟩ := hostLost_mem_master hm'
      rw [a1]
      rcases hall m hm with hne | hterm
      · left; exact hne
      · right; exact a4 hterm
  · by_cases hin : t.id ∈ tasks
    · right
      intro m' hm'
      obtain ⟨m, hm, a1, _, _, _, a5⟩ := hostLost_mem_master hm'
      rw [a1, (lose_props agent t).1]
      by_cases hid : m.id = t.id
      · right
        apply a5
        have hth : t.host = h := by
          simp only [Task.hitBy, Bool.and_eq_true, decide_eq_true_eq] at hhit
          exact hhit.1
        rcases hag t ht with hn | hall
        · exact absurd hin hn
        · rcases hall m hm with hne | hh
          · exact absurd hid hne
          · rw [hh, hth]
      · left; exact hid
    · left; left; rw [(lose_props agent t).1]; exact hin

theorem env?_hostLost (s : State) (h : Host) (agent : Bool) (k : EnvId) : (hostLost s h agent).env? k = s.env? k := rfl

/-- The watcher's reaction changes task states and the environment's state only. -/
theorem sameOwn_watchError (s : State) (k : EnvId) (fails : List (TaskId × Bool)) : SameOwn s (watchError s k fails) := by
  cases hE : s.env? k with
  | none => unfold watchError; rw [hE]; exact SameOwn.refl s
  | some E =>
    by_cases hte : E.tearing = true
    · unfold watchError; rw [hE]; simp only [hte, if_true]; exact SameOwn.refl s
    · rw [watchError_eq s k fails E hE (by simpa using hte)]
      refine SameOwn.trans (b := { s with roster := s.roster.map (watchMap E fails) }) ?_ (sameOwn_setEnv_state _ _ _)
      refine ⟨⟨watchMap E fails, ?_, rfl⟩, rfl, rfl, rfl, rfl, ⟨id, fun _ => ⟨rfl, rfl, rfl, rfl, rfl, rfl, rfl, rfl⟩, by simp⟩⟩
      intro t
      obtain ⟨a, _, c, d, e, _⟩ := watchMap_props E fails t
      exact ⟨a, c, d, e⟩

theorem hostsAgree_sameOwn_hosts {s s1 : State} (tasks : List TaskId)
    (g : Task → Task) (hg : ∀ t, (g t).id = t.id ∧ (g t).host = t.host) (hr : s1.roster = s.roster.map g)
    (hm : s1.master = s.master) : hostsAgree s1 tasks = hostsAgree s tasks := by
  simp only [hostsAgree, hr, hm, List.all_map]
  congr 1
  funext t
  simp [(hg t).1, (hg t).2]

theorem hostsAgree_watchError (s : State) (k : EnvId) (fails : List (TaskId × Bool)) (tasks : List TaskId) :
    hostsAgree (watchError s k fails) tasks = hostsAgree s tasks := by
  cases hE : s.env? k with
  | none => unfold watchError; rw [hE]
  | some E =>
    by_cases hte : E.tearing = true
    · unfold watchError; rw [hE]; simp only [hte, if_true]
    · rw [watchError_eq s k fails E hE (by simpa using hte)]
      exact hostsAgree_sameOwn_hosts tasks (watchMap E fails)
        (fun t => ⟨(watchMap_props E fails t).1, (watchMap_props E fails t).2.2.2.2.2⟩) rfl rfl


/-- The steps the environment does not ask for: an executor or agent is lost, a watcher reacts. -/
def Step.isLoss : Step → Bool
  | .execLost _ | .agentLost _ | .watchError _ _ => true
  | _ => false

/-- What such steps keep of a listed environment: it stays listed with the same task and hook
    references, and the bookkeeping hypotheses of the clean-destroy theorem still hold. -/
structure LossKeeps (s : State) (k : EnvId) (tasks : List TaskId) (hooks : List HookRef) : Prop where
  listed : ∃ E, s.env? k = some E ∧ E.tasks = tasks ∧ E.hooks = hooks ∧ E.tearing = false
  wf : envWf s k tasks = true
  hosts : hostsAgree s tasks = true
  faithful : statusFaithful s tasks = true

theorem lossKeeps_hostLost (s : State) (h : Host) (agent : Bool) (k : EnvId) (tasks : List TaskId) (hooks : List HookRef)
    (hk : LossKeeps s k tasks hooks) : LossKeeps (hostLost s h agent) k tasks hooks :=
  ⟨hk.listed, envWf_hostLost s h agent k tasks hk.wf, hostsAgree_hostLost s h agent tasks hk.hosts,
    statusFaithful_hostLost s h agent tasks hk.hosts hk.faithful⟩

theorem lossKeeps_watchError (s : State) (k' : EnvId) (fails : List (TaskId × Bool)) (k : EnvId) (tasks : List TaskId)
    (hooks : List HookRef) (hk : LossKeeps s k tasks hooks) : LossKeeps (watchError s k' fails) k tasks hooks := by
  have hso := sameOwn_watchError s k' fails
  obtain ⟨t1, t2, _⟩ := hyps_transfer hso k tasks hooks
  obtain ⟨E, hE, a, b, c⟩ := hk.listed
  obtain ⟨E1, hE1, _, a1, b1, c1⟩ := env?_sameOwn hso k E hE
  exact ⟨⟨E1, hE1, a1.trans a, b1.trans b, c1.trans c⟩, by rw [t1]; exact hk.wf,
    by rw [hostsAgree_watchError]; exact hk.hosts, by rw [t2]; exact hk.faithful⟩

theorem lossKeeps_step (s : State) (st : Step) (hl : st.isLoss = true) (k : EnvId) (tasks : List TaskId) (hooks : List HookRef)
    (hk : LossKeeps s k tasks hooks) : LossKeeps (step s st).1 k tasks hooks := by
  unfold step
  split
  · exact hk
  · cases st with
    | execLost h => exact lossKeeps_hostLost s h false k tasks hooks hk
    | agentLost h => exact lossKeeps_hostLost s h true k tasks hooks hk
    | watchError k' fails => exact lossKeeps_watchError s k' fails k tasks hooks hk
    | _ => simp [Step.isLoss] at hl

theorem lossKeeps_run (steps : List Step) (hl : steps.all Step.isLoss = true) (s : State) (k : EnvId) (tasks : List TaskId)
    (hooks : List HookRef) (hk : LossKeeps s k tasks hooks) : LossKeeps (run s steps) k tasks hooks := by
  induction steps generalizing s with
  | nil => exact hk
  | cons st rest ih =>
    simp only [List.all_cons, Bool.and_eq_true] at hl
    exact ih hl.2 _ (lossKeeps_step s st hl.1 k tasks hooks hk)

/-- Lost executors / agents and watcher reactions do not change the configuration. -/
theorem run_loss_cfg (steps : List Step) (hl : steps.all Step.isLoss = true) (s : State) : (run s steps).cfg = s.cfg := by
  induction steps generalizing s with
  | nil => rfl
  | cons st rest ih =>
    simp only [List.all_cons, Bool.and_eq_true] at hl
    have h1 : (step s st).1.cfg = s.cfg := by
      unfold step
      split
      · rfl
      · cases st with
        | execLost h => rfl
        | agentLost h => rfl
        | watchError k' fails => exact (sameOwn_watchError s k' fails).cfg
        | _ => simp [Step.isLoss] at hl
    exact (ih hl.2 _).trans h1

/-- A destroy that answers success after any number of lost executors / agents and watcher
    reactions leaves the environment clean (in the legacy configuration: provided its DESTROY
    hooks are still releasable). -/
theorem destroy_after_loss_clean (s : State) (steps : List Step) (hl : steps.all Step.isLoss = true)
    (k : EnvId) (force allow keep : Bool) (o : DOracle) (E : Env)
    (hE : s.env? k = some E) (hte : E.tearing = false) (hwf : envWf s k E.tasks = true) (hag : hostsAgree s E.tasks = true)
    (hfaith : statusFaithful s E.tasks = true) (hhk : ∀ h ∈ E.hooks, h.task ∈ E.tasks)
    (hrel : hooksOk (run s steps) E.hooks = true)
    (hok : (destroy (run s steps) k force allow keep o).2.1 = .ok) :
    destroyedClean k keep (viewOf (destroy (run s steps) k force allow keep o).1) = true := by
  have hk := lossKeeps_run steps hl s k E.tasks E.hooks ⟨⟨E, hE, rfl, rfl, hte⟩, hwf, hag, hfaith⟩
  obtain ⟨E', hE', a, b, _⟩ := hk.listed
  exact destroy_clean _ k force allow keep o E' hE' (by rw [a]; exact hk.wf) (by rw [a]; exact hk.faithful)
    (by rw [b]; exact hrel) (by rw [a, b]; exact hhk) hok

/-- The same for the failure tail of a creation. -/
theorem createFail_after_loss_clean (s : State) (steps : List Step) (hl : steps.all Step.isLoss = true)
    (k : EnvId) (late : Bool) (res : Res) (hf : List TaskId) (E : Env)
    (hE : s.env? k = some E) (hte : E.tearing = false) (hwf : envWf s k E.tasks = true) (hag : hostsAgree s E.tasks = true)
    (hfaith : statusFaithful s E.tasks = true) (hhk : ∀ h ∈ E.hooks, h.task ∈ E.tasks)
    (hrel : hooksOk (run s steps) E.hooks = true)
    (hnh : (createFail (run s steps) k E.tasks late res hf).2 ≠ .hang) :
    cleanAfter k false (viewOf (createFail (run s steps) k E.tasks late res hf).1) = true := by
  have hk := lossKeeps_run steps hl s k E.tasks E.hooks ⟨⟨E, hE, rfl, rfl, hte⟩, hwf, hag, hfaith⟩
  obtain ⟨E', hE', a, b, c⟩ := hk.listed
  rw [← a] at hnh ⊢
  exact createFail_clean _ k late res hf E' hE' c (by rw [a]; exact hk.wf) (by rw [a, b]; exact hhk)
    (by rw [b]; exact hrel) (by rw [a]; exact hk.faithful) hnh

end Own

namespace Own

/-! ### C04: a creation leaves the records of the other environments alone -/

/-- Every listed environment other than `k` is listed afterwards, the very same record. -/
def KeepsOthers (k : EnvId) (s s' : State) : Prop := ∀ E ∈ s.envs, E.id ≠ k → E ∈ s'.envs

theorem KeepsOthers.refl (k : EnvId) (s : State) : KeepsOthers k s s := fun _ hE _ => hE

theorem KeepsOthers.trans {k : EnvId} {a b c : State} (h1 : KeepsOthers k a b) (h2 : KeepsOthers k b c) : KeepsOthers k a c :=
  fun E hE hne => h2 E (h1 E hE hne) hne

theorem KeepsOthers.of_envs {k : EnvId} {s s' : State} (h : s'.envs = s.envs) : KeepsOthers k s s' :=
  fun _ hE _ => h ▸ hE

theorem keepsOthers_setEnv (s : State) (k : EnvId) (f : Env → Env) : KeepsOthers k s (setEnv s k f) := by
  intro E hE hne
  simp only [setEnv, List.mem_map]
  exact ⟨E, hE, by simp [hne]⟩

theorem keepsOthers_tdFinish (s1 : State) (k : EnvId) (E : Env) (late : Bool) (hf : List TaskId) :
    KeepsOthers k s1 (tdFinish s1 k E late hf).1 := by
  have h2 : KeepsOthers k s1 (tdCancel s1 k E) := keepsOthers_setEnv _ _ _
  unfold tdFinish
  simp only []
  split
  · exact h2.trans (keepsOthers_setEnv _ _ _)
  · have h3 : KeepsOthers k (tdCancel s1 k E) (releaseTasks (tdCancel s1 k E) k (tdMsg s1 E)).1 := KeepsOthers.of_envs rfl
    split
    · exact h2.trans h3
    · refine (h2.trans h3).trans ?_
      intro X hX hne
      exact List.mem_filter.mpr ⟨hX, by simpa using hne⟩

theorem keepsOthers_teardown (s : State) (k : EnvId) (force late : Bool) (hf : List TaskId) :
    KeepsOthers k s (teardown s k force late hf).1 := by
  unfold teardown
  split
  · exact KeepsOthers.refl k s
  · split
    · exact KeepsOthers.refl k s
    split
    · exact KeepsOthers.refl k s
    split
    · exact KeepsOthers.refl k s
    simp only []
    have h1 : ∀ ids, KeepsOthers k s (releaseTasks s k ids).1 := fun _ => KeepsOthers.of_envs rfl
    split
    · exact h1 _
    · exact (h1 _).trans (keepsOthers_tdFinish _ _ _ _ _)

theorem keepsOthers_createFail (s : State) (k : EnvId) (ids : List TaskId) (late : Bool) (res : Res) (hf : List TaskId) :
    KeepsOthers k s (createFail s k ids late res hf).1 := by
  have h1 : KeepsOthers k s (teardown (setEnv s k (fun X => { X with state := .ERROR })) k true late hf).1 :=
    (keepsOthers_setEnv _ _ _).trans (keepsOthers_teardown _ _ _ _ _)
  unfold createFail
  simp only []
  split
  · exact h1
  · exact h1.trans (KeepsOthers.of_envs rfl)

theorem lostAll_envs (s : State) (ls : List (Host × Bool)) : (lostAll s ls).envs = s.envs := by
  induction ls generalizing s with
  | nil => rfl
  | cons l rest ih => rw [lostAll_cons, ih]; rfl

theorem keepsOthers_createConfigure (s : State) (k : EnvId) (spec : EnvSpec) (a : Acq) (o : SettleOracle) :
    KeepsOthers k s (createConfigure s k spec a o).1 := by
  unfold createConfigure
  split
  · exact KeepsOthers.refl k s
  · rename_i E _
    simp only []
    have h3 : KeepsOthers k s (lostAll (setEnv (applyTrans s { E with state := .DEPLOYED } .CONFIGURE
          (o.cfgFails.filterMap (fun f => (a.idOf f.1).map (fun t => (t, f.2))))).1 k
        (fun X => { X with pending := X.pending + callCount spec, started := X.started + callCount spec })) o.lost) := by
      have a1 : KeepsOthers k s (applyTrans s { E with state := .DEPLOYED } .CONFIGURE
          (o.cfgFails.filterMap (fun f => (a.idOf f.1).map (fun t => (t, f.2))))).1 := KeepsOthers.of_envs rfl
      exact (a1.trans (keepsOthers_setEnv _ _ _)).trans (KeepsOthers.of_envs (lostAll_envs _ _))
    split
    · exact h3.trans (keepsOthers_setEnv _ _ _)
    · exact h3.trans (keepsOthers_createFail _ _ _ _ _ _)

theorem keepsOthers_acquire (s : State) (k : EnvId) (spec : EnvSpec) (claims : List (Nat × TaskId)) (o : SettleOracle) :
    KeepsOthers k s (acquire s k spec claims o).s := by
  unfold acquire
  simp only []
  exact (KeepsOthers.of_envs (k := k) (s := s) rfl).trans (keepsOthers_setEnv _ _ _)

/-- DEPLOY, CONFIGURE and the failure tail of the creation of `k` leave every other listed environment's record as it is. -/
theorem keepsOthers_createSettle (s : State) (k : EnvId) (o : SettleOracle) : KeepsOthers k s (createSettle s k o).1 := by
  unfold createSettle
  split
  · exact KeepsOthers.refl k s
  · rename_i p _
    have hd : KeepsOthers k s (dropPending s k) := KeepsOthers.of_envs rfl
    simp only []
    split
    · exact hd.trans (keepsOthers_createFail _ _ _ _ _ _)
    · split
      · exact hd.trans (KeepsOthers.of_envs rfl)
      · split
        · exact (hd.trans (KeepsOthers.of_envs (s' := acquireUnlocked (dropPending s k) k _ o) rfl)).trans (keepsOthers_createFail _ _ _ _ _ _)
        · have ha := hd.trans (keepsOthers_acquire (dropPending s k) k p.spec (claimsOf (dropPending s k) p) o)
          split
          · exact ha.trans (keepsOthers_createFail _ _ _ _ _ _)
          · exact ha.trans (keepsOthers_createConfigure _ _ _ _ _)

/-- **What the settling of a creation — successful or failed, with or without reuse of unlocked tasks — does to
    the tasks of the other environments: nothing.** In a state of a run (`Inv`), a roster task that a live
    environment `E` other than `k` references is owned by `E` before and — if it is still in the roster, and it is:
    `killTasks` only takes unlocked tasks — after. -/
theorem createSettle_spares_foreign (s : State) (k : EnvId) (o : SettleOracle) (h : Inv s)
    (E : Env) (hE : E ∈ s.envs) (hne : E.id ≠ k) (hte : E.tearing = false) :
    (∀ t ∈ s.roster, t.id ∈ E.tasks → t.parent = some E.id) ∧
    (∀ t' ∈ (createSettle s k o).1.roster, t'.id ∈ E.tasks → t'.parent = some E.id) :=
  ⟨fun t ht hin => h.owned E hE hte t ht hin,
   fun t' ht' hin => (inv_createSettle s k o h).owned E (keepsOthers_createSettle s k o E hE hne) hte t' ht' hin⟩

/-! ### `Task.onStatus` is Model/TaskIds `onStatus` on the identity fields -/

theorem isLocked_fields (t : Task) : t.isLocked = t.fields.locked := by
  simp [Task.isLocked, Task.idsOk, Task.fields, TaskIds.Fields.locked, Bool.and_assoc]

theorem onStatus_fields (g : TaskIds.Guards) (u : StatusUpd) (t : Task) :
    (t.onStatus g u).fields = TaskIds.onStatus g u.kind u.carried t.fields := by
  unfold Task.onStatus StatusUpd.kind StatusUpd.carried
  cases hr : u.running <;> simp [Task.fields, TaskIds.onStatus]

/-- What a status update does to the lock of a locked roster entry, for every guard configuration. -/
theorem isLocked_onStatus (g : TaskIds.Guards) (u : StatusUpd) (t : Task) (h : t.isLocked = true) :
    (t.onStatus g u).isLocked = !TaskIds.unlocks g u.kind u.carried := by
  rw [isLocked_fields, onStatus_fields]
  exact TaskIds.locked_onStatus g _ _ _ (by rw [← isLocked_fields]; exact h)

/-- A complete update (both optional fields present: what the AliECS executor sends) is handled alike under every
    guard configuration. -/
theorem onStatus_complete (g : TaskIds.Guards) (r : Bool) (t : Task) :
    t.onStatus g (StatusUpd.complete r) = t.onStatus TaskIds.codeGuards (StatusUpd.complete r) := by
  unfold Task.onStatus StatusUpd.complete
  cases r <;> simp [TaskIds.copyId]

/-! ### a sweep of unowned tasks and a locked task -/

/-- doKillTasks on a list of UNLOCKED roster tasks leaves a locked roster entry where it is, does not touch its row at
    the master and logs no KILL for it. -/
theorem locked_survives_doKill (s : State) (tk : List Task) (hsub : ∀ u ∈ tk, u ∈ s.roster ∧ u.isLocked = false)
    (hnd : (s.roster.map (·.id)).Nodup) (t : Task) (ht : t ∈ s.roster) (hl : t.isLocked = true) :
    t ∈ (doKill s tk).roster ∧ (∀ m ∈ s.master, m.id = t.id → m ∈ (doKill s tk).master) ∧
    (∀ e ∈ (doKill s tk).killLog, e ∈ s.killLog ∨ e.1 ≠ t.id) := by
  have hnot : ∀ u ∈ tk, u.id ≠ t.id := by
    intro u hu hid
    have : u = t := eq_of_nodup_map _ _ hnd (hsub u hu).1 ht hid
    subst this
    rw [(hsub u hu).2] at hl
    exact Bool.noConfusion hl
  refine ⟨?_, ?_, ?_⟩
  · rw [doKill_roster]
    refine List.mem_append.mpr (Or.inl (List.mem_filter.mpr ⟨ht, ?_⟩))
    simp only [decide_eq_true_eq, List.mem_map, not_exists, not_and]
    intro u hu hid
    exact hnot u hu hid
  · intro m hm hid
    simp only [doKill, killMany, List.mem_map]
    refine ⟨m, hm, ?_⟩
    rw [if_neg]
    intro hin
    obtain ⟨u, hu, hue⟩ := hin
    exact hnot u (List.mem_filter.mp (List.mem_filter.mp hu).1).1 (hue.trans hid)
  · intro e he
    simp only [doKill, List.mem_append, List.mem_map] at he
    rcases he with he | ⟨u, hu, rfl⟩
    · exact Or.inl he
    · exact Or.inr (hnot u (List.mem_filter.mp hu).1)

/-- Cleanup (`ids = []`) and KillTasks spare every locked task. -/
theorem locked_survives_cleanupTasks (s : State) (ids : List TaskId) (hnd : (s.roster.map (·.id)).Nodup)
    (t : Task) (ht : t ∈ s.roster) (hl : t.isLocked = true) :
    t ∈ (cleanupTasks s ids).roster ∧ (∀ m ∈ s.master, m.id = t.id → m ∈ (cleanupTasks s ids).master) ∧
    (∀ e ∈ (cleanupTasks s ids).killLog, e ∈ s.killLog ∨ e.1 ≠ t.id) := by
  unfold cleanupTasks
  split
  · exact locked_survives_doKill s _ (fun u hu => ⟨(List.mem_filter.mp hu).1, by simpa using (List.mem_filter.mp hu).2⟩) hnd t ht hl
  · refine locked_survives_doKill s _ (fun u hu => ⟨(List.mem_filter.mp hu).1, ?_⟩) hnd t ht hl
    have := (List.mem_filter.mp hu).2
    simp only [Bool.and_eq_true, Bool.not_eq_true', decide_eq_true_eq] at this
    exact this.1

end Own
