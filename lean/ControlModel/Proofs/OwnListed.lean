/-
  Proofs/OwnListed — over whole runs: no roster task is ever parented by an environment that is not listed.

    OwnersListed s     every roster task with a parent role belongs to a LISTED environment that references it
    Shr s s'           `s'` came from `s` by dropping parents / roster entries, adding un-parented entries and keeping
                       every listed environment (id and task references): the shape of every step but two
    ol_teardown        a teardown that completes deletes the environment only after both ReleaseTasks messages have
                       released every task it references (code: the second one names the hook tasks of all weights)
    ol_acquire         acquireTasks' successful commit parents what it launched to the environment being created, which
                       is listed and is given exactly these tasks
    ol_acquireUnlocked the failed lock loop parents NOTHING (code: the blanket un-parenting)
    ol_step / ol_run   the induction
-/
import ControlModel.Proofs.OwnLock

namespace Own

/-- Every roster task that has a parent role belongs to an environment that is listed and references it. (The converse
    direction — a task a live environment references carries its id — is `Inv.owned`.) -/
def OwnersListed (s : State) : Prop :=
  ∀ t ∈ s.roster, ∀ e, t.parent = some e → ∃ E ∈ s.envs, E.id = e ∧ t.id ∈ E.tasks

/-- `s'` from `s`: roster entries are old ones (same id, same parent) or have no parent; every listed environment is
    still listed with the same task references. -/
structure Shr (s s' : State) : Prop where
  roster : ∀ t' ∈ s'.roster, t'.parent = none ∨ ∃ t ∈ s.roster, t'.id = t.id ∧ t'.parent = t.parent
  envs : ∀ E ∈ s.envs, ∃ E' ∈ s'.envs, E'.id = E.id ∧ E'.tasks = E.tasks

theorem Shr.refl (s : State) : Shr s s :=
  ⟨fun t ht => Or.inr ⟨t, ht, rfl, rfl⟩, fun E hE => ⟨E, hE, rfl, rfl⟩⟩

theorem Shr.trans {a b c : State} (h1 : Shr a b) (h2 : Shr b c) : Shr a c := by
  constructor
  · intro t'' ht''
    rcases h2.roster t'' ht'' with h | ⟨t', ht', e1, e2⟩
    · exact Or.inl h
    · rcases h1.roster t' ht' with h | ⟨t, ht, f1, f2⟩
      · left; rw [e2]; exact h
      · exact Or.inr ⟨t, ht, e1.trans f1, e2.trans f2⟩
  · intro E hE
    obtain ⟨E', hE', a1, a2⟩ := h1.envs E hE
    obtain ⟨E'', hE'', b1, b2⟩ := h2.envs E' hE'
    exact ⟨E'', hE'', b1.trans a1, b2.trans a2⟩

theorem Shr.ol {s s' : State} (h : Shr s s') (ho : OwnersListed s) : OwnersListed s' := by
  intro t' ht' e hpe
  rcases h.roster t' ht' with hn | ⟨t, ht, e1, e2⟩
  · rw [hn] at hpe; exact absurd hpe (by simp)
  · obtain ⟨E, hE, hid, hin⟩ := ho t ht e (by rw [← e2]; exact hpe)
    obtain ⟨E', hE', a1, a2⟩ := h.envs E hE
    exact ⟨E', hE', a1.trans hid, by rw [a2, e1]; exact hin⟩

theorem shr_same {s s' : State} (hr : s'.roster = s.roster) (he : s'.envs = s.envs) : Shr s s' :=
  ⟨fun t ht => Or.inr ⟨t, by rw [← hr]; exact ht, rfl, rfl⟩, fun E hE => ⟨E, by rw [he]; exact hE, rfl, rfl⟩⟩

theorem shr_roster_mem {s s' : State} (hr : ∀ t' ∈ s'.roster, t' ∈ s.roster) (he : s'.envs = s.envs) : Shr s s' :=
  ⟨fun t ht => Or.inr ⟨t, hr t ht, rfl, rfl⟩, fun E hE => ⟨E, by rw [he]; exact hE, rfl, rfl⟩⟩

theorem shr_roster_map {s s' : State} (g : Task → Task)
    (hg : ∀ t, (g t).id = t.id ∧ ((g t).parent = t.parent ∨ (g t).parent = none))
    (hr : s'.roster = s.roster.map g) (he : s'.envs = s.envs) : Shr s s' := by
  constructor
  · intro t' ht'
    rw [hr] at ht'
    obtain ⟨t, ht, rfl⟩ := List.mem_map.mp ht'
    rcases (hg t).2 with h | h
    · exact Or.inr ⟨t, ht, (hg t).1, h⟩
    · exact Or.inl h
  · intro E hE; exact ⟨E, by rw [he]; exact hE, rfl, rfl⟩

theorem shr_setEnv (s : State) (k : EnvId) (f : Env → Env) (hf : ∀ X, (f X).id = X.id ∧ (f X).tasks = X.tasks) :
    Shr s (setEnv s k f) := by
  constructor
  · intro t ht; exact Or.inr ⟨t, ht, rfl, rfl⟩
  · intro E hE
    refine ⟨if E.id = k then f E else E, List.mem_map.mpr ⟨E, hE, rfl⟩, ?_, ?_⟩
    · by_cases hk : E.id = k <;> simp [hk, (hf E).1]
    · by_cases hk : E.id = k <;> simp [hk, (hf E).2]

theorem shr_setEnv_state (s : State) (k : EnvId) (st : EState) : Shr s (setEnv s k (fun X => { X with state := st })) :=
  shr_setEnv s k _ (fun _ => ⟨rfl, rfl⟩)

theorem shr_tdCancel (s : State) (k : EnvId) (E : Env) : Shr s (tdCancel s k E) :=
  shr_setEnv s k _ (fun _ => ⟨rfl, rfl⟩)

theorem shr_tearing (s : State) (k : EnvId) : Shr s (setEnv s k (fun X => { X with tearing := true })) :=
  shr_setEnv s k _ (fun _ => ⟨rfl, rfl⟩)

theorem shr_calls (s : State) (k : EnvId) (c : Nat) :
    Shr s (setEnv s k (fun X => { X with pending := X.pending + c, started := X.started + c })) :=
  shr_setEnv s k _ (fun _ => ⟨rfl, rfl⟩)

theorem shr_of_sameOwn {s s1 : State} (h : SameOwn s s1) : Shr s s1 := by
  obtain ⟨g, hg, hr⟩ := h.roster
  obtain ⟨f, hf, he⟩ := h.envs
  constructor
  · intro t' ht'
    rw [hr] at ht'
    obtain ⟨t, ht, rfl⟩ := List.mem_map.mp ht'
    exact Or.inr ⟨t, ht, (hg t).1, (hg t).2.1⟩
  · intro E hE
    exact ⟨f E, by rw [he]; exact List.mem_map_of_mem hE, (hf E).1, (hf E).2.1⟩

theorem shr_doKill (s : State) (tk : List Task) (hsub : List.Sublist tk s.roster) : Shr s (doKill s tk) :=
  shr_roster_mem (fun _ ht => mem_doKill_roster hsub ht) rfl

theorem shr_cleanupTasks (s : State) (ids : List TaskId) : Shr s (cleanupTasks s ids) := by
  unfold cleanupTasks
  split
  · exact shr_doKill s _ List.filter_sublist
  · exact shr_doKill s _ List.filter_sublist

theorem shr_releaseTasks (s : State) (e : EnvId) (ids : List TaskId) : Shr s (releaseTasks s e ids).1 :=
  shr_roster_map (relMap e ids)
    (fun t => ⟨(relMap_props e ids t).1, (relMap_props e ids t).2.2.elim Or.inl (fun h => Or.inr h.1)⟩) rfl rfl

theorem shr_hostLost (s : State) (h : Host) (agent : Bool) : Shr s (hostLost s h agent) :=
  shr_roster_map (fun t => if t.hitBy agent h then t.lose agent else t)
    (fun t => by
      by_cases hh : t.hitBy agent h
      · simp only [hh, if_true]; exact ⟨(lose_props agent t).1, Or.inl (lose_props agent t).2.2.1⟩
      · simp [hh]) rfl rfl

theorem shr_lostAll (s : State) (ls : List (Host × Bool)) : Shr s (lostAll s ls) := by
  induction ls generalizing s with
  | nil => exact Shr.refl s
  | cons l rest ih => rw [lostAll_cons]; exact (shr_hostLost s l.1 l.2).trans (ih _)

/-! ### teardown -/

/-- A teardown keeps `OwnersListed`: it either only drops parents (every answer but "done"), or — when it completes —
    deletes the environment after its two ReleaseTasks messages have released every task the environment references
    (`release_all'`: in a configuration without `lastWeightOnly` the second message names the hook tasks of all weights). -/
theorem ol_teardown (s : State) (k : EnvId) (force late : Bool) (hf : List TaskId) (h : Inv s)
    (hl : s.cfg.lastWeightOnly = false) (ho : OwnersListed s) : OwnersListed (teardown s k force late hf).1 := by
  cases hE : s.env? k with
  | none => unfold teardown; rw [hE]; exact ho
  | some E =>
    obtain ⟨hEm, hEk⟩ := env?_some hE
    by_cases hte : E.tearing = true
    · unfold teardown; rw [hE]; simp only [hte, if_true]; exact ho
    have hte' : E.tearing = false := by simpa using hte
    have hpar : ∀ t ∈ s.roster, t.id ∈ E.tasks → t.parent = some k := by
      intro t ht hin; rw [← hEk]; exact h.owned E hEm hte' t ht hin
    have hhk := h.hooksSub E hEm
    have hrel : hooksOk s E.hooks = true := by simp [hooksOk, hl]
    by_cases hdone : (teardown s k force late hf).2.1 = .ok ∨ (teardown s k force late hf).2.1 = .doneErr
    · -- completed: the environment is gone and so is every parent that pointed to it
      obtain ⟨a1, _, _, _, a5, _⟩ := teardown_done_state' s k force late hf E hE hpar hrel hhk hdone
      intro t' ht' e hpe
      rw [a1] at ht'
      obtain ⟨t, ht, rfl⟩ := List.mem_map.mp ht'
      by_cases hin : t.id ∈ E.tasks
      · simp [relAll, hin] at hpe
      · have hrt : relAll E.tasks t = t := by simp [relAll, hin]
        rw [hrt] at hpe ⊢
        obtain ⟨E1, hE1, hid, hin1⟩ := ho t ht e hpe
        have hne : E1.id ≠ k := by
          intro hk1
          have : E1 = E := eq_of_nodup_map (·.id) s.envs h.envNodup hE1 hEm (hk1.trans hEk.symm)
          rw [this] at hin1; exact hin hin1
        exact ⟨E1, a5 E1 hE1 hne, hid, hin1⟩
    · -- every other answer: parents were dropped at most, the listing keeps every environment
      refine Shr.ol ?_ ho
      revert hdone
      unfold teardown
      rw [hE]
      simp only [hte', Bool.false_eq_true, if_false]
      split
      · intro _; exact Shr.refl s
      split
      · intro _; exact Shr.refl s
      split
      · intro _; exact shr_releaseTasks s k _
      unfold tdFinish
      simp only []
      split
      · intro _
        exact ((shr_releaseTasks s k _).trans (shr_tdCancel _ k E)).trans (shr_tearing _ k)
      split
      · intro _
        exact ((shr_releaseTasks s k _).trans (shr_tdCancel _ k E)).trans (shr_releaseTasks _ k _)
      · intro hnd
        exfalso; apply hnd
        split
        · right; rfl
        · left; rfl

theorem ol_tcFin (keep : Bool) (ids : List TaskId) (s' : State) (res : TRes) (tr : List TEv) (ho : OwnersListed s') :
    OwnersListed (tcFin keep ids s' res tr).1 := by
  unfold tcFin
  cases res <;> simp only []
  · split
    · exact ho
    · exact (shr_cleanupTasks s' ids).ol ho
  all_goals exact ho

theorem rc_teardown_cfg (s : State) (k : EnvId) (force late : Bool) (hf : List TaskId) :
    (teardown s k force late hf).1.cfg = s.cfg := (rc_teardown s k force late hf).2.2

theorem ol_teardownAndCleanup (s : State) (k : EnvId) (ids : List TaskId) (force keep : Bool) (o : DOracle)
    (h : Inv s) (hp : ∀ p ∈ s.creating, p.id ≠ k) (hl : s.cfg.lastWeightOnly = false) (ho : OwnersListed s) :
    OwnersListed (teardownAndCleanup s k ids force keep o).1 := by
  have h1 := inv_teardown s k force o.late1 o.hookFails h hp
  have o1 := ol_teardown s k force o.late1 o.hookFails h hl ho
  unfold teardownAndCleanup
  simp only []
  split
  · exact ol_tcFin _ _ _ _ _ o1
  · apply ol_tcFin
    exact ol_teardown _ k true o.late2 o.hookFails h1 (by rw [rc_teardown_cfg]; exact hl) o1

theorem ol_destroyRest (s1 : State) (st : EState) (stopOk : Bool) (k : EnvId) (E : Env) (keep : Bool) (o : DOracle)
    (h : Inv s1) (hp : ∀ p ∈ s1.creating, p.id ≠ k) (hl : s1.cfg.lastWeightOnly = false) (ho : OwnersListed s1) :
    OwnersListed (destroyRest s1 st stopOk k E keep o).1 := by
  unfold destroyRest
  split
  · exact ol_teardownAndCleanup _ _ _ _ _ _ h hp hl ho
  split
  · exact ol_teardownAndCleanup _ _ _ _ _ _ h hp hl ho
  split
  · split
    · exact ol_teardownAndCleanup _ _ _ _ _ _ (inv_setEnv_state _ _ _ (inv_applyTrans _ _ _ _ h)) hp hl
        ((shr_of_sameOwn ((sameOwn_applyTrans _ _ _ _).trans (sameOwn_setEnv_state _ _ _))).ol ho)
    · exact ol_teardownAndCleanup _ _ _ _ _ _ (inv_applyTrans _ _ _ _ h) hp hl
        ((shr_of_sameOwn (sameOwn_applyTrans _ _ _ _)).ol ho)
  · exact ol_teardownAndCleanup _ _ _ _ _ _ h hp hl ho

theorem ol_destroy (s : State) (k : EnvId) (force allow keep : Bool) (o : DOracle) (h : Inv s)
    (hl : s.cfg.lastWeightOnly = false) (ho : OwnersListed s) : OwnersListed (destroy s k force allow keep o).1 := by
  unfold destroy
  split
  · exact ho
  rename_i hg
  have hp := not_pending_of_any hg
  split
  · exact ho
  rename_i E hE
  split
  · exact ho
  split
  · exact ol_teardownAndCleanup _ _ _ _ _ _ h hp hl ho
  · exact ol_destroyRest _ _ _ _ _ _ _ (inv_destroyStop s k E allow _ h) (by rw [destroyStop_creating]; exact hp)
      (by rw [(sameOwn_destroyStop s k E allow o.stopFails).cfg]; exact hl)
      ((shr_of_sameOwn (sameOwn_destroyStop s k E allow o.stopFails)).ol ho)

/-! ### creation -/

theorem ol_createFail (s : State) (k : EnvId) (ids : List TaskId) (late : Bool) (res : Res) (hf : List TaskId)
    (h : Inv s) (hl : s.cfg.lastWeightOnly = false) (ho : OwnersListed s) : OwnersListed (createFail s k ids late res hf).1 := by
  have o1 : OwnersListed (teardown (setEnv s k (fun X => { X with state := .ERROR })) k true late hf).1 :=
    ol_teardown _ k true late hf (inv_setEnv_state s k .ERROR h) hl ((shr_setEnv_state s k .ERROR).ol ho)
  unfold createFail
  simp only []
  split
  · exact o1
  · exact (shr_doKill _ _ List.filter_sublist).ol o1

/-- The failed lock loop parents nothing (the code: the blanket un-parenting). -/
theorem shr_acquireUnlocked (s : State) (k : EnvId) (toRun : List (Nat × RoleSpec)) (o : SettleOracle)
    (hc : s.cfg.detachOnSpot = false) : Shr s (acquireUnlocked s k toRun o) := by
  constructor
  · intro t' ht'
    rcases lockFail_unowned s k toRun o hc t' ht' with ho | ⟨hn, _⟩
    · exact Or.inr ⟨t', ho, rfl, rfl⟩
    · exact Or.inl hn
  · intro E hE; exact ⟨E, hE, rfl, rfl⟩

/-- acquireTasks' successful commit (nothing claimed): what it launched is parented to `k`, which is listed and is given
    exactly these tasks; nothing else had `k` as parent (the listing entry of a creation not yet deployed references nothing). -/
theorem ol_acquire (s : State) (k : EnvId) (spec : EnvSpec) (o : SettleOracle) (h : Inv s)
    (E0 : Env) (hE0 : s.env? k = some E0) (ht0 : E0.tasks = []) (ho : OwnersListed s) :
    OwnersListed (acquire s k spec [] o).s := by
  have F := acquire_nil_facts s k spec o
  simp only [] at F
  obtain ⟨f1, _, _, f4, _, _, _, _, f9⟩ := F
  obtain ⟨E, hE, hEt, _⟩ := f9 E0 hE0
  obtain ⟨hEm, hEk⟩ := env?_some hE
  obtain ⟨hE0m, hE0k⟩ := env?_some hE0
  intro t' ht' e hpe
  rcases f1 t' ht' with hold | ⟨x, hx, hid, hpar, _⟩
  · -- an old entry: its environment is not `k` (whose entry referenced nothing) and is still listed as it was
    obtain ⟨E1, hE1, hid1, hin1⟩ := ho t' hold e hpe
    have hne : E1.id ≠ k := by
      intro hk1
      have : E1 = E0 := eq_of_nodup_map (·.id) s.envs h.envNodup hE1 hE0m (hk1.trans hE0k.symm)
      rw [this, ht0] at hin1; simp at hin1
    refine ⟨E1, ?_, hid1, hin1⟩
    have := keepsOthers_acquire s k spec [] o E1 hE1 hne
    exact this
  · rw [hpar] at hpe
    injection hpe with hpe
    subst hpe
    exact ⟨E, hEm, hEk, by rw [hEt, hid]; exact f4 x hx⟩

theorem ol_createConfigure (s : State) (k : EnvId) (spec : EnvSpec) (a : Acq) (o : SettleOracle)
    (h : Inv s) (hl : s.cfg.lastWeightOnly = false) (ho : OwnersListed s) : OwnersListed (createConfigure s k spec a o).1 := by
  unfold createConfigure
  split
  · exact ho
  · rename_i E _
    simp only []
    have h3 : Inv (lostAll (setEnv (applyTrans s { E with state := .DEPLOYED } .CONFIGURE
          (o.cfgFails.filterMap (fun f => (a.idOf f.1).map (fun t => (t, f.2))))).1 k
        (fun X => { X with pending := X.pending + callCount spec, started := X.started + callCount spec })) o.lost) :=
      inv_lostAll _ _ (inv_setEnv _ _ _ (inv_applyTrans s _ _ _ h) (fun _ => ⟨rfl, rfl, rfl, rfl⟩))
    have s3 : Shr s (lostAll (setEnv (applyTrans s { E with state := .DEPLOYED } .CONFIGURE
          (o.cfgFails.filterMap (fun f => (a.idOf f.1).map (fun t => (t, f.2))))).1 k
        (fun X => { X with pending := X.pending + callCount spec, started := X.started + callCount spec })) o.lost) :=
      ((shr_of_sameOwn (sameOwn_applyTrans _ _ _ _)).trans (shr_calls _ k (callCount spec))).trans (shr_lostAll _ _)
    have hl3 : (lostAll (setEnv (applyTrans s { E with state := .DEPLOYED } .CONFIGURE
          (o.cfgFails.filterMap (fun f => (a.idOf f.1).map (fun t => (t, f.2))))).1 k
        (fun X => { X with pending := X.pending + callCount spec, started := X.started + callCount spec })) o.lost).cfg.lastWeightOnly = false := by
      rw [(lostAll_frame _ _).2.2.2.2.2.2]; exact hl
    split
    · exact (s3.trans (shr_setEnv_state _ k .CONFIGURED)).ol ho
    · exact ol_createFail _ k a.ids o.late .errConfigure o.hookFails h3 hl3 (s3.ol ho)

/-- DEPLOY, CONFIGURE and the failure tail of a creation, without reuseUnlockedTasks, in a configuration with the code's
    blanket un-parenting and its release of the hook tasks of all weights. -/
theorem ol_createSettle (s : State) (k : EnvId) (o : SettleOracle) (h : Inv s) (hr : s.reuse = false)
    (hd : s.cfg.detachOnSpot = false) (hl : s.cfg.lastWeightOnly = false) (ho : OwnersListed s) :
    OwnersListed (createSettle s k o).1 := by
  unfold createSettle
  split
  · exact ho
  · rename_i p hpk
    obtain ⟨hpm, hpid, hpins⟩ := pending?_some hpk
    obtain ⟨E0, hE0m, hE0id, hE0t, _, _⟩ := h.pendListed p hpm hpins
    have hdI := inv_dropPending s k h
    have hdO : OwnersListed (dropPending s k) := ho
    have hE0 : (dropPending s k).env? k = some E0 := by
      have := env?_of_mem h E0 hE0m
      rw [hE0id, hpid] at this
      exact this
    have hcl : claimsOf (dropPending s k) p = [] := by
      unfold claimsOf; rw [h.pendClaims p hpm]
      unfold computeClaims
      have : (dropPending s k).reuse = false := hr
      simp [this]
    simp only []
    split
    · exact ol_createFail _ k [] o.late .errDeploy [] hdI hl hdO
    · rw [hcl]
      split
      · exact hdO
      · split
        · exact ol_createFail _ k [] o.late .errDeploy [] (inv_acquireUnlocked _ k _ o hdI) hl
            ((shr_acquireUnlocked _ k _ o hd).ol hdO)
        · have hp : ∀ q ∈ (dropPending s k).creating, q.id ≠ k := by
            intro q hq
            have := (List.mem_filter.mp hq).2
            simpa using this
          have ha := inv_acquire_fn (dropPending s k) k p.spec [] o hdI hp (by simp)
          have oa := ol_acquire (dropPending s k) k p.spec o hdI E0 hE0 hE0t hdO
          split
          · exact ol_createFail _ k _ o.late .errDeploy o.hookFails ha hl oa
          · exact ol_createConfigure _ k p.spec _ o ha hl oa

/-! ### all steps -/

theorem ol_control (s : State) (k : EnvId) (ev : CEv) (fails : List (TaskId × Bool)) (pre : Bool) (ho : OwnersListed s) :
    OwnersListed (control s k ev fails pre).1 := by
  unfold control
  split
  · exact ho
  split
  · exact ho
  · rename_i E _
    split
    · exact ho
    split
    · split
      · exact ho
      · exact (shr_setEnv_state s k .ERROR).ol ho
    · rename_i d _
      split
      · exact (shr_setEnv_state s k .ERROR).ol ho
      · have hrc : Shr s (restartCalls s k E ev) := by
          unfold restartCalls
          split
          · exact shr_setEnv s k _ (fun _ => ⟨rfl, rfl⟩)
          · exact Shr.refl s
        simp only []
        split
        · exact ((hrc.trans (shr_of_sameOwn (sameOwn_applyTrans _ E ev fails))).trans (shr_setEnv_state _ k d)).ol ho
        · exact ((hrc.trans (shr_of_sameOwn (sameOwn_applyTrans _ E ev fails))).trans (shr_setEnv_state _ k .ERROR)).ol ho

theorem ol_step (s : State) (st : Step) (h : Inv s) (hr : s.reuse = false)
    (hd : s.cfg.detachOnSpot = false) (hl : s.cfg.lastWeightOnly = false) (ho : OwnersListed s) :
    OwnersListed (step s st).1 := by
  unfold step
  split
  · exact ho
  · cases st with
    | createBegin k spec =>
      simp only [createBegin]
      split
      · exact ho
      · split <;> exact (shr_same rfl rfl).ol ho
    | createCleanup k =>
      simp only [createCleanup]
      split
      · exact ((shr_doKill s _ List.filter_sublist).trans (shr_same rfl rfl)).ol ho
      · exact ho
    | createInsert k =>
      simp only [createInsert]
      split
      · exact ho
      · split
        · exact (shr_same rfl rfl).ol ho
        · split
          · exact (shr_same rfl rfl).ol ho
          · refine Shr.ol (s := s) ⟨fun t ht => Or.inr ⟨t, ht, rfl, rfl⟩, fun E hE => ⟨E, List.mem_append_left _ hE, rfl, rfl⟩⟩ ho
    | createClaim k =>
      simp only [createClaim]
      split
      · exact ho
      · exact (shr_same rfl rfl).ol ho
    | createSettle k o => exact ol_createSettle s k o h hr hd hl ho
    | control k ev fails pre => exact ol_control s k ev fails pre ho
    | destroy k f a kp o => exact ol_destroy s k f a kp o h hl ho
    | cleanup => exact (shr_doKill s _ List.filter_sublist).ol ho
    | killIds ids => exact (shr_cleanupTasks s ids).ol ho
    | mesosStart k =>
      refine Shr.ol (shr_roster_map _ (fun t => ?_) rfl rfl) ho
      split
      · exact ⟨rfl, Or.inl rfl⟩
      · exact ⟨rfl, Or.inl rfl⟩
    | execLost hh => exact (shr_hostLost s hh false).ol ho
    | agentLost hh => exact (shr_hostLost s hh true).ol ho
    | watchError k fails => exact (shr_of_sameOwn (sameOwn_watchError s k fails)).ol ho
    | killFault ids => exact (shr_same rfl rfl).ol ho
    | statusUpdate x u =>
      refine Shr.ol (shr_roster_map _ (fun t => ?_) rfl rfl) ho
      exact ⟨(statusUpdate_code_entry x u t).1, Or.inl (statusUpdate_code_entry x u t).2.1⟩

/-- **Over whole runs** (no free-standing claim step, no reuseUnlockedTasks, a configuration with the code's blanket
    un-parenting after a failed lock loop and its release of the DESTROY hook tasks of all weights): every roster task
    that has a parent role belongs to a listed environment that references it. -/
theorem ol_run (steps : List Step) (hs : noClaimSteps steps = true) (s : State) (h : Inv s) (hr : s.reuse = false)
    (hd : s.cfg.detachOnSpot = false) (hl : s.cfg.lastWeightOnly = false) (ho : OwnersListed s) :
    OwnersListed (run s steps) := by
  induction steps generalizing s with
  | nil => exact ho
  | cons st rest ih =>
    simp only [noClaimSteps, List.all_cons, Bool.and_eq_true, Bool.not_eq_true'] at hs
    have rc := rc_step s st (Or.inl hr)
    exact ih (by simpa [noClaimSteps] using hs.2) _ (inv_step s st hs.1 h) (rc.1.trans hr)
      (by rw [rc.2.2]; exact hd) (by rw [rc.2.2]; exact hl) (ol_step s st h hr hd hl ho)

end Own
