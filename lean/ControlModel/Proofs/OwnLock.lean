/-
  Proofs/OwnLock — a deployment that fails in acquireTasks' own tail: everything was launched, a new task cannot be
  locked (Model/Own, section "a deployment that fails in acquireTasks' own tail").

    createSettle_lockFail    which branch of `createSettle` a lock failure takes
    lockFail_unowned         the code: nothing the failed lock loop appended to the roster has a parent
    lockFail_clean           … and the failure tail of the creation (which finds no task of the environment to release
                             or kill) leaves the environment clean: the tasks sit unowned in the roster
    lockFail_next_cleanup    … where the next Cleanup reaches every one of them
-/
import ControlModel.Proofs.OwnOverlap

namespace Own

/-! ### small facts -/

theorem killTasks_nil (s : State) :
    (killTasks s []).roster = s.roster ∧ (killTasks s []).master = s.master ∧ (killTasks s []).envs = s.envs ∧
    (killTasks s []).dead = s.dead ∧ (killTasks s []).crashed = s.crashed := by
  have hf : s.roster.filter (fun t => !t.isLocked && decide (t.id ∈ ([] : List TaskId))) = [] := by
    rw [List.filter_eq_nil_iff]; intro t _; simp
  refine ⟨?_, ?_, rfl, rfl, rfl⟩
  · simp only [killTasks, doKill, hf, List.map_nil, List.filter_nil, List.append_nil]
    rw [List.filter_eq_self]; intro t _; simp
  · simp only [killTasks, doKill, hf, List.map_nil, List.filter_nil, killMany]
    conv => rhs; rw [← List.map_id s.master]
    apply List.map_congr_left
    intro m _; simp

theorem relAll_nil (t : Task) : relAll [] t = t := by simp [relAll]

theorem hooksOk_nil (s : State) : hooksOk s [] = true := by
  simp [hooksOk, hooksReleasable, singleWeight, weightsOf, effHooks]

/-- The listing entry of `k` after GO_ERROR. -/
theorem env?_goError (s : State) (k : EnvId) (E : Env) (hE : s.env? k = some E) :
    (setEnv s k (fun X => { X with state := .ERROR })).env? k = some { E with state := .ERROR } := by
  rw [env?_setEnv_state, hE]; rfl

/-! ### the branch -/

/-- **Which branch a lock failure takes**: every wanted host made an offer, the process did not die at a complete
    claim (legacy), and some task of those launched cannot be locked — then the creation is acquireTasks' failed
    tail followed by the failure tail of CreateEnvironment with NO task of the environment to release or kill. -/
theorem createSettle_lockFail (s : State) (k : EnvId) (o : SettleOracle) (p : Pending) (hp : s.pending? k true = some p)
    (hhosts : ∀ d ∈ descriptors p.spec, d.2.host ∈ s.hosts)
    (hnc : s.reuse = false ∨ s.cfg.unlockUnpaired = false)
    (hlf : lockFailure (launchedTasks (dropPending s k) k
      ((descriptors p.spec).filter (fun d => decide (d.1 ∉ (claimsOf (dropPending s k) p).map (·.1)))) o) = true) :
    createSettle s k o = createFail (acquireUnlocked (dropPending s k) k
      ((descriptors p.spec).filter (fun d => decide (d.1 ∉ (claimsOf (dropPending s k) p).map (·.1)))) o) k [] o.late .errDeploy := by
  unfold createSettle
  rw [hp]
  simp only []
  have h1 : ((descriptors p.spec).any fun d => decide (d.2.host ∉ (dropPending s k).hosts)) = false := by
    rw [List.any_eq_false]; intro d hd
    have : d.2.host ∈ (dropPending s k).hosts := hhosts d hd
    simpa using this
  have h2 : ((dropPending s k).reuse && (dropPending s k).cfg.unlockUnpaired) = false := by
    show (s.reuse && s.cfg.unlockUnpaired) = false
    rcases hnc with h | h <;> simp [h]
  simp only [h1, h2, hlf, Bool.false_and, Bool.false_eq_true, if_false, if_true]

/-! ### what the failed lock loop leaves in the roster -/

/-- **The code: no task the failed lock loop appended to the roster has a parent** — the ones that did lock
    included (the block `if !deploymentSuccess` un-parents every task of `deployedTasks`). -/
theorem lockFail_unowned (s : State) (k : EnvId) (toRun : List (Nat × RoleSpec)) (o : SettleOracle)
    (hc : s.cfg.detachOnSpot = false) :
    ∀ t ∈ (acquireUnlocked s k toRun o).roster, t ∈ s.roster ∨ (t.parent = none ∧ t.isLocked = false ∧ s.nextTask ≤ t.id) := by
  intro t ht
  rcases List.mem_append.mp ht with ho | hn
  · exact Or.inl ho
  · right
    obtain ⟨x, hx, he, _, _, _, _, hpar⟩ := acquireUnlocked_new s k toRun o t hn
    have hp : t.parent = none := by
      rcases hpar with h | ⟨_, h⟩
      · exact h
      · rw [hc] at h; exact absurd h (by simp)
    refine ⟨hp, by simp [Task.isLocked, hp], ?_⟩
    rw [he]; exact (assignNew_range toRun s.nextTask x hx).1

/-- Every row the master got in the failed deployment belongs to a roster entry the lock loop appended. -/
theorem lockFail_rows (s : State) (k : EnvId) (toRun : List (Nat × RoleSpec)) (o : SettleOracle) :
    ∀ m ∈ (acquireUnlocked s k toRun o).master, m ∈ s.master ∨
      ∃ t ∈ (launchedTasks s k toRun o).map (Task.afterLockFailure s.cfg), t.id = m.id := by
  intro m hm
  rcases List.mem_append.mp hm with ho | hn
  · exact Or.inl ho
  · right
    obtain ⟨x, hx, rfl⟩ := List.mem_map.mp hn
    have : x.2.2 ∈ ((launchedTasks s k toRun o).map (Task.afterLockFailure s.cfg)).map (·.id) := by
      rw [acquireUnlocked_new_ids]; exact List.mem_map.mpr ⟨x, hx, rfl⟩
    obtain ⟨t, ht, hid⟩ := List.mem_map.mp this
    exact ⟨t, ht, hid⟩

/-! ### the failure tail after a failed lock loop -/

/-- **A creation that fails in acquireTasks' lock loop leaves the environment clean** (every configuration that has the
    blanket un-parenting of the code; unless the failure tail's teardown hangs, which it does not in the code as it is):
    in a state of a run (`Inv`) in which nothing refers to `k` yet (`freshEnv`) and `k` is listed without tasks —
    where every inserted creation finds itself —, after the failed tail of acquireTasks and the failure tail of
    CreateEnvironment `k` is not listed, NO roster task has it as parent, every task launched for it sits unowned in
    the roster, its detectors are free and its calls cancelled. -/
theorem lockFail_clean (s : State) (k : EnvId) (toRun : List (Nat × RoleSpec)) (o : SettleOracle)
    (late : Bool) (res : Res) (hf : List TaskId) (E0 : Env)
    (hc : s.cfg.detachOnSpot = false) (hfr : freshEnv s k = true)
    (hE0 : s.env? k = some E0) (ht0 : E0.tasks = []) (hh0 : E0.hooks = []) (hte : E0.tearing = false)
    (hnh : (createFail (acquireUnlocked s k toRun o) k [] late res hf).2 ≠ .hang) :
    cleanAfter k false (viewOf (createFail (acquireUnlocked s k toRun o) k [] late res hf).1) = true ∧
    (createFail (acquireUnlocked s k toRun o) k [] late res hf).1.roster = (acquireUnlocked s k toRun o).roster ∧
    (createFail (acquireUnlocked s k toRun o) k [] late res hf).1.master = (acquireUnlocked s k toRun o).master := by
  simp only [freshEnv, Bool.and_eq_true, List.all_eq_true, Bool.or_eq_true, decide_eq_true_eq] at hfr
  obtain ⟨⟨⟨g1, g2⟩, g3⟩, g4⟩ := hfr
  have hE1 : (acquireUnlocked s k toRun o).env? k = some E0 := hE0
  have hE2 := env?_goError _ k E0 hE1
  have hpar : ∀ t ∈ (setEnv (acquireUnlocked s k toRun o) k (fun X => { X with state := .ERROR })).roster,
      t.id ∈ ({ E0 with state := EState.ERROR } : Env).tasks → t.parent = some k := by
    intro t _ hin; rw [show ({ E0 with state := EState.ERROR } : Env).tasks = E0.tasks from rfl, ht0] at hin; simp at hin
  have hhk : ∀ h ∈ ({ E0 with state := EState.ERROR } : Env).hooks, h.task ∈ ({ E0 with state := EState.ERROR } : Env).tasks := by
    intro h hh; rw [show ({ E0 with state := EState.ERROR } : Env).hooks = E0.hooks from rfl, hh0] at hh; simp at hh
  have hrel : hooksOk (setEnv (acquireUnlocked s k toRun o) k (fun X => { X with state := .ERROR }))
      ({ E0 with state := EState.ERROR } : Env).hooks = true := by
    rw [show ({ E0 with state := EState.ERROR } : Env).hooks = E0.hooks from rfl, hh0]; exact hooksOk_nil _
  have hres := teardown_forced_res' _ k late hf { E0 with state := .ERROR } hE2 hte (by simp) hpar hhk
  -- what the completed teardown and the KillTasks of nothing leave
  have key : ∀ D : State,
      D.roster = (acquireUnlocked s k toRun o).roster.map (relAll ({ E0 with state := EState.ERROR } : Env).tasks) →
      D.master = (acquireUnlocked s k toRun o).master →
      (∀ X ∈ D.envs, X ∈ (setEnv (acquireUnlocked s k toRun o) k (fun X => { X with state := .ERROR })).envs ∧ X.id ≠ k) →
      D.dead = s.dead ++ ((setEnv (acquireUnlocked s k toRun o) k (fun X => { X with state := .ERROR })).envs.filter
        (fun X => decide (X.id = k))).map (fun X => (X.id, X.started, X.cancelled + X.pending)) →
      cleanAfter k false (viewOf (killTasks D [])) = true ∧ (killTasks D []).roster = (acquireUnlocked s k toRun o).roster ∧
      (killTasks D []).master = (acquireUnlocked s k toRun o).master := by
    intro D a1 a2 a4 a6
    obtain ⟨k1, k2, k3, k4, _⟩ := killTasks_nil D
    have hro : D.roster = (acquireUnlocked s k toRun o).roster := by
      rw [a1, show ({ E0 with state := EState.ERROR } : Env).tasks = E0.tasks from rfl, ht0]
      conv => rhs; rw [← List.map_id (acquireUnlocked s k toRun o).roster]
      apply List.map_congr_left
      intro t _; exact relAll_nil t
    refine ⟨?_, k1.trans hro, k2.trans a2⟩
    have hown := lockFail_unowned s k toRun o hc
    have hrows := lockFail_rows s k toRun o
    simp only [cleanAfter, viewOf, Bool.and_eq_true, List.all_eq_true, List.mem_map, forall_exists_index, and_imp,
      forall_apply_eq_imp_iff₂, decide_eq_true_eq, Bool.or_eq_true, List.any_eq_true, List.mem_append]
    refine ⟨⟨⟨⟨?_, ?_⟩, ?_⟩, ?_⟩, ?_⟩
    · intro X hX; rw [k3] at hX; exact (a4 X hX).2
    · intro t ht
      rw [k1, hro] at ht
      rcases hown t ht with ho | ⟨hn, _⟩
      · exact g1 t ho
      · rw [hn]; simp
    · right
      intro m hm
      rw [k2, a2] at hm
      rcases hrows m hm with ho | ⟨t, htn, hid⟩
      · left; left; left; exact g2 m ho
      · right
        have htr : t ∈ (acquireUnlocked s k toRun o).roster := List.mem_append.mpr (Or.inr htn)
        have hpn : t.parent = none := by
          rcases hown t htr with ho | ⟨hn, _⟩
          · -- an old entry with the id of a new row: impossible, but its parent is not needed — take the new one
            obtain ⟨x, hx, he, _, _, _, _, hp'⟩ := acquireUnlocked_new s k toRun o t htn
            rcases hp' with h | ⟨_, h⟩
            · exact h
            · rw [hc] at h; exact absurd h (by simp)
          · exact hn
        refine ⟨_, ⟨t, ?_, rfl⟩, by simpa using hid, by simpa using hpn⟩
        rw [k1, hro]; exact htr
    · intro d hd
      rw [k3]
      simp only [State.activeDets, List.mem_flatMap] at hd
      obtain ⟨X, hX, hdX⟩ := hd
      rw [k3] at hX
      exact ⟨_, ⟨X, hX, rfl⟩, hdX⟩
    · intro c hc'
      rw [k3, k4, a6] at hc'
      rcases hc' with ⟨X, hX, rfl⟩ | hc'
      · left; exact (a4 X hX).2
      · rcases List.mem_append.mp hc' with hc' | hc'
        · left; exact g3 c hc'
        · right
          obtain ⟨X, hX, rfl⟩ := List.mem_map.mp hc'
          obtain ⟨hXm, hXk⟩ := List.mem_filter.mp hX
          -- X is the entry of k after GO_ERROR: its counters are those of the listed entry
          simp only [setEnv] at hXm
          obtain ⟨Y, hY, rfl⟩ := List.mem_map.mp hXm
          have hYm : Y ∈ s.envs := hY
          by_cases hYk : Y.id = k
          · simp only [hYk, if_true]
            rcases g4 Y hYm with h | h
            · exact absurd hYk h
            · exact h
          · simp only [hYk, if_false] at hXk
            exact (of_decide_eq_true hXk).elim
  revert hnh
  unfold createFail
  simp only []
  rcases hres with h | h | h
  · rw [h]; intro _
    obtain ⟨a1, a2, _, a4, _, a6⟩ := teardown_done_state' _ k true late hf { E0 with state := .ERROR } hE2 hpar hrel hhk (Or.inl h)
    exact key _ a1 a2 a4 a6
  · rw [h]; intro _
    obtain ⟨a1, a2, _, a4, _, a6⟩ := teardown_done_state' _ k true late hf { E0 with state := .ERROR } hE2 hpar hrel hhk (Or.inr h)
    exact key _ a1 a2 a4 a6
  · rw [h]; intro hc'; exact absurd rfl hc'

/-- … and the next Cleanup reaches every one of them: what the failed lock loop appended is unlocked, so `cleanup`
    takes it out of the roster (with a KILL call if the core believes it ACTIVE). -/
theorem lockFail_next_cleanup (s : State) (k : EnvId) (toRun : List (Nat × RoleSpec)) (o : SettleOracle)
    (hc : s.cfg.detachOnSpot = false) (s' : State) (hr : s'.roster = (acquireUnlocked s k toRun o).roster)
    (href : s'.refusing = []) :
    ∀ t ∈ (cleanup s').roster, t ∈ s.roster ∧ t.isLocked = true := by
  intro t ht
  have hmem : t ∈ s'.roster ∧ t.isLocked = true := by
    simp only [cleanup, doKill, href, List.not_mem_nil, decide_false] at ht
    have hnil : ∀ l : List Task, l.filter (fun _ => false) = [] := fun l => by
      rw [List.filter_eq_nil_iff]; intro _ _; simp
    rw [hnil, List.append_nil] at ht
    obtain ⟨htm, hnot⟩ := List.mem_filter.mp ht
    refine ⟨htm, ?_⟩
    by_cases hl : t.isLocked = true
    · exact hl
    · exfalso
      have : t.id ∈ (s'.roster.filter (fun t => !t.isLocked)).map (·.id) :=
        List.mem_map.mpr ⟨t, List.mem_filter.mpr ⟨htm, by simpa using hl⟩, rfl⟩
      simp only [decide_not, Bool.not_eq_true', decide_eq_false_iff_not] at hnot
      exact hnot this
  rw [hr] at hmem
  rcases lockFail_unowned s k toRun o hc t hmem.1 with ho | ⟨_, hl, _⟩
  · exact ⟨ho, hmem.2⟩
  · rw [hl] at hmem; exact absurd hmem.2 (by simp)

/-! ### the whole creation -/

theorem createFail_res (s : State) (k : EnvId) (ids : List TaskId) (late : Bool) (res : Res) (hf : List TaskId) :
    (createFail s k ids late res hf).2 = .hang ∨ (createFail s k ids late res hf).2 = res := by
  unfold createFail
  simp only []
  split
  · left; rfl
  · right; rfl

/-- A launched task can be locked iff the offer for its host carried a hostname. -/
theorem launched_locked (s : State) (k : EnvId) (toRun : List (Nat × RoleSpec)) (o : SettleOracle) :
    ∀ t ∈ launchedTasks s k toRun o, t.fields.locked = decide (t.host ∉ blankHosts s o) ∧ t.parent = some k := by
  intro t ht
  unfold launchedTasks at ht
  obtain ⟨x, _, rfl⟩ := List.mem_map.mp ht
  simp [Task.fields, TaskIds.Fields.locked]

/-- **A creation that fails in acquireTasks' lock loop** — from the state in which the settling creation finds itself (a state
    of a run, the creation inserted, nothing referring to `k` yet), in every configuration with the code's blanket
    un-parenting, unless the failure tail hangs: it answers the deployment error and leaves the environment clean; no roster
    task has `k` as parent. -/
theorem settle_lockFail_clean (s : State) (h : Inv s) (hc : s.cfg.detachOnSpot = false)
    (k : EnvId) (o : SettleOracle) (p : Pending) (hp : s.pending? k true = some p) (hfr : freshEnv s k = true)
    (hhosts : ∀ d ∈ descriptors p.spec, d.2.host ∈ s.hosts) (hnc : s.reuse = false ∨ s.cfg.unlockUnpaired = false)
    (hlf : lockFailure (launchedTasks (dropPending s k) k
      ((descriptors p.spec).filter (fun d => decide (d.1 ∉ (claimsOf (dropPending s k) p).map (·.1)))) o) = true)
    (hnh : (createSettle s k o).2 ≠ .hang) :
    (createSettle s k o).2 = .errDeploy ∧ cleanAfter k false (viewOf (createSettle s k o).1) = true ∧
    (∀ t ∈ (createSettle s k o).1.roster, t.parent ≠ some k) := by
  obtain ⟨hpm, hpid, hpins⟩ := pending?_some hp
  obtain ⟨E0, hE0m, hE0id, hE0t, hE0h, hE0te⟩ := h.pendListed p hpm hpins
  have hE0 : (dropPending s k).env? k = some E0 := by
    have := env?_of_mem h E0 hE0m
    rw [hE0id, hpid] at this
    exact this
  have hfr' : freshEnv (dropPending s k) k = true := hfr
  have hc' : (dropPending s k).cfg.detachOnSpot = false := hc
  rw [createSettle_lockFail s k o p hp hhosts hnc hlf] at hnh ⊢
  obtain ⟨hcl, _, _⟩ := lockFail_clean (dropPending s k) k _ o o.late .errDeploy [] E0 hc' hfr' hE0 hE0t hE0h hE0te hnh
  refine ⟨?_, hcl, ?_⟩
  · rcases createFail_res (acquireUnlocked (dropPending s k) k
        ((descriptors p.spec).filter (fun d => decide (d.1 ∉ (claimsOf (dropPending s k) p).map (·.1)))) o) k [] o.late .errDeploy [] with hh | hh
    · exact absurd hh hnh
    · exact hh
  · intro t ht
    have := hcl
    simp only [cleanAfter, viewOf, Bool.and_eq_true, List.all_eq_true, decide_eq_true_eq] at this
    have h2 := this.1.1.1.2 { task := t.id, owner := t.parent, locked := t.isLocked, state := if t.isLocked then some t.state else none }
      (List.mem_map.mpr ⟨t, ht, rfl⟩)
    exact h2

/-- … and in the code as it is (no late delete of the pending-teardown entry) the failure tail does not hang. -/
theorem settle_lockFail_not_hang (s : State) (h : Inv s) (hl : s.cfg.lateDelete = false)
    (k : EnvId) (o : SettleOracle) (p : Pending) (hp : s.pending? k true = some p)
    (hhosts : ∀ d ∈ descriptors p.spec, d.2.host ∈ s.hosts) (hnc : s.reuse = false ∨ s.cfg.unlockUnpaired = false)
    (hlf : lockFailure (launchedTasks (dropPending s k) k
      ((descriptors p.spec).filter (fun d => decide (d.1 ∉ (claimsOf (dropPending s k) p).map (·.1)))) o) = true) :
    (createSettle s k o).2 ≠ .hang := by
  obtain ⟨hpm, hpid, hpins⟩ := pending?_some hp
  obtain ⟨E0, hE0m, hE0id, _, _, hE0te⟩ := h.pendListed p hpm hpins
  have hE0 : (dropPending s k).env? k = some E0 := by
    have := env?_of_mem h E0 hE0m
    rw [hE0id, hpid] at this
    exact this
  rw [createSettle_lockFail s k o p hp hhosts hnc hlf]
  apply createFail_not_hang
  · intro E hE
    have hE' : (dropPending s k).env? k = some E := hE
    rw [hE0] at hE'; injection hE' with hE'; subst hE'; exact hE0te
  · show (o.late && s.cfg.lateDelete) = false
    simp [hl]
  · simp

end Own
