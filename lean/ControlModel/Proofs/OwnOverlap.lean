/-
  Proofs/OwnOverlap — a creation cut at the critical sections of the transition mutex, and a
  destroy that arrives while it is in flight (Model/Own, last section).

    settle_pieces            the sections run without interruption are `createSettle`
    tac_attempts             doTeardownAndCleanup is its first attempt, then the forced retry
    lateAttempt_clean,
    lateRetry_clean          a waiting destroy that answers success leaves the environment clean,
                             whichever attempt succeeds and in whatever (well-formed) state it is served
    destroy_pending_noop     the model's coarse rule: a destroy / control of an environment whose
                             creation is pending is not served (nothing changes)
    acquire_hyps, deploy_ok_hyps, settle_ok_hyps
                             a deployment / a creation that succeeded in a state in which nothing referred
                             to the environment yet (`freshEnv`) ESTABLISHES the hypotheses of the
                             clean-destroy theorems (`envWf`, `statusFaithful`, hooks among the tasks)
-/
import ControlModel.Proofs.Own

namespace Own

/-! ### the sections compose to `createSettle` -/

theorem env?_setEnv_isSome (s : State) (k k' : EnvId) (f : Env → Env) (hf : ∀ X, (f X).id = X.id) :
    ((setEnv s k f).env? k').isSome = (s.env? k').isSome := by
  unfold State.env? setEnv
  simp only [List.find?_map]
  have hcomp : ((fun E => decide (E.id = k')) ∘ fun E : Env => if E.id = k then f E else E) =
      (fun E : Env => decide (E.id = k')) := by
    funext X; by_cases hX : X.id = k <;> simp [hX, hf]
  rw [hcomp]
  cases s.envs.find? (fun E => decide (E.id = k')) <;> rfl

theorem acquire_env?_isSome (s : State) (k k' : EnvId) (spec : EnvSpec) (claims : List (Nat × TaskId)) (o : SettleOracle) :
    ((acquire s k spec claims o).s.env? k').isSome = (s.env? k').isSome := by
  unfold acquire
  simp only []
  refine (env?_setEnv_isSome _ _ _ _ ?_).trans ?_
  · intro X; rfl
  · rfl

theorem dropPending_env? (s : State) (k k' : EnvId) : (dropPending s k).env? k' = s.env? k' := rfl

/-- The failure tail of `createSettle` is GO_ERROR, the forced teardown, KillTasks. -/
theorem settleTail_eq (s : State) (m : Mid) : settleTail s m = createFail s m.k m.ids m.late m.res m.hf := by
  unfold settleTail createFail settleTeardown settleGoError settleKill
  simp only []

/-- **The sections run one after the other are `createSettle`** (for an environment that is
    listed, as every inserted pending creation's is: `Inv.pendListed`). -/
theorem settle_pieces (s : State) (k : EnvId) (o : SettleOracle) (h : (s.env? k).isSome) :
    settleSeq s k o = createSettle s k o := by
  unfold settleSeq createSettle
  cases hp : s.pending? k true with
  | none => simp [settleDeploy, hp]
  | some p =>
    simp only [settleDeploy, hp]
    by_cases h1 : ((descriptors p.spec).any fun d => decide (d.2.host ∉ (dropPending s k).hosts)) = true
    · -- no offer for a wanted host
      simp only [h1, if_true, settleTail_eq]
      simp
    · simp only [h1]
      by_cases h2 : ((dropPending s k).reuse && (dropPending s k).cfg.unlockUnpaired &&
          (List.filter (fun d => decide (d.1 ∉ List.map (fun x => x.1) (claimsOf (dropPending s k) p))) (descriptors p.spec)).isEmpty) = true
      · simp only [h2, if_true]
        simp
      · simp only [h2]
        by_cases h2b : lockFailure (launchedTasks (dropPending s k) k
            (List.filter (fun d => decide (d.1 ∉ List.map (fun x => x.1) (claimsOf (dropPending s k) p))) (descriptors p.spec)) o) = true
        · -- a launched task cannot be locked: acquireTasks fails in its own tail
          simp only [h2b, if_true, settleTail_eq]
          simp
        simp only [h2b]
        by_cases h3 : (!(acquire (dropPending s k) k p.spec (claimsOf (dropPending s k) p) o).deployOk ||
            !(claimsOf (dropPending s k) p).isEmpty) = true
        · simp only [h3, if_true, settleTail_eq]
          simp
        · simp only [h3]
          simp only [Bool.false_eq_true, if_false, if_true]
          -- the environment is listed after acquireTasks
          have hl : ((acquire (dropPending s k) k p.spec (claimsOf (dropPending s k) p) o).s.env? k).isSome := by
            rw [acquire_env?_isSome, dropPending_env?]; exact h
          unfold settleConfigure createConfigure
          simp only []
          cases hE : (acquire (dropPending s k) k p.spec (claimsOf (dropPending s k) p) o).s.env? k with
          | none => rw [hE] at hl; simp at hl
          | some E =>
            simp only []
            split
            · simp
            · simp only [settleTail_eq]
              simp

theorem settle_pieces_inv (s : State) (k : EnvId) (o : SettleOracle) (h : Inv s) :
    settleSeq s k o = createSettle s k o := by
  cases hp : s.pending? k true with
  | none => unfold settleSeq settleDeploy createSettle; rw [hp]
  | some p =>
    obtain ⟨hm, hid, hins⟩ := pending?_some hp
    obtain ⟨E, hE, hEid, _⟩ := h.pendListed p hm hins
    apply settle_pieces
    unfold State.env?
    rw [List.find?_isSome]
    exact ⟨E, hE, by simp [hEid, hid]⟩

/-! ### doTeardownAndCleanup as two attempts -/

/-- doTeardownAndCleanup is its first TeardownEnvironment attempt and, if that answered an error
    without being forced, the forced retry on the state the first attempt left (state and answer;
    the retry's trace is appended to the first attempt's). -/
theorem tac_attempts (s : State) (k : EnvId) (ids : List TaskId) (force keep : Bool) (o : DOracle) :
    ((teardownAndCleanup s k ids force keep o).1, (teardownAndCleanup s k ids force keep o).2.1) =
      match lateAttempt s k ids force keep o with
      | some r => (r.1, r.2.1)
      | none => ((lateRetry (teardown s k force o.late1 o.hookFails).1 k ids keep o).1,
                 (lateRetry (teardown s k force o.late1 o.hookFails).1 k ids keep o).2.1) := by
  unfold teardownAndCleanup lateAttempt lateRetry
  simp only []
  split
  · rfl
  · simp only [tcFin]
    split <;> first | rfl | (cases keep <;> rfl)

theorem lateAttempt_some (s : State) (k : EnvId) (ids : List TaskId) (force keep : Bool) (o : DOracle)
    (r : State × Res × List TEv) (h : lateAttempt s k ids force keep o = some r) :
    r = teardownAndCleanup s k ids force keep o := by
  unfold lateAttempt at h
  unfold teardownAndCleanup
  simp only [] at h ⊢
  split at h
  · rename_i hc
    rw [if_pos hc]
    injection h with h
    exact h.symm
  · simp at h

theorem lateRetry_eq (s : State) (k : EnvId) (ids : List TaskId) (keep : Bool) (o : DOracle) :
    lateRetry s k ids keep o = teardownAndCleanup s k ids true keep { o with late1 := o.late2 } := by
  unfold lateRetry teardownAndCleanup
  simp

/-- A first attempt that is to be retried answered an error on an environment that is listed and
    was not forced; the state is as it was. -/
theorem lateAttempt_none (s : State) (k : EnvId) (ids : List TaskId) (force keep : Bool) (o : DOracle)
    (hwf : ∀ E, s.env? k = some E → envWf s k E.tasks = true ∧ (∀ h ∈ E.hooks, h.task ∈ E.tasks))
    (h : lateAttempt s k ids force keep o = none) :
    force = false ∧
    ((teardown s k force o.late1 o.hookFails).2.1 = .doneErr ∨ (teardown s k force o.late1 o.hookFails).1 = s) := by
  unfold lateAttempt at h
  simp only [] at h
  split at h
  · simp at h
  · rename_i hc
    have hf : force = false := by cases force <;> simp_all
    refine ⟨hf, ?_⟩
    cases hr : (teardown s k force o.late1 o.hookFails).2.1 with
    | ok => simp [hr] at hc
    | hang => simp [hr] at hc
    | doneErr => left; rfl
    | err => right; exact teardown_err_unchanged s k force o.late1 o.hookFails hwf (Or.inl hr)
    | notfound => right; exact teardown_err_unchanged s k force o.late1 o.hookFails hwf (Or.inr hr)

/-! ### a waiting destroy that answers success -/

/-- **The first attempt of a waiting destroy, served in state `s`, answers success ⇒ the
    environment is clean** — `s` is the state in which TeardownEnvironment gets the transition
    mutex, `E` the environment as listed THEN. -/
theorem lateAttempt_clean (s : State) (k : EnvId) (force keep : Bool) (o : DOracle) (E : Env)
    (hE : s.env? k = some E) (hwf : envWf s k E.tasks = true) (hfaith : statusFaithful s E.tasks = true)
    (hrel : hooksOk s E.hooks = true) (hhk : ∀ h ∈ E.hooks, h.task ∈ E.tasks)
    (r : State × Res × List TEv) (hr : lateAttempt s k (envTaskIds s k) force keep o = some r) (hok : r.2.1 = .ok) :
    destroyedClean k keep (viewOf r.1) = true := by
  have hids : envTaskIds s k = E.tasks := by unfold envTaskIds; rw [hE]
  rw [hids] at hr
  have := lateAttempt_some s k E.tasks force keep o r hr
  subst this
  exact tac_clean s k force keep o E hE hwf hfaith hrel hhk hok

/-- … and so does the forced retry, served in (a possibly later) state `s`. -/
theorem lateRetry_clean (s : State) (k : EnvId) (keep : Bool) (o : DOracle) (E : Env)
    (hE : s.env? k = some E) (hwf : envWf s k E.tasks = true) (hfaith : statusFaithful s E.tasks = true)
    (hrel : hooksOk s E.hooks = true) (hhk : ∀ h ∈ E.hooks, h.task ∈ E.tasks)
    (hok : (lateRetry s k (envTaskIds s k) keep o).2.1 = .ok) :
    destroyedClean k keep (viewOf (lateRetry s k (envTaskIds s k) keep o).1) = true := by
  have hids : envTaskIds s k = E.tasks := by unfold envTaskIds; rw [hE]
  rw [hids] at hok ⊢
  rw [lateRetry_eq] at hok ⊢
  exact tac_clean s k true keep _ E hE hwf hfaith hrel hhk hok

/-- An attempt served after the environment was taken away (by the failing creation's own
    teardown, say) answers "not found" and changes nothing. -/
theorem lateAttempt_gone (s : State) (k : EnvId) (ids : List TaskId) (force keep : Bool) (o : DOracle)
    (h : s.env? k = none) :
    (lateRetry s k ids keep o).2.1 = .notfound ∧ (lateRetry s k ids keep o).1 = s ∧
    (∀ r, lateAttempt s k ids force keep o = some r → r.2.1 = .notfound ∧ r.1 = s) := by
  have ht : ∀ f l, teardown s k f l o.hookFails = (s, .notfound, []) := by
    intro f l; unfold teardown; rw [h]
  refine ⟨?_, ?_, ?_⟩
  · unfold lateRetry; simp [ht, tcFin]
  · unfold lateRetry; simp [ht, tcFin]
  · intro r hr
    unfold lateAttempt at hr
    simp only [ht] at hr
    split at hr
    · injection hr with hr; subst hr; simp [tcFin]
    · simp at hr

/-! ### the coarse rule -/

/-- A destroy of an environment whose creation is pending is not served: nothing changes. -/
theorem destroy_pending_noop (s : State) (k : EnvId) (force allow keep : Bool) (o : DOracle)
    (h : ∃ p ∈ s.creating, p.id = k) : destroy s k force allow keep o = (s, .noop, []) := by
  have : (s.creating.any fun p => decide (p.id = k)) = true := by
    simp only [List.any_eq_true, decide_eq_true_eq]; exact h
  unfold destroy; simp [this]

theorem control_pending_noop (s : State) (k : EnvId) (ev : CEv) (fails : List (TaskId × Bool)) (pre : Bool)
    (h : ∃ p ∈ s.creating, p.id = k) : control s k ev fails pre = (s, .noop) := by
  have : (s.creating.any fun p => decide (p.id = k)) = true := by
    simp only [List.any_eq_true, decide_eq_true_eq]; exact h
  unfold control; simp [this]

/-! ### a successful deployment establishes the hypotheses of the clean-destroy theorems -/

theorem env?_setEnv_self (s : State) (k : EnvId) (f : Env → Env) (hf : ∀ X, (f X).id = X.id) :
    (setEnv s k f).env? k = (s.env? k).map f := by
  unfold State.env? setEnv
  simp only [List.find?_map]
  have hcomp : ((fun E => decide (E.id = k)) ∘ fun E : Env => if E.id = k then f E else E) =
      (fun E : Env => decide (E.id = k)) := by
    funext X; by_cases hX : X.id = k <;> simp [hX, hf]
  rw [hcomp]
  cases hfd : s.envs.find? (fun E => decide (E.id = k)) with
  | none => rfl
  | some E =>
    have hk : E.id = k := by simpa using List.find?_some hfd
    simp [hk]

theorem assignNew_mem (l : List (Nat × RoleSpec)) (n : TaskId) : ∀ x ∈ assignNew l n, (x.1, x.2.1) ∈ l := by
  induction l generalizing n with
  | nil => intro x hx; simp [assignNew] at hx
  | cons d rest ih =>
    obtain ⟨i, r⟩ := d
    intro x hx
    simp only [assignNew, List.mem_cons] at hx
    rcases hx with rfl | hx
    · exact List.mem_cons_self
    · exact List.mem_cons_of_mem _ (ih (n + 1) x hx)

/-- With distinct role indices, looking a launched descriptor up by its index finds it. -/
theorem assignNew_find (l : List (Nat × RoleSpec)) (n : TaskId) (hnd : (l.map (·.1)).Nodup) :
    ∀ x ∈ assignNew l n, (assignNew l n).find? (fun y => decide (y.1 = x.1)) = some x := by
  induction l generalizing n with
  | nil => intro x hx; simp [assignNew] at hx
  | cons d rest ih =>
    obtain ⟨i, r⟩ := d
    simp only [List.map_cons, List.nodup_cons] at hnd
    intro x hx
    simp only [assignNew, List.mem_cons] at hx
    rcases hx with rfl | hx
    · simp [assignNew]
    · have hne : i ≠ x.1 := by
        intro e
        apply hnd.1
        have := assignNew_mem rest (n + 1) x hx
        exact List.mem_map.mpr ⟨(x.1, x.2.1), this, e.symm⟩
      simp only [assignNew, List.find?_cons]
      simp only [hne, decide_false]
      exact ih (n + 1) hnd.2 x hx

theorem descriptors_nodup (spec : EnvSpec) : ((descriptors spec).map (·.1)).Nodup := by
  unfold descriptors
  apply List.Nodup.sublist (List.Sublist.map _ List.filter_sublist)
  rw [List.map_map]
  have : ((fun x : Nat × RoleSpec => x.1) ∘ fun p : RoleSpec × Nat => (p.2, p.1)) = Prod.snd := by funext p; rfl
  rw [this, List.zipIdx_map_snd]
  exact List.nodup_range' 1

/-- acquireTasks with nothing claimed: what it leaves behind, piece by piece. -/
theorem acquire_nil_facts (s : State) (k : EnvId) (spec : EnvSpec) (o : SettleOracle) :
    let A := acquire s k spec [] o
    let fresh := assignNew (descriptors spec) s.nextTask
    (∀ t' ∈ A.s.roster, t' ∈ s.roster ∨ ∃ x ∈ fresh, t'.id = x.2.2 ∧ t'.parent = some k ∧ (A.deployOk = true → t'.active = true)) ∧
    (∀ x ∈ fresh, ∃ t' ∈ A.s.roster, t'.id = x.2.2) ∧
    (∀ m' ∈ A.s.master, m' ∈ s.master ∨ ∃ x ∈ fresh, m'.id = x.2.2 ∧ m'.label = k) ∧
    (∀ x ∈ fresh, x.2.2 ∈ A.ids) ∧
    (∀ i ∈ A.ids, s.nextTask ≤ i) ∧
    A.s.dead = s.dead ∧ A.s.cfg = s.cfg ∧
    (∀ X' ∈ A.s.envs, ∃ X ∈ s.envs, X'.id = X.id ∧ X'.started = X.started ∧ X'.cancelled = X.cancelled ∧ X'.pending = X.pending) ∧
    (∀ E0, s.env? k = some E0 → ∃ E, A.s.env? k = some E ∧ E.tasks = A.ids ∧ E.tearing = E0.tearing) := by
  intro A fresh
  have hfil : ∀ l : List (Nat × RoleSpec), l.filter (fun _ => decide ¬False) = l := by intro l; simp
  have hA : A = acquire s k spec [] o := rfl
  refine ⟨?_, ?_, ?_, ?_, ?_, rfl, rfl, ?_, ?_⟩
  · intro t' ht'
    simp only [hA, acquire, List.map_nil, List.not_mem_nil, if_false, List.map_id', setEnv, hfil] at ht'
    rcases List.mem_append.mp ht' with h | h
    · left; exact h
    · right
      obtain ⟨x, hx, rfl⟩ := List.mem_map.mp h
      refine ⟨x, hx, rfl, rfl, ?_⟩
      intro hd
      simp only [hA, acquire, List.map_nil, List.not_mem_nil, hfil] at hd
      simp [hd]
  · intro x hx
    simp only [hA, acquire, List.map_nil, List.not_mem_nil, hfil, setEnv]
    exact ⟨_, List.mem_append_right _ (List.mem_map.mpr ⟨x, hx, rfl⟩), rfl⟩
  · intro m' hm'
    simp only [hA, acquire, List.map_nil, List.not_mem_nil, hfil, setEnv] at hm'
    rcases List.mem_append.mp hm' with h | h
    · left; exact h
    · right
      obtain ⟨x, hx, rfl⟩ := List.mem_map.mp h
      exact ⟨x, hx, rfl, rfl⟩
  · intro x hx
    simp only [hA, acquire, List.map_nil, List.not_mem_nil, hfil, List.lookup_nil]
    refine List.mem_filterMap.mpr ⟨(x.1, x.2.1), assignNew_mem _ _ x hx, ?_⟩
    simp only []
    rw [assignNew_find _ _ (descriptors_nodup spec) x hx]
    rfl
  · intro i hi
    simp only [hA, acquire, List.map_nil, List.not_mem_nil, hfil, List.lookup_nil] at hi
    obtain ⟨d, _, hd⟩ := List.mem_filterMap.mp hi
    simp only [Option.map_eq_some_iff] at hd
    obtain ⟨x, hx, rfl⟩ := hd
    exact (assignNew_range _ _ x (List.mem_of_find?_eq_some hx)).1
  · intro X' hX'
    simp only [hA, acquire, setEnv] at hX'
    obtain ⟨X, hX, rfl⟩ := List.mem_map.mp hX'
    refine ⟨X, hX, ?_⟩
    by_cases hk : X.id = k <;> simp [hk]
  · intro E0 hE0
    have key : ∀ (s1 : State) (f : Env → Env), A.s = setEnv s1 k f → (∀ X, (f X).id = X.id) → (∀ X, (f X).tasks = A.ids) →
        (∀ X, (f X).tearing = X.tearing) → s1.env? k = some E0 →
        ∃ E, A.s.env? k = some E ∧ E.tasks = A.ids ∧ E.tearing = E0.tearing := by
      intro s1 f he h1 h2 h3 hs
      rw [he, env?_setEnv_self _ _ _ h1, hs]
      exact ⟨_, rfl, h2 _, h3 _⟩
    exact key _ _ rfl (fun _ => rfl) (fun _ => rfl) (fun _ => rfl) hE0

/-- **acquireTasks in a state in which nothing refers to `k` yet establishes the bookkeeping
    hypotheses** of the clean-destroy theorems for `k` with the task list it has just been given;
    if every launched task came up, also `statusFaithful`. -/
theorem acquire_hyps (s : State) (k : EnvId) (spec : EnvSpec) (o : SettleOracle)
    (h : Inv s) (hp : ∀ p ∈ s.creating, p.id ≠ k) (hfr : freshEnv s k = true)
    (E0 : Env) (hE0 : s.env? k = some E0) (ht0 : E0.tearing = false) :
    ∃ E, (acquire s k spec [] o).s.env? k = some E ∧ E.tasks = (acquire s k spec [] o).ids ∧ E.tearing = false ∧
      envWf (acquire s k spec [] o).s k E.tasks = true ∧ (∀ h ∈ E.hooks, h.task ∈ E.tasks) ∧
      ((acquire s k spec [] o).deployOk = true → statusFaithful (acquire s k spec [] o).s E.tasks = true) := by
  have F := acquire_nil_facts s k spec o
  simp only [] at F
  obtain ⟨f1, f2, f3, f4, f5, f6, _, f8, f9⟩ := F
  have hinv : Inv (acquire s k spec [] o).s := inv_acquire_fn s k spec [] o h hp (by simp)
  obtain ⟨E, hE, hEt, hEtr⟩ := f9 E0 hE0
  obtain ⟨hEm, hEk⟩ := env?_some hE
  simp only [freshEnv, Bool.and_eq_true, List.all_eq_true, Bool.or_eq_true, decide_eq_true_eq] at hfr
  obtain ⟨⟨⟨g1, g2⟩, g3⟩, g4⟩ := hfr
  refine ⟨E, hE, hEt, hEtr.trans ht0, ?_, hinv.hooksSub E hEm, ?_⟩
  · simp only [envWf, Bool.and_eq_true, List.all_eq_true, Bool.or_eq_true, decide_eq_true_eq, List.any_eq_true]
    refine ⟨⟨⟨⟨⟨?_, ?_⟩, ?_⟩, ?_⟩, ?_⟩, ?_⟩
    · intro t' ht'
      rcases f1 t' ht' with hold | ⟨x, hx, hid, _, _⟩
      · left; exact g1 t' hold
      · right; rw [hEt, hid]; exact f4 x hx
    · intro t' ht'
      by_cases hin : t'.id ∈ E.tasks
      · right
        have := hinv.owned E hEm (hEtr.trans ht0) t' ht' hin
        rw [this, hEk]
      · left; exact hin
    · intro m' hm'
      rcases f3 m' hm' with hold | ⟨x, hx, hid, _⟩
      · left; exact g2 m' hold
      · right
        refine ⟨by rw [hEt, hid]; exact f4 x hx, Or.inr ?_⟩
        obtain ⟨t', ht', hte⟩ := f2 x hx
        exact ⟨t', ht', by rw [hte, hid]⟩
    · exact hinv.rosterNodup
    · intro X' hX'
      obtain ⟨X, hX, a1, a2, a3, a4⟩ := f8 X' hX'
      rw [a1, a2, a3, a4]
      exact g4 X hX
    · intro d hd
      rw [f6] at hd
      exact g3 d hd
  · intro hdep
    simp only [statusFaithful, List.all_eq_true, Bool.or_eq_true, decide_eq_true_eq]
    intro t' ht'
    rcases f1 t' ht' with hold | ⟨x, hx, _, _, hact⟩
    · left; left
      intro hin
      rw [hEt] at hin
      have h1 := f5 _ hin
      have h2 := h.fresh t' hold
      nomega
    · left; right; exact hact hdep

/-- A listed environment is the one `env?` finds under its id (ids are unique). -/
theorem env?_of_mem {s : State} (h : Inv s) (E : Env) (hE : E ∈ s.envs) : s.env? E.id = some E := by
  cases hf : s.env? E.id with
  | none =>
    unfold State.env? at hf
    have := List.find?_eq_none.mp hf E hE
    simp at this
  | some E' =>
    obtain ⟨hm, hid⟩ := env?_some hf
    rw [eq_of_nodup_map (·.id) s.envs h.envNodup hm hE hid]

/-- What DEPLOY leaves behind when it succeeds, for a creation that was inserted in a state in
    which nothing referred to `k` yet (no reuse of unlocked tasks). -/
theorem deploy_ok_hyps (s : State) (k : EnvId) (o : SettleOracle) (h : Inv s) (hr : s.reuse = false)
    (hfr : freshEnv s k = true) (s1 : State) (m : Mid) (r : Res)
    (hd : settleDeploy s k o = (s1, some m, r)) (hok : m.res = .noop) :
    m.k = k ∧ m.lost = o.lost ∧ s1.cfg = s.cfg ∧
    ∃ E, s1.env? k = some E ∧ E.tasks = m.ids ∧ E.tearing = false ∧
      envWf s1 k E.tasks = true ∧ (∀ h ∈ E.hooks, h.task ∈ E.tasks) ∧ statusFaithful s1 E.tasks = true := by
  unfold settleDeploy at hd
  cases hp : s.pending? k true with
  | none => rw [hp] at hd; simp at hd
  | some p =>
    rw [hp] at hd
    simp only [] at hd
    obtain ⟨hpm, hpid, hpins⟩ := pending?_some hp
    have hinv := inv_dropPending s k h
    have hpk : ∀ q ∈ (dropPending s k).creating, q.id ≠ k := by
      intro q hq
      have := (List.mem_filter.mp hq).2
      simpa using this
    have hcl : claimsOf (dropPending s k) p = [] := by
      unfold claimsOf; rw [h.pendClaims p hpm]
      unfold computeClaims
      have : (dropPending s k).reuse = false := hr
      simp [this]
    obtain ⟨E0, hE0m, hE0id, _, _, hE0t⟩ := h.pendListed p hpm hpins
    have hE0 : (dropPending s k).env? k = some E0 := by
      have := env?_of_mem h E0 hE0m
      rw [hE0id, hpid] at this
      exact this
    split at hd
    · -- no offer for a wanted host: the deployment is given up
      injection hd with _ hd; injection hd with hd _; injection hd with hd; subst hd
      simp at hok
    · split at hd
      · injection hd with _ hd; injection hd with hd _; simp at hd
      · split at hd
        · -- a launched task cannot be locked: DEPLOY fails
          injection hd with _ hd; injection hd with hd _; injection hd with hd; subst hd
          simp at hok
        rw [hcl] at hd
        injection hd with hs1 hd; injection hd with hm _; injection hm with hm
        subst hs1; subst hm
        simp only [] at hok ⊢
        have hdep : (acquire (dropPending s k) k p.spec [] o).deployOk = true := by
          by_cases hdd : (acquire (dropPending s k) k p.spec [] o).deployOk = true
          · exact hdd
          · simp [hdd] at hok
        obtain ⟨E, hE, hEt, hEtr, hwf, hhk, hfa⟩ := acquire_hyps (dropPending s k) k p.spec o hinv hpk hfr E0 hE0 hE0t
        refine ⟨?_, ?_, ?_, E, hE, hEt, hEtr, hwf, hhk, hfa hdep⟩ <;> first | rfl | trivial

/-- `started` and `pending` grow together when the before_CONFIGURE calls are started: the
    hypotheses of the clean-destroy theorems do not notice. -/
theorem hyps_setEnv_calls (s : State) (k : EnvId) (c : Nat) (k' : EnvId) (tasks : List TaskId) (hooks : List HookRef) :
    envWf (setEnv s k (fun X => { X with pending := X.pending + c, started := X.started + c })) k' tasks = envWf s k' tasks ∧
    statusFaithful (setEnv s k (fun X => { X with pending := X.pending + c, started := X.started + c })) tasks = statusFaithful s tasks ∧
    hooksOk (setEnv s k (fun X => { X with pending := X.pending + c, started := X.started + c })) hooks = hooksOk s hooks := by
  refine ⟨?_, rfl, rfl⟩
  simp only [envWf, setEnv, List.all_map]
  congr 2
  congr 1
  funext X
  by_cases hk : X.id = k
  · simp only [Function.comp, hk, if_true]
    by_cases hkk : k = k'
    · simp [hkk]; omega
    · simp [hkk]
  · simp [Function.comp, hk]

/-- What CONFIGURE leaves behind when it succeeds (no executor or agent lost meanwhile). -/
theorem configure_ok_hyps (s1 : State) (m : Mid) (hl : m.lost = []) (E : Env)
    (hE : s1.env? m.k = some E) (hwf : envWf s1 m.k E.tasks = true) (hhk : ∀ h ∈ E.hooks, h.task ∈ E.tasks)
    (hfa : statusFaithful s1 E.tasks = true) (hok : (settleConfigure s1 m).2.res = .okState .CONFIGURED) :
    (settleConfigure s1 m).1.cfg = s1.cfg ∧
    ∃ E', (settleConfigure s1 m).1.env? m.k = some E' ∧ E'.tasks = E.tasks ∧ E'.hooks = E.hooks ∧ E'.tearing = E.tearing ∧
      envWf (settleConfigure s1 m).1 m.k E'.tasks = true ∧ (∀ h ∈ E'.hooks, h.task ∈ E'.tasks) ∧
      statusFaithful (settleConfigure s1 m).1 E'.tasks = true := by
  unfold settleConfigure at hok ⊢
  rw [hE] at hok ⊢
  simp only [hl, lostAll_nil] at hok ⊢
  split at hok
  · rename_i hr2
    simp only [hr2, if_true]
    -- the three changes: task states, call counters, environment state
    have so1 := sameOwn_applyTrans s1 { E with state := .DEPLOYED } .CONFIGURE m.fails
    obtain ⟨E1, hE1, _, t1, h1, r1⟩ := env?_sameOwn so1 m.k E hE
    obtain ⟨a1, a2, _⟩ := hyps_transfer so1 m.k E.tasks E.hooks
    obtain ⟨b1, b2, _⟩ := hyps_setEnv_calls (applyTrans s1 { E with state := .DEPLOYED } .CONFIGURE m.fails).1 m.k (callCount m.spec) m.k E.tasks E.hooks
    have hE2 := env?_setEnv_self (applyTrans s1 { E with state := .DEPLOYED } .CONFIGURE m.fails).1 m.k
      (fun X => { X with pending := X.pending + callCount m.spec, started := X.started + callCount m.spec }) (fun _ => rfl)
    rw [hE1] at hE2
    have so3 := sameOwn_setEnv_state (setEnv (applyTrans s1 { E with state := .DEPLOYED } .CONFIGURE m.fails).1 m.k
      (fun X => { X with pending := X.pending + callCount m.spec, started := X.started + callCount m.spec })) m.k .CONFIGURED
    obtain ⟨E3, hE3, _, t3, h3, r3⟩ := env?_sameOwn so3 m.k _ hE2
    obtain ⟨c1, c2, _⟩ := hyps_transfer so3 m.k E.tasks E.hooks
    refine ⟨so3.cfg.trans so1.cfg, E3, hE3, t3.trans t1, h3.trans h1, r3.trans r1, ?_, ?_, ?_⟩
    · rw [t3, t1, c1, b1, a1]; exact hwf
    · rw [h3, h1, t3, t1]; exact hhk
    · rw [t3, t1, c2, b2, a2]; exact hfa
  · simp at hok

theorem settleDeploy_res (s : State) (k : EnvId) (o : SettleOracle) (s1 : State) (om : Option Mid) (r : Res)
    (hd : settleDeploy s k o = (s1, om, r)) :
    (om = none ∧ (r = .noop ∨ r = .crash)) ∨ (∃ m, om = some m ∧ (m.res = .noop ∨ m.res = .errDeploy)) := by
  unfold settleDeploy at hd
  split at hd
  · injection hd with _ hd; injection hd with h1 h2
    left; exact ⟨h1.symm, Or.inl h2.symm⟩
  · simp only [] at hd
    split at hd
    · injection hd with _ hd; injection hd with h1 _
      right; exact ⟨_, h1.symm, Or.inr rfl⟩
    · split at hd
      · injection hd with _ hd; injection hd with h1 h2
        left; exact ⟨h1.symm, Or.inr h2.symm⟩
      · split at hd
        · injection hd with _ hd; injection hd with h1 _
          right; exact ⟨_, h1.symm, Or.inr rfl⟩
        · injection hd with _ hd; injection hd with h1 _
          right
          refine ⟨_, h1.symm, ?_⟩
          simp only []
          split
          · right; rfl
          · left; rfl

theorem settleTail_res (s : State) (m : Mid) : (settleTail s m).2 = .hang ∨ (settleTail s m).2 = m.res := by
  unfold settleTail settleKill
  simp only []
  split
  · left; rfl
  · right; rfl

theorem settleConfigure_res (s : State) (m : Mid) :
    (settleConfigure s m).2.res = .okState .CONFIGURED ∨ (settleConfigure s m).2.res = .errConfigure := by
  unfold settleConfigure
  split
  · right; rfl
  · simp only []
    split
    · left; rfl
    · right; rfl

/-- **A creation that succeeds, having been inserted in a state in which nothing referred to `k`
    yet, establishes the hypotheses of the clean-destroy theorems** (`envWf`, hooks among the
    tasks, `statusFaithful`) — no reuse of unlocked tasks, no executor / agent lost while the
    tasks are configured (those cases have their own theorems: `C04_full_claim_times_out`,
    `C06_loss_keeps_hypotheses`). -/
theorem settle_ok_hyps (s : State) (k : EnvId) (o : SettleOracle) (h : Inv s) (hr : s.reuse = false)
    (hfr : freshEnv s k = true) (hl : o.lost = []) (hok : (createSettle s k o).2 = .okState .CONFIGURED) :
    (createSettle s k o).1.cfg = s.cfg ∧
    ∃ E, (createSettle s k o).1.env? k = some E ∧ E.tearing = false ∧
      envWf (createSettle s k o).1 k E.tasks = true ∧ (∀ h ∈ E.hooks, h.task ∈ E.tasks) ∧
      statusFaithful (createSettle s k o).1 E.tasks = true := by
  rw [← settle_pieces_inv s k o h] at hok ⊢
  unfold settleSeq at hok ⊢
  rcases hd : settleDeploy s k o with ⟨s1, om, r⟩
  rw [hd] at hok
  rcases settleDeploy_res s k o s1 om r hd with ⟨rfl, hrr⟩ | ⟨m, rfl, hmr⟩
  · simp only [] at hok
    rcases hrr with rfl | rfl <;> simp at hok
  · simp only [] at hok ⊢
    by_cases hm : m.res = .noop
    · simp only [hm, if_true] at hok ⊢
      obtain ⟨hmk, hml, hcfg, E, hE, _, hEtr, hwf, hhk, hfa⟩ := deploy_ok_hyps s k o h hr hfr s1 m r hd hm
      by_cases hc : (settleConfigure s1 m).2.res = .okState .CONFIGURED
      · simp only [hc, if_true] at hok ⊢
        subst hmk
        obtain ⟨c0, E', hE', _, _, t3, w, hk', f⟩ := configure_ok_hyps s1 m (hml.trans hl) E hE hwf hhk hfa hc
        exact ⟨c0.trans hcfg, E', hE', t3.trans hEtr, w, hk', f⟩
      · simp only [hc, if_false] at hok
        rcases settleTail_res (settleConfigure s1 m).1 (settleConfigure s1 m).2 with ht | ht
        · rw [ht] at hok; simp at hok
        · rw [ht] at hok; exact absurd hok hc
    · simp only [hm, if_false] at hok
      rcases settleTail_res s1 m with ht | ht
      · rw [ht] at hok; simp at hok
      · rw [ht] at hok
        rcases hmr with h1 | h1
        · exact absurd h1 hm
        · rw [h1] at hok; simp at hok

/-! ### the first three steps of a creation keep `freshEnv` -/

theorem freshEnv_of_sub {s s' : State} (k : EnvId) (h : freshEnv s k = true)
    (hr : ∀ t ∈ s'.roster, t ∈ s.roster)
    (hm : ∀ m' ∈ s'.master, ∃ m ∈ s.master, m'.label = m.label)
    (hd : s'.dead = s.dead)
    (he : ∀ X ∈ s'.envs, X ∈ s.envs ∨ (X.started = X.cancelled + X.pending)) : freshEnv s' k = true := by
  simp only [freshEnv, Bool.and_eq_true, List.all_eq_true, Bool.or_eq_true, decide_eq_true_eq] at h ⊢
  obtain ⟨⟨⟨g1, g2⟩, g3⟩, g4⟩ := h
  refine ⟨⟨⟨fun t ht => g1 t (hr t ht), ?_⟩, by rw [hd]; exact g3⟩, ?_⟩
  · intro m' hm'
    obtain ⟨m, hmm, e⟩ := hm m' hm'
    rw [e]; exact g2 m hmm
  · intro X hX
    rcases he X hX with h1 | h1
    · exact g4 X h1
    · right; exact h1

theorem freshEnv_doKill (s : State) (toKill : List Task) (hsub : List.Sublist toKill s.roster) (k : EnvId)
    (h : freshEnv s k = true) : freshEnv (doKill s toKill) k = true := by
  apply freshEnv_of_sub k h
  · intro t ht; exact mem_doKill_roster hsub ht
  · intro m' hm'
    simp only [doKill, killMany] at hm'
    obtain ⟨m, hm, rfl⟩ := List.mem_map.mp hm'
    refine ⟨m, hm, ?_⟩
    split <;> rfl
  · rfl
  · intro X hX; left; exact hX

theorem freshEnv_prefix_step (s : State) (k : EnvId) (spec : EnvSpec) (st : Step)
    (hst : st = .createBegin k spec ∨ st = .createCleanup k ∨ st = .createInsert k)
    (h : freshEnv s k = true) : freshEnv (step s st).1 k = true := by
  unfold step
  split
  · exact h
  rcases hst with rfl | rfl | rfl
  · simp only [createBegin]
    split
    · exact h
    · split <;> exact freshEnv_of_sub k h (fun _ ht => ht) (fun m hm => ⟨m, hm, rfl⟩) rfl (fun _ hX => Or.inl hX)
  · simp only [createCleanup]
    split
    · exact freshEnv_of_sub k (freshEnv_doKill s _ List.filter_sublist k h) (fun _ ht => ht) (fun m hm => ⟨m, hm, rfl⟩) rfl (fun _ hX => Or.inl hX)
    · exact h
  · simp only [createInsert]
    split
    · exact h
    · split
      · exact freshEnv_of_sub k h (fun _ ht => ht) (fun m hm => ⟨m, hm, rfl⟩) rfl (fun _ hX => Or.inl hX)
      · split
        · exact freshEnv_of_sub k h (fun _ ht => ht) (fun m hm => ⟨m, hm, rfl⟩) rfl (fun _ hX => Or.inl hX)
        · refine freshEnv_of_sub k h ?_ ?_ ?_ ?_
          · intro _ ht; exact ht
          · intro m hm; exact ⟨m, hm, rfl⟩
          · rfl
          intro X hX
          rcases List.mem_append.mp hX with h1 | h1
          · left; exact h1
          · right
            simp only [List.mem_singleton] at h1
            subst h1
            rfl

theorem freshEnv_prefix (s : State) (k : EnvId) (spec : EnvSpec) (h : freshEnv s k = true) :
    freshEnv (run s [.createBegin k spec, .createCleanup k, .createInsert k]) k = true := by
  simp only [run]
  exact freshEnv_prefix_step _ k spec _ (Or.inr (Or.inr rfl))
    (freshEnv_prefix_step _ k spec _ (Or.inr (Or.inl rfl)) (freshEnv_prefix_step _ k spec _ (Or.inl rfl) h))

end Own

namespace Own

/-! ### two creations whose DEPLOY sections overlap -/

/-- `settleDeploy` followed by `settleRest` is the creation settled in one go. -/
theorem settleRest_seq (s : State) (k : EnvId) (o : SettleOracle) :
    settleSeq s k o = match settleDeploy s k o with
      | (s1, none, r) => (s1, r)
      | (s1, some m, _) => settleRest s1 m := by
  unfold settleSeq
  split
  · rename_i heq; rw [heq]
  · rename_i heq; rw [heq]; rfl

theorem settleDeploy_facts (s : State) (k : EnvId) (o : SettleOracle) (h : Inv s) :
    Inv (settleDeploy s k o).1 ∧
    (∀ m, (settleDeploy s k o).2.1 = some m → m.k = k ∧ ∀ p ∈ (settleDeploy s k o).1.creating, p.id ≠ k) ∧
    (∀ p ∈ (settleDeploy s k o).1.creating, p ∈ s.creating) := by
  unfold settleDeploy
  split
  · exact ⟨h, fun m hm => by simp at hm, fun p hp => hp⟩
  · rename_i p hpk
    obtain ⟨hpm, _, _⟩ := pending?_some hpk
    have hd := inv_dropPending s k h
    have hp : ∀ q ∈ (dropPending s k).creating, q.id ≠ k := by
      intro q hq
      have := (List.mem_filter.mp hq).2
      simpa using this
    have hsub : ∀ q ∈ (dropPending s k).creating, q ∈ s.creating := fun q hq => (List.mem_filter.mp hq).1
    simp only []
    split
    · exact ⟨hd, fun m hm => by simp only [Option.some.injEq] at hm; subst hm; exact ⟨rfl, hp⟩, hsub⟩
    · have hcl : claimsOf (dropPending s k) p = computeClaims (dropPending s k) p.spec := by
        unfold claimsOf; rw [h.pendClaims p hpm]
      rw [hcl]
      split
      · exact ⟨inv_congr hd rfl rfl rfl rfl rfl, fun m hm => by simp at hm, hsub⟩
      · split
        · exact ⟨inv_acquireUnlocked _ k _ o hd,
            fun m hm => by simp only [Option.some.injEq] at hm; subst hm; exact ⟨rfl, hp⟩, hsub⟩
        · have ha := inv_acquire_fn (dropPending s k) k p.spec (computeClaims (dropPending s k) p.spec) o hd hp (computeClaims_sound _ _)
          refine ⟨ha, fun m hm => ?_, ?_⟩
          · simp only [Option.some.injEq] at hm; subst hm
            exact ⟨rfl, by rw [acquire_creating]; exact hp⟩
          · rw [acquire_creating]; exact hsub

theorem inv_settleRest (s : State) (m : Mid) (h : Inv s) (hp : ∀ p ∈ s.creating, p.id ≠ m.k) :
    Inv (settleRest s m).1 ∧ (settleRest s m).1.creating = s.creating := by
  have htail : ∀ (s' : State) (m' : Mid), m'.k = m.k → Inv s' → s'.creating = s.creating →
      Inv (settleTail s' m').1 ∧ (settleTail s' m').1.creating = s.creating := by
    intro s' m' hk h' hc
    rw [settleTail_eq]
    refine ⟨inv_createFail s' m'.k m'.ids m'.late m'.res m'.hf h' (by rw [hc, hk]; exact hp), ?_⟩
    unfold createFail
    simp only []
    split
    · rw [teardown_creating]; exact hc
    · rw [killTasks_creating, teardown_creating]; exact hc
  unfold settleRest
  split
  · -- CONFIGURE
    have hcfg : Inv (settleConfigure s m).1 ∧ (settleConfigure s m).1.creating = s.creating ∧ (settleConfigure s m).2.k = m.k := by
      unfold settleConfigure
      split
      · exact ⟨h, rfl, rfl⟩
      · rename_i E _
        simp only []
        have h3 : Inv (lostAll (setEnv (applyTrans s { E with state := .DEPLOYED } .CONFIGURE m.fails).1 m.k
            (fun X => { X with pending := X.pending + callCount m.spec, started := X.started + callCount m.spec })) m.lost) :=
          inv_lostAll _ _ (inv_setEnv _ _ _ (inv_applyTrans s _ _ _ h) (fun _ => ⟨rfl, rfl, rfl, rfl⟩))
        have hc3 : (lostAll (setEnv (applyTrans s { E with state := .DEPLOYED } .CONFIGURE m.fails).1 m.k
            (fun X => { X with pending := X.pending + callCount m.spec, started := X.started + callCount m.spec })) m.lost).creating = s.creating :=
          (lostAll_frame _ _).2.1
        split
        · exact ⟨inv_setEnv_state _ _ _ h3, hc3, rfl⟩
        · exact ⟨h3, hc3, rfl⟩
    simp only []
    split
    · exact ⟨hcfg.1, hcfg.2.1⟩
    · exact htail _ _ hcfg.2.2 hcfg.1 hcfg.2.1
  · exact htail s m rfl h rfl

/-- **Every state two overlapping creations pass through satisfies the invariant** — if the claims are made inside
    the DEPLOY sections (`Inv`: no pending creation carries claims of a free-standing claim step): the second
    DEPLOY then finds the task the first one took locked, and does not claim it. -/
theorem inv_settleOverlapStates (s : State) (k1 k2 : EnvId) (o1 o2 : SettleOracle) (b : Bool) (h : Inv s) :
    ∀ st ∈ settleOverlapStates s k1 k2 o1 o2 b, Inv st := by
  obtain ⟨i1, f1, c1⟩ := settleDeploy_facts s k1 o1 h
  unfold settleOverlapStates
  split
  · rename_i s1 m1 r1 heq
    have e1 : (settleDeploy s k1 o1).1 = s1 := by rw [heq]
    have e2 : (settleDeploy s k1 o1).2.1 = some m1 := by rw [heq]
    rw [e1] at i1 f1 c1
    obtain ⟨hk1, hp1⟩ := f1 m1 e2
    obtain ⟨i2, f2, c2⟩ := settleDeploy_facts s1 k2 o2 i1
    split
    · rename_i s2 m2 r2 heq2
      have e3 : (settleDeploy s1 k2 o2).1 = s2 := by rw [heq2]
      have e4 : (settleDeploy s1 k2 o2).2.1 = some m2 := by rw [heq2]
      rw [e3] at i2 f2 c2
      obtain ⟨hk2, hp2⟩ := f2 m2 e4
      have hp21 : ∀ p ∈ s2.creating, p.id ≠ m1.k := fun p hp => by rw [hk1]; exact hp1 p (c2 p hp)
      have hp22 : ∀ p ∈ s2.creating, p.id ≠ m2.k := fun p hp => by rw [hk2]; exact hp2 p hp
      split
      · obtain ⟨a1, a2⟩ := inv_settleRest s2 m1 i2 hp21
        obtain ⟨b1, _⟩ := inv_settleRest (settleRest s2 m1).1 m2 a1 (by rw [a2]; exact hp22)
        intro st hst
        simp only [List.mem_cons, List.mem_nil_iff, or_false] at hst
        rcases hst with rfl | rfl | rfl | rfl
        · exact i1
        · exact i2
        · exact a1
        · exact b1
      · obtain ⟨a1, a2⟩ := inv_settleRest s2 m2 i2 hp22
        obtain ⟨b1, _⟩ := inv_settleRest (settleRest s2 m2).1 m1 a1 (by rw [a2]; exact hp21)
        intro st hst
        simp only [List.mem_cons, List.mem_nil_iff, or_false] at hst
        rcases hst with rfl | rfl | rfl | rfl
        · exact i1
        · exact i2
        · exact a1
        · exact b1
    · rename_i s2 r2 heq2
      have e3 : (settleDeploy s1 k2 o2).1 = s2 := by rw [heq2]
      rw [e3] at i2 c2
      have hp21 : ∀ p ∈ s2.creating, p.id ≠ m1.k := fun p hp => by rw [hk1]; exact hp1 p (c2 p hp)
      obtain ⟨a1, _⟩ := inv_settleRest s2 m1 i2 hp21
      intro st hst
      simp only [List.mem_cons, List.mem_nil_iff, or_false] at hst
      rcases hst with rfl | rfl | rfl
      · exact i1
      · exact i2
      · exact a1
  · rename_i s1 r1 heq
    have e1 : (settleDeploy s k1 o1).1 = s1 := by rw [heq]
    rw [e1] at i1
    intro st hst
    simp only [List.mem_cons, List.mem_nil_iff, or_false] at hst
    subst hst
    exact i1

end Own
