/-
  Proofs/Placement — lemmas behind the C05 property theorems (core Lean only).
-/
import ControlModel.Model.Placement
import ControlModel.Spec.C05

namespace Placement

/-! ## constraints -/

theorem satisfy_sound (as : Attrs) (cts : Constraints) (h : satisfy as cts = true) :
    ∀ c ∈ cts, holds as c = true := by
  intro c hc
  unfold satisfy at h
  cases cts with
  | nil => cases hc
  | cons d ds =>
    simp only [List.isEmpty_cons, Bool.false_or, Bool.and_eq_true, List.all_eq_true] at h
    exact h.1 c hc

theorem satisfy_iff (as : Attrs) (cts : Constraints) :
    satisfy as cts = true ↔ cts = [] ∨ ((∀ c ∈ cts, holds as c = true) ∧ ∃ c ∈ cts, c.op = 0) := by
  unfold satisfy
  cases cts with
  | nil => simp
  | cons d ds =>
    simp only [List.isEmpty_cons, Bool.false_or, Bool.and_eq_true, List.all_eq_true, List.any_eq_true,
      decide_eq_true_eq, reduceCtorEq, false_or]

/-- the coded loop returns the verdict of the LAST Equals constraint (or the start value) -/
theorem satLoop_append (as : Attrs) (ok : Bool) (xs : Constraints) (c : Constraint) :
    satLoop as ok (xs ++ [c]) = if c.op = 0 then holds as c else satLoop as ok xs := by
  induction xs generalizing ok with
  | nil => simp [satLoop]
  | cons x xs ih =>
    simp only [List.cons_append, satLoop]
    split <;> exact ih _

/-! ## MergeParent -/

theorem lookupC_upsert (m : Constraints) (c : Constraint) (a : String) :
    lookupC (upsert m c) a = if c.attr = a then some c else lookupC m a := by
  induction m with
  | nil => simp [upsert, lookupC, List.find?]
  | cons p rest ih =>
    unfold lookupC at ih ⊢
    simp only [upsert]
    by_cases hcp : c.attr = p.attr
    · simp only [hcp, if_true, List.find?]
      by_cases hpa : p.attr = a
      · simp [hpa]
      · simp [hpa]
    · simp only [hcp, if_false, List.find?]
      by_cases hpa : p.attr = a
      · have : ¬ c.attr = a := fun h => hcp (h.trans hpa.symm)
        simp [hpa, this]
      · simp only [hpa, decide_false]
        exact ih

theorem lookupC_foldl_upsert (cts : Constraints) (parent : Constraints) (a : String) :
    lookupC (cts.foldl upsert parent) a =
      (match lastDef cts a with | some c => some c | none => lookupC parent a) := by
  induction cts generalizing parent with
  | nil => simp [lastDef]
  | cons c rest ih =>
    simp only [List.foldl_cons, lastDef]
    rw [ih]
    cases h : lastDef rest a with
    | some d => simp
    | none =>
      simp only [lookupC_upsert]
      by_cases hca : c.attr = a <;> simp [hca]

/-- one merge: the child's (last) definition of an attribute decides, else the parent's -/
theorem lookupC_mergeParent (child parent : Constraints) (a : String) :
    lookupC (mergeParent child parent) a =
      (match lastDef child a with | some c => some c | none => lookupC parent a) :=
  lookupC_foldl_upsert child parent a

theorem lookupC_effective (chain : List Constraints) (a : String) :
    lookupC (effective chain) a = nearestDef chain a := by
  induction chain with
  | nil => simp [effective, nearestDef, lookupC]
  | cons own rest ih =>
    cases rest with
    | nil => simp [effective, nearestDef]
    | cons r rs =>
      simp only [effective, nearestDef]
      rw [lookupC_mergeParent, ih]
      cases lastDef own a <;> rfl

/-! ### no duplicates -/

def hasAttr (m : Constraints) (a : String) : Bool := m.any (fun d => d.attr = a)

theorem hasAttr_upsert (m : Constraints) (c : Constraint) (a : String) :
    hasAttr (upsert m c) a = (hasAttr m a || decide (c.attr = a)) := by
  induction m with
  | nil => simp [upsert, hasAttr]
  | cons p rest ih =>
    unfold hasAttr at ih ⊢
    simp only [upsert]
    by_cases hcp : c.attr = p.attr
    · simp only [hcp, if_true, List.any_cons]
      by_cases hpa : p.attr = a <;> simp [hpa]
    · simp only [hcp, if_false, List.any_cons, ih, Bool.or_assoc]

theorem noDupAttr_upsert (m : Constraints) (c : Constraint) (h : noDupAttr m = true) :
    noDupAttr (upsert m c) = true := by
  induction m with
  | nil => simp [upsert, noDupAttr]
  | cons p rest ih =>
    simp only [noDupAttr, Bool.and_eq_true, Bool.not_eq_true'] at h
    simp only [upsert]
    by_cases hcp : c.attr = p.attr
    · simp only [hcp, if_true, noDupAttr, Bool.and_eq_true, Bool.not_eq_true']
      exact ⟨h.1, h.2⟩
    · simp only [hcp, if_false, noDupAttr, Bool.and_eq_true, Bool.not_eq_true']
      refine ⟨?_, ih h.2⟩
      have := hasAttr_upsert rest c p.attr
      unfold hasAttr at this
      rw [this, h.1]
      simp [hcp]

theorem noDupAttr_mergeParent (child parent : Constraints) (h : noDupAttr parent = true) :
    noDupAttr (mergeParent child parent) = true := by
  unfold mergeParent
  induction child generalizing parent with
  | nil => exact h
  | cons c rest ih => exact ih _ (noDupAttr_upsert parent c h)

theorem noDupAttr_effective (chain : List Constraints) (h : ∀ l ∈ chain, noDupAttr l = true) :
    noDupAttr (effective chain) = true := by
  induction chain with
  | nil => rfl
  | cons own rest ih =>
    cases rest with
    | nil => exact h own (by simp)
    | cons r rs =>
      simp only [effective]
      exact noDupAttr_mergeParent _ _ (ih (fun l hl => h l (by simp [hl])))

/-- with no duplicates, the first entry for an attribute is the only one -/
theorem noDup_unique (m : Constraints) (h : noDupAttr m = true) (c : Constraint) (hc : c ∈ m) :
    lookupC m c.attr = some c := by
  induction m with
  | nil => cases hc
  | cons p rest ih =>
    simp only [noDupAttr, Bool.and_eq_true, Bool.not_eq_true'] at h
    unfold lookupC
    simp only [List.find?]
    cases hc with
    | head => simp
    | tail _ hc' =>
      have hne : ¬ p.attr = c.attr := by
        intro heq
        have : rest.any (fun d => decide (d.attr = p.attr)) = true := by
          simp only [List.any_eq_true, decide_eq_true_eq]
          exact ⟨c, hc', heq.symm⟩
        rw [this] at h
        exact absurd h.1 (by simp)
      simp only [hne, decide_false]
      exact ih h.2 hc'

/-! ## port ranges -/

theorem memR_iff (p : Nat) (r : Range) : memR p r = true ↔ r.1 ≤ p ∧ p ≤ r.2 := by
  simp [memR]

theorem mem_cons (p : Nat) (r : Range) (rs : Ranges) : mem p (r :: rs) = (memR p r || mem p rs) := by
  simp [mem]

theorem mem_nil (p : Nat) : mem p [] = false := rfl

theorem mem_append (p : Nat) (xs ys : Ranges) : mem p (xs ++ ys) = (mem p xs || mem p ys) := by
  simp [mem]

theorem mem_insertR (p : Nat) (r : Range) (rs : Ranges) : mem p (insertR r rs) = (memR p r || mem p rs) := by
  induction rs with
  | nil => simp [insertR, mem]
  | cons x xs ih =>
    simp only [insertR]
    split
    · rw [mem_cons, ih, mem_cons]; cases memR p x <;> cases memR p r <;> simp
    · simp [mem_cons]

theorem mem_sortR (p : Nat) (rs : Ranges) : mem p (sortR rs) = mem p rs := by
  induction rs with
  | nil => rfl
  | cons r rs ih => simp [sortR, mem_insertR, ih, mem_cons]

theorem valid_cons (r : Range) (rs : Ranges) : Valid (r :: rs) = (decide (r.1 ≤ r.2) && Valid rs) := by
  simp [Valid]

theorem valid_insertR (r : Range) (rs : Ranges) : Valid (insertR r rs) = (decide (r.1 ≤ r.2) && Valid rs) := by
  induction rs with
  | nil => simp [insertR, Valid]
  | cons x xs ih =>
    simp only [insertR]
    split
    · rw [valid_cons, ih, valid_cons]
      cases decide (x.1 ≤ x.2) <;> cases decide (r.1 ≤ r.2) <;> simp
    · simp [valid_cons]

theorem valid_sortR (rs : Ranges) : Valid (sortR rs) = Valid rs := by
  induction rs with
  | nil => rfl
  | cons r rs ih => simp [sortR, valid_insertR, ih, valid_cons]

/-- sorted by begin -/
def SortedB : Ranges → Bool
  | [] => true
  | [_] => true
  | r :: s :: rest => decide (r.1 ≤ s.1) && SortedB (s :: rest)

/-- every begin in the list is ≥ lo -/
def lbAll (lo : Nat) (rs : Ranges) : Bool := rs.all (fun r => decide (lo ≤ r.1))

theorem sortedB_cons (r : Range) (rs : Ranges) :
    SortedB (r :: rs) = true ↔ (lbAll r.1 rs = true ∧ SortedB rs = true) := by
  induction rs generalizing r with
  | nil => simp [SortedB, lbAll]
  | cons s rest ih =>
    simp only [SortedB, Bool.and_eq_true, decide_eq_true_eq, lbAll, List.all_cons]
    rw [ih s]
    constructor
    · rintro ⟨h1, h2, h3⟩
      refine ⟨⟨h1, ?_⟩, h2, h3⟩
      simp only [lbAll, List.all_eq_true, decide_eq_true_eq] at h2 ⊢
      intro x hx; exact Nat.le_trans h1 (h2 x hx)
    · rintro ⟨⟨h1, _⟩, h2, h3⟩
      exact ⟨h1, h2, h3⟩

theorem lbAll_insertR (lo : Nat) (r : Range) (rs : Ranges) :
    lbAll lo (insertR r rs) = (decide (lo ≤ r.1) && lbAll lo rs) := by
  induction rs with
  | nil => simp [insertR, lbAll]
  | cons x xs ih =>
    simp only [insertR]
    split
    · unfold lbAll at ih ⊢
      simp only [List.all_cons, ih]
      cases decide (lo ≤ x.1) <;> cases decide (lo ≤ r.1) <;> simp
    · simp [lbAll]

theorem sortedB_insertR (r : Range) (rs : Ranges) (h : SortedB rs = true) : SortedB (insertR r rs) = true := by
  induction rs with
  | nil => simp [insertR, SortedB]
  | cons x xs ih =>
    rw [sortedB_cons] at h
    simp only [insertR]
    split
    · rename_i hl
      rw [sortedB_cons, lbAll_insertR]
      refine ⟨?_, ih h.2⟩
      simp only [Bool.and_eq_true, decide_eq_true_eq]
      refine ⟨?_, h.1⟩
      simp only [lessR, Bool.or_eq_true, Bool.and_eq_true, decide_eq_true_eq] at hl
      omega
    · rename_i hl
      rw [sortedB_cons]
      refine ⟨?_, (sortedB_cons x xs).2 h⟩
      simp only [lessR, Bool.or_eq_true, Bool.and_eq_true, decide_eq_true_eq] at hl
      have hrx : r.1 ≤ x.1 := by omega
      simp only [lbAll, List.all_cons, Bool.and_eq_true, decide_eq_true_eq]
      refine ⟨hrx, ?_⟩
      have := h.1
      simp only [lbAll, List.all_eq_true, decide_eq_true_eq] at this ⊢
      intro y hy; exact Nat.le_trans hrx (this y hy)

theorem sortedB_sortR (rs : Ranges) : SortedB (sortR rs) = true := by
  induction rs with
  | nil => rfl
  | cons r rs ih => exact sortedB_insertR r _ ih

theorem canonFrom_mono {lo lo' : Nat} (rs : Ranges) (h : CanonFrom lo rs = true) (hl : lo' ≤ lo) :
    CanonFrom lo' rs = true := by
  cases rs with
  | nil => rfl
  | cons r rs =>
    simp only [CanonFrom, Bool.and_eq_true, decide_eq_true_eq] at h ⊢
    exact ⟨⟨by omega, h.1.2⟩, h.2⟩

theorem canonFrom_valid {lo : Nat} (rs : Ranges) (h : CanonFrom lo rs = true) : Valid rs = true := by
  induction rs generalizing lo with
  | nil => rfl
  | cons r rs ih =>
    simp only [CanonFrom, Bool.and_eq_true, decide_eq_true_eq] at h
    rw [valid_cons]; simp [h.1.2, ih h.2]

/-- Squash on a begin-sorted list of valid ranges: canonical, same ports. -/
theorem squashAux_spec (cur : Range) (rest : Ranges)
    (hv : cur.1 ≤ cur.2) (hvr : Valid rest = true) (hs : SortedB (cur :: rest) = true) :
    CanonFrom cur.1 (squashAux cur rest) = true ∧
    ∀ p, mem p (squashAux cur rest) = (memR p cur || mem p rest) := by
  induction rest generalizing cur with
  | nil => simp [squashAux, CanonFrom, hv, mem]
  | cons r rest ih =>
    rw [valid_cons, Bool.and_eq_true, decide_eq_true_eq] at hvr
    have hs' := (sortedB_cons cur (r :: rest)).1 hs
    have hcr : cur.1 ≤ r.1 := by
      have := hs'.1; simp only [lbAll, List.all_cons, Bool.and_eq_true, decide_eq_true_eq] at this; exact this.1
    have hsr := (sortedB_cons r rest).1 hs'.2
    simp only [squashAux]
    split
    · rename_i hgap
      obtain ⟨c1, m1⟩ := ih r hvr.1 hvr.2 hs'.2
      refine ⟨?_, ?_⟩
      · simp only [CanonFrom, Bool.and_eq_true, decide_eq_true_eq]
        exact ⟨⟨Nat.le_refl _, hv⟩, canonFrom_mono _ c1 (by omega)⟩
      · intro p; rw [mem_cons, m1, mem_cons]
    · rename_i hgap
      split
      · rename_i hle
        have hsorted : SortedB ((cur.1, r.2) :: rest) = true := by
          rw [sortedB_cons]
          refine ⟨?_, hsr.2⟩
          have := hsr.1
          simp only [lbAll, List.all_eq_true, decide_eq_true_eq] at this ⊢
          intro y hy; exact Nat.le_trans hcr (this y hy)
        obtain ⟨c1, m1⟩ := ih (cur.1, r.2) (by simp; omega) hvr.2 hsorted
        refine ⟨c1, ?_⟩
        intro p; rw [m1, mem_cons]
        have : memR p (cur.1, r.2) = (memR p cur || memR p r) := by
          rw [Bool.eq_iff_iff]; simp only [Bool.or_eq_true, memR_iff]; omega
        rw [this, Bool.or_assoc]
      · rename_i hnle
        have hsorted : SortedB (cur :: rest) = true := by
          rw [sortedB_cons]
          refine ⟨?_, hsr.2⟩
          have := hsr.1
          simp only [lbAll, List.all_eq_true, decide_eq_true_eq] at this ⊢
          intro y hy; exact Nat.le_trans hcr (this y hy)
        obtain ⟨c1, m1⟩ := ih cur hv hvr.2 hsorted
        refine ⟨c1, ?_⟩
        intro p; rw [m1, mem_cons]
        have : (memR p cur || memR p r) = memR p cur := by
          rw [Bool.eq_iff_iff]; simp only [Bool.or_eq_true, memR_iff]; omega
        rw [← Bool.or_assoc, this]

theorem normalize_spec (rs : Ranges) (hv : Valid rs = true) :
    Canonical (normalize rs) = true ∧ ∀ p, mem p (normalize rs) = mem p rs := by
  unfold normalize Canonical
  have hv' : Valid (sortR rs) = true := by rw [valid_sortR]; exact hv
  have hs := sortedB_sortR rs
  have hm := fun p => mem_sortR p rs
  generalize sortR rs = xs at hv' hs hm
  cases xs with
  | nil => exact ⟨rfl, fun p => (hm p)⟩
  | cons r rest =>
    rw [valid_cons, Bool.and_eq_true, decide_eq_true_eq] at hv'
    obtain ⟨c, m⟩ := squashAux_spec r rest hv'.1 hv'.2 hs
    refine ⟨canonFrom_mono _ c (Nat.zero_le _), ?_⟩
    intro p
    simp only [squash]
    rw [m, ← mem_cons, hm]


/-! ### canonical lists are fixed points of Sort and Squash -/

theorem squashAux_canon {lo : Nat} (r : Range) (rs : Ranges) (h : CanonFrom lo (r :: rs) = true) :
    squashAux r rs = r :: rs := by
  induction rs generalizing r lo with
  | nil => rfl
  | cons s rest ih =>
    simp only [CanonFrom, Bool.and_eq_true, decide_eq_true_eq] at h
    have hgap : 1 + r.2 < s.1 := by omega
    simp only [squashAux, hgap, if_true]
    rw [ih (lo := r.2 + 2) s]
    simp only [CanonFrom, Bool.and_eq_true, decide_eq_true_eq]
    exact h.2

theorem squash_canon {lo : Nat} (rs : Ranges) (h : CanonFrom lo rs = true) : squash rs = rs := by
  cases rs with
  | nil => rfl
  | cons r rs => exact squashAux_canon r rs h

theorem sortR_canon {lo : Nat} (rs : Ranges) (h : CanonFrom lo rs = true) : sortR rs = rs := by
  induction rs generalizing lo with
  | nil => rfl
  | cons r rs ih =>
    simp only [CanonFrom, Bool.and_eq_true, decide_eq_true_eq] at h
    simp only [sortR]
    rw [ih h.2]
    cases rs with
    | nil => rfl
    | cons x xs =>
      have h2 := h.2
      simp only [CanonFrom, Bool.and_eq_true, decide_eq_true_eq] at h2
      have : lessR x r = false := by
        simp only [lessR, Bool.or_eq_false_iff, Bool.and_eq_false_iff, decide_eq_false_iff_not]
        omega
      simp [insertR, this]

theorem normalize_canon (rs : Ranges) (h : Canonical rs = true) : normalize rs = rs := by
  unfold normalize; unfold Canonical at h
  rw [sortR_canon rs h, squash_canon rs h]

/-! ### Remove -/

theorem bool_help (a b c x : Bool) (h : x = (a && !c)) : (x || (b && !c)) = ((a || b) && !c) := by
  subst h; cases a <;> cases b <;> cases c <;> rfl

theorem bool_help0 (a b c : Bool) (h : (a && !c) = false) : (b && !c) = ((a || b) && !c) := by
  cases a <;> cases b <;> cases c <;> simp_all

theorem mem_removeCore (p : Nat) (rem : Range) (rs : Ranges) (hr : rem.1 ≤ rem.2) :
    mem p (removeCore rem rs) = (mem p rs && !memR p rem) := by
  induction rs with
  | nil => rfl
  | cons r rs ih =>
    simp only [removeCore]
    split
    · rename_i h
      rw [ih, mem_cons]
      apply bool_help0
      rw [Bool.eq_false_iff]
      simp only [ne_eq, Bool.and_eq_true, Bool.not_eq_true', memR, Bool.and_eq_false_iff, decide_eq_true_eq,
        decide_eq_false_iff_not]
      omega
    · split
      · rename_i h1 h2
        rw [mem_cons, mem_cons, ih, mem_cons, ← Bool.or_assoc]
        apply bool_help
        rw [Bool.eq_iff_iff]
        simp only [Bool.or_eq_true, Bool.and_eq_true, Bool.not_eq_true', memR, Bool.and_eq_false_iff,
          decide_eq_true_eq, decide_eq_false_iff_not]
        omega
      · split
        · rename_i h1 h2 h3
          rw [mem_cons, ih, mem_cons]
          apply bool_help
          rw [Bool.eq_iff_iff]
          simp only [Bool.and_eq_true, Bool.not_eq_true', memR, Bool.and_eq_false_iff,
            decide_eq_true_eq, decide_eq_false_iff_not]
          omega
        · split
          · rename_i h1 h2 h3 h4
            rw [mem_cons, ih, mem_cons]
            apply bool_help
            rw [Bool.eq_iff_iff]
            simp only [Bool.and_eq_true, Bool.not_eq_true', memR, Bool.and_eq_false_iff,
              decide_eq_true_eq, decide_eq_false_iff_not]
            omega
          · rename_i h1 h2 h3 h4
            rw [mem_cons, ih, mem_cons]
            apply bool_help
            rw [Bool.eq_iff_iff]
            simp only [Bool.and_eq_true, Bool.not_eq_true', memR, Bool.and_eq_false_iff,
              decide_eq_true_eq, decide_eq_false_iff_not]
            omega

theorem canonFrom_removeCore {lo : Nat} (rem : Range) (rs : Ranges) (hr : rem.1 ≤ rem.2)
    (h : CanonFrom lo rs = true) :
    CanonFrom lo (removeCore rem rs) = true := by
  induction rs generalizing lo with
  | nil => rfl
  | cons r rs ih =>
    simp only [CanonFrom, Bool.and_eq_true, decide_eq_true_eq] at h
    have ih' := ih h.2
    simp only [removeCore]
    split
    · exact canonFrom_mono _ ih' (by omega)
    · split
      · rename_i h1 h2
        simp only [CanonFrom, Bool.and_eq_true, decide_eq_true_eq]
        exact ⟨⟨h.1.1, by omega⟩, ⟨by omega, by omega⟩, ih'⟩
      · split
        · simp only [CanonFrom, Bool.and_eq_true, decide_eq_true_eq]
          exact ⟨h.1, ih'⟩
        · split
          · rename_i h1 h2 h3 h4
            simp only [CanonFrom, Bool.and_eq_true, decide_eq_true_eq]
            exact ⟨⟨by omega, by omega⟩, ih'⟩
          · rename_i h1 h2 h3 h4
            simp only [CanonFrom, Bool.and_eq_true, decide_eq_true_eq]
            exact ⟨⟨by omega, by omega⟩, canonFrom_mono _ ih' (by omega)⟩

theorem remove_spec (rs : Ranges) (rem : Range) (hr : rem.1 ≤ rem.2) (h : Canonical rs = true) :
    Canonical (remove rs rem) = true ∧ ∀ p, mem p (remove rs rem) = (mem p rs && !memR p rem) := by
  unfold remove
  have hc := canonFrom_removeCore rem rs hr h
  rw [squash_canon _ hc]
  exact ⟨hc, fun p => mem_removeCore p rem rs hr⟩

theorem canon_head_mem {lo : Nat} (r : Range) (rs : Ranges) (h : CanonFrom lo (r :: rs) = true) :
    mem r.1 (r :: rs) = true := by
  simp only [CanonFrom, Bool.and_eq_true, decide_eq_true_eq] at h
  rw [mem_cons]
  have : memR r.1 r = true := by rw [memR_iff]; omega
  simp [this]

/-! ### sizes -/

theorem size_removeCore_le (rem : Range) (rs : Ranges) (hr : rem.1 ≤ rem.2 + 1) :
    size (removeCore rem rs) ≤ size rs := by
  induction rs with
  | nil => exact Nat.le_refl _
  | cons r rs ih =>
    simp only [removeCore]
    split
    · simp only [size]; omega
    · split
      · simp only [size]; omega
      · split
        · simp only [size]; omega
        · split <;> (simp only [size]; omega)

/-! ## drawing ports -/

theorem canonical_valid (rs : Ranges) (h : Canonical rs = true) : Valid rs = true := canonFrom_valid rs h

theorem short_valid_canonical (ps : Ranges) (hl : ¬ 1 < ps.length) (hv : Valid ps = true) : Canonical ps = true := by
  match ps, hl, hv with
  | [], _, _ => rfl
  | [r], _, hv =>
    rw [valid_cons, Bool.and_eq_true, decide_eq_true_eq] at hv
    simp [Canonical, CanonFrom, hv.1]
  | _ :: _ :: _, hl, _ => simp at hl

theorem subtractPort_spec (ps : Ranges) (p : Nat) (hv : Valid ps = true) :
    OValid (subtractPort ps p) = true ∧
    (∀ q, omem q (subtractPort ps p) = (mem q ps && !(q == p))) ∧
    osize (subtractPort ps p) ≤ size (normalize ps) := by
  obtain ⟨hcN, hmN⟩ := normalize_spec ps hv
  -- the list the subtraction starts from
  have ha : ∃ a, (if 1 < ps.length then normalize ps else ps) = a ∧ Canonical a = true ∧
      (∀ q, mem q a = mem q ps) ∧ size a = size (normalize ps) := by
    by_cases hl : 1 < ps.length
    · exact ⟨normalize ps, by simp [hl], hcN, hmN, rfl⟩
    · have hc := short_valid_canonical ps hl hv
      exact ⟨ps, by simp [hl], hc, fun _ => rfl, by rw [normalize_canon ps hc]⟩
  obtain ⟨a, hae, hca, hma, hsa⟩ := ha
  obtain ⟨hcr, hmr⟩ := remove_spec a (p, p) (Nat.le_refl _) hca
  have hsz : size (remove a (p, p)) ≤ size a := by
    unfold remove
    rw [squash_canon _ (canonFrom_removeCore (p, p) a (Nat.le_refl _) hca)]
    exact size_removeCore_le (p, p) a (by simp)
  have hmem : ∀ q, mem q (remove a (p, p)) = (mem q ps && !(q == p)) := by
    intro q
    rw [hmr, hma]
    congr 1
    rw [Bool.eq_iff_iff]
    simp only [Bool.not_eq_true', memR, Bool.and_eq_false_iff, decide_eq_false_iff_not, beq_eq_false_iff_ne, ne_eq]
    omega
  unfold subtractPort
  simp only [hae]
  cases hrem : remove a (p, p) with
  | nil =>
    simp only [List.isEmpty_nil, if_true]
    refine ⟨rfl, ?_, Nat.zero_le _⟩
    intro q
    have := hmem q
    rw [hrem] at this
    simpa [omem, mem] using this
  | cons x xs =>
    simp only [List.isEmpty_cons, Bool.false_eq_true, if_false]
    rw [← hrem]
    refine ⟨canonical_valid _ hcr, fun q => hmem q, ?_⟩
    simp only [osize]
    rw [normalize_canon _ hcr, ← hsa]
    exact hsz

theorem drawPort_spec (checked : Bool) (below : Nat) (ports : Option Ranges) (hv : OValid ports = true)
    (p : Nat) (rest : Option Ranges) (h : drawPort checked below ports = .ok p rest) :
    omem p ports = true ∧ below < p ∧ OValid rest = true ∧
    (∀ q, omem q rest = (omem q ports && !(q == p))) ∧ osize rest ≤ osize ports := by
  cases ports with
  | none => simp [drawPort] at h
  | some ps =>
    simp only [OValid] at hv
    obtain ⟨hcN, hmN⟩ := normalize_spec ps hv
    obtain ⟨hcr, hmr⟩ := remove_spec (normalize ps) (0, below) (Nat.zero_le _) hcN
    simp only [drawPort] at h
    cases hrem : remove (normalize ps) (0, below) with
    | nil => rw [hrem] at h; cases checked <;> cases h
    | cons r tl =>
      rw [hrem] at h
      injection h with hp hrest
      subst hp hrest
      rw [hrem] at hcr hmr
      have hhead := canon_head_mem r tl hcr
      rw [hmr, hmN] at hhead
      simp only [Bool.and_eq_true, Bool.not_eq_true', memR, Bool.and_eq_false_iff, decide_eq_false_iff_not] at hhead
      obtain ⟨s1, s2, s3⟩ := subtractPort_spec ps r.1 hv
      exact ⟨hhead.1, by omega, s1, s2, s3⟩

/-- `a` is what is left of `b` after some draws -/
def Sub (a b : Option Ranges) : Prop :=
  OValid a = true ∧ (∀ q, omem q a = true → omem q b = true) ∧ osize a ≤ osize b ∧ (a.isSome = true → b.isSome = true)

theorem Sub.refl (a : Option Ranges) (h : OValid a = true) : Sub a a := ⟨h, fun _ h => h, Nat.le_refl _, id⟩

theorem Sub.trans {a b c : Option Ranges} (h1 : Sub a b) (h2 : Sub b c) : Sub a c :=
  ⟨h1.1, fun q h => h2.2.1 q (h1.2.1 q h), Nat.le_trans h1.2.2.1 h2.2.2.1, fun h => h2.2.2.2 (h1.2.2.2 h)⟩

theorem drawPort_sub (checked : Bool) (below : Nat) (ports : Option Ranges) (hv : OValid ports = true)
    (p : Nat) (rest : Option Ranges) (h : drawPort checked below ports = .ok p rest) : Sub rest ports := by
  obtain ⟨_, _, h3, h4, h5⟩ := drawPort_spec checked below ports hv p rest h
  refine ⟨h3, ?_, h5, ?_⟩
  · intro q hq; rw [h4] at hq; simp only [Bool.and_eq_true] at hq; exact hq.1
  · intro _
    cases ports with
    | none => simp [drawPort] at h
    | some _ => rfl

/-! ### claiming the static ranges (`Resources.Subtract` of a ranges resource) -/

theorem remove_size_le (a : Ranges) (r : Range) (hr : r.1 ≤ r.2) (hca : Canonical a = true) :
    size (remove a r) ≤ size a := by
  unfold remove
  rw [squash_canon _ (canonFrom_removeCore r a hr hca)]
  exact size_removeCore_le r a (by omega)

theorem foldl_remove_spec (rs a : Ranges) (hv : Valid rs = true) (hca : Canonical a = true) :
    Canonical (rs.foldl remove a) = true ∧
    (∀ q, mem q (rs.foldl remove a) = (mem q a && !mem q rs)) ∧
    size (rs.foldl remove a) ≤ size a := by
  induction rs generalizing a with
  | nil => exact ⟨hca, fun q => by simp [mem], Nat.le_refl _⟩
  | cons r rs ih =>
    rw [valid_cons, Bool.and_eq_true, decide_eq_true_eq] at hv
    obtain ⟨c1, m1⟩ := remove_spec a r hv.1 hca
    obtain ⟨c2, m2, s2⟩ := ih (remove a r) hv.2 c1
    simp only [List.foldl_cons]
    refine ⟨c2, ?_, Nat.le_trans s2 (remove_size_le a r hv.1 hca)⟩
    intro q
    rw [m2, m1, mem_cons]
    cases mem q a <;> cases memR q r <;> cases mem q rs <;> rfl

theorem canonFrom_lb {lo : Nat} (rs : Ranges) (h : CanonFrom lo rs = true) : ∀ r ∈ rs, lo ≤ r.1 := by
  induction rs generalizing lo with
  | nil => intro r hr; cases hr
  | cons x xs ih =>
    simp only [CanonFrom, Bool.and_eq_true, decide_eq_true_eq] at h
    intro r hr
    cases hr with
    | head => exact h.1.1
    | tail _ hr' => have := ih h.2 r hr'; omega

/-- What `Sort().Squash()` produces passes `Resource.Validate`. -/
theorem validate_canon {lo : Nat} (rs : Ranges) (h : CanonFrom lo rs = true) : validateRanges rs = true := by
  induction rs generalizing lo with
  | nil => rfl
  | cons r rs ih =>
    simp only [CanonFrom, Bool.and_eq_true, decide_eq_true_eq] at h
    simp only [validateRanges, Bool.and_eq_true, decide_eq_true_eq, List.all_eq_true, Bool.not_eq_true',
      Bool.and_eq_false_iff, decide_eq_false_iff_not]
    refine ⟨⟨h.1.2, ?_⟩, ih h.2⟩
    intro r2 hr2
    have := canonFrom_lb rs h.2 r2 hr2
    right; omega

/-- The list a `Value_Ranges.Subtract` starts from. -/
theorem startList_spec (ps : Ranges) (hv : Valid ps = true) :
    ∃ a, (if 1 < ps.length then normalize ps else ps) = a ∧ Canonical a = true ∧
      (∀ q, mem q a = mem q ps) ∧ size a = size (normalize ps) := by
  obtain ⟨hcN, hmN⟩ := normalize_spec ps hv
  by_cases hl : 1 < ps.length
  · exact ⟨normalize ps, by simp [hl], hcN, hmN, rfl⟩
  · have hc := short_valid_canonical ps hl hv
    exact ⟨ps, by simp [hl], hc, fun _ => rfl, by rw [normalize_canon ps hc]⟩

theorem subtractRanges_spec (ps rs : Ranges) (hv : Valid ps = true) (hvr : Valid rs = true) :
    OValid (subtractRanges ps rs) = true ∧
    (∀ q, omem q (subtractRanges ps rs) = (mem q ps && !mem q rs)) ∧
    osize (subtractRanges ps rs) ≤ size (normalize ps) := by
  obtain ⟨a, hae, hca, hma, hsa⟩ := startList_spec ps hv
  obtain ⟨hcr, hmr, hsr⟩ := foldl_remove_spec rs a hvr hca
  unfold subtractRanges
  simp only [hae]
  cases hrem : rs.foldl remove a with
  | nil =>
    simp only [List.isEmpty_nil, if_true]
    refine ⟨rfl, ?_, Nat.zero_le _⟩
    intro q
    have := hmr q
    rw [hrem, hma] at this
    simpa [omem, mem] using this
  | cons x xs =>
    simp only [List.isEmpty_cons, Bool.false_eq_true, if_false]
    rw [← hrem]
    refine ⟨canonical_valid _ hcr, fun q => by simp only [omem]; rw [hmr, hma], ?_⟩
    simp only [osize]
    rw [normalize_canon _ hcr, ← hsa]
    exact hsr

/-- Claiming the static ranges leaves exactly the other ports. -/
theorem reserveStatic_spec (static : Ranges) (ports : Option Ranges) (hvs : Valid static = true)
    (hv : OValid ports = true) :
    Sub (reserveStatic static ports) ports ∧
    ∀ q, omem q (reserveStatic static ports) = (omem q ports && !mem q static) := by
  cases ports with
  | none => exact ⟨Sub.refl _ rfl, fun q => by simp [reserveStatic, omem]⟩
  | some ps =>
    simp only [OValid] at hv
    obtain ⟨hcS, hmS⟩ := normalize_spec static hvs
    have hval : validateRanges (normalize static) = true := validate_canon _ hcS
    simp only [reserveStatic, hval, Bool.not_true, Bool.or_false]
    by_cases he : (normalize static).isEmpty = true
    · simp only [he, if_true]
      refine ⟨Sub.refl _ hv, ?_⟩
      intro q
      have : mem q static = false := by
        rw [← hmS]; rw [List.isEmpty_iff] at he; rw [he]; rfl
      simp [this]
    · simp only [he, Bool.false_eq_true, if_false]
      obtain ⟨s1, s2, s3⟩ := subtractRanges_spec ps (normalize static) hv (canonical_valid _ hcS)
      refine ⟨⟨s1, ?_, s3, fun _ => rfl⟩, ?_⟩
      · intro q hq
        rw [s2] at hq
        simp only [Bool.and_eq_true] at hq
        exact hq.1
      · intro q
        rw [s2, hmS]; rfl

theorem tcpCount_cons_false (l : List Bool) : tcpCount (false :: l) = tcpCount l := by simp [tcpCount]
theorem tcpCount_cons_true (l : List Bool) : tcpCount (true :: l) = tcpCount l + 1 := by simp [tcpCount]

theorem drawDyn_spec (checked : Bool) (inb : List Bool) (ports : Option Ranges) (hv : OValid ports = true)
    (ps : List Nat) (rest : Option Ranges) (h : drawDyn checked inb ports = .ok ps rest) :
    (∀ p ∈ ps, omem p ports = true ∧ 9000 ≤ p) ∧ ps.Nodup ∧ OValid rest = true ∧
    (∀ q, omem q rest = (omem q ports && !(ps.contains q))) ∧ osize rest ≤ osize ports ∧
    ps.length = tcpCount inb := by
  induction inb generalizing ports ps rest with
  | nil =>
    simp only [drawDyn] at h
    injection h with h1 h2; subst h1 h2
    exact ⟨by simp, List.nodup_nil, hv, by simp, Nat.le_refl _, rfl⟩
  | cons b inb ih =>
    cases b with
    | false =>
      simp only [drawDyn] at h
      rw [tcpCount_cons_false]
      exact ih ports hv ps rest h
    | true =>
      simp only [drawDyn] at h
      cases hd : drawPort checked dataBelow ports with
      | noPorts => rw [hd] at h; cases h
      | panic => rw [hd] at h; cases h
      | ok p ports' =>
        rw [hd] at h
        simp only at h
        obtain ⟨d1, d2, d3, d4, d5⟩ := drawPort_spec checked dataBelow ports hv p ports' hd
        cases hr : drawDyn checked inb ports' with
        | noPorts x => rw [hr] at h; cases h
        | panic => rw [hr] at h; cases h
        | ok ps' ports'' =>
          rw [hr] at h
          simp only at h
          injection h with h1 h2; subst h1 h2
          obtain ⟨i1, i2, i3, i4, i5, i6⟩ := ih ports' d3 ps' ports'' hr
          refine ⟨?_, ?_, i3, ?_, Nat.le_trans i5 d5, ?_⟩
          · intro q hq
            cases hq with
            | head => exact ⟨d1, by have : dataBelow = 8999 := rfl; omega⟩
            | tail _ hq' =>
              obtain ⟨j1, j2⟩ := i1 q hq'
              rw [d4] at j1; simp only [Bool.and_eq_true] at j1
              exact ⟨j1.1, j2⟩
          · rw [List.nodup_cons]
            refine ⟨?_, i2⟩
            intro hp
            have := (i1 p hp).1
            rw [d4] at this
            simp at this
          · intro q
            rw [i4, d4, List.contains_cons]
            cases omem q ports <;> cases (q == p) <;> cases (ps'.contains q) <;> rfl
          · rw [tcpCount_cons_true, List.length_cons, i6]

theorem drawDyn_sub (checked : Bool) (inb : List Bool) (ports : Option Ranges) (hv : OValid ports = true) :
    match drawDyn checked inb ports with
    | .ok _ r => Sub r ports
    | .noPorts r => Sub r ports
    | .panic => True := by
  induction inb generalizing ports with
  | nil => simp only [drawDyn]; exact Sub.refl _ hv
  | cons b inb ih =>
    cases b with
    | false => simp only [drawDyn]; exact ih ports hv
    | true =>
      simp only [drawDyn]
      cases hd : drawPort checked dataBelow ports with
      | noPorts => exact Sub.refl _ hv
      | panic => trivial
      | ok p ports' =>
        have hs := drawPort_sub checked dataBelow ports hv p ports' hd
        have := ih ports' hs.1
        simp only
        cases hr : drawDyn checked inb ports' with
        | noPorts x => rw [hr] at this; exact this.trans hs
        | panic => trivial
        | ok ps' ports'' => rw [hr] at this; exact this.trans hs

/-- What the draws of a successfully made task hold. -/
theorem makeDraws_spec (checked : Bool) (w : Wants) (ports : Option Ranges) (hv : OValid ports = true)
    (t : Task) (rest : Option Ranges) (h : makeDraws checked w ports = .ok t rest) :
    (∀ p ∈ t.drawn, omem p ports = true) ∧ t.drawn.Nodup ∧
    (∀ p ∈ t.dyn, 9000 ≤ p) ∧ 30000 ≤ t.ctrl ∧ t.dyn.length = tcpCount w.inbound ∧
    t.cpu = w.cpu ∧ t.mem = w.mem ∧ t.static = w.static ∧
    Sub rest ports ∧ (∀ q, omem q rest = (omem q ports && !(t.drawn.contains q))) := by
  simp only [makeDraws] at h
  cases hd : drawDyn checked w.inbound ports with
  | noPorts x => rw [hd] at h; cases h
  | panic => rw [hd] at h; cases h
  | ok ps ports' =>
    rw [hd] at h
    simp only at h
    obtain ⟨i1, i2, i3, i4, i5, i6⟩ := drawDyn_spec checked w.inbound ports hv ps ports' hd
    cases hc : drawPort checked ctrlBelow ports' with
    | noPorts => rw [hc] at h; cases h
    | panic => rw [hc] at h; cases h
    | ok c ports'' =>
      rw [hc] at h
      simp only at h
      injection h with h1 h2; subst h1 h2
      obtain ⟨d1, d2, d3, d4, d5⟩ := drawPort_spec checked ctrlBelow ports' i3 c ports'' hc
      simp only [Task.drawn]
      rw [i4] at d1
      simp only [Bool.and_eq_true, Bool.not_eq_true'] at d1
      refine ⟨?_, ?_, fun p hp => (i1 p hp).2, by have : ctrlBelow = 29999 := rfl; omega, i6, by simp, by simp, by simp, ?_, ?_⟩
      · intro p hp
        rw [List.mem_append] at hp
        cases hp with
        | inl hp => exact (i1 p hp).1
        | inr hp => simp only [List.mem_singleton] at hp; subst hp; exact d1.1
      · rw [List.nodup_append]
        refine ⟨i2, by simp, ?_⟩
        intro a ha b hb
        simp only [List.mem_singleton] at hb; subst hb
        intro hab; subst hab
        have := d1.2
        rw [List.contains_eq_mem, decide_eq_false_iff_not] at this
        exact this ha
      · exact (drawPort_sub checked ctrlBelow ports' i3 c ports'' hc).trans
          (by have := drawDyn_sub checked w.inbound ports hv; rw [hd] at this; exact this)
      · intro q
        rw [d4, i4]
        have : (ps ++ [c]).contains q = (ps.contains q || (q == c)) := by
          simp [List.contains_eq_mem, List.mem_append, Bool.decide_or]
          by_cases hqc : q = c <;> simp [hqc]
        rw [this]
        cases omem q ports <;> cases (ps.contains q) <;> cases (q == c) <;> rfl

theorem makeDraws_sub (checked : Bool) (w : Wants) (ports : Option Ranges) (hv : OValid ports = true) :
    match makeDraws checked w ports with
    | .ok _ r => Sub r ports
    | .early r => Sub r ports
    | .late r => Sub r ports
    | .panic => True := by
  simp only [makeDraws]
  have hd := drawDyn_sub checked w.inbound ports hv
  cases hdd : drawDyn checked w.inbound ports with
  | noPorts x => rw [hdd] at hd; exact hd
  | panic => trivial
  | ok ps ports' =>
    rw [hdd] at hd
    simp only
    cases hc : drawPort checked ctrlBelow ports' with
    | noPorts => exact hd
    | panic => trivial
    | ok c ports'' => exact (drawPort_sub checked ctrlBelow ports' hd.1 c ports'' hc).trans hd

/-- The ports the draws start from: all of them, or (with `staticReserved`) all but the static ones. -/
theorem startPorts_spec (k : Cfg) (w : Wants) (ports : Option Ranges) (hvs : Valid w.static = true)
    (hv : OValid ports = true) :
    Sub (if k.staticReserved then reserveStatic w.static ports else ports) ports ∧
    ∀ q, omem q (if k.staticReserved then reserveStatic w.static ports else ports) =
      (omem q ports && !(k.staticReserved && mem q w.static)) := by
  cases hk : k.staticReserved with
  | false => exact ⟨by simpa using Sub.refl _ hv, fun q => by simp⟩
  | true =>
    obtain ⟨r1, r2⟩ := reserveStatic_spec w.static ports hvs hv
    exact ⟨by simpa using r1, fun q => by simpa using r2 q⟩

/-- What a successfully made task holds: the drawn ports come from the ports given,
    are distinct, respect the floors, and — when the static ranges are claimed
    first — none of them is a static port; what is missing afterwards is exactly
    what the task claimed. -/
theorem makeTask_spec (k : Cfg) (w : Wants) (ports : Option Ranges) (hvs : Valid w.static = true)
    (hv : OValid ports = true)
    (t : Task) (rest : Option Ranges) (h : makeTask k w ports = .ok t rest) :
    (∀ p ∈ t.drawn, omem p ports = true) ∧ t.drawn.Nodup ∧
    (∀ p ∈ t.dyn, 9000 ≤ p) ∧ 30000 ≤ t.ctrl ∧ t.dyn.length = tcpCount w.inbound ∧
    t.cpu = w.cpu ∧ t.mem = w.mem ∧ t.static = w.static ∧
    Sub rest ports ∧
    (∀ q, omem q rest = (omem q ports && !(t.drawn.contains q) && !(k.staticReserved && mem q w.static))) ∧
    (k.staticReserved = true → ∀ p ∈ t.drawn, mem p w.static = false) := by
  unfold makeTask at h
  obtain ⟨s1, s2⟩ := startPorts_spec k w ports hvs hv
  generalize (if k.staticReserved then reserveStatic w.static ports else ports) = ports0 at h s1 s2
  obtain ⟨k1, k2, k3, k4, k5, k6, k7, k8, k9, k10⟩ := makeDraws_spec k.drawChecked w ports0 s1.1 t rest h
  refine ⟨fun p hp => s1.2.1 p (k1 p hp), k2, k3, k4, k5, k6, k7, k8, k9.trans s1, ?_, ?_⟩
  · intro q
    rw [k10, s2]
    cases omem q ports <;> cases (t.drawn.contains q) <;> cases (k.staticReserved && mem q w.static) <;> rfl
  · intro hk p hp
    have := k1 p hp
    rw [s2, hk] at this
    simp only [Bool.true_and, Bool.and_eq_true, Bool.not_eq_true'] at this
    exact this.2

theorem makeTask_sub (k : Cfg) (w : Wants) (ports : Option Ranges) (hvs : Valid w.static = true)
    (hv : OValid ports = true) :
    match makeTask k w ports with
    | .ok _ r => Sub r ports
    | .early r => Sub r ports
    | .late r => Sub r ports
    | .panic => True := by
  unfold makeTask
  obtain ⟨s1, _⟩ := startPorts_spec k w ports hvs hv
  generalize (if k.staticReserved then reserveStatic w.static ports else ports) = ports0 at s1
  have := makeDraws_sub k.drawChecked w ports0 s1.1
  cases hm : makeDraws k.drawChecked w ports0 with
  | early r => rw [hm] at this; exact this.trans s1
  | late r => rw [hm] at this; exact this.trans s1
  | panic => trivial
  | ok t r => rw [hm] at this; exact this.trans s1

/-! ### with the emptiness test in front of `Min()` nothing panics -/

theorem drawPort_checked (below : Nat) (ports : Option Ranges) : drawPort true below ports = .panic → False := by
  intro h
  cases ports with
  | none => cases h
  | some ps =>
    simp only [drawPort] at h
    cases hrem : remove (normalize ps) (0, below) with
    | nil => rw [hrem] at h; cases h
    | cons r tl => rw [hrem] at h; cases h

theorem drawDyn_checked (inb : List Bool) (ports : Option Ranges) : drawDyn true inb ports = .panic → False := by
  induction inb generalizing ports with
  | nil => intro h; cases h
  | cons b inb ih =>
    cases b with
    | false => simp only [drawDyn]; exact ih ports
    | true =>
      simp only [drawDyn]
      cases hd : drawPort true dataBelow ports with
      | noPorts => intro h; cases h
      | panic => exact fun _ => drawPort_checked _ _ hd
      | ok p ports' =>
        simp only
        cases hr : drawDyn true inb ports' with
        | noPorts x => intro h; cases h
        | panic => exact fun _ => ih ports' hr
        | ok ps' ports'' => intro h; cases h

theorem makeDraws_checked (w : Wants) (ports : Option Ranges) : (makeDraws true w ports).isPanic = false := by
  simp only [makeDraws]
  cases hd : drawDyn true w.inbound ports with
  | noPorts x => rfl
  | panic => exact (drawDyn_checked _ _ hd).elim
  | ok ps ports' =>
    simp only
    cases hc : drawPort true ctrlBelow ports' with
    | noPorts => rfl
    | panic => exact (drawPort_checked _ _ hc).elim
    | ok c ports'' => rfl

/-- makeTaskForMesosResources with the emptiness tests never indexes an empty list. -/
theorem makeTask_no_panic (k : Cfg) (hk : k.drawChecked = true) (w : Wants) (ports : Option Ranges) :
    (makeTask k w ports).isPanic = false := by
  unfold makeTask
  rw [hk]
  exact makeDraws_checked w _

/-! ## Resources.Satisfy -/

theorem mem_iff (p : Nat) (rs : Ranges) : mem p rs = true ↔ ∃ r ∈ rs, memR p r = true := by
  simp [mem, List.any_eq_true]

theorem rangeInside_iff (ps : Ranges) (r : Range) :
    rangeInside ps r = true ↔ ∀ p, memR p r = true → mem p ps = true := by
  unfold rangeInside
  rw [List.all_eq_true]
  constructor
  · intro h p hp
    rw [memR_iff] at hp
    exact h p (by rw [List.mem_range'_1]; omega)
  · intro h p hp
    rw [List.mem_range'_1] at hp
    exact h p (by rw [memR_iff]; omega)

/-- `Resources.Satisfy` is sound: what it accepts is covered by the resources it was given. -/
theorem resSatisfy_covers (r : Res) (w : Wants) (hvs : Valid w.static = true) (hvp : OValid r.ports = true)
    (h : resSatisfy r w = true) : covers r w = true := by
  unfold resSatisfy at h
  unfold covers
  cases hc : r.cpu with
  | none => rw [hc] at h; cases h
  | some c =>
    rw [hc] at h
    cases hm : r.mem with
    | none => rw [hm] at h; simp at h
    | some m =>
      rw [hm] at h
      cases hp : r.ports with
      | none => rw [hp] at h; simp at h
      | some ps =>
        rw [hp] at h hvp
        simp only [OValid] at hvp
        simp only at h ⊢
        by_cases h1 : c < w.cpu
        · simp [h1] at h
        · simp only [h1, if_false] at h
          by_cases h2 : m / 4 * 4 < w.mem
          · simp [h2] at h
          · simp only [h2, if_false] at h
            by_cases h3 : compareR (normalize w.static) (normalize ps) ≠ -1
            · simp [h3] at h
            · simp only [h3, if_false] at h
              by_cases h4 : size (normalize ps) - size (normalize w.static) < w.inbound.length
              · simp [h4] at h
              · simp only [Bool.and_eq_true, decide_eq_true_eq]
                refine ⟨⟨⟨by omega, by omega⟩, ?_⟩, by omega⟩
                -- static ranges inside the offer
                have h3' : compareR (normalize w.static) (normalize ps) = -1 := Classical.not_not.mp h3
                obtain ⟨cs, ms⟩ := normalize_spec w.static hvs
                obtain ⟨cp, mp⟩ := normalize_spec ps hvp
                unfold compareR at h3'
                simp only [normalize_canon _ cs, normalize_canon _ cp] at h3'
                by_cases he : normalize w.static = normalize ps
                · simp [he] at h3'
                · simp only [he, if_false] at h3'
                  by_cases hall : (normalize w.static).all (fun a => (normalize ps).any (fun b => decide (b.1 ≤ a.1) && decide (a.2 ≤ b.2))) = true
                  · rw [List.all_eq_true]
                    intro s hs
                    rw [rangeInside_iff]
                    intro p hp
                    have hps : mem p (normalize w.static) = true := by
                      rw [ms, mem_iff]; exact ⟨s, hs, hp⟩
                    rw [mem_iff] at hps
                    obtain ⟨a, ha, hpa⟩ := hps
                    rw [List.all_eq_true] at hall
                    have := hall a ha
                    rw [List.any_eq_true] at this
                    obtain ⟨b, hb, hab⟩ := this
                    rw [← mp, mem_iff]
                    refine ⟨b, hb, ?_⟩
                    simp only [Bool.and_eq_true, decide_eq_true_eq] at hab
                    rw [memR_iff] at hpa ⊢
                    omega
                  · simp [hall] at h3'

/-- `a` is a scalar that came from `b` by subtractions. -/
def OLe (a b : Option Nat) : Prop := ∀ x, a = some x → ∃ y, b = some y ∧ x ≤ y

theorem OLe.refl (a : Option Nat) : OLe a a := fun x h => ⟨x, h, Nat.le_refl _⟩

theorem OLe.trans {a b c : Option Nat} (h1 : OLe a b) (h2 : OLe b c) : OLe a c := by
  intro x hx
  obtain ⟨y, hy, hxy⟩ := h1 x hx
  obtain ⟨z, hz, hyz⟩ := h2 y hy
  exact ⟨z, hz, Nat.le_trans hxy hyz⟩

/-- More resources cover at least as much. -/
theorem covers_mono (rem o : Res) (w : Wants) (hc : OLe rem.cpu o.cpu) (hm : OLe rem.mem o.mem)
    (hs : Sub rem.ports o.ports) (h : covers rem w = true) : covers o w = true := by
  unfold covers at h ⊢
  cases hcpu' : rem.cpu with
  | none => rw [hcpu'] at h; simp at h
  | some c' =>
    cases hmem' : rem.mem with
    | none => rw [hcpu', hmem'] at h; simp at h
    | some m' =>
      obtain ⟨c, hcpu, hcc⟩ := hc c' hcpu'
      obtain ⟨mm, hmem, hmm⟩ := hm m' hmem'
      rw [hcpu', hmem'] at h
      rw [hcpu, hmem]
      cases hp' : rem.ports with
      | none => rw [hp'] at h; simp at h
      | some ps' =>
        rw [hp'] at h hs
        obtain ⟨_, s2, s3, s4⟩ := hs
        cases hp : o.ports with
        | none => rw [hp] at s4; simp at s4
        | some ps =>
          rw [hp] at s2 s3
          simp only [Bool.and_eq_true, decide_eq_true_eq] at h ⊢
          simp only [osize] at s3
          refine ⟨⟨⟨by omega, by omega⟩, ?_⟩, by omega⟩
          rw [List.all_eq_true] at h ⊢
          intro s hs
          have := h.1.2 s hs
          rw [rangeInside_iff] at this ⊢
          intro p hp
          exact s2 p (this p hp)

/-- What `covers` says about the scalars. -/
theorem covers_scalars (r : Res) (w : Wants) (h : covers r w = true) :
    ∃ c mm ps, r.cpu = some c ∧ r.mem = some mm ∧ r.ports = some ps ∧ w.cpu ≤ c ∧ w.mem ≤ mm ∧
      ∀ s ∈ w.static, ∀ p, memR p s = true → mem p ps = true := by
  unfold covers at h
  cases hc : r.cpu with
  | none => rw [hc] at h; simp at h
  | some c =>
    cases hm : r.mem with
    | none => rw [hc, hm] at h; simp at h
    | some mm =>
      cases hp : r.ports with
      | none => rw [hc, hm, hp] at h; simp at h
      | some ps =>
        rw [hc, hm, hp] at h
        simp only [Bool.and_eq_true, decide_eq_true_eq, List.all_eq_true] at h
        exact ⟨c, mm, ps, rfl, rfl, rfl, h.1.1.1, h.1.1.2, fun s hs => (rangeInside_iff ps s).1 (h.1.2 s hs)⟩

/-! ## expanding ranges into ports -/

theorem mem_expand (x : Nat) (rs : Ranges) : x ∈ expand rs ↔ mem x rs = true := by
  unfold expand
  rw [List.mem_flatMap, mem_iff]
  constructor
  · rintro ⟨r, hr, hx⟩
    rw [List.mem_range'_1] at hx
    exact ⟨r, hr, by rw [memR_iff]; omega⟩
  · rintro ⟨r, hr, hx⟩
    rw [memR_iff] at hx
    exact ⟨r, hr, by rw [List.mem_range'_1]; omega⟩

theorem expand_canon {lo : Nat} (rs : Ranges) (h : CanonFrom lo rs = true) :
    (expand rs).Pairwise (· < ·) ∧ ∀ x ∈ expand rs, lo ≤ x := by
  induction rs generalizing lo with
  | nil => simp [expand]
  | cons r rs ih =>
    simp only [CanonFrom, Bool.and_eq_true, decide_eq_true_eq] at h
    obtain ⟨p1, p2⟩ := ih h.2
    have he : expand (r :: rs) = List.range' r.1 (r.2 + 1 - r.1) ++ expand rs := by simp [expand]
    rw [he]
    refine ⟨?_, ?_⟩
    · rw [List.pairwise_append]
      refine ⟨List.pairwise_lt_range', p1, ?_⟩
      intro a ha b hb
      rw [List.mem_range'_1] at ha
      have := p2 b hb
      omega
    · intro x hx
      rw [List.mem_append] at hx
      cases hx with
      | inl hx => rw [List.mem_range'_1] at hx; omega
      | inr hx => have := p2 x hx; omega

/-- The static ports of a task, as a list: distinct, and exactly the members of its static ranges. -/
theorem staticPorts_spec (static : Ranges) (hv : Valid static = true) :
    (expand (normalize static)).Nodup ∧ ∀ x, x ∈ expand (normalize static) ↔ mem x static = true := by
  obtain ⟨hcn, hmn⟩ := normalize_spec static hv
  refine ⟨(expand_canon _ hcn).1.imp (fun h => Nat.ne_of_lt h), ?_⟩
  intro x
  rw [mem_expand, hmn]

/-! ## scalars -/

def avail (a : Option Nat) : Nat := a.getD 0

theorem subScalar_le (a : Option Nat) (x : Nat) : OLe (subScalar a x) a := by
  unfold subScalar
  by_cases hx : x = 0
  · simp only [hx, if_true]; exact OLe.refl _
  · simp only [hx, if_false]
    cases a with
    | none => exact OLe.refl _
    | some c =>
      simp only
      by_cases hz : c - x = 0
      · simp only [hz, if_true]; intro y hy; cases hy
      · simp only [hz, if_false]
        intro y hy
        injection hy with hy
        exact ⟨c, rfl, by omega⟩

theorem avail_subScalar (c x : Nat) : avail (subScalar (some c) x) = c - x := by
  unfold subScalar avail
  by_cases hx : x = 0
  · simp [hx]
  · simp only [hx, if_false]
    by_cases hz : c - x = 0
    · simp [hz]
    · simp [hz]

theorem afterLaunch_ports (k : Cfg) (rem : Res) (t : Task) (p : Option Ranges) :
    (afterLaunch k rem t p).ports = p := by
  unfold afterLaunch; split <;> rfl

theorem afterLaunch_cpu_le (k : Cfg) (rem : Res) (t : Task) (p : Option Ranges) :
    OLe (afterLaunch k rem t p).cpu rem.cpu := by
  unfold afterLaunch; split
  · exact subScalar_le _ _
  · exact OLe.refl _

theorem afterLaunch_mem_le (k : Cfg) (rem : Res) (t : Task) (p : Option Ranges) :
    OLe (afterLaunch k rem t p).mem rem.mem := by
  unfold afterLaunch; split
  · exact subScalar_le _ _
  · exact OLe.refl _

/-! ## one offer -/

/-- What holds of every launch the model makes on offer `o`. -/
def Good (m : Mode) (o : Offer) (l : Launch) : Prop :=
  m.sat o.attrs l.desc.cts = true ∧
  ∃ c, l.desc.cls = some c ∧ Valid (c.wants m).static = true ∧ covers o.res (c.wants m) = true ∧
    l.task.cpu = c.cpu ∧ l.task.mem = c.mem ∧ l.task.static = (c.wants m).static ∧
    l.task.dyn.length = tcpCount c.inbound ∧ (∀ p ∈ l.task.dyn, 9000 ≤ p) ∧ 30000 ≤ l.task.ctrl

def drawnOf (ls : List Launch) : List Nat := ls.flatMap (fun l => l.task.drawn)

/-- every port the launches claim, static ranges included -/
def claimsOf (ls : List Launch) : List Nat := ls.flatMap (fun l => l.task.claims)

def cpuSum (ls : List Launch) : Nat := (ls.map (·.task.cpu)).sum
def memSum (ls : List Launch) : Nat := (ls.map (·.task.mem)).sum

/-- Invariant of the handling of offer `o`. -/
structure Inv (m : Mode) (o : Offer) (s : OState) : Prop where
  cpu : OLe s.rem.cpu o.res.cpu
  mem : OLe s.rem.mem o.res.mem
  sub : Sub s.rem.ports o.res.ports
  good : ∀ l ∈ s.launches, Good m o l
  nodup : (drawnOf s.launches).Nodup
  fromOffer : ∀ p ∈ drawnOf s.launches, omem p o.res.ports = true ∧ omem p s.rem.ports = false
  /-- with the scalars subtracted: what was handed out plus what remains stays within the offer -/
  sums : m.cfg.scalarsSubtracted = true →
    cpuSum s.launches + avail s.rem.cpu ≤ avail o.res.cpu ∧ memSum s.launches + avail s.rem.mem ≤ avail o.res.mem
  /-- with the static ranges claimed first: no port is claimed twice, and no claimed port remains -/
  claims : m.cfg.staticReserved = true → (claimsOf s.launches).Nodup ∧
    ∀ p ∈ claimsOf s.launches, omem p o.res.ports = true ∧ omem p s.rem.ports = false

/-- all static ranges that can be asked for are well-formed (begin ≤ end) -/
def StaticValid (m : Mode) (ds : List Desc) : Prop :=
  ∀ d ∈ ds, ∀ c, d.cls = some c → Valid (c.wants m).static = true

theorem staticValid_iff (m : Mode) (ds : List Desc) : staticValid m ds = true ↔ StaticValid m ds := by
  unfold staticValid StaticValid
  rw [List.all_eq_true]
  constructor
  · intro h d hd c hc
    have := h d hd
    rw [hc] at this; exact this
  · intro h d hd
    cases hc : d.cls with
    | none => rfl
    | some c => exact h d hd c hc

theorem validInputs_iff (m : Mode) (descs : List Desc) (order : List Offer) :
    validInputs m descs order = true ↔ (∀ o ∈ order, OValid o.res.ports = true) ∧ StaticValid m descs := by
  unfold validInputs offersValid
  rw [Bool.and_eq_true, List.all_eq_true, staticValid_iff]

theorem inv_setPorts (m : Mode) (o : Offer) (s : OState) (p : Option Ranges) (used : Bool)
    (h : Inv m o s) (hs : Sub p s.rem.ports) :
    Inv m o { s with rem := { s.rem with ports := p }, used := used } :=
  have gone : ∀ q, omem q s.rem.ports = false → omem q p = false := fun q h2 => by
    cases hq' : omem q p with
    | false => rfl
    | true => rw [hs.2.1 q hq'] at h2; cases h2
  { cpu := h.cpu, mem := h.mem, sub := hs.trans h.sub, good := h.good, nodup := h.nodup,
    fromOffer := fun q hq => ⟨(h.fromOffer q hq).1, gone q (h.fromOffer q hq).2⟩,
    sums := h.sums,
    claims := fun hk => ⟨(h.claims hk).1, fun q hq => ⟨((h.claims hk).2 q hq).1, gone q ((h.claims hk).2 q hq).2⟩⟩ }

theorem drawnOf_append (ls : List Launch) (l : Launch) : drawnOf (ls ++ [l]) = drawnOf ls ++ l.task.drawn := by
  simp [drawnOf]

theorem claimsOf_append (ls : List Launch) (l : Launch) : claimsOf (ls ++ [l]) = claimsOf ls ++ l.task.claims := by
  simp [claimsOf]

theorem cpuSum_append (ls : List Launch) (l : Launch) : cpuSum (ls ++ [l]) = cpuSum ls + l.task.cpu := by
  simp [cpuSum]

theorem memSum_append (ls : List Launch) (l : Launch) : memSum (ls ++ [l]) = memSum ls + l.task.mem := by
  simp [memSum]

/-- The step both loops share: a successful `tryPlace` keeps the invariant. -/
theorem inv_step (m : Mode) (o : Offer) (s : OState) (d : Desc) (t : Task) (p : Option Ranges)
    (hsv : ∀ c, d.cls = some c → Valid (c.wants m).static = true)
    (h : Inv m o s) (ht : tryPlace m o s.rem d = .ok t p) :
    Inv m o { s with rem := afterLaunch m.cfg s.rem t p, used := true, launches := s.launches ++ [⟨d, t⟩] } := by
  unfold tryPlace at ht
  by_cases hsat : m.sat o.attrs d.cts = true
  · simp only [hsat, Bool.not_true, Bool.false_eq_true, if_false] at ht
    cases hcls : d.cls with
    | none => rw [hcls] at ht; cases ht
    | some c =>
      rw [hcls] at ht
      simp only at ht
      by_cases hres : resSatisfy s.rem (c.wants m) = true
      · simp only [hres, Bool.not_true, Bool.false_eq_true, if_false] at ht
        cases hmk : makeTask m.cfg (c.wants m) s.rem.ports with
        | early x => rw [hmk] at ht; cases ht
        | late x => rw [hmk] at ht; cases ht
        | panic => rw [hmk] at ht; cases ht
        | ok t' p' =>
          rw [hmk] at ht
          simp only at ht
          injection ht with e1 e2; subst e1 e2
          obtain ⟨k1, k2, k3, k4, k5, k6, k7, k8, k9, k10, k11⟩ :=
            makeTask_spec m.cfg (c.wants m) s.rem.ports (hsv c hcls) h.sub.1 t' p' hmk
          have hcovR : covers s.rem (c.wants m) = true := resSatisfy_covers s.rem _ (hsv c hcls) h.sub.1 hres
          have hcov : covers o.res (c.wants m) = true := covers_mono s.rem o.res _ h.cpu h.mem h.sub hcovR
          obtain ⟨cc, mm, ps, hcc, hmm, hps, hwc, hwm, hin⟩ := covers_scalars s.rem _ hcovR
          obtain ⟨snd, smem⟩ := staticPorts_spec (c.wants m).static (hsv c hcls)
          have hports := afterLaunch_ports m.cfg s.rem t' p'
          refine { cpu := (afterLaunch_cpu_le _ _ _ _).trans h.cpu, mem := (afterLaunch_mem_le _ _ _ _).trans h.mem,
                   sub := ?_, good := ?_, nodup := ?_, fromOffer := ?_, sums := ?_, claims := ?_ }
          · simp only [hports]; exact k9.trans h.sub
          · intro l hl
            rw [List.mem_append] at hl
            cases hl with
            | inl hl => exact h.good l hl
            | inr hl =>
              simp only [List.mem_singleton] at hl; subst hl
              exact ⟨hsat, c, hcls, hsv c hcls, hcov, k6, k7, k8, k5, k3, k4⟩
          · rw [drawnOf_append, List.nodup_append]
            refine ⟨h.nodup, k2, ?_⟩
            intro a ha b hb hab
            subst hab
            have := (h.fromOffer a ha).2
            rw [k1 a hb] at this; cases this
          · intro q hq
            rw [drawnOf_append, List.mem_append] at hq
            simp only [hports] at hq ⊢
            cases hq with
            | inl hq =>
              refine ⟨(h.fromOffer q hq).1, ?_⟩
              rw [k10, (h.fromOffer q hq).2]; rfl
            | inr hq =>
              refine ⟨h.sub.2.1 q (k1 q hq), ?_⟩
              rw [k10]
              have : t'.drawn.contains q = true := by rw [List.contains_eq_mem]; simpa using hq
              rw [this]; simp
          · intro hk
            obtain ⟨s1, s2⟩ := h.sums hk
            rw [cpuSum_append, memSum_append]
            simp only [afterLaunch, hk, if_true, hcc, hmm, avail_subScalar, k6, k7]
            rw [hcc] at s1; rw [hmm] at s2
            simp only [avail, Option.getD_some] at s1 s2 ⊢
            constructor <;> omega
          · intro hk
            obtain ⟨c1, c2⟩ := h.claims hk
            -- the new task's claims: static ports, then drawn ports
            have hst : ∀ x, x ∈ expand (normalize t'.static) → omem x s.rem.ports = true ∧ mem x (c.wants m).static = true := by
              intro x hx
              rw [k8, smem] at hx
              rw [mem_iff] at hx
              obtain ⟨r, hr, hxr⟩ := hx
              refine ⟨?_, by rw [mem_iff]; exact ⟨r, hr, hxr⟩⟩
              rw [hps]; exact hin r hr x hxr
            have hnew : ∀ x ∈ t'.claims, omem x s.rem.ports = true ∧ omem x p' = false := by
              intro x hx
              simp only [Task.claims, List.mem_append] at hx
              cases hx with
              | inl hx =>
                obtain ⟨a1, a2⟩ := hst x hx
                refine ⟨a1, ?_⟩
                rw [k10, hk, a2]; simp
              | inr hx =>
                refine ⟨k1 x hx, ?_⟩
                rw [k10]
                have : t'.drawn.contains x = true := by rw [List.contains_eq_mem]; simpa using hx
                rw [this]; simp
            refine ⟨?_, ?_⟩
            · rw [claimsOf_append, List.nodup_append]
              refine ⟨c1, ?_, ?_⟩
              · simp only [Task.claims]
                rw [List.nodup_append]
                refine ⟨by rw [k8]; exact snd, k2, ?_⟩
                intro a ha b hb hab
                subst hab
                have := k11 hk a hb
                rw [(hst a ha).2] at this; cases this
              · intro a ha b hb hab
                subst hab
                have := (c2 a ha).2
                rw [(hnew a hb).1] at this; cases this
            · intro q hq
              rw [claimsOf_append, List.mem_append] at hq
              simp only [hports]
              cases hq with
              | inl hq =>
                refine ⟨(c2 q hq).1, ?_⟩
                rw [k10, (c2 q hq).2]; rfl
              | inr hq => exact ⟨h.sub.2.1 q (hnew q hq).1, (hnew q hq).2⟩
      · simp [hres] at ht
  · simp [hsat] at ht

/-- `.early`/`.late` leave a sub-resource behind. -/
theorem tryPlace_sub (m : Mode) (o : Offer) (rem : Res) (d : Desc) (hv : OValid rem.ports = true)
    (hsv : ∀ c, d.cls = some c → Valid (c.wants m).static = true) :
    match tryPlace m o rem d with
    | .early p => Sub p rem.ports
    | .late p => Sub p rem.ports
    | _ => True := by
  unfold tryPlace
  by_cases hsat : m.sat o.attrs d.cts = true
  · simp only [hsat, Bool.not_true, Bool.false_eq_true, if_false]
    cases hcls : d.cls with
    | none => trivial
    | some c =>
      simp only
      by_cases hres : resSatisfy rem (c.wants m) = true
      · simp only [hres, Bool.not_true, Bool.false_eq_true, if_false]
        have := makeTask_sub m.cfg (c.wants m) rem.ports (hsv c hcls) hv
        cases hmk : makeTask m.cfg (c.wants m) rem.ports with
        | early x => rw [hmk] at this; exact this
        | late x => rw [hmk] at this; exact this
        | panic => trivial
        | ok t' p' => trivial
      · simp [hres]
  · simp [hsat]

theorem inv_crashed (m : Mode) (o : Offer) (s : OState) (h : Inv m o s) : Inv m o { s with crashed := true } :=
  { cpu := h.cpu, mem := h.mem, sub := h.sub, good := h.good, nodup := h.nodup, fromOffer := h.fromOffer,
    sums := h.sums, claims := h.claims }

theorem prematchLoop_inv (m : Mode) (o : Offer) (ds : List Desc) (s : OState)
    (hsv : StaticValid m ds) (h : Inv m o s) : Inv m o (prematchLoop m o s ds).1 := by
  induction ds generalizing s with
  | nil => exact h
  | cons d ds ih =>
    simp only [prematchLoop]
    have hsub := tryPlace_sub m o s.rem d h.sub.1 (hsv d (List.mem_cons_self))
    cases ht : tryPlace m o s.rem d with
    | skipCts => exact h
    | skipCls => exact h
    | skipRes => exact h
    | early p => rw [ht] at hsub; exact inv_setPorts m o s p s.used h hsub
    | late p => rw [ht] at hsub; exact inv_setPorts m o s p true h hsub
    | panic => exact inv_crashed m o s h
    | ok t p =>
      exact ih _ (fun d' hd' => hsv d' (List.mem_cons_of_mem _ hd'))
        (inv_step m o s d t p (hsv d (List.mem_cons_self)) h ht)

theorem stillLoop_inv (m : Mode) (o : Offer) (ds : List Desc) (s : OState)
    (hsv : StaticValid m ds) (h : Inv m o s) : Inv m o (stillLoop m o s ds).1 := by
  induction ds generalizing s with
  | nil => exact h
  | cons d ds ih =>
    have hsv' : StaticValid m ds := fun d' hd' => hsv d' (List.mem_cons_of_mem _ hd')
    simp only [stillLoop]
    have hsub := tryPlace_sub m o s.rem d h.sub.1 (hsv d (List.mem_cons_self))
    cases ht : tryPlace m o s.rem d with
    | skipCts => exact ih s hsv' h
    | skipCls => exact ih s hsv' h
    | skipRes => exact ih s hsv' h
    | early p => rw [ht] at hsub; exact ih _ hsv' (inv_setPorts m o s p s.used h hsub)
    | late p => rw [ht] at hsub; exact ih _ hsv' (inv_setPorts m o s p true h hsub)
    | panic => exact inv_crashed m o s h
    | ok t p => exact ih _ hsv' (inv_step m o s d t p (hsv d (List.mem_cons_self)) h ht)

theorem inv_init (m : Mode) (o : Offer) (hv : OValid o.res.ports = true) :
    Inv m o { rem := o.res, launches := [], used := false, crashed := false } :=
  { cpu := OLe.refl _, mem := OLe.refl _, sub := Sub.refl _ hv, good := by simp, nodup := by simp [drawnOf],
    fromOffer := by simp [drawnOf],
    sums := fun _ => by simp [cpuSum, memSum],
    claims := fun _ => by simp [claimsOf] }

/-! ### the `used` flag and what stays -/

theorem prematchLoop_used (m : Mode) (o : Offer) (ds : List Desc) (s : OState)
    (h : s.launches ≠ [] → s.used = true) :
    (prematchLoop m o s ds).1.launches ≠ [] → (prematchLoop m o s ds).1.used = true := by
  induction ds generalizing s with
  | nil => exact h
  | cons d ds ih =>
    simp only [prematchLoop]
    cases tryPlace m o s.rem d with
    | skipCts => exact h
    | skipCls => exact h
    | skipRes => exact h
    | early p => exact h
    | late p => exact fun _ => rfl
    | panic => exact h
    | ok t p => exact ih _ (fun _ => rfl)

theorem stillLoop_used (m : Mode) (o : Offer) (ds : List Desc) (s : OState)
    (h : s.launches ≠ [] → s.used = true) :
    (stillLoop m o s ds).1.launches ≠ [] → (stillLoop m o s ds).1.used = true := by
  induction ds generalizing s with
  | nil => exact h
  | cons d ds ih =>
    simp only [stillLoop]
    cases tryPlace m o s.rem d with
    | skipCts => exact ih s h
    | skipCls => exact ih s h
    | skipRes => exact ih s h
    | early p => exact ih _ h
    | late p => exact ih _ (fun _ => rfl)
    | panic => exact h
    | ok t p => exact ih _ (fun _ => rfl)

theorem stillLoop_kept (m : Mode) (o : Offer) (ds : List Desc) (s : OState) :
    ∀ d ∈ (stillLoop m o s ds).2, d ∈ ds := by
  induction ds generalizing s with
  | nil => simp [stillLoop]
  | cons d ds ih =>
    simp only [stillLoop]
    cases tryPlace m o s.rem d with
    | skipCts => intro x hx; simp only [List.mem_cons] at hx ⊢; exact hx.imp id (ih s x)
    | skipCls => intro x hx; simp only [List.mem_cons] at hx ⊢; exact hx.imp id (ih s x)
    | skipRes => intro x hx; simp only [List.mem_cons] at hx ⊢; exact hx.imp id (ih s x)
    | early p => intro x hx; simp only [List.mem_cons] at hx ⊢; exact hx.imp id (ih _ x)
    | late p => intro x hx; simp only [List.mem_cons] at hx ⊢; exact hx.imp id (ih _ x)
    | panic => intro x hx; exact hx
    | ok t p => intro x hx; exact List.mem_cons_of_mem _ (ih _ x hx)

/-! ### no crash when the draws are checked -/

theorem tryPlace_no_panic (m : Mode) (hk : m.cfg.drawChecked = true) (o : Offer) (rem : Res) (d : Desc) :
    tryPlace m o rem d = .panic → False := by
  unfold tryPlace
  by_cases hsat : m.sat o.attrs d.cts = true
  · simp only [hsat, Bool.not_true, Bool.false_eq_true, if_false]
    cases d.cls with
    | none => intro h; cases h
    | some c =>
      simp only
      by_cases hres : resSatisfy rem (c.wants m) = true
      · simp only [hres, Bool.not_true, Bool.false_eq_true, if_false]
        have := makeTask_no_panic m.cfg hk (c.wants m) rem.ports
        cases hmk : makeTask m.cfg (c.wants m) rem.ports with
        | early x => intro h; cases h
        | late x => intro h; cases h
        | panic => rw [hmk] at this; cases this
        | ok t' p' => intro h; cases h
      · simp only [hres, Bool.not_false, if_true]; intro h; cases h
  · simp only [hsat, Bool.not_false, if_true]; intro h; cases h

theorem prematchLoop_crashed (m : Mode) (hk : m.cfg.drawChecked = true) (o : Offer) (ds : List Desc) (s : OState) :
    (prematchLoop m o s ds).1.crashed = s.crashed := by
  induction ds generalizing s with
  | nil => rfl
  | cons d ds ih =>
    simp only [prematchLoop]
    cases ht : tryPlace m o s.rem d with
    | skipCts => rfl
    | skipCls => rfl
    | skipRes => rfl
    | early p => rfl
    | late p => rfl
    | panic => exact (tryPlace_no_panic m hk o s.rem d ht).elim
    | ok t p => rw [ih]

theorem stillLoop_crashed (m : Mode) (hk : m.cfg.drawChecked = true) (o : Offer) (ds : List Desc) (s : OState) :
    (stillLoop m o s ds).1.crashed = s.crashed := by
  induction ds generalizing s with
  | nil => rfl
  | cons d ds ih =>
    simp only [stillLoop]
    cases ht : tryPlace m o s.rem d with
    | skipCts => rw [ih]
    | skipCls => rw [ih]
    | skipRes => rw [ih]
    | early p => rw [ih]
    | late p => rw [ih]
    | panic => exact (tryPlace_no_panic m hk o s.rem d ht).elim
    | ok t p => rw [ih]

theorem preprocess_sub (offers : List Offer) (ds : List Desc) :
    (∀ e ∈ (preprocess offers ds).1, e.2 ∈ ds) ∧ (∀ d ∈ (preprocess offers ds).2.1, d ∈ ds) := by
  induction ds with
  | nil => simp [preprocess]
  | cons d ds ih =>
    simp only [preprocess]
    split
    · rename_i hreq
      exact ⟨fun e he => List.mem_cons_of_mem _ (ih.1 e he),
        fun x hx => by simp only [List.mem_cons] at hx ⊢; exact hx.imp id (ih.2 x)⟩
    · split
      · exact ⟨fun e he => by
          simp only [List.mem_cons] at he ⊢
          cases he with
          | inl h => left; rw [h]
          | inr h => right; exact ih.1 e h,
          fun x hx => List.mem_cons_of_mem _ (ih.2 x hx)⟩
      · exact ⟨fun e he => List.mem_cons_of_mem _ (ih.1 e he), fun x hx => List.mem_cons_of_mem _ (ih.2 x hx)⟩

/-! ## the round -/

/-- What holds of the launches accepted on one offer. -/
def PerOffer (m : Mode) (o : Offer) (ls : List Launch) : Prop :=
  (∀ l ∈ ls, Good m o l) ∧ (drawnOf ls).Nodup ∧ (∀ p ∈ drawnOf ls, omem p o.res.ports = true) ∧
  (m.cfg.scalarsSubtracted = true → cpuSum ls ≤ avail o.res.cpu ∧ memSum ls ≤ avail o.res.mem) ∧
  (m.cfg.staticReserved = true → (claimsOf ls).Nodup ∧ ∀ p ∈ claimsOf ls, omem p o.res.ports = true)

theorem inv_perOffer (m : Mode) (o : Offer) (s : OState) (h : Inv m o s) : PerOffer m o s.launches :=
  ⟨h.good, h.nodup, fun p hp => (h.fromOffer p hp).1,
    fun hk => ⟨by have := (h.sums hk).1; omega, by have := (h.sums hk).2; omega⟩,
    fun hk => ⟨(h.claims hk).1, fun p hp => ((h.claims hk).2 p hp).1⟩⟩

structure RInv (m : Mode) (descs : List Desc) (order : List Offer) (st : RState) : Prop where
  still : ∀ d ∈ st.still, d ∈ descs
  accepts : ∀ a ∈ st.accepts, ∃ o ∈ order, a.oid = o.oid ∧ PerOffer m o a.launches
  used : ∀ i ∈ st.usedIds, ∃ a ∈ st.accepts, a.oid = i
  launched : ∀ a ∈ st.accepts, a.launches ≠ [] → a.oid ∈ st.usedIds

theorem handleOffer_inv (m : Mode) (descs : List Desc) (order : List Offer) (pm : List (Nat × Desc))
    (hpm : ∀ e ∈ pm, e.2 ∈ descs) (hsv : StaticValid m descs)
    (st : RState) (o : Offer) (ho : o ∈ order) (hv : OValid o.res.ports = true)
    (h : RInv m descs order st) : RInv m descs order (handleOffer m pm st o) := by
  unfold handleOffer
  by_cases hcr : st.crashed = true
  · simp only [hcr, if_true]; exact h
  · simp only [hcr, Bool.false_eq_true, if_false]
    have hmine : StaticValid m ((pm.filter (fun e => decide (e.1 = o.oid))).map (·.2)) := by
      intro d hd
      simp only [List.mem_map, List.mem_filter] at hd
      obtain ⟨e, ⟨he, _⟩, rfl⟩ := hd
      exact hsv _ (hpm e he)
    have i0 := inv_init m o hv
    have i1 := prematchLoop_inv m o _ _ hmine i0
    have u1 := prematchLoop_used m o ((pm.filter (fun e => decide (e.1 = o.oid))).map (·.2))
      { rem := o.res, launches := [], used := false, crashed := false } (by simp)
    generalize prematchLoop m o { rem := o.res, launches := [], used := false, crashed := false }
      ((pm.filter (fun e => decide (e.1 = o.oid))).map (·.2)) = r1 at i1 u1
    obtain ⟨s1, und1⟩ := r1
    simp only at i1 u1 ⊢
    by_cases hc1 : s1.crashed = true
    · simp only [hc1, if_true]
      exact { still := h.still, accepts := h.accepts, used := h.used, launched := h.launched }
    · simp only [hc1, Bool.false_eq_true, if_false]
      -- the second loop
      have hstill : StaticValid m st.still.reverse := by
        intro d hd; exact hsv d (h.still d (List.mem_reverse.mp hd))
      have key : ∃ s2 still, (if (st.und ++ und1).isEmpty = true then
            ((stillLoop m o s1 st.still.reverse).1, (stillLoop m o s1 st.still.reverse).2.reverse)
          else (s1, st.still)) = (s2, still) ∧ Inv m o s2 ∧ (s2.launches ≠ [] → s2.used = true) ∧
          (∀ d ∈ still, d ∈ descs) := by
        by_cases hu : (st.und ++ und1).isEmpty = true
        · refine ⟨(stillLoop m o s1 st.still.reverse).1, (stillLoop m o s1 st.still.reverse).2.reverse,
            by simp [hu], stillLoop_inv m o _ _ hstill i1, stillLoop_used m o _ _ u1, ?_⟩
          intro d hd
          exact h.still d (List.mem_reverse.mp (stillLoop_kept m o _ _ d (List.mem_reverse.mp hd)))
        · exact ⟨s1, st.still, by simp [hu], i1, u1, h.still⟩
      obtain ⟨s2, still, hk, i2, u2, hst⟩ := key
      have hk' : (if (st.und ++ und1).isEmpty = true then
            (match stillLoop m o s1 st.still.reverse with | (s2, keptRev) => (s2, keptRev.reverse))
          else (s1, st.still)) = (s2, still) := by
        rw [← hk]
      simp only [hk']
      by_cases hc2 : s2.crashed = true
      · simp only [hc2, if_true]
        exact { still := hst, accepts := h.accepts, used := h.used, launched := h.launched }
      · simp only [hc2, Bool.false_eq_true, if_false]
        refine { still := hst, accepts := ?_, used := ?_, launched := ?_ }
        · intro a ha
          rw [List.mem_append] at ha
          cases ha with
          | inl ha => exact h.accepts a ha
          | inr ha =>
            simp only [List.mem_singleton] at ha; subst ha
            exact ⟨o, ho, rfl, inv_perOffer m o s2 i2⟩
        · intro i hi
          by_cases hu2 : s2.used = true
          · simp only [hu2, if_true, List.mem_append, List.mem_singleton] at hi
            cases hi with
            | inl hi =>
              obtain ⟨a, ha, rfl⟩ := h.used i hi
              exact ⟨a, List.mem_append_left _ ha, rfl⟩
            | inr hi => exact ⟨⟨o.oid, s2.launches⟩, by simp, hi.symm⟩
          · simp only [hu2, Bool.false_eq_true, if_false] at hi
            obtain ⟨a, ha, rfl⟩ := h.used i hi
            exact ⟨a, List.mem_append_left _ ha, rfl⟩
        · intro a ha hne
          rw [List.mem_append] at ha
          cases ha with
          | inl ha =>
            have := h.launched a ha hne
            split
            · exact List.mem_append_left _ this
            · exact this
          | inr ha =>
            simp only [List.mem_singleton] at ha; subst ha
            have := u2 hne
            simp [this]

theorem foldl_handleOffer_inv (m : Mode) (descs : List Desc) (order : List Offer) (pm : List (Nat × Desc))
    (hpm : ∀ e ∈ pm, e.2 ∈ descs) (hsv : StaticValid m descs)
    (os : List Offer) (hos : ∀ o ∈ os, o ∈ order ∧ OValid o.res.ports = true)
    (st : RState) (h : RInv m descs order st) : RInv m descs order (os.foldl (handleOffer m pm) st) := by
  induction os generalizing st with
  | nil => exact h
  | cons o os ih =>
    simp only [List.foldl_cons]
    exact ih (fun x hx => hos x (List.mem_cons_of_mem _ hx)) _
      (handleOffer_inv m descs order pm hpm hsv st o (hos o List.mem_cons_self).1 (hos o List.mem_cons_self).2 h)

/-- Every ACCEPT of a round carries launches that are good for the offer it answers. -/
theorem round_accepts (m : Mode) (offers : List Offer) (descs : List Desc) (order : List Offer)
    (hv : ∀ o ∈ order, OValid o.res.ports = true) (hsv : StaticValid m descs) :
    ∀ a ∈ (round m offers descs order).accepts, ∃ o ∈ order, a.oid = o.oid ∧ PerOffer m o a.launches := by
  unfold round
  by_cases hd : descs.isEmpty = true
  · simp [hd]
  · simp only [hd, Bool.false_eq_true, if_false]
    have hp := preprocess_sub offers descs
    generalize preprocess offers descs = pp at hp
    obtain ⟨pm, still, und⟩ := pp
    simp only at hp ⊢
    by_cases hu : und.isEmpty = true
    · simp only [hu, Bool.not_true, Bool.false_eq_true, if_false]
      exact (foldl_handleOffer_inv m descs order pm hp.1 hsv order (fun o ho => ⟨ho, hv o ho⟩) _
        { still := hp.2, accepts := by simp, used := by simp, launched := by simp }).accepts
    · simp [hu]

/-- With the emptiness tests in front of `Min()` the handling of an offer cannot crash. -/
theorem handleOffer_crashed (m : Mode) (hk : m.cfg.drawChecked = true) (pm : List (Nat × Desc)) (st : RState) (o : Offer)
    (h : st.crashed = false) : (handleOffer m pm st o).crashed = false := by
  unfold handleOffer
  simp only [h, Bool.false_eq_true, if_false]
  have c1 := prematchLoop_crashed m hk o ((pm.filter (fun e => decide (e.1 = o.oid))).map (·.2))
    { rem := o.res, launches := [], used := false, crashed := false }
  generalize prematchLoop m o { rem := o.res, launches := [], used := false, crashed := false }
    ((pm.filter (fun e => decide (e.1 = o.oid))).map (·.2)) = r1 at c1
  obtain ⟨s1, und1⟩ := r1
  simp only at c1 ⊢
  simp only [c1, Bool.false_eq_true, if_false]
  by_cases hu : (st.und ++ und1).isEmpty = true
  · have c2 := stillLoop_crashed m hk o st.still.reverse s1
    simp only [hu, if_true]
    generalize stillLoop m o s1 st.still.reverse = r2 at c2
    obtain ⟨s2, kept⟩ := r2
    simp only at c2 ⊢
    simp [c2, c1]
  · simp [hu, c1]

theorem foldl_handleOffer_crashed (m : Mode) (hk : m.cfg.drawChecked = true) (pm : List (Nat × Desc))
    (os : List Offer) (st : RState) (h : st.crashed = false) : (os.foldl (handleOffer m pm) st).crashed = false := by
  induction os generalizing st with
  | nil => exact h
  | cons o os ih => simp only [List.foldl_cons]; exact ih _ (handleOffer_crashed m hk pm st o h)

/-- … and neither can the round. -/
theorem round_no_crash (m : Mode) (hk : m.cfg.drawChecked = true) (offers : List Offer) (descs : List Desc)
    (order : List Offer) : (round m offers descs order).crashed = false := by
  unfold round
  by_cases hd : descs.isEmpty = true
  · simp [hd]
  · simp only [hd, Bool.false_eq_true, if_false]
    generalize preprocess offers descs = pp
    obtain ⟨pm, still, und⟩ := pp
    simp only
    by_cases hu : und.isEmpty = true
    · simp only [hu, Bool.not_true, Bool.false_eq_true, if_false]
      exact foldl_handleOffer_crashed m hk pm order _ rfl
    · simp [hu]

/-- Declines: an offer that is not declined was answered by an ACCEPT, and an
    ACCEPT that launches something is not also declined. -/
theorem round_declines (m : Mode) (offers : List Offer) (descs : List Desc) (order : List Offer)
    (hv : ∀ o ∈ order, OValid o.res.ports = true) (hsv : StaticValid m descs) :
    let out := round m offers descs order
    (∀ o ∈ offers, o.oid ∈ out.declined ∨ ∃ a ∈ out.accepts, a.oid = o.oid) ∧
    (∀ a ∈ out.accepts, a.launches ≠ [] → a.oid ∉ out.declined) := by
  unfold round
  by_cases hd : descs.isEmpty = true
  · simp only [hd, if_true]
    exact ⟨fun o ho => Or.inl (List.mem_map_of_mem ho), by simp⟩
  · simp only [hd, Bool.false_eq_true, if_false]
    have hp := preprocess_sub offers descs
    generalize preprocess offers descs = pp at hp
    obtain ⟨pm, still, und⟩ := pp
    simp only at hp ⊢
    by_cases hu : und.isEmpty = true
    · simp only [hu, Bool.not_true, Bool.false_eq_true, if_false]
      have inv := foldl_handleOffer_inv m descs order pm hp.1 hsv order (fun o ho => ⟨ho, hv o ho⟩)
        { still := still, und := [], accepts := [], usedIds := [], crashed := false }
        { still := hp.2, accepts := by simp, used := by simp, launched := by simp }
      generalize List.foldl (handleOffer m pm) { still := still, und := [], accepts := [], usedIds := [], crashed := false } order = st at inv
      refine ⟨?_, ?_⟩
      · intro o ho
        by_cases hused : o.oid ∈ st.usedIds
        · exact Or.inr (inv.used _ hused)
        · left
          rw [List.mem_filter]
          refine ⟨List.mem_map_of_mem ho, ?_⟩
          simp [hused]
      · intro a ha hne hdecl
        rw [List.mem_filter] at hdecl
        have := inv.launched a ha hne
        simp [this] at hdecl
    · simp only [hu, Bool.not_false, if_true]
      exact ⟨fun o ho => Or.inl (List.mem_map_of_mem ho), by simp⟩


/-! ## `RangesFromExpression` reads back what a template writes -/

theorem digit_facts : ∀ k : Fin 10, digitVal (Char.ofNat ('0'.toNat + k.val)) = some k.val ∧
    Char.ofNat ('0'.toNat + k.val) ≠ ',' ∧ Char.ofNat ('0'.toNat + k.val) ≠ '-' ∧
    isSpace (Char.ofNat ('0'.toNat + k.val)) = false := by
  decide

/-- a character a number is printed with -/
def IsDigit (c : Char) : Prop := ∃ k : Fin 10, c = Char.ofNat ('0'.toNat + k.val)

theorem isDigit_mod (n : Nat) : IsDigit (Char.ofNat ('0'.toNat + n % 10)) :=
  ⟨⟨n % 10, Nat.mod_lt _ (by decide)⟩, rfl⟩

theorem digitVal_mod (n : Nat) : digitVal (Char.ofNat ('0'.toNat + n % 10)) = some (n % 10) :=
  (digit_facts ⟨n % 10, Nat.mod_lt _ (by decide)⟩).1

theorem digitsAux_acc (fuel n : Nat) (acc : List Char) : digitsAux fuel n acc = digitsAux fuel n [] ++ acc := by
  induction fuel generalizing n acc with
  | zero => simp [digitsAux]
  | succ f ih =>
    simp only [digitsAux]
    split
    · simp
    · rw [ih (n / 10) (_ :: acc), ih (n / 10) [_]]; simp

theorem parseDigits_snoc (a : Nat) (xs : List Char) (c : Char) :
    parseDigits a (xs ++ [c]) = match parseDigits a xs with
      | some v => (digitVal c).map (fun d => v * 10 + d)
      | none => none := by
  induction xs generalizing a with
  | nil =>
    simp only [List.nil_append, parseDigits]
    cases digitVal c <;> simp [parseDigits]
  | cons x xs ih =>
    simp only [List.cons_append, parseDigits]
    cases digitVal x with
    | none => rfl
    | some d => exact ih _

theorem parseDigits_digitsAux (fuel n : Nat) (h : n < fuel) : parseDigits 0 (digitsAux fuel n []) = some n := by
  induction fuel generalizing n with
  | zero => omega
  | succ f ih =>
    simp only [digitsAux]
    split
    · rename_i hz
      simp only [parseDigits, digitVal_mod]
      have : n % 10 = n := Nat.mod_eq_of_lt (by omega)
      simp [this]
    · rename_i hz
      rw [digitsAux_acc, parseDigits_snoc, ih (n / 10) (by omega), digitVal_mod]
      simp only [Option.map_some]
      congr 1
      omega

theorem digitsAux_chars (fuel n : Nat) (acc : List Char) :
    ∀ c ∈ digitsAux fuel n acc, c ∈ acc ∨ IsDigit c := by
  induction fuel generalizing n acc with
  | zero => intro c hc; exact Or.inl hc
  | succ f ih =>
    simp only [digitsAux]
    split
    · intro c hc
      simp only [List.mem_cons] at hc
      cases hc with
      | inl h => exact Or.inr (h ▸ isDigit_mod n)
      | inr h => exact Or.inl h
    · intro c hc
      cases ih (n / 10) _ c hc with
      | inl h =>
        simp only [List.mem_cons] at h
        cases h with
        | inl h => exact Or.inr (h ▸ isDigit_mod n)
        | inr h => exact Or.inl h
      | inr h => exact Or.inr h

theorem printNat_digits (n : Nat) : ∀ c ∈ printNat n, IsDigit c := by
  intro c hc
  cases digitsAux_chars (n + 1) n [] c hc with
  | inl h => cases h
  | inr h => exact h

theorem printNat_ne_nil (n : Nat) : printNat n ≠ [] := by
  unfold printNat
  simp only [digitsAux]
  split
  · simp
  · rw [digitsAux_acc]; simp

theorem parseUint_printNat (n : Nat) (h : n < 2 ^ 64) : parseUint (printNat n) = some n := by
  unfold parseUint
  have hne := printNat_ne_nil n
  have hp : parseDigits 0 (printNat n) = some n := parseDigits_digitsAux (n + 1) n (by omega)
  cases hx : printNat n with
  | nil => exact absurd hx hne
  | cons c cs =>
    rw [hx] at hp
    simp only [hp, h, if_true]

theorem IsDigit.ne_comma {c : Char} (h : IsDigit c) : c ≠ ',' := by
  obtain ⟨k, rfl⟩ := h; exact (digit_facts k).2.1
theorem IsDigit.ne_dash {c : Char} (h : IsDigit c) : c ≠ '-' := by
  obtain ⟨k, rfl⟩ := h; exact (digit_facts k).2.2.1
theorem IsDigit.not_space {c : Char} (h : IsDigit c) : isSpace c = false := by
  obtain ⟨k, rfl⟩ := h; exact (digit_facts k).2.2.2

theorem splitOn_ne_nil (sep : Char) (s : List Char) : splitOn sep s ≠ [] := by
  induction s with
  | nil => simp [splitOn]
  | cons c cs ih =>
    simp only [splitOn]
    split
    · simp
    · cases h : splitOn sep cs with
      | nil => simp
      | cons t ts => simp

theorem splitOn_single (sep : Char) (tok : List Char) (h : ∀ c ∈ tok, c ≠ sep) : splitOn sep tok = [tok] := by
  induction tok with
  | nil => rfl
  | cons c cs ih =>
    have hc : c ≠ sep := h c List.mem_cons_self
    simp only [splitOn, hc, if_false]
    rw [ih (fun x hx => h x (List.mem_cons_of_mem _ hx))]

theorem splitOn_append (sep : Char) (tok rest : List Char) (h : ∀ c ∈ tok, c ≠ sep) :
    splitOn sep (tok ++ sep :: rest) = tok :: splitOn sep rest := by
  induction tok with
  | nil => simp [splitOn]
  | cons c cs ih =>
    have hc : c ≠ sep := h c List.mem_cons_self
    simp only [List.cons_append, splitOn, hc, if_false]
    rw [ih (fun x hx => h x (List.mem_cons_of_mem _ hx))]

theorem trimLeft_id (s : List Char) (h : ∀ c ∈ s, isSpace c = false) : trimLeft s = s := by
  cases s with
  | nil => rfl
  | cons c cs => simp [trimLeft, h c List.mem_cons_self]

theorem trimSpace_id (s : List Char) (h : ∀ c ∈ s, isSpace c = false) : trimSpace s = s := by
  unfold trimSpace
  rw [trimLeft_id s h, trimLeft_id s.reverse (fun c hc => h c (List.mem_reverse.mp hc)), List.reverse_reverse]

/-- characters of a printed range: digits and '-' -/
theorem printRange_chars (r : Range) : ∀ c ∈ printRange r, IsDigit c ∨ c = '-' := by
  intro c hc
  unfold printRange at hc
  split at hc
  · exact Or.inl (printNat_digits _ c hc)
  · simp only [List.mem_append, List.mem_cons] at hc
    rcases hc with h | h | h
    · exact Or.inl (printNat_digits _ c h)
    · exact Or.inr h
    · exact Or.inl (printNat_digits _ c h)

theorem dash_not_space : isSpace '-' = false := by decide
theorem comma_not_space : isSpace ',' = false := by decide

theorem parseItem_printRange (fixed : Bool) (r : Range) (hf : fixed = true ∨ r.1 = r.2)
    (h1 : r.1 < 2 ^ 64) (h2 : r.2 < 2 ^ 64) :
    parseItem fixed (printRange r) = some r := by
  unfold parseItem
  have hns : ∀ c ∈ printRange r, isSpace c = false := by
    intro c hc
    cases printRange_chars r c hc with
    | inl h => exact h.not_space
    | inr h => rw [h]; exact dash_not_space
  rw [trimSpace_id _ hns]
  unfold printRange
  by_cases he : r.1 = r.2
  · simp only [he, if_true]
    rw [splitOn_single '-' _ (fun c hc => (printNat_digits _ c hc).ne_dash)]
    simp only [parseUint_printNat r.2 h2, Option.map_some]
    congr 1
    exact Prod.ext he.symm rfl
  · have hfix : fixed = true := hf.resolve_right he
    subst hfix
    simp only [he, if_false]
    rw [splitOn_append '-' _ _ (fun c hc => (printNat_digits _ c hc).ne_dash),
      splitOn_single '-' _ (fun c hc => (printNat_digits _ c hc).ne_dash)]
    simp only [parseUint_printNat r.1 h1, parseUint_printNat r.2 h2, if_true]

theorem printRange_ne_nil (r : Range) : printRange r ≠ [] := by
  unfold printRange
  split
  · exact printNat_ne_nil _
  · have := printNat_ne_nil r.1
    cases h : printNat r.1 with
    | nil => exact absurd h this
    | cons c cs => simp

theorem parseItems_printRanges (fixed : Bool) (r : Range) (rs : Ranges)
    (hf : fixed = true ∨ ∀ x ∈ r :: rs, x.1 = x.2)
    (h : ∀ x ∈ r :: rs, x.1 < 2 ^ 64 ∧ x.2 < 2 ^ 64) :
    parseItems fixed (splitOn ',' (printRanges (r :: rs))) = some (r :: rs) := by
  induction rs generalizing r with
  | nil =>
    simp only [printRanges]
    rw [splitOn_single ',' _ (fun c hc => by
      cases printRange_chars r c hc with
      | inl h => exact h.ne_comma
      | inr h => rw [h]; decide)]
    simp only [parseItems, parseItem_printRange fixed r (hf.imp id (fun h' => h' r List.mem_cons_self))
      (h r List.mem_cons_self).1 (h r List.mem_cons_self).2, Option.map_some]
  | cons s rest ih =>
    simp only [printRanges]
    rw [splitOn_append ',' _ _ (fun c hc => by
      cases printRange_chars r c hc with
      | inl h => exact h.ne_comma
      | inr h => rw [h]; decide)]
    simp only [parseItems, parseItem_printRange fixed r (hf.imp id (fun h' => h' r List.mem_cons_self))
      (h r List.mem_cons_self).1 (h r List.mem_cons_self).2]
    rw [ih s (hf.imp id (fun h' x hx => h' x (List.mem_cons_of_mem _ hx))) (fun x hx => h x (List.mem_cons_of_mem _ hx))]
    rfl

theorem printRanges_chars (rs : Ranges) : ∀ c ∈ printRanges rs, isSpace c = false := by
  induction rs with
  | nil => intro c hc; cases hc
  | cons r rest ih =>
    have hr : ∀ c ∈ printRange r, isSpace c = false := by
      intro c hc
      cases printRange_chars r c hc with
      | inl h => exact h.not_space
      | inr h => rw [h]; exact dash_not_space
    cases rest with
    | nil => exact hr
    | cons s rest' =>
      intro c hc
      simp only [printRanges, List.mem_append, List.mem_cons] at hc
      rcases hc with h | h | h
      · exact hr c h
      · rw [h]; exact comma_not_space
      · exact ih c h

theorem printRanges_ne_nil (r : Range) (rs : Ranges) : printRanges (r :: rs) ≠ [] := by
  cases rs with
  | nil => exact printRange_ne_nil r
  | cons s rest =>
    simp only [printRanges]
    have := printRange_ne_nil r
    cases h : printRange r with
    | nil => exact absurd h this
    | cons c cs => simp

theorem parseRanges_printRanges (fixed : Bool) (rs : Ranges) (hf : fixed = true ∨ ∀ x ∈ rs, x.1 = x.2)
    (h : ∀ x ∈ rs, x.1 < 2 ^ 64 ∧ x.2 < 2 ^ 64) :
    parseRanges fixed (printRanges rs) = some rs := by
  cases rs with
  | nil => rfl
  | cons r rest =>
    unfold parseRanges
    rw [trimSpace_id _ (printRanges_chars (r :: rest))]
    have := printRanges_ne_nil r rest
    cases hx : printRanges (r :: rest) with
    | nil => exact absurd hx this
    | cons c cs =>
      simp only [List.isEmpty_cons, Bool.false_eq_true, if_false]
      rw [← hx]
      exact parseItems_printRanges fixed r rest hf h

theorem nodupNat_iff (xs : List Nat) : nodupNat xs = true ↔ xs.Nodup := by
  induction xs with
  | nil => simp [nodupNat]
  | cons x xs ih =>
    simp only [nodupNat, Bool.and_eq_true, Bool.not_eq_true', List.nodup_cons, ih]
    constructor
    · rintro ⟨h1, h2⟩
      refine ⟨?_, h2⟩
      intro hx
      rw [List.contains_eq_mem] at h1
      simp [hx] at h1
    · rintro ⟨h1, h2⟩
      refine ⟨?_, h2⟩
      rw [List.contains_eq_mem]
      simp [h1]

theorem findOffer_unique (offers : List Offer) (o : Offer) (ho : o ∈ offers)
    (hu : (offers.map (·.oid)).Nodup) : findOffer offers o.oid = some o := by
  induction offers with
  | nil => cases ho
  | cons x xs ih =>
    simp only [List.map_cons, List.nodup_cons] at hu
    unfold findOffer
    simp only [List.find?]
    cases ho with
    | head => simp
    | tail _ ho' =>
      have hne : ¬ x.oid = o.oid := by
        intro heq
        exact hu.1 (heq ▸ List.mem_map_of_mem ho')
      simp only [hne, decide_false]
      exact ih ho' hu.2

end Placement
