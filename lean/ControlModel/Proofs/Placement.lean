/-
  Proofs/Placement — lemmas behind the C05 property theorems (core Lean only).
-/
import ControlModel.Model.Placement
import ControlModel.Spec.C05

namespace Placement

/-! ## constraints -/

theorem satisfy_sound (as : Attrs) (cts : Constraints) (h : satisfy as cts = true) :
    ∀ c ∈ cts, holds as c = true := by
  intro c hc
  unfold satisfy at h
  cases cts with
  | nil => cases hc
  | cons d ds =>
    simp only [List.isEmpty_cons, Bool.false_or, Bool.and_eq_true, List.all_eq_true] at h
    exact h.1 c hc

theorem satisfy_iff (as : Attrs) (cts : Constraints) :
    satisfy as cts = true ↔ cts = [] ∨ ((∀ c ∈ cts, holds as c = true) ∧ ∃ c ∈ cts, c.op = 0) := by
  unfold satisfy
  cases cts with
  | nil => simp
  | cons d ds =>
    simp only [List.isEmpty_cons, Bool.false_or, Bool.and_eq_true, List.all_eq_true, List.any_eq_true,
      decide_eq_true_eq, reduceCtorEq, false_or]

/-- the coded loop returns the verdict of the LAST Equals constraint (or the start value) -/
theorem satLoop_append (as : Attrs) (ok : Bool) (xs : Constraints) (c : Constraint) :
    satLoop as ok (xs ++ [c]) = if c.op = 0 then holds as c else satLoop as ok xs := by
  induction xs generalizing ok with
  | nil => simp [satLoop]
  | cons x xs ih =>
    simp only [List.cons_append, satLoop]
    split <;> exact ih _

/-! ## MergeParent -/

theorem lookupC_upsert (m : Constraints) (c : Constraint) (a : String) :
    lookupC (upsert m c) a = if c.attr = a then some c else lookupC m a := by
  induction m with
  | nil => simp [upsert, lookupC, List.find?]
  | cons p rest ih =>
    unfold lookupC at ih ⊢
    simp only [upsert]
    by_cases hcp : c.attr = p.attr
    · simp only [hcp, if_true, List.find?]
      by_cases hpa : p.attr = a
      · simp [hpa]
      · simp [hpa]
    · simp only [hcp, if_false, List.find?]
      by_cases hpa : p.attr = a
      · have : ¬ c.attr = a := fun h => hcp (h.trans hpa.symm)
        simp [hpa, this]
      · simp only [hpa, decide_false]
        exact ih

theorem lookupC_foldl_upsert (cts : Constraints) (parent : Constraints) (a : String) :
    lookupC (cts.foldl upsert parent) a =
      (match lastDef cts a with | some c => some c | none => lookupC parent a) := by
  induction cts generalizing parent with
  | nil => simp [lastDef]
  | cons c rest ih =>
    simp only [List.foldl_cons, lastDef]
    rw [ih]
    cases h : lastDef rest a with
    | some d => simp
    | none =>
      simp only [lookupC_upsert]
      by_cases hca : c.attr = a <;> simp [hca]

/-- one merge: the child's (last) definition of an attribute decides, else the parent's -/
theorem lookupC_mergeParent (child parent : Constraints) (a : String) :
    lookupC (mergeParent child parent) a =
      (match lastDef child a with | some c => some c | none => lookupC parent a) :=
  lookupC_foldl_upsert child parent a

theorem lookupC_effective (chain : List Constraints) (a : String) :
    lookupC (effective chain) a = nearestDef chain a := by
  induction chain with
  | nil => simp [effective, nearestDef, lookupC]
  | cons own rest ih =>
    cases rest with
    | nil => simp [effective, nearestDef]
    | cons r rs =>
      simp only [effective, nearestDef]
      rw [lookupC_mergeParent, ih]
      cases lastDef own a <;> rfl

/-! ### no duplicates -/

def hasAttr (m : Constraints) (a : String) : Bool := m.any (fun d => d.attr = a)

theorem hasAttr_upsert (m : Constraints) (c : Constraint) (a : String) :
    hasAttr (upsert m c) a = (hasAttr m a || decide (c.attr = a)) := by
  induction m with
  | nil => simp [upsert, hasAttr]
  | cons p rest ih =>
    unfold hasAttr at ih ⊢
    simp only [upsert]
    by_cases hcp : c.attr = p.attr
    · simp only [hcp, if_true, List.any_cons]
      by_cases hpa : p.attr = a <;> simp [hpa]
    · simp only [hcp, if_false, List.any_cons, ih, Bool.or_assoc]

theorem noDupAttr_upsert (m : Constraints) (c : Constraint) (h : noDupAttr m = true) :
    noDupAttr (upsert m c) = true := by
  induction m with
  | nil => simp [upsert, noDupAttr]
  | cons p rest ih =>
    simp only [noDupAttr, Bool.and_eq_true, Bool.not_eq_true'] at h
    simp only [upsert]
    by_cases hcp : c.attr = p.attr
    · simp only [hcp, if_true, noDupAttr, Bool.and_eq_true, Bool.not_eq_true']
      exact ⟨h.1, h.2⟩
    · simp only [hcp, if_false, noDupAttr, Bool.and_eq_true, Bool.not_eq_true']
      refine ⟨?_, ih h.2⟩
      have := hasAttr_upsert rest c p.attr
      unfold hasAttr at this
      rw [this, h.1]
      simp [hcp]

theorem noDupAttr_mergeParent (child parent : Constraints) (h : noDupAttr parent = true) :
    noDupAttr (mergeParent child parent) = true := by
  unfold mergeParent
  induction child generalizing parent with
  | nil => exact h
  | cons c rest ih => exact ih _ (noDupAttr_upsert parent c h)

theorem noDupAttr_effective (chain : List Constraints) (h : ∀ l ∈ chain, noDupAttr l = true) :
    noDupAttr (effective chain) = true := by
  induction chain with
  | nil => rfl
  | cons own rest ih =>
    cases rest with
    | nil => exact h own (by simp)
    | cons r rs =>
      simp only [effective]
      exact noDupAttr_mergeParent _ _ (ih (fun l hl => h l (by simp [hl])))

/-- with no duplicates, the first entry for an attribute is the only one -/
theorem noDup_unique (m : Constraints) (h : noDupAttr m = true) (c : Constraint) (hc : c ∈ m) :
    lookupC m c.attr = some c := by
  induction m with
  | nil => cases hc
  | cons p rest ih =>
    simp only [noDupAttr, Bool.and_eq_true, Bool.not_eq_true'] at h
    unfold lookupC
    simp only [List.find?]
    cases hc with
    | head => simp
    | tail _ hc' =>
      have hne : ¬ p.attr = c.attr := by
        intro heq
        have : rest.any (fun d => decide (d.attr = p.attr)) = true := by
          simp only [List.any_eq_true, decide_eq_true_eq]
          exact ⟨c, hc', heq.symm⟩
        rw [this] at h
        exact absurd h.1 (by simp)
      simp only [hne, decide_false]
      exact ih h.2 hc'

end Placement
