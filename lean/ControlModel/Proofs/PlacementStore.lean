/-
  Proofs/PlacementStore — lemmas about the class store across workflow loads
  (Model/Placement: storeGet / storeUpdate / storeLoad / history) behind the
  C05 history theorems (core Lean only).
-/
import ControlModel.Proofs.Placement

namespace Placement

/-! ## what was loaded last -/

theorem lastLoaded_append (a b : List (Key × Class)) (k : Key) :
    lastLoaded (a ++ b) k = (match lastLoaded b k with | some d => some d | none => lastLoaded a k) := by
  induction a with
  | nil => simp only [List.nil_append, lastLoaded]; cases lastLoaded b k <;> rfl
  | cons x xs ih =>
    obtain ⟨k', c⟩ := x
    simp only [List.cons_append, lastLoaded, ih]
    cases lastLoaded b k <;> rfl

theorem lastLoaded_mem (defs : List (Key × Class)) (k : Key) (c : Class) (h : lastLoaded defs k = some c) :
    (k, c) ∈ defs := by
  induction defs with
  | nil => simp [lastLoaded] at h
  | cons x xs ih =>
    obtain ⟨k', c'⟩ := x
    simp only [lastLoaded] at h
    cases hl : lastLoaded xs k with
    | some d =>
      rw [hl] at h
      simp only [Option.some.injEq] at h
      subst h
      exact List.mem_cons_of_mem _ (ih hl)
    | none =>
      rw [hl] at h
      by_cases hk : k' = k
      · simp only [hk, if_true, Option.some.injEq] at h
        subst h; subst hk
        exact List.mem_cons_self
      · simp [hk] at h

/-- Nothing is known about a class that was never loaded. -/
theorem lastLoaded_none (defs : List (Key × Class)) (k : Key) (h : ∀ d ∈ defs, d.1 ≠ k) : lastLoaded defs k = none := by
  induction defs with
  | nil => rfl
  | cons x xs ih =>
    obtain ⟨k', c'⟩ := x
    have h1 : k' ≠ k := h (k', c') List.mem_cons_self
    simp only [lastLoaded, ih (fun d hd => h d (List.mem_cons_of_mem _ hd)), h1, if_false]

/-! ## one UpdateClass -/

/-- `UpdateClass` puts the loaded class under its key and touches no other key —
    for the store that overwrites (the code) and, for a store that keeps the held
    entry when `Class.Equals` finds nothing changed, whenever `Class.Equals` is
    right about the held entry and the loaded class. -/
theorem storeGet_update (m : Mode) (s : Store) (k : Key) (c : Class)
    (hyp : m.cfg.storeOverwrites = true ∨ ∀ h, storeGet s k = some h → h.equalsCW m.rngFixed c = true → h = c) (k' : Key) :
    storeGet (storeUpdate m s k c) k' = if k = k' then some c else storeGet s k' := by
  induction s with
  | nil => simp [storeUpdate, storeGet]
  | cons x xs ih =>
    obtain ⟨e, h⟩ := x
    by_cases hek : e = k
    · subst hek
      have hent : (if !m.cfg.storeOverwrites && h.equalsCW m.rngFixed c then h else c) = c := by
        cases hyp with
        | inl ho => simp [ho]
        | inr hq =>
          by_cases hc : (!m.cfg.storeOverwrites && h.equalsCW m.rngFixed c) = true
          · simp only [hc, if_true]
            simp only [Bool.and_eq_true] at hc
            exact hq h (by simp [storeGet]) hc.2
          · simp [hc]
      simp only [storeUpdate, if_true, hent, storeGet]
      by_cases hk' : e = k' <;> simp [hk']
    · have hyp' : m.cfg.storeOverwrites = true ∨ ∀ h, storeGet xs k = some h → h.equalsCW m.rngFixed c = true → h = c := by
        cases hyp with
        | inl ho => exact Or.inl ho
        | inr hq => exact Or.inr (fun h' hh => hq h' (by simp [storeGet, hek, hh]))
      simp only [storeUpdate, hek, if_false, storeGet, ih hyp']
      by_cases hk' : e = k'
      · have : ¬ k = k' := fun hkk => hek (hkk ▸ hk')
        simp [hk', this]
      · simp [hk']

/-- Loading a class that is held already, as it is held, leaves the store as it is
    (whatever the store does with classes it finds equal). -/
theorem storeUpdate_held (m : Mode) (s : Store) (k : Key) (c : Class) (h : storeGet s k = some c) :
    storeUpdate m s k c = s := by
  induction s with
  | nil => simp [storeGet] at h
  | cons x xs ih =>
    obtain ⟨e, hc⟩ := x
    by_cases hek : e = k
    · simp only [storeGet, hek, if_true, Option.some.injEq] at h
      subst h
      simp [storeUpdate, hek]
    · simp only [storeGet, hek, if_false] at h
      simp [storeUpdate, hek, ih h]

theorem storeLoad_held (m : Mode) (defs : List (Key × Class)) (s : Store)
    (h : ∀ d ∈ defs, storeGet s d.1 = some d.2) : storeLoad m s defs = s := by
  induction defs with
  | nil => rfl
  | cons d ds ih =>
    simp only [storeLoad, List.foldl_cons]
    rw [storeUpdate_held m s d.1 d.2 (h d List.mem_cons_self)]
    exact ih (fun d' hd' => h d' (List.mem_cons_of_mem _ hd'))

/-! ## one workflow load, and a whole history -/

/-- The store does what the property needs on the definitions `all`: it overwrites
    (the code), or `Class.Equals` tells apart any two different definitions of one class. -/
def Faithful (m : Mode) (all : List (Key × Class)) : Prop :=
  m.cfg.storeOverwrites = true ∨
  ∀ a ∈ all, ∀ b ∈ all, a.1 = b.1 → a.2.equalsCW m.rngFixed b.2 = true → a.2 = b.2

/-- Everything the store holds is one of the definitions `all`. -/
def HeldFrom (s : Store) (all : List (Key × Class)) : Prop :=
  ∀ k h, storeGet s k = some h → (k, h) ∈ all

theorem storeLoad_spec (m : Mode) (all defs : List (Key × Class)) (s : Store) (hf : Faithful m all)
    (hdefs : ∀ d ∈ defs, d ∈ all) (hs : HeldFrom s all) :
    (∀ k, storeGet (storeLoad m s defs) k = (match lastLoaded defs k with | some c => some c | none => storeGet s k)) ∧
    HeldFrom (storeLoad m s defs) all := by
  induction defs generalizing s with
  | nil => exact ⟨fun k => by simp [storeLoad, lastLoaded], hs⟩
  | cons d ds ih =>
    obtain ⟨dk, dc⟩ := d
    have hd : (dk, dc) ∈ all := hdefs _ List.mem_cons_self
    have hup : ∀ k', storeGet (storeUpdate m s dk dc) k' = if dk = k' then some dc else storeGet s k' := by
      apply storeGet_update
      cases hf with
      | inl ho => exact Or.inl ho
      | inr hq => exact Or.inr (fun h hh he => hq (dk, h) (hs dk h hh) (dk, dc) hd rfl he)
    have hs1 : HeldFrom (storeUpdate m s dk dc) all := by
      intro k h hh
      rw [hup] at hh
      by_cases hk : dk = k
      · simp only [hk, if_true, Option.some.injEq] at hh
        subst hh; subst hk; exact hd
      · simp only [hk, if_false] at hh
        exact hs k h hh
    obtain ⟨i1, i2⟩ := ih (storeUpdate m s dk dc) (fun d' hd' => hdefs d' (List.mem_cons_of_mem _ hd')) hs1
    refine ⟨?_, i2⟩
    intro k
    have : storeLoad m s ((dk, dc) :: ds) = storeLoad m (storeUpdate m s dk dc) ds := rfl
    rw [this, i1 k, hup k]
    simp only [lastLoaded]
    cases lastLoaded ds k with
    | some c => rfl
    | none => by_cases hk : dk = k <;> simp [hk]

/-- Round by round, a history answers what the OFFERS handler answers for the
    round's descriptors with the templates AS LAST LOADED. -/
theorem history_eq_resolved (m : Mode) (all : List (Key × Class)) (hf : Faithful m all)
    (steps : List Step) (s : Store) (pre : List (Key × Class))
    (hsteps : ∀ st ∈ steps, ∀ d ∈ st.loads, d ∈ all) (hall : HeldFrom s all)
    (hs : ∀ k, storeGet s k = lastLoaded pre k) :
    history m s steps =
      List.zipWith (fun st ds => round m st.offers ds st.order) steps (resolvedDescs pre steps) := by
  induction steps generalizing s pre with
  | nil => rfl
  | cons st rest ih =>
    obtain ⟨l1, l2⟩ := storeLoad_spec m all st.loads s hf (hsteps st List.mem_cons_self) hall
    have hget : ∀ k, storeGet (storeLoad m s st.loads) k = lastLoaded (pre ++ st.loads) k := by
      intro k
      rw [l1 k, lastLoaded_append, hs k]
    have hfun : storeGet (storeLoad m s st.loads) = lastLoaded (pre ++ st.loads) := funext hget
    simp only [history, resolvedDescs, List.zipWith_cons_cons, hfun]
    congr 1
    exact ih (storeLoad m s st.loads) (pre ++ st.loads)
      (fun st' hst' => hsteps st' (List.mem_cons_of_mem _ hst')) l2 hget

theorem resolvedDescs_length (pre : List (Key × Class)) (steps : List Step) :
    (resolvedDescs pre steps).length = steps.length := by
  induction steps generalizing pre with
  | nil => rfl
  | cons st rest ih => simp [resolvedDescs, ih]

/-- Round `n` is judged with the last definitions among the loads of rounds `0..n`. -/
theorem resolvedDescs_getElem? (pre : List (Key × Class)) (steps : List Step) (n : Nat) :
    (resolvedDescs pre steps)[n]? =
      steps[n]?.map fun st => st.descs.map (resolveBy (lastLoaded (pre ++ (steps.take (n + 1)).flatMap (·.loads)))) := by
  induction steps generalizing pre n with
  | nil => simp [resolvedDescs]
  | cons st rest ih =>
    cases n with
    | zero => simp [resolvedDescs]
    | succ n =>
      simp only [resolvedDescs, List.getElem?_cons_succ, ih, List.take_succ_cons, List.flatMap_cons, List.append_assoc]

/-- Round `n` of a history from the empty store. -/
theorem history_getElem? (m : Mode) (steps : List Step) (hf : Faithful m (steps.flatMap (·.loads))) (n : Nat) :
    (history m [] steps)[n]? =
      steps[n]?.map fun st => round m st.offers (st.descs.map (resolveBy (latest steps n))) st.order := by
  have h := history_eq_resolved m (steps.flatMap (·.loads)) hf steps [] []
    (fun st hst d hd => List.mem_flatMap.2 ⟨st, hst, hd⟩) (fun k h hh => by simp [storeGet] at hh) (fun k => rfl)
  rw [h, List.getElem?_zipWith, resolvedDescs_getElem?]
  cases steps[n]? with
  | none => rfl
  | some st =>
    have : latest steps n = lastLoaded ((steps.take (n + 1)).flatMap (·.loads)) := funext (fun _ => rfl)
    simp [this]

theorem all_zip_zipWith {α β γ : Type} (f : α → β → γ) (P : (α × β) × γ → Bool) (A : List α) (B : List β) :
    ((A.zip B).zip (List.zipWith f A B)).all P = (A.zip B).all (fun x => P (x, f x.1 x.2)) := by
  induction A generalizing B with
  | nil => simp
  | cons a as ih =>
    cases B with
    | nil => simp
    | cons b bs => simp [ih]

theorem history_length (m : Mode) (s : Store) (steps : List Step) : (history m s steps).length = steps.length := by
  induction steps generalizing s with
  | nil => rfl
  | cons st rest ih => simp [history, ih]

end Placement
