/-
  Proofs/Query — lemmas for C20 (core only; the property theorems are in Props/C20.lean).
-/
import ControlModel.Model.Query
import ControlModel.Spec.C20

set_option linter.unusedSimpArgs false

namespace Query

/-! ## takeWhile / dropWhile -/

theorem takeWhile_all {α} (p : α → Bool) (l : List α) : ∀ x ∈ l.takeWhile p, p x = true := by
  induction l with
  | nil => intro x hx; simp at hx
  | cons a l ih =>
    intro x hx
    by_cases ha : p a = true
    · simp only [List.takeWhile_cons, ha, if_true, List.mem_cons] at hx
      rcases hx with rfl | hx
      · exact ha
      · exact ih x hx
    · simp [List.takeWhile_cons, ha] at hx

theorem dropWhile_head_false {α} (p : α → Bool) (l : List α) (a : α) (r : List α)
    (h : l.dropWhile p = a :: r) : p a = false := by
  induction l with
  | nil => simp at h
  | cons b l ih =>
    by_cases hb : p b = true
    · simp only [List.dropWhile_cons, hb, if_true] at h; exact ih h
    · simp only [List.dropWhile_cons, hb] at h
      have : b = a := by simpa using (List.cons.inj h).1
      subst this; simpa using hb

/-- a run of `p`-characters followed by a non-`p` character is split exactly there -/
theorem span_append_stop {α} (p : α → Bool) (l r : List α) (a : α)
    (hl : ∀ x ∈ l, p x = true) (ha : p a = false) :
    (l ++ a :: r).takeWhile p = l ∧ (l ++ a :: r).dropWhile p = a :: r := by
  induction l with
  | nil => simp [List.takeWhile_cons, List.dropWhile_cons, ha]
  | cons b l ih =>
    have hb : p b = true := hl b (by simp)
    have := ih (fun x hx => hl x (by simp [hx]))
    simp [List.takeWhile_cons, List.dropWhile_cons, hb, this.1, this.2]

theorem span_all {α} (p : α → Bool) (l : List α) (hl : ∀ x ∈ l, p x = true) :
    l.takeWhile p = l ∧ l.dropWhile p = [] := by
  induction l with
  | nil => simp
  | cons b l ih =>
    have hb : p b = true := hl b (by simp)
    have := ih (fun x hx => hl x (by simp [hx]))
    simp [List.takeWhile_cons, List.dropWhile_cons, hb, this.1, this.2]

theorem isEmpty_false_iff {α} (l : List α) : (!l.isEmpty) = true ↔ l ≠ [] := by
  cases l <;> simp

/-! ## character classes -/

theorem isComp_slash : isComp '/' = false := by decide
theorem isRT_slash : isRT '/' = false := by decide
theorem isRole_slash : isRole '/' = false := by decide
theorem isParamKey_eq : isParamKey '=' = false := by decide

theorem not_space_of_isEntry (c : Char) (h : isEntry c = true) : isSpace c = false := by
  simp [isEntry, isSpace, inRanges, entryClass, spaceClass] at *
  omega

theorem not_space_of_isComp (c : Char) (h : isComp c = true) : isSpace c = false := by
  simp [isComp, isSpace, inRanges, componentClass, spaceClass] at *
  omega

theorem not_space_of_isRole (c : Char) (h : isRole c = true) : isSpace c = false := by
  simp [isRole, isSpace, inRanges, roleClass, spaceClass] at *
  omega

theorem isEntry_of_isRole (c : Char) (h : isRole c = true) : isEntry c = true := by
  simp [isEntry, isRole, inRanges, entryClass, roleClass] at *
  omega

/-! ## trimming -/

theorem trimLeft_eq_self (s : Str) (h : ∀ a r, s = a :: r → isSpace a = false) : trimLeft s = s := by
  cases s with
  | nil => rfl
  | cons a r => simp [trimLeft, List.dropWhile_cons, h a r rfl]

theorem trimRight_append (xs e : Str) (hne : e ≠ []) (he : ∀ x ∈ e, isSpace x = false) :
    trimRight (xs ++ e) = xs ++ e := by
  unfold trimRight
  have hrev : e.reverse ≠ [] := by simpa using hne
  rw [List.reverse_append]
  cases hr : e.reverse with
  | nil => exact absurd hr hrev
  | cons a t =>
    have ha : a ∈ e := by
      have : a ∈ e.reverse := by rw [hr]; simp
      simpa using this
    simp only [List.cons_append, List.dropWhile_cons, he a ha]
    have : (a :: (t ++ xs.reverse)).reverse = xs ++ e := by
      have h2 : e = (a :: t).reverse := by rw [← hr]; simp
      rw [h2]; simp
    simpa using this

/-! ## the run-type table -/

theorem table_consistent :
    runTypes.all (fun e => runTypeName e.1 == e.2 && runTypeValue e.2 == some e.1) = true := by decide

theorem table_names_ok : runTypes.all (fun e => !e.2.isEmpty && e.2.all isRT) = true := by decide

theorem value_mem (rt : Str) (n : Nat) (h : runTypeValue rt = some n) : (n, rt) ∈ runTypes := by
  unfold runTypeValue valueIn at h
  cases hf : runTypes.find? (fun e => e.2 == rt) with
  | none => simp [hf] at h
  | some e =>
    simp [hf] at h
    have hm := List.mem_of_find?_eq_some hf
    have hp := List.find?_some hf
    have : e.2 = rt := by simpa using hp
    cases e with
    | mk a b => simp at this h; subst this; subst h; exact hm

theorem name_mem (n : Nat) (h : runTypes.any (fun e => e.1 == n) = true) : (n, runTypeName n) ∈ runTypes := by
  unfold runTypeName nameIn
  cases hf : runTypes.find? (fun e => e.1 == n) with
  | none =>
    rw [List.find?_eq_none] at hf
    rw [List.any_eq_true] at h
    obtain ⟨e, he, hp⟩ := h
    exact absurd hp (hf e he)
  | some e =>
    have hm := List.mem_of_find?_eq_some hf
    have hp := List.find?_some hf
    have : e.1 = n := by simpa using hp
    cases e with
    | mk a b => simp at this; subst this; exact hm

theorem mem_table (e : Nat × Str) (h : e ∈ runTypes) :
    runTypeName e.1 = e.2 ∧ runTypeValue e.2 = some e.1 ∧ e.2 ≠ [] ∧ ∀ x ∈ e.2, isRT x = true := by
  have h1 := List.all_eq_true.mp table_consistent e h
  have h2 := List.all_eq_true.mp table_names_ok e h
  simp only [Bool.and_eq_true, beq_iff_eq] at h1
  simp only [Bool.and_eq_true, List.all_eq_true] at h2
  exact ⟨h1.1, h1.2, (isEmpty_false_iff _).mp h2.1, h2.2⟩

theorem name_of_value (rt : Str) (n : Nat) (h : runTypeValue rt = some n) : runTypeName n = rt :=
  (mem_table _ (value_mem rt n h)).1

theorem value_of_name (n : Nat) (h : runTypes.any (fun e => e.1 == n) = true) :
    runTypeValue (runTypeName n) = some n :=
  (mem_table _ (name_mem n h)).2.1

theorem known_of_value (rt : Str) (n : Nat) (h : runTypeValue rt = some n) :
    runTypes.any (fun e => e.1 == n) = true := by
  rw [List.any_eq_true]
  exact ⟨(n, rt), value_mem rt n h, by simp⟩

/-! ## the recogniser -/

/-- The denotation of `^(C+)(/R+)(/L+)(/E+)$`: a concatenation of four non-empty class runs separated by "/". -/
def FullLang (s c rt role e : Str) : Prop :=
  s = c ++ '/' :: (rt ++ '/' :: (role ++ '/' :: e)) ∧
  c ≠ [] ∧ (∀ x ∈ c, isComp x = true) ∧ rt ≠ [] ∧ (∀ x ∈ rt, isRT x = true) ∧
  role ≠ [] ∧ (∀ x ∈ role, isRole x = true) ∧ e ≠ [] ∧ (∀ x ∈ e, isEntry x = true)

theorem matchFull_complete (s c rt role e : Str) (h : FullLang s c rt role e) :
    matchFull s = some (c, rt, role, e) := by
  obtain ⟨hs, hc, hca, hrt, hrta, hro, hroa, he, hea⟩ := h
  subst hs
  have s1 := span_append_stop isComp c (rt ++ '/' :: (role ++ '/' :: e)) '/' hca isComp_slash
  have s2 := span_append_stop isRT rt (role ++ '/' :: e) '/' hrta isRT_slash
  have s3 := span_append_stop isRole role e '/' hroa isRole_slash
  unfold matchFull
  simp only [s1.1, s1.2, s2.1, s2.2, s3.1, s3.2]
  have h1 := (isEmpty_false_iff c).mpr hc
  have h2 := (isEmpty_false_iff rt).mpr hrt
  have h3 := (isEmpty_false_iff role).mpr hro
  have h4 := (isEmpty_false_iff e).mpr he
  have h5 : e.all isEntry = true := List.all_eq_true.mpr hea
  simp [h1, h2, h3, h4, h5]

theorem matchFull_sound (s c rt role e : Str) (h : matchFull s = some (c, rt, role, e)) :
    FullLang s c rt role e := by
  unfold matchFull at h
  have e1 := @List.takeWhile_append_dropWhile _ isComp s
  cases d1 : s.dropWhile isComp with
  | nil => simp [d1] at h
  | cons a r1 =>
    have ha := dropWhile_head_false isComp s a r1 d1
    by_cases hsl : a = '/'
    · subst hsl
      simp only [d1] at h
      have e2 := @List.takeWhile_append_dropWhile _ isRT r1
      cases d2 : r1.dropWhile isRT with
      | nil => simp [d2] at h
      | cons b r2 =>
        by_cases hsl2 : b = '/'
        · subst hsl2
          simp only [d2] at h
          have e3 := @List.takeWhile_append_dropWhile _ isRole r2
          cases d3 : r2.dropWhile isRole with
          | nil => simp [d3] at h
          | cons c3 e' =>
            by_cases hsl3 : c3 = '/'
            · subst hsl3
              simp only [d3] at h
              split at h
              · rename_i hcond
                simp only [Bool.and_eq_true] at hcond
                obtain ⟨⟨⟨⟨h1, h2⟩, h3⟩, h4⟩, h5⟩ := hcond
                simp only [Option.some.injEq, Prod.mk.injEq] at h
                obtain ⟨rfl, rfl, rfl, rfl⟩ := h
                refine ⟨?_, (isEmpty_false_iff _).mp h1, takeWhile_all _ _, (isEmpty_false_iff _).mp h2, takeWhile_all _ _,
                  (isEmpty_false_iff _).mp h3, takeWhile_all _ _, (isEmpty_false_iff _).mp h4, List.all_eq_true.mp h5⟩
                rw [d3] at e3; rw [e3]; rw [d2] at e2; rw [e2]; rw [d1] at e1; exact e1.symm
              · simp at h
            · simp only [d3] at h
              split at h <;> first | (rename_i heq; simp at heq; exact absurd heq.1 hsl3) | simp at h
        · simp only [d2] at h
          split at h <;> first | (rename_i heq; simp at heq; exact absurd heq.1 hsl2) | simp at h
    · simp only [d1] at h
      split at h <;> first | (rename_i heq; simp at heq; exact absurd heq.1 hsl) | simp at h

theorem matchFull_iff (s c rt role e : Str) : matchFull s = some (c, rt, role, e) ↔ FullLang s c rt role e :=
  ⟨matchFull_sound s c rt role e, matchFull_complete s c rt role e⟩

open Spec.C20

/-! ## parse / print -/

theorem wf_iff (q : Query) : wf q = true ↔
    q.component ≠ [] ∧ (∀ x ∈ q.component, isComp x = true) ∧ runTypes.any (fun e => e.1 == q.runType) = true ∧
    q.role ≠ [] ∧ (∀ x ∈ q.role, isRole x = true) ∧ q.entry ≠ [] ∧ (∀ x ∈ q.entry, isEntry x = true) := by
  unfold wf
  simp only [Bool.and_eq_true, isEmpty_false_iff, List.all_eq_true]
  constructor
  · rintro ⟨⟨⟨⟨⟨⟨a, b⟩, c⟩, d⟩, e⟩, f⟩, g⟩; exact ⟨a, b, c, d, e, f, g⟩
  · rintro ⟨a, b, c, d, e, f, g⟩; exact ⟨⟨⟨⟨⟨⟨a, b⟩, c⟩, d⟩, e⟩, f⟩, g⟩

theorem parse_some_iff (s : Str) (q : Query) :
    parse s = some q ↔ ∃ rt, FullLang (trim s) q.component rt q.role q.entry ∧ runTypeValue rt = some q.runType := by
  unfold parse
  constructor
  · intro h
    cases hm : matchFull (trim s) with
    | none => simp [hm] at h
    | some p =>
      obtain ⟨c, rt, role, e⟩ := p
      simp only [hm] at h
      cases hv : runTypeValue rt with
      | none => simp [hv] at h
      | some n =>
        simp only [hv, Option.some.injEq] at h
        subst h
        exact ⟨rt, matchFull_sound _ _ _ _ _ hm, hv⟩
  · rintro ⟨rt, hl, hv⟩
    rw [matchFull_complete _ _ _ _ _ hl]
    simp [hv]

theorem parse_wf (s : Str) (q : Query) (h : parse s = some q) : wf q = true := by
  obtain ⟨rt, hl, hv⟩ := (parse_some_iff s q).mp h
  obtain ⟨_, hc, hca, _, _, hro, hroa, he, hea⟩ := hl
  exact (wf_iff q).mpr ⟨hc, hca, known_of_value rt _ hv, hro, hroa, he, hea⟩

theorem print_of_parse (s : Str) (q : Query) (h : parse s = some q) : print q = trim s := by
  obtain ⟨rt, hl, hv⟩ := (parse_some_iff s q).mp h
  unfold print
  rw [name_of_value rt _ hv, hl.1]
  simp

theorem trim_print (q : Query) (h : wf q = true) : trim (print q) = print q := by
  obtain ⟨hc, hca, _, _, _, he, hea⟩ := (wf_iff q).mp h
  unfold trim
  have hl : trimLeft (print q) = print q := by
    apply trimLeft_eq_self
    intro a r har
    cases hcc : q.component with
    | nil => exact absurd hcc hc
    | cons b t =>
      unfold print at har
      rw [hcc] at har
      simp at har
      have : b ∈ q.component := by rw [hcc]; simp
      rw [← har.1]
      exact not_space_of_isComp b (hca b this)
  rw [hl]
  have : print q = (q.component ++ '/' :: (runTypeName q.runType ++ '/' :: (q.role ++ ['/']))) ++ q.entry := by
    simp [print]
  rw [this]
  exact trimRight_append _ _ he (fun x hx => not_space_of_isEntry x (hea x hx))

theorem parse_print (q : Query) (h : wf q = true) : parse (print q) = some q := by
  rw [parse_some_iff, trim_print q h]
  obtain ⟨hc, hca, hk, hro, hroa, he, hea⟩ := (wf_iff q).mp h
  have hm := mem_table _ (name_mem q.runType hk)
  exact ⟨runTypeName q.runType, ⟨by simp [print], hc, hca, hm.2.2.1, hm.2.2.2, hro, hroa, he, hea⟩, hm.2.1⟩

/-! ## resolve -/

theorem resolve_eq_firstExisting (ex : Str → Bool) (q : Query) : resolve ex q = firstExisting ex q := by
  unfold resolve firstExisting specCandidates withFallbackRunType withFallbackRoleName
  simp only [List.find?_cons, List.find?_nil]
  repeat' split
  all_goals simp_all


/-! ## probes -/

/-- the probes are the candidates in order up to and including the first that exists (all four if none does) -/
theorem probes_eq (ex : Str → Bool) (q : Query) :
    probes ex q = match ((specCandidates q).map absRaw).findIdx? ex with
      | some i => ((specCandidates q).map absRaw).take (i + 1)
      | none => (specCandidates q).map absRaw := by
  unfold probes specCandidates withFallbackRunType withFallbackRoleName
  simp only [List.map_cons, List.map_nil]
  cases h0 : ex (absRaw q) <;>
  cases h1 : ex (absRaw { component := q.component, runType := fallbackRunType, role := q.role, entry := q.entry }) <;>
  cases h2 : ex (absRaw { component := q.component, runType := q.runType, role := fallbackRoleName, entry := q.entry }) <;>
  cases h3 : ex (absRaw { component := q.component, runType := fallbackRunType, role := fallbackRoleName, entry := q.entry }) <;>
  simp [List.findIdx?_cons, h0, h1, h2, h3]

/-! ## YAML backend -/

theorem isPrefixOf_refl (l : List Str) : l.isPrefixOf l = true := by
  rw [List.isPrefixOf_iff_prefix]; exact List.prefix_refl l

theorem yamlGet_exists (t : List Leaf) (key v : Str) (h : yamlGet t key = some v) : yamlExists t key = true := by
  unfold yamlGet at h
  cases hf : t.find? (fun l => l.path == keySegs key) with
  | none => simp [hf] at h
  | some l =>
    have hm := List.mem_of_find?_eq_some hf
    have hp := List.find?_some hf
    unfold yamlExists
    rw [List.any_eq_true]
    refine ⟨l, hm, ?_⟩
    have : l.path = keySegs key := by simpa using hp
    rw [this]; exact isPrefixOf_refl _

/-! ## templates -/

theorem renderSegs_consChar (sub : Str → Str) (c : Char) (segs : List Seg) :
    renderSegs sub (consChar c segs) = c :: renderSegs sub segs := by
  unfold consChar
  split <;> simp [renderSegs, renderSeg]

theorem lex_text_no_brace (s : Str) (h : '{' ∉ s) : ∃ segs, lex .text s = some segs ∧ ∀ sub, renderSegs sub segs = s := by
  induction s with
  | nil => exact ⟨[], by simp [lex], by simp [renderSegs]⟩
  | cons c rest ih =>
    have hc : c ≠ '{' := by intro e; apply h; simp [e]
    have hr : '{' ∉ rest := by intro e; apply h; simp [e]
    obtain ⟨segs, h1, h2⟩ := ih hr
    refine ⟨consChar c segs, ?_, ?_⟩
    · unfold lex
      split <;> simp_all
    · intro sub; rw [renderSegs_consChar, h2]

theorem escape_of_escapeFree (s : Str) (h : escapeFree s = true) : escape s = s := by
  induction s with
  | nil => rfl
  | cons c rest ih =>
    simp only [escapeFree, List.all_cons, Bool.and_eq_true] at h
    have ih' := ih (by simpa [escapeFree] using h.2)
    have hc : escapeChar c = [c] := by
      have := h.1
      simp only [Bool.not_eq_true', Bool.or_eq_false_iff] at this
      simp [escapeChar, this.1.1.1.1, this.1.1.1.2, this.1.1.2, this.1.2, this.2]
    simp only [escape, List.flatMap_cons, hc] at *
    simp [ih']

@[simp] theorem subst_code (v : Str) : codeCfg.subst v = v := rfl

@[simp] theorem subst_legacy (v : Str) : legacyCfg.subst v = escape v := rfl

/-- whatever the configuration, a value free of the five characters is written as it is -/
theorem subst_of_escapeFree (c : Cfg) (v : Str) (h : escapeFree v = true) : c.subst v = v := by
  unfold Cfg.subst
  split
  · exact escape_of_escapeFree v h
  · rfl

theorem renderSegs_congr (sub sub' : Str → Str) (segs : List Seg) (h : ∀ n ∈ varNames segs, sub n = sub' n) :
    renderSegs sub segs = renderSegs sub' segs := by
  induction segs with
  | nil => rfl
  | cons sg rest ih =>
    cases sg with
    | text t =>
      have := ih (by intro n hn; exact h n (by simpa [varNames] using hn))
      simp only [renderSegs, List.flatMap_cons, renderSeg] at *
      rw [this]
    | var n =>
      have := ih (by intro m hm; exact h m (by simp [varNames, hm]))
      have hn := h n (by simp [varNames])
      simp only [renderSegs, List.flatMap_cons, renderSeg] at *
      rw [this, hn]


/-! ## the model meets the Spec predicates -/

theorem payloadOk_getComponent (t : List Leaf) (q : Query) : payloadOk t q (getComponent t q) = true := by
  unfold payloadOk getComponent
  cases hg : yamlGet t (absRaw q) with
  | none => cases yamlExists t (absRaw q) <;> simp
  | some v => simp [yamlGet_exists t _ v hg]

theorem fallback_known : runTypes.any (fun e => e.1 == fallbackRunType) = true := by decide
theorem fallback_role_ok : fallbackRoleName ≠ [] ∧ ∀ x ∈ fallbackRoleName, isRole x = true := by decide

theorem candidates_wf (q : Query) (hq : wf q = true) : ∀ c ∈ specCandidates q, wf c = true := by
  obtain ⟨hc, hca, hk, hro, hroa, he, hea⟩ := (wf_iff q).mp hq
  intro c hc'
  simp only [specCandidates, List.mem_cons, List.not_mem_nil, or_false] at hc'
  rcases hc' with rfl | rfl | rfl | rfl
  · exact hq
  · exact (wf_iff _).mpr ⟨hc, hca, fallback_known, hro, hroa, he, hea⟩
  · exact (wf_iff _).mpr ⟨hc, hca, hk, fallback_role_ok.1, fallback_role_ok.2, he, hea⟩
  · exact (wf_iff _).mpr ⟨hc, hca, fallback_known, fallback_role_ok.1, fallback_role_ok.2, he, hea⟩

theorem resolve_mem (ex : Str → Bool) (q r : Query) (h : resolve ex q = some r) :
    r ∈ specCandidates q ∧ ex (absRaw r) = true := by
  rw [resolve_eq_firstExisting] at h
  unfold firstExisting at h
  exact ⟨List.mem_of_find?_eq_some h, by simpa using List.find?_some h⟩

theorem resolve_wf (ex : Str → Bool) (q r : Query) (hq : wf q = true) (h : resolve ex q = some r) : wf r = true :=
  candidates_wf q hq r (resolve_mem ex q r h).1

theorem resolutionOk_model (ex : Str → Bool) (q : Query) :
    resolutionOk ex q (match resolve ex q with | some r => .ok r (print r) | none => .unresolved) = true := by
  unfold resolutionOk
  rw [resolve_eq_firstExisting]
  cases h : firstExisting ex q with
  | none => rfl
  | some r =>
    unfold firstExisting at h
    have : ex (absRaw r) = true := by simpa using List.find?_some h
    simp [this]

/-- the processed payload of a well-formed query, with the loader's re-parse resolved by the round trip -/
theorem processComponentWith_wf (c : Cfg) (t : List Leaf) (q : Query) (vars : List (Str × Str)) (hq : wf q = true) :
    processComponentWith c t q vars =
      match yamlGet t (absRaw q) with
      | none => .err "load"
      | some content =>
        match lexTemplate content with
        | none => .unmodelled
        | some segs =>
          if (bindings vars).all (fun kv => validIdent kv.1) then
            .ok (renderSegs (fun n => c.subst (lookup (bindings vars) n)) segs)
          else .err "badident" := by
  unfold processComponentWith
  rw [parse_print q hq]
  simp only [getComponent]
  cases hg : yamlGet t (absRaw q) with
  | none => cases yamlExists t (absRaw q) <;> simp
  | some v =>
    simp only [yamlGet_exists t _ v hg, if_true]
    cases lexTemplate v <;> rfl

/-- …for the code as it is: the supplied values themselves -/
theorem processComponent_wf (t : List Leaf) (q : Query) (vars : List (Str × Str)) (hq : wf q = true) :
    processComponent t q vars =
      match yamlGet t (absRaw q) with
      | none => .err "load"
      | some content =>
        match lexTemplate content with
        | none => .unmodelled
        | some segs =>
          if (bindings vars).all (fun kv => validIdent kv.1) then
            .ok (renderSegs (fun n => lookup (bindings vars) n) segs)
          else .err "badident" := by
  unfold processComponent
  rw [processComponentWith_wf codeCfg t q vars hq]
  simp only [subst_code]

/-- any configuration meets the substitution clause on values free of the five characters -/
theorem processedOk_modelWith (c : Cfg) (t : List Leaf) (q : Query) (vars : List (Str × Str)) (hq : wf q = true)
    (hesc : valuesEscapeFree t q vars = true) : processedOk t q vars (processComponentWith c t q vars) = true := by
  rw [processComponentWith_wf c t q vars hq]
  unfold processedOk renderVerbatim
  unfold valuesEscapeFree at hesc
  cases hg : yamlGet t (absRaw q) with
  | none => simp
  | some content =>
    simp only [hg] at hesc ⊢
    cases hl : lexTemplate content with
    | none => simp
    | some segs =>
      simp only [hl, Option.map_some] at hesc ⊢
      by_cases hv : (bindings vars).all (fun kv => validIdent kv.1) = true
      · simp only [hv, if_true]
        have : renderSegs (fun n => c.subst (lookup (bindings vars) n)) segs
             = renderSegs (fun n => lookup (bindings vars) n) segs := by
          apply renderSegs_congr
          intro n hn
          exact subst_of_escapeFree c _ (List.all_eq_true.mp hesc n hn)
        simp [this]
      · simp [hv]

/-- the code as it is meets it on ALL values -/
theorem processedOk_model (t : List Leaf) (q : Query) (vars : List (Str × Str)) (hq : wf q = true) :
    processedOk t q vars (processComponent t q vars) = true := by
  rw [processComponent_wf t q vars hq]
  unfold processedOk renderVerbatim
  cases hg : yamlGet t (absRaw q) with
  | none => simp
  | some content =>
    simp only []
    cases hl : lexTemplate content with
    | none => simp
    | some segs =>
      simp only [Option.map_some]
      by_cases hv : (bindings vars).all (fun kv => validIdent kv.1) = true
      · simp [hv]
      · simp [hv]


/-! ## histories on one service -/

/-- every cached template is what compiling its path against the CURRENT backend would give -/
def CacheCurrent (s : Svc) : Prop := ∀ e ∈ s.cache, compileP s.tree e.1 = .ok e.2

theorem procStep_tree (s : Svc) (q : Query) (vars : List (Str × Str)) : (procStep s q vars).1.tree = s.tree := by
  unfold procStep
  split
  · rfl
  · split <;> rfl

/-- the state a request leaves behind does not depend on the variables it supplied -/
theorem procStep_state_vars (s : Svc) (q : Query) (vars vars' : List (Str × Str)) :
    (procStep s q vars).1 = (procStep s q vars').1 := by
  unfold procStep
  split
  · rfl
  · split <;> rfl

theorem procStep_fresh (s : Svc) (h : CacheCurrent s) (q : Query) (vars : List (Str × Str)) :
    (procStep s q vars).2 = processT s.tree q vars ∧ CacheCurrent (procStep s q vars).1 := by
  unfold processT
  unfold procStep
  cases hf : s.cache.find? (fun e => e.1 == print q) with
  | some e =>
    have hm : e ∈ s.cache := List.mem_of_find?_eq_some hf
    have hk : e.1 = print q := by simpa using List.find?_some hf
    have hc := h e hm
    rw [hk] at hc
    simp [freshSvc, hc, h]
  | none =>
    simp only [freshSvc, List.find?_nil]
    cases hc : compileP s.tree (print q) with
    | ok segs =>
      refine ⟨rfl, ?_⟩
      intro e he
      simp only [List.mem_cons] at he
      rcases he with rfl | he
      · exact hc
      · exact h e he
    | err c => exact ⟨rfl, h⟩
    | unmodelled => exact ⟨rfl, h⟩

theorem after_sameButVars (s : Svc) (ops ops' : List Op) (h : sameButVars ops ops' = true) : after s ops = after s ops' := by
  induction ops generalizing s ops' with
  | nil => cases ops' <;> simp_all [sameButVars, after]
  | cons op r ih =>
    cases ops' with
    | nil => cases op <;> simp [sameButVars] at h
    | cons op' r' =>
      cases op <;> cases op' <;> simp only [sameButVars, Bool.and_eq_true, beq_iff_eq, Bool.false_eq_true] at h
      case proc.proc q v q' v' =>
        obtain ⟨rfl, hr⟩ := h
        simp only [after, step]
        rw [procStep_state_vars s q v v']
        exact ih _ _ hr
      case rproc.rproc q v q' v' =>
        obtain ⟨rfl, hr⟩ := h
        simp only [after, step]
        cases resolve (yamlExists s.tree) q with
        | none => exact ih _ _ hr
        | some rq =>
          simp only
          rw [procStep_state_vars s rq v v']
          exact ih _ _ hr
      case get.get q q' =>
        obtain ⟨rfl, hr⟩ := h
        simp only [after, step]
        exact ih _ _ hr
      case inval.inval =>
        simp only [after, step]
        exact ih _ _ h
      case put.put k c k' c' =>
        obtain ⟨⟨rfl, rfl⟩, hr⟩ := h
        simp only [after, step]
        exact ih _ _ hr
      case del.del k k' =>
        obtain ⟨rfl, hr⟩ := h
        simp only [after, step]
        exact ih _ _ hr

theorem run_append_singleton (s : Svc) (pre : List Op) (op : Op) :
    run s (pre ++ [op]) = run s pre ++ [(step (after s pre) op).2] := by
  induction pre generalizing s with
  | nil => simp [run, after]
  | cons o r ih => simp [run, after, ih]

theorem run_eq_runFresh (s : Svc) (seen dirty : Bool) (hs : seen = false → s.cache = [])
    (hd : dirty = false → CacheCurrent s) (ops : List Op) (h : noStaleFrom seen dirty ops = true) :
    run s ops = runFresh s.tree ops := by
  induction ops generalizing s seen dirty with
  | nil => rfl
  | cons op r ih =>
    cases op with
    | proc q v =>
      simp only [noStaleFrom, Bool.and_eq_true, Bool.not_eq_true'] at h
      obtain ⟨hdirty, hr⟩ := h
      have hf := procStep_fresh s (hd hdirty) q v
      simp only [run, runFresh, step]
      rw [hf.1, procStep_tree]
      have := ih (procStep s q v).1 true dirty (by simp) (fun _ => hf.2) hr
      rw [procStep_tree] at this
      simp only [processT] at *
      rw [this]
      simp [freshSvc]
    | rproc q v =>
      simp only [noStaleFrom, Bool.and_eq_true, Bool.not_eq_true'] at h
      obtain ⟨hdirty, hr⟩ := h
      simp only [run, runFresh, step, freshSvc]
      cases hres : resolve (yamlExists s.tree) q with
      | none =>
        simp only
        have := ih s true dirty (by simp) hd hr
        rw [this]
      | some rq =>
        have hf := procStep_fresh s (hd hdirty) rq v
        simp only
        have := ih (procStep s rq v).1 true dirty (by simp) (fun _ => hf.2) hr
        rw [procStep_tree] at this
        rw [hf.1, this, procStep_tree]
        simp [processT, freshSvc]
    | get q =>
      simp only [noStaleFrom] at h
      simp only [run, runFresh, step, freshSvc]
      rw [ih s seen dirty hs hd h]
    | inval =>
      simp only [noStaleFrom] at h
      simp only [run, runFresh, step, freshSvc]
      have := ih { s with cache := [] } false false (fun _ => rfl) (fun _ e he => by simp at he) h
      rw [this]
    | put k c =>
      simp only [noStaleFrom] at h
      simp only [run, runFresh, step, freshSvc]
      have := ih { s with tree := putLeaf s.tree k c } seen (dirty || seen) hs
        (fun hx => by
          have : seen = false := by cases dirty <;> cases seen <;> simp_all
          intro e he
          rw [hs this] at he
          simp at he) h
      rw [this]
    | del k =>
      simp only [noStaleFrom] at h
      simp only [run, runFresh, step, freshSvc]
      have := ih { s with tree := delLeaf s.tree k } seen (dirty || seen) hs
        (fun hx => by
          have : seen = false := by cases dirty <;> cases seen <;> simp_all
          intro e he
          rw [hs this] at he
          simp at he) h
      rw [this]


/-! ## a fresh service's answer, and the Spec on it -/

theorem readFile_wf (t : List Leaf) (q : Query) (hq : wf q = true) : readFile t (print q) = yamlGet t (absRaw q) := by
  unfold readFile
  rw [parse_print q hq]
  simp only [getComponent]
  cases hg : yamlGet t (absRaw q) with
  | none => cases yamlExists t (absRaw q) <;> simp
  | some v => simp [yamlGet_exists t _ v hg]

/-- for a well-formed query the template the service compiles is the entry the Spec links -/
theorem compileP_wf (t : List Leaf) (q : Query) (hq : wf q = true) : compileP t (print q) = linkedEntry t q := by
  unfold compileP linkedEntry linkPath
  rw [readFile_wf t q hq]
  cases yamlGet t (absRaw q) <;> rfl

theorem processT_eq (t : List Leaf) (q : Query) (vars : List (Str × Str)) :
    processT t q vars =
      match compileP t (print q) with
      | .ok segs => execT segs vars
      | .err c => .err c
      | .unmodelled => .unmodelled := by
  unfold processT procStep freshSvc
  simp only [List.find?_nil]
  cases compileP t (print q) <;> rfl

theorem execT_eq (segs : List Seg) (vars : List (Str × Str)) :
    execT segs vars =
      if (bindings vars).all (fun kv => validIdent kv.1) then .ok (renderSegs (fun n => lookup (bindings vars) n) segs)
      else .err "badident" := by
  simp only [execT, execWith, subst_code]

theorem templatedOk_processT (t : List Leaf) (q : Query) (vars : List (Str × Str)) (hq : wf q = true) :
    templatedOk t q vars (processT t q vars) = true := by
  rw [processT_eq, compileP_wf t q hq]
  unfold templatedOk
  cases hl : linkedEntry t q with
  | unmodelled => rfl
  | err c => rfl
  | ok segs =>
    simp only []
    rw [execT_eq]
    by_cases hv : (bindings vars).all (fun kv => validIdent kv.1) = true
    · simp [hv]
    · simp [hv]

theorem seqOk_runFresh (t : List Leaf) (ops : List Op) (hwf : opsWf ops = true) :
    seqOk t ops ((runFresh t ops).map obsOfResp) = true := by
  induction ops generalizing t with
  | nil => rfl
  | cons op r ih =>
    cases op with
    | proc q v =>
      simp only [opsWf, Bool.and_eq_true] at hwf
      simp only [runFresh, step, List.map_cons, obsOfResp, seqOk, Bool.and_eq_true]
      rw [procStep_tree]
      exact ⟨templatedOk_processT t q v hwf.1, ih t hwf.2⟩
    | rproc q v =>
      simp only [opsWf, Bool.and_eq_true] at hwf
      have hr := resolutionOk_model (yamlExists t) q
      simp only [runFresh, step, freshSvc]
      cases hres : resolve (yamlExists t) q with
      | none =>
        simp only [hres] at hr
        simp only [List.map_cons, obsOfResp, seqOk, Bool.and_eq_true]
        exact ⟨⟨hr, by decide⟩, ih t hwf.2⟩
      | some rq =>
        simp only [hres] at hr
        simp only [List.map_cons, obsOfResp, seqOk, Bool.and_eq_true]
        rw [procStep_tree]
        exact ⟨⟨hr, templatedOk_processT t rq v (resolve_wf _ q rq hwf.1 hres)⟩, ih t hwf.2⟩
    | get q =>
      simp only [opsWf] at hwf
      simp only [runFresh, step, freshSvc, List.map_cons, obsOfResp, seqOk, Bool.and_eq_true]
      exact ⟨payloadOk_getComponent t q, ih t hwf⟩
    | inval =>
      simp only [opsWf] at hwf
      simp only [runFresh, step, freshSvc, List.map_cons, obsOfResp, seqOk]
      exact ih t hwf
    | put k c =>
      simp only [opsWf] at hwf
      simp only [runFresh, step, freshSvc, List.map_cons, obsOfResp, seqOk]
      exact ih _ hwf
    | del k =>
      simp only [opsWf] at hwf
      simp only [runFresh, step, freshSvc, List.map_cons, obsOfResp, seqOk]
      exact ih _ hwf

/-! ## the plain fragment inside the extended one -/

def embMode : Mode → TMode
  | .text => .text
  | .pre => .vpre
  | .name acc => .vname acc
  | .post n => .vpost n

theorem map_consChar (c : Char) (segs : List Seg) : (consChar c segs).map Tok.seg = consTok c (segs.map Tok.seg) := by
  unfold consChar consTok
  cases segs with
  | nil => rfl
  | cons x r => cases x <;> rfl

theorem varNames_consChar (c : Char) (segs : List Seg) : varNames (consChar c segs) = varNames segs := by
  unfold consChar
  cases segs with
  | nil => rfl
  | cons x r => cases x <;> rfl


theorem scan_vpre (c : Char) (rest : Str) : scan .vpre (c :: rest) =
    if isTagSpace c then scan .vpre rest else if isIdentStart c then scan (.vname [c]) rest else none := by
  rw [scan.eq_def]

theorem scan_vname_ident (acc : Str) (c : Char) (rest : Str) (h : isIdentChar c = true) :
    scan (.vname acc) (c :: rest) = scan (.vname (c :: acc)) rest := by
  rw [scan.eq_def]; simp [h]

theorem scan_vname_space (acc : Str) (c : Char) (rest : Str) (h : ¬ isIdentChar c = true) (h2 : isTagSpace c = true) :
    scan (.vname acc) (c :: rest) = scan (.vpost acc.reverse) rest := by
  rw [scan.eq_def]; simp [h, h2]

theorem scan_vname_close (acc : Str) (c : Char) (rest : Str) (h : ¬ isIdentChar c = true) (h2 : ¬ isTagSpace c = true)
    (h3 : (c == '}') = true) (hp : plainNameT acc.reverse = true) :
    scan (.vname acc) (c :: '}' :: rest) = (scan .text rest).map (Tok.seg (.var acc.reverse) :: ·) := by
  rw [scan.eq_def]; simp [h, h2, h3, hp]

theorem scan_vpost_space (n : Str) (c : Char) (rest : Str) (h2 : isTagSpace c = true) :
    scan (.vpost n) (c :: rest) = scan (.vpost n) rest := by
  rw [scan.eq_def]; simp [h2]

theorem scan_vpost_close (n : Str) (c : Char) (rest : Str) (h2 : ¬ isTagSpace c = true)
    (h3 : (c == '}') = true) (hp : plainNameT n = true) :
    scan (.vpost n) (c :: '}' :: rest) = (scan .text rest).map (Tok.seg (.var n) :: ·) := by
  rw [scan.eq_def]; simp [h2, h3, hp]

theorem scan_of_lex (m : Mode) (s : Str) (segs : List Seg) (h : lex m s = some segs)
    (hb : blockKw ∉ varNames segs) : scan (embMode m) s = some (segs.map Tok.seg) := by
  fun_induction lex m s generalizing segs
  all_goals (try (simp at h; done))
  case case1 => simp at h; subst h; simp [embMode, scan]
  case case2 rest ih => simp only [embMode, scan]; exact ih segs h hb
  case case5 c rest h1 h2 h3 ih =>
    cases hl : lex Mode.text rest with
    | none => simp [hl] at h
    | some segs' =>
      simp only [hl, Option.map_some, Option.some.injEq] at h
      subst h
      rw [varNames_consChar] at hb
      have := ih segs' hl hb
      simp only [embMode] at this ⊢
      rw [scan.eq_5 c rest h1 h2 h3, this]
      simp [map_consChar]
  case case7 c rest hsp ih =>
    have := ih segs h hb
    simp only [embMode] at this ⊢
    rw [scan_vpre]; simp [hsp, this]
  case case8 c rest hsp hid ih =>
    have := ih segs h hb
    simp only [embMode] at this ⊢
    rw [scan_vpre]; simp [hsp, hid, this]
  case case11 acc c rest hid ih =>
    have := ih segs h hb
    simp only [embMode] at this ⊢
    rw [scan_vname_ident _ _ _ hid, this]
  case case12 acc c rest hid hsp ih =>
    have := ih segs h hb
    simp only [embMode] at this ⊢
    rw [scan_vname_space _ _ _ hid hsp, this]
  case case13 acc c hid hsp hc rest' hp ih =>
    cases hl : lex Mode.text rest' with
    | none => simp [hl] at h
    | some segs' =>
      simp only [hl, Option.map_some, Option.some.injEq] at h
      subst h
      simp only [varNames, List.mem_cons, not_or] at hb
      have := ih segs' hl hb.2
      simp only [embMode] at this ⊢
      have hpt : plainNameT acc.reverse = true := by
        simp only [plainNameT, hp, Bool.true_and, bne_iff_ne, ne_eq]
        exact fun e => hb.1 e.symm
      rw [scan_vname_close _ _ _ hid hsp hc hpt, this]
      simp
  case case18 n c rest hsp ih =>
    have := ih segs h hb
    simp only [embMode] at this ⊢
    rw [scan_vpost_space _ _ _ hsp, this]
  case case19 n c hsp hc rest' hp ih =>
    cases hl : lex Mode.text rest' with
    | none => simp [hl] at h
    | some segs' =>
      simp only [hl, Option.map_some, Option.some.injEq] at h
      subst h
      simp only [varNames, List.mem_cons, not_or] at hb
      have := ih segs' hl hb.2
      simp only [embMode] at this ⊢
      have hpt : plainNameT n = true := by
        simp only [plainNameT, hp, Bool.true_and, bne_iff_ne, ne_eq]
        exact fun e => hb.1 e.symm
      rw [scan_vpost_close _ _ _ hsp hc hpt, this]
      simp


def plainItems (segs : List Seg) : List Item := segs.map fun s => Item.b (.seg s)

theorem group_plain (segs : List Seg) : group none (segs.map Tok.seg) = some (plainItems segs) := by
  induction segs with
  | nil => rfl
  | cons x r ih => simp [group, ih, plainItems]

theorem extCount_plain (segs : List Seg) : extCount (plainItems segs) = 0 := by
  induction segs with
  | nil => rfl
  | cons x r ih => simpa [plainItems, extCount] using ih

theorem blockNames_plain (segs : List Seg) : blockNames (plainItems segs) = [] := by
  induction segs with
  | nil => rfl
  | cons x r ih => simpa [plainItems, blockNames] using ih

theorem itemsOk_plain (segs : List Seg) : itemsOk (plainItems segs) = true := by
  simp [itemsOk, extCount_plain, blockNames_plain, distinct]

theorem resolveItems_plain (rec : Str → LinkRes (List RNode)) (base : Str) (segs : List Seg) :
    resolveItems rec base (plainItems segs) = .ok ⟨none, segs.map RNode.seg⟩ := by
  induction segs with
  | nil => rfl
  | cons x r ih =>
    simp only [plainItems, List.map_cons, resolveItems] at ih ⊢
    rw [ih]; rfl

theorem flatten_map_seg (segs : List Seg) : flatten (segs.map RNode.seg) = segs := by
  induction segs with
  | nil => rfl
  | cons x r ih => simp [flatten, ih]

/-- content of the plain `{{ name }}` fragment links to itself, whatever the backend holds -/
theorem linkContent_plain (rec : Str → LinkRes (List RNode)) (base content : Str) (segs : List Seg)
    (hl : lexTemplate content = some segs) (hb : blockKw ∉ varNames segs) :
    linkContent rec base content = .ok (segs.map RNode.seg) := by
  unfold linkContent parseItems
  have := scan_of_lex .text content segs hl hb
  simp only [embMode] at this
  rw [this]
  simp only [group_plain, itemsOk_plain, if_true, resolveItems_plain]

/-- on an entry of the plain fragment a fresh service answers what the single-request model answers -/
theorem processT_plain (t : List Leaf) (q : Query) (vars : List (Str × Str)) (hq : wf q = true)
    (content : Str) (segs : List Seg) (hg : yamlGet t (absRaw q) = some content)
    (hl : lexTemplate content = some segs) (hb : blockKw ∉ varNames segs) :
    processT t q vars = processComponent t q vars := by
  rw [processT_eq, compileP_wf t q hq, processComponent_wf t q vars hq]
  unfold linkedEntry
  simp only [hg, hl, linkContent_plain _ _ content segs hl hb, LinkRes.map, flatten_map_seg, execT_eq]


/-! ## the backend along a history -/

theorem step_tree (s : Svc) (op : Op) : (step s op).1.tree = treeAfter s.tree [op] := by
  cases op with
  | proc q v => simp [step, treeAfter, procStep_tree]
  | rproc q v =>
    simp only [step, treeAfter]
    cases resolve (yamlExists s.tree) q <;> simp [procStep_tree]
  | get q => rfl
  | inval => rfl
  | put k c => rfl
  | del k => rfl

theorem treeAfter_cons (t : List Leaf) (op : Op) (ops : List Op) :
    treeAfter t (op :: ops) = treeAfter (treeAfter t [op]) ops := by
  cases op <;> rfl

theorem after_tree (s : Svc) (ops : List Op) : (after s ops).tree = treeAfter s.tree ops := by
  induction ops generalizing s with
  | nil => rfl
  | cons op r ih => rw [after, ih, step_tree, ← treeAfter_cons]

theorem runFresh_append_singleton (t : List Leaf) (pre : List Op) (op : Op) :
    runFresh t (pre ++ [op]) = runFresh t pre ++ [(step (freshSvc (treeAfter t pre)) op).2] := by
  induction pre generalizing t with
  | nil => simp [runFresh, treeAfter]
  | cons o r ih =>
    simp only [List.cons_append, runFresh, ih, step_tree, freshSvc]
    rw [treeAfter_cons t o r]

theorem after_append (s : Svc) (a b : List Op) : after s (a ++ b) = after (after s a) b := by
  induction a generalizing s with
  | nil => rfl
  | cons o r ih => simp [after, ih]

end Query
