/-
  Proofs/QueryConc — lemmas for the concurrent-lookup theorems of C20 (Props/C20.lean).
  The argument is a frame argument: a step of one request leaves the tree alone, keeps every cached template current,
  does not touch the other requests, and does not change what the stepping request will eventually answer.
-/
import ControlModel.Model.QueryConc
import ControlModel.Proofs.Query

namespace Query
open Spec.C20

/-! ## one step -/

theorem Prog.step_tree (s : Svc) (p : Prog) : (p.step s).1.tree = s.tree := by
  cases p with
  | done r => rfl
  | ex key k => rfl
  | get key k => rfl
  | tpl path k =>
    simp only [Prog.step]
    split
    · rfl
    · split <;> rfl

theorem Prog.step_current (s : Svc) (h : CacheCurrent s) (p : Prog) : CacheCurrent (p.step s).1 := by
  cases p with
  | done r => exact h
  | ex key k => exact h
  | get key k => exact h
  | tpl path k =>
    simp only [Prog.step]
    split
    · exact h
    · split
      · rename_i segs hc
        intro e he
        simp only [List.mem_cons] at he
        rcases he with rfl | he
        · exact hc
        · exact h e he
      · exact h
      · exact h

/-- a step does not change what the request will answer -/
theorem Prog.step_eval (s : Svc) (h : CacheCurrent s) (p : Prog) :
    Prog.eval s.tree (p.step s).2 = Prog.eval s.tree p := by
  cases p with
  | done r => rfl
  | ex key k => rfl
  | get key k => rfl
  | tpl path k =>
    simp only [Prog.step, Prog.eval]
    split
    · rename_i e hf
      have hm : e ∈ s.cache := List.mem_of_find?_eq_some hf
      have hk : e.1 = path := by simpa using List.find?_some hf
      have hc := h e hm
      rw [hk] at hc
      rw [hc]
    · split
      · rename_i segs hc; rw [hc]
      · rename_i c hc; rw [hc]
      · rename_i hc; rw [hc]

theorem Prog.eval_of_result (t : List Leaf) (p : Prog) (r : Resp) (h : p.result? = some r) : Prog.eval t p = r := by
  cases p with
  | done r' => simpa [Prog.result?, Prog.eval] using h
  | ex key k => simp [Prog.result?] at h
  | get key k => simp [Prog.result?] at h
  | tpl path k => simp [Prog.result?] at h

/-! ## the programs compute the sequential answers -/

theorem eval_resolveP (t : List Leaf) (q : Query) (k : Option Query → Prog) :
    Prog.eval t (resolveP q k) = Prog.eval t (k (resolve (yamlExists t) q)) := by
  unfold resolveP resolve
  simp only [Prog.eval]
  cases yamlExists t (absRaw q) <;> simp only [if_true, if_false, Bool.false_eq_true, Prog.eval]
  cases yamlExists t (absRaw (withFallbackRunType q)) <;> simp only [if_true, if_false, Bool.false_eq_true, Prog.eval]
  cases yamlExists t (absRaw (withFallbackRoleName q)) <;> simp only [if_true, if_false, Bool.false_eq_true, Prog.eval]
  cases yamlExists t (absRaw (withFallbackRunType (withFallbackRoleName q))) <;> simp only [if_true, if_false, Bool.false_eq_true]

theorem eval_getP (t : List Leaf) (q : Query) (k : Payload → Prog) :
    Prog.eval t (getP q k) = Prog.eval t (k (getComponent t q)) := by
  unfold getP getComponent
  simp only [Prog.eval]
  cases yamlExists t (absRaw q) <;> simp only [if_true, if_false, Bool.false_eq_true, Prog.eval] <;> rfl

theorem eval_procP (t : List Leaf) (q : Query) (vars : List (Str × Str)) (k : Payload → Prog) :
    Prog.eval t (procP q vars k) = Prog.eval t (k (processT t q vars)) := by
  unfold procP
  simp only [Prog.eval]
  rw [processT_eq]
  rfl

/-- run alone to its end, the program of a request computes the request's sequential answer -/
theorem eval_progOf (t : List Leaf) (rq : Req) : Prog.eval t (progOf rq) = rq.answer t := by
  cases rq with
  | res q => simp only [progOf, eval_resolveP, Prog.eval, Req.answer]
  | get q => simp only [progOf, eval_getP, Prog.eval, Req.answer]
  | rget q =>
    simp only [progOf, eval_resolveP, Req.answer]
    cases resolve (yamlExists t) q with
    | none => rfl
    | some rq => simp only [eval_getP, Prog.eval]
  | proc q vars => simp only [progOf, eval_procP, Prog.eval, Req.answer]
  | rproc q vars =>
    simp only [progOf, eval_resolveP, Req.answer]
    cases resolve (yamlExists t) q with
    | none => rfl
    | some rq => simp only [eval_procP, Prog.eval]

/-! ## any schedule -/

/-- the invariant of a run over the unchanging tree `t`: the tree is `t`, every cached template is current, and every
    thread will still answer what it would have answered at the start -/
structure ConcInv (t : List Leaf) (answers : List Resp) (c : Conf) : Prop where
  tree : c.svc.tree = t
  current : CacheCurrent c.svc
  evals : c.pool.map (Prog.eval t) = answers

theorem ConcInv.stepAt {t : List Leaf} {answers : List Resp} {c : Conf} (h : ConcInv t answers c) (i : Nat) :
    ConcInv t answers (c.stepAt i) := by
  unfold Conf.stepAt
  cases hp : c.pool[i]? with
  | none => exact h
  | some p =>
    refine ⟨?_, ?_, ?_⟩
    · simp only [Prog.step_tree, h.tree]
    · exact Prog.step_current c.svc h.current p
    · have he := Prog.step_eval c.svc h.current p
      rw [h.tree] at he
      rw [← h.evals]
      apply List.ext_getElem?
      intro j
      simp only [List.getElem?_map, List.getElem?_set]
      by_cases hij : i = j
      · subst hij
        have hlt : i < c.pool.length := by
          rcases Nat.lt_or_ge i c.pool.length with hl | hl
          · exact hl
          · rw [List.getElem?_eq_none hl] at hp; cases hp
        simp only [hlt, if_true, Option.map_some, hp, he]
      · simp only [hij, if_false]

theorem ConcInv.run {t : List Leaf} {answers : List Resp} (sched : List Nat) :
    ∀ {c : Conf}, ConcInv t answers c → ConcInv t answers (c.run sched) := by
  induction sched with
  | nil => intro c h; exact h
  | cons i rest ih => intro c h; exact ih (h.stepAt i)

theorem ConcInv.start (t : List Leaf) (reqs : List Req) :
    ConcInv t (reqs.map (Req.answer t)) (startConf t reqs) := by
  refine ⟨rfl, ?_, ?_⟩
  · intro e he; simp [startConf, freshSvc] at he
  · simp only [startConf, List.map_map]
    apply List.map_congr_left
    intro rq _
    exact eval_progOf t rq

/-- a finished thread's answer is the answer the invariant fixed for it -/
theorem ConcInv.answer {t : List Leaf} {answers : List Resp} {c : Conf} (h : ConcInv t answers c) (i : Nat) (r : Resp)
    (ha : c.answer? i = some r) : answers[i]? = some r := by
  unfold Conf.answer? at ha
  cases hp : c.pool[i]? with
  | none => simp [hp] at ha
  | some p =>
    simp only [hp, Option.bind_some] at ha
    rw [← h.evals, List.getElem?_map, hp, Option.map_some, Prog.eval_of_result t p r ha]

/-! ## progress -/

theorem DoneWithin.mono {n m : Nat} {p : Prog} (h : DoneWithin n p) (hnm : n ≤ m) : DoneWithin m p := by
  induction h generalizing m with
  | done n r => exact .done m r
  | ex n key k _ ih =>
    cases m with
    | zero => omega
    | succ m => exact .ex m key k (fun b => ih b (by omega))
  | get n key k _ ih =>
    cases m with
    | zero => omega
    | succ m => exact .get m key k (fun v => ih v (by omega))
  | tpl n path k _ ih =>
    cases m with
    | zero => omega
    | succ m => exact .tpl m path k (fun r => ih r (by omega))

theorem DoneWithin.step {n : Nat} {p : Prog} (h : DoneWithin (n + 1) p) (s : Svc) : DoneWithin n (p.step s).2 := by
  cases h with
  | done _ r => exact .done n r
  | ex _ key k h => exact h _
  | get _ key k h => exact h _
  | tpl _ path k h =>
    simp only [Prog.step]
    split
    · exact h _
    · split <;> exact h _

theorem DoneWithin.result {p : Prog} (h : DoneWithin 0 p) : p.result?.isSome = true := by
  cases h with
  | done _ r => rfl

theorem doneWithin_resolveP (n : Nat) (q : Query) (k : Option Query → Prog) (hk : ∀ r, DoneWithin n (k r)) :
    DoneWithin (n + 4) (resolveP q k) := by
  unfold resolveP
  refine .ex _ _ _ fun b0 => ?_
  cases b0
  · simp only [Bool.false_eq_true, if_false]
    refine .ex _ _ _ fun b1 => ?_
    cases b1
    · simp only [Bool.false_eq_true, if_false]
      refine .ex _ _ _ fun b2 => ?_
      cases b2
      · simp only [Bool.false_eq_true, if_false]
        refine .ex _ _ _ fun b3 => ?_
        cases b3 <;> simp only [Bool.false_eq_true, if_false, if_true] <;> exact hk _
      · simp only [if_true]; exact (hk _).mono (by omega)
    · simp only [if_true]; exact (hk _).mono (by omega)
  · simp only [if_true]; exact (hk _).mono (by omega)

theorem doneWithin_getP (n : Nat) (q : Query) (k : Payload → Prog) (hk : ∀ p, DoneWithin n (k p)) :
    DoneWithin (n + 2) (getP q k) := by
  unfold getP
  refine .ex _ _ _ fun b => ?_
  cases b
  · simp only [Bool.false_eq_true, if_false]; exact (hk _).mono (by omega)
  · simp only [if_true]; exact .get _ _ _ fun v => hk _

theorem doneWithin_procP (n : Nat) (q : Query) (vars : List (Str × Str)) (k : Payload → Prog) (hk : ∀ p, DoneWithin n (k p)) :
    DoneWithin (n + 1) (procP q vars k) := by
  unfold procP
  exact .tpl _ _ _ fun r => hk _

/-- every request is finished after at most six atomic steps (four existence probes of the fallback, then Exists + Get
    of the payload or the template-set step) -/
theorem doneWithin_progOf (rq : Req) : DoneWithin 6 (progOf rq) := by
  cases rq with
  | res q =>
    have h := doneWithin_resolveP 0 q (fun r => .done (.res r .dash)) (fun r => .done 0 _)
    exact h.mono (by omega)
  | get q =>
    have h := doneWithin_getP 0 q (fun p => .done (.pay p)) (fun p => .done 0 _)
    exact h.mono (by omega)
  | rget q =>
    simp only [progOf]
    refine doneWithin_resolveP 2 q _ fun r => ?_
    cases r with
    | none => exact .done 2 _
    | some rq => exact doneWithin_getP 0 rq _ fun p => .done 0 _
  | proc q vars =>
    have h := doneWithin_procP 0 q vars (fun p => .done (.pay p)) (fun p => .done 0 _)
    exact h.mono (by omega)
  | rproc q vars =>
    have h : DoneWithin (1 + 4) (progOf (.rproc q vars)) := by
      simp only [progOf]
      refine doneWithin_resolveP 1 q _ fun r => ?_
      cases r with
      | none => exact .done 1 _
      | some rq => exact doneWithin_procP 0 rq vars _ fun p => .done 0 _
    exact h.mono (by omega)

theorem Conf.stepAt_length (c : Conf) (i : Nat) : (c.stepAt i).pool.length = c.pool.length := by
  unfold Conf.stepAt
  cases c.pool[i]? <;> simp

theorem Conf.stepAt_other (c : Conf) (i j : Nat) (h : i ≠ j) : (c.stepAt i).pool[j]? = c.pool[j]? := by
  unfold Conf.stepAt
  cases c.pool[i]? with
  | none => rfl
  | some p => simp [h]

/-- a thread that is scheduled as often as it has steps left is finished at the end, whatever the others do -/
theorem Conf.run_finishes (sched : List Nat) (i : Nat) :
    ∀ (c : Conf) (n : Nat) (p : Prog), c.pool[i]? = some p → DoneWithin n p → n ≤ sched.count i →
      ((c.run sched).answer? i).isSome = true := by
  induction sched with
  | nil =>
    intro c n p hp hd hn
    simp only [List.count_nil, Nat.le_zero_eq] at hn
    subst hn
    simp only [Conf.run, Conf.answer?, hp, Option.bind_some]
    exact hd.result
  | cons j rest ih =>
    intro c n p hp hd hn
    simp only [Conf.run]
    by_cases hji : j = i
    · subst hji
      have hlt : j < c.pool.length := by
        rcases Nat.lt_or_ge j c.pool.length with hl | hl
        · exact hl
        · rw [List.getElem?_eq_none hl] at hp; cases hp
      have hp' : (c.stepAt j).pool[j]? = some (p.step c.svc).2 := by
        simp only [Conf.stepAt, hp]
        simp [hlt]
      simp only [List.count_cons_self] at hn
      cases n with
      | zero => exact ih _ 0 _ hp' ((hd.mono (Nat.le_succ 0)).step c.svc) (Nat.zero_le _)
      | succ n => exact ih _ n _ hp' (hd.step c.svc) (by omega)
    · have hp' : (c.stepAt j).pool[i]? = some p := by rw [Conf.stepAt_other c j i hji, hp]
      rw [List.count_cons_of_ne (by simpa using hji)] at hn
      exact ih _ n p hp' hd hn

theorem count_roundRobin (threads n i : Nat) (h : i < threads) : (roundRobin threads n).count i = n := by
  unfold roundRobin
  induction n with
  | zero => simp
  | succ n ih =>
    rw [List.replicate_succ, List.flatten_cons, List.count_append, ih]
    have : (List.range threads).count i = 1 := by
      rw [List.Nodup.count List.nodup_range]; simp [h]
    omega

/-! ## the model's answers satisfy the Spec -/

theorem reqOk_answer (t : List Leaf) (rq : Req) (hwf : reqWf rq = true) :
    reqOk t rq (obsOfResp (rq.answer t)) = true := by
  cases rq with
  | res q =>
    have hr := resolutionOk_model (yamlExists t) q
    simp only [Req.answer]
    cases hres : resolve (yamlExists t) q <;> simp only [hres] at hr <;> simp [obsOfResp, reqOk, hr]
  | get q => simp only [Req.answer, obsOfResp, reqOk]; exact payloadOk_getComponent t q
  | rget q =>
    have hr := resolutionOk_model (yamlExists t) q
    simp only [Req.answer]
    cases hres : resolve (yamlExists t) q <;> simp only [hres] at hr <;>
      simp [obsOfResp, reqOk, hr, payloadOk_getComponent]
  | proc q vars =>
    simp only [reqWf] at hwf
    simp only [Req.answer, obsOfResp, reqOk]
    exact templatedOk_processT t q vars hwf
  | rproc q vars =>
    simp only [reqWf] at hwf
    have hr := resolutionOk_model (yamlExists t) q
    simp only [Req.answer]
    cases hres : resolve (yamlExists t) q with
    | none => simp only [hres] at hr; simp [obsOfResp, reqOk, hr]
    | some rq =>
      simp only [hres] at hr
      simp [obsOfResp, reqOk, hr, templatedOk_processT t rq vars (resolve_wf _ q rq hwf hres)]

theorem concOk_model (t : List Leaf) (reqs : List Req) (hwf : reqs.all reqWf = true) :
    concOk t reqs (modelConcObs t reqs) = true := by
  induction reqs with
  | nil => rfl
  | cons rq rest ih =>
    simp only [List.all_cons, Bool.and_eq_true] at hwf
    simp only [modelConcObs, List.map_cons, concOk, List.isEmpty_cons, Bool.not_false, List.all_cons, List.all_nil,
      Bool.and_true, Bool.and_eq_true]
    exact ⟨⟨reqOk_answer t rq hwf.1, reqOk_answer t rq hwf.1⟩, ih hwf.2⟩

end Query
