/-
  Proofs/Reconcile — invariants of Model/Reconcile.lean behind the C18 theorems (core Lean only).

    InvA  identity: a persisted framework id is the one in memory, on the stream and in every later SUBSCRIBE
    InvB  well-formedness: table rows are `seen`, roster ids belong to rows of the current life, every row
          carries the persisted framework id, nothing is in flight for a dead core
    InvQ  orphans: while connected, every killable task of an earlier life is covered by the SUBSCRIBED still
          to be read, by a reconciliation answer on its way, or by a KILL sent SINCE the latest RECONCILE call
          of the current life (so: every reconciliation round kills it again, `orphansKilledEachRound`)
    InvP  (under `noReconnWhileOwning`) no reconciliation update in flight names a locked roster task
    InvR  the roster and what the environments hold: every held task has a locked roster entry of its
          environment and vice versa — across teardowns split into `releaseBegin`/`releaseEnd` with deployments
          of other environments in between; needs `snapshotRewrite = false` (failed KILLs are appended back)
-/
import ControlModel.Spec.C18
open Reconcile Spec.C18

namespace Reconcile

structure InvA (s : St) : Prop where
  persisted : ∀ l f, Out.persist l f ∈ s.log → s.kv = some f
  mem : s.alive = true → ∀ f, s.kv = some f → s.fidMem = some f
  hello : ∀ g, s.hello = some g → s.stream = some g
  stream : ∀ f, s.kv = some f → s.stream = none ∨ s.stream = some f
  same : sameIdentity s.log = true
  once : persistedOnce s.log = true

theorem invA_init (kv0 : Option Nat) : InvA (init kv0) := by
  cases kv0 <;> constructor <;> simp [init, sameIdentity, persistedOnce]

theorem sameIdentity_killsFor (l w ts) (log : List Out) :
    sameIdentity (killsFor l w ts ++ log) = sameIdentity log := by
  induction ts with
  | nil => simp [killsFor]
  | cons a as ih => simpa [killsFor, sameIdentity] using ih

theorem persistedOnce_killsFor (l w ts) (log : List Out) :
    persistedOnce (killsFor l w ts ++ log) = persistedOnce log := by
  induction ts with
  | nil => simp [killsFor]
  | cons a as ih => simpa [killsFor, persistedOnce] using ih

theorem persist_mem_killsFor (l w ts) (log : List Out) (l' f) :
    Out.persist l' f ∈ killsFor l w ts ++ log ↔ Out.persist l' f ∈ log := by
  simp [killsFor]

theorem invA_step (c : Cfg) (W : World) (hseed : c.seedFid = true) (hfo : c.failover = true)
    (s : St) (x : Step) (h : InvA s) : InvA (step c W s x) := by
  obtain ⟨h1, h2, h3, h4, h5, h6⟩ := h
  constructor
  · cases x <;> grind [step, St.exit, persist_mem_killsFor]
  · cases x <;> grind [step, St.exit]
  · cases x <;> grind [step, St.exit]
  · cases x <;> grind [step, St.exit]
  · cases x <;> grind [step, St.exit, sameIdentity_killsFor, sameIdentity]
  · have key : s.alive = true → ∀ f, s.hello = some f → s.fidMem ≠ some f → ∀ l g, Out.persist l g ∈ s.log → False := by
      intro ha f hf hm l g hp
      have h1' := h1 l g hp
      have h2' := h2 ha g h1'
      have h3' := h3 f hf
      have h4' := h4 g h1'
      grind
    cases x <;> grind [step, St.exit, persistedOnce_killsFor, persistedOnce]
/-- hypotheses on the configuration used by the well-formedness and orphan invariants -/
structure Sound (c : Cfg) : Prop where
  seed : c.seedFid = true
  persist : c.persistFid = true
  failover : c.failover = true
  recon : c.reconcileOnSubscribed = true
  staging : c.killable .staging = true
  nonterm : ∀ st, c.killable st = true → st.terminal = false
  norewrite : c.snapshotRewrite = false

def stepOk (c : Cfg) : Step → Bool
  | .status _ st => st.terminal || c.killable st
  | _ => true

structure InvB (c : Cfg) (s : St) : Prop where
  seen : ∀ t ∈ s.tasks, t.id ∈ s.seen
  roster : ∀ r ∈ s.roster, ∀ t ∈ s.tasks, t.id = r.id → t.life = s.life
  tearing : ∀ d ∈ s.tearing, ∀ a ∈ d.act, ∀ t ∈ s.tasks, t.id = a → t.life = s.life
  fid : ∀ t ∈ s.tasks, s.kv = some t.fid
  mem : s.alive = true → s.fidMem = s.kv
  dead : s.alive = false → s.stream = none ∧ s.hello = none ∧ s.queue = [] ∧ s.roster = [] ∧ s.inbox = []
  conn : s.alive = true → ∀ f, s.stream = some f → s.hello.isSome = false → s.fidMem = some f
  states : ∀ t ∈ s.tasks, t.state.terminal = true ∨ c.killable t.state = true

theorem invB_init (c : Cfg) (kv0 : Option Nat) : InvB c (init kv0) := by
  cases kv0 <;> constructor <;> simp [init]

theorem mem_tearing_find (ds : List Teardown) (e : Nat) (d : Teardown)
    (h : ds.find? (fun d => d.env == e) = some d) : d ∈ ds := List.mem_of_find?_eq_some h

theorem mem_tearing_erase (ds : List Teardown) (e : Nat) (d : Teardown)
    (h : d ∈ ds.eraseP (fun d => d.env == e)) : d ∈ ds := List.mem_of_mem_eraseP h

theorem invB_step (c : Cfg) (W : World) (hc : Sound c) (s : St) (x : Step) (hx : stepOk c x = true)
    (ha : ∀ g, s.hello = some g → s.stream = some g)
    (h : InvB c s) : InvB c (step c W s x) := by
  obtain ⟨hs1, hs2, hs3, hs4, hs5, hs6, hs7⟩ := hc
  obtain ⟨h1, h3, ht, h4, h5, h6, h7, h8⟩ := h
  constructor
  · cases x <;> grind [step, St.exit]
  · cases x with
    | releaseEnd e =>
      by_cases hal : s.alive = true
      case neg => simpa [step, hal] using h3
      cases hf : s.tearing.find? (fun d => d.env == e) with
      | none => simpa [step, hal, hf] using h3
      | some d =>
        have hd := mem_tearing_find _ _ _ hf
        intro r hr t htm hid
        by_cases hs : s.stream.isSome = true
        · simp [step, hal, hf, hs, hs7] at hr htm ⊢
          exact h3 r hr t htm hid
        · simp [step, hal, hf, hs, hs7] at hr htm ⊢
          rcases hr with hr | ⟨a, ha', rfl⟩
          · exact h3 r hr t htm hid
          · exact ht d hd a ha' t htm (by simpa [putBack] using hid)
    | releaseBegin e => grind [step, St.exit]
    | release e => grind [step, St.exit]
    | coreStart => grind [step, St.exit]
    | coreKill => grind [step, St.exit]
    | coreTerm => grind [step, St.exit]
    | subscribe => grind [step, St.exit]
    | drop => grind [step, St.exit]
    | read => grind [step, St.exit]
    | handle => grind [step, St.exit, setActive]
    | launch e t => grind [step, St.exit]
    | status t st => grind [step, St.exit]
    | reconUpdate t st => grind [step, St.exit]
    | snapshot => grind [step, St.exit]
  · cases x with
    | releaseEnd e =>
      by_cases hal : s.alive = true
      case neg => simpa [step, hal] using ht
      cases hf : s.tearing.find? (fun d => d.env == e) with
      | none => simpa [step, hal, hf] using ht
      | some d =>
        intro d' hd' a ha' t htm hid
        by_cases hs : s.stream.isSome = true
        · simp [step, hal, hf, hs] at hd' htm ⊢
          exact ht d' (mem_tearing_erase _ _ _ hd') a ha' t htm hid
        · simp [step, hal, hf, hs] at hd' htm ⊢
          exact ht d' (mem_tearing_erase _ _ _ hd') a ha' t htm hid
    | releaseBegin e =>
      by_cases hal : s.alive = true
      case neg => simpa [step, hal] using ht
      intro d' hd' a ha' t htm hid
      simp [step, hal] at hd' htm ⊢
      rcases hd' with hd' | rfl
      · exact ht d' hd' a ha' t htm hid
      · dsimp only at ha'
        simp only [List.mem_map, List.mem_filter] at ha'
        obtain ⟨r, ⟨hr, _⟩, rfl⟩ := ha'
        exact h3 r hr t htm hid
    | release e => grind [step, St.exit]
    | coreStart => grind [step, St.exit]
    | coreKill => grind [step, St.exit]
    | coreTerm => grind [step, St.exit]
    | subscribe => grind [step, St.exit]
    | drop => grind [step, St.exit]
    | read => grind [step, St.exit]
    | handle => grind [step, St.exit]
    | launch e t => grind [step, St.exit]
    | status t st => grind [step, St.exit]
    | reconUpdate t st => grind [step, St.exit]
    | snapshot => grind [step, St.exit]
  · cases x <;> grind [step, St.exit]
  · cases x <;> grind [step, St.exit]
  · cases x <;> grind [step, St.exit]
  · cases x <;> grind [step, St.exit]
  · cases x <;> grind [step, St.exit, stepOk]

/-! ### the log since the latest RECONCILE of a life -/

@[simp] theorem sinceReconcile_kill (l l' t w o) (log : List Out) :
    sinceReconcile l (.kill l' t w o :: log) = .kill l' t w o :: sinceReconcile l log := rfl
@[simp] theorem sinceReconcile_snap (l l' os) (log : List Out) :
    sinceReconcile l (.snap l' os :: log) = .snap l' os :: sinceReconcile l log := rfl
@[simp] theorem sinceReconcile_subscribe (l l' c) (log : List Out) :
    sinceReconcile l (.subscribe l' c :: log) = .subscribe l' c :: sinceReconcile l log := rfl
@[simp] theorem sinceReconcile_persist (l l' f) (log : List Out) :
    sinceReconcile l (.persist l' f :: log) = .persist l' f :: sinceReconcile l log := rfl
@[simp] theorem sinceReconcile_stateError (l l') (log : List Out) :
    sinceReconcile l (.stateError l' :: log) = .stateError l' :: sinceReconcile l log := rfl
@[simp] theorem sinceReconcile_reconcile_self (l) (log : List Out) :
    sinceReconcile l (.reconcile l :: log) = [] := by simp [sinceReconcile]

theorem sinceReconcile_killsFor (l l' w ts) (log : List Out) :
    sinceReconcile l (killsFor l' w ts ++ log) = killsFor l' w ts ++ sinceReconcile l log := by
  induction ts with
  | nil => simp [killsFor]
  | cons a as ih => simpa [killsFor] using ih

/-- what is newer than the latest RECONCILE is in the log -/
theorem sinceReconcile_sub (l : Nat) (log : List Out) : ∀ o ∈ sinceReconcile l log, o ∈ log := by
  induction log with
  | nil => intro o h; cases h
  | cons a as ih =>
    intro o h
    cases a with
    | reconcile l' =>
      by_cases e : l' = l
      · subst e; simp at h
      · have : sinceReconcile l (.reconcile l' :: as) = .reconcile l' :: sinceReconcile l as := by
          simp [sinceReconcile, e]
        rw [this] at h
        rcases List.mem_cons.mp h with h | h
        · exact h ▸ List.mem_cons_self
        · exact List.mem_cons_of_mem _ (ih o h)
    | kill _ _ _ _ | snap _ _ | subscribe _ _ | persist _ _ | stateError _ =>
      simp only [sinceReconcile_kill, sinceReconcile_snap, sinceReconcile_subscribe, sinceReconcile_persist,
        sinceReconcile_stateError] at h
      rcases List.mem_cons.mp h with h | h
      · exact h ▸ List.mem_cons_self
      · exact List.mem_cons_of_mem _ (ih o h)

/-- The per-round statement implies the per-task one: a KILL since the latest RECONCILE is a KILL. -/
theorem orphansKilled_of_eachRound (log : List Out) (h : orphansKilledEachRound log = true) :
    orphansKilled log = true := by
  induction log with
  | nil => rfl
  | cons a as ih =>
    simp only [orphansKilledEachRound, Bool.and_eq_true] at h
    simp only [orphansKilled, Bool.and_eq_true]
    refine ⟨?_, ih h.2⟩
    cases a with
    | snap l os =>
      have h1 := h.1
      simp only [List.all_eq_true, List.any_eq_true] at h1 ⊢
      intro t ht
      obtain ⟨o, ho, hk⟩ := h1 t ht
      exact ⟨o, sinceReconcile_sub l as o ho, hk⟩
    | _ => rfl

theorem eachRound_killsFor (l w ts) (log : List Out) (h : orphansKilledEachRound log = true) :
    orphansKilledEachRound (killsFor l w ts ++ log) = true := by
  induction ts with
  | nil => simpa [killsFor] using h
  | cons a as ih => simpa [killsFor, orphansKilledEachRound] using ih

/-- a KILL of life `l` for task `t`, caused by a reconciliation update, is in the log — and it is NEWER than
    the latest RECONCILE call of life `l` -/
def Killed (log : List Out) (l t : Nat) : Prop := ∃ o, Out.kill l t (.update .recon) o ∈ sinceReconcile l log

theorem Killed.any {log : List Out} {l t : Nat} (h : Killed log l t) :
    (sinceReconcile l log).any (isReconKill l t) = true := by
  obtain ⟨o, ho⟩ := h
  exact List.any_eq_true.mpr ⟨_, ho, by simp [isReconKill]⟩

theorem Killed.mono {log log' : List Out} {l t : Nat} (h : Killed log l t)
    (hsub : ∀ o ∈ sinceReconcile l log, o ∈ sinceReconcile l log') : Killed log' l t := by
  obtain ⟨o, ho⟩ := h
  exact ⟨o, hsub _ ho⟩

theorem Killed.mem {log : List Out} {l t : Nat} (h : Killed log l t) : ∃ o, Out.kill l t (.update .recon) o ∈ log := by
  obtain ⟨o, ho⟩ := h
  exact ⟨o, sinceReconcile_sub l log _ ho⟩

/-- the answer to a reconciliation, still on its way to taskman -/
def Pending (c : Cfg) (s : St) (t : Nat) : Prop :=
  ∃ st, c.killable st = true ∧ ((t, st, Reason.recon) ∈ s.queue ∨ (t, st, Reason.recon) ∈ s.inbox)

structure InvQ (c : Cfg) (s : St) : Prop where
  orphan : s.alive = true → s.stream.isSome = true → ∀ t ∈ s.tasks, t.life < s.life → c.killable t.state = true →
    s.hello.isSome = true ∨ Pending c s t.id ∨ Killed s.log s.life t.id
  spec : orphansKilledEachRound s.log = true

theorem invQ_init (c : Cfg) (kv0 : Option Nat) : InvQ c (init kv0) := by
  cases kv0 <;> constructor <;> simp [init, orphansKilledEachRound]

theorem mem_answerOf (W : World) (hW : ∀ n t, W.answers n t = true) (n f : Nat) (tasks : List MTask)
    (t : MTask) (ht : t ∈ tasks) (hnt : t.state.terminal = false) (hf : t.fid = f) :
    (t.id, t.state, Reason.recon) ∈ answerOf W n f tasks := by
  unfold answerOf
  apply List.mem_map.mpr
  refine ⟨t, ?_, rfl⟩
  apply List.mem_filter.mpr
  simp [ht, hnt, hf, hW]

theorem invQ_orphan_read (c : Cfg) (W : World) (hc : Sound c) (hW : ∀ n t, W.answers n t = true)
    (s : St) (hA : InvA s) (hB : InvB c s) (h : InvQ c s) :
    let s' := step c W s .read
    s'.alive = true → s'.stream.isSome = true → ∀ t ∈ s'.tasks, t.life < s'.life → c.killable t.state = true →
    s'.hello.isSome = true ∨ Pending c s' t.id ∨ Killed s'.log s'.life t.id := by
  obtain ⟨hs1, hs2, hs3, hs4, hs5, hs6, hs7⟩ := hc
  obtain ⟨a1, a2, a3, a4, a5, a6⟩ := hA
  obtain ⟨b1, b3, bt, b4, b5, b6, b7, b8⟩ := hB
  obtain ⟨q1, q2⟩ := h
  intro s'
  by_cases hal : s.alive = true
  case neg => simp [s', step, hal]
  cases hh : s.hello with
  | some f =>
    by_cases herr : (s.fidMem.isSome && s.fidMem != some f && c.failover) = true
    · simp [s', step, hal, hh, herr, St.exit]
    · intro ha' hs' t ht hlt hk
      have htasks : s'.tasks = s.tasks := by simp [s', step, hal, hh, herr, hs4]; split <;> rfl
      have hlife : s'.life = s.life := by simp [s', step, hal, hh, herr, hs4]; split <;> rfl
      have hq : s'.queue = s.queue ++ answerOf W s.recons f s.tasks := by simp [s', step, hal, hh, herr, hs4]
      rw [htasks] at ht
      have hfid : t.fid = f := by
        have := b4 t ht
        have := a3 f hh
        have := b5 hal
        have := a4 t.fid (b4 t ht)
        grind
      right; left
      refine ⟨t.state, hk, Or.inl ?_⟩
      rw [hq]
      exact List.mem_append.mpr (Or.inr (mem_answerOf W hW _ _ _ t ht (hs6 _ hk) hfid))
  | none =>
    cases hq : s.queue with
    | nil => simpa [s', step, hal, hh, hq, Bool.not_eq_true] using (by simpa [hh] using q1 hal)
    | cons u rest =>
      intro ha' hs' t ht hlt hk
      have e : s' = { s with queue := rest, inbox := s.inbox ++ [u] } := by simp [s', step, hal, hh, hq]
      rw [e] at ht hlt hs' ⊢
      simp only [] at ht hlt hs' ⊢
      rcases q1 hal hs' t ht hlt hk with h1 | ⟨st, hst, h2 | h2⟩ | h3
      · simp [hh] at h1
      · right; left
        rw [hq] at h2
        rcases List.mem_cons.mp h2 with h2 | h2
        · exact ⟨st, hst, Or.inr (by simp [← h2])⟩
        · exact ⟨st, hst, Or.inl h2⟩
      · right; left; exact ⟨st, hst, Or.inr (by simp [h2])⟩
      · right; right; exact h3

theorem not_inRoster_of_old (c : Cfg) (s : St) (hB : InvB c s) (t : MTask) (ht : t ∈ s.tasks) (hlt : t.life < s.life) :
    inRoster s.roster t.id = false := by
  cases h : inRoster s.roster t.id with
  | false => rfl
  | true =>
    simp only [inRoster, List.any_eq_true] at h
    obtain ⟨r, hr, hid⟩ := h
    have := hB.roster r hr t ht (by simp at hid; exact hid.symm)
    omega

theorem invQ_orphan_handle (c : Cfg) (W : World)
    (s : St) (hB : InvB c s) (h : InvQ c s) :
    let s' := step c W s .handle
    s'.alive = true → s'.stream.isSome = true → ∀ t ∈ s'.tasks, t.life < s'.life → c.killable t.state = true →
    s'.hello.isSome = true ∨ Pending c s' t.id ∨ Killed s'.log s'.life t.id := by
  obtain ⟨q1, q2⟩ := h
  intro s'
  by_cases hal : s.alive = true
  case neg => simp [s', step, hal]
  cases hi : s.inbox with
  | nil => simpa [s', step, hal, hi] using (by simpa [hi] using q1 hal)
  | cons u rest =>
    obtain ⟨t', st', r'⟩ := u
    intro ha' hs' t ht hlt hk
    have htasks : s'.tasks = s.tasks := by simp [s', step, hal, hi]; split <;> rfl
    have hlife : s'.life = s.life := by simp [s', step, hal, hi]; split <;> rfl
    have hstream : s'.stream = s.stream := by simp [s', step, hal, hi]; split <;> rfl
    have hhello : s'.hello = s.hello := by simp [s', step, hal, hi]; split <;> rfl
    have hqueue : s'.queue = s.queue := by simp [s', step, hal, hi]; split <;> rfl
    have hinbox : s'.inbox = rest := by simp [s', step, hal, hi]; split <;> rfl
    have hlog : ∀ o ∈ sinceReconcile s.life s.log, o ∈ sinceReconcile s.life s'.log := by
      intro o ho; simp [s', step, hal, hi]; split <;> simp [ho]; split <;> simp [ho]
    rw [htasks] at ht; rw [hlife] at hlt; rw [hstream] at hs'
    rw [hhello, hlife]
    rcases q1 hal hs' t ht hlt hk with h1 | ⟨st, hst, h2 | h2⟩ | h3
    · exact Or.inl h1
    · exact Or.inr (Or.inl ⟨st, hst, Or.inl (hqueue ▸ h2)⟩)
    · rw [hi] at h2
      rcases List.mem_cons.mp h2 with h2 | h2
      · -- this very message is handled now: KILL
        right; right
        injection h2 with e1 e2; injection e2 with e2 e3
        subst e1 e2 e3
        have hnr := not_inRoster_of_old c s hB t ht hlt
        refine ⟨lockedIn s.roster t.id || heldBy s.held t.id, ?_⟩
        simp [s', step, hal, hi, hst, hnr, hs']
      · exact Or.inr (Or.inl ⟨st, hst, Or.inr (hinbox ▸ h2)⟩)
    · exact Or.inr (Or.inr (h3.mono hlog))

/-- a step that leaves table, life and connection alone and only adds to queues and log -/
theorem orphan_frame (c : Cfg) (s s' : St) (h : InvQ c s)
    (ht : s'.tasks = s.tasks) (hl : s'.life = s.life) (ha : s'.alive = s.alive) (hst : s'.stream = s.stream)
    (hh : s'.hello = s.hello)
    (hq : ∀ u ∈ s.queue, u ∈ s'.queue) (hi : ∀ u ∈ s.inbox, u ∈ s'.inbox)
    (hlog : ∀ o ∈ sinceReconcile s.life s.log, o ∈ sinceReconcile s.life s'.log) :
    s'.alive = true → s'.stream.isSome = true → ∀ t ∈ s'.tasks, t.life < s'.life → c.killable t.state = true →
    s'.hello.isSome = true ∨ Pending c s' t.id ∨ Killed s'.log s'.life t.id := by
  intro ha' hs' t htm hlt hk
  rw [ht] at htm; rw [hl] at hlt; rw [ha] at ha'; rw [hst] at hs'; rw [hh, hl]
  rcases h.orphan ha' hs' t htm hlt hk with h1 | ⟨st, hst, h2 | h2⟩ | h3
  · exact Or.inl h1
  · exact Or.inr (Or.inl ⟨st, hst, Or.inl (hq _ h2)⟩)
  · exact Or.inr (Or.inl ⟨st, hst, Or.inr (hi _ h2)⟩)
  · exact Or.inr (Or.inr (h3.mono hlog))

theorem invQ_orphan_step (c : Cfg) (W : World) (hc : Sound c) (hW : ∀ n t, W.answers n t = true)
    (s : St) (x : Step) (hx : stepOk c x = true)
    (hA : InvA s) (hB : InvB c s) (h : InvQ c s) :
    let s' := step c W s x
    s'.alive = true → s'.stream.isSome = true → ∀ t ∈ s'.tasks, t.life < s'.life → c.killable t.state = true →
    s'.hello.isSome = true ∨ Pending c s' t.id ∨ Killed s'.log s'.life t.id := by
  cases x with
  | read => exact invQ_orphan_read c W hc hW s hA hB h
  | handle => exact invQ_orphan_handle c W s hB h
  | coreStart => have := hB.dead; have := h.orphan; grind [step, St.exit]
  | coreKill => have := h.orphan; grind [step, St.exit]
  | coreTerm => have := h.orphan; grind [step, St.exit]
  | subscribe => have := h.orphan; grind [step, St.exit]
  | drop => have := h.orphan; grind [step, St.exit]
  | reconUpdate t st =>
    intro s'
    by_cases hs : s.stream.isSome = true
    · apply orphan_frame c s s' h <;> simp [s', step, hs] <;> grind
    · simpa [s', step, hs] using h.orphan
  | snapshot =>
    intro s'
    by_cases hs : (s.alive && s.connected && s.queue.isEmpty && s.inbox.isEmpty) = true
    · apply orphan_frame c s s' h <;> simp [s', step, hs] <;> grind
    · simpa [s', step, hs] using h.orphan
  | release e =>
    intro s'
    by_cases hal : s.alive = true
    · by_cases hs : s.stream.isSome = true
      · apply orphan_frame c s s' h <;> simp [s', step, hs, hal, sinceReconcile_killsFor] <;> grind
      · apply orphan_frame c s s' h <;> simp [s', step, hs, hal]
    · simpa [s', step, hal] using h.orphan
  | releaseBegin e =>
    intro s'
    by_cases hal : s.alive = true
    · apply orphan_frame c s s' h <;> simp [s', step, hal]
    · simpa [s', step, hal] using h.orphan
  | releaseEnd e =>
    intro s'
    by_cases hal : s.alive = true
    · cases hf : s.tearing.find? (fun d => d.env == e) with
      | none => simpa [s', step, hal, hf] using h.orphan
      | some d =>
        by_cases hs : s.stream.isSome = true
        · apply orphan_frame c s s' h <;> simp [s', step, hs, hal, hf, sinceReconcile_killsFor] <;> grind
        · apply orphan_frame c s s' h <;> simp [s', step, hs, hal, hf]
    · simpa [s', step, hal] using h.orphan
  | launch e t' =>
    intro s'
    cases hst : s.stream with
    | none => simpa [s', step, hst] using (by simpa [hst] using h.orphan)
    | some f =>
      by_cases hen : (!s.alive || s.hello.isSome || s.seen.contains t') = true
      · have heq : s' = s := by simp only [s', step, hst, hen]; rfl
        rw [heq]; exact h.orphan
      · intro ha' hs' t ht hlt hk
        have heq : s' = { s with roster := s.roster ++ [{ id := t', env := e, locked := true, active := false }], held := s.held ++ [(t', e)], tasks := s.tasks ++ [{ id := t', fid := f, life := s.life, env := e, state := .staging }], seen := t' :: s.seen } := by simp only [s', step, hst, hen]; rfl
        rw [heq] at ht hlt ha' hs' ⊢
        simp only [] at ht hlt ha' hs' ⊢
        rcases List.mem_append.mp ht with ht | ht
        · exact h.orphan ha' hs' t ht hlt hk
        · simp at ht; subst ht; simp at hlt
  | status t' st =>
    intro s'
    cases hf : s.tasks.find? (fun x => x.id == t') with
    | none => simpa [s', step, hf] using h.orphan
    | some x =>
      by_cases hterm : x.state.terminal = true
      · simpa [s', step, hf, hterm] using h.orphan
      · intro ha' hs' t ht hlt hk
        have heq : s' = { s with tasks := s.tasks.map (fun y => if y.id == t' && !y.state.terminal then { y with state := st } else y), queue := (if s.stream == some x.fid then s.queue ++ [(t', st, .none)] else s.queue) } := by
          simp only [s', step, hf, hterm]; rfl
        rw [heq] at ht hlt ha' hs' ⊢
        simp only [] at ht hlt ha' hs' ⊢
        obtain ⟨t0, ht0, rfl⟩ := List.mem_map.mp ht
        have hold : t0.life < s.life ∧ c.killable t0.state = true := by
          by_cases hid : (t0.id == t' && !t0.state.terminal) = true
          · simp only [hid, if_true] at hlt hk
            refine ⟨hlt, ?_⟩
            rcases hB.states t0 ht0 with h1 | h1
            · simp [h1] at hid
            · exact h1
          · simp only [hid] at hlt hk; exact ⟨hlt, hk⟩
        have hid' : (if (t0.id == t' && !t0.state.terminal) = true then { t0 with state := st } else t0).id = t0.id := by
          split <;> rfl
        rw [hid']
        rcases h.orphan ha' hs' t0 ht0 hold.1 hold.2 with h1 | ⟨st1, hst1, h2 | h2⟩ | h3
        · exact Or.inl h1
        · refine Or.inr (Or.inl ⟨st1, hst1, Or.inl ?_⟩); split <;> simp [h2]
        · exact Or.inr (Or.inl ⟨st1, hst1, Or.inr h2⟩)
        · exact Or.inr (Or.inr h3)

theorem invQ_spec_step (c : Cfg) (W : World) (s : St) (x : Step) (h : InvQ c s) :
    orphansKilledEachRound (step c W s x).log = true := by
  have q2 := h.spec
  cases x with
  | snapshot =>
    by_cases hs : (s.alive && s.connected && s.queue.isEmpty && s.inbox.isEmpty) = true
    · simp only [step, hs, if_true, orphansKilledEachRound, q2, Bool.and_true]
      simp only [Bool.and_eq_true, St.connected, List.isEmpty_iff, Option.isNone_iff_eq_none] at hs
      obtain ⟨⟨⟨hal, hst, hh⟩, hq⟩, hi⟩ := hs
      apply List.all_eq_true.mpr
      intro t ht
      simp only [orphans, List.mem_map, List.mem_filter, Bool.and_eq_true, decide_eq_true_eq] at ht
      obtain ⟨mt, ⟨hmt, hlt, hk⟩, rfl⟩ := ht
      rcases h.orphan hal hst mt hmt hlt hk with h1 | ⟨st, _, h2 | h2⟩ | h3
      · simp [hh] at h1
      · simp [hq] at h2
      · simp [hi] at h2
      · exact h3.any
    · simpa [step, hs] using q2
  | coreStart => grind [step, St.exit]
  | coreKill => grind [step, St.exit]
  | coreTerm => grind [step, St.exit, eachRound_killsFor]
  | subscribe => grind [step, St.exit, orphansKilledEachRound]
  | drop => grind [step, St.exit]
  | read => grind [step, St.exit, orphansKilledEachRound]
  | handle => grind [step, St.exit, orphansKilledEachRound]
  | launch e t => grind [step, St.exit]
  | status t st => grind [step, St.exit]
  | reconUpdate t st => grind [step, St.exit]
  | release e => grind [step, St.exit, eachRound_killsFor]
  | releaseBegin e => grind [step, St.exit]
  | releaseEnd e =>
    by_cases hal : s.alive = true
    · cases hf : s.tearing.find? (fun d => d.env == e) with
      | none => simpa [step, hal, hf] using q2
      | some d =>
        by_cases hs : s.stream.isSome = true
        · simpa [step, hal, hf, hs] using eachRound_killsFor _ _ _ _ q2
        · simpa [step, hal, hf, hs] using q2
    · simpa [step, hal] using q2

theorem invQ_step (c : Cfg) (W : World) (hc : Sound c) (hW : ∀ n t, W.answers n t = true)
    (s : St) (x : Step) (hx : stepOk c x = true)
    (hA : InvA s) (hB : InvB c s) (h : InvQ c s) : InvQ c (step c W s x) :=
  ⟨invQ_orphan_step c W hc hW s x hx hA hB h, invQ_spec_step c W s x h⟩

/-- everything that holds of every reachable state -/
structure Inv (c : Cfg) (s : St) : Prop where
  a : InvA s
  b : InvB c s
  q : InvQ c s

theorem inv_init (c : Cfg) (kv0 : Option Nat) : Inv c (init kv0) := ⟨invA_init kv0, invB_init c kv0, invQ_init c kv0⟩

theorem inv_step (c : Cfg) (W : World) (hc : Sound c) (hW : ∀ n t, W.answers n t = true)
    (s : St) (x : Step) (hx : stepOk c x = true) (h : Inv c s) : Inv c (step c W s x) :=
  ⟨invA_step c W hc.seed hc.failover s x h.a, invB_step c W hc s x hx h.a.hello h.b, invQ_step c W hc hW s x hx h.a h.b h.q⟩

theorem inv_run (c : Cfg) (W : World) (hc : Sound c) (hW : ∀ n t, W.answers n t = true)
    (h : List Step) (hh : h.all (stepOk c) = true) (s : St) (hs : Inv c s) : Inv c (run c W h s) := by
  induction h generalizing s with
  | nil => exact hs
  | cons x xs ih =>
    simp only [List.all_cons, Bool.and_eq_true] at hh
    exact ih hh.2 _ (inv_step c W hc hW s x hh.1 hs)

theorem invA_run (c : Cfg) (W : World) (hseed : c.seedFid = true) (hfo : c.failover = true)
    (h : List Step) (s : St) (hs : InvA s) : InvA (run c W h s) := by
  induction h generalizing s with
  | nil => exact hs
  | cons x xs ih => exact ih _ (invA_step c W hseed hfo s x hs)

theorem lockedIn_setActive (r : List RTask) (t' : Nat) (st : MState) (t : Nat) :
    lockedIn (setActive r t' st) t = lockedIn r t := by
  induction r with
  | nil => rfl
  | cons a as ih =>
    simp only [setActive, lockedIn, List.map_cons, List.any_cons] at ih ⊢
    rw [ih]
    congr 1
    split <;> (try split) <;> (try split) <;> rfl

theorem anyLocked_setActive (r : List RTask) (t' : Nat) (st : MState) :
    (setActive r t' st).any (·.locked) = r.any (·.locked) := by
  induction r with
  | nil => rfl
  | cons a as ih =>
    simp only [setActive, List.map_cons, List.any_cons] at ih ⊢
    rw [ih]
    congr 1
    split <;> (try split) <;> (try split) <;> rfl

theorem lockedIn_false_of_noLocked (r : List RTask) (h : r.any (·.locked) = false) (t : Nat) : lockedIn r t = false := by
  induction r with
  | nil => rfl
  | cons a as ih =>
    simp only [List.any_cons, Bool.or_eq_false_iff] at h
    simp [lockedIn, h.1] 
    have := ih h.2
    simpa [lockedIn] using this

theorem ownedSpared_killsFor_term (l ts) (log : List Out) (h : ownedSpared log = true) :
    ownedSpared (killsFor l .term ts ++ log) = true := by
  induction ts with
  | nil => simpa [killsFor] using h
  | cons a as ih => simpa [killsFor, ownedSpared] using ih

theorem ownedSpared_killsFor_release (l ts) (log : List Out) (h : ownedSpared log = true) :
    ownedSpared (killsFor l .release ts ++ log) = true := by
  induction ts with
  | nil => simpa [killsFor] using h
  | cons a as ih => simpa [killsFor, ownedSpared] using ih

/-! ### the roster and what the environments hold -/

theorem lockedIn_putBack (r : List RTask) (e : Nat) (l : List Nat) (t : Nat) :
    lockedIn (r ++ l.map (putBack e)) t = lockedIn r t := by
  simp [lockedIn, List.any_append, putBack]

theorem anyLocked_putBack (r : List RTask) (e : Nat) (l : List Nat) :
    (r ++ l.map (putBack e)).any (·.locked) = r.any (·.locked) := by
  simp [List.any_append, putBack]

/-- Every task a live environment holds has a locked roster entry of that environment, and every locked roster
    entry is held: the roster is COMPLETE (nothing owned is missing: what the roster test of the KILL branch
    relies on) and SOUND. -/
structure InvR (s : St) : Prop where
  complete : ∀ p ∈ s.held, ∃ r ∈ s.roster, r.id = p.1 ∧ r.env = p.2 ∧ r.locked = true
  sound : ∀ r ∈ s.roster, r.locked = true → (r.id, r.env) ∈ s.held

theorem invR_init (kv0 : Option Nat) : InvR (init kv0) := by
  cases kv0 <;> constructor <;> simp [init]

theorem setActive_fields (rs : List RTask) (t : Nat) (st : MState) (r : RTask) (h : r ∈ setActive rs t st) :
    ∃ r0 ∈ rs, r.id = r0.id ∧ r.env = r0.env ∧ r.locked = r0.locked := by
  simp only [setActive, List.mem_map] at h
  obtain ⟨r0, h0, rfl⟩ := h
  refine ⟨r0, h0, ?_⟩
  split <;> (try split) <;> (try split) <;> simp

theorem setActive_fields' (rs : List RTask) (t : Nat) (st : MState) (r0 : RTask) (h : r0 ∈ rs) :
    ∃ r ∈ setActive rs t st, r.id = r0.id ∧ r.env = r0.env ∧ r.locked = r0.locked := by
  refine ⟨_, List.mem_map.mpr ⟨r0, h, rfl⟩, ?_⟩
  split <;> (try split) <;> (try split) <;> simp

theorem invR_step (c : Cfg) (W : World) (hrw : c.snapshotRewrite = false) (s : St) (x : Step) (h : InvR s) :
    InvR (step c W s x) := by
  obtain ⟨r1, r2⟩ := h
  cases x with
  | coreStart => constructor <;> grind [step, St.exit]
  | coreKill => constructor <;> grind [step, St.exit]
  | coreTerm => constructor <;> grind [step, St.exit]
  | subscribe => constructor <;> grind [step, St.exit]
  | drop => constructor <;> grind [step, St.exit]
  | read => constructor <;> grind [step, St.exit]
  | status t st => constructor <;> grind [step, St.exit]
  | reconUpdate t st => constructor <;> grind [step, St.exit]
  | snapshot => constructor <;> grind [step, St.exit]
  | handle =>
    by_cases hal : s.alive = true
    case neg => simpa [step, hal] using InvR.mk r1 r2
    cases hi : s.inbox with
    | nil => simpa [step, hal, hi] using InvR.mk r1 r2
    | cons u rest =>
      obtain ⟨t', st', r'⟩ := u
      by_cases hk : ((!c.reasonGuard || r' == .recon) && c.killable st' && (!c.rosterGuard || !inRoster s.roster t')) = true
      · exact ⟨by simpa [step, hal, hi, hk] using r1, by simpa [step, hal, hi, hk] using r2⟩
      · constructor
        · intro p hp
          have hp' : p ∈ s.held := by simpa [step, hal, hi, hk] using hp
          obtain ⟨r, hr, h1, h2, h3⟩ := r1 p hp'
          obtain ⟨r', hr', g1, g2, g3⟩ := setActive_fields' s.roster t' st' r hr
          refine ⟨r', by simpa [step, hal, hi, hk] using hr', ?_⟩
          rw [g1, g2, g3]; exact ⟨h1, h2, h3⟩
        · intro r hr hl
          have hr' : r ∈ setActive s.roster t' st' := by simpa [step, hal, hi, hk] using hr
          obtain ⟨r0, hr0, g1, g2, g3⟩ := setActive_fields s.roster t' st' r hr'
          have := r2 r0 hr0 (g3 ▸ hl)
          simpa [step, hal, hi, hk, g1, g2] using this
  | launch e t' =>
    cases hst : s.stream with
    | none => simpa [step, hst] using InvR.mk r1 r2
    | some f =>
      by_cases hen : (!s.alive || s.hello.isSome || s.seen.contains t') = true
      · have heq : step c W s (.launch e t') = s := by simp only [step, hst, hen]; rfl
        rw [heq]; exact ⟨r1, r2⟩
      · have heq : step c W s (.launch e t') = { s with roster := s.roster ++ [{ id := t', env := e, locked := true, active := false }], held := s.held ++ [(t', e)], tasks := s.tasks ++ [{ id := t', fid := f, life := s.life, env := e, state := .staging }], seen := t' :: s.seen } := by simp only [step, hst, hen]; rfl
        rw [heq]
        constructor
        · intro p hp
          simp only [List.mem_append, List.mem_singleton] at hp
          rcases hp with hp | rfl
          · obtain ⟨r, hr, h⟩ := r1 p hp
            exact ⟨r, List.mem_append.mpr (Or.inl hr), h⟩
          · exact ⟨_, List.mem_append.mpr (Or.inr (List.mem_singleton.mpr rfl)), rfl, rfl, rfl⟩
        · intro r hr hl
          simp only [List.mem_append, List.mem_singleton] at hr ⊢
          rcases hr with hr | rfl
          · exact Or.inl (r2 r hr hl)
          · exact Or.inr rfl
  | release e =>
    by_cases hal : s.alive = true
    case neg => simpa [step, hal] using InvR.mk r1 r2
    have hc : ∀ p ∈ s.held.filter (fun p => p.2 != e), ∃ r ∈ s.roster.filter (fun x => x.env != e),
        r.id = p.1 ∧ r.env = p.2 ∧ r.locked = true := by
      intro p hp
      simp only [List.mem_filter] at hp
      obtain ⟨r, hr, h1, h2, h3⟩ := r1 p hp.1
      exact ⟨r, List.mem_filter.mpr ⟨hr, by rw [h2]; exact hp.2⟩, h1, h2, h3⟩
    have hs' : ∀ r ∈ s.roster.filter (fun x => x.env != e), r.locked = true →
        (r.id, r.env) ∈ s.held.filter (fun p => p.2 != e) := by
      intro r hr hl
      simp only [List.mem_filter] at hr
      exact List.mem_filter.mpr ⟨r2 r hr.1 hl, hr.2⟩
    by_cases hs : s.stream.isSome = true
    · exact ⟨by simpa [step, hal, hs] using hc, by simpa [step, hal, hs] using hs'⟩
    · constructor
      · intro p hp
        have hp' : p ∈ s.held.filter (fun p => p.2 != e) := by simpa [step, hal, hs] using hp
        obtain ⟨r, hr, h⟩ := hc p hp'
        exact ⟨r, by simp only [step, hal, hs]; exact List.mem_append.mpr (Or.inl hr), h⟩
      · intro r hr hl
        simp only [step, hal, hs] at hr ⊢
        rcases List.mem_append.mp hr with hr | hr
        · exact hs' r hr hl
        · simp only [List.mem_map] at hr
          obtain ⟨r0, _, rfl⟩ := hr
          simp at hl
  | releaseBegin e =>
    by_cases hal : s.alive = true
    case neg => simpa [step, hal] using InvR.mk r1 r2
    constructor
    · intro p hp
      have hp' : p ∈ s.held.filter (fun p => p.2 != e) := by simpa [step, hal] using hp
      simp only [List.mem_filter] at hp'
      obtain ⟨r, hr, h1, h2, h3⟩ := r1 p hp'.1
      refine ⟨r, ?_, h1, h2, h3⟩
      simp only [step, hal]
      exact List.mem_filter.mpr ⟨hr, by rw [h2]; exact hp'.2⟩
    · intro r hr hl
      simp only [step, hal] at hr ⊢
      simp only [Bool.not_true, Bool.false_eq_true, if_false, List.mem_filter] at hr ⊢
      exact ⟨r2 r hr.1 hl, hr.2⟩
  | releaseEnd e =>
    by_cases hal : s.alive = true
    case neg => simpa [step, hal] using InvR.mk r1 r2
    cases hf : s.tearing.find? (fun d => d.env == e) with
    | none => simpa [step, hal, hf] using InvR.mk r1 r2
    | some d =>
      by_cases hs : s.stream.isSome = true
      · exact ⟨by simpa [step, hal, hf, hs, hrw] using r1, by simpa [step, hal, hf, hs, hrw] using r2⟩
      · constructor
        · intro p hp
          have hp' : p ∈ s.held := by simpa [step, hal, hf, hs] using hp
          obtain ⟨r, hr, h⟩ := r1 p hp'
          exact ⟨r, by simp only [step, hal, hf, hs, hrw]; exact List.mem_append.mpr (Or.inl hr), h⟩
        · intro r hr hl
          simp [step, hal, hf, hs, hrw] at hr ⊢
          rcases hr with hr | ⟨a, _, rfl⟩
          · exact r2 r hr hl
          · simp [putBack] at hl

theorem invR_run (c : Cfg) (W : World) (hrw : c.snapshotRewrite = false) (h : List Step) (s : St) (hs : InvR s) :
    InvR (run c W h s) := by
  induction h generalizing s with
  | nil => exact hs
  | cons x xs ih => exact ih _ (invR_step c W hrw s x hs)

/-- In a state satisfying InvR, "held by a live environment" and "locked in the roster" are the same thing. -/
theorem heldBy_eq_lockedIn (s : St) (h : InvR s) (t : Nat) : heldBy s.held t = lockedIn s.roster t := by
  apply Bool.eq_iff_iff.mpr
  simp only [heldBy, lockedIn, List.any_eq_true, beq_iff_eq, Bool.and_eq_true]
  constructor
  · rintro ⟨p, hp, rfl⟩
    obtain ⟨r, hr, h1, _, h3⟩ := h.complete p hp
    exact ⟨r, hr, h1, h3⟩
  · rintro ⟨r, hr, rfl, hl⟩
    exact ⟨_, h.sound r hr hl, rfl⟩

structure InvP (s : St) : Prop where
  flight : ∀ t st, ((t, st, Reason.recon) ∈ s.queue ∨ (t, st, Reason.recon) ∈ s.inbox) → lockedIn s.roster t = false ∧ t ∈ s.seen
  hello : s.hello.isSome = true → s.roster.any (·.locked) = false
  spec : ownedSpared s.log = true

theorem invP_init (kv0 : Option Nat) : InvP (init kv0) := by
  cases kv0 <;> constructor <;> simp [init, ownedSpared]

theorem mem_answerOf_inv (W : World) (n f : Nat) (tasks : List MTask) (t : Nat) (st : MState) (r : Reason)
    (h : (t, st, r) ∈ answerOf W n f tasks) : ∃ mt ∈ tasks, mt.id = t := by
  simp only [answerOf, List.mem_map, List.mem_filter] at h
  obtain ⟨mt, ⟨hm, _⟩, he⟩ := h
  exact ⟨mt, hm, by injection he⟩

theorem lockedIn_nil (t : Nat) : lockedIn [] t = false := rfl

theorem lockedIn_append_fresh (r : List RTask) (e t' t : Nat) (h : t ≠ t') :
    lockedIn (r ++ [{ id := t', env := e, locked := true, active := false }]) t = lockedIn r t := by
  simp [lockedIn, List.any_append]; intro h'; exact absurd h'.symm h

theorem lockedIn_filter (r : List RTask) (p : RTask → Bool) (t : Nat) (h : lockedIn r t = false) :
    lockedIn (r.filter p) t = false := by
  induction r with
  | nil => rfl
  | cons a as ih =>
    simp only [lockedIn, List.any_cons, Bool.or_eq_false_iff] at h
    simp only [List.filter_cons]
    split
    · simp only [lockedIn, List.any_cons, h.1, Bool.false_or]; exact ih h.2
    · exact ih h.2

theorem lockedIn_unlocked (r : List RTask) (t : Nat) :
    lockedIn (r.map (fun x => { x with locked := false })) t = false := by
  induction r with
  | nil => rfl
  | cons a as ih => simpa [lockedIn] using ih

theorem invP_flight_step (c : Cfg) (W : World) (hrw : c.snapshotRewrite = false) (s : St) (x : Step) (hx : reconnOk s x = true)
    (hb : ∀ t ∈ s.tasks, t.id ∈ s.seen) (h : InvP s) :
    ∀ t st, ((t, st, Reason.recon) ∈ (step c W s x).queue ∨ (t, st, Reason.recon) ∈ (step c W s x).inbox) →
      lockedIn (step c W s x).roster t = false ∧ t ∈ (step c W s x).seen := by
  obtain ⟨p1, p2, p3⟩ := h
  cases x with
  | read =>
    by_cases hal : s.alive = true
    case neg => simpa [step, hal] using p1
    cases hh : s.hello with
    | some f =>
      by_cases herr : (s.fidMem.isSome && s.fidMem != some f && c.failover) = true
      · simp [step, hal, hh, herr, St.exit]
      · intro t st hm
        have hro : (step c W s .read).roster = s.roster := by simp [step, hal, hh, herr]; split <;> (try split) <;> rfl
        have hse : (step c W s .read).seen = s.seen := by simp [step, hal, hh, herr]; split <;> (try split) <;> rfl
        have hin : (step c W s .read).inbox = s.inbox := by simp [step, hal, hh, herr]; split <;> (try split) <;> rfl
        have hq : ∀ u ∈ (step c W s .read).queue, u ∈ s.queue ∨ u ∈ answerOf W s.recons f s.tasks := by
          intro u hu; simp [step, hal, hh, herr] at hu; split at hu
          · simp at hu; exact hu
          · split at hu <;> simp at hu <;> exact Or.inl hu
        rw [hro, hse]; rw [hin] at hm
        have hnl := p2 (by simp [hh])
        refine ⟨lockedIn_false_of_noLocked _ hnl t, ?_⟩
        rcases hm with hm | hm
        · rcases hq _ hm with h1 | h1
          · exact (p1 t st (Or.inl h1)).2
          · obtain ⟨mt, hmt, rfl⟩ := mem_answerOf_inv _ _ _ _ _ _ _ h1; exact hb mt hmt
        · exact (p1 t st (Or.inr hm)).2
    | none =>
      cases hq : s.queue with
      | nil => simpa [step, hal, hh, hq] using (by simpa [hq] using p1)
      | cons u rest =>
        intro t st hm
        simp [step, hal, hh, hq] at hm ⊢
        apply p1 t st
        rw [hq]
        rcases hm with hm | hm | hm
        · exact Or.inl (List.mem_cons_of_mem _ hm)
        · exact Or.inr hm
        · exact Or.inl (by simp [hm])
  | handle =>
    by_cases hal : s.alive = true
    case neg => simpa [step, hal] using p1
    cases hi : s.inbox with
    | nil => simpa [step, hal, hi] using (by simpa [hi] using p1)
    | cons u rest =>
      obtain ⟨t', st', r'⟩ := u
      intro t st hm
      have hse : (step c W s .handle).seen = s.seen := by simp [step, hal, hi]; split <;> rfl
      have hq : (step c W s .handle).queue = s.queue := by simp [step, hal, hi]; split <;> rfl
      have hin : (step c W s .handle).inbox = rest := by simp [step, hal, hi]; split <;> rfl
      have hro : lockedIn (step c W s .handle).roster t = lockedIn s.roster t := by
        simp [step, hal, hi]; split
        · rfl
        · exact lockedIn_setActive _ _ _ _
      rw [hse, hro]; rw [hq, hin] at hm
      apply p1 t st
      rcases hm with hm | hm
      · exact Or.inl hm
      · exact Or.inr (by rw [hi]; exact List.mem_cons_of_mem _ hm)
  | launch e t' =>
    cases hst : s.stream with
    | none => simpa [step, hst] using p1
    | some f =>
      by_cases hen : (!s.alive || s.hello.isSome || s.seen.contains t') = true
      · have heq : step c W s (.launch e t') = s := by simp only [step, hst, hen]; rfl
        rw [heq]; exact p1
      · intro t st hm
        have heq : step c W s (.launch e t') = { s with roster := s.roster ++ [{ id := t', env := e, locked := true, active := false }], held := s.held ++ [(t', e)], tasks := s.tasks ++ [{ id := t', fid := f, life := s.life, env := e, state := .staging }], seen := t' :: s.seen } := by simp only [step, hst, hen]; rfl
        rw [heq] at hm ⊢
        simp only [] at hm ⊢
        have := p1 t st hm
        have hne : t ≠ t' := by
          intro he; subst he
          simp at hen; exact hen.2 this.2
        rw [lockedIn_append_fresh _ _ _ _ hne]
        exact ⟨this.1, List.mem_cons_of_mem _ this.2⟩
  | release e =>
    by_cases hal : s.alive = true
    case neg => simpa [step, hal] using p1
    by_cases hs : s.stream.isSome = true
    · intro t st hm
      simp [step, hal, hs] at hm ⊢
      have := p1 t st hm
      exact ⟨lockedIn_filter _ _ _ this.1, this.2⟩
    · intro t st hm
      simp [step, hal, hs] at hm ⊢
      have := p1 t st hm
      refine ⟨?_, this.2⟩
      simp only [lockedIn, List.any_append, Bool.or_eq_false_iff]
      exact ⟨lockedIn_filter _ _ _ this.1, lockedIn_unlocked _ _⟩
  | releaseBegin e =>
    by_cases hal : s.alive = true
    case neg => simpa [step, hal] using p1
    intro t st hm
    simp [step, hal] at hm ⊢
    have := p1 t st hm
    exact ⟨lockedIn_filter _ _ _ this.1, this.2⟩
  | releaseEnd e =>
    by_cases hal : s.alive = true
    case neg => simpa [step, hal] using p1
    cases hf : s.tearing.find? (fun d => d.env == e) with
    | none => simpa [step, hal, hf] using p1
    | some d =>
      intro t st hm
      by_cases hs : s.stream.isSome = true
      · simp [step, hal, hf, hs, hrw] at hm ⊢
        exact p1 t st hm
      · simp only [step, hal, hf, hs, hrw] at hm ⊢
        simp only [Bool.not_true, Bool.false_eq_true, if_false] at hm ⊢
        rw [lockedIn_putBack]
        exact p1 t st hm
  | coreStart => grind [step, St.exit, reconnOk, lockedIn_nil]
  | coreKill => grind [step, St.exit, reconnOk, lockedIn_nil]
  | coreTerm => grind [step, St.exit, reconnOk, lockedIn_nil]
  | subscribe => grind [step, St.exit, reconnOk]
  | drop => grind [step, St.exit, reconnOk]
  | status t st => grind [step, St.exit, reconnOk]
  | reconUpdate t st => grind [step, St.exit, reconnOk]
  | snapshot => grind [step, St.exit, reconnOk]

theorem anyLocked_filter (r : List RTask) (p : RTask → Bool) (h : r.any (·.locked) = false) :
    (r.filter p).any (·.locked) = false := by
  induction r with
  | nil => rfl
  | cons a as ih =>
    simp only [List.any_cons, Bool.or_eq_false_iff] at h
    simp only [List.filter_cons]
    split
    · simp only [List.any_cons, h.1, Bool.false_or]; exact ih h.2
    · exact ih h.2

theorem invP_hello_step (c : Cfg) (W : World) (hrw : c.snapshotRewrite = false) (s : St) (x : Step) (hx : reconnOk s x = true)
    (ha : ∀ g, s.hello = some g → s.stream = some g) (h : InvP s) :
    (step c W s x).hello.isSome = true → (step c W s x).roster.any (·.locked) = false := by
  obtain ⟨p1, p2, p3⟩ := h
  cases x with
  | handle =>
    by_cases hal : s.alive = true
    case neg => simpa [step, hal] using p2
    cases hi : s.inbox with
    | nil => simpa [step, hal, hi] using p2
    | cons u rest =>
      obtain ⟨t', st', r'⟩ := u
      by_cases hk : ((!c.reasonGuard || r' == .recon) && c.killable st' && (!c.rosterGuard || !inRoster s.roster t')) = true
      · simpa [step, hal, hi, hk] using p2
      · simpa [step, hal, hi, hk, anyLocked_setActive] using p2
  | release e =>
    by_cases hal : s.alive = true
    case neg => simpa [step, hal] using p2
    by_cases hs : s.stream.isSome = true
    · simp only [step, hal, hs]; intro hh; exact anyLocked_filter _ _ (p2 (by simpa using hh))
    · intro hh
      simp [step, hal, hs] at hh
      cases hhe : s.hello with
      | none => simp [hhe] at hh
      | some g => have := ha g hhe; simp [this] at hs
  | releaseBegin e =>
    by_cases hal : s.alive = true
    case neg => simpa [step, hal] using p2
    simp only [step, hal]; intro hh; exact anyLocked_filter _ _ (p2 (by simpa using hh))
  | releaseEnd e =>
    by_cases hal : s.alive = true
    case neg => simpa [step, hal] using p2
    cases hf : s.tearing.find? (fun d => d.env == e) with
    | none => simpa [step, hal, hf] using p2
    | some d =>
      by_cases hs : s.stream.isSome = true
      · simpa [step, hal, hf, hs, hrw] using p2
      · intro hh
        simp only [step, hal, hf, hs, hrw] at hh ⊢
        simp only [Bool.not_true, Bool.false_eq_true, if_false] at hh ⊢
        rw [anyLocked_putBack]
        exact p2 hh
  | coreStart => grind [step, St.exit, reconnOk]
  | coreKill => grind [step, St.exit, reconnOk]
  | coreTerm => grind [step, St.exit, reconnOk]
  | subscribe => grind [step, St.exit, reconnOk]
  | drop => grind [step, St.exit, reconnOk]
  | read => grind [step, St.exit, reconnOk]
  | launch e t => grind [step, St.exit, reconnOk]
  | status t st => grind [step, St.exit, reconnOk]
  | reconUpdate t st => grind [step, St.exit, reconnOk]
  | snapshot => grind [step, St.exit, reconnOk]

theorem handle_log (c : Cfg) (W : World) (s : St) :
    (step c W s .handle).log = s.log ∨
    ∃ t st r, (t, st, r) ∈ s.inbox ∧ (!c.rosterGuard || !inRoster s.roster t) = true ∧ (!c.reasonGuard || r == .recon) = true ∧
      (step c W s .handle).log = .kill s.life t (.update r) (lockedIn s.roster t || heldBy s.held t) :: s.log := by
  by_cases hal : s.alive = true
  case neg => left; simp [step, hal]
  cases hi : s.inbox with
  | nil => left; simp [step, hal, hi]
  | cons u rest =>
    obtain ⟨t', st', r'⟩ := u
    simp only [step, hal, hi, Bool.not_true, Bool.false_eq_true, if_false]
    by_cases hk : ((!c.reasonGuard || r' == .recon) && c.killable st' && (!c.rosterGuard || !inRoster s.roster t')) = true
    · rw [if_pos hk]
      by_cases hs : s.stream.isSome = true
      · right
        simp only [Bool.and_eq_true] at hk
        exact ⟨t', st', r', by simp, hk.2, hk.1.1, by simp [hs]⟩
      · left; simp [hs]
    · rw [if_neg hk]; left; rfl

theorem invP_spec_step (c : Cfg) (W : World) (s : St) (x : Step) (hR : InvR s) (h : InvP s) :
    ownedSpared (step c W s x).log = true := by
  obtain ⟨p1, p2, p3⟩ := h
  cases x with
  | handle =>
    rcases handle_log c W s with h | ⟨t, st, r, hm, _, _, h⟩
    · rw [h]; exact p3
    · rw [h]
      cases r with
      | none => simpa [ownedSpared] using p3
      | recon =>
        have := (p1 t st (Or.inr hm)).1
        simpa [ownedSpared, this, heldBy_eq_lockedIn s hR] using p3
  | coreTerm =>
    by_cases hal : s.alive = true
    · by_cases hs : s.stream.isSome = true
      · simpa [step, hal, hs, St.exit] using ownedSpared_killsFor_term _ _ _ p3
      · simpa [step, hal, hs, St.exit] using p3
    · simpa [step, hal] using p3
  | release e =>
    by_cases hal : s.alive = true
    · by_cases hs : s.stream.isSome = true
      · simpa [step, hal, hs] using ownedSpared_killsFor_release _ _ _ p3
      · simpa [step, hal, hs] using p3
    · simpa [step, hal] using p3
  | releaseBegin e => grind [step, St.exit, ownedSpared]
  | releaseEnd e =>
    by_cases hal : s.alive = true
    · cases hf : s.tearing.find? (fun d => d.env == e) with
      | none => simpa [step, hal, hf] using p3
      | some d =>
        by_cases hs : s.stream.isSome = true
        · simpa [step, hal, hf, hs] using ownedSpared_killsFor_release _ _ _ p3
        · simpa [step, hal, hf, hs] using p3
    · simpa [step, hal] using p3
  | coreStart => grind [step, St.exit, ownedSpared]
  | coreKill => grind [step, St.exit, ownedSpared]
  | subscribe => grind [step, St.exit, ownedSpared]
  | drop => grind [step, St.exit, ownedSpared]
  | read => grind [step, St.exit, ownedSpared]
  | launch e t => grind [step, St.exit, ownedSpared]
  | status t st => grind [step, St.exit, ownedSpared]
  | reconUpdate t st => grind [step, St.exit, ownedSpared]
  | snapshot => grind [step, St.exit, ownedSpared]

theorem invP_step (c : Cfg) (W : World) (hrw : c.snapshotRewrite = false) (s : St) (x : Step) (hx : reconnOk s x = true)
    (ha : ∀ g, s.hello = some g → s.stream = some g) (hb : ∀ t ∈ s.tasks, t.id ∈ s.seen)
    (hR : InvR s) (h : InvP s) : InvP (step c W s x) :=
  ⟨invP_flight_step c W hrw s x hx hb h, invP_hello_step c W hrw s x hx ha h, invP_spec_step c W s x hR h⟩

theorem inv_run_P (c : Cfg) (W : World) (hseed : c.seedFid = true) (hfo : c.failover = true)
    (hrw : c.snapshotRewrite = false)
    (h : List Step) (s : St) (hh : noReconnWhileOwning c W h s = true)
    (hA : InvA s) (hb : ∀ t ∈ s.tasks, t.id ∈ s.seen) (hR : InvR s) (hP : InvP s) : InvP (run c W h s) := by
  induction h generalizing s with
  | nil => exact hP
  | cons x xs ih =>
    simp only [noReconnWhileOwning, Bool.and_eq_true] at hh
    refine ih _ hh.2 (invA_step c W hseed hfo s x hA) ?_ (invR_step c W hrw s x hR) (invP_step c W hrw s x hh.1 hA.hello hb hR hP)
    -- `seen` covers the table: the one field of InvB needed here, re-proved without InvB's hypotheses
    cases x <;> grind [step, St.exit]

/-- Any step other than `handle` adds no KILL caused by a status update. -/
theorem other_log (c : Cfg) (W : World) (s : St) (x : Step) (hx : x ≠ .handle) :
    ∀ o ∈ (step c W s x).log, o ∈ s.log ∨ ∀ l t r ow, o ≠ .kill l t (.update r) ow := by
  cases x with
  | handle => exact absurd rfl hx
  | coreTerm => intro o; simp only [step, St.exit]; split <;> (try split) <;> simp [killsFor] <;> grind
  | release e => intro o; simp only [step]; split <;> (try split) <;> simp [killsFor] <;> grind
  | releaseBegin e => grind [step, St.exit]
  | releaseEnd e => intro o; simp only [step]; split <;> (try split) <;> (try split) <;> simp [killsFor] <;> grind
  | coreStart => grind [step, St.exit]
  | coreKill => grind [step, St.exit]
  | subscribe => grind [step, St.exit]
  | drop => grind [step, St.exit]
  | read => grind [step, St.exit]
  | launch e t => grind [step, St.exit]
  | status t st => grind [step, St.exit]
  | reconUpdate t st => grind [step, St.exit]
  | snapshot => grind [step, St.exit]

theorem lockedIn_le_inRoster (r : List RTask) (t : Nat) (h : inRoster r t = false) : lockedIn r t = false := by
  induction r with
  | nil => rfl
  | cons a as ih =>
    simp only [inRoster, List.any_cons, Bool.or_eq_false_iff] at h
    simp only [lockedIn, List.any_cons, h.1, Bool.false_and, Bool.false_or]
    exact ih h.2

theorem ownedSpared_step_guarded (c : Cfg) (W : World) (hg : c.rosterGuard = true) (s : St) (x : Step)
    (hR : InvR s) (h : ownedSpared s.log = true) : ownedSpared (step c W s x).log = true := by
  by_cases hx : x = .handle
  · subst hx
    rcases handle_log c W s with e | ⟨t, st, r, _, hr, _, e⟩
    · rw [e]; exact h
    · rw [e]
      simp only [hg, Bool.not_true, Bool.false_or, Bool.not_eq_true'] at hr
      have := lockedIn_le_inRoster _ _ hr
      cases r <;> simpa [ownedSpared, this, heldBy_eq_lockedIn s hR] using h
  · apply List.all_eq_true.mpr
    intro o ho
    rcases other_log c W s x hx o ho with h1 | h1
    · exact List.all_eq_true.mp h o h1
    · split
      · exact absurd rfl (h1 _ _ _ _)
      · rfl

theorem updatesNeverKill_step (c : Cfg) (W : World) (hg : c.reasonGuard = true) (s : St) (x : Step)
    (h : updatesNeverKill s.log = true) : updatesNeverKill (step c W s x).log = true := by
  by_cases hx : x = .handle
  · subst hx
    rcases handle_log c W s with e | ⟨t, st, r, _, _, hr, e⟩
    · rw [e]; exact h
    · rw [e]
      simp only [hg, Bool.not_true, Bool.false_or, beq_iff_eq] at hr
      subst hr
      simpa [updatesNeverKill] using h
  · apply List.all_eq_true.mpr
    intro o ho
    rcases other_log c W s x hx o ho with h1 | h1
    · exact List.all_eq_true.mp h o h1
    · split
      · exact absurd rfl (h1 _ _ _ _)
      · rfl

theorem run_preserves {P : St → Prop} (c : Cfg) (W : World) (hstep : ∀ s x, P s → P (step c W s x))
    (h : List Step) (s : St) (hs : P s) : P (run c W h s) := by
  induction h generalizing s with
  | nil => exact hs
  | cons x xs ih => exact ih _ (hstep s x hs)

end Reconcile
