/-
  Proofs/Registry — invariants of the writer-registry model (Model/Registry.lean).

  `Inv` holds after every schedule of the EXCLUSIVE configuration (the code as it is): at most
  one caller is inside createOrGetWriter / ClearEventWriters, what it has seen of the map is
  still true, everything handed out in the current epoch is what the map holds for its topic,
  and every writer ever handed out is closed or still registered.
  `Fresh` holds for every configuration: registered and closed writers are distinct.
-/
import ControlModel.Model.Registry

namespace Registry

/-! ## the map -/

theorem find_put (m : List (Topic × WId)) (t t' : Topic) (v : WId) :
    find (put m t v) t' = if t = t' then some v else find m t' := by
  induction m with
  | nil => simp [put, find]
  | cons kv rest ih =>
    obtain ⟨k, v'⟩ := kv
    simp only [put]
    by_cases hk : k = t
    · subst hk
      simp only [if_true, find]
      by_cases h : k = t' <;> simp [h]
    · simp only [hk, if_false, find]
      by_cases h : k = t'
      · subst h
        have : ¬ t = k := fun e => hk e.symm
        simp [this]
      · simp only [h, if_false]; exact ih

theorem mem_vals_of_find {m : List (Topic × WId)} {t : Topic} {w : WId} (h : find m t = some w) : w ∈ vals m := by
  induction m with
  | nil => simp [find] at h
  | cons kv rest ih =>
    obtain ⟨k, v⟩ := kv
    simp only [find] at h
    by_cases hk : k = t
    · simp only [hk, if_true, Option.some.injEq] at h
      subst h; simp [vals]
    · simp only [hk, if_false] at h
      have := ih h
      simp only [vals, List.map_cons, List.mem_cons] at this ⊢
      exact Or.inr this

/-- Registering a topic that is not in the map keeps every registered writer registered. -/
theorem vals_put_absent (m : List (Topic × WId)) (t : Topic) (v : WId) (h : find m t = none) :
    vals (put m t v) = vals m ++ [v] := by
  induction m with
  | nil => simp [put, vals]
  | cons kv rest ih =>
    obtain ⟨k, v'⟩ := kv
    simp only [find] at h
    by_cases hk : k = t
    · simp [hk] at h
    · simp only [hk, if_false] at h
      simp only [put, hk, if_false, vals, List.map_cons, List.cons_append, List.cons.injEq, true_and]
      exact ih h

/-- Whatever the map held: after `writers[t] = v` it holds `v` and otherwise only what it held. -/
theorem mem_vals_put {m : List (Topic × WId)} {t : Topic} {v w : WId} (h : w ∈ vals (put m t v)) :
    w = v ∨ w ∈ vals m := by
  induction m with
  | nil => simp [put, vals] at h; exact Or.inl h
  | cons kv rest ih =>
    obtain ⟨k, v'⟩ := kv
    simp only [put] at h
    by_cases hk : k = t
    · simp only [hk, if_true, vals, List.map_cons, List.mem_cons] at h ⊢
      rcases h with h | h
      · exact Or.inl h
      · exact Or.inr (Or.inr h)
    · simp only [hk, if_false, vals, List.map_cons, List.mem_cons] at h ⊢
      rcases h with h | h
      · exact Or.inr (Or.inl h)
      · rcases ih h with h' | h'
        · exact Or.inl h'
        · exact Or.inr (Or.inr h')

theorem nodup_vals_put {m : List (Topic × WId)} {t : Topic} {v : WId} (hn : (vals m).Nodup) (hv : v ∉ vals m) :
    (vals (put m t v)).Nodup := by
  induction m with
  | nil => simp [put, vals]
  | cons kv rest ih =>
    obtain ⟨k, v'⟩ := kv
    simp only [vals, List.map_cons, List.nodup_cons, List.mem_cons, not_or] at hn hv
    simp only [put]
    by_cases hk : k = t
    · simp only [hk, if_true, vals, List.map_cons, List.nodup_cons]
      exact ⟨hv.2, hn.2⟩
    · simp only [hk, if_false, vals, List.map_cons, List.nodup_cons]
      refine ⟨?_, ih hn.2 hv.2⟩
      intro hmem
      rcases mem_vals_put hmem with h | h
      · exact hv.1 h.symm
      · exact hn.1 h

/-! ## who is where -/

def Pc.getter : Pc → Bool
  | .locked _ | .missed _ | .found _ _ => true
  | _ => false

def Pc.clr : Pc → Bool
  | .clearing | .cleared => true
  | _ => false

theorem Pc.idle_or (p : Pc) : p = .idle ∨ p.getter = true ∨ p.clr = true := by
  cases p <;> simp [Pc.getter, Pc.clr]

@[simp] theorem upd_same (f : Caller → Pc) (c : Caller) (p : Pc) : upd f c p c = p := by simp [upd]
theorem upd_other (f : Caller → Pc) {c x : Caller} (p : Pc) (h : x ≠ c) : upd f c p x = f x := by simp [upd, h]

structure Inv (s : State) : Prop where
  /-- a caller inside createOrGetWriter is the only holder of the mutex -/
  getter : ∀ c, (s.pc c).getter = true → s.holders = [c] ∧ s.clearer = none
  /-- a caller inside ClearEventWriters is the only holder of the mutex -/
  clr : ∀ c, (s.pc c).clr = true → s.holders = [] ∧ s.clearer = some c
  /-- what a caller has seen of the map is still true -/
  missed : ∀ c t, s.pc c = .missed t → find s.reg t = none
  found : ∀ c t w, s.pc c = .found t w → find s.reg t = some w
  /-- everything handed out since the last shutdown is what the map holds for its topic -/
  handedReg : ∀ h ∈ s.handed, find s.reg h.2.1 = some h.2.2
  /-- every writer ever handed out has been closed or is still registered -/
  noOrphan : ∀ w ∈ s.everHanded, w ∈ s.closed ∨ w ∈ vals s.reg

theorem inv_init : Inv init := by
  constructor <;> simp [init, Pc.getter, Pc.clr]

/-- Mutual exclusion: two callers that are inside a registry function are the same caller. -/
theorem Inv.one {s : State} (h : Inv s) {c c' : Caller} (hc : s.pc c ≠ .idle) (hc' : s.pc c' ≠ .idle) : c = c' := by
  rcases Pc.idle_or (s.pc c) with h1 | h1 | h1
  · exact absurd h1 hc
  · rcases Pc.idle_or (s.pc c') with h2 | h2 | h2
    · exact absurd h2 hc'
    · have a := (h.getter c h1).1
      have b := (h.getter c' h2).1
      rw [a] at b; simpa using b
    · have a := (h.getter c h1).1
      have b := (h.clr c' h2).1
      rw [a] at b; simp at b
  · rcases Pc.idle_or (s.pc c') with h2 | h2 | h2
    · exact absurd h2 hc'
    · have a := (h.clr c h1).1
      have b := (h.getter c' h2).1
      rw [a] at b; simp at b
    · have a := (h.clr c h1).2
      have b := (h.clr c' h2).2
      rw [a] at b; simpa using b

theorem Inv.others_idle {s : State} (h : Inv s) {c x : Caller} (hc : s.pc c ≠ .idle) (hx : x ≠ c) : s.pc x = .idle := by
  cases hpx : s.pc x with
  | idle => rfl
  | _ => exact absurd (h.one (c := x) (c' := c) (by rw [hpx]; simp) hc) hx

theorem Inv.all_idle {s : State} (h : Inv s) (hh : s.holders = []) (hc : s.clearer = none) (x : Caller) : s.pc x = .idle := by
  rcases Pc.idle_or (s.pc x) with h1 | h1 | h1
  · exact h1
  · have := (h.getter x h1).1; rw [hh] at this; simp at this
  · have := (h.clr x h1).2; rw [hc] at this; simp at this

/-- Every enabled step of the exclusive configuration preserves the invariant. -/
theorem inv_fire (s : State) (st : Step) (h : Inv s) (hen : enabled codeCfg s st = true) : Inv (fire s st) := by
  cases st with
  | enter c t =>
    simp only [enabled, codeCfg, Bool.not_true, Bool.false_or, Bool.and_eq_true, beq_iff_eq,
      Option.isNone_iff_eq_none, List.isEmpty_iff] at hen
    obtain ⟨⟨_, hcl⟩, hh⟩ := hen
    have hidle := h.all_idle hh hcl
    have hpc : ∀ x, (fire s (.enter c t)).pc x = if x = c then .locked t else .idle := by
      intro x; simp only [fire, upd]; split <;> simp [hidle x]
    constructor
    · intro x hx
      have := hpc x
      by_cases hxc : x = c
      · subst hxc; simp [fire, hh, hcl]
      · simp only [hxc, if_false] at this; rw [this] at hx; simp [Pc.getter] at hx
    · intro x hx
      rw [hpc x] at hx
      split at hx <;> simp [Pc.clr] at hx
    · intro x t' hx
      have := hpc x
      rw [hx] at this; split at this <;> simp at this
    · intro x t' w hx
      have := hpc x
      rw [hx] at this; split at this <;> simp at this
    · exact h.handedReg
    · exact h.noOrphan
  | look c =>
    cases hp : s.pc c with
    | locked t =>
      have hne : s.pc c ≠ .idle := by rw [hp]; simp
      have hg := h.getter c (by rw [hp]; rfl)
      cases hf : find s.reg t with
      | none =>
        have hfire : fire s (.look c) = { s with pc := upd s.pc c (.missed t) } := by simp [fire, hp, hf]
        rw [hfire]
        constructor
        · intro x hx
          by_cases hxc : x = c
          · subst hxc; exact hg
          · simp only [upd_other _ _ hxc, h.others_idle hne hxc, Pc.getter] at hx; cases hx
        · intro x hx
          by_cases hxc : x = c
          · subst hxc; simp [Pc.clr] at hx
          · simp only [upd_other _ _ hxc, h.others_idle hne hxc, Pc.clr] at hx; cases hx
        · intro x t' hx
          by_cases hxc : x = c
          · subst hxc; simp only [upd_same, Pc.missed.injEq] at hx; subst hx; exact hf
          · simp only [upd_other _ _ hxc, h.others_idle hne hxc] at hx; cases hx
        · intro x t' w hx
          by_cases hxc : x = c
          · subst hxc; simp at hx
          · simp only [upd_other _ _ hxc, h.others_idle hne hxc] at hx; cases hx
        · exact h.handedReg
        · exact h.noOrphan
      | some w =>
        have hfire : fire s (.look c) = { s with pc := upd s.pc c (.found t w) } := by simp [fire, hp, hf]
        rw [hfire]
        constructor
        · intro x hx
          by_cases hxc : x = c
          · subst hxc; exact hg
          · simp only [upd_other _ _ hxc, h.others_idle hne hxc, Pc.getter] at hx; cases hx
        · intro x hx
          by_cases hxc : x = c
          · subst hxc; simp [Pc.clr] at hx
          · simp only [upd_other _ _ hxc, h.others_idle hne hxc, Pc.clr] at hx; cases hx
        · intro x t' hx
          by_cases hxc : x = c
          · subst hxc; simp at hx
          · simp only [upd_other _ _ hxc, h.others_idle hne hxc] at hx; cases hx
        · intro x t' w' hx
          by_cases hxc : x = c
          · subst hxc; simp only [upd_same, Pc.found.injEq] at hx; obtain ⟨rfl, rfl⟩ := hx; exact hf
          · simp only [upd_other _ _ hxc, h.others_idle hne hxc] at hx; cases hx
        · exact h.handedReg
        · exact h.noOrphan
    | _ => simp [enabled, hp] at hen
  | create c =>
    cases hp : s.pc c with
    | missed t =>
      have hne : s.pc c ≠ .idle := by rw [hp]; simp
      have hg := h.getter c (by rw [hp]; rfl)
      have hnone := h.missed c t hp
      have hfire : fire s (.create c) =
          { s with reg := put s.reg t s.next, next := s.next + 1, pc := upd s.pc c (.found t s.next) } := by
        simp [fire, hp]
      rw [hfire]
      constructor
      · intro x hx
        by_cases hxc : x = c
        · subst hxc; exact hg
        · simp only [upd_other _ _ hxc, h.others_idle hne hxc, Pc.getter] at hx; cases hx
      · intro x hx
        by_cases hxc : x = c
        · subst hxc; simp [Pc.clr] at hx
        · simp only [upd_other _ _ hxc, h.others_idle hne hxc, Pc.clr] at hx; cases hx
      · intro x t' hx
        by_cases hxc : x = c
        · subst hxc; simp at hx
        · simp only [upd_other _ _ hxc, h.others_idle hne hxc] at hx; cases hx
      · intro x t' w' hx
        by_cases hxc : x = c
        · subst hxc; simp only [upd_same, Pc.found.injEq] at hx; obtain ⟨rfl, rfl⟩ := hx
          simp [find_put]
        · simp only [upd_other _ _ hxc, h.others_idle hne hxc] at hx; cases hx
      · intro e he
        have := h.handedReg e he
        show find (put s.reg t s.next) e.2.1 = some e.2.2
        rw [find_put]
        by_cases ht : t = e.2.1
        · rw [← ht, hnone] at this; cases this
        · simp [ht, this]
      · intro w hw
        rcases h.noOrphan w hw with h1 | h1
        · exact Or.inl h1
        · right
          show w ∈ vals (put s.reg t s.next)
          rw [vals_put_absent _ _ _ hnone]; simp [h1]
    | _ => simp [enabled, hp] at hen
  | ret c =>
    cases hp : s.pc c with
    | found t w =>
      have hne : s.pc c ≠ .idle := by rw [hp]; simp
      have hg := h.getter c (by rw [hp]; rfl)
      have hreg := h.found c t w hp
      have hfire : fire s (.ret c) =
          { s with pc := upd s.pc c .idle, holders := s.holders.erase c,
                   handed := s.handed ++ [(c, t, w)], everHanded := s.everHanded ++ [w] } := by
        simp [fire, hp]
      rw [hfire]
      have hall : ∀ x, upd s.pc c .idle x = .idle := by
        intro x
        by_cases hxc : x = c
        · subst hxc; simp
        · rw [upd_other _ _ hxc]; exact h.others_idle hne hxc
      constructor
      · intro x hx; simp only [hall x, Pc.getter] at hx; cases hx
      · intro x hx; simp only [hall x, Pc.clr] at hx; cases hx
      · intro x t' hx; simp only [hall x] at hx; cases hx
      · intro x t' w' hx; simp only [hall x] at hx; cases hx
      · intro e he
        simp only [List.mem_append, List.mem_singleton] at he
        rcases he with he | he
        · exact h.handedReg e he
        · subst he; exact hreg
      · intro w' hw'
        simp only [List.mem_append, List.mem_singleton] at hw'
        rcases hw' with hw' | hw'
        · exact h.noOrphan w' hw'
        · subst hw'; exact Or.inr (mem_vals_of_find hreg)
    | _ => simp [enabled, hp] at hen
  | enterClear c =>
    simp only [enabled, Bool.and_eq_true, beq_iff_eq, Option.isNone_iff_eq_none, List.isEmpty_iff] at hen
    obtain ⟨⟨_, hcl⟩, hh⟩ := hen
    have hidle := h.all_idle hh hcl
    have hpc : ∀ x, (fire s (.enterClear c)).pc x = if x = c then .clearing else .idle := by
      intro x; simp only [fire, upd]; split <;> simp [hidle x]
    constructor
    · intro x hx
      rw [hpc x] at hx
      split at hx <;> simp [Pc.getter] at hx
    · intro x hx
      have := hpc x
      by_cases hxc : x = c
      · subst hxc; simp [fire, hh]
      · simp only [hxc, if_false] at this; rw [this] at hx; simp [Pc.clr] at hx
    · intro x t' hx
      have := hpc x
      rw [hx] at this; split at this <;> simp at this
    · intro x t' w hx
      have := hpc x
      rw [hx] at this; split at this <;> simp at this
    · exact h.handedReg
    · exact h.noOrphan
  | closeAll c =>
    simp only [enabled, beq_iff_eq] at hen
    have hne : s.pc c ≠ .idle := by rw [hen]; simp
    have hg := h.clr c (by rw [hen]; rfl)
    constructor
    · intro x hx
      by_cases hxc : x = c
      · subst hxc; simp [fire, Pc.getter] at hx
      · simp only [fire, upd_other _ _ hxc, h.others_idle hne hxc, Pc.getter] at hx; cases hx
    · intro x hx
      by_cases hxc : x = c
      · subst hxc; exact hg
      · simp only [fire, upd_other _ _ hxc, h.others_idle hne hxc, Pc.clr] at hx; cases hx
    · intro x t' hx
      by_cases hxc : x = c
      · subst hxc; simp [fire] at hx
      · simp only [fire, upd_other _ _ hxc, h.others_idle hne hxc] at hx; cases hx
    · intro x t' w hx
      by_cases hxc : x = c
      · subst hxc; simp [fire] at hx
      · simp only [fire, upd_other _ _ hxc, h.others_idle hne hxc] at hx; cases hx
    · intro e he; simp [fire] at he
    · intro w hw
      left
      show w ∈ s.closed ++ vals s.reg
      rcases h.noOrphan w hw with h1 | h1 <;> simp [h1]
  | retClear c =>
    simp only [enabled, beq_iff_eq] at hen
    have hne : s.pc c ≠ .idle := by rw [hen]; simp
    have hall : ∀ x, upd s.pc c .idle x = .idle := by
      intro x
      by_cases hxc : x = c
      · subst hxc; simp
      · rw [upd_other _ _ hxc]; exact h.others_idle hne hxc
    constructor
    · intro x hx; simp only [fire, hall x, Pc.getter] at hx; cases hx
    · intro x hx; simp only [fire, hall x, Pc.clr] at hx; cases hx
    · intro x t' hx; simp only [fire, hall x] at hx; cases hx
    · intro x t' w' hx; simp only [fire, hall x] at hx; cases hx
    · exact h.handedReg
    · exact h.noOrphan

theorem inv_step (s : State) (st : Step) (h : Inv s) : Inv (step codeCfg s st) := by
  unfold step; split
  · exact inv_fire s st h (by assumption)
  · exact h

theorem inv_run (s : State) (sched : List Step) (h : Inv s) : Inv (run codeCfg s sched) := by
  induction sched generalizing s with
  | nil => exact h
  | cons st rest ih => exact ih _ (inv_step s st h)

theorem inv_reach (sched : List Step) : Inv (run codeCfg init sched) := inv_run init sched inv_init

theorem run_append (cfg : Cfg) (s : State) (a b : List Step) : run cfg s (a ++ b) = run cfg (run cfg s a) b := by
  induction a generalizing s with
  | nil => rfl
  | cons st rest ih => exact ih _

/-! ## registered and closed writers are distinct (every configuration) -/

structure Fresh (s : State) : Prop where
  regLt : ∀ w ∈ vals s.reg, w < s.next
  closedLt : ∀ w ∈ s.closed, w < s.next
  regNodup : (vals s.reg).Nodup
  closedNodup : s.closed.Nodup
  disjoint : ∀ w ∈ vals s.reg, w ∉ s.closed

theorem fresh_init : Fresh init := by constructor <;> simp [init, vals]

theorem fresh_fire (s : State) (st : Step) (h : Fresh s) : Fresh (fire s st) := by
  cases st with
  | enter c t => exact ⟨h.regLt, h.closedLt, h.regNodup, h.closedNodup, h.disjoint⟩
  | look c =>
    simp only [fire]
    split
    · split <;> exact ⟨h.regLt, h.closedLt, h.regNodup, h.closedNodup, h.disjoint⟩
    · exact h
  | create c =>
    simp only [fire]
    split
    · rename_i t _
      have hnot : s.next ∉ vals s.reg := fun hm => Nat.lt_irrefl _ (h.regLt _ hm)
      constructor
      · intro w hw
        rcases mem_vals_put hw with h1 | h1
        · subst h1; exact Nat.lt_succ_self _
        · exact Nat.lt_succ_of_lt (h.regLt w h1)
      · intro w hw; exact Nat.lt_succ_of_lt (h.closedLt w hw)
      · exact nodup_vals_put h.regNodup hnot
      · exact h.closedNodup
      · intro w hw
        rcases mem_vals_put hw with h1 | h1
        · subst h1; intro hc; exact Nat.lt_irrefl _ (h.closedLt _ hc)
        · exact h.disjoint w h1
    · exact h
  | ret c =>
    simp only [fire]
    split
    · exact ⟨h.regLt, h.closedLt, h.regNodup, h.closedNodup, h.disjoint⟩
    · exact h
  | enterClear c => exact ⟨h.regLt, h.closedLt, h.regNodup, h.closedNodup, h.disjoint⟩
  | closeAll c =>
    constructor
    · intro w hw; simp [fire, vals] at hw
    · intro w hw
      simp only [fire, List.mem_append] at hw
      rcases hw with h1 | h1
      · exact h.closedLt w h1
      · exact h.regLt w h1
    · simp [fire, vals]
    · show (s.closed ++ vals s.reg).Nodup
      rw [List.nodup_append]
      refine ⟨h.closedNodup, h.regNodup, ?_⟩
      intro a ha b hb hab
      subst hab
      exact h.disjoint a hb ha
    · intro w hw; simp [fire, vals] at hw
  | retClear c => exact ⟨h.regLt, h.closedLt, h.regNodup, h.closedNodup, h.disjoint⟩

theorem fresh_reach (cfg : Cfg) (sched : List Step) : Fresh (run cfg init sched) := by
  suffices ∀ s, Fresh s → Fresh (run cfg s sched) from this init fresh_init
  induction sched with
  | nil => intro s h; exact h
  | cons st rest ih =>
    intro s h
    apply ih
    unfold step; split
    · exact fresh_fire s st h
    · exact h

/-! ## consequences used by the property theorems -/

theorem handedFor_mem {s : State} {t : Topic} {w : WId} (h : w ∈ handedFor s t) :
    ∃ c, (c, t, w) ∈ s.handed := by
  simp only [handedFor, List.mem_map, List.mem_filter, beq_iff_eq] at h
  obtain ⟨⟨c, t', w'⟩, ⟨hm, ht⟩, hw⟩ := h
  simp only at ht hw
  subst ht; subst hw
  exact ⟨c, hm⟩

theorem eraseDups_of_all_eq (l : List WId) (w : WId) (h : ∀ x ∈ l, x = w) : l.eraseDups = [] ∨ l.eraseDups = [w] := by
  cases l with
  | nil => left; simp
  | cons a rest =>
    right
    have ha : a = w := h a (by simp)
    subst ha
    have hall : ∀ x ∈ rest, x = a := fun x hx => h x (by simp [hx])
    rw [List.eraseDups_cons]
    have : rest.filter (fun b => !b == a) = [] := by
      apply List.filter_eq_nil_iff.mpr
      intro x hx; simp [hall x hx]
    rw [this]; simp

end Registry
