/-
  Proofs/Resubscribe — invariants of Model/Resubscribe.lean behind the C18 theorems about SEVERAL subscriptions
  in one life and incomplete reconciliation answers (core Lean only).

    lifting  every step of the layered model changes the base state by a step of Model/Reconcile.lean (for SOME
             world), by a snapshot entry, or not at all: InvA / InvB / InvR and the log predicates carry over
    InvV     orphans: while connected, every killable task of an earlier life is covered by the SUBSCRIBED still
             to be read, by a reconciliation answer on its way, by a KILL sent SINCE THE LATEST SUBSCRIBE of the
             current life, or it is in `missed` (the answer to this subscription's RECONCILE left it out)
    InvS     identity: the id in memory is the persisted one, the newest `Sub` is the connected stream, every
             accepted `Sub` was assigned the persisted id; hence `identityKept` and `oneFramework`
-/
import ControlModel.Proofs.Reconcile
open Reconcile Spec.C18

namespace Reconcile

/-! ### what a step of the layered model does to the base state -/

theorem rstep_base_cases (c : Cfg) (r : RSt) (x : RStep) :
    (rstep c r x).base = r.base ∨
    (r.base.quiescent = true ∧ x = .base .snapshot ∧
      (rstep c r x).base = { r.base with log := .snap r.base.life (visibleOrphans c r) :: r.base.log }) ∨
    (∃ W y, x = .base y ∧ y ≠ .snapshot ∧ (rstep c r x).base = step c W r.base y) := by
  cases x with
  | hide t => exact Or.inl rfl
  | unhide t => exact Or.inl rfl
  | mute => exact Or.inl rfl
  | unmute => exact Or.inl rfl
  | base y =>
    cases y with
    | snapshot =>
      by_cases hq : r.base.quiescent = true
      · exact Or.inr (Or.inl ⟨hq, rfl, by simp [rstep, hq]⟩)
      · exact Or.inl (by simp [rstep, hq])
    | subscribe =>
      refine Or.inr (Or.inr ⟨World.complete, _, rfl, by simp, ?_⟩)
      simp only [rstep]; split <;> rfl
    | read =>
      refine Or.inr (Or.inr ⟨worldOf r.hidden r.muted, _, rfl, by simp, ?_⟩)
      simp only [rstep]; split <;> rfl
    | coreStart => exact Or.inr (Or.inr ⟨World.complete, _, rfl, by simp, rfl⟩)
    | coreKill => exact Or.inr (Or.inr ⟨World.complete, _, rfl, by simp, rfl⟩)
    | coreTerm => exact Or.inr (Or.inr ⟨World.complete, _, rfl, by simp, rfl⟩)
    | drop => exact Or.inr (Or.inr ⟨World.complete, _, rfl, by simp, rfl⟩)
    | handle => exact Or.inr (Or.inr ⟨World.complete, _, rfl, by simp, rfl⟩)
    | launch e t => exact Or.inr (Or.inr ⟨World.complete, _, rfl, by simp, rfl⟩)
    | status t st => exact Or.inr (Or.inr ⟨World.complete, _, rfl, by simp, rfl⟩)
    | reconUpdate t st => exact Or.inr (Or.inr ⟨World.complete, _, rfl, by simp, rfl⟩)
    | release e => exact Or.inr (Or.inr ⟨World.complete, _, rfl, by simp, rfl⟩)
    | releaseBegin e => exact Or.inr (Or.inr ⟨World.complete, _, rfl, by simp, rfl⟩)
    | releaseEnd e => exact Or.inr (Or.inr ⟨World.complete, _, rfl, by simp, rfl⟩)

/-- the `stepOk` of Proofs/Reconcile.lean on the layered steps -/
def rstepOk (c : Cfg) : RStep → Bool
  | .base x => stepOk c x
  | _ => true

/-- A property of base states that every base step (for every world) and every snapshot entry preserves is
    preserved by every step of the layered model. -/
theorem rstep_lift (P : St → Prop) (c : Cfg) (r : RSt) (x : RStep)
    (hstep : ∀ W y, x = .base y → P (step c W r.base y))
    (hsnap : ∀ os, P { r.base with log := .snap r.base.life os :: r.base.log })
    (h : P r.base) : P (rstep c r x).base := by
  rcases rstep_base_cases c r x with e | ⟨_, _, e⟩ | ⟨W, y, hx, _, e⟩
  · rw [e]; exact h
  · rw [e]; exact hsnap _
  · rw [e]; exact hstep W y hx

theorem invA_snap (s : St) (l : Nat) (os : List Nat) (h : InvA s) : InvA { s with log := .snap l os :: s.log } := by
  obtain ⟨h1, h2, h3, h4, h5, h6⟩ := h
  constructor
  · intro l' f hm; simp at hm; exact h1 l' f hm
  · exact h2
  · exact h3
  · exact h4
  · simpa [sameIdentity] using h5
  · simpa [persistedOnce] using h6

theorem invB_snap (c : Cfg) (s : St) (l : Nat) (os : List Nat) (h : InvB c s) :
    InvB c { s with log := .snap l os :: s.log } := by
  obtain ⟨h1, h3, ht, h4, h5, h6, h7, h8⟩ := h
  exact ⟨h1, h3, ht, h4, h5, h6, h7, h8⟩

theorem invR_snap (s : St) (l : Nat) (os : List Nat) (h : InvR s) : InvR { s with log := .snap l os :: s.log } :=
  ⟨h.complete, h.sound⟩

theorem invA_rstep (c : Cfg) (hseed : c.seedFid = true) (hfo : c.failover = true) (r : RSt) (x : RStep)
    (h : InvA r.base) : InvA (rstep c r x).base :=
  rstep_lift InvA c r x (fun W y _ => invA_step c W hseed hfo r.base y h) (fun os => invA_snap _ _ os h) h

theorem invB_rstep (c : Cfg) (hc : Sound c) (r : RSt) (x : RStep) (hx : rstepOk c x = true)
    (ha : InvA r.base) (h : InvB c r.base) : InvB c (rstep c r x).base :=
  rstep_lift (InvB c) c r x
    (fun W y hy => invB_step c W hc r.base y (by subst hy; exact hx) ha.hello h) (fun os => invB_snap c _ _ os h) h

theorem invR_rstep (c : Cfg) (hrw : c.snapshotRewrite = false) (r : RSt) (x : RStep)
    (h : InvR r.base) : InvR (rstep c r x).base :=
  rstep_lift InvR c r x (fun W y _ => invR_step c W hrw r.base y h) (fun os => invR_snap _ _ os h) h

/-- induction over a history of the layered model -/
theorem rrun_preserves {P : RSt → Prop} (c : Cfg) (hstep : ∀ r x, P r → P (rstep c r x))
    (h : List RStep) (r : RSt) (hr : P r) : P (rrun c h r) := by
  induction h generalizing r with
  | nil => exact hr
  | cons x xs ih => exact ih _ (hstep r x hr)

/-! ### the layer is conservative -/

theorem worldOf_nil : worldOf [] false = World.complete := by
  simp [worldOf, World.complete]

theorem rstep_plain (c : Cfg) (r : RSt) (x : Step) (hh : r.hidden = []) (hm : r.muted = false) :
    (rstep c r (.base x)).base = step c World.complete r.base x ∧
    (rstep c r (.base x)).hidden = [] ∧ (rstep c r (.base x)).muted = false := by
  cases x with
  | snapshot =>
    by_cases hq : r.base.quiescent = true
    · have hq' : (r.base.alive && r.base.connected && r.base.queue.isEmpty && r.base.inbox.isEmpty) = true := hq
      simp [rstep, hq, step, hq', visibleOrphans, hh, hm]
    · have hq' : ¬ (r.base.alive && r.base.connected && r.base.queue.isEmpty && r.base.inbox.isEmpty) = true := hq
      simp [rstep, hq, step, hq', hh, hm]
  | subscribe => simp only [rstep]; split <;> exact ⟨rfl, hh, hm⟩
  | read => simp only [rstep, hh, hm, worldOf_nil]; split <;> exact ⟨rfl, rfl, rfl⟩
  | coreStart => exact ⟨rfl, hh, hm⟩
  | coreKill => exact ⟨rfl, hh, hm⟩
  | coreTerm => exact ⟨rfl, hh, hm⟩
  | drop => exact ⟨rfl, hh, hm⟩
  | handle => exact ⟨rfl, hh, hm⟩
  | launch e t => exact ⟨rfl, hh, hm⟩
  | status t st => exact ⟨rfl, hh, hm⟩
  | reconUpdate t st => exact ⟨rfl, hh, hm⟩
  | release e => exact ⟨rfl, hh, hm⟩
  | releaseBegin e => exact ⟨rfl, hh, hm⟩
  | releaseEnd e => exact ⟨rfl, hh, hm⟩

theorem rrun_plain (c : Cfg) (h : List Step) (r : RSt) (hh : r.hidden = []) (hm : r.muted = false) :
    (rrun c (h.map .base) r).base = run c World.complete h r.base := by
  induction h generalizing r with
  | nil => rfl
  | cons x xs ih =>
    obtain ⟨e, h1, h2⟩ := rstep_plain c r x hh hm
    simp only [List.map_cons, rrun, run]
    rw [ih _ h1 h2, e]


/-- … and `missed` stays empty along a history without the new steps (the code reconciles on every SUBSCRIBED) -/
theorem rstep_plain_missed (c : Cfg) (hrec : c.reconcileOnSubscribed = true) (r : RSt) (x : Step)
    (hh : r.hidden = []) (hm : r.muted = false) (hmi : r.missed = []) : (rstep c r (.base x)).missed = [] := by
  cases x with
  | snapshot => simp only [rstep]; split <;> exact hmi
  | subscribe => simp only [rstep]; split <;> exact hmi
  | read => simp only [rstep, hh, hm, hrec]; split <;> simp [hmi]
  | coreStart => exact hmi
  | coreKill => exact hmi
  | coreTerm => exact hmi
  | drop => exact hmi
  | handle => exact hmi
  | launch e t => exact hmi
  | status t st => exact hmi
  | reconUpdate t st => exact hmi
  | release e => exact hmi
  | releaseBegin e => exact hmi
  | releaseEnd e => exact hmi

/-- a history of the old model has no late orphans: nothing is ever missed -/
theorem noLate_plain (c : Cfg) (hrec : c.reconcileOnSubscribed = true) (h : List Step) (r : RSt)
    (hh : r.hidden = []) (hm : r.muted = false) (hmi : r.missed = []) :
    noLateOrphans c (h.map .base) r = true := by
  induction h generalizing r with
  | nil => rfl
  | cons x xs ih =>
    obtain ⟨_, h1, h2⟩ := rstep_plain c r x hh hm
    simp only [List.map_cons, noLateOrphans, Bool.and_eq_true]
    refine ⟨?_, ih _ h1 h2 (rstep_plain_missed c hrec r x hh hm hmi)⟩
    cases x <;> simp [lateOk, hmi]

theorem world_complete_of (W : World) (hW : ∀ n t, W.answers n t = true) : W = World.complete := by
  cases W with
  | mk a =>
    simp only [World.complete, World.mk.injEq]
    funext n t; exact hW n t

/-! ### the log since the latest SUBSCRIBE of a life -/

@[simp] theorem sinceSubscribe_kill (l l' t w o) (log : List Out) :
    sinceSubscribe l (.kill l' t w o :: log) = .kill l' t w o :: sinceSubscribe l log := rfl
@[simp] theorem sinceSubscribe_snap (l l' os) (log : List Out) :
    sinceSubscribe l (.snap l' os :: log) = .snap l' os :: sinceSubscribe l log := rfl
@[simp] theorem sinceSubscribe_reconcile (l l') (log : List Out) :
    sinceSubscribe l (.reconcile l' :: log) = .reconcile l' :: sinceSubscribe l log := rfl
@[simp] theorem sinceSubscribe_persist (l l' f) (log : List Out) :
    sinceSubscribe l (.persist l' f :: log) = .persist l' f :: sinceSubscribe l log := rfl
@[simp] theorem sinceSubscribe_stateError (l l') (log : List Out) :
    sinceSubscribe l (.stateError l' :: log) = .stateError l' :: sinceSubscribe l log := rfl
@[simp] theorem sinceSubscribe_subscribe_self (l c) (log : List Out) :
    sinceSubscribe l (.subscribe l c :: log) = [] := by simp [sinceSubscribe]

theorem sinceSubscribe_killsFor (l l' w ts) (log : List Out) :
    sinceSubscribe l (killsFor l' w ts ++ log) = killsFor l' w ts ++ sinceSubscribe l log := by
  induction ts with
  | nil => simp [killsFor]
  | cons a as ih => simpa [killsFor] using ih

/-- what is newer than the latest SUBSCRIBE is in the log -/
theorem sinceSubscribe_sub (l : Nat) (log : List Out) : ∀ o ∈ sinceSubscribe l log, o ∈ log := by
  induction log with
  | nil => intro o h; cases h
  | cons a as ih =>
    intro o h
    cases a with
    | subscribe l' c =>
      by_cases e : l' = l
      · subst e; simp at h
      · have : sinceSubscribe l (.subscribe l' c :: as) = .subscribe l' c :: sinceSubscribe l as := by
          simp [sinceSubscribe, e]
        rw [this] at h
        rcases List.mem_cons.mp h with h | h
        · exact h ▸ List.mem_cons_self
        · exact List.mem_cons_of_mem _ (ih o h)
    | kill _ _ _ _ | snap _ _ | reconcile _ | persist _ _ | stateError _ =>
      simp only [sinceSubscribe_kill, sinceSubscribe_snap, sinceSubscribe_reconcile, sinceSubscribe_persist,
        sinceSubscribe_stateError] at h
      rcases List.mem_cons.mp h with h | h
      · exact h ▸ List.mem_cons_self
      · exact List.mem_cons_of_mem _ (ih o h)

/-- The per-subscription statement implies the per-task one: a KILL since the latest SUBSCRIBE is a KILL. -/
theorem orphansKilled_of_eachSubscription (log : List Out) (h : orphansKilledEachSubscription log = true) :
    orphansKilled log = true := by
  induction log with
  | nil => rfl
  | cons a as ih =>
    simp only [orphansKilledEachSubscription, Bool.and_eq_true] at h
    simp only [orphansKilled, Bool.and_eq_true]
    refine ⟨?_, ih h.2⟩
    cases a with
    | snap l os =>
      have h1 := h.1
      simp only [List.all_eq_true, List.any_eq_true] at h1 ⊢
      intro t ht
      obtain ⟨o, ho, hk⟩ := h1 t ht
      exact ⟨o, sinceSubscribe_sub l as o ho, hk⟩
    | _ => rfl

theorem eachSubscription_killsFor (l w ts) (log : List Out) (h : orphansKilledEachSubscription log = true) :
    orphansKilledEachSubscription (killsFor l w ts ++ log) = true := by
  induction ts with
  | nil => simpa [killsFor] using h
  | cons a as ih => simpa [killsFor, orphansKilledEachSubscription] using ih

/-- a KILL of life `l` for task `t`, caused by a reconciliation update, NEWER than the latest SUBSCRIBE of life `l`
    and NEWER than its latest RECONCILE -/
def KilledS (log : List Out) (l t : Nat) : Prop :=
  ∃ o, Out.kill l t (.update .recon) o ∈ sinceSubscribe l log ∧ Out.kill l t (.update .recon) o ∈ sinceReconcile l log

theorem KilledS.any {log : List Out} {l t : Nat} (h : KilledS log l t) :
    (sinceSubscribe l log).any (isReconKill l t) = true := by
  obtain ⟨o, ho, _⟩ := h
  exact List.any_eq_true.mpr ⟨_, ho, by simp [isReconKill]⟩

theorem KilledS.anyR {log : List Out} {l t : Nat} (h : KilledS log l t) :
    (sinceReconcile l log).any (isReconKill l t) = true := by
  obtain ⟨o, _, ho⟩ := h
  exact List.any_eq_true.mpr ⟨_, ho, by simp [isReconKill]⟩

theorem KilledS.mono {log log' : List Out} {l t : Nat} (h : KilledS log l t)
    (hsub : ∀ o ∈ sinceSubscribe l log, o ∈ sinceSubscribe l log')
    (hrec : ∀ o ∈ sinceReconcile l log, o ∈ sinceReconcile l log') : KilledS log' l t := by
  obtain ⟨o, ho, ho'⟩ := h
  exact ⟨o, hsub _ ho, hrec _ ho'⟩

/-! ### orphans, with answers that leave tasks out -/

/-- The orphan invariant on a base state `s` with the set `m` of tasks the current subscription's answer missed. -/
def OrphanInv (c : Cfg) (s : St) (m : List Nat) : Prop :=
  s.alive = true → s.stream.isSome = true → ∀ t ∈ s.tasks, t.life < s.life → c.killable t.state = true →
    s.hello.isSome = true ∨ Pending c s t.id ∨ KilledS s.log s.life t.id ∨ t.id ∈ m

/-- a step that leaves table, life and connection alone and only adds to queues and log -/
theorem orphanV_frame (c : Cfg) (s s' : St) (m : List Nat) (h : OrphanInv c s m)
    (ht : s'.tasks = s.tasks) (hl : s'.life = s.life) (ha : s'.alive = s.alive) (hst : s'.stream = s.stream)
    (hh : s'.hello = s.hello)
    (hq : ∀ u ∈ s.queue, u ∈ s'.queue) (hi : ∀ u ∈ s.inbox, u ∈ s'.inbox)
    (hlog : ∀ o ∈ sinceSubscribe s.life s.log, o ∈ sinceSubscribe s.life s'.log)
    (hlog2 : ∀ o ∈ sinceReconcile s.life s.log, o ∈ sinceReconcile s.life s'.log) : OrphanInv c s' m := by
  intro ha' hs' t htm hlt hk
  rw [ht] at htm; rw [hl] at hlt; rw [ha] at ha'; rw [hst] at hs'; rw [hh, hl]
  rcases h ha' hs' t htm hlt hk with h1 | ⟨st, hst, h2 | h2⟩ | h3 | h4
  · exact Or.inl h1
  · exact Or.inr (Or.inl ⟨st, hst, Or.inl (hq _ h2)⟩)
  · exact Or.inr (Or.inl ⟨st, hst, Or.inr (hi _ h2)⟩)
  · exact Or.inr (Or.inr (Or.inl (h3.mono hlog hlog2)))
  · exact Or.inr (Or.inr (Or.inr h4))

theorem mem_answerOf_vis (W : World) (n f : Nat) (tasks : List MTask)
    (t : MTask) (ht : t ∈ tasks) (hnt : t.state.terminal = false) (hf : t.fid = f) (hv : W.answers n t.id = true) :
    (t.id, t.state, Reason.recon) ∈ answerOf W n f tasks := by
  unfold answerOf
  apply List.mem_map.mpr
  refine ⟨t, ?_, rfl⟩
  apply List.mem_filter.mpr
  simp [ht, hnt, hf, hv]

/-- `read`: a SUBSCRIBED that is accepted starts a round whose answer covers every orphan the master can
    report; the others are `missed`. -/
theorem orphanV_read (c : Cfg) (hc : Sound c) (s : St) (hid : List Nat) (mu : Bool) (m : List Nat)
    (hA : InvA s) (hB : InvB c s) (h : OrphanInv c s m) :
    OrphanInv c (step c (worldOf hid mu) s .read)
      (if s.accepts c then (if mu || !c.reconcileOnSubscribed then s.tasks.map (·.id) else hid) else m) := by
  obtain ⟨hs1, hs2, hs3, hs4, hs5, hs6, hs7⟩ := hc
  obtain ⟨a1, a2, a3, a4, a5, a6⟩ := hA
  obtain ⟨b1, b3, bt, b4, b5, b6, b7, b8⟩ := hB
  by_cases hal : s.alive = true
  case neg =>
    intro ha'; simp [step, hal] at ha'
  cases hh : s.hello with
  | some f =>
    by_cases herr : (s.fidMem.isSome && s.fidMem != some f && c.failover) = true
    · intro ha'; simp [step, hal, hh, herr, St.exit] at ha'
    · have hacc : s.accepts c = true := by simp [St.accepts, hh, hal, herr]
      intro ha' hs' t ht hlt hk
      have htasks : (step c (worldOf hid mu) s .read).tasks = s.tasks := by
        simp [step, hal, hh, herr, hs4]; split <;> rfl
      have hlife : (step c (worldOf hid mu) s .read).life = s.life := by
        simp [step, hal, hh, herr, hs4]; split <;> rfl
      have hq : (step c (worldOf hid mu) s .read).queue = s.queue ++ answerOf (worldOf hid mu) s.recons f s.tasks := by
        simp [step, hal, hh, herr, hs4]
      rw [htasks] at ht
      have hfid : t.fid = f := by
        have := b4 t ht
        have := a3 f hh
        have := b5 hal
        have := a4 t.fid (b4 t ht)
        grind
      simp only [hacc, if_true, hs4, Bool.not_true, Bool.or_false]
      by_cases hmu : mu = true
      · right; right; right
        simp only [hmu, if_true]
        exact List.mem_map.mpr ⟨t, ht, rfl⟩
      · by_cases hhid : t.id ∈ hid
        · right; right; right
          simp only [hmu]; exact hhid
        · right; left
          refine ⟨t.state, hk, Or.inl ?_⟩
          rw [hq]
          refine List.mem_append.mpr (Or.inr (mem_answerOf_vis _ _ _ _ t ht (hs6 _ hk) hfid ?_))
          simp [worldOf, hmu, hhid]
  | none =>
    have hacc : s.accepts c = false := by simp [St.accepts, hh]
    simp only [hacc, Bool.false_eq_true, if_false]
    cases hq : s.queue with
    | nil =>
      have e : step c (worldOf hid mu) s .read = s := by simp [step, hal, hh, hq]
      rw [e]; exact h
    | cons u rest =>
      have e : step c (worldOf hid mu) s .read = { s with queue := rest, inbox := s.inbox ++ [u] } := by
        simp [step, hal, hh, hq]
      rw [e]
      intro ha' hs' t ht hlt hk
      simp only [] at ht hlt hs' ha' ⊢
      rcases h ha' hs' t ht hlt hk with h1 | ⟨st, hst, h2 | h2⟩ | h3 | h4
      · simp [hh] at h1
      · right; left
        rw [hq] at h2
        rcases List.mem_cons.mp h2 with h2 | h2
        · exact ⟨st, hst, Or.inr (by simp [← h2])⟩
        · exact ⟨st, hst, Or.inl h2⟩
      · right; left; exact ⟨st, hst, Or.inr (by simp [h2])⟩
      · right; right; left; exact h3
      · right; right; right; exact h4

theorem orphanV_handle (c : Cfg) (W : World) (s : St) (m : List Nat) (hB : InvB c s) (h : OrphanInv c s m) :
    OrphanInv c (step c W s .handle) m := by
  by_cases hal : s.alive = true
  case neg => intro ha'; simp [step, hal] at ha'
  cases hi : s.inbox with
  | nil =>
    have e : step c W s .handle = s := by simp [step, hal, hi]
    rw [e]; exact h
  | cons u rest =>
    obtain ⟨t', st', r'⟩ := u
    intro ha' hs' t ht hlt hk
    have htasks : (step c W s .handle).tasks = s.tasks := by simp [step, hal, hi]; split <;> rfl
    have hlife : (step c W s .handle).life = s.life := by simp [step, hal, hi]; split <;> rfl
    have hstream : (step c W s .handle).stream = s.stream := by simp [step, hal, hi]; split <;> rfl
    have hhello : (step c W s .handle).hello = s.hello := by simp [step, hal, hi]; split <;> rfl
    have hqueue : (step c W s .handle).queue = s.queue := by simp [step, hal, hi]; split <;> rfl
    have hinbox : (step c W s .handle).inbox = rest := by simp [step, hal, hi]; split <;> rfl
    have hlog : ∀ o ∈ sinceSubscribe s.life s.log, o ∈ sinceSubscribe s.life (step c W s .handle).log := by
      intro o ho; simp [step, hal, hi]; split <;> simp [ho]; split <;> simp [ho]
    have hlog2 : ∀ o ∈ sinceReconcile s.life s.log, o ∈ sinceReconcile s.life (step c W s .handle).log := by
      intro o ho; simp [step, hal, hi]; split <;> simp [ho]; split <;> simp [ho]
    rw [htasks] at ht; rw [hlife] at hlt; rw [hstream] at hs'
    rw [hhello, hlife]
    rcases h hal hs' t ht hlt hk with h1 | ⟨st, hst, h2 | h2⟩ | h3 | h4
    · exact Or.inl h1
    · exact Or.inr (Or.inl ⟨st, hst, Or.inl (hqueue ▸ h2)⟩)
    · rw [hi] at h2
      rcases List.mem_cons.mp h2 with h2 | h2
      · -- this very message is handled now: KILL
        right; right; left
        injection h2 with e1 e2; injection e2 with e2 e3
        subst e1 e2 e3
        have hnr := not_inRoster_of_old c s hB t ht hlt
        refine ⟨lockedIn s.roster t.id || heldBy s.held t.id, ?_, ?_⟩ <;>
          simp [step, hal, hi, hst, hnr, hs']
      · exact Or.inr (Or.inl ⟨st, hst, Or.inr (hinbox ▸ h2)⟩)
    · exact Or.inr (Or.inr (Or.inl (h3.mono hlog hlog2)))
    · exact Or.inr (Or.inr (Or.inr h4))

/-- every base step other than `read` and `snapshot`, for every world -/
theorem orphanV_step (c : Cfg) (W : World) (s : St) (x : Step) (m : List Nat)
    (hx : x ≠ .read) (hB : InvB c s) (h : OrphanInv c s m) : OrphanInv c (step c W s x) m := by
  cases x with
  | read => exact absurd rfl hx
  | handle => exact orphanV_handle c W s m hB h
  | coreStart => have := hB.dead; unfold OrphanInv at *; grind [step, St.exit]
  | coreKill => unfold OrphanInv at *; grind [step, St.exit]
  | coreTerm => unfold OrphanInv at *; grind [step, St.exit]
  | subscribe => unfold OrphanInv at *; grind [step, St.exit]
  | drop => unfold OrphanInv at *; grind [step, St.exit]
  | reconUpdate t st =>
    by_cases hs : s.stream.isSome = true
    · apply orphanV_frame c s _ m h <;> simp [step, hs] <;> grind
    · have e : step c W s (.reconUpdate t st) = s := by simp [step, hs]
      rw [e]; exact h
  | snapshot =>
    by_cases hs : (s.alive && s.connected && s.queue.isEmpty && s.inbox.isEmpty) = true
    · apply orphanV_frame c s _ m h <;> simp [step, hs] <;> grind
    · have e : step c W s .snapshot = s := by simp [step, hs]
      rw [e]; exact h
  | release e =>
    by_cases hal : s.alive = true
    · by_cases hs : s.stream.isSome = true
      · apply orphanV_frame c s _ m h <;> simp [step, hs, hal, sinceSubscribe_killsFor, sinceReconcile_killsFor] <;> grind
      · apply orphanV_frame c s _ m h <;> simp [step, hs, hal]
    · have e : step c W s (.release e) = s := by simp [step, hal]
      rw [e]; exact h
  | releaseBegin e =>
    by_cases hal : s.alive = true
    · apply orphanV_frame c s _ m h <;> simp [step, hal]
    · have e' : step c W s (.releaseBegin e) = s := by simp [step, hal]
      rw [e']; exact h
  | releaseEnd e =>
    by_cases hal : s.alive = true
    · cases hf : s.tearing.find? (fun d => d.env == e) with
      | none =>
        have e' : step c W s (.releaseEnd e) = s := by simp [step, hal, hf]
        rw [e']; exact h
      | some d =>
        by_cases hs : s.stream.isSome = true
        · apply orphanV_frame c s _ m h <;> simp [step, hs, hal, hf, sinceSubscribe_killsFor, sinceReconcile_killsFor] <;> grind
        · apply orphanV_frame c s _ m h <;> simp [step, hs, hal, hf]
    · have e' : step c W s (.releaseEnd e) = s := by simp [step, hal]
      rw [e']; exact h
  | launch e t' =>
    cases hst : s.stream with
    | none =>
      have e' : step c W s (.launch e t') = s := by simp [step, hst]
      rw [e']; exact h
    | some f =>
      by_cases hen : (!s.alive || s.hello.isSome || s.seen.contains t') = true
      · have heq : step c W s (.launch e t') = s := by simp only [step, hst, hen]; rfl
        rw [heq]; exact h
      · intro ha' hs' t ht hlt hk
        have heq : step c W s (.launch e t') = { s with roster := s.roster ++ [{ id := t', env := e, locked := true, active := false }], held := s.held ++ [(t', e)], tasks := s.tasks ++ [{ id := t', fid := f, life := s.life, env := e, state := .staging }], seen := t' :: s.seen } := by simp only [step, hst, hen]; rfl
        rw [heq] at ht hlt ha' hs' ⊢
        simp only [] at ht hlt ha' hs' ⊢
        rcases List.mem_append.mp ht with ht | ht
        · exact h ha' hs' t ht hlt hk
        · simp at ht; subst ht; simp at hlt
  | status t' st =>
    cases hf : s.tasks.find? (fun x => x.id == t') with
    | none =>
      have e' : step c W s (.status t' st) = s := by simp [step, hf]
      rw [e']; exact h
    | some x =>
      by_cases hterm : x.state.terminal = true
      · have e' : step c W s (.status t' st) = s := by simp [step, hf, hterm]
        rw [e']; exact h
      · intro ha' hs' t ht hlt hk
        have heq : step c W s (.status t' st) = { s with tasks := s.tasks.map (fun y => if y.id == t' && !y.state.terminal then { y with state := st } else y), queue := (if s.stream == some x.fid then s.queue ++ [(t', st, .none)] else s.queue) } := by
          simp only [step, hf, hterm]; rfl
        rw [heq] at ht hlt ha' hs' ⊢
        simp only [] at ht hlt ha' hs' ⊢
        obtain ⟨t0, ht0, rfl⟩ := List.mem_map.mp ht
        have hold : t0.life < s.life ∧ c.killable t0.state = true := by
          by_cases hid : (t0.id == t' && !t0.state.terminal) = true
          · simp only [hid, if_true] at hlt hk
            refine ⟨hlt, ?_⟩
            rcases hB.states t0 ht0 with h1 | h1
            · simp [h1] at hid
            · exact h1
          · simp only [hid] at hlt hk; exact ⟨hlt, hk⟩
        have hid' : (if (t0.id == t' && !t0.state.terminal) = true then { t0 with state := st } else t0).id = t0.id := by
          split <;> rfl
        rw [hid']
        rcases h ha' hs' t0 ht0 hold.1 hold.2 with h1 | ⟨st1, hst1, h2 | h2⟩ | h3 | h4
        · exact Or.inl h1
        · refine Or.inr (Or.inl ⟨st1, hst1, Or.inl ?_⟩); split <;> simp [h2]
        · exact Or.inr (Or.inl ⟨st1, hst1, Or.inr h2⟩)
        · exact Or.inr (Or.inr (Or.inl h3))
        · exact Or.inr (Or.inr (Or.inr h4))

/-- the orphan invariant of the layered model -/
def InvV (c : Cfg) (r : RSt) : Prop := OrphanInv c r.base r.missed

theorem invV_init (c : Cfg) (kv0 : Option Nat) : InvV c (rinit kv0) := by
  intro ha; cases kv0 <;> simp [rinit, init] at ha

theorem invV_rstep (c : Cfg) (hc : Sound c) (r : RSt) (x : RStep)
    (hA : InvA r.base) (hB : InvB c r.base) (h : InvV c r) : InvV c (rstep c r x) := by
  cases x with
  | hide t => exact h
  | unhide t => exact h
  | mute => exact h
  | unmute => exact h
  | base y =>
    cases y with
    | read =>
      have := orphanV_read c hc r.base r.hidden r.muted r.missed hA hB h
      unfold InvV
      by_cases hacc : r.base.accepts c = true
      · simpa [rstep, hacc] using this
      · simpa [rstep, hacc] using this
    | snapshot =>
      unfold InvV
      by_cases hq : r.base.quiescent = true
      · simp only [rstep, hq, if_true]
        apply orphanV_frame c r.base _ r.missed h <;> simp <;> grind
      · have e : rstep c r (.base .snapshot) = r := by simp [rstep, hq]
        rw [e]; exact h
    | subscribe =>
      have := orphanV_step c World.complete r.base .subscribe r.missed (by simp) hB h
      unfold InvV; simp only [rstep]; split <;> exact this
    | coreStart => exact orphanV_step c World.complete r.base _ r.missed (by simp) hB h
    | coreKill => exact orphanV_step c World.complete r.base _ r.missed (by simp) hB h
    | coreTerm => exact orphanV_step c World.complete r.base _ r.missed (by simp) hB h
    | drop => exact orphanV_step c World.complete r.base _ r.missed (by simp) hB h
    | handle => exact orphanV_step c World.complete r.base _ r.missed (by simp) hB h
    | launch e t => exact orphanV_step c World.complete r.base _ r.missed (by simp) hB h
    | status t st => exact orphanV_step c World.complete r.base _ r.missed (by simp) hB h
    | reconUpdate t st => exact orphanV_step c World.complete r.base _ r.missed (by simp) hB h
    | release e => exact orphanV_step c World.complete r.base _ r.missed (by simp) hB h
    | releaseBegin e => exact orphanV_step c World.complete r.base _ r.missed (by simp) hB h
    | releaseEnd e => exact orphanV_step c World.complete r.base _ r.missed (by simp) hB h

/-- a non-snapshot entry in front of the log does not change the per-subscription predicate -/
theorem eachSubscription_base_step (c : Cfg) (W : World) (s : St) (x : Step) (hx : x ≠ .snapshot)
    (h : orphansKilledEachSubscription s.log = true) :
    orphansKilledEachSubscription (step c W s x).log = true := by
  cases x with
  | snapshot => exact absurd rfl hx
  | coreStart => grind [step, St.exit]
  | coreKill => grind [step, St.exit]
  | coreTerm => grind [step, St.exit, eachSubscription_killsFor]
  | subscribe => grind [step, St.exit, orphansKilledEachSubscription]
  | drop => grind [step, St.exit]
  | read => grind [step, St.exit, orphansKilledEachSubscription]
  | handle => grind [step, St.exit, orphansKilledEachSubscription]
  | launch e t => grind [step, St.exit]
  | status t st => grind [step, St.exit]
  | reconUpdate t st => grind [step, St.exit]
  | release e => grind [step, St.exit, eachSubscription_killsFor]
  | releaseBegin e => grind [step, St.exit]
  | releaseEnd e =>
    by_cases hal : s.alive = true
    · cases hf : s.tearing.find? (fun d => d.env == e) with
      | none => simpa [step, hal, hf] using h
      | some d =>
        by_cases hs : s.stream.isSome = true
        · simpa [step, hal, hf, hs] using eachSubscription_killsFor _ _ _ _ h
        · simpa [step, hal, hf, hs] using h
    · simpa [step, hal] using h

/-- … nor the per-round one -/
theorem eachRound_base_step (c : Cfg) (W : World) (s : St) (x : Step) (hx : x ≠ .snapshot)
    (h : orphansKilledEachRound s.log = true) :
    orphansKilledEachRound (step c W s x).log = true := by
  cases x with
  | snapshot => exact absurd rfl hx
  | coreStart => grind [step, St.exit]
  | coreKill => grind [step, St.exit]
  | coreTerm => grind [step, St.exit, eachRound_killsFor]
  | subscribe => grind [step, St.exit, orphansKilledEachRound]
  | drop => grind [step, St.exit]
  | read => grind [step, St.exit, orphansKilledEachRound]
  | handle => grind [step, St.exit, orphansKilledEachRound]
  | launch e t => grind [step, St.exit]
  | status t st => grind [step, St.exit]
  | reconUpdate t st => grind [step, St.exit]
  | release e => grind [step, St.exit, eachRound_killsFor]
  | releaseBegin e => grind [step, St.exit]
  | releaseEnd e =>
    by_cases hal : s.alive = true
    · cases hf : s.tearing.find? (fun d => d.env == e) with
      | none => simpa [step, hal, hf] using h
      | some d =>
        by_cases hs : s.stream.isSome = true
        · simpa [step, hal, hf, hs] using eachRound_killsFor _ _ _ _ h
        · simpa [step, hal, hf, hs] using h
    · simpa [step, hal] using h

/-- Both orphan predicates of the Spec, together. -/
def OrphanSpec (log : List Out) : Prop :=
  orphansKilledEachSubscription log = true ∧ orphansKilledEachRound log = true

/-- They are preserved by a step that satisfies `lateOk`: at a snapshot, every orphan the master reports is
    covered by a KILL since the latest SUBSCRIBE and since the latest RECONCILE — or it is in `missed`, which
    `lateOk` excludes. -/
theorem orphanSpec_rstep (c : Cfg) (r : RSt) (x : RStep) (hV : InvV c r) (hl : lateOk c r x = true)
    (h : OrphanSpec r.base.log) : OrphanSpec (rstep c r x).base.log := by
  rcases rstep_base_cases c r x with e | ⟨hq, hx, e⟩ | ⟨W, y, hx, hy, e⟩
  · rw [e]; exact h
  · rw [e]
    simp only [OrphanSpec, orphansKilledEachSubscription, orphansKilledEachRound, h.1, h.2, Bool.and_true]
    subst hx
    simp only [lateOk, hq, Bool.not_true, Bool.false_or] at hl
    have hq' := hq
    simp only [St.quiescent, St.connected, Bool.and_eq_true, List.isEmpty_iff, Option.isNone_iff_eq_none] at hq'
    obtain ⟨⟨⟨hal, hst, hh⟩, hqu⟩, hin⟩ := hq'
    have key : ∀ t ∈ visibleOrphans c r, KilledS r.base.log r.base.life t := by
      intro t ht
      have hnm := List.all_eq_true.mp hl t ht
      simp only [visibleOrphans, orphans, List.mem_filter, List.mem_map, Bool.and_eq_true, decide_eq_true_eq] at ht
      obtain ⟨⟨mt, ⟨hmt, hlt, hk⟩, rfl⟩, _⟩ := ht
      rcases hV hal hst mt hmt hlt hk with h1 | ⟨st, _, h2 | h2⟩ | h3 | h4
      · simp [hh] at h1
      · simp [hqu] at h2
      · simp [hin] at h2
      · exact h3
      · simp [h4] at hnm
    exact ⟨List.all_eq_true.mpr (fun t ht => (key t ht).any), List.all_eq_true.mpr (fun t ht => (key t ht).anyR)⟩
  · rw [e]; exact ⟨eachSubscription_base_step c W r.base y hy h.1, eachRound_base_step c W r.base y hy h.2⟩

/-- everything that holds of every reachable state of the layered model (complete or not the answers) -/
structure RInv (c : Cfg) (r : RSt) : Prop where
  a : InvA r.base
  b : InvB c r.base
  v : InvV c r

theorem rinv_init (c : Cfg) (kv0 : Option Nat) : RInv c (rinit kv0) :=
  ⟨invA_init kv0, invB_init c kv0, invV_init c kv0⟩

theorem rinv_rstep (c : Cfg) (hc : Sound c) (r : RSt) (x : RStep) (hx : rstepOk c x = true) (h : RInv c r) :
    RInv c (rstep c r x) :=
  ⟨invA_rstep c hc.seed hc.failover r x h.a, invB_rstep c hc r x hx h.a h.b, invV_rstep c hc r x h.a h.b h.v⟩

theorem rinv_rrun (c : Cfg) (hc : Sound c) (h : List RStep) (hh : h.all (rstepOk c) = true) (r : RSt) (hr : RInv c r) :
    RInv c (rrun c h r) := by
  induction h generalizing r with
  | nil => exact hr
  | cons x xs ih =>
    simp only [List.all_cons, Bool.and_eq_true] at hh
    exact ih hh.2 _ (rinv_rstep c hc r x hh.1 hr)

theorem orphanSpec_rrun (c : Cfg) (hc : Sound c) (h : List RStep) (hh : h.all (rstepOk c) = true) (r : RSt)
    (hr : RInv c r) (hno : noLateOrphans c h r = true) (hs : OrphanSpec r.base.log) :
    OrphanSpec (rrun c h r).base.log := by
  induction h generalizing r with
  | nil => exact hs
  | cons x xs ih =>
    simp only [List.all_cons, Bool.and_eq_true] at hh
    simp only [noLateOrphans, Bool.and_eq_true] at hno
    exact ih hh.2 _ (rinv_rstep c hc r x hh.1 hr) hno.2 (orphanSpec_rstep c r x hr.v hno.1 hs)

theorem orphanSpec_init (kv0 : Option Nat) : OrphanSpec (rinit kv0).base.log := by
  cases kv0 <;> simp [OrphanSpec, rinit, init, orphansKilledEachSubscription, orphansKilledEachRound]

/-! ### identity over reconnections -/

theorem identityKept_acceptHead (subs : List Sub) : identityKept (acceptHead subs) = identityKept subs := by
  cases subs with
  | nil => rfl
  | cons y ys => simp [acceptHead, identityKept]

structure InvS (r : RSt) : Prop where
  /-- the id in memory of a live core is the persisted one -/
  mem : r.base.alive = true → r.base.fidMem = r.base.kv
  hello : ∀ g, r.base.hello = some g → r.base.stream = some g
  /-- the newest SUBSCRIBE is the connected stream -/
  head : ∀ g, r.base.stream = some g → ∃ y ys, r.subs = y :: ys ∧ y.assigned = g
  /-- an accepted SUBSCRIBE was assigned the persisted id -/
  acc : ∀ y ∈ r.subs, y.accepted = true → r.base.kv = some y.assigned
  kept : identityKept r.subs = true
  one : oneFramework r.subs = true

theorem invS_init (kv0 : Option Nat) : InvS (rinit kv0) := by
  cases kv0 <;> constructor <;> simp [rinit, init, identityKept, oneFramework]

/-- what a base step does to the identity fields, for every world: the persisted id and the id in memory only
    change when a SUBSCRIBED is accepted (then both become the id of the stream), a new life reads the persisted
    id, the stream only comes up by `subscribe`. -/
theorem identity_fields_step (c : Cfg) (W : World) (hseed : c.seedFid = true)
    (s : St) (x : Step) (hx1 : x ≠ .read) (hx2 : x ≠ .subscribe)
    (hmem : s.alive = true → s.fidMem = s.kv) (hhello : ∀ g, s.hello = some g → s.stream = some g) :
    (step c W s x).kv = s.kv ∧ ((step c W s x).alive = true → (step c W s x).fidMem = (step c W s x).kv) ∧
    (∀ g, (step c W s x).hello = some g → (step c W s x).stream = some g) ∧
    ((step c W s x).stream = s.stream ∨ (step c W s x).stream = none) := by
  cases x with
  | read => exact absurd rfl hx1
  | subscribe => exact absurd rfl hx2
  | coreStart => grind [step, St.exit]
  | coreKill => grind [step, St.exit]
  | coreTerm => grind [step, St.exit]
  | drop => grind [step, St.exit]
  | handle => grind [step, St.exit]
  | launch e t => grind [step, St.exit]
  | status t st => grind [step, St.exit]
  | reconUpdate t st => grind [step, St.exit]
  | release e => grind [step, St.exit]
  | releaseBegin e => grind [step, St.exit]
  | releaseEnd e => grind [step, St.exit]
  | snapshot => grind [step, St.exit]

theorem invS_rstep (c : Cfg) (hseed : c.seedFid = true) (hpers : c.persistFid = true) (hfo : c.failover = true)
    (r : RSt) (x : RStep) (h : InvS r) : InvS (rstep c r x) := by
  obtain ⟨h1, h2, h3, h4, h5, h6⟩ := h
  cases x with
  | hide t => exact ⟨h1, h2, h3, h4, h5, h6⟩
  | unhide t => exact ⟨h1, h2, h3, h4, h5, h6⟩
  | mute => exact ⟨h1, h2, h3, h4, h5, h6⟩
  | unmute => exact ⟨h1, h2, h3, h4, h5, h6⟩
  | base y =>
    by_cases hy1 : y = .read
    · subst hy1
      by_cases hal : r.base.alive = true
      case neg =>
        have hacc : r.base.accepts c = false := by
          simp only [St.accepts]; split <;> simp [hal]
        have e : step c (worldOf r.hidden r.muted) r.base .read = r.base := by simp [step, hal]
        simp only [rstep, hacc, Bool.false_eq_true, if_false, e]
        exact ⟨h1, h2, h3, h4, h5, h6⟩
      cases hh : r.base.hello with
      | none =>
        have hacc : r.base.accepts c = false := by simp [St.accepts, hh]
        simp only [rstep, hacc, Bool.false_eq_true, if_false]
        cases hq : r.base.queue with
        | nil =>
          have e : step c (worldOf r.hidden r.muted) r.base .read = r.base := by simp [step, hal, hh, hq]
          rw [e]; exact ⟨h1, h2, h3, h4, h5, h6⟩
        | cons u rest =>
          have e : step c (worldOf r.hidden r.muted) r.base .read =
              { r.base with queue := rest, inbox := r.base.inbox ++ [u] } := by simp [step, hal, hh, hq]
          rw [e]; exact ⟨h1, h2, h3, h4, h5, h6⟩
      | some f =>
        have hstr := h2 f hh
        obtain ⟨y0, ys, hsubs, hass⟩ := h3 f hstr
        have hmemkv := h1 hal
        by_cases herr : (r.base.fidMem.isSome && r.base.fidMem != some f && c.failover) = true
        · have hacc : r.base.accepts c = false := by simp [St.accepts, hh, hal, herr]
          have e : step c (worldOf r.hidden r.muted) r.base .read =
              { r.base.exit with log := .stateError r.base.life :: r.base.log } := by
            simp [step, hal, hh, herr]
          simp only [rstep, hacc, Bool.false_eq_true, if_false, e]
          refine ⟨by simp [St.exit], by simp [St.exit], by simp [St.exit], ?_, h5, h6⟩
          simpa [St.exit] using h4
        · have hacc : r.base.accepts c = true := by simp [St.accepts, hh, hal, herr]
          -- nothing was in memory, or the id of this very stream
          have hcase : r.base.fidMem = none ∨ r.base.fidMem = some f := by
            cases hm : r.base.fidMem with
            | none => exact Or.inl rfl
            | some g =>
              right
              simp only [hm, hfo, Option.isSome_some, Bool.true_and, Bool.and_true, bne_iff_ne, ne_eq,
                Decidable.not_not] at herr
              exact herr
          have hkv' : (step c (worldOf r.hidden r.muted) r.base .read).kv = some f := by
            rcases hcase with hn | hsf
            · simp [step, hal, hh, hn, hpers]; split <;> rfl
            · have : r.base.kv = some f := by rw [← hmemkv]; exact hsf
              simp [step, hal, hh, hsf, hfo]; split <;> simp [this]
          have hmem' : (step c (worldOf r.hidden r.muted) r.base .read).fidMem = some f := by
            rcases hcase with hn | hsf
            · simp [step, hal, hh, hn]; split <;> rfl
            · simp [step, hal, hh, hsf, hfo]; split <;> simp
          have hstream' : (step c (worldOf r.hidden r.muted) r.base .read).stream = some f := by
            rcases hcase with hn | hsf
            · simp [step, hal, hh, hn]; split <;> simp [hstr]
            · simp [step, hal, hh, hsf, hfo]; split <;> simp [hstr]
          have hhello' : (step c (worldOf r.hidden r.muted) r.base .read).hello = none := by
            rcases hcase with hn | hsf
            · simp [step, hal, hh, hn]; split <;> rfl
            · simp [step, hal, hh, hsf, hfo]; split <;> rfl
          have hold : ∀ z ∈ r.subs, z.accepted = true → z.assigned = f := by
            intro z hz hza
            have hk := h4 z hz hza
            rw [← hmemkv] at hk
            rcases hcase with hn | hsf
            · rw [hn] at hk; cases hk
            · rw [hsf] at hk; injection hk with hk; exact hk.symm
          simp only [rstep, hacc, if_true, hsubs, acceptHead]
          refine ⟨fun _ => by rw [hmem', hkv'], by simp [hhello'], ?_, ?_, ?_, ?_⟩
          · intro g hg; rw [hstream'] at hg; injection hg with hg
            exact ⟨_, ys, rfl, by simp [hass, hg]⟩
          · intro z hz hza
            rw [hkv']
            rcases List.mem_cons.mp hz with rfl | hz
            · simp [hass]
            · rw [hold z (by rw [hsubs]; exact List.mem_cons_of_mem _ hz) hza]
          · have := identityKept_acceptHead r.subs
            rw [hsubs] at this; simp only [acceptHead] at this; rw [this, ← hsubs]; exact h5
          · rw [hsubs] at h6
            simp only [oneFramework, Bool.and_eq_true] at h6 ⊢
            refine ⟨?_, h6.2⟩
            simp only [Bool.not_true, Bool.false_or, List.all_eq_true, Bool.or_eq_true, Bool.not_eq_true', beq_iff_eq]
            intro z hz
            cases hza : z.accepted with
            | false => exact Or.inl rfl
            | true => exact Or.inr (by rw [hold z (by rw [hsubs]; exact List.mem_cons_of_mem _ hz) hza, hass])
    · by_cases hy2 : y = .subscribe
      · subst hy2
        by_cases hen : (r.base.alive && !r.base.stream.isSome) = true
        · simp only [Bool.and_eq_true, Bool.not_eq_true', Option.isSome_eq_false_iff, Option.isNone_iff_eq_none] at hen
          obtain ⟨hal, hst⟩ := hen
          have hmemkv := h1 hal
          have hhel : r.base.hello = none := by
            cases hh : r.base.hello with
            | none => rfl
            | some g => have := h2 g hh; rw [hst] at this; cases this
          simp only [rstep, hal, hst, Option.isSome_none, Bool.not_false, Bool.and_self, if_true, hfo]
          cases hf : r.base.fidMem with
          | some f =>
            have e : step c World.complete r.base .subscribe =
                { r.base with stream := some f, hello := some f, queue := [],
                              log := .subscribe r.base.life (some f) :: r.base.log } := by
              simp [step, hal, hst, hfo, hf]
            rw [e]
            refine ⟨by simpa using h1, by simp, by simp, ?_, ?_, ?_⟩
            · intro z hz hza
              rcases List.mem_cons.mp hz with rfl | hz
              · simp at hza
              · exact h4 z hz hza
            · simp only [identityKept, h5, Bool.and_true]
              cases hfind : r.subs.find? (·.accepted) with
              | none => rfl
              | some z =>
                have hz := List.mem_of_find?_eq_some hfind
                have hza := List.find?_some hfind
                have := h4 z hz hza
                rw [← hmemkv, hf] at this; injection this with this
                simp [this]
            · simp [oneFramework, h6]
          | none =>
            have e : step c World.complete r.base .subscribe =
                { r.base with stream := some r.base.nextFid, hello := some r.base.nextFid, queue := [],
                              nextFid := r.base.nextFid + 1,
                              log := .subscribe r.base.life none :: r.base.log } := by
              simp [step, hal, hst, hfo, hf]
            rw [e]
            refine ⟨by simpa using h1, by simp, by simp, ?_, ?_, ?_⟩
            · intro z hz hza
              rcases List.mem_cons.mp hz with rfl | hz
              · simp at hza
              · exact h4 z hz hza
            · simp only [identityKept, h5, Bool.and_true]
              cases hfind : r.subs.find? (·.accepted) with
              | none => rfl
              | some z =>
                have hz := List.mem_of_find?_eq_some hfind
                have hza := List.find?_some hfind
                have := h4 z hz hza
                rw [← hmemkv, hf] at this; cases this
            · simp [oneFramework, h6]
        · have e : step c World.complete r.base .subscribe = r.base := by
            simp only [Bool.and_eq_true, Bool.not_eq_true', not_and, Bool.not_eq_false] at hen
            by_cases hal : r.base.alive = true
            · simp [step, hal, hen hal]
            · simp [step, hal]
          simp only [rstep, hen, Bool.false_eq_true, if_false, e]
          exact ⟨h1, h2, h3, h4, h5, h6⟩
      · -- every other base step, and the snapshot of the layer
        have key : ∀ s' : St, s'.kv = r.base.kv → (s'.alive = true → s'.fidMem = s'.kv) →
            (∀ g, s'.hello = some g → s'.stream = some g) → (s'.stream = r.base.stream ∨ s'.stream = none) →
            InvS { r with base := s' } := by
          intro s' e1 e2 e3 e4
          refine ⟨e2, e3, ?_, ?_, h5, h6⟩
          · intro g hg
            rcases e4 with e4 | e4
            · exact h3 g (e4 ▸ hg)
            · rw [e4] at hg; cases hg
          · intro z hz hza; rw [e1]; exact h4 z hz hza
        by_cases hy3 : y = .snapshot
        · subst hy3
          by_cases hq : r.base.quiescent = true
          · simp only [rstep, hq, if_true]
            exact key _ rfl h1 h2 (Or.inl rfl)
          · simp only [rstep, hq, Bool.false_eq_true, if_false]
            exact ⟨h1, h2, h3, h4, h5, h6⟩
        · have hf := identity_fields_step c World.complete hseed r.base y hy1 hy2 h1 h2
          have e : rstep c r (.base y) = { r with base := step c World.complete r.base y } := by
            cases y <;> first | rfl | exact absurd rfl hy1 | exact absurd rfl hy2 | exact absurd rfl hy3
          rw [e]
          exact key _ hf.1 hf.2.1 hf.2.2.1 hf.2.2.2

theorem invS_rrun (c : Cfg) (hseed : c.seedFid = true) (hpers : c.persistFid = true) (hfo : c.failover = true)
    (h : List RStep) (r : RSt) (hr : InvS r) : InvS (rrun c h r) :=
  rrun_preserves c (fun r x hr => invS_rstep c hseed hpers hfo r x hr) h r hr

/-! ### log predicates that do not care about the layer -/

theorem ownedSpared_snap (l os) (log : List Out) : ownedSpared (.snap l os :: log) = ownedSpared log := by
  simp [ownedSpared]

theorem updatesNeverKill_snap (l os) (log : List Out) : updatesNeverKill (.snap l os :: log) = updatesNeverKill log := by
  simp [updatesNeverKill]

end Reconcile
