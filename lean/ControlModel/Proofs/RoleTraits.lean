/-
  Proofs/RoleTraits — lemmas behind the hook/traits theorems of Props/C11 (core only).

  Everything of Model/RoleTraits.lean and Spec/C11Traits.lean is the plain function of
  Model/RoleTree.lean / Spec/C11.lean after `forget`; so the invariants of Proofs/RoleTree.lean
  carry over to trees with hooks.
-/
import ControlModel.Model.RoleTraits
import ControlModel.Spec.C11Traits
import ControlModel.Proofs.RoleTree

namespace RoleTree
open TForest TState TStatus

theorem skipped_eq (c : Bool) (tr : Traits) : skipped c tr = !tr.crit := by
  cases c <;> rfl

theorem forwards_eq (c : Bool) (tr : Traits) : forwards c tr = tr.crit := by
  cases tr with
  | mk k h => cases k <;> rfl

/-! ### model functions commute with `forget` -/

theorem aggStateFromT_forget (acc : TState) (f : TForest) :
    aggStateFromT acc f = aggStateFrom acc (forget f) := by
  induction f generalizing acc with
  | nil => rfl
  | leaf c tr st su next ih =>
    simp only [aggStateFromT, forget, aggStateFrom, skipped_eq]
    cases tr.crit <;> simp [ih]
  | agg st su kids next _ ih => simp only [aggStateFromT, forget, aggStateFrom, ih]

theorem aggregateStateT_forget (f : TForest) : aggregateStateT f = aggregateState (forget f) :=
  aggStateFromT_forget _ f

theorem aggStatusFromT_forget (acc : TStatus) (f : TForest) :
    aggStatusFromT acc f = aggStatusFrom acc (forget f) := by
  induction f generalizing acc with
  | nil => rfl
  | leaf c tr st su next ih => simp only [aggStatusFromT, forget, aggStatusFrom, ih]
  | agg st su kids next _ ih => simp only [aggStatusFromT, forget, aggStatusFrom, ih]

theorem aggregateStatusT_forget (f : TForest) : aggregateStatusT f = aggregateStatus (forget f) := by
  cases f with
  | nil => rfl
  | leaf c tr st su next => exact aggStatusFromT_forget su next
  | agg st su kids next => exact aggStatusFromT_forget su next

theorem mergeStateT_forget (a s : TState) (f : TForest) : mergeStateT a s f = mergeState a s (forget f) := by
  simp only [mergeStateT, mergeState, aggregateStateT_forget]

theorem mergeStatusT_forget (a s : TStatus) (f : TForest) : mergeStatusT a s f = mergeStatus a s (forget f) := by
  simp only [mergeStatusT, mergeStatus, aggregateStatusT_forget]

theorem updStateT_forget (f : TForest) (p : List Nat) (s : TState) :
    forget (updStateT f p s).1 = (updState (forget f) p s).1 ∧
    (updStateT f p s).2 = (updState (forget f) p s).2 := by
  fun_induction updStateT f p s with
  | case1 => simp [forget, updState]
  | case2 f s hne =>
    cases f with
    | nil => exact absurd rfl hne
    | leaf => simp [forget, updState]
    | agg => simp [forget, updState]
  | case3 c tr st su next s => simp [forget, updState, forwards_eq]
  | case4 c tr st su next a b s => simp [forget, updState]
  | case5 c tr st su next i rest s r ih =>
    have ih' : forget r.1 = (updState (forget next) (i :: rest) s).1 ∧
        r.2 = (updState (forget next) (i :: rest) s).2 := ih
    simp [forget, updState, ih'.1, ih'.2]
  | case6 st su kids next rest s r hnone ih =>
    have ih' : forget r.1 = (updState (forget kids) rest s).1 ∧
        r.2 = (updState (forget kids) rest s).2 := ih
    have h2 : (updState (forget kids) rest s).2 = none := by rw [← ih'.2]; exact hnone
    simp only [forget, updState, h2]
    exact ⟨by rw [ih'.1], trivial⟩
  | case7 st su kids next rest s r v hsome st' ih =>
    have ih' : forget r.1 = (updState (forget kids) rest s).1 ∧
        r.2 = (updState (forget kids) rest s).2 := ih
    have h2 : (updState (forget kids) rest s).2 = some v := by rw [← ih'.2]; exact hsome
    have hst : st' = mergeState st v (updState (forget kids) rest s).1 := by
      show mergeStateT st v r.1 = _
      rw [mergeStateT_forget, ih'.1]
    simp only [forget, updState, h2]
    exact ⟨by rw [ih'.1, hst], by rw [hst]⟩
  | case8 st su kids next i rest s r ih =>
    have ih' : forget r.1 = (updState (forget next) (i :: rest) s).1 ∧
        r.2 = (updState (forget next) (i :: rest) s).2 := ih
    simp [forget, updState, ih'.1, ih'.2]

theorem updStatusT_forget (f : TForest) (p : List Nat) (s : TStatus) :
    forget (updStatusT f p s).1 = (updStatus (forget f) p s).1 ∧
    (updStatusT f p s).2 = (updStatus (forget f) p s).2 := by
  fun_induction updStatusT f p s with
  | case1 => simp [forget, updStatus]
  | case2 f s hne =>
    cases f with
    | nil => exact absurd rfl hne
    | leaf => simp [forget, updStatus]
    | agg => simp [forget, updStatus]
  | case3 c tr st su next s => simp [forget, updStatus]
  | case4 c tr st su next a b s => simp [forget, updStatus]
  | case5 c tr st su next i rest s r ih =>
    have ih' : forget r.1 = (updStatus (forget next) (i :: rest) s).1 ∧
        r.2 = (updStatus (forget next) (i :: rest) s).2 := ih
    simp [forget, updStatus, ih'.1, ih'.2]
  | case6 st su kids next rest s r hnone ih =>
    have ih' : forget r.1 = (updStatus (forget kids) rest s).1 ∧
        r.2 = (updStatus (forget kids) rest s).2 := ih
    have h2 : (updStatus (forget kids) rest s).2 = none := by rw [← ih'.2]; exact hnone
    simp only [forget, updStatus, h2]
    exact ⟨by rw [ih'.1], trivial⟩
  | case7 st su kids next rest s r v hsome su' ih =>
    have ih' : forget r.1 = (updStatus (forget kids) rest s).1 ∧
        r.2 = (updStatus (forget kids) rest s).2 := ih
    have h2 : (updStatus (forget kids) rest s).2 = some v := by rw [← ih'.2]; exact hsome
    have hsu : su' = mergeStatus su v (updStatus (forget kids) rest s).1 := by
      show mergeStatusT su v r.1 = _
      rw [mergeStatusT_forget, ih'.1]
    simp only [forget, updStatus, h2]
    exact ⟨by rw [ih'.1, hsu], by rw [hsu]⟩
  | case8 st su kids next i rest s r ih =>
    have ih' : forget r.1 = (updStatus (forget next) (i :: rest) s).1 ∧
        r.2 = (updStatus (forget next) (i :: rest) s).2 := ih
    simp [forget, updStatus, ih'.1, ih'.2]

theorem applyUpdateT_forget (f : TForest) (u : Update) :
    forget (applyUpdateT f u) = applyUpdate (forget f) u := by
  cases u with
  | state p s => exact (updStateT_forget f (0 :: p) s).1
  | status p s => exact (updStatusT_forget f (0 :: p) s).1

theorem runT_forget (f : TForest) (us : List Update) : forget (runT f us) = run (forget f) us := by
  induction us generalizing f with
  | nil => rfl
  | cons u us ih =>
    show forget (runT (applyUpdateT f u) us) = run (applyUpdate (forget f) u) us
    rw [ih, applyUpdateT_forget]

theorem traceT_forget (f : TForest) (us : List Update) :
    (traceT f us).map forget = trace (forget f) us := by
  induction us generalizing f with
  | nil => rfl
  | cons u us ih => simp only [traceT, trace, List.map_cons, ih, applyUpdateT_forget]

theorem dumpT_forget (f : TForest) : dumpT f = dump (forget f) := by
  induction f with
  | nil => rfl
  | leaf c tr st su next ih => simp only [dumpT, forget, dump, ih]
  | agg st su kids next ihk ihn => simp only [dumpT, forget, dump, ihk, ihn]

/-! ### the Spec predicates commute with `forget` -/

theorem specStateT_forget (f : TForest) : specStateT f = specState (forget f) := by
  induction f with
  | nil => rfl
  | leaf c tr st su next ih => simp only [specStateT, forget, specState, ih]
  | agg st su kids next ihk ihn => simp only [specStateT, forget, specState, ihk, ihn]

theorem specStatusT?_forget (f : TForest) : specStatusT? f = specStatus? (forget f) := by
  induction f with
  | nil => rfl
  | leaf c tr st su next ih =>
    simp only [specStatusT?, forget, specStatus?, ih]
    cases specStatus? (forget next) <;> rfl
  | agg st su kids next ihk ihn =>
    simp only [specStatusT?, forget, specStatus?, ihk, ihn]
    cases specStatus? (forget next) <;> rfl

theorem specStatusT_forget (f : TForest) : specStatusT f = specStatus (forget f) := by
  simp only [specStatusT, specStatus, specStatusT?_forget]

theorem stateOkT_forget (f : TForest) : stateOkT f = stateOk (forget f) := by
  induction f with
  | nil => rfl
  | leaf c tr st su next ih => simp only [stateOkT, forget, stateOk, ih]
  | agg st su kids next ihk ihn => simp only [stateOkT, forget, stateOk, ihk, ihn, specStateT_forget]

theorem statusOkT_forget (f : TForest) : statusOkT f = statusOk (forget f) := by
  induction f with
  | nil => rfl
  | leaf c tr st su next ih => simp only [statusOkT, forget, statusOk, ih]
  | agg st su kids next ihk ihn => simp only [statusOkT, forget, statusOk, ihk, ihn, specStatusT_forget]

theorem hasCriticalT_forget (f : TForest) : hasCriticalT f = hasCritical (forget f) := by
  induction f with
  | nil => rfl
  | leaf c tr st su next ih => simp only [hasCriticalT, forget, hasCritical, ih]
  | agg st su kids next ihk ihn => simp only [hasCriticalT, forget, hasCritical, ihk, ihn]

theorem noBarrenT_forget (f : TForest) : noBarrenT f = noBarren (forget f) := by
  induction f with
  | nil => rfl
  | leaf c tr st su next ih => simp only [noBarrenT, forget, noBarren, ih]
  | agg st su kids next ihk ihn => simp only [noBarrenT, forget, noBarren, ihk, ihn, hasCriticalT_forget]

/-- Every role still holds the values the YAML loader gives it (hooks, too: a task hook is
    loaded STANDBY/INACTIVE like a basic task). -/
def allInitT : TForest → Bool
  | .nil => true
  | .leaf _ _ st su next => decide (st = .STANDBY) && decide (su = .INACTIVE) && allInitT next
  | .agg st su kids next => decide (st = .STANDBY) && decide (su = .INACTIVE) && allInitT kids && allInitT next

theorem allInitT_forget (f : TForest) : allInitT f = allInit (forget f) := by
  induction f with
  | nil => rfl
  | leaf c tr st su next ih => simp only [allInitT, forget, allInit, ih]
  | agg st su kids next ihk ihn => simp only [allInitT, forget, allInit, ihk, ihn]

def noEmptyAggT : TForest → Bool
  | .nil => true
  | .leaf _ _ _ _ next => noEmptyAggT next
  | .agg _ _ kids next => (match kids with | .nil => false | _ => true) && noEmptyAggT kids && noEmptyAggT next

theorem noEmptyAggT_forget (f : TForest) : noEmptyAggT f = noEmptyAgg (forget f) := by
  induction f with
  | nil => rfl
  | leaf c tr st su next ih => simp only [noEmptyAggT, forget, noEmptyAgg, ih]
  | agg st su kids next ihk ihn =>
    simp only [noEmptyAggT, forget, noEmptyAgg, ihk, ihn]
    cases kids <;> rfl

/-- Local consistency of a tree with traits = that of the tree without. -/
def ConsistentT (f : TForest) : Prop := Consistent (forget f)
def ConsistentUT (f : TForest) : Prop := ConsistentU (forget f)

/-! ### ERROR of a critical task/call role, hook or not -/

theorem critErr_spec (f : TForest) (h : critErrT f = true) : specStateT f = .ERROR := by
  induction f with
  | nil => simp [critErrT] at h
  | leaf c tr st su next ih =>
    simp only [critErrT, Bool.or_eq_true, Bool.and_eq_true, decide_eq_true_eq] at h
    simp only [specStateT]
    rcases h with ⟨hc, he⟩ | hn
    · simp [hc, he, X_error_left]
    · cases tr.crit
      · simpa using ih hn
      · simp [ih hn, X_error_right]
  | agg st su kids next ihk ihn =>
    simp only [critErrT, Bool.or_eq_true] at h
    simp only [specStateT]
    rcases h with hk | hn
    · rw [ihk hk, X_error_left]
    · rw [ihn hn, X_error_right]

theorem stateOk_errKept (f : TForest) (h : stateOkT f = true) : errKeptT f = true := by
  induction f with
  | nil => rfl
  | leaf c tr st su next ih => simpa [errKeptT] using ih (by simpa [stateOkT] using h)
  | agg st su kids next ihk ihn =>
    simp only [stateOkT, Bool.and_eq_true, decide_eq_true_eq] at h
    obtain ⟨⟨hst, hk⟩, hn⟩ := h
    simp only [errKeptT, Bool.and_eq_true, Bool.or_eq_true, Bool.not_eq_true', decide_eq_true_eq]
    refine ⟨⟨?_, ihk hk⟩, ihn hn⟩
    cases hce : critErrT kids
    · exact Or.inl rfl
    · exact Or.inr (by rw [hst, critErr_spec kids hce])

/-! ### the reported states are a function of the leaves -/

theorem sameLeaves_spec (f g : TForest) (h : sameLeavesT f g = true) : specStateT f = specStateT g := by
  induction f generalizing g with
  | nil => cases g <;> simp_all [sameLeavesT]
  | leaf c tr st su next ih =>
    cases g with
    | nil => simp [sameLeavesT] at h
    | agg => simp [sameLeavesT] at h
    | leaf c' tr' st' su' next' =>
      simp only [sameLeavesT, Bool.and_eq_true, decide_eq_true_eq] at h
      obtain ⟨⟨⟨⟨_, htr⟩, hst⟩, _⟩, hn⟩ := h
      subst htr; subst hst
      simp only [specStateT, ih next' hn]
  | agg st su kids next ihk ihn =>
    cases g with
    | nil => simp [sameLeavesT] at h
    | leaf => simp [sameLeavesT] at h
    | agg st' su' kids' next' =>
      simp only [sameLeavesT, Bool.and_eq_true] at h
      simp only [specStateT, ihk kids' h.1, ihn next' h.2]

theorem sameLeaves_states (f g : TForest) (h : sameLeavesT f g = true)
    (hf : stateOkT f = true) (hg : stateOkT g = true) :
    (dumpT f).map (·.1) = (dumpT g).map (·.1) := by
  induction f generalizing g with
  | nil => cases g <;> simp_all [sameLeavesT, dumpT]
  | leaf c tr st su next ih =>
    cases g with
    | nil => simp [sameLeavesT] at h
    | agg => simp [sameLeavesT] at h
    | leaf c' tr' st' su' next' =>
      simp only [sameLeavesT, Bool.and_eq_true, decide_eq_true_eq] at h
      obtain ⟨⟨⟨⟨_, _⟩, hst⟩, _⟩, hn⟩ := h
      simp only [stateOkT] at hf hg
      simp only [dumpT, List.map_cons, hst, ih next' hn hf hg]
  | agg st su kids next ihk ihn =>
    cases g with
    | nil => simp [sameLeavesT] at h
    | leaf => simp [sameLeavesT] at h
    | agg st' su' kids' next' =>
      simp only [sameLeavesT, Bool.and_eq_true] at h
      simp only [stateOkT, Bool.and_eq_true, decide_eq_true_eq] at hf hg
      obtain ⟨⟨hs, hfk⟩, hfn⟩ := hf
      obtain ⟨⟨hs', hgk⟩, hgn⟩ := hg
      simp only [dumpT, List.map_cons, List.map_append, ihk kids' h.1 hfk hgk, ihn next' h.2 hfn hgn,
        hs, hs', sameLeaves_spec kids kids' h.1]


/-! ### Repeated reports and non-uniform presets (seed C11-7) -/

theorem mergeStatus_zero_sound (v : TStatus) (o : Option TStatus) :
    mergeStatus' .UNDEFINED v (opX v o) = opX v o := by
  cases o with
  | none => cases v <;> rfl
  | some o => cases o <;> cases v <;> rfl

theorem updStatusT_top (f : TForest) (p : List Nat) (s : TStatus) :
    ((updStatusT f p s).2 = none → aggregateStatusT (updStatusT f p s).1 = aggregateStatusT f) ∧
    (∀ v, (updStatusT f p s).2 = some v →
      ∃ a o, aggregateStatusT f = opX a o ∧ aggregateStatusT (updStatusT f p s).1 = opX v o) := by
  obtain ⟨e1, e2⟩ := updStatusT_forget f p s
  obtain ⟨t1, t2⟩ := updStatus_top (forget f) p s
  simp only [aggregateStatusT_forget, e1]
  refine ⟨fun h => aggregateStatus_of_SU_eq _ _ (t1 (e2 ▸ h)), fun v hv => ?_⟩
  obtain ⟨a, o, h1, h2⟩ := t2 v (e2 ▸ hv)
  exact ⟨a, o, SU_eq_some _ _ h1, SU_eq_some _ _ h2⟩

/-- The step of the whole argument: an aggregator that has folded nothing yet, or is the fold of its children,
    IS the fold of its children after merging what the updated child hands up — also when that child did not change. -/
theorem mergeStatusT_refolds (su v : TStatus) (kids : TForest) (rest : List Nat) (s : TStatus)
    (hv : (updStatusT kids rest s).2 = some v)
    (hpre : su = .UNDEFINED ∨ su = aggregateStatusT kids) :
    mergeStatusT su v (updStatusT kids rest s).1 = aggregateStatusT (updStatusT kids rest s).1 := by
  obtain ⟨a, o, h1, h2⟩ := (updStatusT_top kids rest s).2 v hv
  rw [h2, mergeStatusT_forget, mergeStatus_eq, ← aggregateStatusT_forget, h2]
  rcases hpre with h | h
  · subst h; exact mergeStatus_zero_sound v o
  · rw [h, h1]; exact mergeStatus_sound a v o

theorem zeroOrFold_pathPre (f : TForest) (p : List Nat) (h : zeroOrFoldT f = true) : pathStatusPreT f p = true := by
  fun_induction pathStatusPreT f p with
  | case1 => rfl
  | case2 => rfl
  | case3 c tr st su next i rest ih => simp only [zeroOrFoldT] at h; exact ih h
  | case4 => rfl
  | case5 st su kids next rest ih =>
    simp only [zeroOrFoldT, Bool.and_eq_true] at h
    simp only [Bool.and_eq_true]; exact ⟨h.1.1, ih h.1.2⟩
  | case6 st su kids next i rest ih =>
    simp only [zeroOrFoldT, Bool.and_eq_true] at h; exact ih h.2

theorem updStatusT_refolds_path (f : TForest) (p : List Nat) (s : TStatus)
    (hpre : pathStatusPreT f p = true) (hv : (updStatusT f p s).2 ≠ none) :
    pathStatusOkT (updStatusT f p s).1 p = true := by
  fun_induction updStatusT f p s with
  | case1 => simp [pathStatusOkT]
  | case2 => exact absurd rfl hv
  | case3 => simp [pathStatusOkT]
  | case4 => exact absurd rfl hv
  | case5 c tr st su next i rest s r ih =>
    simp only [pathStatusPreT] at hpre
    simp only [pathStatusOkT]; exact ih hpre hv
  | case6 st su kids next rest s r hnone ih => exact absurd rfl hv
  | case7 st su kids next rest s r v hsome su' ih =>
    simp only [pathStatusPreT, Bool.and_eq_true, Bool.or_eq_true, decide_eq_true_eq] at hpre
    simp only [pathStatusOkT, Bool.and_eq_true, decide_eq_true_eq]
    exact ⟨mergeStatusT_refolds su v kids rest s hsome hpre.1, ih hpre.2 (by rw [show r.2 = some v from hsome]; simp)⟩
  | case8 st su kids next i rest s r ih =>
    simp only [pathStatusPreT] at hpre
    simp only [pathStatusOkT]; exact ih hpre hv

theorem updStatusT_zeroOrFold (f : TForest) (p : List Nat) (s : TStatus) (h : zeroOrFoldT f = true) :
    zeroOrFoldT (updStatusT f p s).1 = true := by
  fun_induction updStatusT f p s with
  | case1 => rfl
  | case2 => exact h
  | case3 => exact h
  | case4 => exact h
  | case5 c tr st su next i rest s r ih => simp only [zeroOrFoldT] at h ⊢; exact ih h
  | case6 st su kids next rest s r hnone ih =>
    simp only [zeroOrFoldT, Bool.and_eq_true, Bool.or_eq_true, decide_eq_true_eq] at h ⊢
    refine ⟨⟨?_, ih h.1.2⟩, h.2⟩
    rw [(updStatusT_top kids rest s).1 hnone]; exact h.1.1
  | case7 st su kids next rest s r v hsome su' ih =>
    simp only [zeroOrFoldT, Bool.and_eq_true, Bool.or_eq_true, decide_eq_true_eq] at h ⊢
    exact ⟨⟨Or.inr (mergeStatusT_refolds su v kids rest s hsome h.1.1), ih h.1.2⟩, h.2⟩
  | case8 st su kids next i rest s r ih =>
    simp only [zeroOrFoldT, Bool.and_eq_true] at h ⊢; exact ⟨h.1, ih h.2⟩

theorem updStateT_aggStatus (f : TForest) (p : List Nat) (s : TState) :
    aggregateStatusT (updStateT f p s).1 = aggregateStatusT f := by
  rw [aggregateStatusT_forget, (updStateT_forget f p s).1, updState_SU, ← aggregateStatusT_forget]

theorem updStateT_zeroOrFold (f : TForest) (p : List Nat) (s : TState) (h : zeroOrFoldT f = true) :
    zeroOrFoldT (updStateT f p s).1 = true := by
  fun_induction updStateT f p s with
  | case1 => rfl
  | case2 => exact h
  | case3 => exact h
  | case4 => exact h
  | case5 c tr st su next i rest s r ih => simp only [zeroOrFoldT] at h ⊢; exact ih h
  | case6 st su kids next rest s r hnone ih =>
    simp only [zeroOrFoldT, Bool.and_eq_true, Bool.or_eq_true, decide_eq_true_eq] at h ⊢
    refine ⟨⟨?_, ih h.1.2⟩, h.2⟩
    rw [updStateT_aggStatus kids rest s]; exact h.1.1
  | case7 st su kids next rest s r v hsome st' ih =>
    simp only [zeroOrFoldT, Bool.and_eq_true, Bool.or_eq_true, decide_eq_true_eq] at h ⊢
    refine ⟨⟨?_, ih h.1.2⟩, h.2⟩
    rw [updStateT_aggStatus kids rest s]; exact h.1.1
  | case8 st su kids next i rest s r ih =>
    simp only [zeroOrFoldT, Bool.and_eq_true] at h ⊢; exact ⟨h.1, ih h.2⟩

theorem updStatusT_reaches (f : TForest) (p : List Nat) (s : TStatus) (h : reachesLeafT f p = true) :
    (updStatusT f p s).2 ≠ none ∧ (valAtT (updStatusT f p s).1 p).map (·.2) = some s := by
  fun_induction updStatusT f p s with
  | case1 => simp [reachesLeafT] at h
  | case2 f s hne => cases f <;> simp_all [reachesLeafT]
  | case3 => simp [valAtT]
  | case4 => simp [reachesLeafT] at h
  | case5 c tr st su next i rest s r ih =>
    simp only [reachesLeafT] at h; simp only [valAtT]; exact ih h
  | case6 st su kids next rest s r hnone ih =>
    simp only [reachesLeafT] at h
    exact absurd hnone (ih h).1
  | case7 st su kids next rest s r v hsome su' ih =>
    simp only [reachesLeafT] at h
    refine ⟨by simp, ?_⟩
    cases rest with
    | nil => cases kids <;> simp [reachesLeafT] at h
    | cons a as => simp only [valAtT]; exact (ih h).2
  | case8 st su kids next i rest s r ih =>
    simp only [reachesLeafT] at h; simp only [valAtT]; exact ih h


theorem updStateT_reaches (f : TForest) (p : List Nat) (s : TState) (h : reachesLeafT f p = true) :
    (valAtT (updStateT f p s).1 p).map (·.1) = some s := by
  fun_induction updStateT f p s with
  | case1 => simp [reachesLeafT] at h
  | case2 f s hne => cases f <;> simp_all [reachesLeafT]
  | case3 => simp [valAtT]
  | case4 => simp [reachesLeafT] at h
  | case5 c tr st su next i rest s r ih =>
    simp only [reachesLeafT] at h; simp only [valAtT]; exact ih h
  | case6 st su kids next rest s r hnone ih =>
    simp only [reachesLeafT] at h
    cases rest with
    | nil => cases kids <;> simp [reachesLeafT] at h
    | cons a as => simp only [valAtT]; exact ih h
  | case7 st su kids next rest s r v hsome st' ih =>
    simp only [reachesLeafT] at h
    cases rest with
    | nil => cases kids <;> simp [reachesLeafT] at h
    | cons a as => simp only [valAtT]; exact ih h
  | case8 st su kids next i rest s r ih =>
    simp only [reachesLeafT] at h; simp only [valAtT]; exact ih h

theorem traceT_cons (f : TForest) (us : List Update) : ∃ t, traceT f us = f :: t := by
  cases us <;> exact ⟨_, rfl⟩

end RoleTree
