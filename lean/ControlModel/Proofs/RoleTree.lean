/-
  Proofs/RoleTree — lemmas behind Props/C11 (core only).
-/
import ControlModel.Model.RoleTree
import ControlModel.Spec.C11

namespace RoleTree
open Forest TState TStatus

/-! ### the two algebras -/

theorem X_comm (a b : TState) : a.X b = b.X a := by cases a <;> cases b <;> rfl
theorem X_assoc (a b c : TState) : (a.X b).X c = a.X (b.X c) := by
  cases a <;> cases b <;> cases c <;> rfl
theorem X_idem (a : TState) : a.X a = a := by cases a <;> rfl
theorem X_invariant_left (a : TState) : TState.INVARIANT.X a = a := by cases a <;> rfl
theorem X_invariant_right (a : TState) : a.X .INVARIANT = a := by cases a <;> rfl
theorem X_error_left (a : TState) : TState.ERROR.X a = .ERROR := by cases a <;> rfl
theorem X_error_right (a : TState) : a.X .ERROR = .ERROR := by cases a <;> rfl

theorem U_comm (a b : TStatus) : a.X b = b.X a := by cases a <;> cases b <;> rfl
theorem U_assoc (a b c : TStatus) : (a.X b).X c = a.X (b.X c) := by
  cases a <;> cases b <;> cases c <;> rfl
theorem U_idem (a : TStatus) : a.X a = a := by cases a <;> rfl
theorem U_undefined_left (a : TStatus) : TStatus.UNDEFINED.X a = .UNDEFINED := by cases a <;> rfl
theorem U_undefined_right (a : TStatus) : a.X .UNDEFINED = .UNDEFINED := by cases a <;> rfl

/-! ### state: fold summary of a sibling list -/

/-- `S f` = `aggregateState f`. -/
abbrev S (f : Forest) : TState := aggregateState f

theorem aggStateFrom_eq (acc : TState) (f : Forest) : aggStateFrom acc f = acc.X (S f) := by
  induction f generalizing acc with
  | nil => simp [S, aggregateState, aggStateFrom, X_invariant_right]
  | leaf c crit st su next ih =>
    cases crit
    · simp [S, aggregateState, aggStateFrom] at *; exact ih acc
    · simp only [S, aggregateState, aggStateFrom, if_true] at *
      rw [ih (acc.X st), ih (TState.INVARIANT.X st), X_invariant_left, X_assoc]
  | agg st su kids next _ ih =>
    simp only [S, aggregateState, aggStateFrom] at *
    rw [ih (acc.X st), ih (TState.INVARIANT.X st), X_invariant_left, X_assoc]

theorem S_nil : S .nil = .INVARIANT := rfl
theorem S_leaf_crit (c st su next) : S (.leaf c true st su next) = st.X (S next) := by
  show aggStateFrom (TState.INVARIANT.X st) next = _
  rw [aggStateFrom_eq, X_invariant_left]
theorem S_leaf_noncrit (c st su next) : S (.leaf c false st su next) = S next := rfl
theorem S_agg (st su kids next) : S (.agg st su kids next) = st.X (S next) := by
  show aggStateFrom (TState.INVARIANT.X st) next = _
  rw [aggStateFrom_eq, X_invariant_left]

/-- `SafeState.merge` with the recomputed aggregate passed as a value. -/
def mergeState' (cached s recomputed : TState) : TState :=
  if cached = s then cached
  else if s = .MIXED ∧ cached ≠ .ERROR then .MIXED
  else if s = .ERROR then .ERROR
  else recomputed

theorem mergeState_eq (cached s : TState) (kids : Forest) :
    mergeState cached s kids = mergeState' cached s (S kids) := rfl

/-- Soundness of the three shortcuts of `SafeState.merge`: when the cache is the
    fold `a ⊔ o` of the child's old value and its siblings, and the child now
    reports `v`, every branch yields the true new fold `v ⊔ o`. -/
theorem merge_sound (a o v : TState) : mergeState' (a.X o) v (v.X o) = v.X o := by
  cases a <;> cases o <;> cases v <;> rfl

/-- What one `updState` does to the fold of the sibling list it is applied to. -/
theorem upd_top (f : Forest) (p : List Nat) (s : TState) :
    ((updState f p s).2 = none → S (updState f p s).1 = S f) ∧
    (∀ v, (updState f p s).2 = some v → ∃ a o : TState, S f = a.X o ∧ S (updState f p s).1 = v.X o) := by
  fun_induction updState f p s with
  | case1 => simp
  | case2 => simp
  | case3 c crit st su next s =>
    cases crit
    · simp [S_leaf_noncrit]
    · simp only [if_true, Option.some.injEq, reduceCtorEq, false_implies, true_and]
      intro v hv; subst hv
      exact ⟨st, S next, S_leaf_crit .., S_leaf_crit ..⟩
  | case4 => simp
  | case5 c crit st su next i rest s r ih =>
    obtain ⟨ih1, ih2⟩ := ih
    cases crit
    · simp only [S_leaf_noncrit]; exact ⟨ih1, ih2⟩
    · simp only [S_leaf_crit]
      refine ⟨fun h => by rw [ih1 h], fun v hv => ?_⟩
      obtain ⟨a, o, h1, h2⟩ := ih2 v hv
      refine ⟨a, st.X o, ?_, ?_⟩
      · rw [h1, ← X_assoc, X_comm st a, X_assoc]
      · rw [h2, ← X_assoc, X_comm st v, X_assoc]
  | case6 st su kids next rest s r hnone =>
    simp [S_agg]
  | case7 st su kids next rest s r v hsome st' =>
    simp only [S_agg, reduceCtorEq, false_implies, Option.some.injEq, true_and]
    intro w hw; subst hw
    exact ⟨st, S next, rfl, rfl⟩
  | case8 st su kids next i rest s r ih =>
    obtain ⟨ih1, ih2⟩ := ih
    simp only [S_agg]
    refine ⟨fun h => by rw [ih1 h], fun v hv => ?_⟩
    obtain ⟨a, o, h1, h2⟩ := ih2 v hv
    refine ⟨a, st.X o, ?_, ?_⟩
    · rw [h1, ← X_assoc, X_comm st a, X_assoc]
    · rw [h2, ← X_assoc, X_comm st v, X_assoc]

/-- Local consistency: every aggregator's cached state is `aggregateState` of
    what its children currently report. -/
def Consistent : Forest → Prop
  | .nil => True
  | .leaf _ _ _ _ next => Consistent next
  | .agg st _ kids next => st = S kids ∧ Consistent kids ∧ Consistent next

theorem upd_consistent (f : Forest) (p : List Nat) (s : TState) (h : Consistent f) :
    Consistent (updState f p s).1 := by
  fun_induction updState f p s with
  | case1 => trivial
  | case2 => exact h
  | case3 => exact h
  | case4 => exact h
  | case5 c crit st su next i rest s r ih => exact ih h
  | case6 st su kids next rest s r hnone ih =>
    obtain ⟨h1, h2, h3⟩ := h
    refine ⟨?_, ih h2, h3⟩
    rw [(upd_top kids rest s).1 hnone]; exact h1
  | case7 st su kids next rest s r v hsome st' ih =>
    obtain ⟨h1, h2, h3⟩ := h
    refine ⟨?_, ih h2, h3⟩
    obtain ⟨a, o, e1, e2⟩ := (upd_top kids rest s).2 v hsome
    show mergeState st v r.1 = S r.1
    rw [mergeState_eq, e2, h1, e1]; exact merge_sound a o v
  | case8 st su kids next i rest s r ih =>
    obtain ⟨h1, h2, h3⟩ := h
    exact ⟨h1, h2, ih h3⟩

/-- Consistent caches equal the property's fold over critical leaves. -/
theorem consistent_spec (f : Forest) (h : Consistent f) : S f = specState f ∧ stateOk f = true := by
  induction f with
  | nil => exact ⟨rfl, rfl⟩
  | leaf c crit st su next ih =>
    obtain ⟨e, ok⟩ := ih h
    cases crit
    · exact ⟨by rw [S_leaf_noncrit]; simpa [specState] using e, by simpa [stateOk] using ok⟩
    · exact ⟨by rw [S_leaf_crit]; simp [specState, e], by simpa [stateOk] using ok⟩
  | agg st su kids next ihk ihn =>
    obtain ⟨h1, h2, h3⟩ := h
    obtain ⟨ek, okk⟩ := ihk h2
    obtain ⟨en, okn⟩ := ihn h3
    refine ⟨?_, ?_⟩
    · rw [S_agg, h1, ek, en]; simp [specState]
    · simp [stateOk, h1, ek, okk, okn]

/-- Every role still holds the values the YAML loader gives it. -/
def allInit : Forest → Bool
  | .nil => true
  | .leaf _ _ st su next => decide (st = .STANDBY) && decide (su = .INACTIVE) && allInit next
  | .agg st su kids next => decide (st = .STANDBY) && decide (su = .INACTIVE) && allInit kids && allInit next

/-- With only initial values below it, a sibling list folds to STANDBY if it
    contains a counted role, else to INVARIANT. -/
def hasCounted : Forest → Bool
  | .nil => false
  | .leaf _ crit _ _ next => crit || hasCounted next
  | .agg _ _ _ next => true || hasCounted next

theorem init_fold (f : Forest) (h : allInit f = true) :
    S f = if hasCounted f then .STANDBY else .INVARIANT := by
  induction f with
  | nil => rfl
  | leaf c crit st su next ih =>
    simp only [allInit, Bool.and_eq_true, decide_eq_true_eq] at h
    obtain ⟨⟨hst, _⟩, hn⟩ := h
    subst hst
    cases crit
    · rw [S_leaf_noncrit, ih hn]; simp [hasCounted]
    · rw [S_leaf_crit, ih hn]; cases hasCounted next <;> simp [hasCounted] <;> rfl
  | agg st su kids next _ ihn =>
    simp only [allInit, Bool.and_eq_true, decide_eq_true_eq] at h
    obtain ⟨⟨⟨hst, _⟩, _⟩, hn⟩ := h
    subst hst
    rw [S_agg, ihn hn]; cases hasCounted next <;> simp [hasCounted] <;> rfl

theorem hasCritical_hasCounted (f : Forest) (h : hasCritical f = true) (nb : noBarren f = true) :
    hasCounted f = true := by
  induction f with
  | nil => simp [hasCritical] at h
  | leaf c crit st su next ih =>
    cases crit
    · simp only [hasCritical, Bool.false_or] at h
      simp only [noBarren] at nb
      simp [hasCounted, ih h nb]
    · simp [hasCounted]
  | agg st su kids next _ _ => simp [hasCounted]

theorem init_consistent (f : Forest) (h : allInit f = true) (nb : noBarren f = true) : Consistent f := by
  induction f with
  | nil => trivial
  | leaf c crit st su next ih =>
    simp only [allInit, Bool.and_eq_true] at h
    simp only [noBarren] at nb
    exact ih h.2 nb
  | agg st su kids next ihk ihn =>
    simp only [allInit, Bool.and_eq_true, decide_eq_true_eq] at h
    simp only [noBarren, Bool.and_eq_true] at nb
    obtain ⟨⟨⟨hst, _⟩, hk⟩, hn⟩ := h
    obtain ⟨⟨hc, nbk⟩, nbn⟩ := nb
    refine ⟨?_, ihk hk nbk, ihn hn nbn⟩
    rw [init_fold kids hk, hasCritical_hasCounted kids hc nbk]; simpa using hst

/-! ### status -/

/-- `a ⊔ o` where the sibling fold `o` may be empty. -/
def opX (a : TStatus) : Option TStatus → TStatus
  | none => a
  | some o => a.X o

/-- Summary of a sibling list for status: `none` iff empty. -/
def SU : Forest → Option TStatus
  | .nil => none
  | f => some (aggregateStatus f)

theorem aggStatusFrom_X (a b : TStatus) (f : Forest) :
    aggStatusFrom (a.X b) f = a.X (aggStatusFrom b f) := by
  induction f generalizing b with
  | nil => rfl
  | leaf c crit st su next ih =>
    simp only [aggStatusFrom]
    by_cases hb : b = .UNDEFINED
    · subst hb; simp [U_undefined_right]
    · by_cases hab : a.X b = .UNDEFINED
      · have ha : a = .UNDEFINED := by
          revert hab hb; cases a <;> cases b <;> simp [TStatus.X]
        subst ha; simp [U_undefined_left]
      · simp only [hab, hb, if_false]; rw [U_assoc, ih]
  | agg st su kids next _ ih =>
    simp only [aggStatusFrom]
    by_cases hb : b = .UNDEFINED
    · subst hb; simp [U_undefined_right]
    · by_cases hab : a.X b = .UNDEFINED
      · have ha : a = .UNDEFINED := by
          revert hab hb; cases a <;> cases b <;> simp [TStatus.X]
        subst ha; simp [U_undefined_left]
      · simp only [hab, hb, if_false]; rw [U_assoc, ih]

theorem aggStatusFrom_opX (a : TStatus) (f : Forest) : aggStatusFrom a f = opX a (SU f) := by
  cases f with
  | nil => rfl
  | leaf c crit st su next =>
    show aggStatusFrom a (.leaf c crit st su next) = a.X (aggStatusFrom su next)
    simp only [aggStatusFrom]
    by_cases ha : a = .UNDEFINED
    · subst ha; simp [U_undefined_left]
    · simp only [ha, if_false]; exact aggStatusFrom_X a su next
  | agg st su kids next =>
    show aggStatusFrom a (.agg st su kids next) = a.X (aggStatusFrom su next)
    simp only [aggStatusFrom]
    by_cases ha : a = .UNDEFINED
    · subst ha; simp [U_undefined_left]
    · simp only [ha, if_false]; exact aggStatusFrom_X a su next

theorem SU_leaf (c crit st su next) : SU (.leaf c crit st su next) = some (opX su (SU next)) := by
  show some (aggStatusFrom su next) = _
  rw [aggStatusFrom_opX]
theorem SU_agg (st su kids next) : SU (.agg st su kids next) = some (opX su (SU next)) := by
  show some (aggStatusFrom su next) = _
  rw [aggStatusFrom_opX]

def mergeStatus' (cached s recomputed : TStatus) : TStatus :=
  if cached = s then cached
  else if s = .UNDEFINED then .UNDEFINED
  else recomputed

theorem mergeStatus_eq (cached s : TStatus) (kids : Forest) :
    mergeStatus cached s kids = mergeStatus' cached s (aggregateStatus kids) := rfl

theorem mergeStatus_sound (a v : TStatus) (o : Option TStatus) :
    mergeStatus' (opX a o) v (opX v o) = opX v o := by
  cases o with
  | none => cases a <;> cases v <;> rfl
  | some o => cases a <;> cases o <;> cases v <;> rfl

theorem opX_swap (st a : TStatus) (o : Option TStatus) :
    opX st (some (opX a o)) = opX a (some (opX st o)) := by
  cases o with
  | none => exact U_comm st a
  | some o => show st.X (a.X o) = a.X (st.X o); rw [← U_assoc, U_comm st a, U_assoc]

theorem updStatus_top (f : Forest) (p : List Nat) (s : TStatus) :
    ((updStatus f p s).2 = none → SU (updStatus f p s).1 = SU f) ∧
    (∀ v, (updStatus f p s).2 = some v → ∃ a o, SU f = some (opX a o) ∧ SU (updStatus f p s).1 = some (opX v o)) := by
  fun_induction updStatus f p s with
  | case1 => simp
  | case2 => simp
  | case3 c crit st su next s =>
    simp only [reduceCtorEq, false_implies, Option.some.injEq, true_and]
    intro v hv; subst hv
    exact ⟨su, SU next, SU_leaf .., SU_leaf ..⟩
  | case4 => simp
  | case5 c crit st su next i rest s r ih =>
    obtain ⟨ih1, ih2⟩ := ih
    simp only [SU_leaf]
    refine ⟨fun h => by rw [ih1 h], fun v hv => ?_⟩
    obtain ⟨a, o, h1, h2⟩ := ih2 v hv
    refine ⟨a, some (opX su o), ?_, ?_⟩
    · rw [h1, opX_swap]
    · rw [h2, opX_swap]
  | case6 st su kids next rest s r hnone =>
    simp [SU_agg]
  | case7 st su kids next rest s r v hsome su' =>
    simp only [SU_agg, reduceCtorEq, false_implies, Option.some.injEq, true_and]
    intro w hw; subst hw
    exact ⟨su, SU next, rfl, rfl⟩
  | case8 st su kids next i rest s r ih =>
    obtain ⟨ih1, ih2⟩ := ih
    simp only [SU_agg]
    refine ⟨fun h => by rw [ih1 h], fun v hv => ?_⟩
    obtain ⟨a, o, h1, h2⟩ := ih2 v hv
    refine ⟨a, some (opX su o), ?_, ?_⟩
    · rw [h1, opX_swap]
    · rw [h2, opX_swap]

/-- Every aggregator's cached status is `aggregateStatus` of its children. -/
def ConsistentU : Forest → Prop
  | .nil => True
  | .leaf _ _ _ _ next => ConsistentU next
  | .agg _ su kids next => su = aggregateStatus kids ∧ ConsistentU kids ∧ ConsistentU next

theorem SU_eq_some (f : Forest) (x : TStatus) (h : SU f = some x) : aggregateStatus f = x := by
  cases f with
  | nil => simp [SU] at h
  | leaf => simpa [SU] using h
  | agg => simpa [SU] using h

theorem aggregateStatus_of_SU_eq (f g : Forest) (h : SU f = SU g) : aggregateStatus f = aggregateStatus g := by
  cases f <;> cases g <;> simp_all [SU, aggregateStatus]

theorem updStatus_consistent (f : Forest) (p : List Nat) (s : TStatus) (h : ConsistentU f) :
    ConsistentU (updStatus f p s).1 := by
  fun_induction updStatus f p s with
  | case1 => trivial
  | case2 => exact h
  | case3 => exact h
  | case4 => exact h
  | case5 c crit st su next i rest s r ih => exact ih h
  | case6 st su kids next rest s r hnone ih =>
    obtain ⟨h1, h2, h3⟩ := h
    refine ⟨?_, ih h2, h3⟩
    rw [h1]; exact (aggregateStatus_of_SU_eq _ _ ((updStatus_top kids rest s).1 hnone)).symm
  | case7 st su kids next rest s r v hsome su' ih =>
    obtain ⟨h1, h2, h3⟩ := h
    refine ⟨?_, ih h2, h3⟩
    obtain ⟨a, o, e1, e2⟩ := (updStatus_top kids rest s).2 v hsome
    show mergeStatus su v r.1 = aggregateStatus r.1
    rw [mergeStatus_eq, SU_eq_some _ _ e2, h1, SU_eq_some _ _ e1]; exact mergeStatus_sound a v o
  | case8 st su kids next i rest s r ih =>
    obtain ⟨h1, h2, h3⟩ := h
    exact ⟨h1, h2, ih h3⟩

/-- No aggregator without children (the loader prunes them). -/
def noEmptyAgg : Forest → Bool
  | .nil => true
  | .leaf _ _ _ _ next => noEmptyAgg next
  | .agg _ _ kids next => (match kids with | .nil => false | _ => true) && noEmptyAgg kids && noEmptyAgg next


theorem consistentU_spec (f : Forest) (h : ConsistentU f) : SU f = specStatus? f ∧ statusOk f = true := by
  induction f with
  | nil => exact ⟨rfl, rfl⟩
  | leaf c crit st su next ih =>
    obtain ⟨e, ok⟩ := ih h
    refine ⟨?_, by simpa [statusOk] using ok⟩
    rw [SU_leaf, e]; simp only [specStatus?]
    cases specStatus? next <;> rfl
  | agg st su kids next ihk ihn =>
    obtain ⟨h1, h2, h3⟩ := h
    obtain ⟨ek, okk⟩ := ihk h2
    obtain ⟨en, okn⟩ := ihn h3
    have hk : su = specStatus kids := by
      rw [h1]; unfold specStatus; rw [← ek]
      cases kids <;> rfl
    refine ⟨?_, ?_⟩
    · rw [SU_agg, en]; simp only [specStatus?]
      rw [show (specStatus? kids).getD TStatus.UNDEFINED = su from hk.symm]
      cases specStatus? next <;> rfl
    · simp [statusOk, hk, okk, okn]

theorem init_foldU (f : Forest) (h : allInit f = true) :
    SU f = match f with | .nil => none | _ => some .INACTIVE := by
  induction f with
  | nil => rfl
  | leaf c crit st su next ih =>
    simp only [allInit, Bool.and_eq_true, decide_eq_true_eq] at h
    obtain ⟨⟨_, hsu⟩, hn⟩ := h
    subst hsu
    rw [SU_leaf, ih hn]; cases next <;> rfl
  | agg st su kids next _ ihn =>
    simp only [allInit, Bool.and_eq_true, decide_eq_true_eq] at h
    obtain ⟨⟨⟨_, hsu⟩, _⟩, hn⟩ := h
    subst hsu
    rw [SU_agg, ihn hn]; cases next <;> rfl

theorem init_consistentU (f : Forest) (h : allInit f = true) (ne : noEmptyAgg f = true) : ConsistentU f := by
  induction f with
  | nil => trivial
  | leaf c crit st su next ih =>
    simp only [allInit, Bool.and_eq_true] at h
    simp only [noEmptyAgg] at ne
    exact ih h.2 ne
  | agg st su kids next ihk ihn =>
    simp only [allInit, Bool.and_eq_true, decide_eq_true_eq] at h
    simp only [noEmptyAgg, Bool.and_eq_true] at ne
    obtain ⟨⟨⟨_, hsu⟩, hk⟩, hn⟩ := h
    obtain ⟨⟨hne, nek⟩, nen⟩ := ne
    refine ⟨?_, ihk hk nek, ihn hn nen⟩
    have := init_foldU kids hk
    cases kids with
    | nil => simp at hne
    | leaf => rw [hsu]; exact (SU_eq_some _ _ this).symm
    | agg => rw [hsu]; exact (SU_eq_some _ _ this).symm

/-- A status update leaves every reported state alone. -/
theorem updStatus_S (f : Forest) (p : List Nat) (s : TStatus) : S (updStatus f p s).1 = S f := by
  fun_induction updStatus f p s with
  | case1 => rfl
  | case2 => rfl
  | case3 c crit st su next s => cases crit <;> simp [S_leaf_crit, S_leaf_noncrit]
  | case4 => rfl
  | case5 c crit st su next i rest s r ih =>
    have ih' : S r.1 = S next := ih
    cases crit <;> simp [S_leaf_crit, S_leaf_noncrit, ih']
  | case6 st su kids next rest s r hnone => simp [S_agg]
  | case7 st su kids next rest s r v hsome su' => simp [S_agg]
  | case8 st su kids next i rest s r ih =>
    have ih' : S r.1 = S next := ih
    simp [S_agg, ih']

/-- A state update leaves every reported status alone. -/
theorem updState_SU (f : Forest) (p : List Nat) (s : TState) :
    aggregateStatus (updState f p s).1 = aggregateStatus f := by
  apply aggregateStatus_of_SU_eq
  fun_induction updState f p s with
  | case1 => rfl
  | case2 => rfl
  | case3 c crit st su next s => simp [SU_leaf]
  | case4 => rfl
  | case5 c crit st su next i rest s r ih =>
    have ih' : SU r.1 = SU next := ih
    simp [SU_leaf, ih']
  | case6 st su kids next rest s r hnone => simp [SU_agg]
  | case7 st su kids next rest s r v hsome st' => simp [SU_agg]
  | case8 st su kids next i rest s r ih =>
    have ih' : SU r.1 = SU next := ih
    simp [SU_agg, ih']

/-- The shape predicates do not depend on the stored values, so updates keep them. -/
theorem updStatus_keeps_state_consistency (f : Forest) (p : List Nat) (s : TStatus) (h : Consistent f) :
    Consistent (updStatus f p s).1 := by
  fun_induction updStatus f p s with
  | case1 => trivial
  | case2 => exact h
  | case3 => exact h
  | case4 => exact h
  | case5 c crit st su next i rest s r ih => exact ih h
  | case6 st su kids next rest s r hnone ih =>
    obtain ⟨h1, h2, h3⟩ := h
    exact ⟨by rw [h1]; exact (updStatus_S kids rest s).symm, ih h2, h3⟩
  | case7 st su kids next rest s r v hsome su' ih =>
    obtain ⟨h1, h2, h3⟩ := h
    exact ⟨by rw [h1]; exact (updStatus_S kids rest s).symm, ih h2, h3⟩
  | case8 st su kids next i rest s r ih =>
    obtain ⟨h1, h2, h3⟩ := h
    exact ⟨h1, h2, ih h3⟩

theorem updState_keeps_status_consistency (f : Forest) (p : List Nat) (s : TState) (h : ConsistentU f) :
    ConsistentU (updState f p s).1 := by
  fun_induction updState f p s with
  | case1 => trivial
  | case2 => exact h
  | case3 => exact h
  | case4 => exact h
  | case5 c crit st su next i rest s r ih => exact ih h
  | case6 st su kids next rest s r hnone ih =>
    obtain ⟨h1, h2, h3⟩ := h
    exact ⟨by rw [h1]; exact (updState_SU kids rest s).symm, ih h2, h3⟩
  | case7 st su kids next rest s r v hsome st' ih =>
    obtain ⟨h1, h2, h3⟩ := h
    exact ⟨by rw [h1]; exact (updState_SU kids rest s).symm, ih h2, h3⟩
  | case8 st su kids next i rest s r ih =>
    obtain ⟨h1, h2, h3⟩ := h
    exact ⟨h1, h2, ih h3⟩

end RoleTree
