/-
  Proofs/RoleTreeConc — invariants of the concurrent propagation model (Model/RoleTreeConc.lean),
  behind the `C11_conc_*` theorems of Props/C11.lean. Core only.

  * `Move`      every step of the model is one of twelve moves (proved once: `step_move`);
  * `NL`        never lost: an ERROR child the parent looks at is covered by the parent's state, by a
                thread still on its way with it, or by the fold that is in progress;
  * `Clean`     never invented: no ERROR anywhere unless a critical leaf is in ERROR;
  * `Mutex`     at most one thread folds under one role;
  * `LeafSrc`   a leaf holds its initial state or the value of an update addressed to it.
-/
import ControlModel.Model.RoleTreeConc
import ControlModel.Spec.C11Conc
import ControlModel.Proofs.RoleTree

namespace RoleTree.Conc
open RoleTree TState

/-! ### small facts -/

@[simp] theorem upd_same {α : Type} (f : Nat → α) (n : Nat) (v : α) : upd f n v n = v := by simp [upd]
theorem upd_other {α : Type} (f : Nat → α) {n m : Nat} (v : α) (h : m ≠ n) : upd f n v m = f m := by
  simp [upd, h]

theorem locked_false {T : Topo} {c : Cfg} {n : Nat} (h : locked T c n = false) :
    ∀ j, j < T.nT → ∀ todo acc, c.pc j ≠ .fold n todo acc := by
  intro j hj todo acc hpc
  simp only [locked, List.any_eq_false, List.mem_range] at h
  have := h j hj
  rw [hpc] at this
  simp at this

theorem locked_true {T : Topo} {c : Cfg} {n : Nat} (h : locked T c n = true) :
    ∃ j, j < T.nT ∧ ∃ todo acc, c.pc j = .fold n todo acc := by
  simp only [locked, List.any_eq_true, List.mem_range] at h
  obtain ⟨j, hj, hm⟩ := h
  refine ⟨j, hj, ?_⟩
  cases hpc : c.pc j with
  | fold p todo acc =>
    rw [hpc] at hm
    simp at hm
    exact ⟨todo, acc, (by rw [hm])⟩
  | start => rw [hpc] at hm; simp at hm
  | read _ => rw [hpc] at hm; simp at hm
  | enter _ _ => rw [hpc] at hm; simp at hm
  | done => rw [hpc] at hm; simp at hm

theorem mem_kids {T : Topo} {p k : Nat} :
    k ∈ T.kids p ↔ (k < T.nodes.length ∧ T.parent k = some p ∧ T.contrib k = true) := by
  simp [Topo.kids, List.mem_filter, List.mem_range]

theorem parent_agg {T : Topo} {n p : Nat} (h : T.parent n = some p) : T.agg p = true := by
  unfold Topo.parent at h
  split at h
  · rename_i nd _
    split at h
    · rename_i q _
      split at h
      · rename_i hq
        cases h
        exact hq
      · cases h
    · cases h
  · cases h

theorem parent_lt_len {T : Topo} {n p : Nat} (h : T.parent n = some p) : n < T.nodes.length := by
  unfold Topo.parent at h
  split at h
  · rename_i nd hn
    have := List.getElem?_eq_some_iff.mp hn
    exact this.1
  · cases h

theorem agg_lt_len {T : Topo} {n : Nat} (h : T.agg n = true) : n < T.nodes.length := by
  unfold Topo.agg at h
  split at h
  · rename_i nd hn
    exact (List.getElem?_eq_some_iff.mp hn).1
  · cases h

theorem crit_lt_len {T : Topo} {n : Nat} (h : T.crit n = true) : n < T.nodes.length := by
  unfold Topo.crit at h
  split at h
  · rename_i nd hn
    exact (List.getElem?_eq_some_iff.mp hn).1
  · cases h

theorem crit_not_agg {T : Topo} {n : Nat} (h : T.crit n = true) : T.agg n = false := by
  unfold Topo.crit at h
  unfold Topo.agg
  split at h
  · simp at h
    simp [h.1]
  · cases h

theorem contrib_of_agg {T : Topo} {n : Nat} (h : T.agg n = true) : T.contrib n = true := by
  simp [Topo.contrib, h]

theorem contrib_of_crit {T : Topo} {n : Nat} (h : T.crit n = true) : T.contrib n = true := by
  simp [Topo.contrib, h]

theorem contrib_cases {T : Topo} {n : Nat} (h : T.contrib n = true) : T.agg n = true ∨ T.crit n = true := by
  simpa [Topo.contrib] using h

theorem X_ne_error {a b : TState} (ha : a ≠ .ERROR) (hb : b ≠ .ERROR) : a.X b ≠ .ERROR := by
  cases a <;> cases b <;> simp_all [TState.X]

theorem after_cases (T : Topo) (p : Nat) :
    (after T p = .read p ∧ ∃ q, T.parent p = some q) ∨ (after T p = .done ∧ T.parent p = none) := by
  unfold after
  cases h : T.parent p with
  | none => exact Or.inr ⟨rfl, rfl⟩
  | some q => exact Or.inl ⟨rfl, q, rfl⟩

/-! ### the moves -/

/-- What one step of thread `i` can do. -/
inductive Move (T : Topo) (c : Cfg) (i : Nat) : Cfg → Prop
  | stay : Move T c i c
  | startSkip (hi : i < T.nT) (hpc : c.pc i = .start) : Move T c i ⟨c.st, upd c.pc i .done⟩
  | leafGo (hi : i < T.nT) (leaf : Nat) (s : TState) (p : Nat) (hthr : T.thr[i]? = some (leaf, s))
      (hpc : c.pc i = .start) (hagg : T.agg leaf = false) (hcrit : T.crit leaf = true)
      (hpar : T.parent leaf = some p) :
      Move T c i ⟨upd c.st leaf s, upd c.pc i (.enter leaf s)⟩
  | leafStop (hi : i < T.nT) (leaf : Nat) (s : TState) (hthr : T.thr[i]? = some (leaf, s))
      (hpc : c.pc i = .start) (hagg : T.agg leaf = false)
      (hstop : T.crit leaf = false ∨ T.parent leaf = none) :
      Move T c i ⟨upd c.st leaf s, upd c.pc i .done⟩
  | read (hi : i < T.nT) (n : Nat) (hpc : c.pc i = .read n) (hl : locked T c n = false) :
      Move T c i ⟨c.st, upd c.pc i (.enter n (c.st n))⟩
  | enterNone (hi : i < T.nT) (n : Nat) (v : TState) (hpc : c.pc i = .enter n v)
      (hpar : T.parent n = none) : Move T c i ⟨c.st, upd c.pc i .done⟩
  | enterSame (hi : i < T.nT) (n : Nat) (v : TState) (p : Nat) (hpc : c.pc i = .enter n v)
      (hpar : T.parent n = some p) (hl : locked T c p = false) (hsame : c.st p = v) :
      Move T c i ⟨c.st, upd c.pc i (after T p)⟩
  | enterMixed (hi : i < T.nT) (n : Nat) (p : Nat) (hpc : c.pc i = .enter n .MIXED)
      (hpar : T.parent n = some p) (hl : locked T c p = false) (hne : c.st p ≠ .ERROR) :
      Move T c i ⟨upd c.st p .MIXED, upd c.pc i (after T p)⟩
  | enterError (hi : i < T.nT) (n : Nat) (p : Nat) (hpc : c.pc i = .enter n .ERROR)
      (hpar : T.parent n = some p) (hl : locked T c p = false) :
      Move T c i ⟨upd c.st p .ERROR, upd c.pc i (after T p)⟩
  | enterFold (hi : i < T.nT) (n : Nat) (v : TState) (p : Nat) (hpc : c.pc i = .enter n v)
      (hpar : T.parent n = some p) (hl : locked T c p = false) (hv : v ≠ .ERROR) :
      Move T c i ⟨c.st, upd c.pc i (.fold p (T.kids p) .INVARIANT)⟩
  | foldRead (hi : i < T.nT) (p k : Nat) (todo : List Nat) (acc : TState)
      (hpc : c.pc i = .fold p (k :: todo) acc) (hl : locked T c k = false) :
      Move T c i ⟨c.st, upd c.pc i (.fold p todo (acc.X (c.st k)))⟩
  | foldStore (hi : i < T.nT) (p : Nat) (acc : TState) (hpc : c.pc i = .fold p [] acc) :
      Move T c i ⟨upd c.st p acc, upd c.pc i (after T p)⟩

theorem step_move (T : Topo) (c : Cfg) (i : Nat) : Move T c i (step T c i) := by
  unfold step
  cases hthr : T.thr[i]? with
  | none => exact .stay
  | some ls =>
    obtain ⟨leaf, s⟩ := ls
    have hi : i < T.nT := (List.getElem?_eq_some_iff.mp hthr).1
    simp only
    cases hpc : c.pc i with
    | done => exact .stay
    | start =>
      simp only
      by_cases hagg : T.agg leaf = true
      · simp only [hagg, if_true]
        exact .startSkip hi hpc
      · have hagg' : T.agg leaf = false := by simpa using hagg
        simp only [hagg', Bool.false_eq_true, if_false]
        by_cases hcrit : T.crit leaf = true
        · simp only [hcrit, if_true]
          cases hpar : T.parent leaf with
          | none => exact .leafStop hi leaf s hthr hpc hagg' (Or.inr hpar)
          | some p => exact .leafGo hi leaf s p hthr hpc hagg' hcrit hpar
        · have hcrit' : T.crit leaf = false := by simpa using hcrit
          simp only [hcrit', Bool.false_eq_true, if_false]
          exact .leafStop hi leaf s hthr hpc hagg' (Or.inl hcrit')
    | read n =>
      simp only
      by_cases hl : locked T c n = true
      · simp only [hl, if_true]; exact .stay
      · have hl' : locked T c n = false := by simpa using hl
        simp only [hl', Bool.false_eq_true, if_false]
        exact .read hi n hpc hl'
    | enter n v =>
      simp only
      cases hpar : T.parent n with
      | none => exact .enterNone hi n v hpc hpar
      | some p =>
        simp only
        by_cases hl : locked T c p = true
        · simp only [hl, if_true]; exact .stay
        · have hl' : locked T c p = false := by simpa using hl
          simp only [hl', Bool.false_eq_true, if_false]
          by_cases hsame : c.st p = v
          · simp only [hsame, if_true]
            exact .enterSame hi n v p hpc hpar hl' hsame
          · simp only [hsame, if_false]
            by_cases hm : v = .MIXED ∧ c.st p ≠ .ERROR
            · rw [if_pos hm]
              obtain ⟨hv, hne⟩ := hm
              subst hv
              exact Move.enterMixed hi n p hpc hpar hl' hne
            · simp only [hm, if_false]
              by_cases he : v = .ERROR
              · subst he
                simp only [if_true]
                exact .enterError hi n p hpc hpar hl'
              · simp only [he, if_false]
                exact .enterFold hi n v p hpc hpar hl' he
    | fold p todo acc =>
      cases todo with
      | nil => exact .foldStore hi p acc hpc
      | cons k todo =>
        simp only
        by_cases hl : locked T c k = true
        · simp only [hl, if_true]; exact .stay
        · have hl' : locked T c k = false := by simpa using hl
          simp only [hl', Bool.false_eq_true, if_false]
          exact .foldRead hi p k todo acc hpc hl'

/-- An invariant of every move is an invariant of every schedule. -/
theorem exec_inv (T : Topo) (P : Cfg → Prop) (hstep : ∀ c i c', P c → Move T c i c' → P c') :
    ∀ (sched : List Nat) (c : Cfg), P c → P (exec T c sched) := by
  intro sched
  induction sched with
  | nil => intro c h; exact h
  | cons i is ih => intro c h; exact ih _ (hstep c i _ h (step_move T c i))

theorem exec_append (T : Topo) (c : Cfg) (a b : List Nat) :
    exec T c (a ++ b) = exec T (exec T c a) b := by
  induction a generalizing c with
  | nil => rfl
  | cons i is ih => exact ih _

/-! ### never lost -/

/-- a thread is on its way to the parent of `k` and will deliver ERROR if `k` still is in ERROR -/
def Good (T : Topo) (c : Cfg) (k : Nat) : Prop :=
  ∃ j, j < T.nT ∧ (c.pc j = .read k ∨ c.pc j = .enter k .ERROR)

def NL (T : Topo) (c : Cfg) : Prop :=
  ∀ p k, k ∈ T.kids p → c.st k = .ERROR →
    Good T c k ∨
    (c.st p = .ERROR ∧
      ∀ j, j < T.nT → ∀ todo acc, c.pc j = .fold p todo acc → k ∈ todo ∨ acc = .ERROR)

/-- threads other than `i` keep their position -/
theorem Good_keep {T : Topo} {c : Cfg} {k i : Nat} {st' : Nat → TState} {pc' : PC}
    (h : Good T c k) (hi : ¬ (c.pc i = .read k ∨ c.pc i = .enter k .ERROR)) :
    Good T ⟨st', upd c.pc i pc'⟩ k := by
  obtain ⟨j, hj, hg⟩ := h
  refine ⟨j, hj, ?_⟩
  have hji : j ≠ i := by
    intro e; subst e; exact hi hg
  simpa [upd_other _ _ hji] using hg

theorem Good_new {T : Topo} {c : Cfg} {k i : Nat} {st' : Nat → TState} {pc' : PC} (hi : i < T.nT)
    (h : pc' = .read k ∨ pc' = .enter k .ERROR) : Good T ⟨st', upd c.pc i pc'⟩ k :=
  ⟨i, hi, (by simpa using h)⟩

/-- the folds in progress: unchanged for other threads -/
theorem folds_keep {T : Topo} {c : Cfg} {p k i : Nat} {pc' : PC}
    (h : ∀ j, j < T.nT → ∀ todo acc, c.pc j = .fold p todo acc → k ∈ todo ∨ acc = .ERROR)
    (hnew : ∀ todo acc, pc' = .fold p todo acc → k ∈ todo ∨ acc = .ERROR) :
    ∀ j, j < T.nT → ∀ todo acc, upd c.pc i pc' j = .fold p todo acc → k ∈ todo ∨ acc = .ERROR := by
  intro j hj todo acc hpc
  by_cases hji : j = i
  · subst hji
    rw [upd_same] at hpc
    exact hnew todo acc hpc
  · rw [upd_other _ _ hji] at hpc
    exact h j hj todo acc hpc

theorem NL_step (T : Topo) (c : Cfg) (i : Nat) (c' : Cfg) (h : NL T c) (m : Move T c i c') : NL T c' := by
  cases m with
  | stay => exact h
  | startSkip hi hpc =>
    intro p k hk hst
    rcases h p k hk hst with hg | ⟨hp, hf⟩
    · exact Or.inl (Good_keep hg (by rw [hpc]; simp))
    · exact Or.inr ⟨hp, folds_keep hf (by intro _ _ e; cases e)⟩
  | leafGo hi leaf s q hthr hpc hagg hcrit hpar =>
    intro p k hk hst
    by_cases hkl : k = leaf
    · subst hkl
      simp only [upd_same] at hst
      subst hst
      exact Or.inl (Good_new hi (Or.inr rfl))
    · simp only [upd_other _ _ hkl] at hst
      have hpl : p ≠ leaf := by
        intro e; subst e
        have := parent_agg (mem_kids.mp hk).2.1
        rw [hagg] at this; cases this
      rcases h p k hk hst with hg | ⟨hp, hf⟩
      · exact Or.inl (Good_keep hg (by rw [hpc]; simp))
      · refine Or.inr ⟨(by simpa [upd_other _ _ hpl] using hp), folds_keep hf (by intro _ _ e; cases e)⟩
  | leafStop hi leaf s hthr hpc hagg hstop =>
    intro p k hk hst
    by_cases hkl : k = leaf
    · subst hkl
      exfalso
      have hm := mem_kids.mp hk
      rcases hstop with hc | hn
      · rcases contrib_cases hm.2.2 with ha | hc'
        · rw [hagg] at ha; cases ha
        · rw [hc] at hc'; cases hc'
      · rw [hn] at hm; cases hm.2.1
    · simp only [upd_other _ _ hkl] at hst
      have hpl : p ≠ leaf := by
        intro e; subst e
        have := parent_agg (mem_kids.mp hk).2.1
        rw [hagg] at this; cases this
      rcases h p k hk hst with hg | ⟨hp, hf⟩
      · exact Or.inl (Good_keep hg (by rw [hpc]; simp))
      · refine Or.inr ⟨(by simpa [upd_other _ _ hpl] using hp), folds_keep hf (by intro _ _ e; cases e)⟩
  | read hi n hpc hl =>
    intro p k hk hst
    simp only at hst
    rcases h p k hk hst with hg | ⟨hp, hf⟩
    · by_cases hkn : k = n
      · subst hkn
        exact Or.inl (Good_new hi (Or.inr (by rw [hst])))
      · exact Or.inl (Good_keep hg (by rw [hpc]; simp; exact fun e => hkn e.symm))
    · exact Or.inr ⟨hp, folds_keep hf (by intro _ _ e; cases e)⟩
  | enterNone hi n v hpc hpar =>
    intro p k hk hst
    simp only at hst
    rcases h p k hk hst with hg | ⟨hp, hf⟩
    · refine Or.inl (Good_keep hg ?_)
      rw [hpc]; simp
      intro e1 _
      subst e1
      have := (mem_kids.mp hk).2.1
      rw [hpar] at this; cases this
    · exact Or.inr ⟨hp, folds_keep hf (by intro _ _ e; cases e)⟩
  | enterSame hi n v q hpc hpar hl hsame =>
    intro p k hk hst
    simp only at hst
    have hafter : ∀ todo acc, after T q = .fold p todo acc → k ∈ todo ∨ acc = .ERROR := by
      intro todo acc e
      rcases after_cases T q with ⟨e', _⟩ | ⟨e', _⟩ <;> rw [e'] at e <;> cases e
    rcases h p k hk hst with hg | ⟨hp, hf⟩
    · by_cases hme : c.pc i = .read k ∨ c.pc i = .enter k .ERROR
      · -- this thread was the one on its way: it found the parent in ERROR already
        rw [hpc] at hme
        simp at hme
        obtain ⟨e1, e2⟩ := hme
        subst e1; subst e2
        have hpq : p = q := by
          have := (mem_kids.mp hk).2.1
          rw [hpar] at this; cases this; rfl
        subst hpq
        refine Or.inr ⟨hsame, ?_⟩
        intro j hj todo acc hpcj
        dsimp only at hpcj
        by_cases hji : j = i
        · subst hji; rw [upd_same] at hpcj; exact hafter todo acc hpcj
        · rw [upd_other _ _ hji] at hpcj
          exact absurd hpcj (locked_false hl j hj todo acc)
      · exact Or.inl (Good_keep hg hme)
    · exact Or.inr ⟨hp, folds_keep hf hafter⟩
  | enterMixed hi n q hpc hpar hl hne =>
    intro p k hk hst
    have hafter : ∀ todo acc, after T q = .fold p todo acc → k ∈ todo ∨ acc = .ERROR := by
      intro todo acc e
      rcases after_cases T q with ⟨e', _⟩ | ⟨e', _⟩ <;> rw [e'] at e <;> cases e
    have hkq : k ≠ q := by
      intro e; subst e
      simp only [upd_same] at hst; cases hst
    simp only [upd_other _ _ hkq] at hst
    rcases h p k hk hst with hg | ⟨hp, hf⟩
    · exact Or.inl (Good_keep hg (by rw [hpc]; simp))
    · have hpq : p ≠ q := by
        intro e; subst e; exact hne hp
      exact Or.inr ⟨(by simpa [upd_other _ _ hpq] using hp), folds_keep hf hafter⟩
  | enterError hi n q hpc hpar hl =>
    intro p k hk hst
    have hafter : ∀ todo acc, after T q = .fold p todo acc → k ∈ todo ∨ acc = .ERROR := by
      intro todo acc e
      rcases after_cases T q with ⟨e', _⟩ | ⟨e', _⟩ <;> rw [e'] at e <;> cases e
    by_cases hkq : k = q
    · -- the role just put into ERROR: this thread takes it further up
      subst hkq
      have hq := (mem_kids.mp hk).2.1
      rcases after_cases T k with ⟨e', _⟩ | ⟨_, e'⟩
      · exact Or.inl (Good_new hi (Or.inl e'))
      · rw [e'] at hq; cases hq
    · simp only [upd_other _ _ hkq] at hst
      have hstp : p = q → upd c.st q .ERROR p = .ERROR := by intro e; subst e; simp
      rcases h p k hk hst with hg | ⟨hp, hf⟩
      · by_cases hme : c.pc i = .read k ∨ c.pc i = .enter k .ERROR
        · rw [hpc] at hme
          simp at hme
          subst hme
          have hpq : p = q := by
            have := (mem_kids.mp hk).2.1
            rw [hpar] at this; cases this; rfl
          refine Or.inr ⟨hstp hpq, ?_⟩
          subst hpq
          intro j hj todo acc hpcj
          dsimp only at hpcj
          by_cases hji : j = i
          · subst hji; rw [upd_same] at hpcj; exact hafter todo acc hpcj
          · rw [upd_other _ _ hji] at hpcj
            exact absurd hpcj (locked_false hl j hj todo acc)
        · exact Or.inl (Good_keep hg hme)
      · refine Or.inr ⟨?_, folds_keep hf hafter⟩
        by_cases hpq : p = q
        · exact hstp hpq
        · simpa [upd_other _ _ hpq] using hp
  | enterFold hi n v q hpc hpar hl hv =>
    intro p k hk hst
    simp only at hst
    rcases h p k hk hst with hg | ⟨hp, hf⟩
    · refine Or.inl (Good_keep hg ?_)
      rw [hpc]; simp
      intro _ e; exact hv e
    · refine Or.inr ⟨hp, folds_keep hf ?_⟩
      intro todo acc e
      cases e
      exact Or.inl hk
  | foldRead hi q k' todo acc hpc hl =>
    intro p k hk hst
    simp only at hst
    rcases h p k hk hst with hg | ⟨hp, hf⟩
    · exact Or.inl (Good_keep hg (by rw [hpc]; simp))
    · refine Or.inr ⟨hp, folds_keep hf ?_⟩
      intro todo' acc' e
      cases e
      rcases hf i hi (k' :: todo) acc hpc with hmem | hacc
      · rcases List.mem_cons.mp hmem with e | hmem'
        · subst e
          right; rw [hst]; exact X_error_right _
        · exact Or.inl hmem'
      · right; rw [hacc]; exact X_error_left _
  | foldStore hi q acc hpc =>
    intro p k hk hst
    have hafter : ∀ todo acc, after T q = .fold p todo acc → k ∈ todo ∨ acc = .ERROR := by
      intro todo acc e
      rcases after_cases T q with ⟨e', _⟩ | ⟨e', _⟩ <;> rw [e'] at e <;> cases e
    by_cases hkq : k = q
    · subst hkq
      have hq := (mem_kids.mp hk).2.1
      rcases after_cases T k with ⟨e', _⟩ | ⟨_, e'⟩
      · exact Or.inl (Good_new hi (Or.inl e'))
      · rw [e'] at hq; cases hq
    · simp only [upd_other _ _ hkq] at hst
      rcases h p k hk hst with hg | ⟨hp, hf⟩
      · exact Or.inl (Good_keep hg (by rw [hpc]; simp))
      · refine Or.inr ⟨?_, folds_keep hf hafter⟩
        by_cases hpq : p = q
        · subst hpq
          rcases hf i hi [] acc hpc with hmem | hacc
          · cases hmem
          · simp [hacc]
        · simpa [upd_other _ _ hpq] using hp

theorem errUp_iff (T : Topo) (st : Nat → TState) :
    errUp T st = true ↔ ∀ p k, k ∈ T.kids p → st k = .ERROR → st p = .ERROR := by
  simp only [errUp, List.all_eq_true, List.mem_range, Bool.or_eq_true, Bool.not_eq_true', beq_iff_eq,
    beq_eq_false_iff_ne, ne_eq]
  constructor
  · intro h p k hk hst
    have hp : p < T.nodes.length := agg_lt_len (parent_agg (mem_kids.mp hk).2.1)
    rcases h p hp k hk with h1 | h1
    · exact absurd hst h1
    · exact h1
  · intro h p _ k hk
    by_cases hst : st k = .ERROR
    · exact Or.inr (h p k hk hst)
    · exact Or.inl hst

theorem allStart_iff (T : Topo) (c : Cfg) : allStart T c = true ↔ ∀ j, j < T.nT → c.pc j = .start := by
  simp [allStart, List.all_eq_true, List.mem_range]

theorem quiescent_iff (T : Topo) (c : Cfg) : quiescent T c = true ↔ ∀ j, j < T.nT → c.pc j = .done := by
  simp [quiescent, List.all_eq_true, List.mem_range]

theorem NL_init (T : Topo) (c : Cfg) (hs : allStart T c = true) (he : errUp T c.st = true) : NL T c := by
  intro p k hk hst
  refine Or.inr ⟨(errUp_iff T c.st).mp he p k hk hst, ?_⟩
  intro j hj todo acc hpc
  rw [(allStart_iff T c).mp hs j hj] at hpc
  cases hpc

theorem NL_quiescent (T : Topo) (c : Cfg) (h : NL T c) (hq : quiescent T c = true) :
    errUp T c.st = true := by
  rw [errUp_iff]
  intro p k hk hst
  rcases h p k hk hst with ⟨j, hj, hg⟩ | ⟨hp, _⟩
  · rw [(quiescent_iff T c).mp hq j hj] at hg
    rcases hg with e | e <;> cases e
  · exact hp

/-! ### from every aggregator to the root -/

theorem wf_root (T : Topo) (h : T.wf = true) : T.agg 0 = true := by
  simp only [Topo.wf, Bool.and_eq_true] at h
  exact h.1.1

theorem wf_parent (T : Topo) (h : T.wf = true) {n : Nat} (hn : n < T.nodes.length) (h0 : n ≠ 0) :
    ∃ p, T.parent n = some p ∧ p < n := by
  simp only [Topo.wf, Bool.and_eq_true, List.all_eq_true, List.mem_range] at h
  have := h.2 n hn
  simp only [Bool.or_eq_true, beq_iff_eq, h0, false_or] at this
  cases hp : T.parent n with
  | none => rw [hp] at this; cases this
  | some p =>
    rw [hp] at this
    exact ⟨p, rfl, (by simpa using this)⟩

theorem up_to_root (T : Topo) (st : Nat → TState) (hwf : T.wf = true)
    (h : ∀ p k, k ∈ T.kids p → st k = .ERROR → st p = .ERROR) :
    ∀ n, n < T.nodes.length → T.contrib n = true → st n = .ERROR → st 0 = .ERROR := by
  intro n
  induction n using Nat.strongRecOn with
  | _ n ih =>
    intro hn hc hst
    by_cases h0 : n = 0
    · subst h0; exact hst
    · obtain ⟨p, hp, hlt⟩ := wf_parent T hwf hn h0
      have hagg := parent_agg hp
      exact ih p hlt (agg_lt_len hagg) (contrib_of_agg hagg)
        (h p n (mem_kids.mpr ⟨hn, hp, hc⟩) hst)

/-! ### never invented -/

/-- positions only ever name aggregators as the role being merged or folded -/
def PcOk (T : Topo) (c : Cfg) : Prop :=
  ∀ j, j < T.nT →
    (∀ n, c.pc j = .read n → T.agg n = true) ∧
    (∀ p todo acc, c.pc j = .fold p todo acc → T.agg p = true ∧ ∀ k, k ∈ todo → T.contrib k = true)

theorem after_ok {T : Topo} {n p : Nat} (hpar : T.parent n = some p) :
    (∀ m, after T p = .read m → T.agg m = true) ∧
    (∀ q todo acc, after T p = .fold q todo acc → T.agg q = true ∧ ∀ k, k ∈ todo → T.contrib k = true) := by
  rcases after_cases T p with ⟨e, _⟩ | ⟨e, _⟩ <;> rw [e]
  · exact ⟨(by intro m h; cases h; exact parent_agg hpar), (by intro _ _ _ h; cases h)⟩
  · exact ⟨(by intro m h; cases h), (by intro _ _ _ h; cases h)⟩

theorem after_ok' {T : Topo} {p : Nat} (hagg : T.agg p = true) :
    (∀ m, after T p = .read m → T.agg m = true) ∧
    (∀ q todo acc, after T p = .fold q todo acc → T.agg q = true ∧ ∀ k, k ∈ todo → T.contrib k = true) := by
  rcases after_cases T p with ⟨e, _⟩ | ⟨e, _⟩ <;> rw [e]
  · exact ⟨(by intro m h; cases h; exact hagg), (by intro _ _ _ h; cases h)⟩
  · exact ⟨(by intro m h; cases h), (by intro _ _ _ h; cases h)⟩

theorem PcOk_upd {T : Topo} {c : Cfg} {i : Nat} {st' : Nat → TState} {pc' : PC} (h : PcOk T c)
    (hnew : (∀ n, pc' = .read n → T.agg n = true) ∧
      (∀ p todo acc, pc' = .fold p todo acc → T.agg p = true ∧ ∀ k, k ∈ todo → T.contrib k = true)) :
    PcOk T ⟨st', upd c.pc i pc'⟩ := by
  intro j hj
  by_cases hji : j = i
  · subst hji; simpa using hnew
  · simpa [upd_other _ _ hji] using h j hj

theorem PcOk_step (T : Topo) (c : Cfg) (i : Nat) (c' : Cfg) (h : PcOk T c) (m : Move T c i c') : PcOk T c' := by
  have triv : ∀ pc' : PC, (∀ n, pc' ≠ .read n) → (∀ p t a, pc' ≠ .fold p t a) →
      (∀ n, pc' = .read n → T.agg n = true) ∧
      (∀ p todo acc, pc' = .fold p todo acc → T.agg p = true ∧ ∀ k, k ∈ todo → T.contrib k = true) :=
    fun pc' h1 h2 => ⟨fun n e => absurd e (h1 n), fun p t a e => absurd e (h2 p t a)⟩
  cases m with
  | stay => exact h
  | startSkip hi hpc => exact PcOk_upd h (triv _ (by simp) (by simp))
  | leafGo hi leaf s q hthr hpc hagg hcrit hpar => exact PcOk_upd h (triv _ (by simp) (by simp))
  | leafStop hi leaf s hthr hpc hagg hstop => exact PcOk_upd h (triv _ (by simp) (by simp))
  | read hi n hpc hl => exact PcOk_upd h (triv _ (by simp) (by simp))
  | enterNone hi n v hpc hpar => exact PcOk_upd h (triv _ (by simp) (by simp))
  | enterSame hi n v q hpc hpar hl hsame => exact PcOk_upd h (after_ok hpar)
  | enterMixed hi n q hpc hpar hl hne => exact PcOk_upd h (after_ok hpar)
  | enterError hi n q hpc hpar hl => exact PcOk_upd h (after_ok hpar)
  | enterFold hi n v q hpc hpar hl hv =>
    refine PcOk_upd h ⟨(by intro _ e; cases e), ?_⟩
    intro p todo acc e
    cases e
    exact ⟨parent_agg hpar, fun k hk => (mem_kids.mp hk).2.2⟩
  | foldRead hi q k' todo acc hpc hl =>
    refine PcOk_upd h ⟨(by intro _ e; cases e), ?_⟩
    intro p todo' acc' e
    cases e
    have := (h i hi).2 q (k' :: todo) acc hpc
    exact ⟨this.1, fun k hk => this.2 k (List.mem_cons_of_mem _ hk)⟩
  | foldStore hi q acc hpc => exact PcOk_upd h (after_ok' ((h i hi).2 q [] acc hpc).1)

theorem PcOk_init (T : Topo) (c : Cfg) (hs : allStart T c = true) : PcOk T c := by
  intro j hj
  rw [(allStart_iff T c).mp hs j hj]
  exact ⟨(by intro _ e; cases e), (by intro _ _ _ e; cases e)⟩

/-- no ERROR anywhere it could travel from -/
def Clean (T : Topo) (c : Cfg) : Prop :=
  (∀ n, T.contrib n = true → c.st n ≠ .ERROR) ∧
  (∀ j, j < T.nT →
    (∀ n v, c.pc j = .enter n v → v ≠ .ERROR) ∧
    (∀ p todo acc, c.pc j = .fold p todo acc → acc ≠ .ERROR))

def CritErr (T : Topo) (c : Cfg) : Prop := ∃ l, T.crit l = true ∧ c.st l = .ERROR

theorem Clean_upd {T : Topo} {c : Cfg} {i : Nat} {st' : Nat → TState} {pc' : PC}
    (hst : ∀ n, T.contrib n = true → st' n ≠ .ERROR)
    (hold : ∀ j, j < T.nT →
      (∀ n v, c.pc j = .enter n v → v ≠ .ERROR) ∧ (∀ p todo acc, c.pc j = .fold p todo acc → acc ≠ .ERROR))
    (hnew : (∀ n v, pc' = .enter n v → v ≠ .ERROR) ∧ (∀ p todo acc, pc' = .fold p todo acc → acc ≠ .ERROR)) :
    Clean T ⟨st', upd c.pc i pc'⟩ := by
  refine ⟨hst, ?_⟩
  intro j hj
  by_cases hji : j = i
  · subst hji; simpa using hnew
  · simpa [upd_other _ _ hji] using hold j hj

theorem after_clean (T : Topo) (p : Nat) :
    (∀ n v, after T p = .enter n v → v ≠ .ERROR) ∧ (∀ q todo acc, after T p = .fold q todo acc → acc ≠ .ERROR) := by
  rcases after_cases T p with ⟨e, _⟩ | ⟨e, _⟩ <;> rw [e] <;>
    exact ⟨(by intro _ _ h; cases h), (by intro _ _ _ h; cases h)⟩

theorem Clean_step (T : Topo) (c : Cfg) (i : Nat) (c' : Cfg) (hok : PcOk T c) (h : Clean T c)
    (m : Move T c i c') : Clean T c' ∨ CritErr T c' := by
  obtain ⟨hst, hpcs⟩ := h
  have trivPc : ∀ pc' : PC, (∀ n v, pc' ≠ .enter n v) → (∀ p t a, pc' ≠ .fold p t a) →
      (∀ n v, pc' = .enter n v → v ≠ .ERROR) ∧ (∀ p todo acc, pc' = .fold p todo acc → acc ≠ .ERROR) :=
    fun pc' h1 h2 => ⟨fun n v e => absurd e (h1 n v), fun p t a e => absurd e (h2 p t a)⟩
  have updSt : ∀ (q : Nat) (v : TState), v ≠ .ERROR → ∀ n, T.contrib n = true → upd c.st q v n ≠ .ERROR := by
    intro q v hv n hn
    by_cases e : n = q
    · subst e; simpa using hv
    · rw [upd_other _ _ e]; exact hst n hn
  cases m with
  | stay => exact Or.inl ⟨hst, hpcs⟩
  | startSkip hi hpc => exact Or.inl (Clean_upd hst hpcs (trivPc _ (by simp) (by simp)))
  | leafGo hi leaf s q hthr hpc hagg hcrit hpar =>
    by_cases hs : s = .ERROR
    · exact Or.inr ⟨leaf, hcrit, (by simp [hs])⟩
    · refine Or.inl (Clean_upd (updSt leaf s hs) hpcs ⟨?_, (by intro _ _ _ e; cases e)⟩)
      intro n v e; cases e; exact hs
  | leafStop hi leaf s hthr hpc hagg hstop =>
    by_cases hs : s = .ERROR
    · by_cases hcrit : T.crit leaf = true
      · exact Or.inr ⟨leaf, hcrit, (by simp [hs])⟩
      · refine Or.inl (Clean_upd ?_ hpcs (trivPc _ (by simp) (by simp)))
        intro n hn
        by_cases e : n = leaf
        · subst e
          rcases contrib_cases hn with ha | hc
          · rw [hagg] at ha; cases ha
          · exact absurd hc hcrit
        · rw [upd_other _ _ e]; exact hst n hn
    · exact Or.inl (Clean_upd (updSt leaf s hs) hpcs (trivPc _ (by simp) (by simp)))
  | read hi n hpc hl =>
    refine Or.inl (Clean_upd hst hpcs ⟨?_, (by intro _ _ _ e; cases e)⟩)
    intro m v e
    cases e
    exact hst n (contrib_of_agg ((hok i hi).1 n hpc))
  | enterNone hi n v hpc hpar => exact Or.inl (Clean_upd hst hpcs (trivPc _ (by simp) (by simp)))
  | enterSame hi n v q hpc hpar hl hsame => exact Or.inl (Clean_upd hst hpcs (after_clean T q))
  | enterMixed hi n q hpc hpar hl hne =>
    exact Or.inl (Clean_upd (updSt q .MIXED (by simp)) hpcs (after_clean T q))
  | enterError hi n q hpc hpar hl => exact absurd rfl ((hpcs i hi).1 n .ERROR hpc)
  | enterFold hi n v q hpc hpar hl hv =>
    refine Or.inl (Clean_upd hst hpcs ⟨(by intro _ _ e; cases e), ?_⟩)
    intro p todo acc e
    cases e
    simp
  | foldRead hi q k' todo acc hpc hl =>
    refine Or.inl (Clean_upd hst hpcs ⟨(by intro _ _ e; cases e), ?_⟩)
    intro p todo' acc' e
    cases e
    exact X_ne_error ((hpcs i hi).2 q (k' :: todo) acc hpc)
      (hst k' (((hok i hi).2 q (k' :: todo) acc hpc).2 k' (List.mem_cons_self ..)))
  | foldStore hi q acc hpc =>
    exact Or.inl (Clean_upd (updSt q acc ((hpcs i hi).2 q [] acc hpc)) hpcs (after_clean T q))

theorem Clean_init (T : Topo) (c : Cfg) (hs : allStart T c = true)
    (hst : ∀ n, T.contrib n = true → c.st n ≠ .ERROR) : Clean T c := by
  refine ⟨hst, ?_⟩
  intro j hj
  rw [(allStart_iff T c).mp hs j hj]
  exact ⟨(by intro _ _ e; cases e), (by intro _ _ _ e; cases e)⟩

/-- If nothing that counts is in ERROR and no ERROR is on its way, the root can only come to report
    ERROR after some critical task/call role was in ERROR. -/
theorem not_invented_aux (T : Topo) (hroot : T.contrib 0 = true) :
    ∀ (sched : List Nat) (c : Cfg), PcOk T c → Clean T c → (exec T c sched).st 0 = .ERROR →
      ∃ k, k ≤ sched.length ∧ CritErr T (exec T c (sched.take k)) := by
  intro sched
  induction sched with
  | nil =>
    intro c _ hc h
    exact absurd h (hc.1 0 hroot)
  | cons i is ih =>
    intro c hok hc h
    have hm := step_move T c i
    rcases Clean_step T c i _ hok hc hm with hc' | he
    · obtain ⟨k, hk, hcrit⟩ := ih (step T c i) (PcOk_step T c i _ hok hm) hc' h
      exact ⟨k + 1, (by simpa using hk), (by simpa [exec] using hcrit)⟩
    · exact ⟨1, (by simp), (by simpa [exec] using he)⟩

/-! ### a leaf holds what was delivered to it -/

def LeafSrc (T : Topo) (st0 : Nat → TState) (c : Cfg) : Prop :=
  ∀ n, T.agg n = false → c.st n = st0 n ∨ ∃ j : Nat, T.thr[j]? = some (n, c.st n)

theorem LeafSrc_step (T : Topo) (st0 : Nat → TState) (c : Cfg) (i : Nat) (c' : Cfg) (hok : PcOk T c)
    (h : LeafSrc T st0 c) (m : Move T c i c') : LeafSrc T st0 c' := by
  have aggWrite : ∀ (q : Nat) (v : TState), T.agg q = true → LeafSrc T st0 ⟨upd c.st q v, c'.pc⟩ := by
    intro q v hq n hn
    have : n ≠ q := by intro e; subst e; rw [hq] at hn; cases hn
    simpa [upd_other _ _ this] using h n hn
  have leafWrite : ∀ (leaf : Nat) (s : TState), T.thr[i]? = some (leaf, s) →
      LeafSrc T st0 ⟨upd c.st leaf s, c'.pc⟩ := by
    intro leaf s hthr n hn
    by_cases e : n = leaf
    · subst e; exact Or.inr ⟨i, (by simpa using hthr)⟩
    · simpa [upd_other _ _ e] using h n hn
  cases m with
  | stay => exact h
  | startSkip hi hpc => exact h
  | leafGo hi leaf s q hthr hpc hagg hcrit hpar => exact leafWrite leaf s hthr
  | leafStop hi leaf s hthr hpc hagg hstop => exact leafWrite leaf s hthr
  | read hi n hpc hl => exact h
  | enterNone hi n v hpc hpar => exact h
  | enterSame hi n v q hpc hpar hl hsame => exact h
  | enterMixed hi n q hpc hpar hl hne => exact aggWrite q _ (parent_agg hpar)
  | enterError hi n q hpc hpar hl => exact aggWrite q _ (parent_agg hpar)
  | enterFold hi n v q hpc hpar hl hv => exact h
  | foldRead hi q k' todo acc hpc hl => exact h
  | foldStore hi q acc hpc => exact aggWrite q _ ((hok i hi).2 q [] acc hpc).1

/-! ### mutual exclusion of the folds -/

def Mutex (T : Topo) (c : Cfg) : Prop :=
  ∀ j1 j2, j1 < T.nT → j2 < T.nT → ∀ p t1 a1 t2 a2,
    c.pc j1 = .fold p t1 a1 → c.pc j2 = .fold p t2 a2 → j1 = j2

theorem Mutex_upd {T : Topo} {c : Cfg} {i : Nat} {st' : Nat → TState} {pc' : PC} (h : Mutex T c)
    (hnew : ∀ p t a, pc' = .fold p t a → ∀ j, j < T.nT → j ≠ i → ∀ t' a', c.pc j ≠ .fold p t' a') :
    Mutex T ⟨st', upd c.pc i pc'⟩ := by
  intro j1 j2 h1 h2 p t1 a1 t2 a2 e1 e2
  dsimp only at e1 e2
  by_cases hj1 : j1 = i <;> by_cases hj2 : j2 = i
  · rw [hj1, hj2]
  · subst hj1
    rw [upd_same] at e1
    rw [upd_other _ _ hj2] at e2
    exact absurd e2 (hnew p t1 a1 e1 j2 h2 hj2 t2 a2)
  · subst hj2
    rw [upd_same] at e2
    rw [upd_other _ _ hj1] at e1
    exact absurd e1 (hnew p t2 a2 e2 j1 h1 hj1 t1 a1)
  · rw [upd_other _ _ hj1] at e1
    rw [upd_other _ _ hj2] at e2
    exact h j1 j2 h1 h2 p t1 a1 t2 a2 e1 e2

theorem Mutex_step (T : Topo) (c : Cfg) (i : Nat) (c' : Cfg) (h : Mutex T c) (m : Move T c i c') : Mutex T c' := by
  have noFold : ∀ pc' : PC, (∀ p t a, pc' ≠ .fold p t a) →
      ∀ p t a, pc' = .fold p t a → ∀ j, j < T.nT → j ≠ i → ∀ t' a', c.pc j ≠ .fold p t' a' :=
    fun pc' hne p t a e => absurd e (hne p t a)
  have afterNoFold : ∀ q p t a, after T q ≠ .fold p t a := by
    intro q p t a e
    rcases after_cases T q with ⟨e', _⟩ | ⟨e', _⟩ <;> rw [e'] at e <;> cases e
  cases m with
  | stay => exact h
  | startSkip hi hpc => exact Mutex_upd h (noFold _ (by simp))
  | leafGo hi leaf s q hthr hpc hagg hcrit hpar => exact Mutex_upd h (noFold _ (by simp))
  | leafStop hi leaf s hthr hpc hagg hstop => exact Mutex_upd h (noFold _ (by simp))
  | read hi n hpc hl => exact Mutex_upd h (noFold _ (by simp))
  | enterNone hi n v hpc hpar => exact Mutex_upd h (noFold _ (by simp))
  | enterSame hi n v q hpc hpar hl hsame => exact Mutex_upd h (noFold _ (afterNoFold q))
  | enterMixed hi n q hpc hpar hl hne => exact Mutex_upd h (noFold _ (afterNoFold q))
  | enterError hi n q hpc hpar hl => exact Mutex_upd h (noFold _ (afterNoFold q))
  | enterFold hi n v q hpc hpar hl hv =>
    refine Mutex_upd h ?_
    intro p t a e j hj _ t' a'
    cases e
    exact locked_false hl j hj t' a'
  | foldRead hi q k' todo acc hpc hl =>
    refine Mutex_upd h ?_
    intro p t a e j hj hji t' a' ej
    cases e
    exact hji (h j i hj hi q t' a' (k' :: todo) acc ej hpc)
  | foldStore hi q acc hpc => exact Mutex_upd h (noFold _ (afterNoFold q))

theorem Mutex_init (T : Topo) (c : Cfg) (hs : allStart T c = true) : Mutex T c := by
  intro j1 _ h1 _ p t1 a1 _ _ e1 _
  rw [(allStart_iff T c).mp hs j1 h1] at e1
  cases e1

end RoleTree.Conc
