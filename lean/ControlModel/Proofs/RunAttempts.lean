/-
  Proofs/RunAttempts — lemmas for the environment-level half of C07:
    * one call of the protocol on a well-formed durable store (Inv of Proofs/RunNumber from a
      fresh `init st`): the store stays well-formed, its level never goes down, a number
      obtained lies above the level before and at most at the level after;
    * hence the numbers of ANY sequence of attempts strictly increase (induction over the history);
    * the environment machine of Model/Env.lean advances its own `counter` exactly at the
      requests `RunAttempts.attOf` calls `.ok` (frame lemmas for `counter`).
-/
import ControlModel.Model.RunAttempts
import ControlModel.Proofs.RunNumber
import ControlModel.Proofs.EnvRun

namespace RunAttempts
open RunNumber

theorem callSteps_foreignMonotone (p : Proto) (c : Call) (s : Sys) :
    ForeignMonotone p (callSteps c) s = true := by
  cases c <;> simp [callSteps, ForeignMonotone, stepForeignOk]

/-- What the invariant says about a number that was returned. -/
theorem returned_bounds {p : Proto} {L : Nat} {s : Sys} (inv : Inv p L s) (c n : Nat)
    (hc : returned s c = some n) : L < n ∧ n ≤ s.store.level := by
  unfold returned at hc
  cases hcc : s.callers c with
  | done v e t t' q =>
    rw [hcc] at hc
    cases e <;> simp [adopted] at hc
    subst hc
    have := inv.bound _ (inv.logged c _ _ _ _ hcc)
    exact ⟨this.2.1, this.1⟩
  | idle => rw [hcc] at hc; simp [adopted] at hc
  | holding _ _ _ => rw [hcc] at hc; simp [adopted] at hc
  | dead _ => rw [hcc] at hc; simp [adopted] at hc

/-- One attempt of the consumer that always calls (`fresh`): the durable store stays well-formed,
    its level does not go down, and a number obtained is above the old level and at most the new. -/
theorem attempt_fresh (cfg : EnvCfg) (hf : cfg.fresh = true) (p : Proto) (hcas : p.useCas = true)
    (hchk : p.checkOk = true) (hg : p.guard = true) (st : Store) (hwf : st.WF) (prev : Nat) (a : Att) :
    (attempt cfg p st prev a).2.WF ∧ st.level ≤ (attempt cfg p st prev a).2.level ∧
    ∀ n, (attempt cfg p st prev a).1 = some n → st.level < n ∧ n ≤ (attempt cfg p st prev a).2.level := by
  have hfm := callSteps_foreignMonotone p a.call (init st)
  have hnw := guard_noWrap hcas hchk hg (callSteps a.call) (init st) (inv_init p st hwf) hfm
  have inv := run_inv hcas hchk (callSteps a.call) (init st) (inv_init p st hwf) hfm hnw
  have hat : attempt cfg p st prev a =
      (returned (run p (callSteps a.call) (init st)) 0, (run p (callSteps a.call) (init st)).store) := by
    simp [attempt, hf]
  rw [hat]
  exact ⟨inv.wf, inv.base, fun n hn => returned_bounds inv 0 n hn⟩

theorem obtained_cons_none (l : List (Option Nat)) : obtained (none :: l) = obtained l := by
  simp [obtained]

theorem obtained_cons_some (n : Nat) (l : List (Option Nat)) : obtained (some n :: l) = n :: obtained l := by
  simp [obtained]

/-- The numbers of any sequence of attempts strictly increase, and all lie above the level the
    shared counter had when the history began. -/
theorem attempts_increasing (cfg : EnvCfg) (hf : cfg.fresh = true) (p : Proto) (hcas : p.useCas = true)
    (hchk : p.checkOk = true) (hg : p.guard = true) :
    ∀ (as : List Att) (st : Store) (prev : Nat), st.WF →
      (obtained (attempts cfg p st prev as)).Pairwise (· < ·) ∧
      ∀ n ∈ obtained (attempts cfg p st prev as), st.level < n
  | [], _, _, _ => by simp [attempts, obtained]
  | a :: as, st, prev, hwf => by
    have h := attempt_fresh cfg hf p hcas hchk hg st hwf prev a
    have ih := attempts_increasing cfg hf p hcas hchk hg as (attempt cfg p st prev a).2
      ((attempt cfg p st prev a).1.getD prev) h.1
    simp only [attempts]
    cases hr : (attempt cfg p st prev a).1 with
    | none =>
      rw [obtained_cons_none]
      rw [hr] at ih
      refine ⟨ih.1, fun n hn => ?_⟩
      exact Nat.lt_of_le_of_lt h.2.1 (ih.2 n hn)
    | some m =>
      rw [obtained_cons_some]
      rw [hr] at ih
      have hm := h.2.2 m hr
      refine ⟨List.pairwise_cons.2 ⟨fun n hn => ?_, ih.1⟩, fun n hn => ?_⟩
      · exact Nat.lt_of_le_of_lt hm.2 (ih.2 n hn)
      · rcases List.mem_cons.1 hn with rfl | hn
        · exact hm.1
        · exact Nat.lt_of_le_of_lt h.2.1 (ih.2 n hn)

theorem increasingB_of_pairwise : ∀ (l : List Nat), l.Pairwise (· < ·) → increasingB l = true
  | [], _ => rfl
  | x :: xs, h => by
    rw [List.pairwise_cons] at h
    simp only [increasingB, Bool.and_eq_true, List.all_eq_true, decide_eq_true_eq]
    exact ⟨h.1, increasingB_of_pairwise xs h.2⟩

theorem flatten_toList (l : List (Option Nat)) : (l.map Option.toList).flatten = obtained l := by
  induction l with
  | nil => rfl
  | cons x xs ih =>
    cases x with
    | none => simp [obtained_cons_none, ih]
    | some n => simp [obtained_cons_some, ih]

theorem specEnv_of_pairwise (l : List (Option Nat)) (h : (obtained l).Pairwise (· < ·)) :
    SpecEnv (l.map Option.toList) = true := by
  simp only [SpecEnv, Bool.and_eq_true, List.all_eq_true, decide_eq_true_eq]
  refine ⟨?_, ?_⟩
  · intro x hx
    rcases List.mem_map.1 hx with ⟨o, _, rfl⟩
    cases o <;> simp
  · rw [flatten_toList]; exact increasingB_of_pairwise _ h

end RunAttempts

/-! ### the environment machine touches its counter only in START_ACTIVITY's before_event -/

namespace EnvM

theorem handleHooks_counter (env : Env) (hooks : List Hook) (m : Moment) (p : Int → Bool) :
    (handleHooks env hooks m p).1.counter = env.counter := congrArg Core.counter (handleHooks_core env hooks m p)

@[simp] theorem setSoeor_counter (env : Env) (tr : String) (p : Bool) : (setSoeorIfEmpty env tr p).1.counter = env.counter := by
  unfold setSoeorIfEmpty; split <;> rfl

@[simp] theorem setEoeor_counter (env : Env) (tr : String) (s : RunStatus) : (setEoeorIfEmpty env tr s).1.counter = env.counter := by
  unfold setEoeorIfEmpty; split <;> rfl

theorem bkBefore_counter_other (env : Env) (e : Ev) (r : Bool) (h : e ≠ .START_ACTIVITY ∨ r = true) :
    (bkBefore env e r).1.counter = env.counter := by
  unfold bkBefore
  cases e <;> simp only [] <;> first
    | rfl
    | exact setSoeor_counter ..
    | (rcases h with h | h
       · exact absurd rfl h
       · subst h; rfl)

theorem bkBefore_fails (env : Env) (e : Ev) (r : Bool) :
    (bkBefore env e r).2.2 = (e == .START_ACTIVITY && r) := by
  unfold bkBefore
  cases e <;> cases r <;> rfl

theorem bkAfter_counter (env : Env) (e : Ev) (f : Bool) : (bkAfter env e f).1.counter = env.counter := by
  unfold bkAfter
  cases e <;> simp only [] <;> first | rfl | exact setEoeor_counter ..

theorem finAfter_counter (env : Env) (e : Ev) : (finAfter env e).1.counter = env.counter := by
  unfold finAfter; split <;> rfl

theorem leaveState_counter (env : Env) (hooks : List Hook) (e : Ev) (b : Bool) :
    (leaveState env hooks e b).1.counter = env.counter := by
  unfold leaveState
  simp only
  (repeat' split) <;> simp [handleHooks_counter]

theorem enterState_counter (env : Env) (hooks : List Hook) : (enterState env hooks).1.counter = env.counter := by
  unfold enterState; simp [handleHooks_counter]

theorem afterEvent_counter (env : Env) (hooks : List Hook) (e : Ev) (errs : List (Nat × Moment)) :
    (afterEvent env hooks e errs).1.counter = env.counter := by
  unfold afterEvent
  simp only
  rw [finAfter_counter, handleHooks_counter, bkAfter_counter, handleHooks_counter]

theorem callAllSync_counter (env : Env) (m : Moment) (w : Int) (hs : List Hook) :
    (callAllSync env m w hs).1.counter = env.counter := by
  induction hs generalizing env with
  | nil => rfl
  | cons h hs ih => simp only [callAllSync]; exact ih _

theorem destroyWeights_counter (env : Env) (hooks : List Hook) (ws : List Int) :
    (destroyWeights env hooks ws).1.counter = env.counter := by
  induction ws generalizing env with
  | nil => rfl
  | cons w ws ih =>
    simp only [destroyWeights]
    rw [ih, callAllSync_counter]

theorem teardown_counter (env : Env) (hooks : List Hook) (f r1 r2 : Bool) (n : Nat) :
    (teardown env hooks f r1 r2 n).1.counter = env.counter := by
  unfold teardown
  simp only
  (repeat' split) <;> simp [handleHooks_counter, destroyWeights_counter]

end EnvM

namespace RunAttempts
open EnvM

theorem reaches_other (env : Env) (hooks : List Hook) (e : Ev) (h : e ≠ .START_ACTIVITY) : reaches env hooks e = false := by
  cases e <;> first | rfl | exact absurd rfl h

theorem callOf_other (env : Env) (hooks : List Hook) (e : Ev) (r : Bool) (h : e ≠ .START_ACTIVITY) :
    callOf env hooks e r = .none := by
  simp [callOf, reaches_other env hooks e h]

/-- `before_event`: the counter advances exactly when the request is an attempt whose call succeeds,
    and an attempt whose call fails is cancelled with the run-number error. -/
theorem beforeEvent_call (env : Env) (hooks : List Hook) (e : Ev) (r : Bool) (d : St) (hd : dst? e env.st = some d) :
    (beforeEvent env hooks e r).1.counter = env.counter + (if callOf env hooks e r = .ok then 1 else 0) ∧
    (callOf env hooks e r = .fails → (beforeEvent env hooks e r).2.2 = some .cancelledRn) := by
  by_cases he : e = .START_ACTIVITY
  · subst he
    have hst : env.st = .CONFIGURED := by
      cases hs : env.st <;> rw [hs] at hd <;> first | rfl | (simp [dst?] at hd)
    unfold beforeEvent
    simp only
    by_cases hneg : (handleHooks env hooks (.before .START_ACTIVITY) negW).2.2 > 0
    · have hr : reaches env hooks .START_ACTIVITY = false := by
        simp only [reaches, hst]
        have : ((handleHooks env hooks (.before .START_ACTIVITY) negW).2.2 == 0) = false := by
          simp; omega
        simp [this]
      simp [hneg, callOf, hr, handleHooks_counter]
    · have h0 : (handleHooks env hooks (.before .START_ACTIVITY) negW).2.2 = 0 := by omega
      have hr : reaches env hooks .START_ACTIVITY = true := by
        simp [reaches, hst, h0]
      cases r with
      | true =>
        simp [hneg, callOf, hr, bkBefore_fails, bkBefore_counter_other, handleHooks_counter]
      | false =>
        have hbk := bkBefore_START (handleHooks env hooks (.before .START_ACTIVITY) negW).1 hooks
        simp [hneg, callOf, hr, hbk.1, hbk.2.2.1, handleHooks_counter]
  · rw [callOf_other env hooks e r he]
    refine ⟨?_, fun h => by cases h⟩
    simp only [reduceCtorEq, if_false, Nat.add_zero]
    unfold beforeEvent
    simp only
    have hb := bkBefore_counter_other (handleHooks env hooks (.before e) negW).1 e r (Or.inl he)
    (repeat' split) <;> simp [handleHooks_counter, hb]

theorem callOf_illegal (env : Env) (hooks : List Hook) (e : Ev) (r : Bool) (hd : dst? e env.st = none) :
    callOf env hooks e r = .none := by
  by_cases he : e = .START_ACTIVITY
  · subst he
    have : (env.st == St.CONFIGURED) = false := by
      cases hs : env.st <;> rw [hs] at hd <;> first | rfl | (simp [dst?] at hd)
    simp [callOf, reaches, this]
  · exact callOf_other env hooks e r he

/-- `Sm.Event`: the environment machine's counter advances exactly at the attempts whose call succeeds. -/
theorem fsmEvent_counter (env : Env) (hooks : List Hook) (e : Ev) (b r : Bool) :
    (fsmEvent env hooks e b r).1.counter = env.counter + (if callOf env hooks e r = .ok then 1 else 0) := by
  unfold fsmEvent
  split
  · rename_i hd
    rw [callOf_illegal env hooks e r hd]; simp
  · rename_i d hd
    simp only
    have hb := (beforeEvent_call env hooks e r d hd).1
    split
    · exact hb
    · split
      · rw [leaveState_counter]; exact hb
      · rw [afterEvent_counter, enterState_counter]
        show (leaveState (beforeEvent env hooks e r).1 hooks e b).1.counter = _
        rw [leaveState_counter]; exact hb

/-- An attempt whose call fails is cancelled: the request reports the run-number error. -/
theorem fsmEvent_fails (env : Env) (hooks : List Hook) (e : Ev) (b r : Bool)
    (h : callOf env hooks e r = .fails) : (fsmEvent env hooks e b r).2.2 = .cancelledRn := by
  unfold fsmEvent
  split
  · rename_i hd
    rw [callOf_illegal env hooks e r hd] at h; cases h
  · rename_i d hd
    simp only
    rw [(beforeEvent_call env hooks e r d hd).2 h]

theorem controlApi_counter (env : Env) (hooks : List Hook) (e : Ev) (b r : Bool) :
    (controlApi env hooks e b r).1.counter = env.counter + (if callOf env hooks e r = .ok then 1 else 0) := by
  unfold controlApi tryTransition
  simp only
  have hg := fsmEvent_counter (fsmEvent env hooks e b r).1 hooks .GO_ERROR true false
  rw [callOf_other _ hooks .GO_ERROR false (by decide)] at hg
  simp only [reduceCtorEq, if_false, Nat.add_zero] at hg
  have hf := fsmEvent_counter env hooks e b r
  generalize (if callOf env hooks e r = Call.ok then 1 else 0) = k at hf ⊢
  (repeat' split) <;> simp [hg, hf]

/-- One request: the environment machine's counter advances exactly when the request is an attempt
    whose call succeeds (`attOf … = .ok`) — for transitions, the API glue and teardowns alike. -/
theorem step_counter (hooks : List Hook) (nTasks : Nat) (env : Env) (q : Req) :
    (EnvM.step hooks nTasks env q).1.counter = env.counter + (if (attOf env hooks q).call = .ok then 1 else 0) := by
  cases q with
  | try_ e b r => exact fsmEvent_counter env hooks e b r
  | control e b r =>
    simp only [EnvM.step, attOf]
    split
    · simp
    · exact controlApi_counter env hooks e b r
  | teardown f r1 r2 =>
    simp only [EnvM.step, attOf]
    split
    · simp
    · simp [teardown_counter]

def okCount (as : List Att) : Nat := (as.filter (fun a => a.call == .ok)).length

/-- Over a whole history the machine's counter counts the successful calls: number k of the
    environment machine IS the number obtained by the k-th call of the history. -/
theorem finalEnv_counter (hooks : List Hook) (nTasks : Nat) (reqs : List Req) (env : Env) :
    (finalEnv hooks nTasks env reqs).counter = env.counter + okCount (atts hooks nTasks env reqs) := by
  induction reqs generalizing env with
  | nil => simp [finalEnv, atts, okCount]
  | cons q qs ih =>
    have h := ih (EnvM.step hooks nTasks env q).1
    simp only [finalEnv, List.foldl_cons] at h ⊢
    rw [h, step_counter]
    simp only [atts, okCount, List.filter_cons]
    cases hc : (attOf env hooks q).call <;> simp [Nat.add_assoc, Nat.add_comm]

end RunAttempts
