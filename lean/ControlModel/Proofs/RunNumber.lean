/-
  Proofs/RunNumber — the invariant behind C07 (DESIGN §9a) and its preservation.

    * ModifyIndex strictly increases at every write (`Store.write`/`delete` hand out raft+1,
      every index a caller holds is ≤ raft);
    * every returned r ≤ current value (`Store.level`), and r > the initial value L;
    * a caller holding (v_r, idx_r) has idx_r ≤ raft and (idx_r = ModifyIndex → v_r = value);
    * the log is strictly increasing in number and in completion index.
-/
import ControlModel.Model.RunNumber
import ControlModel.Spec.C07

namespace RunNumber

/-! ### ParseUint ∘ FormatUint -/

theorem parse_fmt (n : Nat) (h : n ≤ maxU32) : parseU32 (fmtU32 n) = some n := by
  unfold parseU32 fmtU32
  have hne : (Nat.toDigits 10 n).isEmpty = false := by
    cases hd : Nat.toDigits 10 n with
    | nil => exact absurd hd Nat.toDigits_ne_nil
    | cons _ _ => rfl
  have hall : (Nat.toDigits 10 n).all Char.isDigit = true := by
    rw [List.all_eq_true]
    intro c hc
    exact Nat.isDigit_of_mem_toDigits (by decide) (by decide) hc
  simp [hne, hall, Nat.ofDigitChars_ten_toDigits, h]

theorem incr32_lt (v : Nat) (h : v < maxU32) : incr32 v = v + 1 := by
  unfold incr32; split <;> omega

theorem level_write_fmt (st : Store) (n : Nat) (h : n ≤ maxU32) : (st.write (fmtU32 n)).level = n := by
  simp [Store.level, Store.write, parse_fmt n h]

theorem level_delete (st : Store) : st.delete.level = 0 := rfl

theorem parse_le (cs : List Char) (v : Nat) (h : parseU32 cs = some v) : v ≤ maxU32 := by
  unfold parseU32 at h
  split at h
  · cases h
  · split at h
    · simp only at h
      split at h
      · cases h; assumption
      · cases h
    · cases h

/-! ### setCaller -/

@[simp] theorem setCaller_same (f : Nat → CState) (c : Nat) (x : CState) : setCaller f c x c = x := by
  simp [setCaller]

theorem setCaller_other (f : Nat → CState) (c d : Nat) (x : CState) (h : d ≠ c) : setCaller f c x d = f d := by
  simp [setCaller, h]

/-! ### the invariant -/

structure Inv (p : Proto) (L : Nat) (s : Sys) : Prop where
  wf : s.store.WF
  base : L ≤ s.store.level
  hold : ∀ c v i t, s.callers c = .holding v i t →
    i ≤ s.store.raft ∧ (i = 0 → v = 0) ∧
    (∀ e, s.store.entry = some e → e.idx = i → parseU32 e.raw = some v) ∧
    t < s.clock ∧ v ≤ maxU32 ∧ (p.guard = true → v < maxU32)
  sorted : s.log.Pairwise (fun a b => a.num < b.num ∧ a.ended < b.ended)
  bound : ∀ r ∈ s.log, r.num ≤ s.store.level ∧ L < r.num ∧ r.started ≤ r.ended ∧ r.ended < s.clock
  logged : ∀ c v t e q, s.callers c = .done v .ok t e q → ({ caller := c, num := v, started := t, ended := e } : Ret) ∈ s.log
  owner : ∀ r ∈ s.log, ∃ q, s.callers r.caller = .done r.num .ok r.started r.ended q

theorem inv_init (p : Proto) (st : Store) (h : st.WF) : Inv p st.level (init st) where
  wf := h
  base := Nat.le_refl _
  hold := by intro c v i t hc; simp [init] at hc
  sorted := List.Pairwise.nil
  bound := by intro r hr; simp [init] at hr
  logged := by intro c v t e q hc; simp [init] at hc
  owner := by intro r hr; simp [init] at hr

/-- A caller that is not `done … ok` owns no log entry. -/
theorem Inv.not_in_log {p L s} (h : Inv p L s) (c : Nat)
    (hc : ∀ v t e q, s.callers c ≠ .done v .ok t e q) : ∀ r ∈ s.log, r.caller ≠ c := by
  intro r hr heq
  obtain ⟨q, hq⟩ := h.owner r hr
  rw [heq] at hq
  exact hc _ _ _ _ hq

/-- Changing one caller that owns no log entry into a state that is not `done ok`, leaving store
    and log alone, keeps the invariant (the new state, if `holding`, must satisfy the holder
    clause). -/
theorem Inv.quiet {p L s} (h : Inv p L s) (c : Nat) (x : CState)
    (hold : ∀ v i t, x = .holding v i t →
      i ≤ s.store.raft ∧ (i = 0 → v = 0) ∧
      (∀ e, s.store.entry = some e → e.idx = i → parseU32 e.raw = some v) ∧
      t < s.clock + 1 ∧ v ≤ maxU32 ∧ (p.guard = true → v < maxU32))
    (hx : ∀ v t e q, x ≠ .done v .ok t e q)
    (hc : ∀ v t e q, s.callers c ≠ .done v .ok t e q) :
    Inv p L { s with callers := setCaller s.callers c x, clock := s.clock + 1 } where
  wf := h.wf
  base := h.base
  hold := by
    intro d v i t hd
    by_cases hdc : d = c
    · subst hdc
      simp only [setCaller_same] at hd
      exact hold v i t hd
    · simp only [setCaller_other _ _ _ _ hdc] at hd
      obtain ⟨a, b, c', d', e', f'⟩ := h.hold d v i t hd
      exact ⟨a, b, c', Nat.lt_succ_of_lt d', e', f'⟩
  sorted := h.sorted
  bound := by
    intro r hr
    obtain ⟨a, b, c', d'⟩ := h.bound r hr
    exact ⟨a, b, c', Nat.lt_succ_of_lt d'⟩
  logged := by
    intro d v t e q hd
    by_cases hdc : d = c
    · subst hdc
      simp only [setCaller_same] at hd
      exact absurd hd (hx _ _ _ _)
    · simp only [setCaller_other _ _ _ _ hdc] at hd
      exact h.logged d v t e q hd
  owner := by
    intro r hr
    have hne := h.not_in_log c hc r hr
    obtain ⟨q, hq⟩ := h.owner r hr
    exact ⟨q, by simp only [setCaller_other _ _ _ _ hne]; exact hq⟩

/-- Only the clock advances. -/
theorem Inv.tick {p L s} (h : Inv p L s) : Inv p L { s with clock := s.clock + 1 } where
  wf := h.wf
  base := h.base
  hold := by
    intro d v i t hd
    obtain ⟨a, b, c', d', e', f'⟩ := h.hold d v i t hd
    exact ⟨a, b, c', Nat.lt_succ_of_lt d', e', f'⟩
  sorted := h.sorted
  bound := by
    intro r hr
    obtain ⟨a, b, c', d'⟩ := h.bound r hr
    exact ⟨a, b, c', Nat.lt_succ_of_lt d'⟩
  logged := h.logged
  owner := h.owner

/-- A foreign write/delete that does not lower the level keeps the invariant. -/
theorem Inv.foreign {p L s} (h : Inv p L s) (st' : Store)
    (hraft : st'.raft = s.store.raft + 1)
    (hentry : ∀ e, st'.entry = some e → e.idx = s.store.raft + 1)
    (hlevel : s.store.level ≤ st'.level) :
    Inv p L { s with store := st', clock := s.clock + 1 } where
  wf := by
    intro e he
    have := hentry e he
    simp only [hraft]; omega
  base := Nat.le_trans h.base hlevel
  hold := by
    intro d v i t hd
    obtain ⟨a, b, _, d', e', f'⟩ := h.hold d v i t hd
    refine ⟨by simp only [hraft]; omega, b, ?_, Nat.lt_succ_of_lt d', e', f'⟩
    intro e he hidx
    have := hentry e he
    omega
  sorted := h.sorted
  bound := by
    intro r hr
    obtain ⟨a, b, c', d'⟩ := h.bound r hr
    exact ⟨Nat.le_trans a hlevel, b, c', Nat.lt_succ_of_lt d'⟩
  logged := h.logged
  owner := h.owner

/-- The value a holder would increment IS the current value whenever Consul would accept its CAS. -/
theorem Inv.casOk_level {p L s} (h : Inv p L s) {c v i t} (hc : s.callers c = .holding v i t)
    (hok : s.store.casOk i = true) : s.store.level = v := by
  obtain ⟨_, hz, hp, _⟩ := h.hold c v i t hc
  unfold Store.casOk at hok
  unfold Store.level
  cases he : s.store.entry with
  | none =>
    simp [he] at hok
    simp [hz hok]
  | some e =>
    simp [he] at hok
    have := hp e he hok.2.symm
    simp [this]

/-- A successful CAS keeps the invariant, provided it does not wrap. -/
theorem Inv.casWin {p L s} (h : Inv p L s) {c v i t} (hc : s.callers c = .holding v i t)
    (hok : s.store.casOk i = true) (hnw : v ≠ maxU32) :
    Inv p L { s with store := s.store.write (fmtU32 (incr32 v)),
                     callers := setCaller s.callers c (.done (incr32 v) .ok t s.clock (some i)),
                     log := s.log ++ [{ caller := c, num := incr32 v, started := t, ended := s.clock }],
                     clock := s.clock + 1 } := by
  have hlev := h.casOk_level hc hok
  obtain ⟨_, _, _, htc, hvm, _⟩ := h.hold c v i t hc
  have hv : v < maxU32 := by omega
  have hinc : incr32 v = v + 1 := incr32_lt v hv
  have hnl : (s.store.write (fmtU32 (incr32 v))).level = v + 1 := by
    rw [hinc]; exact level_write_fmt _ _ (by omega)
  have hcn : ∀ v' t' e' q', s.callers c ≠ .done v' .ok t' e' q' := by
    intro v' t' e' q' hh; rw [hc] at hh; cases hh
  constructor
  · intro e he
    simp only [Store.write, Option.some.injEq] at he
    subst he
    simp only [Store.write]; omega
  · show L ≤ (s.store.write (fmtU32 (incr32 v))).level
    rw [hnl]; have := h.base; omega
  · intro d v' i' t' hd
    by_cases hdc : d = c
    · subst hdc; simp only [setCaller_same] at hd; cases hd
    · simp only [setCaller_other _ _ _ _ hdc] at hd
      obtain ⟨a, b, _, d', e', f'⟩ := h.hold d v' i' t' hd
      refine ⟨by simp only [Store.write]; omega, b, ?_, Nat.lt_succ_of_lt d', e', f'⟩
      intro e he hidx
      simp only [Store.write, Option.some.injEq] at he
      subst he
      simp only at hidx
      omega
  · show List.Pairwise _ (s.log ++ [_])
    rw [List.pairwise_append]
    refine ⟨h.sorted, List.pairwise_singleton _ _, ?_⟩
    intro a ha b hb
    simp only [List.mem_singleton] at hb
    subst hb
    obtain ⟨h1, _, _, h4⟩ := h.bound a ha
    simp only [hinc]
    exact ⟨by omega, h4⟩
  · intro r hr
    show r.num ≤ (s.store.write (fmtU32 (incr32 v))).level ∧ _
    rw [hnl]
    simp only [List.mem_append, List.mem_singleton] at hr
    cases hr with
    | inl hr =>
      obtain ⟨h1, h2, h3, h4⟩ := h.bound r hr
      exact ⟨by omega, h2, h3, Nat.lt_succ_of_lt h4⟩
    | inr hr =>
      subst hr
      simp only [hinc]
      have := h.base
      exact ⟨Nat.le_refl _, by omega, by omega, Nat.lt_succ_self _⟩
  · intro d v' t' e' q' hd
    simp only [List.mem_append, List.mem_singleton]
    by_cases hdc : d = c
    · subst hdc
      simp only [setCaller_same] at hd
      cases hd
      exact Or.inr rfl
    · simp only [setCaller_other _ _ _ _ hdc] at hd
      exact Or.inl (h.logged d v' t' e' q' hd)
  · intro r hr
    simp only [List.mem_append, List.mem_singleton] at hr
    cases hr with
    | inl hr =>
      have hne := h.not_in_log c hcn r hr
      obtain ⟨q, hq⟩ := h.owner r hr
      exact ⟨q, by simp only [setCaller_other _ _ _ _ hne]; exact hq⟩
    | inr hr =>
      subst hr
      exact ⟨some i, by simp⟩

/-- The invariant is preserved by every step of the real protocol (CAS, answer checked) as long as
    foreign writes do not lower the counter and the step does not wrap. -/
theorem step_inv {p : Proto} {L : Nat} {s : Sys} (hcas : p.useCas = true) (hchk : p.checkOk = true)
    (h : Inv p L s) (st : Step) (hf : stepForeignOk st s = true) (hw : stepWraps p st s = false) :
    Inv p L (step p st s) := by
  cases st with
  | read c =>
    simp only [step, act]
    cases hc : s.callers c with
    | idle =>
      have hcn : ∀ v t e q, s.callers c ≠ .done v .ok t e q := by
        intro v t e q hh; rw [hc] at hh; cases hh
      simp only
      cases he : s.store.entry with
      | none =>
        simp only
        refine h.quiet c _ ?_ (by intro v t e q hh; cases hh) hcn
        intro v i t hx
        cases hx
        refine ⟨Nat.zero_le _, fun _ => rfl, ?_, Nat.lt_succ_self _, Nat.zero_le _, fun _ => by decide⟩
        intro e he'; rw [he] at he'; cases he'
      | some e =>
        simp only
        cases hp : parseU32 e.raw with
        | none =>
          simp only
          exact h.quiet c _ (by intro v i t hx; cases hx) (by intro v t e q hh; cases hh) hcn
        | some v =>
          simp only
          split
          · exact h.quiet c _ (by intro v i t hx; cases hx) (by intro v t e q hh; cases hh) hcn
          · rename_i hg
            refine h.quiet c _ ?_ (by intro v t e q hh; cases hh) hcn
            intro v' i t hx
            cases hx
            obtain ⟨h1, h2⟩ := h.wf e he
            refine ⟨h2, by omega, ?_, Nat.lt_succ_self _, parse_le _ _ hp, ?_⟩
            · intro e' he' _; rw [he] at he'; cases he'; exact hp
            · intro hgt
              have hle := parse_le _ _ hp
              simp [hgt] at hg
              omega
    | holding v i t => simpa using h.tick
    | done v e t t' q => simpa using h.tick
    | dead t => simpa using h.tick
  | cas c =>
    simp only [step, act]
    cases hc : s.callers c with
    | idle => simpa using h.tick
    | done v e t t' q => simpa using h.tick
    | dead t => simpa using h.tick
    | holding v i t =>
      simp only [hcas, hchk, Bool.not_true, Bool.false_or, if_true]
      have hcn : ∀ v t e q, s.callers c ≠ .done v .ok t e q := by
        intro v t e q hh; rw [hc] at hh; cases hh
      cases hok : s.store.casOk i with
      | true =>
        simp only [if_true]
        have hnw : v ≠ maxU32 := by
          intro hv
          simp [stepWraps, hc, hcas, hok, hv] at hw
        exact h.casWin hc hok hnw
      | false =>
        simp only [Bool.false_eq_true, if_false]
        exact h.quiet c _ (by intro v i t hx; cases hx) (by intro v t e q hh; cases hh) hcn
  | fail c =>
    simp only [step, act]
    cases hc : s.callers c with
    | idle =>
      exact h.quiet c _ (by intro v i t hx; cases hx) (by intro v t e q hh; cases hh)
        (by intro v t e q hh; rw [hc] at hh; cases hh)
    | holding v i t =>
      exact h.quiet c _ (by intro v i t hx; cases hx) (by intro v t e q hh; cases hh)
        (by intro v t e q hh; rw [hc] at hh; cases hh)
    | done v e t t' q => simpa using h.tick
    | dead t => simpa using h.tick
  | foreign raw =>
    simp only [step, act]
    refine h.foreign _ rfl ?_ ?_
    · intro e he; simp only [Store.write, Option.some.injEq] at he; subst he; rfl
    · simpa [stepForeignOk] using hf
  | del =>
    simp only [step, act]
    refine h.foreign _ rfl ?_ ?_
    · intro e he; simp [Store.delete] at he
    · have : s.store.level = 0 := by simpa [stepForeignOk] using hf
      omega
  | crash c =>
    simp only [step, act]
    cases hc : s.callers c with
    | idle =>
      exact h.quiet c _ (by intro v i t hx; cases hx) (by intro v t e q hh; cases hh)
        (by intro v t e q hh; rw [hc] at hh; cases hh)
    | holding v i t =>
      exact h.quiet c _ (by intro v i t hx; cases hx) (by intro v t e q hh; cases hh)
        (by intro v t e q hh; rw [hc] at hh; cases hh)
    | done v e t t' q => simpa using h.tick
    | dead t => simpa using h.tick

theorem run_inv {p : Proto} {L : Nat} (hcas : p.useCas = true) (hchk : p.checkOk = true)
    (sched : List Step) (s : Sys) (h : Inv p L s)
    (hf : ForeignMonotone p sched s = true) (hw : NoWrap p sched s = true) :
    Inv p L (run p sched s) := by
  induction sched generalizing s with
  | nil => exact h
  | cons st rest ih =>
    simp only [ForeignMonotone, NoWrap, Bool.and_eq_true, Bool.not_eq_true'] at hf hw
    exact ih _ (step_inv hcas hchk h st hf.1 hw.1) hf.2 hw.2

/-- With the guard, no holder ever holds 2^32−1, so no step wraps. -/
theorem guard_noWrap_step {p : Proto} {L : Nat} {s : Sys} (hg : p.guard = true) (h : Inv p L s) (st : Step) :
    stepWraps p st s = false := by
  cases st with
  | cas c =>
    simp only [stepWraps]
    cases hc : s.callers c with
    | holding v i t =>
      obtain ⟨_, _, _, _, _, hv⟩ := h.hold c v i t hc
      have := hv hg
      have hne : (v == maxU32) = false := by simp; omega
      simp [hne]
    | idle => rfl
    | done _ _ _ _ _ => rfl
    | dead _ => rfl
  | read _ => rfl
  | fail _ => rfl
  | foreign _ => rfl
  | del => rfl
  | crash _ => rfl

theorem guard_noWrap {p : Proto} {L : Nat} (hcas : p.useCas = true) (hchk : p.checkOk = true) (hg : p.guard = true)
    (sched : List Step) (s : Sys) (h : Inv p L s) (hf : ForeignMonotone p sched s = true) :
    NoWrap p sched s = true := by
  induction sched generalizing s with
  | nil => rfl
  | cons st rest ih =>
    simp only [ForeignMonotone, Bool.and_eq_true] at hf
    have hw := guard_noWrap_step hg h st
    simp only [NoWrap, hw, Bool.not_false, Bool.true_and]
    exact ih _ (step_inv hcas hchk h st hf.1 hw) hf.2

/-! ### from the invariant to the Spec predicates -/

theorem distinct_of_pairwise_lt : ∀ (l : List Nat), l.Pairwise (· < ·) → distinctNums l = true
  | [], _ => rfl
  | x :: xs, h => by
    rw [List.pairwise_cons] at h
    simp only [distinctNums, Bool.and_eq_true, Bool.not_eq_true']
    refine ⟨?_, distinct_of_pairwise_lt xs h.2⟩
    cases hc : xs.contains x with
    | false => rfl
    | true =>
      have : x ∈ xs := by simpa using hc
      exact absurd (h.1 x this) (Nat.lt_irrefl _)

theorem Inv.unique {p L s} (h : Inv p L s) : uniqueB s.log = true := by
  apply distinct_of_pairwise_lt
  rw [List.pairwise_map]
  exact h.sorted.imp (fun hab => hab.1)

theorem pairwise_mem_cases {α} {R : α → α → Prop} {l : List α} (h : l.Pairwise R) {a b : α}
    (ha : a ∈ l) (hb : b ∈ l) : a = b ∨ R a b ∨ R b a := by
  induction l with
  | nil => cases ha
  | cons x xs ih =>
    rw [List.pairwise_cons] at h
    rw [List.mem_cons] at ha hb
    rcases ha with rfl | ha <;> rcases hb with rfl | hb
    · exact Or.inl rfl
    · exact Or.inr (Or.inl (h.1 _ hb))
    · exact Or.inr (Or.inr (h.1 _ ha))
    · exact ih h.2 ha hb

theorem Inv.monotone_prop {p L s} (h : Inv p L s) (a b : Ret) (ha : a ∈ s.log) (hb : b ∈ s.log)
    (hab : a.ended < b.started) : a.num < b.num := by
  rcases pairwise_mem_cases h.sorted ha hb with heq | hlt | hgt
  · subst heq
    have := (h.bound a ha).2.2.1
    omega
  · exact hlt.1
  · have := (h.bound b hb).2.2.1
    omega

theorem Inv.monotone {p L s} (h : Inv p L s) : monotoneB s.log = true := by
  simp only [monotoneB, List.all_eq_true, Bool.or_eq_true, Bool.not_eq_true', decide_eq_false_iff_not,
    decide_eq_true_eq]
  intro a ha b hb
  by_cases hab : a.ended < b.started
  · exact Or.inr (h.monotone_prop a b ha hb hab)
  · exact Or.inl hab

theorem Inv.above {p L s} (h : Inv p L s) : aboveB L s.log = true := by
  simp only [aboveB, List.all_eq_true, decide_eq_true_eq]
  intro a ha
  exact (h.bound a ha).2.1

theorem Inv.spec {p L s} (h : Inv p L s) : Spec L s.log = true := by
  simp [Spec, h.unique, h.monotone, h.above]

/-! ### dead callers -/

theorem dead_step (p : Proto) (s : Sys) (c : Nat) (t : Option Nat) (st : Step)
    (hd : s.callers c = .dead t) (hst : st.isOf c = true) :
    step p st s = { s with clock := s.clock + 1 } := by
  cases st with
  | read d => simp [Step.isOf] at hst; subst hst; simp [step, act, hd]
  | cas d => simp [Step.isOf] at hst; subst hst; simp [step, act, hd]
  | fail d => simp [Step.isOf] at hst; subst hst; simp [step, act, hd]
  | crash d => simp [Step.isOf] at hst; subst hst; simp [step, act, hd]
  | foreign _ => simp [Step.isOf] at hst
  | del => simp [Step.isOf] at hst

theorem dead_stays (p : Proto) (s : Sys) (c : Nat) (t : Option Nat) (st : Step)
    (hd : s.callers c = .dead t) : (step p st s).callers c = .dead t := by
  cases st with
  | read d =>
    by_cases hdc : d = c
    · subst hdc; simp [step, act, hd]
    · simp only [step, act]
      split <;> (try split) <;> (try split) <;> (try split) <;>
        first | exact hd | (simp only [setCaller_other _ _ _ _ (Ne.symm hdc)]; exact hd)
  | cas d =>
    by_cases hdc : d = c
    · subst hdc; simp [step, act, hd]
    · simp only [step, act]
      split <;> (try split) <;> (try split) <;>
        first | exact hd | (simp only [setCaller_other _ _ _ _ (Ne.symm hdc)]; exact hd)
  | fail d =>
    by_cases hdc : d = c
    · subst hdc; simp [step, act, hd]
    · simp only [step, act]
      split <;> first | exact hd | (simp only [setCaller_other _ _ _ _ (Ne.symm hdc)]; exact hd)
  | crash d =>
    by_cases hdc : d = c
    · subst hdc; simp [step, act, hd]
    · simp only [step, act]
      split <;> first | exact hd | (simp only [setCaller_other _ _ _ _ (Ne.symm hdc)]; exact hd)
  | foreign _ => exact hd
  | del => exact hd

end RunNumber
