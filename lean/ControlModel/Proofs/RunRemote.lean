/-
  Proofs/RunRemote — C07: the gRPC hop of a remote apricot (Model/RunRemote.lean).

    * with the hop of the code (`codeHop`: the error crosses, no number with it) a caller behind the
      hop adopts exactly what the protocol call it stands for adopts — `adopted_viaHop_code`,
      `returnedVia_code` — and its observation is the direct caller's (`obsVia_code`);
    * a hop that swallows the error turns EVERY refused or failed write of a remote caller into a
      number that was never stored (`swallowed_cas`, `swallowed_fail`), in any state.

  Core Lean only.
-/
import ControlModel.Model.RunRemote
import ControlModel.Proofs.RunWrites

namespace RunNumber

theorem adopted_viaHop_code (x : CState) : adopted (viaHop codeHop x) = adopted x := by
  cases x with
  | done v e t t' q => cases e <;> simp [viaHop, codeHop, adopted]
  | idle => rfl
  | holding _ _ _ => rfl
  | dead _ => rfl

/-- An answer that crossed the code's hop as a number IS the service's answer, unchanged. -/
theorem viaHop_code_ok {x : CState} {n t t' : Nat} {q : Option Nat}
    (h : viaHop codeHop x = .done n .ok t t' q) : x = .done n .ok t t' q := by
  cases x with
  | done v e a b c => cases e <;> simp_all [viaHop, codeHop]
  | idle => simp [viaHop] at h
  | holding _ _ _ => simp [viaHop] at h
  | dead _ => simp [viaHop] at h

/-- An error crosses the code's hop as that error, with value 0 (`return 0, err`). -/
theorem viaHop_code_err (v : Nat) (e : Err) (t t' : Nat) (q : Option Nat) (he : e ≠ .ok) :
    viaHop codeHop (.done v e t t' q) = .done 0 e t t' q := by
  cases e <;> simp_all [viaHop, codeHop]

theorem returnedVia_code (remote : Routing) (s : Sys) (c : Nat) :
    returnedVia codeHop remote s c = returned s c := by
  unfold returnedVia seenBy returned
  cases remote c <;> simp [adopted_viaHop_code]

theorem seenBy_code_ok {remote : Routing} {s : Sys} {c n t t' : Nat} {q : Option Nat}
    (h : seenBy codeHop remote s c = .done n .ok t t' q) : s.callers c = .done n .ok t t' q := by
  unfold seenBy at h
  cases hr : remote c <;> simp [hr] at h
  · exact h
  · exact viaHop_code_ok h

/-- One call as observed from outside when it may sit behind a hop: the NUMBER is what came back
    through the hop; the requests (`refused`, `wrote`) are what Consul processed for it — recorded
    by the simulator, on the far side of the hop. This is how `Driver.C07.parseCall` reads an
    observation of a routed case back. -/
def callObsVia (h : Hop) (remote : Bool) (c : Nat) (x : CState) : CallObs :=
  if remote then { callObsOf c x with ok := adopted (viaHop h x) } else callObsOf c x

def obsVia (h : Hop) (remote : Routing) (n : Nat) (s : Sys) : List CallObs :=
  (List.range n).map fun c => callObsVia h (remote c) c (s.callers c)

theorem callObsOf_ok (c : Nat) (x : CState) : (callObsOf c x).ok = adopted x := by
  cases x with
  | done v e t t' q => cases e <;> simp [callObsOf, adopted]
  | idle => rfl
  | holding _ _ _ => rfl
  | dead _ => rfl

theorem callObsVia_code (remote : Bool) (c : Nat) (x : CState) :
    callObsVia codeHop remote c x = callObsOf c x := by
  cases remote with
  | false => rfl
  | true =>
    simp only [callObsVia, if_true, adopted_viaHop_code]
    rw [← callObsOf_ok c x]

theorem obsVia_code (remote : Routing) (n : Nat) (s : Sys) : obsVia codeHop remote n s = obsOf n s := by
  simp [obsVia, obsOf, callObsVia_code]

/-- The model's observation never shows a refused write next to a number (no hypothesis at all:
    it is how a `done` state is read). -/
theorem refused_obs (n : Nat) (s : Sys) : refusedIsErr (obsOf n s) = true := by
  simp only [refusedIsErr, obsOf, List.all_map, List.all_eq_true]
  intro c _
  cases hc : s.callers c with
  | done v e t t' q => cases e <;> simp [callObsOf, hc]
  | idle => simp [callObsOf, hc]
  | holding _ _ _ => simp [callObsOf, hc]
  | dead _ => simp [callObsOf, hc]

/-! ### a hop that swallows the error -/

/-- In ANY state: the write of a remote caller is refused ⇒ through a swallowing hop the caller is
    handed the candidate `incr32 v`, while store and log are exactly what they were. -/
theorem swallowed_cas (p : Proto) (hcas : p.useCas = true) (hchk : p.checkOk = true)
    (remote : Routing) (s : Sys) (c v i t : Nat) (hr : remote c = true)
    (hc : s.callers c = .holding v i t) (hno : s.store.casOk i = false) :
    returnedVia swallowingHop remote (step p (.cas c) s) c = some (incr32 v) ∧
    (step p (.cas c) s).store = s.store ∧ (step p (.cas c) s).log = s.log := by
  simp [step, act, hc, hcas, hchk, hno, returnedVia, seenBy, hr, viaHop, swallowingHop, adopted, setCaller]

/-- In ANY state: the write request of a remote caller fails (HTTP 500, nothing applied) ⇒ the
    same. -/
theorem swallowed_fail (p : Proto) (remote : Routing) (s : Sys) (c v i t : Nat) (hr : remote c = true)
    (hc : s.callers c = .holding v i t) :
    returnedVia swallowingHop remote (step p (.fail c) s) c = some (incr32 v) ∧
    (step p (.fail c) s).store = s.store ∧ (step p (.fail c) s).log = s.log := by
  simp [step, act, hc, returnedVia, seenBy, hr, viaHop, swallowingHop, adopted, setCaller]

end RunNumber
