/-
  Proofs/RunStartup — C07 with service start-ups as steps (Model/RunStartup.lean).

    * `srun_inv`      the invariant of Proofs/RunNumber.lean holds along every schedule with
                      start-ups (code's start-up: it touches nothing but the instance table);
    * `srun_own`      every write of our own code raises the counter by exactly one;
    * `srun_cnt`      without foreign writers the numbers handed out are L+1, L+2, … in order.
-/
import ControlModel.Model.RunStartup
import ControlModel.Proofs.RunNumber

namespace RunNumber

/-! ### what a start-up of the code does -/

theorem sstep_start_code (p : Proto) (home : Homes) (j : Nat) (s : SSys) :
    (sstep codeStart p home (.start j) s).base = tick s.base ∧
    (sstep codeStart p home (.start j) s).own = s.own := by
  simp only [sstep, codeStart]
  cases s.inst j <;> simp

theorem sstep_base_cases (cfg : StartCfg) (p : Proto) (home : Homes) (st : Step) (s : SSys) :
    ((sstep cfg p home (.base st) s).base = step p st s.base ∧
      (sstep cfg p home (.base st) s).own = ownAfter s.own st s.base.store (step p st s.base).store) ∨
    ((sstep cfg p home (.base st) s).base = tick s.base ∧ (sstep cfg p home (.base st) s).own = s.own) := by
  simp only [sstep]
  split
  · exact Or.inl ⟨rfl, rfl⟩
  · exact Or.inr ⟨rfl, rfl⟩

theorem sstep_base_inst (cfg : StartCfg) (p : Proto) (home : Homes) (st : Step) (s : SSys) :
    (sstep cfg p home (.base st) s).inst = s.inst := by
  simp only [sstep]
  split <;> rfl

/-! ### the invariant -/

theorem sstep_inv {p : Proto} {L : Nat} (hcas : p.useCas = true) (hchk : p.checkOk = true) (hg : p.guard = true)
    (home : Homes) (x : SStep) (s : SSys) (h : Inv p L s.base)
    (hf : ∀ st, x = .base st → stepForeignOk st s.base = true) :
    Inv p L (sstep codeStart p home x s).base := by
  cases x with
  | base st =>
    rcases sstep_base_cases codeStart p home st s with ⟨hb, _⟩ | ⟨hb, _⟩
    · rw [hb]
      exact step_inv hcas hchk h st (hf st rfl) (guard_noWrap_step hg h st)
    · rw [hb]; exact h.tick
  | start j =>
    rw [(sstep_start_code p home j s).1]; exact h.tick

theorem srun_inv {p : Proto} {L : Nat} (hcas : p.useCas = true) (hchk : p.checkOk = true) (hg : p.guard = true)
    (home : Homes) (sched : List SStep) (s : SSys) (h : Inv p L s.base)
    (hf : SForeignMonotone codeStart p home sched s = true) :
    Inv p L (srun codeStart p home sched s).base := by
  induction sched generalizing s with
  | nil => exact h
  | cons x rest ih =>
    cases x with
    | base st =>
      simp only [SForeignMonotone, Bool.and_eq_true] at hf
      exact ih _ (sstep_inv hcas hchk hg home _ s h (by intro st' he; cases he; exact hf.1)) hf.2
    | start j =>
      simp only [SForeignMonotone] at hf
      exact ih _ (sstep_inv hcas hchk hg home _ s h (by intro st' he; cases he)) hf

theorem inv_sinit (p : Proto) (st : Store) (h : st.WF) : Inv p st.level (sinit st).base := inv_init p st h

/-! ### from the invariant to the callers' answers -/

theorem Inv.unique_returned {p L s} (inv : Inv p L s) (a b na nb : Nat) (hab : a ≠ b)
    (ha : returned s a = some na) (hb : returned s b = some nb) : na ≠ nb := by
  unfold returned at ha hb
  cases hca : s.callers a with
  | done va ea ta ta' qa =>
    cases hcb : s.callers b with
    | done vb eb tb tb' qb =>
      rw [hca] at ha; rw [hcb] at hb
      cases ea <;> simp [adopted] at ha
      cases eb <;> simp [adopted] at hb
      subst ha; subst hb
      have la := inv.logged a _ _ _ _ hca
      have lb := inv.logged b _ _ _ _ hcb
      rcases pairwise_mem_cases inv.sorted la lb with heq | hlt | hgt
      · injection heq with h1; exact absurd h1 hab
      · exact Nat.ne_of_lt hlt.1
      · exact (Nat.ne_of_lt hgt.1).symm
    | idle => rw [hcb] at hb; simp [adopted] at hb
    | holding _ _ _ => rw [hcb] at hb; simp [adopted] at hb
    | dead _ => rw [hcb] at hb; simp [adopted] at hb
  | idle => rw [hca] at ha; simp [adopted] at ha
  | holding _ _ _ => rw [hca] at ha; simp [adopted] at ha
  | dead _ => rw [hca] at ha; simp [adopted] at ha

theorem Inv.above_returned {p L s} (inv : Inv p L s) (c n : Nat) (hc : returned s c = some n) :
    L < n ∧ n ≤ s.store.level := by
  unfold returned at hc
  cases hcc : s.callers c with
  | done v e t t' q =>
    rw [hcc] at hc
    cases e <;> simp [adopted] at hc
    subst hc
    have := inv.bound _ (inv.logged c _ _ _ _ hcc)
    exact ⟨this.2.1, this.1⟩
  | idle => rw [hcc] at hc; simp [adopted] at hc
  | holding _ _ _ => rw [hcc] at hc; simp [adopted] at hc
  | dead _ => rw [hcc] at hc; simp [adopted] at hc

/-! ### what one step of our own code does to store and log -/

/-- A step that is not a foreign writer's either leaves store and log alone, or is the winning
    CAS of a holder: the store gets the holder's incremented value, the log its number. -/
theorem step_effect (p : Proto) (hcas : p.useCas = true) (hchk : p.checkOk = true) (st : Step) (s : Sys)
    (hnf : st.isForeign = false) :
    ((step p st s).store = s.store ∧ (step p st s).log = s.log) ∨
    ∃ c v i t, s.callers c = .holding v i t ∧ s.store.casOk i = true ∧
      (step p st s).store = s.store.write (fmtU32 (incr32 v)) ∧
      (step p st s).log = s.log ++ [{ caller := c, num := incr32 v, started := t, ended := s.clock }] := by
  cases st with
  | read c =>
    left
    simp only [step, act]
    split
    · split
      · exact ⟨rfl, rfl⟩
      · split
        · exact ⟨rfl, rfl⟩
        · split <;> exact ⟨rfl, rfl⟩
    · exact ⟨rfl, rfl⟩
  | cas c =>
    cases hc : s.callers c with
    | holding v i t =>
      cases hok : s.store.casOk i with
      | true =>
        right
        refine ⟨c, v, i, t, hc, hok, ?_, ?_⟩ <;> simp [step, act, hc, hcas, hok]
      | false =>
        left
        simp [step, act, hc, hcas, hchk, hok]
    | idle => left; simp [step, act, hc]
    | done _ _ _ _ _ => left; simp [step, act, hc]
    | dead _ => left; simp [step, act, hc]
  | fail c =>
    left
    simp only [step, act]
    split <;> exact ⟨rfl, rfl⟩
  | foreign raw => simp [Step.isForeign] at hnf
  | del => simp [Step.isForeign] at hnf
  | crash c =>
    left
    simp only [step, act]
    split <;> exact ⟨rfl, rfl⟩

/-- The winning CAS of a holder raises the level by exactly one (guard on). -/
theorem Inv.casWin_level {p L s} (h : Inv p L s) (hg : p.guard = true) {c v i t}
    (hc : s.callers c = .holding v i t) (hok : s.store.casOk i = true) :
    s.store.level = v ∧ (s.store.write (fmtU32 (incr32 v))).level = v + 1 ∧ incr32 v = v + 1 := by
  have hlev := h.casOk_level hc hok
  obtain ⟨_, _, _, _, _, hv⟩ := h.hold c v i t hc
  have hv' := hv hg
  have hinc : incr32 v = v + 1 := incr32_lt v hv'
  refine ⟨hlev, ?_, hinc⟩
  rw [hinc]
  exact level_write_fmt _ _ (by omega)

/-! ### own writes raise the counter by one -/

def OwnOk (own : List (Nat × Nat)) : Prop := ∀ ba ∈ own, ba.2 = ba.1 + 1

theorem sstep_own {p : Proto} {L : Nat} (hcas : p.useCas = true) (hchk : p.checkOk = true) (hg : p.guard = true)
    (home : Homes) (x : SStep) (s : SSys) (h : Inv p L s.base) (ho : OwnOk s.own) :
    OwnOk (sstep codeStart p home x s).own := by
  cases x with
  | start j => rw [(sstep_start_code p home j s).2]; exact ho
  | base st =>
    rcases sstep_base_cases codeStart p home st s with ⟨_, hown⟩ | ⟨_, hown⟩
    · rw [hown]
      unfold ownAfter
      split
      · exact ho
      · rename_i hcond
        simp only [Bool.or_eq_true, beq_iff_eq, not_or] at hcond
        have hnf : st.isForeign = false := by
          cases hx : st.isForeign with
          | false => rfl
          | true => exact absurd hx hcond.1
        rcases step_effect p hcas hchk st s.base hnf with ⟨hs, _⟩ | ⟨c, v, i, t, hc, hok, hs, _⟩
        · exact absurd (by rw [hs]) hcond.2
        · obtain ⟨h1, h2, _⟩ := h.casWin_level hg hc hok
          intro ba hba
          simp only [List.mem_append, List.mem_singleton] at hba
          rcases hba with hba | hba
          · exact ho ba hba
          · subst hba
            simp only [hs, h1, h2]
    · rw [hown]; exact ho

theorem srun_own {p : Proto} {L : Nat} (hcas : p.useCas = true) (hchk : p.checkOk = true) (hg : p.guard = true)
    (home : Homes) (sched : List SStep) (s : SSys) (h : Inv p L s.base) (ho : OwnOk s.own)
    (hf : SForeignMonotone codeStart p home sched s = true) :
    OwnOk (srun codeStart p home sched s).own := by
  induction sched generalizing s with
  | nil => exact ho
  | cons x rest ih =>
    cases x with
    | base st =>
      simp only [SForeignMonotone, Bool.and_eq_true] at hf
      exact ih _ (sstep_inv hcas hchk hg home _ s h (by intro st' he; cases he; exact hf.1))
        (sstep_own hcas hchk hg home _ s h ho) hf.2
    | start j =>
      simp only [SForeignMonotone] at hf
      exact ih _ (sstep_inv hcas hchk hg home _ s h (by intro st' he; cases he))
        (sstep_own hcas hchk hg home _ s h ho) hf

theorem ownNeverLowers_of_ownOk (own : List (Nat × Nat)) (h : OwnOk own) : ownNeverLowersB own = true := by
  simp only [ownNeverLowersB, List.all_eq_true, decide_eq_true_eq]
  intro ba hba
  have := h ba hba
  omega

/-! ### without foreign writers the numbers are L+1, L+2, … -/

/-- The counter stands at `L + (numbers handed out)` and the numbers are `L+1 … L+m` in order. -/
def Cnt (L : Nat) (s : Sys) : Prop :=
  s.store.level = L + s.log.length ∧ s.log.map (·.num) = List.range' (L + 1) s.log.length

theorem sstep_cnt {p : Proto} {L L' : Nat} (hcas : p.useCas = true) (hchk : p.checkOk = true) (hg : p.guard = true)
    (home : Homes) (x : SStep) (s : SSys) (h : Inv p L' s.base) (hc : Cnt L s.base)
    (hnf : ∀ st, x = .base st → st.isForeign = false) :
    Cnt L (sstep codeStart p home x s).base := by
  cases x with
  | start j => rw [(sstep_start_code p home j s).1]; exact hc
  | base st =>
    rcases sstep_base_cases codeStart p home st s with ⟨hb, _⟩ | ⟨hb, _⟩
    · rw [hb]
      rcases step_effect p hcas hchk st s.base (hnf st rfl) with ⟨hs, hl⟩ | ⟨c, v, i, t, hcc, hok, hs, hl⟩
      · unfold Cnt; rw [hs, hl]; exact hc
      · obtain ⟨h1, h2, h3⟩ := h.casWin_level hg hcc hok
        unfold Cnt at hc ⊢
        rw [hs, hl, h2]
        have hv : v = L + s.base.log.length := by rw [← h1]; exact hc.1
        refine ⟨by simp; omega, ?_⟩
        rw [List.map_append, hc.2, List.length_append, List.length_singleton, List.range'_concat]
        simp only [List.map_cons, List.map_nil, h3]
        rw [hv]
        congr 2
        omega
    · rw [hb]; exact hc

theorem noForeign_fm (p : Proto) (home : Homes) : ∀ (sched : List SStep) (s : SSys),
    noForeign sched = true → SForeignMonotone codeStart p home sched s = true
  | [], _, _ => rfl
  | .base st :: rest, s, h => by
    simp only [noForeign, Bool.and_eq_true, Bool.not_eq_true'] at h
    simp only [SForeignMonotone, Bool.and_eq_true]
    refine ⟨?_, noForeign_fm p home rest _ h.2⟩
    cases st <;> simp [stepForeignOk, Step.isForeign] at h ⊢
  | .start j :: rest, s, h => by
    simp only [noForeign] at h
    simp only [SForeignMonotone]
    exact noForeign_fm p home rest _ h

theorem srun_cnt {p : Proto} {L L' : Nat} (hcas : p.useCas = true) (hchk : p.checkOk = true) (hg : p.guard = true)
    (home : Homes) (sched : List SStep) (s : SSys) (h : Inv p L' s.base) (hc : Cnt L s.base)
    (hnf : noForeign sched = true) :
    Cnt L (srun codeStart p home sched s).base := by
  induction sched generalizing s with
  | nil => exact hc
  | cons x rest ih =>
    cases x with
    | base st =>
      simp only [noForeign, Bool.and_eq_true, Bool.not_eq_true'] at hnf
      have hfo : stepForeignOk st s.base = true := by
        cases st <;> simp [stepForeignOk, Step.isForeign] at hnf ⊢
      exact ih _ (sstep_inv hcas hchk hg home _ s h (by intro st' he; cases he; exact hfo))
        (sstep_cnt hcas hchk hg home _ s h hc (by intro st' he; cases he; exact hnf.1)) hnf.2
    | start j =>
      simp only [noForeign] at hnf
      exact ih _ (sstep_inv hcas hchk hg home _ s h (by intro st' he; cases he))
        (sstep_cnt hcas hchk hg home _ s h hc (by intro st' he; cases he)) hnf

theorem cnt_sinit (st : Store) : Cnt st.level (sinit st).base := by
  simp [Cnt, sinit, init]

/-! ### an instance that is down hands out nothing -/

theorem sstep_down_blocks (cfg : StartCfg) (p : Proto) (home : Homes) (s : SSys) (c j : Nat)
    (hh : home c = some j) (hd : (s.inst j).isUp = false) (hc : s.base.callers c = .idle) :
    sstep cfg p home (.base (.read c)) s = { s with base := tick s.base } ∧
    sstep cfg p home (.base (.fail c)) s = { s with base := tick s.base } := by
  simp [sstep, enabled, launches, hc, hh, hd]

end RunNumber
