/-
  Proofs/RunWrites — C07: every number handed out is paid for by a write of the very call that
  returns it. Two unconditional facts about `run` (any protocol setting, any schedule, no
  hypothesis on foreign writers), used by Props/C07.lean:

    * `run_own`    a caller that is `done … ok` had a write request of its own processed (`put = some i`)
                   and owns the log entry carrying exactly its number;
    * `run_raft`   with the CAS answer checked, the index of the store advances by exactly one per
                   number handed out plus one per foreign write/delete: N numbers ⇒ N applied writes.

  Core Lean only.
-/
import ControlModel.Spec.C07

namespace RunNumber

/-- The model's state of caller `c`, read the way the driver reads an observation back
    (`Driver.C07.parseCall` on `Driver.C07.callSx`): the write request is answered `true` exactly
    when the call returns without error, `false` exactly when it returns the CAS error. -/
def callObsOf (c : Nat) : CState → CallObs
  | .done v e t t' q =>
    { caller := c, ok := if e = .ok then some v else none, started := t, ended := t',
      refused := q.isSome && e == .cas, wrote := q.isSome && e == .ok }
  | _ => { caller := c, ok := none, started := 0, ended := 0, refused := false, wrote := false }

/-- The observation of callers `0..n-1`. -/
def obsOf (n : Nat) (s : Sys) : List CallObs := (List.range n).map fun c => callObsOf c (s.callers c)

/-- Foreign writes and deletes of a schedule. -/
def foreignOps : List Step → Nat
  | [] => 0
  | .foreign _ :: rest => foreignOps rest + 1
  | .del :: rest => foreignOps rest + 1
  | _ :: rest => foreignOps rest

/-- Every `done … ok` caller has had its own write processed and owns a log entry. -/
def Own (s : Sys) : Prop :=
  ∀ c v t t' q, s.callers c = .done v .ok t t' q →
    q.isSome = true ∧ ({ caller := c, num := v, started := t, ended := t' } : Ret) ∈ s.log

theorem own_init (st : Store) : Own (init st) := by
  intro c v t t' q h; simp [init] at h

private theorem setCaller_eq (f : Nat → CState) (c d : Nat) (x : CState) :
    setCaller f c x d = if d = c then x else f d := rfl

/-- Replacing caller `c`'s state by one that is not `done … ok`, log untouched or extended. -/
private theorem own_set {s : Sys} (h : Own s) (c : Nat) (x : CState) (log' : List Ret)
    (hx : ∀ v t t' q, x = .done v .ok t t' q →
      q.isSome = true ∧ ({ caller := c, num := v, started := t, ended := t' } : Ret) ∈ log')
    (hl : ∀ r, r ∈ s.log → r ∈ log') (st' : Store) (k : Nat) :
    Own { store := st', callers := setCaller s.callers c x, log := log', clock := k } := by
  intro d v t t' q hd
  simp only [setCaller_eq] at hd
  by_cases hdc : d = c
  · subst hdc; simp only [if_true] at hd; exact hx v t t' q hd
  · simp only [hdc, if_false] at hd
    exact ⟨(h d v t t' q hd).1, hl _ (h d v t t' q hd).2⟩

theorem own_step (p : Proto) (st : Step) (s : Sys) (h : Own s) : Own (step p st s) := by
  have keep : Own { s with clock := s.clock + 1 } := h
  cases st with
  | read c =>
    simp only [step, act]
    split
    · split
      · exact own_set h c _ s.log (by intro v t t' q hx; cases hx) (fun _ hr => hr) _ _
      · split
        · exact own_set h c _ s.log (by intro v t t' q hx; cases hx) (fun _ hr => hr) _ _
        · split
          · exact own_set h c _ s.log (by intro v t t' q hx; cases hx) (fun _ hr => hr) _ _
          · exact own_set h c _ s.log (by intro v t t' q hx; cases hx) (fun _ hr => hr) _ _
    · exact keep
  | cas c =>
    simp only [step, act]
    split
    · split
      · exact own_set h c _ _ (by intro v t t' q hx; cases hx; exact ⟨rfl, by simp⟩)
          (fun _ hr => List.mem_append_left _ hr) _ _
      · split
        · exact own_set h c _ s.log (by intro v t t' q hx; cases hx) (fun _ hr => hr) _ _
        · exact own_set h c _ _ (by intro v t t' q hx; cases hx; exact ⟨rfl, by simp⟩)
            (fun _ hr => List.mem_append_left _ hr) _ _
    · exact keep
  | fail c =>
    simp only [step, act]
    split
    · exact own_set h c _ s.log (by intro v t t' q hx; cases hx) (fun _ hr => hr) _ _
    · exact own_set h c _ s.log (by intro v t t' q hx; cases hx) (fun _ hr => hr) _ _
    · exact keep
  | foreign raw => exact fun c v t t' q hc => h c v t t' q hc
  | del => exact fun c v t t' q hc => h c v t t' q hc
  | crash c =>
    simp only [step, act]
    split
    · exact own_set h c _ s.log (by intro v t t' q hx; cases hx) (fun _ hr => hr) _ _
    · exact own_set h c _ s.log (by intro v t t' q hx; cases hx) (fun _ hr => hr) _ _
    · exact keep

theorem run_own (p : Proto) : ∀ (sched : List Step) (s : Sys), Own s → Own (run p sched s)
  | [], _, h => h
  | st :: rest, s, h => run_own p rest _ (own_step p st s h)

/-- One step: the index advances by the number of log entries added plus the foreign op. -/
theorem step_raft (p : Proto) (hchk : p.checkOk = true) (st : Step) (s : Sys) :
    (step p st s).store.raft + s.log.length =
      s.store.raft + (step p st s).log.length + foreignOps [st] := by
  cases st with
  | read c =>
    simp only [step, act, foreignOps]
    split
    · split
      · rfl
      · split
        · rfl
        · split <;> rfl
    · rfl
  | cas c =>
    simp only [step, act, foreignOps]
    split
    · split
      · simp [Store.write]; omega
      · simp
    · rfl
  | fail c => simp only [step, act, foreignOps]; split <;> rfl
  | foreign raw => simp [step, act, foreignOps, Store.write]; omega
  | del => simp [step, act, foreignOps, Store.delete]; omega
  | crash c => simp only [step, act, foreignOps]; split <;> rfl

theorem foreignOps_cons (st : Step) (rest : List Step) :
    foreignOps (st :: rest) = foreignOps [st] + foreignOps rest := by
  cases st <;> simp [foreignOps] <;> omega

theorem run_raft (p : Proto) (hchk : p.checkOk = true) : ∀ (sched : List Step) (s : Sys),
    (run p sched s).store.raft + s.log.length =
      s.store.raft + (run p sched s).log.length + foreignOps sched
  | [], s => by simp [run, foreignOps]
  | st :: rest, s => by
    have h1 := step_raft p hchk st s
    have h2 := run_raft p hchk rest (step p st s)
    rw [foreignOps_cons]
    simp only [run]
    omega

/-- The observation of a state in which every `done … ok` caller had its write processed
    satisfies the own-write clause of Spec. -/
theorem ownWrite_obs (n : Nat) (s : Sys) (h : Own s) : ownWriteB (obsOf n s) = true := by
  simp only [ownWriteB, obsOf, List.all_map, List.all_eq_true]
  intro c _
  cases hc : s.callers c with
  | done v e t t' q =>
    cases e <;> simp [callObsOf, hc]
    exact (h c v t t' q hc).1
  | idle => simp [callObsOf, hc]
  | holding _ _ _ => simp [callObsOf, hc]
  | dead _ => simp [callObsOf, hc]

end RunNumber
