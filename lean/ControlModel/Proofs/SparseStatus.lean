/-
  Proofs/SparseStatus — the layer of Model/SparseStatus.lean is conservative for the code's guards, and what follows
  from that (core Lean only).
-/
import ControlModel.Proofs.Resubscribe
import ControlModel.Proofs.TaskIds
open Reconcile Spec.C18

namespace Reconcile

theorem unlocks_code (k : TaskIds.Kind) (u : TaskIds.Carried) : TaskIds.unlocks TaskIds.codeGuards k u = false := by
  cases k <;> simp [TaskIds.unlocks, TaskIds.codeGuards]

theorem unlocks_full (g : TaskIds.Guards) (k : TaskIds.Kind) : TaskIds.unlocks g k { agent := true, executor := true } = false := by
  cases k <;> simp [TaskIds.unlocks]

/-- With the code's guards a sparse message is handled like a complete one. -/
theorem sstep_code (c : Cfg) (r : RSt) (x : SStep) : sstep TaskIds.codeGuards c r x = rstep c r x.erase := by
  cases x with
  | r y => rfl
  | handleSparse na ne =>
    simp only [sstep, SStep.erase, unlocks_code]
    split <;> simp

/-- A complete message is handled alike under every guard configuration. -/
theorem sstep_full (g : TaskIds.Guards) (c : Cfg) (r : RSt) :
    sstep g c r (.handleSparse false false) = rstep c r (.base .handle) := by
  simp only [sstep, Bool.not_false, unlocks_full]
  split <;> simp

theorem srun_code (c : Cfg) (h : List SStep) (r : RSt) :
    srun TaskIds.codeGuards c h r = rrun c (h.map SStep.erase) r := by
  induction h generalizing r with
  | nil => rfl
  | cons x xs ih => simp only [srun, List.map_cons, rrun, sstep_code, ih]

/-- the roster invariant along a history of the layered model -/
theorem invR_rrun (c : Cfg) (hrw : c.snapshotRewrite = false) (h : List RStep) (r : RSt) (hr : InvR r.base) :
    InvR (rrun c h r).base :=
  rrun_preserves (P := fun r => InvR r.base) c (fun r x hr => invR_rstep c hrw r x hr) h r hr

theorem heldView_all_locked (s : St) (h : InvR s) : (heldView s).all (·.2) = true := by
  simp only [heldView, List.all_map, List.all_eq_true, Function.comp]
  intro p hp
  obtain ⟨r, hr, h1, _, h3⟩ := h.complete p hp
  simp only [lockedIn, List.any_eq_true, Bool.and_eq_true, beq_iff_eq]
  exact ⟨r, hr, h1, h3⟩

/-- **At every quiet point of every history, sparse updates or not, every held task is locked** (the code's guards). -/
theorem heldLocked_sviews (c : Cfg) (hrw : c.snapshotRewrite = false) (h : List SStep) (r : RSt) (hr : InvR r.base) :
    heldLocked (sviews TaskIds.codeGuards c h r) = true := by
  induction h generalizing r with
  | nil => rfl
  | cons x xs ih =>
    have hr' : InvR (sstep TaskIds.codeGuards c r x).base := by
      rw [sstep_code]; exact invR_rstep c hrw r _ hr
    simp only [sviews, heldLocked, List.all_append, Bool.and_eq_true]
    refine ⟨?_, ih _ hr'⟩
    split
    · simp only [List.all_cons, List.all_nil, Bool.and_true]
      exact heldView_all_locked _ hr'
    · rfl

end Reconcile
