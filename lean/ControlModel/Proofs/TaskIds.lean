/-
  Proofs/TaskIds — `isLocked` against status updates (core Lean only). Used by Props/C04 and Props/C18.
-/
import ControlModel.Model.TaskIds

namespace TaskIds

theorem copyId_guarded (stored carried : Bool) (h : stored = true) : copyId true stored carried = true := by
  cases carried <;> simp [copyId, h]

theorem copyId_carried (guard stored : Bool) : copyId guard stored true = true := by simp [copyId]

theorem copyId_unguarded_absent (stored : Bool) : copyId false stored false = false := by simp [copyId]

/-- What a status update does to the lock of a LOCKED task, for every guard configuration, every state, every
    combination of absent fields: it stays locked unless `unlocks`. -/
theorem locked_onStatus (g : Guards) (k : Kind) (u : Carried) (f : Fields) (h : f.locked = true) :
    (onStatus g k u f).locked = !unlocks g k u := by
  obtain ⟨ga, ge⟩ := g
  obtain ⟨ua, ue⟩ := u
  obtain ⟨a, b, c, d, e, p⟩ := f
  simp only [Fields.locked, Bool.and_eq_true] at h
  obtain ⟨⟨⟨⟨⟨rfl, rfl⟩, rfl⟩, rfl⟩, rfl⟩, rfl⟩ := h
  cases k <;> cases ga <;> cases ge <;> cases ua <;> cases ue <;> rfl

/-- **The code's guards: no status update ever unlocks.** Whatever the update omits, whatever its state. -/
theorem locked_onStatus_code (k : Kind) (u : Carried) (f : Fields) (h : f.locked = true) :
    (onStatus codeGuards k u f).locked = true := by
  rw [locked_onStatus codeGuards k u f h]
  cases k <;> simp [unlocks, codeGuards]

/-- A complete update (what the AliECS executor sends) never unlocks, guards or not: ordinary operation cannot
    tell the configurations apart. -/
theorem locked_onStatus_full (g : Guards) (k : Kind) (f : Fields) (h : f.locked = true) :
    (onStatus g k Carried.full f).locked = true := by
  rw [locked_onStatus g k Carried.full f h]
  cases k <;> simp [unlocks, Carried.full]

/-- Only TASK_RUNNING writes the ids. -/
theorem onStatus_not_running (g : Guards) (k : Kind) (u : Carried) (f : Fields) (h : k ≠ .running) :
    onStatus g k u f = f := by
  cases k <;> simp_all [onStatus]

/-- Under the code's guards an id that is there stays there and nothing else moves: for a task whose two ids are
    non-empty the update changes no field at all. -/
theorem onStatus_code_of_ids (k : Kind) (u : Carried) (f : Fields) (ha : f.agentId = true) (he : f.executorId = true) :
    onStatus codeGuards k u f = f := by
  obtain ⟨a, b, c, d, e, p⟩ := f
  simp only at ha he
  subst ha he
  obtain ⟨ua, ue⟩ := u
  cases k <;> cases ua <;> cases ue <;> rfl

/-- **Both guards are needed**: a guard configuration keeps every locked task locked under every status update
    iff it is the code's. -/
theorem guards_needed (g : Guards) :
    (∀ (k : Kind) (u : Carried) (f : Fields), f.locked = true → (onStatus g k u f).locked = true) ↔ g = codeGuards := by
  constructor
  · intro h
    obtain ⟨ga, ge⟩ := g
    have h1 := h .running { agent := false, executor := true } ⟨true, true, true, true, true, true⟩ rfl
    have h2 := h .running { agent := true, executor := false } ⟨true, true, true, true, true, true⟩ rfl
    cases ga <;> cases ge <;> simp_all [onStatus, copyId, Fields.locked, codeGuards]
  · rintro rfl k u f hf
    exact locked_onStatus_code k u f hf

/-- The witness: a TASK_RUNNING update without executor_id, copy not guarded. -/
theorem unguarded_unlocks :
    (onStatus noGuards .running { agent := true, executor := false } ⟨true, true, true, true, true, true⟩).locked = false := by
  decide

end TaskIds
