/-
  Proofs/Transition — lemmas behind Props/C02.

  * the environment machine without hooks: `Sm.Event` succeeds iff the body does, moves to the table's
    destination iff it succeeds, and keeps "nothing pending";
  * a failed body never yields an OK result, whatever the hooks;
  * `ControlEnvironment` (`controlRpc`) after a failed transition always ends in ERROR;
  * the classification of responses against `allCriticalAcked`;
  * the status product of the root role;
  * the roster under executor / agent loss: `GetTask` by task id finds the same task (same traits) whatever FAILURE
    events were handled, so the classification of a command's responses does not depend on them.
-/
import ControlModel.Proofs.Env
import ControlModel.Spec.C02

namespace EnvM

theorem handleHooks_nil (env : Env) (m : Moment) (p : Int → Bool) (h : env.pending = []) :
    handleHooks env [] m p = (env, [], 0) := by
  simp [handleHooks, weightsFor, h, sortDedup, handleWeights]

theorem setSoeor_pending (env : Env) (tr : String) (p : Bool) :
    (setSoeorIfEmpty env tr p).1.pending = env.pending ∧ (setSoeorIfEmpty env tr p).1.st = env.st := by
  unfold setSoeorIfEmpty; split <;> simp [tick]

theorem setEoeor_pending (env : Env) (tr : String) (s : RunStatus) :
    (setEoeorIfEmpty env tr s).1.pending = env.pending ∧ (setEoeorIfEmpty env tr s).1.st = env.st := by
  unfold setEoeorIfEmpty; split <;> simp [tick]

theorem bkBefore_nofail (env : Env) (e : Ev) :
    (bkBefore env e false).1.pending = env.pending ∧ (bkBefore env e false).1.st = env.st ∧
    (bkBefore env e false).2.2 = false := by
  unfold bkBefore
  cases e <;> simp [tick, setSoeor_pending]

theorem beforeEvent_nohooks (env : Env) (e : Ev) (hp : env.pending = []) :
    (beforeEvent env [] e false).1.pending = [] ∧ (beforeEvent env [] e false).1.st = env.st ∧
    (beforeEvent env [] e false).2.2 = none := by
  have hb := bkBefore_nofail env e
  unfold beforeEvent
  simp only [handleHooks_nil env _ _ hp]
  simp only [Nat.lt_irrefl, ↓reduceIte, hb.2.2, Bool.false_eq_true]
  rw [handleHooks_nil _ _ _ (by rw [hb.1]; exact hp)]
  simp [hb.1, hb.2.1, hp]

theorem leaveState_nohooks (env : Env) (e : Ev) (b : Bool) (hp : env.pending = []) :
    (leaveState env [] e b).1.pending = [] ∧ (leaveState env [] e b).1.st = env.st ∧
    (leaveState env [] e b).2.2 = (if b then none else some .cancelledBody) := by
  unfold leaveState
  simp only [handleHooks_nil env _ _ hp, Nat.lt_irrefl, ↓reduceIte]
  have hs := setSoeor_pending env e.name false
  split
  · rw [handleHooks_nil _ _ _ (by rw [hs.1]; exact hp)]
    simp only [Nat.lt_irrefl, ↓reduceIte]
    refine ⟨?_, ?_, trivial⟩ <;> split <;> simp [hs.1, hp]
  · rw [handleHooks_nil _ _ _ hp]
    simp only [Nat.lt_irrefl, ↓reduceIte]
    refine ⟨?_, ?_, trivial⟩ <;> split <;> simp [hp]

theorem enterState_nohooks (env : Env) (hp : env.pending = []) :
    (enterState env []).1.pending = [] ∧ (enterState env []).1.st = env.st ∧ (enterState env []).2.2 = [] := by
  unfold enterState
  simp [handleHooks_nil env _ _ hp, hp]

theorem bkAfter_pending (env : Env) (e : Ev) (f : Bool) :
    (bkAfter env e f).1.pending = env.pending ∧ (bkAfter env e f).1.st = env.st := by
  unfold bkAfter; cases e <;> simp [tick, setEoeor_pending]

theorem finAfter_pending (env : Env) (e : Ev) :
    (finAfter env e).1.pending = env.pending ∧ (finAfter env e).1.st = env.st := by
  unfold finAfter; split <;> simp

theorem afterEvent_nohooks (env : Env) (e : Ev) (hp : env.pending = []) :
    (afterEvent env [] e []).1.pending = [] ∧ (afterEvent env [] e []).1.st = env.st ∧
    (afterEvent env [] e []).2.2 = [] := by
  unfold afterEvent
  simp only [handleHooks_nil env _ _ hp, Nat.lt_irrefl, ↓reduceIte]
  simp only [List.isEmpty_nil, Bool.not_true]
  have hb := bkAfter_pending env e false
  rw [handleHooks_nil _ _ _ (by rw [hb.1]; exact hp)]
  have hf := finAfter_pending (bkAfter env e false).1 e
  simp [hf.1, hf.2, hb.1, hb.2, hp]

/-- `Sm.Event` of a possible event without hooks: succeeds iff the body does, and then the state is the
    table's destination; otherwise the state is untouched. Nothing becomes pending. -/
theorem fsmEvent_nohooks (env : Env) (e : Ev) (d : St) (b : Bool) (hp : env.pending = [])
    (hd : dst? e env.st = some d) :
    (fsmEvent env [] e b false).1.pending = [] ∧
    (fsmEvent env [] e b false).2.2.isOk = b ∧
    (fsmEvent env [] e b false).1.st = (if b then d else env.st) := by
  have hb := beforeEvent_nohooks env e hp
  have hl := leaveState_nohooks (beforeEvent env [] e false).1 e b hb.1
  unfold fsmEvent
  simp only [hd, hb.2.2]
  cases b
  · simp only [hl.2.2, Bool.false_eq_true, ↓reduceIte]
    exact ⟨hl.1, rfl, by rw [hl.2.1, hb.2.1]⟩
  · simp only [hl.2.2, ↓reduceIte]
    generalize (leaveState (beforeEvent env [] e false).1 [] e true).1 = L at hl ⊢
    have hen := enterState_nohooks { L with st := d } hl.1
    generalize (enterState { L with st := d } []) = EN at hen ⊢
    have haf := afterEvent_nohooks EN.1 e hen.1
    rw [hen.2.2]
    generalize (afterEvent EN.1 [] e []) = AF at haf ⊢
    refine ⟨haf.1, ?_, ?_⟩
    · rw [haf.2.2]; rfl
    · rw [haf.2.1, hen.2.1]

/-- An impossible event does nothing. -/
theorem fsmEvent_illegal (env : Env) (hooks : List Hook) (e : Ev) (b r : Bool) (hd : dst? e env.st = none) :
    fsmEvent env hooks e b r = (env, [], .illegal) := by
  unfold fsmEvent; simp [hd]

theorem leaveState_body_false (env : Env) (hooks : List Hook) (e : Ev) :
    (leaveState env hooks e false).2.2 ≠ none := by
  unfold leaveState
  simp only
  split
  · simp
  · split <;> (split <;> simp)

/-- Whatever the hooks: when the task-level body fails, `Sm.Event` does not report success. -/
theorem fsmEvent_body_fails (env : Env) (hooks : List Hook) (e : Ev) (r : Bool) :
    (fsmEvent env hooks e false r).2.2.isOk = false := by
  unfold fsmEvent
  split
  · rfl
  · simp only
    split
    · rename_i res hres
      have := beforeEvent_res env hooks e r res hres
      cases res <;> simp_all [Result.keepsState, Result.isOk]
    · split
      · rename_i res hres
        have := leaveState_res _ hooks e false res hres
        cases res <;> simp_all [Result.keepsState, Result.isOk]
      · rename_i hnone
        exact absurd hnone (leaveState_body_false _ hooks e)

end EnvM

namespace Trans
open EnvM
open RoleTree (TStatus)

/-! ### ControlEnvironment -/

/-- After a failed transition the handler leaves the environment in ERROR: through GO_ERROR, or by force. -/
theorem controlRpc_failed_error (cfg : Cfg) (env : Env) (hooks : List Hook) (e : Ev) (b r w : Bool)
    (hf : (tryTransition env hooks e b r).2.2.isOk = false) :
    (controlRpc cfg env hooks e b r w).1.st = .ERROR := by
  unfold controlRpc
  simp only [hf, Bool.false_eq_true, ↓reduceIte]
  generalize (if w = true then watcher (tryTransition env hooks e b r).1 hooks
    else (tryTransition env hooks e b r).1) = envW
  by_cases hgo : (tryTransition envW hooks .GO_ERROR true false).2.2.isOk = true
  · simp only [hgo, ↓reduceIte]
    unfold tryTransition at hgo ⊢
    obtain ⟨_, hk | ⟨d, hd, hst, _⟩⟩ := fsmEvent_st envW hooks .GO_ERROR true false
    · have := isOk_moved _ hgo; rw [hk.2] at this; cases this
    · rw [hst]; exact goError_dst _ _ hd
  · simp only [hgo]; rfl

theorem controlRpc_ok (cfg : Cfg) (env : Env) (hooks : List Hook) (e : Ev) (b r w : Bool)
    (hf : (tryTransition env hooks e b r).2.2.isOk = true) :
    controlRpc cfg env hooks e b r w = ((tryTransition env hooks e b r).1, true) := by
  unfold controlRpc; simp [hf]

/-! ### responses -/

theorem entryErr_runCommand (o : Outcome) : entryErr (runCommand o) = decide (o ≠ .ok) := by
  cases o <;> rfl

/-- Some entry of a critical task carries an error ⇔ not every critical target acknowledged. -/
theorem commit_any (ts : List Target) :
    (commit ts).any (fun e => e.1 && e.2) = !(allCriticalAcked ts) := by
  induction ts with
  | nil => rfl
  | cons t ts ih =>
    simp only [commit, List.map_cons, List.any_cons, allCriticalAcked, List.all_cons] at ih ⊢
    rw [ih, entryErr_runCommand]
    cases t.1 <;> cases h : decide (t.2 = Outcome.ok) <;> simp_all

theorem classify_multi (cfg : Cfg) (t t' : Target) (ts : List Target) :
    classify cfg (consolidate (commit (t :: t' :: ts))) = allCriticalAcked (t :: t' :: ts) := by
  have := commit_any (t :: t' :: ts)
  simp only [commit, List.map_cons] at this ⊢
  simp only [consolidate, classify]
  rw [this]; simp

theorem classify_single (cfg : Cfg) (t : Target) :
    classify cfg (consolidate (commit [t])) =
      if cfg.singleUsesCritical then allCriticalAcked [t] else decide (t.2 = .ok) := by
  simp only [commit, List.map_cons, List.map_nil, consolidate, classify, entryErr_runCommand, allCriticalAcked,
    List.all_cons, List.all_nil, Bool.and_true]
  cases cfg.singleUsesCritical <;> cases t.1 <;> cases h : decide (t.2 = Outcome.ok) <;> simp_all

/-- The classification agrees with the property unless the command went to nobody, or to a single
    non-critical task that did not acknowledge (and the single-response repair is off). -/
theorem classify_acked (cfg : Cfg) (ts : List Target) (h0 : noTargets ts = false)
    (h1 : singleNoncritFail ts = false ∨ cfg.singleUsesCritical = true) :
    classify cfg (consolidate (commit ts)) = allCriticalAcked ts := by
  match ts, h0, h1 with
  | [], h0, _ => simp [noTargets] at h0
  | [t], _, h1 =>
    rw [classify_single]
    rcases h1 with h1 | h1
    · simp only [singleNoncritFail] at h1
      simp only [allCriticalAcked, List.all_cons, List.all_nil, Bool.and_true]
      cases cfg.singleUsesCritical <;> cases ht : t.1 <;> cases h : decide (t.2 = Outcome.ok) <;> simp_all
    · simp [h1]
  | t :: t' :: ts, _, _ => exact classify_multi cfg t t' ts

/-! ### root status -/

theorem X_active (a b : TStatus) : a.X b = .ACTIVE ↔ a = .ACTIVE ∧ b = .ACTIVE := by
  cases a <;> cases b <;> simp [TStatus.X]

theorem aggFrom_active (acc : TStatus) (l : List TStatus) :
    aggFrom acc l = .ACTIVE ↔ acc = .ACTIVE ∧ ∀ s ∈ l, s = .ACTIVE := by
  induction l generalizing acc with
  | nil => simp [aggFrom]
  | cons s r ih =>
    unfold aggFrom
    split
    · rename_i h; subst h; simp
    · rw [ih, X_active]; simp [and_assoc]

theorem aggregateStatus_active (l : List TStatus) :
    aggregateStatus l = .ACTIVE ↔ l ≠ [] ∧ ∀ s ∈ l, s = .ACTIVE := by
  cases l with
  | nil => simp [aggregateStatus]
  | cons s r => simp [aggregateStatus, aggFrom_active]

theorem leafStatus_active (c : Bool) (l : Launch) : leafStatus c l = .ACTIVE ↔ l = .ok := by
  cases l <;> cases c <;> simp [leafStatus]

/-- The root is ACTIVE iff there is at least one role and EVERY task — critical or not — became active. -/
theorem rootStatus_active (ls : List (Bool × Launch)) (calls : Nat) :
    rootStatus ls calls = .ACTIVE ↔ (ls ≠ [] ∨ calls ≠ 0) ∧ ∀ l ∈ ls, l.2 = .ok := by
  unfold rootStatus
  rw [aggregateStatus_active]
  constructor
  · rintro ⟨hne, hall⟩
    refine ⟨?_, ?_⟩
    · cases ls with
      | cons _ _ => exact Or.inl (by simp)
      | nil =>
        cases calls with
        | zero => simp at hne
        | succ n => exact Or.inr (by simp)
    · intro l hl
      have := hall (leafStatus l.1 l.2) (List.mem_append_left _ (List.mem_map.2 ⟨l, hl, rfl⟩))
      exact (leafStatus_active _ _).1 this
  · rintro ⟨hne, hall⟩
    refine ⟨?_, ?_⟩
    · rcases hne with h | h
      · simp [h]
      · simp [h]
    · intro s hs
      simp only [List.mem_append, List.mem_map, List.mem_replicate] at hs
      rcases hs with ⟨l, hl, rfl⟩ | ⟨_, rfl⟩
      · exact (leafStatus_active _ _).2 (hall l hl)
      · rfl

theorem deployAwaits_iff (ls : List (Bool × Launch)) (calls : Nat) :
    deployAwaits ls calls = true ↔ (ls ≠ [] ∨ calls ≠ 0) := by
  cases ls <;> simp [deployAwaits]

theorem deployAwaits_false (ls : List (Bool × Launch)) (calls : Nat) :
    deployAwaits ls calls = false ↔ (ls = [] ∧ calls = 0) := by
  cases ls <;> simp [deployAwaits]

/-- DEPLOY succeeds iff nothing was asked to become active (and the code does not wait then), or there is at least one
    role, EVERY task — critical or not — became active, and the loop heard of it. -/
theorem deployBody_ok (cfg : Cfg) (ls : List (Bool × Launch)) (calls : Nat) (lost : Bool) :
    deployBody cfg ls calls lost = .ok ↔
      (cfg.deployEmptyIsSuccess = true ∧ ls = [] ∧ calls = 0) ∨
      (cfg.deployHears lost = true ∧ (ls ≠ [] ∨ calls ≠ 0) ∧ ∀ l ∈ ls, l.2 = .ok) := by
  unfold deployBody
  cases he : cfg.deployEmptyIsSuccess <;> cases ha : deployAwaits ls calls
  · -- legacy, empty workflow: the root is never ACTIVE
    have hemp := (deployAwaits_false ls calls).1 ha
    have hr : rootStatus ls calls ≠ .ACTIVE := by
      rw [Ne, rootStatus_active]; rintro ⟨h | h, _⟩
      · exact h hemp.1
      · exact h hemp.2
    obtain ⟨h1, h2⟩ := hemp
    subst h1; subst h2
    simp [hr]
  · have hne := (deployAwaits_iff ls calls).1 ha
    simp only [Bool.false_and, Bool.false_eq_true, ↓reduceIte, false_and, false_or]
    rw [← rootStatus_active]
    constructor
    · intro h; split at h
      · rename_i hh; exact ⟨hh.2, hh.1⟩
      · cases h
    · rintro ⟨h1, h2⟩; simp [h1, h2]
  · have hemp := (deployAwaits_false ls calls).1 ha
    simp [hemp.1, hemp.2]
  · have hne := (deployAwaits_iff ls calls).1 ha
    have hnot : ¬ (ls = [] ∧ calls = 0) := by
      rintro ⟨h1, h2⟩; rcases hne with h | h
      · exact h h1
      · exact h h2
    simp only [Bool.not_true, Bool.and_false, Bool.false_eq_true, ↓reduceIte, true_and, hnot, false_or]
    rw [← rootStatus_active]
    constructor
    · intro h; split at h
      · rename_i hh; exact ⟨hh.2, hh.1⟩
      · cases h
    · rintro ⟨h1, h2⟩; simp [h1, h2]

/-! ### the roster under executor / agent loss -/

theorem getTask_map (f : RTask → RTask) (hf : ∀ t, (f t).taskId = t.taskId) (r : List RTask) (id : Nat) :
    getTask (r.map f) id = (getTask r id).map f := by
  induction r with
  | nil => rfl
  | cons t r ih =>
    simp only [getTask, List.map_cons, List.find?_cons] at ih ⊢
    rw [hf t]
    cases h : (t.taskId == id)
    · simpa using ih
    · simp

theorem getTask_applyLoss (l : LossEv) (r : List RTask) (id : Nat) :
    (getTask (applyLoss l r) id).map (·.critical) = (getTask r id).map (·.critical) := by
  cases l with
  | executor x =>
    simp only [applyLoss, handleExecutorFailed]
    rw [getTask_map _ (by intro t; split <;> rfl)]
    cases getTask r id with
    | none => rfl
    | some t => simp only [Option.map_some]; split <;> rfl
  | agent a =>
    simp only [applyLoss, handleAgentFailed]
    rw [getTask_map _ (by intro t; split <;> rfl)]
    cases getTask r id with
    | none => rfl
    | some t => simp only [Option.map_some]; split <;> rfl

theorem getTask_applyLosses (L : List LossEv) (r : List RTask) (id : Nat) :
    (getTask (applyLosses L r) id).map (·.critical) = (getTask r id).map (·.critical) := by
  induction L generalizing r with
  | nil => rfl
  | cons l L ih =>
    simp only [applyLosses, List.foldl_cons] at ih ⊢
    rw [ih (applyLoss l r), getTask_applyLoss]

theorem critOfFailed_eq (r : List RTask) (k : CmdTarget) :
    critOfFailed r k = ((getTask r k.taskId).map (·.critical)).getD false := by
  unfold critOfFailed; cases getTask r k.taskId <;> rfl

theorem isCriticalTarget_eq (r : List RTask) (k : CmdTarget) :
    isCriticalTarget r k = ((getTask r k.taskId).map (·.critical)).getD true := by
  unfold isCriticalTarget; cases getTask r k.taskId <;> rfl

theorem critOfFailed_applyLosses (L : List LossEv) (r : List RTask) (k : CmdTarget) :
    critOfFailed (applyLosses L r) k = critOfFailed r k := by
  rw [critOfFailed_eq, critOfFailed_eq, getTask_applyLosses]

theorem isCriticalTarget_applyLosses (L : List LossEv) (r : List RTask) (k : CmdTarget) :
    isCriticalTarget (applyLosses L r) k = isCriticalTarget r k := by
  rw [isCriticalTarget_eq, isCriticalTarget_eq, getTask_applyLosses]

theorem classifyR_applyLosses (cfg : Cfg) (L : List LossEv) (r : List RTask) (es : List (CmdTarget × Bool)) :
    classifyR cfg (applyLosses L r) es = classifyR cfg r es := by
  match es with
  | [] => rfl
  | [e] => simp only [classifyR, isCriticalTarget_applyLosses]
  | e :: e' :: es => simp only [classifyR, critOfFailed_applyLosses]

/-- A commanded roster task is found again by its id, whatever happened to the roster's executor / agent ids. -/
theorem getTask_of_mem (r : List RTask) (t : RTask)
    (huniq : ∀ t ∈ r, ∀ t' ∈ r, t.taskId = t'.taskId → t = t') (ht : t ∈ r) : getTask r t.taskId = some t := by
  unfold getTask
  cases h : r.find? (fun x => x.taskId == t.taskId) with
  | none =>
    have := List.find?_eq_none.1 h t ht
    simp at this
  | some t' =>
    have hm := List.mem_of_find?_eq_some h
    have hp := List.find?_some h
    have : t'.taskId = t.taskId := by simpa using hp
    rw [huniq t' hm t ht this]

theorem commitR_any (r : List RTask) (cs : List (RTask × Outcome))
    (huniq : ∀ t ∈ r, ∀ t' ∈ r, t.taskId = t'.taskId → t = t') (hcs : ∀ c ∈ cs, c.1 ∈ r) :
    (commitR cs).any (fun x => critOfFailed r x.1 && x.2) = (commit (plainTargets cs)).any (fun e => e.1 && e.2) := by
  induction cs with
  | nil => rfl
  | cons c cs ih =>
    have h1 := getTask_of_mem r c.1 huniq (hcs c (List.mem_cons_self ..))
    have ih' := ih (fun c' hc' => hcs c' (List.mem_cons_of_mem _ hc'))
    simp only [commitR, commit, plainTargets, List.map_cons, List.any_cons] at ih' ⊢
    rw [ih']
    simp [critOfFailed, RTask.target, h1]

theorem classifyR_plain (cfg : Cfg) (r : List RTask) (cs : List (RTask × Outcome)) (h : RosterOk r cs) :
    classifyR cfg r (commitR cs) = classify cfg (consolidate (commit (plainTargets cs))) := by
  obtain ⟨huniq, hcs⟩ := h
  match cs, hcs with
  | [], _ => rfl
  | [c], hcs =>
    have h1 := getTask_of_mem r c.1 huniq (hcs c (List.mem_cons_self ..))
    simp [classifyR, commitR, commit, plainTargets, consolidate, classify, isCriticalTarget, RTask.target, h1]
  | c :: c' :: cs, hcs =>
    have := commitR_any r (c :: c' :: cs) huniq hcs
    simp only [commitR, commit, plainTargets, List.map_cons] at this ⊢
    simp only [classifyR, consolidate, classify]
    rw [this]

theorem plainTargets_isEmpty (cs : List (RTask × Outcome)) : (plainTargets cs).isEmpty = cs.isEmpty := by
  cases cs <;> rfl

/-- The body computed on the roster, with any FAILURE events handled while the command is outstanding, is the body
    computed from (critical, outcome) alone. -/
theorem bodyForR_eq (cfg : Cfg) (e : Ev) (r : List RTask) (cs : List (RTask × Outcome)) (L : List LossEv)
    (h : RosterOk r cs) : bodyForR cfg e r cs L = bodyFor cfg e (plainTargets cs) := by
  have hc := classifyR_plain cfg r cs h
  cases e <;>
    simp only [bodyForR, bodyFor, configureBody, commandBody, configureTasksR, configureTasks, transitionTasksR,
      transitionTasks, classifyR_applyLosses, hc, plainTargets_isEmpty]

end Trans
