/-
  Proofs/TrigExpr — lemmas about the reader of trigger / await expressions (Model/TrigExpr.lean):
  the cut is at the LAST sign whatever stands before it; the weight of a well-formed text is its decimal
  value; leading zeros do not change it.
-/
import ControlModel.Model.TrigExpr

namespace EnvM

theorem isDigit_not_sign (c : Char) (h : isDigit c = true) : isSign c = false := by
  unfold isDigit digitVal? at h
  split at h
  · rename_i hc
    unfold isSign
    have h1 : ¬ c = '+' := by
      intro e; subst e; exact absurd hc.1 (by decide)
    have h2 : ¬ c = '-' := by
      intro e; subst e; exact absurd hc.1 (by decide)
    simp [h1, h2]
  · simp at h

/-- no sign among the characters: nothing to cut at -/
theorem splitLastSign_none (cs : List Char) (h : ∀ c ∈ cs, isSign c = false) : splitLastSign cs = none := by
  induction cs with
  | nil => rfl
  | cons c cs ih =>
    have h1 := ih (fun x hx => h x (List.mem_cons_of_mem _ hx))
    have h2 := h c List.mem_cons_self
    simp [splitLastSign, h1, h2]

/-- the cut is at the last sign: whatever the name holds (signs included), a sign followed by sign-free text is
    where the expression is cut -/
theorem splitLastSign_append (name : List Char) (s : Char) (ds : List Char) (hs : isSign s = true)
    (hd : ∀ c ∈ ds, isSign c = false) : splitLastSign (name ++ s :: ds) = some (name, s :: ds) := by
  induction name with
  | nil => simp [splitLastSign, splitLastSign_none ds hd, hs]
  | cons c name ih => simp [splitLastSign, ih]

theorem decFrom_zeros (k : Nat) (ds : List Char) : decFrom 0 (List.replicate k '0' ++ ds) = decFrom 0 ds := by
  induction k with
  | zero => rfl
  | succ k ih =>
    have : digitVal? '0' = some 0 := by decide
    simp [List.replicate_succ, decFrom, this, ih]

/-- leading zeros do not change the decimal value of a non-empty string of characters -/
theorem decVal?_zeros (k : Nat) (ds : List Char) (hne : ds ≠ []) : decVal? (List.replicate k '0' ++ ds) = decVal? ds := by
  cases ds with
  | nil => exact absurd rfl hne
  | cons d ds =>
    have h1 : decVal? (d :: ds) = decFrom 0 (d :: ds) := rfl
    have h2 : decVal? (List.replicate k '0' ++ d :: ds) = decFrom 0 (List.replicate k '0' ++ d :: ds) := by
      cases k with
      | zero => rfl
      | succ k => rfl
    rw [h1, h2, decFrom_zeros]

theorem sign_cases (s : Char) (hs : isSign s = true) : s = '+' ∨ s = '-' := by
  unfold isSign at hs
  simpa using hs

theorem weightOfText_zeros (s : Char) (hs : isSign s = true) (k : Nat) (ds : List Char) (hne : ds ≠ []) :
    weightOfText (s :: (List.replicate k '0' ++ ds)) = weightOfText (s :: ds) := by
  rcases sign_cases s hs with rfl | rfl <;> simp [weightOfText, atoi?, decVal?_zeros k ds hne]

theorem decFrom_digits (acc : Nat) (ds : List Char) (hd : ∀ c ∈ ds, isDigit c = true) : (decFrom acc ds).isSome = true := by
  induction ds generalizing acc with
  | nil => rfl
  | cons d ds ih =>
    have h := hd d List.mem_cons_self
    unfold isDigit at h
    cases hv : digitVal? d with
    | none => rw [hv] at h; cases h
    | some v => simp only [decFrom, hv]; exact ih _ (fun c hc => hd c (List.mem_cons_of_mem _ hc))

/-- the weight of a well-formed text that fits is the integer it declares -/
theorem weightOfText_declared (t : List Char) (hw : wellFormedWeight t = true) (hr : weightInRange t = true) :
    weightOfText t = declaredWeight t := by
  match t, hw, hr with
  | c :: d :: ds, hw, hr =>
    simp only [wellFormedWeight, Bool.and_eq_true] at hw
    have hsome : (decVal? (d :: ds)).isSome = true :=
      decFrom_digits 0 (d :: ds) (by simpa [List.all_eq_true] using hw.2)
    obtain ⟨n, hn⟩ := Option.isSome_iff_exists.mp hsome
    simp only [weightInRange, hn, Option.getD_some, decide_eq_true_eq] at hr
    rcases sign_cases c hw.1 with rfl | rfl
    · simp [weightOfText, atoi?, declaredWeight, hn, hr]
    · have hr' : n ≤ 9223372036854775808 := by omega
      simp [weightOfText, atoi?, declaredWeight, hn, hr']

theorem wellFormed_tail_nosign (c : Char) (ds : List Char) (hw : wellFormedWeight (c :: ds) = true) :
    isSign c = true ∧ ds ≠ [] ∧ (∀ x ∈ ds, isDigit x = true) ∧ ∀ x ∈ ds, isSign x = false := by
  match ds, hw with
  | d :: ds, hw =>
    simp only [wellFormedWeight, Bool.and_eq_true, List.all_eq_true] at hw
    exact ⟨hw.1, by simp, hw.2, fun x hx => isDigit_not_sign x (hw.2 x hx)⟩

/-- `ParseTriggerExpression` on a name followed by a well-formed weight text: the name (whatever it holds) and
    the declared integer -/
theorem parseTriggerExpr_wellFormed (name t : List Char) (hw : wellFormedWeight t = true) (hr : weightInRange t = true) :
    parseTriggerExpr (name ++ t) = (name, declaredWeight t) := by
  match t, hw, hr with
  | c :: ds, hw, hr =>
    obtain ⟨hs, _, _, hns⟩ := wellFormed_tail_nosign c ds hw
    simp only [parseTriggerExpr, splitLastSign_append name c ds hs hns]
    rw [weightOfText_declared (c :: ds) hw hr]

/-- an expression without any sign: the whole of it is the name, the weight is 0 -/
theorem parseTriggerExpr_bare (name : List Char) (h : ∀ c ∈ name, isSign c = false) : parseTriggerExpr name = (name, 0) := by
  simp [parseTriggerExpr, splitLastSign_none name h]

end EnvM
