/-
  Proofs/Vars — lemmas about the variable-resolution model (C14). Core Lean only.
-/
import ControlModel.Model.Vars

namespace Vars

/-- `a` if it is defined, else `b` (the shape every precedence statement takes). -/
def orElse (a b : Option String) : Option String :=
  match a with
  | some v => some v
  | none => b

@[simp] theorem orElse_some (v : String) (b : Option String) : orElse (some v) b = some v := rfl
@[simp] theorem orElse_none (b : Option String) : orElse none b = b := rfl
@[simp] theorem orElse_none_right (a : Option String) : orElse a none = a := by cases a <;> rfl
theorem orElse_assoc (a b c : Option String) : orElse (orElse a b) c = orElse a (orElse b c) := by
  cases a <;> rfl

theorem lookup_set (m : KV) (k v k' : String) :
    lookup (set m k v) k' = if k = k' then some v else lookup m k' := by
  induction m with
  | nil => simp [set, lookup]
  | cons e rest ih =>
    obtain ⟨a, b⟩ := e
    by_cases h : a = k
    · subst h
      by_cases h' : a = k' <;> simp [set, lookup, h']
    · by_cases h' : a = k'
      · subst h'
        have : ¬ k = a := fun e => h e.symm
        simp [set, lookup, h, this]
      · simp [set, lookup, h, h', ih]

/-- One merged key, any `overwrite` setting. -/
theorem lookup_mergoKey (ow : Bool) (d : KV) (k v k' : String) :
    lookup (mergoKey ow d k v) k' =
      if k = k' then
        (match lookup d k with
         | none => some v
         | some old => if ow || old == "" then some v else some old)
      else lookup d k' := by
  unfold mergoKey
  by_cases h : k = k'
  · subst h
    cases hd : lookup d k with
    | none => simp [lookup_set]
    | some old =>
      by_cases hc : (ow || old == "") = true
      · simp [hc, lookup_set]
      · simp [hc, hd]
  · cases hd : lookup d k with
    | none => simp [lookup_set, h]
    | some old =>
      by_cases hc : (ow || old == "") = true
      · simp [hc, lookup_set, h]
      · simp [hc, h]

/-- Merge with override: the source's binding wins whatever its value (also the
    empty string), otherwise the destination's stays. -/
theorem lookup_mergo_override (d s : KV) (k : String) :
    lookup (mergo true d s) k = orElse (lookup s k) (lookup d k) := by
  induction s with
  | nil => simp [mergo, lookup]
  | cons e rest ih =>
    obtain ⟨a, b⟩ := e
    have ih' : lookup (List.foldr (fun kv d => mergoKey true d kv.1 kv.2) d rest) k
        = orElse (lookup rest k) (lookup d k) := ih
    simp only [mergo, List.foldr_cons, lookup_mergoKey, lookup]
    by_cases h : a = k
    · subst h
      simp
      split <;> rfl
    · simp [h, ih']

theorem lookup_flatten_cons (m : KV) (rest : Chain) (k : String) :
    lookup (flatten (m :: rest)) k = orElse (lookup m k) (lookup (flatten rest) k) := by
  simp [flatten, geraOverride, lookup_mergo_override]

@[simp] theorem get_nil (k : String) : get [] k = none := rfl

theorem get_cons (m : KV) (rest : Chain) (k : String) :
    get (m :: rest) k = orElse (lookup m k) (get rest k) := by
  simp only [get]
  cases lookup m k <;> rfl

/-- Flattening a hierarchy and looking a key up is `Get` on the hierarchy. -/
theorem lookup_flatten (c : Chain) (k : String) : lookup (flatten c) k = get c k := by
  induction c with
  | nil => simp [flatten, get, lookup]
  | cons m rest ih => rw [lookup_flatten_cons, get_cons, ih]

theorem get_append (a b : Chain) (k : String) : get (a ++ b) k = orElse (get a k) (get b k) := by
  induction a with
  | nil => simp [get]
  | cons m rest ih => simp only [List.cons_append, get_cons, ih, orElse_assoc]

theorem get_map_flatten (l : List Chain) (k : String) : get (l.map flatten) k = get l.flatten k := by
  induction l with
  | nil => rfl
  | cons c rest ih => simp only [List.map_cons, List.flatten_cons, get_cons, get_append, lookup_flatten, ih]

theorem lookup_flattenStack (cs : List Chain) (k : String) :
    lookup (flattenStack cs) k = get cs.reverse.flatten k := by
  simp only [flattenStack, lookup_flatten, get_append, get_cons, get_nil, lookup, orElse_none_right,
    ← List.map_reverse, get_map_flatten]

theorem lookup_flattenVis (own : Bool) (c : Chain) (k : String) :
    lookup (flattenVis own c) k = get (if own then c else c.tail) k := by
  cases own <;> simp [flattenVis, flattenParent, lookup_flatten]

theorem lookup_wrappedAndFlattened (own : KV) (m : Chain) (k : String) :
    lookup (wrappedAndFlattened own m) k = orElse (lookup own k) (get m k) := by
  simp [wrappedAndFlattened, geraOverride, lookup_mergo_override, lookup_flatten]

theorem lookup_overlay (base special : KV) (k : String) :
    lookup (overlay base special) k = orElse (lookup special k) (lookup base k) := by
  induction special with
  | nil => simp [overlay, lookup]
  | cons e rest ih =>
    obtain ⟨a, b⟩ := e
    have ih' : lookup (List.foldr (fun kv d => set d kv.1 kv.2) base rest) k
        = orElse (lookup rest k) (lookup base k) := ih
    simp only [overlay, List.foldr_cons, lookup_set, lookup]
    by_cases h : a = k
    · simp [h]
    · simp [h, ih']

theorem lookup_consolidated (p : Path) (k : String) :
    lookup (consolidated p) k = get (ranked p) k := by
  simp only [consolidated, ranked, lookup_flatten, get_cons, get_append, get_nil, orElse_none_right,
    orElse_assoc]

theorem lookup_staged (locals : KV) (p : Path) (stage : Nat) (k : String) :
    lookup (staged locals p stage) k = get (rankedAt locals p stage) k := by
  unfold staged rankedAt
  generalize stageVis stage = vis
  obtain ⟨d, v, u⟩ := vis
  simp only [lookup_flatten, get_cons, get_append, get_nil, lookup_flattenVis, orElse_none_right,
    List.cons_append, List.nil_append, orElse_assoc]

theorem get_none_of_all_none (l : Chain) (k : String) (h : ∀ x ∈ l, lookup x k = none) :
    get l k = none := by
  induction l with
  | nil => rfl
  | cons a rest ih =>
    rw [get_cons, h a (by simp), ih (fun x hx => h x (by simp [hx]))]; rfl

theorem tabulate_congr (keys : List String) (f g : String → Option String)
    (h : ∀ k ∈ keys, f k = g k) : tabulate keys f = tabulate keys g := by
  induction keys with
  | nil => rfl
  | cons a rest ih =>
    unfold tabulate at *
    simp only [List.filterMap_cons]
    rw [h a (by simp), ih (fun k hk => h k (by simp [hk]))]

theorem lookup_tabulate (keys : List String) (f : String → Option String) (k : String)
    (hk : k ∈ keys) : lookup (tabulate keys f) k = f k := by
  induction keys with
  | nil => cases hk
  | cons a rest ih =>
    unfold tabulate
    simp only [List.filterMap_cons]
    by_cases h : a = k
    · subst h
      cases hf : f a with
      | none =>
        simp only [Option.map_none]
        by_cases hm : a ∈ rest
        · have := ih hm; unfold tabulate at this; rw [this, hf]
        · -- `a` does not occur later, so nothing is found
          have : ∀ (l : List String), a ∉ l →
              lookup (List.filterMap (fun k => (f k).map fun v => (k, v)) l) a = none := by
            intro l hl
            induction l with
            | nil => rfl
            | cons b l ihl =>
              have hb : b ≠ a := fun e => hl (by simp [e])
              have hl' : a ∉ l := fun e => hl (by simp [e])
              simp only [List.filterMap_cons]
              cases f b with
              | none => simpa using ihl hl'
              | some w => simp [lookup, hb, ihl hl']
          exact this rest hm
      | some w => simp [lookup]
    · have hm : k ∈ rest := by
        cases hk with
        | head => exact absurd rfl h
        | tail _ h' => exact h'
      have := ih hm
      unfold tabulate at this
      cases hf : f a with
      | none => simpa using this
      | some w => simp [lookup, h, this]

end Vars
