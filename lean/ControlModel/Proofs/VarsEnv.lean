/-
  Proofs/VarsEnv — lemmas about the variable writes an environment performs on
  its own transitions (C14, third part). Core Lean only.

  The invariant: a transition of the environment (any table of rows whose
  user-kind rows on the root role / on the environment carry keys from a given
  list `rk` only) leaves, for every OTHER key `k`, the user-var hierarchy of
  every role exactly as it was (`UEq`), hence what the hierarchy says about `k`
  (`userView`), hence — when it says something — what the role resolves `k` to.
-/
import ControlModel.Model.VarsEnv
import ControlModel.Spec.C14
import ControlModel.Proofs.VarsTree

namespace Vars

/-- first defined entry -/
def firstSome : List (Option String) → Option String
  | [] => none
  | some v :: _ => some v
  | none :: rest => firstSome rest

theorem get_eq_firstSome (l : Chain) (k : String) : get l k = firstSome (l.map fun m => lookup m k) := by
  induction l with
  | nil => rfl
  | cons m rest ih =>
    simp only [get, List.map_cons]
    cases h : lookup m k with
    | none => simp [firstSome, ih]
    | some v => simp [firstSome]

/-- what the role's own user vars say about `k` -/
def uk (k : String) (n : Node) : Option String := lookup n.own.userVars k

theorem get_uChain_pathOf (c : List Node) (e : Level) (k : String) :
    get (uChain (pathOf c [e])) k = firstSome ((c.map (uk k)).reverse ++ [lookup e.userVars k]) := by
  rw [get_eq_firstSome]
  simp only [uChain, pathOf, List.map_append, List.map_map, List.map_reverse, List.map_cons, List.map_nil]
  rfl

/-- What the user-var hierarchy (the role, its ancestors, the environment) says about `k` at the role at `a`. -/
def userView (s : EnvSt) (a : Addr) (k : String) : Option (Option String) :=
  (chainAt s.t a).map fun c => get (uChain (pathOf c [s.envLv])) k

/-- `s'` has, for key `k`, the same user-var hierarchy at every role as `s`. -/
def UEq (k : String) (s s' : EnvSt) : Prop :=
  lookup s'.envLv.userVars k = lookup s.envLv.userVars k ∧
  ∀ a, (chainAt s'.t a).map (List.map (uk k)) = (chainAt s.t a).map (List.map (uk k))

theorem UEq.refl (k : String) (s : EnvSt) : UEq k s s := ⟨rfl, fun _ => rfl⟩

theorem UEq.trans {k : String} {s1 s2 s3 : EnvSt} (h12 : UEq k s1 s2) (h23 : UEq k s2 s3) : UEq k s1 s3 :=
  ⟨h23.1.trans h12.1, fun a => (h23.2 a).trans (h12.2 a)⟩

/-- Only the workflow and the environment-wide maps matter. -/
theorem UEq.of_same {k : String} {s s' : EnvSt} (ht : s'.t = s.t) (he : s'.envLv = s.envLv) : UEq k s s' := by
  refine ⟨by rw [he], fun a => by rw [ht]⟩

theorem userView_of_UEq {k : String} {s s' : EnvSt} (h : UEq k s s') (a : Addr) :
    userView s' a k = userView s a k := by
  have hfun : ∀ (e : Level) (o : Option (List Node)),
      o.map (fun c => get (uChain (pathOf c [e])) k)
        = (o.map (List.map (uk k))).map (fun l => firstSome (l.reverse ++ [lookup e.userVars k])) := by
    intro e o
    cases o with
    | none => rfl
    | some c => simp [get_uChain_pathOf]
  unfold userView
  rw [hfun, hfun, h.2 a, h.1]

/-! ### the root role -/

theorem chainAt_updRoot_proj {β : Type} (p : Node → β) (h : Node → Node) (hp : ∀ n, p (h n) = p n) (t : Forest) (a : Addr) :
    (chainAt (t.updRoot h) a).map (List.map p) = (chainAt t a).map (List.map p) := by
  cases t with
  | nil => rfl
  | role n kids next =>
    match a with
    | [] => rfl
    | [0] => simp [Forest.updRoot, chainAt, hp]
    | 0 :: j :: rest =>
      simp only [Forest.updRoot, chainAt, Option.map_map]
      congr 1
      funext c
      simp [hp]
    | (i + 1) :: rest => simp [Forest.updRoot, chainAt]

theorem preorder_updRoot (h : Node → Node) (hs : ∀ n, (h n).site = n.site) (t : Forest) (idx : Nat) (pre : Addr) :
    preorder (t.updRoot h) idx pre = preorder t idx pre := by
  cases t with
  | nil => rfl
  | role n kids next => simp only [Forest.updRoot, preorder, hs]

/-! ### one row -/

/-- The row does not touch user vars of the root / the environment, or its key is one of `rk`. -/
def rowOk (rk : List String) (w : EnvWrite) : Bool :=
  w.kind != .user || w.tgt == .role || rk.contains w.key

theorem lookup_fn (w : EnvWrite) (s : EnvSt) (m : KV) (k : String) (h : w.key ≠ k) :
    lookup (w.fn s m) k = lookup m k := by
  unfold EnvWrite.fn
  split
  · simp [lookup_erase, h]
  · simp [lookup_set, h]

theorem lookup_upd_user (w : EnvWrite) (s : EnvSt) (l : Level) (k : String) (rk : List String)
    (hok : rowOk rk w = true) (hrole : w.tgt ≠ .role) (hk : rk.contains k = false) :
    lookup (Level.upd w.kind (w.fn s) l).userVars k = lookup l.userVars k := by
  cases hkind : w.kind with
  | defaults => simp [Level.upd]
  | vars => simp [Level.upd]
  | user =>
    simp only [Level.upd]
    apply lookup_fn
    intro hkey
    have htgt : (w.tgt == Tgt.role) = false := by
      cases ht : w.tgt <;> simp_all
    have : rk.contains w.key = true := by
      simpa [rowOk, hkind, htgt] using hok
    rw [hkey] at this
    rw [this] at hk
    cases hk

theorem UEq_exec (rk : List String) (k : String) (hk : rk.contains k = false) (w : EnvWrite) (hok : rowOk rk w = true)
    (s : EnvSt) : UEq k s (w.exec s) := by
  unfold EnvWrite.exec
  cases ht : w.tgt with
  | role => exact UEq.refl k s
  | env =>
    refine ⟨?_, fun _ => rfl⟩
    exact lookup_upd_user w s s.envLv k rk hok (by rw [ht]; decide) hk
  | root =>
    refine ⟨rfl, fun a => ?_⟩
    apply chainAt_updRoot_proj
    intro n
    exact lookup_upd_user w s n.own k rk hok (by rw [ht]; decide) hk

theorem UEq_step (rk : List String) (k : String) (hk : rk.contains k = false) (ev : EnvM.Ev) (src : EnvM.St)
    (w : EnvWrite) (hok : rowOk rk w = true) (s : EnvSt) : UEq k s (w.step ev src s) := by
  unfold EnvWrite.step
  split
  · exact UEq_exec rk k hk w hok s
  · exact UEq.refl k s

theorem UEq_foldl (rk : List String) (k : String) (hk : rk.contains k = false) (ev : EnvM.Ev) (src : EnvM.St) :
    ∀ (rows : List EnvWrite), (∀ w ∈ rows, rowOk rk w = true) → ∀ s, UEq k s (rows.foldl (EnvWrite.step ev src) s) := by
  intro rows
  induction rows with
  | nil => intro _ s; exact UEq.refl k s
  | cons w rest ih =>
    intro hall s
    simp only [List.foldl_cons]
    exact (UEq_step rk k hk ev src w (hall w (by simp)) s).trans (ih (fun x hx => hall x (by simp [hx])) _)

theorem UEq_runRows (rk : List String) (k : String) (hk : rk.contains k = false) (table : List EnvWrite)
    (htab : table.all (rowOk rk) = true) (ctx : String) (ev : EnvM.Ev) (src : EnvM.St) (s : EnvSt) :
    UEq k s (runRows table ctx ev src s) := by
  unfold runRows
  apply UEq_foldl rk k hk
  intro w hw
  have := (List.mem_filter.mp hw).1
  exact (List.all_eq_true.mp htab) w this

/-! ### a transition -/

theorem UEq_fire (rk : List String) (k : String) (hk : rk.contains k = false) (table : List EnvWrite)
    (htab : table.all (rowOk rk) = true) (ev : EnvM.Ev) (ok : Bool) (s : EnvSt) :
    UEq k s (fire table ev ok s).1 := by
  unfold fire
  cases hd : EnvM.dst? ev s.st with
  | none => exact UEq.refl k s
  | some d =>
    simp only
    have R := UEq_runRows rk k hk table htab
    -- the state the callbacks start from differs from `s` in the run number bookkeeping only
    have h1 : UEq k s (if ev = .START_ACTIVITY then { s with lastRn := s.lastRn + 1, curRn := s.lastRn + 1 } else s) := by
      split
      · exact UEq.of_same rfl rfl
      · exact UEq.refl k s
    have h2 := h1.trans (R "before_event" ev s.st _)
    have h3 := h2.trans (R "leave_state" ev s.st _)
    cases ok with
    | false => simpa using h3
    | true =>
      simp only [Bool.not_true, Bool.false_eq_true, if_false]
      have h3' := h3.trans (UEq.of_same (s' := { (runRows table "leave_state" ev s.st
        (runRows table "before_event" ev s.st
          (if ev = .START_ACTIVITY then { s with lastRn := s.lastRn + 1, curRn := s.lastRn + 1 } else s))) with st := d }) rfl rfl)
      have h4 := h3'.trans (R "enter_state" ev s.st _)
      have h5 := h4.trans (R "after_event" ev s.st _)
      split
      · exact h5.trans (UEq.of_same rfl rfl)
      · exact h5

/-! ### runtime writes by roles / calls / plugins -/

theorem uk_updUser (f : KV → KV) (k : String) (hf : ∀ m, lookup (f m) k = lookup m k) (n : Node) :
    uk k (n.updUser f) = uk k n := by
  simp [uk, Node.updUser, hf]

theorem lookup_op_apply (op : Op) (m : KV) (k : String) (h : op.key ≠ k) : lookup (op.apply m) k = lookup m k := by
  cases op with
  | set k' v => simp only [Op.key] at h; simp [Op.apply, lookup_set, h]
  | del k' => simp only [Op.key] at h; simp [Op.apply, lookup_erase, h]

theorem UEq_write (k : String) (w : Write) (h : w.op.key ≠ k) (s : EnvSt) :
    UEq k s { s with t := applyWrite s.t w } := by
  refine ⟨rfl, fun a => ?_⟩
  show (chainAt (applyWrite s.t w) a).map _ = _
  unfold applyWrite
  by_cases hr : w.target = []
  · rw [hr, updAt_nil_addr]
  · rw [chainAt_updAt _ _ _ _ hr, Option.map_map]
    congr 1
    funext c
    simp only [Function.comp_def]
    split
    · exact map_modUser (uk k) w.op.apply (uk_updUser _ k (fun m => lookup_op_apply w.op m k h)) c _
    · rfl

def Item.avoids (k : String) : Item → Bool
  | .write w => w.op.key != k
  | .trans _ _ => true

theorem UEq_stepItem (rk : List String) (k : String) (hk : rk.contains k = false) (table : List EnvWrite)
    (htab : table.all (rowOk rk) = true) (i : Item) (hi : i.avoids k = true) (s : EnvSt) :
    UEq k s (stepItem table s i).1 := by
  cases i with
  | trans ev ok => exact UEq_fire rk k hk table htab ev ok s
  | write w =>
    have : w.op.key ≠ k := by simpa [Item.avoids] using hi
    exact UEq_write k w this s

theorem UEq_runSched (rk : List String) (k : String) (hk : rk.contains k = false) (table : List EnvWrite)
    (htab : table.all (rowOk rk) = true) :
    ∀ (items : List Item), items.all (Item.avoids k) = true → ∀ s, ∀ p ∈ runSched table s items, UEq k s p.1 := by
  intro items
  induction items with
  | nil => intro _ s p hp; cases hp
  | cons i rest ih =>
    intro hall s p hp
    simp only [List.all_cons, Bool.and_eq_true] at hall
    have hstep := UEq_stepItem rk k hk table htab i hall.1 s
    simp only [runSched, List.mem_cons] at hp
    rcases hp with rfl | hp
    · exact hstep
    · exact hstep.trans (ih hall.2 _ p hp)

theorem UEq_create (rk : List String) (k : String) (hk : rk.contains k = false) (table : List EnvWrite)
    (htab : table.all (rowOk rk) = true) (sd sv u : KV) (t : Forest) :
    lookup (create table sd sv u t).envLv.userVars k = lookup u k ∧
    ∀ a, (chainAt (create table sd sv u t).t a).map (List.map (uk k)) = (chainAt t a).map (List.map (uk k)) := by
  unfold create
  simp only
  have h := UEq_runRows rk k hk table htab "newEnvironment" .DEPLOY .STANDBY
    { st := .STANDBY, t := t, envLv := { defaults := sd, vars := sv, userVars := u }, base := [], curRn := 0, lastRn := 0 }
  exact ⟨h.1, h.2⟩

theorem UEq_snapshots (rk : List String) (k : String) (hk : rk.contains k = false) (table : List EnvWrite)
    (htab : table.all (rowOk rk) = true) (sd sv u : KV) (t : Forest) (items : List Item)
    (hitems : items.all (Item.avoids k) = true) :
    ∀ p ∈ snapshots table sd sv u t items, UEq k (create table sd sv u t) p.1 := by
  intro p hp
  simp only [snapshots, List.mem_cons] at hp
  rcases hp with rfl | hp
  · exact UEq.refl k _
  · exact UEq_runSched rk k hk table htab items hitems _ p hp

/-- Every moment of a run: the user-var hierarchy of every role says about `k` what it said right after
    creation and load. -/
theorem userView_snapshots (rk : List String) (k : String) (hk : rk.contains k = false) (table : List EnvWrite)
    (htab : table.all (rowOk rk) = true) (sd sv u : KV) (t : Forest) (items : List Item)
    (hitems : items.all (Item.avoids k) = true) :
    ∀ p ∈ snapshots table sd sv u t items, ∀ a, userView p.1 a k = userView (create table sd sv u t) a k := by
  intro p hp a
  simp only [snapshots, List.mem_cons] at hp
  rcases hp with rfl | hp
  · rfl
  · exact userView_of_UEq (UEq_runSched rk k hk table htab items hitems _ p hp) a

/-- If the environment's own user vars define `k`, the hierarchy of every role says something about `k`. -/
theorem get_uChain_isSome_of_env (c : List Node) (e : Level) (k v : String) (h : lookup e.userVars k = some v) :
    ∃ x, get (uChain (pathOf c [e])) k = some x := by
  rw [get_uChain_pathOf]
  generalize (c.map (uk k)).reverse = l
  induction l with
  | nil => exact ⟨v, by simp [firstSome, h]⟩
  | cons o rest ih =>
    cases o with
    | none => simpa [firstSome] using ih
    | some x => exact ⟨x, by simp [firstSome]⟩

/-- When the user-var hierarchy defines the key, that is what the role resolves it to. -/
theorem consolidated_of_user (p : Path) (k x : String) (h : get (uChain p) k = some x) :
    lookup (consolidated p) k = some x := by
  rw [lookup_consolidated]
  simp only [ranked, get_append, h]
  rfl

/-! ### the shape of the workflow never changes -/

theorem preorder_exec (w : EnvWrite) (s : EnvSt) (idx : Nat) (pre : Addr) :
    preorder (w.exec s).t idx pre = preorder s.t idx pre := by
  unfold EnvWrite.exec
  cases w.tgt with
  | root => exact preorder_updRoot (Node.updOwn (Level.upd w.kind (w.fn s))) (fun _ => rfl) s.t idx pre
  | env => rfl
  | role => rfl

theorem preorder_foldl (ev : EnvM.Ev) (src : EnvM.St) (idx : Nat) (pre : Addr) :
    ∀ (rows : List EnvWrite) (s : EnvSt), preorder (rows.foldl (EnvWrite.step ev src) s).t idx pre = preorder s.t idx pre := by
  intro rows
  induction rows with
  | nil => intro s; rfl
  | cons w rest ih =>
    intro s
    simp only [List.foldl_cons]
    rw [ih]
    unfold EnvWrite.step
    split
    · exact preorder_exec w s idx pre
    · rfl

theorem preorder_runRows (table : List EnvWrite) (ctx : String) (ev : EnvM.Ev) (src : EnvM.St) (s : EnvSt)
    (idx : Nat) (pre : Addr) : preorder (runRows table ctx ev src s).t idx pre = preorder s.t idx pre :=
  preorder_foldl ev src idx pre _ s

theorem preorder_fire (table : List EnvWrite) (ev : EnvM.Ev) (ok : Bool) (s : EnvSt) (idx : Nat) (pre : Addr) :
    preorder (fire table ev ok s).1.t idx pre = preorder s.t idx pre := by
  unfold fire
  cases EnvM.dst? ev s.st with
  | none => rfl
  | some d =>
    cases ok with
    | false =>
      simp only [Bool.not_false, if_true, preorder_runRows]
      split <;> rfl
    | true =>
      simp only [Bool.not_true, Bool.false_eq_true, if_false]
      split
      · simp only [preorder_runRows]
        split <;> rfl
      · simp only [preorder_runRows]
        split <;> rfl

theorem preorder_stepItem (table : List EnvWrite) (i : Item) (s : EnvSt) (idx : Nat) (pre : Addr) :
    preorder (stepItem table s i).1.t idx pre = preorder s.t idx pre := by
  cases i with
  | trans ev ok => exact preorder_fire table ev ok s idx pre
  | write w => exact preorder_updAt _ _ _ _ _

theorem preorder_runSched (table : List EnvWrite) (idx : Nat) (pre : Addr) :
    ∀ (items : List Item) (s : EnvSt), ∀ p ∈ runSched table s items, preorder p.1.t idx pre = preorder s.t idx pre := by
  intro items
  induction items with
  | nil => intro s p hp; cases hp
  | cons i rest ih =>
    intro s p hp
    simp only [runSched, List.mem_cons] at hp
    rcases hp with rfl | hp
    · exact preorder_stepItem table i s idx pre
    · rw [ih _ p hp, preorder_stepItem]

theorem preorder_snapshots (table : List EnvWrite) (sd sv u : KV) (t : Forest) (items : List Item) (idx : Nat) (pre : Addr) :
    ∀ p ∈ snapshots table sd sv u t items, preorder p.1.t idx pre = preorder (create table sd sv u t).t idx pre := by
  intro p hp
  simp only [snapshots, List.mem_cons] at hp
  rcases hp with rfl | hp
  · rfl
  · exact preorder_runSched table idx pre items _ p hp

theorem chainAt_ne_nil (t : Forest) : ∀ (a : Addr) (c : List Node), chainAt t a = some c → c ≠ [] := by
  induction t with
  | nil => intro a c h; simp [chainAt] at h
  | role n kids next ihk ihn =>
    intro a c h
    match a with
    | [] => simp [chainAt] at h
    | [0] => simp [chainAt] at h; subst h; simp
    | 0 :: j :: rest =>
      simp only [chainAt, Option.map_eq_some_iff] at h
      obtain ⟨c', _, rfl⟩ := h
      simp
    | (i + 1) :: rest => exact ihn _ c (by simpa [chainAt] using h)

theorem roleInOf_isSome (env : Path) (tmpl : Option (KV × KV)) (c : List Node) (h : c ≠ []) :
    ∃ r, roleInOf env tmpl c = some r ∧ r.path = pathOf c env := by
  unfold roleInOf
  cases hc : c.reverse with
  | nil => exact absurd (List.reverse_eq_nil_iff.mp hc) h
  | cons me anc => exact ⟨_, rfl, by simp [pathOf, hc]⟩

/-- `sameAt` over two role lists produced from the same addresses. -/
theorem sameAt_filterMap (k : String) (obs : RoleIn → RoleObs) (g0 g : Addr → Option RoleIn) :
    ∀ (L : List Addr),
      (∀ a ∈ L, (g0 a = none ∧ g a = none) ∨
        ∃ r0 r, g0 a = some r0 ∧ g a = some r ∧ lookup (obs r0).stack k = lookup (obs r).stack k ∧
          (lookup (obs r0).stack k).isSome = true) →
      sameAt k ((L.filterMap g0).map obs) ((L.filterMap g).map obs) = true := by
  intro L
  induction L with
  | nil => intro _; rfl
  | cons a rest ih =>
    intro h
    have hrest := ih (fun x hx => h x (by simp [hx]))
    rcases h a (by simp) with ⟨h0, h1⟩ | ⟨r0, r, h0, h1, heq, hsome⟩
    · simpa [List.filterMap_cons, h0, h1] using hrest
    · simp [h0, h1, sameAt, heq, hrest]
      rw [← heq]; exact hsome

theorem mem_keys_lookup (m : KV) (k : String) (h : k ∈ m.map (·.1)) : ∃ v, lookup m k = some v := by
  induction m with
  | nil => cases h
  | cons e rest ih =>
    obtain ⟨a, b⟩ := e
    by_cases hab : a = k
    · exact ⟨b, by simp [lookup, hab]⟩
    · have : k ∈ rest.map (·.1) := by
        simp only [List.map_cons, List.mem_cons] at h
        rcases h with h | h
        · exact absurd h.symm hab
        · exact h
      obtain ⟨v, hv⟩ := ih this
      exact ⟨v, by simp [lookup, hab, hv]⟩

end Vars
